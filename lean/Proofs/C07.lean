/-
  C07 — liquidity / amount math.  Theorems about Demeter.LiqMath (exact context = rational semantics).
-/
import Demeter.LiqMath
import Proofs.Lemmas.Exact
import Mathlib.Tactic.Linarith
import Mathlib.Tactic.FieldSimp
import Mathlib.Tactic.Ring
import Mathlib.Tactic.Positivity
import Mathlib.Algebra.Order.Field.Rat
import Mathlib.Data.Rat.Cast.Order
namespace Demeter

theorem sortPair_lt {a b : Nat} (h : a < b) : sortPair a b = (a, b) := by
  unfold sortPair; rw [if_neg (by omega)]

theorem sortPair_le {a b : Nat} (h : a ≤ b) : sortPair a b = (a, b) := by
  unfold sortPair; rw [if_neg (by omega)]

theorem Q96_pos : 0 < Q96 := by unfold Q96; positivity

/-! ### no over-spend, integer form -/

theorem liq0_no_overspend_nat (sa sb a : Nat) (h : sa < sb) :
    liqForAmount0 sa sb a * Q96 * (sb - sa) ≤ a * (sa * sb) := by
  unfold liqForAmount0 mulDiv
  rw [sortPair_lt h]
  simp only []
  have h1 : a * (sa * sb / Q96) / (sb - sa) * (sb - sa) ≤ a * (sa * sb / Q96) := Nat.div_mul_le_self _ _
  have h2 : sa * sb / Q96 * Q96 ≤ sa * sb := Nat.div_mul_le_self _ _
  calc a * (sa * sb / Q96) / (sb - sa) * Q96 * (sb - sa)
      = (a * (sa * sb / Q96) / (sb - sa) * (sb - sa)) * Q96 := by ring
    _ ≤ (a * (sa * sb / Q96)) * Q96 := Nat.mul_le_mul_right _ h1
    _ = a * (sa * sb / Q96 * Q96) := by ring
    _ ≤ a * (sa * sb) := Nat.mul_le_mul_left _ h2

theorem liq1_no_overspend_nat (sa sb a : Nat) (h : sa < sb) :
    liqForAmount1 sa sb a * (sb - sa) ≤ a * Q96 := by
  unfold liqForAmount1 mulDiv
  rw [sortPair_lt h]
  exact Nat.div_mul_le_self _ _

/-! ### amounts in wei as rationals -/

theorem amount0Wei_eq (sa sb l : Nat) (h : sa < sb) :
    amount0Wei sa sb l = ((l * Q96 * (sb - sa) : Nat) : Rat) / ((sb : Rat) * sa) := by
  unfold amount0Wei; rw [sortPair_lt h]; simp only []; rw [div_div]

theorem amount1Wei_eq (sa sb l : Nat) (h : sa < sb) :
    amount1Wei sa sb l = ((l * (sb - sa) : Nat) : Rat) / Q96 := by
  unfold amount1Wei; rw [sortPair_lt h]

theorem amount0Wei_mono_l (sa sb l l' : Nat) (h : sa < sb) (hl : l ≤ l') :
    amount0Wei sa sb l ≤ amount0Wei sa sb l' := by
  rw [amount0Wei_eq _ _ _ h, amount0Wei_eq _ _ _ h]
  apply div_le_div_of_nonneg_right _ (by positivity)
  exact_mod_cast Nat.mul_le_mul_right _ (Nat.mul_le_mul_right _ hl)

theorem amount1Wei_mono_l (sa sb l l' : Nat) (h : sa < sb) (hl : l ≤ l') :
    amount1Wei sa sb l ≤ amount1Wei sa sb l' := by
  rw [amount1Wei_eq _ _ _ h, amount1Wei_eq _ _ _ h]
  apply div_le_div_of_nonneg_right _ (by positivity)
  exact_mod_cast Nat.mul_le_mul_right _ hl

theorem amount0_no_overspend (sa sb a : Nat) (h0 : 0 < sa) (h : sa < sb) :
    amount0Wei sa sb (liqForAmount0 sa sb a) ≤ a := by
  rw [amount0Wei_eq _ _ _ h]
  have hpos : (0 : Rat) < (sb : Rat) * sa := by
    have : (0 : Rat) < (sa : Rat) := by exact_mod_cast h0
    have : (0 : Rat) < (sb : Rat) := by exact_mod_cast (by omega : 0 < sb)
    positivity
  rw [div_le_iff₀ hpos]
  have := liq0_no_overspend_nat sa sb a h
  have h2 : ((liqForAmount0 sa sb a * Q96 * (sb - sa) : Nat) : Rat) ≤ ((a * (sa * sb) : Nat) : Rat) := by
    exact_mod_cast this
  calc ((liqForAmount0 sa sb a * Q96 * (sb - sa) : Nat) : Rat) ≤ ((a * (sa * sb) : Nat) : Rat) := h2
    _ = (a : Rat) * ((sb : Rat) * sa) := by push_cast; ring

theorem amount1_no_overspend (sa sb a : Nat) (h : sa < sb) :
    amount1Wei sa sb (liqForAmount1 sa sb a) ≤ a := by
  rw [amount1Wei_eq _ _ _ h]
  have hq : (0 : Rat) < (Q96 : Rat) := by exact_mod_cast Q96_pos
  rw [div_le_iff₀ hq]
  exact_mod_cast liq1_no_overspend_nat sa sb a h

/-- position amounts in wei at sqrt price `s` (exact rational semantics of `get_amounts`, before the
    division by `10**decimals`) -/
def amountsWei (s sa sb l : Nat) : Rat × Rat :=
  if s ≤ sa then (amount0Wei sa sb l, 0)
  else if s < sb then (amount0Wei s sb l, amount1Wei sa s l)
  else (0, amount1Wei sa sb l)

/-- **no over-spend**: the liquidity minted from offered wei amounts `a0`, `a1` never needs more than either,
    in all three price regimes. -/
theorem C07_no_overspend (s sa sb a0 a1 : Nat) (h0 : 0 < sa) (h : sa < sb) :
    (amountsWei s sa sb (getLiquidityWei s sa sb a0 a1)).1 ≤ a0 ∧
    (amountsWei s sa sb (getLiquidityWei s sa sb a0 a1)).2 ≤ a1 := by
  unfold amountsWei getLiquidityWei
  rw [sortPair_lt h]
  simp only []
  by_cases h1 : s ≤ sa
  · simp only [h1, if_true]
    exact ⟨amount0_no_overspend sa sb a0 h0 h, by positivity⟩
  · simp only [h1, if_false]
    by_cases h2 : s < sb
    · simp only [h2, if_true]
      have hs : sa < s := by omega
      constructor
      · refine le_trans (amount0Wei_mono_l s sb _ (liqForAmount0 s sb a0) h2 ?_) (amount0_no_overspend s sb a0 (by omega) h2)
        split <;> omega
      · refine le_trans (amount1Wei_mono_l sa s _ (liqForAmount1 sa s a1) hs ?_) (amount1_no_overspend sa s a1 hs)
        split <;> omega
    · simp only [h2, if_false]
      exact ⟨by positivity, amount1_no_overspend sa sb a1 h⟩

/-! ### maximality up to the integer rounding of LiquidityAmounts -/

/-- real-valued maximal liquidity for `a` wei of token0 on `[sa, sb]` -/
def realMax0 (sa sb a : Nat) : Rat := (a : Rat) * sa * sb / (Q96 * ((sb : Rat) - sa))
def realMax1 (sa sb a : Nat) : Rat := (a : Rat) * Q96 / ((sb : Rat) - sa)

theorem C07_maximal0 (sa sb a : Nat) (h : sa < sb) :
    realMax0 sa sb a - liqForAmount0 sa sb a < 1 + (a : Rat) / ((sb : Rat) - sa) := by
  unfold realMax0 liqForAmount0 mulDiv
  rw [sortPair_lt h]
  simp only []
  have hd : (0 : Rat) < (sb : Rat) - sa := by
    have : (sa : Rat) < sb := by exact_mod_cast h
    linarith
  have hq : (0 : Rat) < (Q96 : Rat) := by exact_mod_cast Q96_pos
  -- I = floor(sa*sb/Q96) > sa*sb/Q96 - 1
  have hI : ((sa : Rat) * sb) / Q96 < ((sa * sb / Q96 : Nat) : Rat) + 1 := by
    rw [div_lt_iff₀ hq]
    have := Nat.lt_div_mul_add (a := sa * sb) (b := Q96) Q96_pos
    have h2 : ((sa * sb : Nat) : Rat) < ((sa * sb / Q96 * Q96 + Q96 : Nat) : Rat) := by exact_mod_cast this
    push_cast at h2 ⊢
    linarith
  -- L = floor(a*I/(sb-sa)) > a*I/(sb-sa) - 1
  have hsub : ((sb - sa : Nat) : Rat) = (sb : Rat) - sa := by
    rw [Nat.cast_sub (by omega)]
  have hL : ((a : Rat) * ((sa * sb / Q96 : Nat) : Rat)) / ((sb : Rat) - sa)
      < ((a * (sa * sb / Q96) / (sb - sa) : Nat) : Rat) + 1 := by
    rw [div_lt_iff₀ hd]
    have := Nat.lt_div_mul_add (a := a * (sa * sb / Q96)) (b := sb - sa) (by omega)
    have h2 : ((a * (sa * sb / Q96) : Nat) : Rat)
        < ((a * (sa * sb / Q96) / (sb - sa) * (sb - sa) + (sb - sa) : Nat) : Rat) := by exact_mod_cast this
    rw [Nat.cast_add, Nat.cast_mul, Nat.cast_mul, hsub] at h2
    linarith
  have ha : (0 : Rat) ≤ a := by positivity
  -- a*sa*sb/(Q96*(sb-sa)) = a * (sa*sb/Q96) / (sb - sa) < a * (I+1)/(sb-sa)
  have e : (a : Rat) * sa * sb / (Q96 * ((sb : Rat) - sa)) = (a : Rat) * (((sa : Rat) * sb) / Q96) / ((sb : Rat) - sa) := by
    field_simp
  rw [e]
  have h3 : (a : Rat) * (((sa : Rat) * sb) / Q96) / ((sb : Rat) - sa)
      ≤ (a : Rat) * (((sa * sb / Q96 : Nat) : Rat) + 1) / ((sb : Rat) - sa) := by
    apply div_le_div_of_nonneg_right _ hd.le
    exact mul_le_mul_of_nonneg_left hI.le ha
  have h4 : (a : Rat) * (((sa * sb / Q96 : Nat) : Rat) + 1) / ((sb : Rat) - sa)
      = (a : Rat) * ((sa * sb / Q96 : Nat) : Rat) / ((sb : Rat) - sa) + (a : Rat) / ((sb : Rat) - sa) := by
    field_simp
  linarith

theorem C07_maximal1 (sa sb a : Nat) (h : sa < sb) :
    realMax1 sa sb a - liqForAmount1 sa sb a < 1 := by
  unfold realMax1 liqForAmount1 mulDiv
  rw [sortPair_lt h]
  simp only []
  have hd : (0 : Rat) < (sb : Rat) - sa := by
    have : (sa : Rat) < sb := by exact_mod_cast h
    linarith
  have hsub : ((sb - sa : Nat) : Rat) = (sb : Rat) - sa := by rw [Nat.cast_sub (by omega)]
  have hL : ((a : Rat) * Q96) / ((sb : Rat) - sa) < ((a * Q96 / (sb - sa) : Nat) : Rat) + 1 := by
    rw [div_lt_iff₀ hd]
    have := Nat.lt_div_mul_add (a := a * Q96) (b := sb - sa) (by omega)
    have h2 : ((a * Q96 : Nat) : Rat) < ((a * Q96 / (sb - sa) * (sb - sa) + (sb - sa) : Nat) : Rat) := by exact_mod_cast this
    rw [Nat.cast_add, Nat.cast_mul, Nat.cast_mul, hsub] at h2
    linarith
  linarith

/-! ### one-sidedness, non-negativity, monotonicity in price, linearity, closed form -/

theorem C07_one_sided_below (s sa sb l : Nat) (h : s ≤ sa) : (amountsWei s sa sb l).2 = 0 := by
  unfold amountsWei; simp [h]

theorem C07_one_sided_above (s sa sb l : Nat) (hab : sa < sb) (h : sb ≤ s) : (amountsWei s sa sb l).1 = 0 := by
  unfold amountsWei
  rw [if_neg (by omega), if_neg (by omega)]

theorem C07_both_inside (s sa sb l : Nat) (h1 : sa < s) (h2 : s < sb) (hl : 0 < l) (h0 : 0 < sa) :
    0 < (amountsWei s sa sb l).1 ∧ 0 < (amountsWei s sa sb l).2 := by
  unfold amountsWei
  rw [if_neg (by omega), if_pos h2]
  simp only []
  rw [amount0Wei_eq _ _ _ h2, amount1Wei_eq _ _ _ h1]
  have hq := Q96_pos
  constructor
  · apply div_pos
    · have : 0 < l * Q96 * (sb - s) := Nat.mul_pos (Nat.mul_pos hl hq) (by omega)
      exact_mod_cast this
    · have a : (0 : Rat) < (sb : Rat) := by exact_mod_cast (by omega : 0 < sb)
      have b : (0 : Rat) < (s : Rat) := by exact_mod_cast (by omega : 0 < s)
      positivity
  · apply div_pos
    · have : 0 < l * (s - sa) := Nat.mul_pos hl (by omega)
      exact_mod_cast this
    · exact_mod_cast hq

theorem amount0Wei_nonneg (sa sb l : Nat) : 0 ≤ amount0Wei sa sb l := by
  unfold amount0Wei; simp only []; positivity

theorem amount1Wei_nonneg (sa sb l : Nat) : 0 ≤ amount1Wei sa sb l := by
  unfold amount1Wei; simp only []; positivity

theorem C07_nonneg (s sa sb l : Nat) : 0 ≤ (amountsWei s sa sb l).1 ∧ 0 ≤ (amountsWei s sa sb l).2 := by
  unfold amountsWei
  split
  · exact ⟨amount0Wei_nonneg _ _ _, le_refl _⟩
  · split
    · exact ⟨amount0Wei_nonneg _ _ _, amount1Wei_nonneg _ _ _⟩
    · exact ⟨le_refl _, amount1Wei_nonneg _ _ _⟩

/-- closed form: `amount0 = L·(2^96/s − 2^96/sb)` i.e. `L·(1/√P − 1/√P_b)`, `amount1 = L·(s − sa)/2^96 = L·(√P − √P_a)` -/
theorem C07_closed_form0 (s sb l : Nat) (h0 : 0 < s) (h : s < sb) :
    amount0Wei s sb l = (l : Rat) * ((Q96 : Rat) / s - (Q96 : Rat) / sb) := by
  rw [amount0Wei_eq _ _ _ h]
  have a : (sb : Rat) ≠ 0 := by exact_mod_cast (by omega : sb ≠ 0)
  have b : (s : Rat) ≠ 0 := by exact_mod_cast (by omega : s ≠ 0)
  rw [Nat.cast_mul, Nat.cast_mul, Nat.cast_sub (by omega)]
  field_simp

theorem C07_closed_form1 (sa s l : Nat) (h : sa < s) :
    amount1Wei sa s l = (l : Rat) * ((s : Rat) / Q96 - (sa : Rat) / Q96) := by
  rw [amount1Wei_eq _ _ _ h]
  rw [Nat.cast_mul, Nat.cast_sub (by omega)]
  ring

/-- token0 amount is non-increasing and token1 amount non-decreasing in the price, across the branch boundaries -/
theorem C07_mono_price (s s' sa sb l : Nat) (h0 : 0 < sa) (hab : sa < sb) (hss : s ≤ s') :
    (amountsWei s' sa sb l).1 ≤ (amountsWei s sa sb l).1 ∧
    (amountsWei s sa sb l).2 ≤ (amountsWei s' sa sb l).2 := by
  have hq : (0 : Rat) < (Q96 : Rat) := by exact_mod_cast Q96_pos
  have hl : (0 : Rat) ≤ (l : Rat) := by positivity
  have hsb : (0 : Rat) < (sb : Rat) := by exact_mod_cast (by omega : 0 < sb)
  have hsa : (0 : Rat) < (sa : Rat) := by exact_mod_cast h0
  -- amount0 on [x, sb] as a function of x, amount1 on [sa, x]
  have A0 : ∀ x y : Nat, 0 < x → x ≤ y → y < sb → amount0Wei y sb l ≤ amount0Wei x sb l := by
    intro x y hx hxy hy
    rw [C07_closed_form0 y sb l (by omega) hy, C07_closed_form0 x sb l hx (by omega)]
    apply mul_le_mul_of_nonneg_left _ hl
    have hx' : (0 : Rat) < (x : Rat) := by exact_mod_cast hx
    have hxy' : (x : Rat) ≤ (y : Rat) := by exact_mod_cast hxy
    have : (Q96 : Rat) / y ≤ (Q96 : Rat) / x := div_le_div_of_nonneg_left hq.le hx' hxy'
    linarith
  have A1 : ∀ x y : Nat, sa < x → x ≤ y → amount1Wei sa x l ≤ amount1Wei sa y l := by
    intro x y hx hxy
    rw [C07_closed_form1 sa x l hx, C07_closed_form1 sa y l (by omega)]
    apply mul_le_mul_of_nonneg_left _ hl
    have hxy' : (x : Rat) ≤ (y : Rat) := by exact_mod_cast hxy
    have : (x : Rat) / Q96 ≤ (y : Rat) / Q96 := div_le_div_of_nonneg_right hxy' hq.le
    linarith
  unfold amountsWei
  by_cases c1 : s ≤ sa
  · by_cases c1' : s' ≤ sa
    · simp [c1, c1']
    · by_cases c2' : s' < sb
      · simp only [c1, c1', c2', if_true, if_false]
        exact ⟨A0 sa s' h0 (by omega) c2', amount1Wei_nonneg _ _ _⟩
      · simp only [c1, c1', c2', if_true, if_false]
        exact ⟨amount0Wei_nonneg _ _ _, amount1Wei_nonneg _ _ _⟩
  · have c1' : ¬ s' ≤ sa := by omega
    by_cases c2 : s < sb
    · by_cases c2' : s' < sb
      · simp only [c1, c1', c2, c2', if_true, if_false]
        exact ⟨A0 s s' (by omega) hss c2', A1 s s' (by omega) hss⟩
      · simp only [c1, c1', c2, c2', if_true, if_false]
        exact ⟨amount0Wei_nonneg _ _ _, A1 s sb (by omega) (by omega)⟩
    · have c2' : ¬ s' < sb := by omega
      simp [c1, c1', c2, c2']

/-- amounts are proportional to liquidity -/
theorem C07_linear (s sa sb l k : Nat) :
    amountsWei s sa sb (k * l) = ((k : Rat) * (amountsWei s sa sb l).1, (k : Rat) * (amountsWei s sa sb l).2) := by
  have e0 : ∀ x y, amount0Wei x y (k * l) = (k : Rat) * amount0Wei x y l := by
    intro x y; unfold amount0Wei; simp only []; push_cast; ring
  have e1 : ∀ x y, amount1Wei x y (k * l) = (k : Rat) * amount1Wei x y l := by
    intro x y; unfold amount1Wei; simp only []; push_cast; ring
  unfold amountsWei
  split
  · simp [e0]
  · split <;> simp [e0, e1]

/-! ### the model's `get_amounts` in the exact context is `amountsWei / 10^decimals` -/

theorem getAmountsS_exact (s sa sb l d0 d1 : Nat) (h : sa < sb) :
    getAmountsS NumCtx.exact s sa sb l d0 d1 =
      ((amountsWei s sa sb l).1 / (pow10 d0 : Nat), (amountsWei s sa sb l).2 / (pow10 d1 : Nat)) := by
  unfold getAmountsS amountsWei getAmount0 getAmount1 amount0Wei amount1Wei NumCtx.div NumCtx.exact
  rw [sortPair_lt h]
  simp only [id]
  split
  · rw [sortPair_lt h]; simp
  · split
    · rename_i h1 h2
      rw [sortPair_lt h2, sortPair_lt (by omega : sa < s)]
    · rw [sortPair_lt h]; simp

/-- **round trip**: closing a position at the sqrt price it was opened at returns exactly the amounts that
    opening it used, in every arithmetic context that maps 0 to 0 (the `liquidity == 0` shortcut of
    `get_token_amounts` is the only place where the two code paths differ). -/
theorem C07_roundtrip (cx : NumCtx) (hr : cx.rnd 0 = 0) (s : Nat) (ta tb : Int) (a0 a1 : Rat) (d0 d1 : Nat)
    (u0 u1 : Rat) (l : Int) (h : newPosition cx s ta tb a0 a1 d0 d1 = some (u0, u1, l)) :
    closePosition cx s ta tb l.toNat d0 d1 = (u0, u1) := by
  unfold newPosition at h
  split at h
  · exact absurd h (by simp)
  · rename_i l' _
    simp only [Option.some.injEq, Prod.mk.injEq] at h
    obtain ⟨h0, h1, h2⟩ := h
    subst h2
    unfold closePosition
    split
    · rename_i hl
      rw [hl] at h0 h1
      rw [← h0, ← h1]
      unfold getAmounts getAmountsS getAmount0 getAmount1 NumCtx.div
      simp only [Nat.zero_mul, Nat.cast_zero, zero_div, hr]
      split <;> (try split) <;> simp
    · rw [← h0, ← h1]

/-! ### non-vacuity -/
example : (0 : Nat) < 4295128739 ∧ 4295128739 < Q96 := by unfold Q96; decide
example : getLiquidityWei Q96 (Q96 / 2) (2 * Q96) 1000000 1000000 = 2000000 := by decide +kernel

end Demeter
