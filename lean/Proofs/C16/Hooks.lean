/-
  C16, the bar the driver replays — `runBarX` (Demeter/Deribit/Run.lean): the strategy's calls of `before_bar`/`on_bar`, then
  `update()`, then the calls made in `after_bar`, then the account row (`get_market_balance`), then — when the bar recorded an
  action — the calls made from `Strategy.notify`.  Proofs/C16/Trades.lean and General.lean are about `runBar` (no late hooks).

  What the late hooks can and cannot do, per bar (`L` = the late calls, none of them `update()`):
    * `update()` runs on the same state as in `runBar` (`midState`), so what is settled, and the Expired records written, are those of
      `runBar`; the late calls write no Expired record and keep the keys unique (`expiredCount_runBarX`);
    * a position OPENED by a late call on an on-grid bar at/after its expiry (the data still lists the expired instrument as open)
      is NOT settled in that bar — `update()` has already run; it is in the bar's final state, it is due, and the next on-grid
      bar settles it (one bar late).  `C16_barX_due_survivor_was_opened_by_a_late_hook`: that is the only way a due position can be
      left after an on-grid bar: its key is named by a late call AND the bar's book lists it as open.
  Run level: Proofs/C16/HooksRun.lean.
-/
import Proofs.C16.General
import Proofs.C16.Guard
namespace Demeter
open Demeter.Deribit

namespace Deribit

/-- a bar with its late hooks: (bar, calls in `after_bar`, calls in `notify`) -/
abbrev XBar := Bar × List Op × List Op

/-- the bar loop the driver replays -/
def runBarsX (cx : DCtx) (c : TokenCfg) : DState → List XBar → DState
  | s, [] => s
  | s, x :: xs => runBarsX cx c (runBarX cx c s x.1 x.2.1 x.2.2).state xs

theorem runBarsX_append (cx : DCtx) (c : TokenCfg) (l1 l2 : List XBar) (s0 : DState) :
    runBarsX cx c s0 (l1 ++ l2) = runBarsX cx c (runBarsX cx c s0 l1) l2 := by
  induction l1 generalizing s0 with
  | nil => rfl
  | cons x xs ih => exact ih _

/-- none of the strategy's calls in the bar, early or late, is `update()` -/
def NoUpdateX (x : XBar) : Prop := NoUpdate x.1 ∧ (∀ o ∈ x.2.1, o ≠ Op.update) ∧ (∀ o ∈ x.2.2, o ≠ Op.update)

/-- no call of the bar, early or late, names instrument `k` -/
def AvoidsX (k : String) (x : XBar) : Prop := Avoids k x.1 ∧ (∀ o ∈ x.2.1, o.key ≠ some k) ∧ (∀ o ∈ x.2.2, o.key ≠ some k)

/-- the late calls of a bar name instrument `k` nowhere -/
def LateAvoids (k : String) (x : XBar) : Prop := (∀ o ∈ x.2.1, o.key ≠ some k) ∧ (∀ o ∈ x.2.2, o.key ≠ some k)

/-- the state right after the bar's `update()` -/
def postUpdate (cx : DCtx) (c : TokenCfg) (s : DState) (b : Bar) : DState := update cx c (midState cx c s b)

/-- does `Strategy.notify` run: the bar recorded an action -/
def fires (cx : DCtx) (c : TokenCfg) (s : DState) (b : Bar) (after : List Op) : Bool :=
  (getMarketBalance cx c (runOpsO cx c (postUpdate cx c s b) after).2.1).2.actions.length != s.actions.length

/-- everything that runs after `update()`: `after_bar`, the account row's balance read, `notify` if it fires -/
def lateOps (fire : Bool) (after notify : List Op) : List Op := after ++ Op.balance :: (if fire then notify else [])

theorem runOpsO_append_state (cx : DCtx) (c : TokenCfg) (l1 l2 : List Op) (s : DState) :
    (runOpsO cx c s (l1 ++ l2)).2.1 = (runOpsO cx c (runOpsO cx c s l1).2.1 l2).2.1 := by
  induction l1 generalizing s with
  | nil => rfl
  | cons o os ih => simp only [List.cons_append, runOpsO_cons]; exact ih _

/-- the bar's final state: the late calls run, one after the other, on the state `update()` left -/
theorem runBarX_state (cx : DCtx) (c : TokenCfg) (s : DState) (b : Bar) (after notify : List Op) :
    (runBarX cx c s b after notify).state =
      (runOpsO cx c (postUpdate cx c s b) (lateOps (fires cx c s b after) after notify)).2.1 := by
  have h : (runBarX cx c s b after notify).state =
      (if fires cx c s b after = true then
          runOpsO cx c (getMarketBalance cx c (runOpsO cx c (postUpdate cx c s b) after).2.1).2 notify
        else ([], (getMarketBalance cx c (runOpsO cx c (postUpdate cx c s b) after).2.1).2, false)).2.1 := rfl
  rw [h]
  unfold lateOps
  rw [runOpsO_append_state, runOpsO_cons]
  by_cases hf : fires cx c s b after = true
  · simp only [hf, if_true]; rfl
  · simp only [hf]; rfl

theorem lateOps_noUpdate (fire : Bool) (after notify : List Op) (ha : ∀ o ∈ after, o ≠ Op.update) (hnf : ∀ o ∈ notify, o ≠ Op.update) :
    ∀ o ∈ lateOps fire after notify, o ≠ Op.update := by
  intro o ho
  unfold lateOps at ho
  rcases List.mem_append.mp ho with h | h
  · exact ha o h
  · rcases List.mem_cons.mp h with rfl | h
    · intro h; cases h
    · cases fire
      · simp at h
      · exact hnf o (by simpa using h)

theorem lateOps_avoids (k : String) (fire : Bool) (after notify : List Op) (ha : ∀ o ∈ after, o.key ≠ some k)
    (hnf : ∀ o ∈ notify, o.key ≠ some k) : ∀ o ∈ lateOps fire after notify, o.key ≠ some k := by
  intro o ho
  unfold lateOps at ho
  rcases List.mem_append.mp ho with h | h
  · exact ha o h
  · rcases List.mem_cons.mp h with rfl | h
    · intro h; cases h
    · cases fire
      · simp at h
      · exact hnf o (by simpa using h)

/-- the book after one call of the strategy: untouched, or one side of one row replaced -/
theorem step_book_cases (cx : DCtx) (c : TokenCfg) (s : DState) (o : Op) (ho : o ≠ .update) :
    (step cx c s o).2.book = s.book ∨ (∃ n ls, (step cx c s o).2.book = setAsks s.book n ls) ∨
      (∃ n ls, (step cx c s o).2.book = setBids s.book n ls) := by
  cases o with
  | update => exact absurd rfl ho
  | buy r =>
    rcases hb : buy cx c s r with ⟨out, s'⟩
    simp only [step, hb]
    cases out with
    | error e => rw [buy_err hb]; exact Or.inl rfl
    | ok res =>
      obtain ⟨_, ck, _, fills, prem, fee, _, _, _, _, _, _, hs'⟩ := buy_ok hb
      rw [hs']; exact Or.inr (Or.inl ⟨_, _, rfl⟩)
  | sell r =>
    rcases hb : sell cx c s r with ⟨out, s'⟩
    simp only [step, hb]
    cases out with
    | error e => rw [sell_err hb]; exact Or.inl rfl
    | ok res =>
      obtain ⟨_, ck, p0, bids, _, _, _, _, fills, prem, fee, _, _, _, _, hs'⟩ := sell_ok hb
      rw [hs']; exact Or.inr (Or.inr ⟨_, _, rfl⟩)
  | deposit a =>
    rcases hd : deposit cx c s a with ⟨out, s'⟩
    simp only [step, hd]
    cases out with
    | error e => rw [deposit_err hd]; exact Or.inl rfl
    | ok res =>
      unfold deposit at hd
      split at hd
      · simp at hd
      · split at hd
        · simp at hd
        · simp at hd
        · simp only [Prod.mk.injEq] at hd
          obtain ⟨_, hs⟩ := hd
          subst hs
          exact Or.inl rfl
  | withdraw a =>
    rcases hd : withdraw cx c s a with ⟨out, s'⟩
    simp only [step, hd]
    cases out with
    | error e => rw [withdraw_err hd]; exact Or.inl rfl
    | ok res =>
      unfold withdraw at hd
      split at hd
      · simp at hd
      · simp only [] at hd
        split at hd
        · simp at hd
        · simp only [Prod.mk.injEq] at hd
          obtain ⟨_, hs⟩ := hd
          subst hs
          exact Or.inl rfl
  | balance =>
    simp only [step, getMarketBalance]
    split
    · exact Or.inl rfl
    · split
      · exact Or.inl rfl
      · split <;> exact Or.inl rfl

/-- a book that does not list `k` as open stays so through any calls of the strategy -/
theorem runOpsO_closed (cx : DCtx) (c : TokenCfg) (ops : List Op) (s : DState) (hops : ∀ o ∈ ops, o ≠ Op.update) (k : String)
    (hbook : ∀ i ∈ s.book, i.name = k → i.stateOpen = false) :
    ∀ i ∈ (runOpsO cx c s ops).2.1.book, i.name = k → i.stateOpen = false := by
  induction ops generalizing s with
  | nil => exact hbook
  | cons o os ih =>
    rw [runOpsO_cons]
    apply ih _ (fun o' ho' => hops o' (List.mem_cons_of_mem _ ho'))
    rcases step_book_cases cx c s o (hops o List.mem_cons_self) with h | ⟨n, ls, h⟩ | ⟨n, ls, h⟩
    · rw [h]; exact hbook
    · rw [h]; exact closed_setAsks hbook n ls
    · rw [h]; exact closed_setBids hbook n ls

/-- absent and not listed as open: stays absent, and the book stays closed for it -/
theorem runOpsO_absent_closed (cx : DCtx) (c : TokenCfg) (ops : List Op) (s : DState) (hops : ∀ o ∈ ops, o ≠ Op.update) (k : String)
    (hbook : ∀ i ∈ s.book, i.name = k → i.stateOpen = false) (habs : k ∉ s.positions.map Prod.fst) :
    k ∉ (runOpsO cx c s ops).2.1.positions.map Prod.fst := runOpsO_absent cx c ops s hops k hbook habs

theorem midState_closed (cx : DCtx) (c : TokenCfg) (s : DState) (b : Bar) (hops : NoUpdate b) (k : String)
    (hbook : ∀ i ∈ b.book, i.name = k → i.stateOpen = false) :
    ∀ i ∈ (midState cx c s b).book, i.name = k → i.stateOpen = false := by
  unfold midState
  split
  · exact hbook
  · exact runOpsO_closed cx c b.ops (setStatus s b) hops k hbook

/-- an instrument the book does not list as open cannot be sold either -/
theorem sell_refused_when_not_listed_open (cx : DCtx) (c : TokenCfg) (s : DState) (r : Req)
    (h : ∀ i ∈ s.book, i.name = r.name → i.stateOpen = false) : ∃ e, sell cx c s r = (.error e, s) := by
  rcases hb : sell cx c s r with ⟨out, s'⟩
  cases out with
  | error e => exact ⟨e, by rw [sell_err hb]⟩
  | ok res =>
    exfalso
    obtain ⟨_, ck, p0, bids, hck, _⟩ := sell_ok hb
    obtain ⟨⟨ins0, hfind, hnorm⟩, hopen, _⟩ := checkTx_ok hck
    have hname : ins0.name = r.name := by have := List.find?_some hfind; simpa using this
    have := h ins0 (findInstr_mem hfind) hname
    rw [hnorm] at hopen
    simp only [normInstr] at hopen
    rw [this] at hopen; cases hopen

theorem runOpsO_single (cx : DCtx) (c : TokenCfg) (s : DState) (o : Op) : (runOpsO cx c s [o]).2.1 = (step cx c s o).2 := rfl

/-- while the book does not list `k` as open, no call of the strategy changes what is held under `k` -/
theorem runOpsO_closed_keeps (cx : DCtx) (c : TokenCfg) (ops : List Op) (s : DState) (hops : ∀ o ∈ ops, o ≠ Op.update)
    (hn : KeysNodup s) (k : String) (hbook : ∀ i ∈ s.book, i.name = k → i.stateOpen = false) :
    ∀ p, (k, p) ∈ (runOpsO cx c s ops).2.1.positions ↔ (k, p) ∈ s.positions := by
  induction ops generalizing s with
  | nil => exact fun _ => Iff.rfl
  | cons o os ih =>
    have ho := hops o List.mem_cons_self
    obtain ⟨_, g2, _, g4⟩ := runOpsO_frame cx c [o] s (by intro o' h; rw [List.mem_singleton.mp h]; exact ho) hn
    rw [runOpsO_single] at g2 g4
    have hb' : ∀ i ∈ (step cx c s o).2.book, i.name = k → i.stateOpen = false := by
      rcases step_book_cases cx c s o ho with h | ⟨n, ls, h⟩ | ⟨n, ls, h⟩
      · rw [h]; exact hbook
      · rw [h]; exact closed_setAsks hbook n ls
      · rw [h]; exact closed_setBids hbook n ls
    have hstep : ∀ p, (k, p) ∈ (step cx c s o).2.positions ↔ (k, p) ∈ s.positions := by
      by_cases hk : o.key = some k
      · cases o with
        | buy r =>
          have hr : r.name = k := by simpa [Op.key] using hk
          obtain ⟨e, he⟩ := buy_refused_when_not_listed_open cx c s r (by rw [hr]; exact hbook)
          simp only [step, he]; exact fun _ => trivial
        | sell r =>
          have hr : r.name = k := by simpa [Op.key] using hk
          obtain ⟨e, he⟩ := sell_refused_when_not_listed_open cx c s r (by rw [hr]; exact hbook)
          simp only [step, he]; exact fun _ => trivial
        | deposit a => simp [Op.key] at hk
        | withdraw a => simp [Op.key] at hk
        | balance => simp [Op.key] at hk
        | update => simp [Op.key] at hk
      · exact g4 k (by intro o' h; rw [List.mem_singleton.mp h]; exact hk)
    intro p
    rw [runOpsO_cons, ih _ (fun o' ho' => hops o' (List.mem_cons_of_mem _ ho')) g2 hb' p]
    exact hstep p

/-- `midState_expP` with the book part -/
theorem midState_expP2 (cx : DCtx) (c : TokenCfg) (s : DState) (b : Bar) (hops : NoUpdate b)
    (k : String) (P : Int → Prop) (hpos : ∀ p, (k, p) ∈ s.positions → P p.expiry) (hbook : ∀ i ∈ b.book, i.name = k → P i.expiry) :
    ExpP P k (midState cx c s b) := by
  have h := runOpsO_expP cx c b.ops (setStatus s b) hops k P ⟨hpos, hbook⟩
  unfold midState
  split
  · exact ⟨h.1, hbook⟩
  · exact h

/-- what `update()` leaves: the clock of the bar, unique keys, a sub-dict of what it found, the same book -/
theorem postUpdate_frame (cx : DCtx) (c : TokenCfg) (s : DState) (b : Bar) (hops : NoUpdate b) (hn : KeysNodup s) :
    (postUpdate cx c s b).now = b.now ∧ KeysNodup (postUpdate cx c s b) ∧
    (∀ kp ∈ (postUpdate cx c s b).positions, kp ∈ (midState cx c s b).positions) ∧
    (postUpdate cx c s b).book = (midState cx c s b).book ∧
    (postUpdate cx c s b).positions = (runBar cx c s b).state.positions ∧
    (∀ k, expiredCount k (postUpdate cx c s b).actions = expiredCount k (runBar cx c s b).state.actions) := by
  obtain ⟨hnow, _, hn2, _, _⟩ := midState_frame cx c s b hops hn
  obtain ⟨_, hn'⟩ := expiredCount_runBar_trades cx c s b hops hn ""
  obtain ⟨hb, _, _, hnw, _⟩ := C16_update_frame cx c (midState cx c s b)
  refine ⟨by unfold postUpdate; rw [hnw, hnow], ?_, update_sub cx c _ hn2, hb, (runBar_mid cx c s b).1.symm, ?_⟩
  · unfold KeysNodup at hn' ⊢
    rw [(runBar_mid cx c s b).1] at hn'
    exact hn'
  · intro k; rw [(runBar_mid cx c s b).2.1]; rfl

/-- **the late hooks settle nothing and un-settle nothing**: a bar with late hooks writes exactly the Expired records of the bar
    without them — one for key `k` iff the bar is on the grid and a position under `k` existed and was due when `update()` ran -/
theorem expiredCount_runBarX (cx : DCtx) (c : TokenCfg) (s : DState) (x : XBar) (hx : NoUpdateX x) (hn : KeysNodup s) (k : String) :
    expiredCount k (runBarX cx c s x.1 x.2.1 x.2.2).state.actions =
      expiredCount k s.actions + (if settlesKey cx c s x.1 k then 1 else 0) ∧
    KeysNodup (runBarX cx c s x.1 x.2.1 x.2.2).state ∧ (runBarX cx c s x.1 x.2.1 x.2.2).state.now = x.1.now := by
  obtain ⟨hb, ha, hnf⟩ := hx
  obtain ⟨hnow, hnu, _, _, _, hcnt⟩ := postUpdate_frame cx c s x.1 hb hn
  obtain ⟨hcount, _⟩ := expiredCount_runBar_trades cx c s x.1 hb hn k
  obtain ⟨f1, f2, f3, _⟩ := runOpsO_frame cx c (lateOps (fires cx c s x.1 x.2.1) x.2.1 x.2.2) (postUpdate cx c s x.1)
    (lateOps_noUpdate _ _ _ ha hnf) hnu
  rw [runBarX_state]
  refine ⟨?_, f2, f1.trans hnow⟩
  rw [f3 k, hcnt k, hcount]
  simp only [settlesKey]

end Deribit

/-- **one bar with late hooks: exactly the positions due when `update()` runs are settled, each exactly once.**  `runBarX` is the bar
    the driver replays.  On an on-grid bar, whatever the strategy did before `update()`: a position that exists at that moment and is
    due is removed by `update()` with exactly one Expired record for its key, whatever the late hooks do afterwards; a position not yet
    due gets none, and survives the bar unless a late hook sells it.  Off the grid nothing is settled. -/
theorem C16_barX_any_trades_settles_exactly_the_due (cx : DCtx) (c : TokenCfg) (s : DState) (x : Deribit.XBar)
    (hx : Deribit.NoUpdateX x) (hn : Deribit.KeysNodup s) (k : String) (p : Position)
    (hmem : (k, p) ∈ (Deribit.midState cx c s x.1).positions) :
    ((x.1.now % (Gen.deribitFreqMinutes : Int) == 0) = true ∧ p.expiry ≤ x.1.now →
        k ∉ (Deribit.postUpdate cx c s x.1).positions.map Prod.fst ∧
        Deribit.expiredCount k (runBarX cx c s x.1 x.2.1 x.2.2).state.actions = Deribit.expiredCount k s.actions + 1) ∧
    (¬ ((x.1.now % (Gen.deribitFreqMinutes : Int) == 0) = true ∧ p.expiry ≤ x.1.now) →
        (k, p) ∈ (Deribit.postUpdate cx c s x.1).positions ∧
        Deribit.expiredCount k (runBarX cx c s x.1 x.2.1 x.2.2).state.actions = Deribit.expiredCount k s.actions ∧
        (Deribit.LateAvoids k x → (k, p) ∈ (runBarX cx c s x.1 x.2.1 x.2.2).state.positions)) := by
  obtain ⟨h1, h2⟩ := C16_bar_any_trades_settles_exactly_the_due cx c s x.1 hx.1 hn k p hmem
  obtain ⟨_, hnu, _, _, hpos, hcnt⟩ := Deribit.postUpdate_frame cx c s x.1 hx.1 hn
  obtain ⟨hc, _, _⟩ := Deribit.expiredCount_runBarX cx c s x hx hn k
  obtain ⟨hc0, _⟩ := Deribit.expiredCount_runBar_trades cx c s x.1 hx.1 hn k
  have hceq : Deribit.expiredCount k (runBarX cx c s x.1 x.2.1 x.2.2).state.actions =
      Deribit.expiredCount k (runBar cx c s x.1).state.actions := by
    rw [hc, hc0]; simp only [Deribit.settlesKey]
  constructor
  · intro hd
    obtain ⟨g1, g2⟩ := h1 hd
    exact ⟨by rw [hpos]; exact g1, by rw [hceq]; exact g2⟩
  · intro hd
    obtain ⟨g1, g2⟩ := h2 hd
    refine ⟨by rw [hpos]; exact g1, by rw [hceq]; exact g2, ?_⟩
    intro hl
    obtain ⟨_, _, _, f4⟩ := Deribit.runOpsO_frame cx c (Deribit.lateOps (Deribit.fires cx c s x.1 x.2.1) x.2.1 x.2.2)
      (Deribit.postUpdate cx c s x.1) (Deribit.lateOps_noUpdate _ _ _ hx.2.1 hx.2.2) hnu
    rw [Deribit.runBarX_state]
    exact (f4 k (Deribit.lateOps_avoids k _ _ _ hl.1 hl.2) p).mpr (by rw [hpos]; exact g1)

/-- **what holds for a position opened after `update()`**: after an on-grid bar a position that is due can only be one that a late
    hook (`after_bar` / `notify`) opened in this very bar — some late call names its key, and the bar's book lists that instrument as
    open although it has expired.  (It has missed this bar's `update()`; being due, it is settled by the `update()` of the next on-grid
    bar in which it is still held: `C16_barX_any_trades_settles_exactly_the_due` at that bar — one bar late.)  Conversely, when the
    late hooks do not name `k` or the book does not list `k` as open, no due position under `k` is left after an on-grid bar. -/
theorem C16_barX_due_survivor_was_opened_by_a_late_hook (cx : DCtx) (c : TokenCfg) (s : DState) (x : Deribit.XBar)
    (hx : Deribit.NoUpdateX x) (hn : Deribit.KeysNodup s) (hg : (x.1.now % (Gen.deribitFreqMinutes : Int) == 0) = true)
    (k : String) (p : Position) (hmem : (k, p) ∈ (runBarX cx c s x.1 x.2.1 x.2.2).state.positions) (hdue : p.expiry ≤ x.1.now) :
    (k, p) ∉ (Deribit.postUpdate cx c s x.1).positions ∧
    ¬ Deribit.LateAvoids k x ∧ ¬ (∀ i ∈ x.1.book, i.name = k → i.stateOpen = false) := by
  obtain ⟨_, hnu, hsub, hbook, hpos, _⟩ := Deribit.postUpdate_frame cx c s x.1 hx.1 hn
  have hL := Deribit.lateOps_noUpdate (Deribit.fires cx c s x.1 x.2.1) x.2.1 x.2.2 hx.2.1 hx.2.2
  obtain ⟨_, f2, _, f4⟩ := Deribit.runOpsO_frame cx c _ (Deribit.postUpdate cx c s x.1) hL hnu
  have hnot : (k, p) ∉ (Deribit.postUpdate cx c s x.1).positions := by
    intro hkp
    rw [hpos] at hkp
    have := C16_bar_with_trades_leaves_nothing_due cx c s x.1 hx.1 hn hg (k, p) hkp
    simp only [] at this
    omega
  rw [Deribit.runBarX_state] at hmem
  refine ⟨hnot, ?_, ?_⟩
  · intro hl
    exact hnot ((f4 k (Deribit.lateOps_avoids k _ _ _ hl.1 hl.2) p).mp hmem)
  · intro hcl
    have hub : ∀ i ∈ (Deribit.postUpdate cx c s x.1).book, i.name = k → i.stateOpen = false := by
      rw [hbook]; exact Deribit.midState_closed cx c s x.1 hx.1 k hcl
    exact hnot ((Deribit.runOpsO_closed_keeps cx c _ _ hL hnu k hub p).mp hmem)

/-- the bar with the exception of `update()` (`runBarXE` would be `Actuator.run` stopping): under the guard on the state `update()`
    runs on, the code's `update()` returns normally and the bar is `runBarX` -/
theorem C16_barX_update_does_not_raise_under_guard (cx : DCtx) (c : TokenCfg) (s : DState) (b : Bar)
    (hG : (Deribit.midState cx c s b).onGrid = true → Deribit.SettleGuard (Deribit.midState cx c s b)) :
    updateE cx c (Deribit.midState cx c s b) = (.ok .unit, Deribit.postUpdate cx c s b) :=
  (C16_update_total_iff_guard cx c _).2.1 hG

end Demeter
