/-
  C16 — "trades only on bars where the market is open": where the `is_open` flag comes from.  `Bar.flagOpen` is not a free input of
  the replayed runs: the driver builds every bar with `barOfFrame` (Demeter/Deribit/Frame.lean) from the option frame `_data`, the
  way `set_market_status` does — the flag is `timestamp in _data.index`, the book is `_data.loc[timestamp.floor("1h")]`.
-/
import Proofs.C16
import Demeter.Deribit.Frame
namespace Demeter
open Demeter.Deribit

namespace Deribit
theorem Frame.mem_rows (d : Frame) (t : Int) (i : Instr) : i ∈ d.rows t ↔ ∃ r ∈ d, r.1 = t ∧ i ∈ r.2 := by
  simp only [Frame.rows, List.mem_flatMap, List.mem_filter, beq_iff_eq]
  constructor
  · rintro ⟨r, ⟨hr, ht⟩, hi⟩; exact ⟨r, hr, ht, hi⟩
  · rintro ⟨r, hr, ht, hi⟩; exact ⟨r, ⟨hr, ht⟩, hi⟩

theorem Frame.has_iff (d : Frame) (t : Int) : d.has t = true ↔ ∃ r ∈ d, r.1 = t ∧ r.2 ≠ [] := by
  unfold Frame.has
  constructor
  · intro h
    cases hl : d.rows t with
    | nil => simp [hl] at h
    | cons i is =>
      obtain ⟨r, hr, ht, hi⟩ := (Frame.mem_rows d t i).mp (by rw [hl]; exact List.mem_cons_self)
      exact ⟨r, hr, ht, fun h0 => by rw [h0] at hi; cases hi⟩
  · rintro ⟨r, hr, ht, hne⟩
    cases hr2 : r.2 with
    | nil => exact absurd hr2 hne
    | cons i is =>
      have : i ∈ d.rows t := (Frame.mem_rows d t i).mpr ⟨r, hr, ht, by rw [hr2]; exact List.mem_cons_self⟩
      cases hl : d.rows t with
      | nil => rw [hl] at this; cases this
      | cons _ _ => rfl
end Deribit

/-- **the flag is what the data says**: after `set_market_status` for the bar at minute `t` the market is open iff some row of the
    option frame carries exactly the timestamp `t`; the clock is `t` and the book shown is the rows of `t`'s hour -/
theorem C16_flag_follows_data (s : DState) (d : Frame) (t : Int) (price : Rat) (pd : Bool) (ops : List Op) :
    ((setStatus s (barOfFrame d t price pd ops)).flagOpen = true ↔ ∃ r ∈ d, r.1 = t ∧ r.2 ≠ []) ∧
    (setStatus s (barOfFrame d t price pd ops)).now = t ∧
    (∀ i, i ∈ (setStatus s (barOfFrame d t price pd ops)).book ↔
      ∃ r ∈ d, r.1 = t - t % (Gen.deribitFreqMinutes : Int) ∧ i ∈ r.2) := by
  refine ⟨?_, rfl, ?_⟩
  · exact Deribit.Frame.has_iff d t
  · intro i; exact Deribit.Frame.mem_rows d _ i

/-- **no trade on a bar whose timestamp the option data does not carry** (every context): a minute between two hourly snapshots, or
    an hour missing from the data — every buy and sell of that bar is refused "market closed" and leaves the market as it was -/
theorem C16_trades_only_where_the_data_has_the_timestamp (cx : DCtx) (c : TokenCfg) (s : DState) (d : Frame) (t : Int) (price : Rat)
    (pd : Bool) (ops : List Op) (r : Req) (h : ¬ ∃ e ∈ d, e.1 = t ∧ e.2 ≠ []) :
    step cx c (setStatus s (barOfFrame d t price pd ops)) (.buy r) =
      (.error (.demeter "market-closed"), setStatus s (barOfFrame d t price pd ops)) ∧
    step cx c (setStatus s (barOfFrame d t price pd ops)) (.sell r) =
      (.error (.demeter "market-closed"), setStatus s (barOfFrame d t price pd ops)) := by
  apply C16_trades_only_on_open_bars
  have := (C16_flag_follows_data s d t price pd ops).1
  cases hf : (setStatus s (barOfFrame d t price pd ops)).flagOpen with
  | false => rfl
  | true => exact absurd (this.mp hf) h

/-- with hourly option data (every timestamp of the frame on the hourly grid — the data contract of the Deribit loader) the trade gate
    opens only on bars that settlement counts as open too, and an open bar shows a non-empty book: its own rows -/
theorem C16_open_bars_are_on_the_settlement_grid (s : DState) (d : Frame) (t : Int) (price : Rat) (pd : Bool) (ops : List Op)
    (hd : ∀ r ∈ d, r.1 % (Gen.deribitFreqMinutes : Int) = 0)
    (hopen : (setStatus s (barOfFrame d t price pd ops)).flagOpen = true) :
    (setStatus s (barOfFrame d t price pd ops)).onGrid = true ∧
    (setStatus s (barOfFrame d t price pd ops)).book = d.rows t ∧ (setStatus s (barOfFrame d t price pd ops)).book ≠ [] := by
  obtain ⟨r, hr, ht, hne⟩ := (C16_flag_follows_data s d t price pd ops).1.mp hopen
  have hg : t % (Gen.deribitFreqMinutes : Int) = 0 := by rw [← ht]; exact hd r hr
  have hbook : (setStatus s (barOfFrame d t price pd ops)).book = d.rows t := by
    show d.rows (floorHour t) = d.rows t
    unfold floorHour; rw [hg, sub_zero]
  refine ⟨?_, hbook, ?_⟩
  · show (t % (Gen.deribitFreqMinutes : Int) == 0) = true
    rw [hg]; rfl
  · rw [hbook]
    have : d.has t = true := hopen
    unfold Deribit.Frame.has at this
    intro h0; rw [h0] at this; cases this

/-! ### non-vacuity: hourly rows at minutes 0 and 120 (minute 60 is missing from the data) -/
namespace Deribit
def c16Frame : Frame := [(0, c16aBook), (120, c16aBook)]
end Deribit
section
open Deribit
example : ∀ r ∈ c16Frame, r.1 % (Gen.deribitFreqMinutes : Int) = 0 := by decide
example : (setStatus c16aState (barOfFrame c16Frame 120 1716 true [])).flagOpen = true := by decide +kernel
example : (setStatus c16aState (barOfFrame c16Frame 60 1716 true [])).flagOpen = false ∧
    (setStatus c16aState (barOfFrame c16Frame 60 1716 true [])).book = [] := by decide +kernel
example : (setStatus c16aState (barOfFrame c16Frame 150 1716 true [])).flagOpen = false ∧
    (setStatus c16aState (barOfFrame c16Frame 150 1716 true [])).book = c16aBook := by decide +kernel
end

end Demeter
