/-
  C16, run level, with a strategy that trades — Proofs/C16/Run.lean covers hold runs; here every bar may carry any list
  of buys, sells, deposits, withdrawals and balance reads (accepted or rejected) before `update()`.
    * the strategy's calls write no Expired record and keep the position keys unique (`runOpsO_frame`);
    * **removed at the first open bar at or after expiry**: after an on-grid bar no position that is due is left, whatever
      was traded in that bar (`C16_bar_with_trades_leaves_nothing_due`);
    * **nothing is settled before expiry**: as long as no bar is an on-grid bar at/after `T`, no Expired record is written for
      an instrument whose positions all expire at `T` or later — also when it is bought and sold on the way
      (`C16_run_with_trades_nothing_settled_before_expiry`);
    * **exactly once**: a position the strategy does not trade itself (it may trade every other instrument and move cash)
      stays until the first on-grid bar at/after its expiry, is removed there, never comes back and gets exactly one Expired
      record over the whole run (`C16_run_with_trades_settles_exactly_once`).
  Bars are those of `runBar` (Demeter/Deribit/Run.lean); a strategy calling `market.update()` itself is excluded
  (`Op.update` is the bar loop's call).
-/
import Proofs.C16.Run
import Proofs.Lemmas.DeribitValue
namespace Demeter
open Demeter.Deribit

namespace Deribit

/-- the instrument an operation names -/
def Op.key : Op → Option String
  | .buy r => some r.name
  | .sell r => some r.name
  | _ => none

theorem expiredCount_nil (k : String) : expiredCount k [] = 0 := rfl

theorem gmb_now (cx : DCtx) (c : TokenCfg) (s : DState) : (getMarketBalance cx c s).2.now = s.now := by
  unfold getMarketBalance
  split
  · rfl
  · split
    · rfl
    · split <;> rfl

theorem alist_mem_set_of_ne {ν : Type} (m : AList String ν) (n : String) (v : ν) (kp : String × ν) (h : kp ∈ m) (hne : kp.1 ≠ n) :
    kp ∈ AList.set m n v := by
  induction m with
  | nil => simp at h
  | cons kv m ih =>
    obtain ⟨k', v'⟩ := kv
    unfold AList.set
    by_cases hk : k' = n
    · simp only [hk, if_true]
      rcases List.mem_cons.mp h with h | h
      · rw [h] at hne; exact absurd hk hne
      · exact List.mem_cons_of_mem _ h
    · simp only [hk, if_false]
      rcases List.mem_cons.mp h with h | h
      · rw [h]; exact List.mem_cons_self
      · exact List.mem_cons_of_mem _ (ih h)

/-- what one call of the strategy (anything but `update`) can do to the clock, the log and the positions -/
theorem step_frame (cx : DCtx) (c : TokenCfg) (s : DState) (o : Op) (ho : o ≠ .update) :
    (step cx c s o).2.now = s.now ∧
    (∃ acts, (step cx c s o).2.actions = s.actions ++ acts ∧ ∀ k, expiredCount k acts = 0) ∧
    ((step cx c s o).2.positions = s.positions ∨ ∃ n, o.key = some n ∧
       ((∃ p', (step cx c s o).2.positions = AList.set s.positions n p') ∨
        (step cx c s o).2.positions = AList.erase s.positions n)) := by
  have hsame : ∀ s' : DState, s' = s → s'.now = s.now ∧ (∃ acts, s'.actions = s.actions ++ acts ∧ ∀ k, expiredCount k acts = 0) ∧
      (s'.positions = s.positions ∨ ∃ n, o.key = some n ∧
        ((∃ p', s'.positions = AList.set s.positions n p') ∨ s'.positions = AList.erase s.positions n)) := by
    intro s' h; subst h; exact ⟨rfl, ⟨[], by simp, fun k => rfl⟩, Or.inl rfl⟩
  cases o with
  | update => exact absurd rfl ho
  | buy r =>
    rcases hb : buy cx c s r with ⟨out, s'⟩
    simp only [step, hb]
    cases out with
    | error e => exact hsame s' (buy_err hb)
    | ok res =>
      obtain ⟨_, ck, _, fills, prem, fee, _, _, _, _, _, _, hs'⟩ := buy_ok hb
      rw [hs']
      exact ⟨rfl, ⟨[_], rfl, fun k => by simp [expiredCount, isExpiredOf]⟩, Or.inr ⟨r.name, rfl, Or.inl ⟨_, rfl⟩⟩⟩
  | sell r =>
    rcases hb : sell cx c s r with ⟨out, s'⟩
    simp only [step, hb]
    cases out with
    | error e => exact hsame s' (sell_err hb)
    | ok res =>
      obtain ⟨_, ck, p, bids, _, _, _, _, fills, prem, fee, _, _, _, _, hs'⟩ := sell_ok hb
      rw [hs']
      refine ⟨rfl, ⟨[_], rfl, fun k => by simp [expiredCount, isExpiredOf]⟩, Or.inr ⟨r.name, rfl, ?_⟩⟩
      simp only []
      split
      · exact Or.inr rfl
      · exact Or.inl ⟨_, rfl⟩
  | deposit a =>
    rcases hd : deposit cx c s a with ⟨out, s'⟩
    simp only [step, hd]
    cases out with
    | error e => exact hsame s' (deposit_err hd)
    | ok res =>
      unfold deposit at hd
      split at hd
      · simp at hd
      · split at hd
        · simp at hd
        · simp at hd
        · simp only [Prod.mk.injEq] at hd
          obtain ⟨_, hs⟩ := hd
          subst hs
          exact ⟨rfl, ⟨[_], rfl, fun k => by simp [expiredCount, isExpiredOf]⟩, Or.inl rfl⟩
  | withdraw a =>
    rcases hd : withdraw cx c s a with ⟨out, s'⟩
    simp only [step, hd]
    cases out with
    | error e => exact hsame s' (withdraw_err hd)
    | ok res =>
      unfold withdraw at hd
      split at hd
      · simp at hd
      · simp only [] at hd
        split at hd
        · simp at hd
        · simp only [Prod.mk.injEq] at hd
          obtain ⟨_, hs⟩ := hd
          subst hs
          exact ⟨rfl, ⟨[_], rfl, fun k => by simp [expiredCount, isExpiredOf]⟩, Or.inl rfl⟩
  | balance =>
    simp only [step]
    obtain ⟨h1, h2, _⟩ := gmb_frame cx c s
    exact ⟨gmb_now cx c s, ⟨[], by simp [h2], fun k => rfl⟩, Or.inl h1⟩

theorem runOpsO_cons (cx : DCtx) (c : TokenCfg) (s : DState) (o : Op) (os : List Op) :
    (runOpsO cx c s (o :: os)).2.1 = (runOpsO cx c (step cx c s o).2 os).2.1 := rfl

theorem erase_mem_iff (m : AList String Position) (n k : String) (p : Position) (hne : k ≠ n) :
    (k, p) ∈ AList.erase m n ↔ (k, p) ∈ m := by
  simp only [AList.erase, List.mem_filter]
  constructor
  · exact fun h => h.1
  · exact fun h => ⟨h, by simpa using hne⟩

/-- **the strategy's calls settle nothing**: through any list of calls other than `update` the clock stands, the position
    keys stay unique, no Expired record is written, and an instrument none of the calls names keeps its position -/
theorem runOpsO_frame (cx : DCtx) (c : TokenCfg) (ops : List Op) (s : DState) (hops : ∀ o ∈ ops, o ≠ Op.update)
    (hn : KeysNodup s) :
    (runOpsO cx c s ops).2.1.now = s.now ∧ KeysNodup (runOpsO cx c s ops).2.1 ∧
    (∀ k, expiredCount k (runOpsO cx c s ops).2.1.actions = expiredCount k s.actions) ∧
    (∀ k, (∀ o ∈ ops, o.key ≠ some k) → ∀ p, (k, p) ∈ (runOpsO cx c s ops).2.1.positions ↔ (k, p) ∈ s.positions) := by
  induction ops generalizing s with
  | nil => exact ⟨rfl, hn, fun _ => rfl, fun _ _ _ => Iff.rfl⟩
  | cons o os ih =>
    obtain ⟨hnow, ⟨acts, hacts, hzero⟩, hpos⟩ := step_frame cx c s o (hops o List.mem_cons_self)
    have hn' : KeysNodup (step cx c s o).2 := by
      unfold KeysNodup
      rcases hpos with h | ⟨n, _, ⟨p', h⟩ | h⟩
      · rw [h]; exact hn
      · rw [h]; exact alist_keys_set _ _ _ hn
      · rw [h]; exact List.Nodup.sublist (List.Sublist.map _ List.filter_sublist) hn
    obtain ⟨i1, i2, i3, i4⟩ := ih (step cx c s o).2 (fun o' h => hops o' (List.mem_cons_of_mem _ h)) hn'
    rw [runOpsO_cons]
    refine ⟨i1.trans hnow, i2, ?_, ?_⟩
    · intro k
      rw [i3 k, hacts, expiredCount_append, hzero k]; rfl
    · intro k hk p
      rw [i4 k (fun o' h => hk o' (List.mem_cons_of_mem _ h)) p]
      have hko := hk o List.mem_cons_self
      rcases hpos with h | ⟨n, hkey, ⟨p', h⟩ | h⟩
      · rw [h]
      · have hne : k ≠ n := fun e => hko (e ▸ hkey)
        rw [h]
        constructor
        · intro hm
          rcases alist_mem_set _ _ _ _ hm with e | e
          · exact absurd (congrArg Prod.fst e) hne
          · exact e
        · exact fun hm => alist_mem_set_of_ne _ _ _ _ hm hne
      · have hne : k ≠ n := fun e => hko (e ▸ hkey)
        rw [h]; exact erase_mem_iff _ _ _ _ hne

/-- every position under key `k`, and every book row named `k` (where a bought position takes its expiry from), has an expiry
    satisfying `P` -/
def ExpP (P : Int → Prop) (k : String) (s : DState) : Prop :=
  (∀ p, (k, p) ∈ s.positions → P p.expiry) ∧ (∀ i ∈ s.book, i.name = k → P i.expiry)

/-- … expires at `T` or later -/
abbrev ExpOk (k : String) (T : Int) (s : DState) : Prop := ExpP (fun e => T ≤ e) k s

theorem alist_get_mem {m : AList String Position} {k : String} {p : Position} (h : AList.get? m k = some p) : (k, p) ∈ m := by
  simp only [AList.get?, Option.map_eq_some_iff] at h
  obtain ⟨kp, hfind, rfl⟩ := h
  have hm := List.mem_of_find?_eq_some hfind
  have hk := List.find?_some hfind
  simp only [decide_eq_true_eq] at hk
  rw [← hk]; exact hm

theorem expOk_setAsks {k : String} {P : Int → Prop} {book : List Instr} (h : ∀ i ∈ book, i.name = k → P i.expiry) (n : String) (ls : List Level) :
    ∀ i ∈ setAsks book n ls, i.name = k → P i.expiry := by
  intro i hi
  obtain ⟨i0, hi0, rfl⟩ := List.mem_map.mp hi
  split <;> exact h i0 hi0

theorem expOk_setBids {k : String} {P : Int → Prop} {book : List Instr} (h : ∀ i ∈ book, i.name = k → P i.expiry) (n : String) (ls : List Level) :
    ∀ i ∈ setBids book n ls, i.name = k → P i.expiry := by
  intro i hi
  obtain ⟨i0, hi0, rfl⟩ := List.mem_map.mp hi
  split <;> exact h i0 hi0

/-- the strategy's calls keep `ExpOk`: a bought position takes the expiry of its book row, a sold one keeps its own -/
theorem step_expP (cx : DCtx) (c : TokenCfg) (s : DState) (o : Op) (ho : o ≠ .update) (k : String) (P : Int → Prop) (h : ExpP P k s) :
    ExpP P k (step cx c s o).2 := by
  cases o with
  | update => exact absurd rfl ho
  | buy r =>
    rcases hb : buy cx c s r with ⟨out, s'⟩
    simp only [step, hb]
    cases out with
    | error e => rw [buy_err hb]; exact h
    | ok res =>
      obtain ⟨_, ck, hck, fills, prem, fee, _, _, _, _, _, _, hs'⟩ := buy_ok hb
      obtain ⟨⟨ins0, hfind, hnorm⟩, _⟩ := checkTx_ok hck
      rw [hs']
      refine ⟨?_, expOk_setAsks h.2 _ _⟩
      intro p hp
      rcases alist_mem_set _ _ _ _ hp with e | e
      · have hk : k = r.name := congrArg Prod.fst e
        have hpe : p = boughtPosition cx (AList.get? s.positions r.name) r ck (avgPrice cx fills) := congrArg Prod.snd e
        rw [hpe]
        cases hg : AList.get? s.positions r.name with
        | none =>
          simp only [boughtPosition, hnorm]
          have hname : ins0.name = r.name := by have := List.find?_some hfind; simpa using this
          exact h.2 ins0 (findInstr_mem hfind) (hname.trans hk.symm)
        | some p0 =>
          simp only [boughtPosition]
          exact h.1 p0 (hk ▸ alist_get_mem hg)
      · exact h.1 p e
  | sell r =>
    rcases hb : sell cx c s r with ⟨out, s'⟩
    simp only [step, hb]
    cases out with
    | error e => rw [sell_err hb]; exact h
    | ok res =>
      obtain ⟨_, ck, p0, bids, _, hget, _, _, fills, prem, fee, _, _, _, _, hs'⟩ := sell_ok hb
      rw [hs']
      refine ⟨?_, expOk_setBids h.2 _ _⟩
      intro p hp
      simp only [] at hp
      split at hp
      · exact h.1 p (List.mem_filter.mp hp).1
      · rcases alist_mem_set _ _ _ _ hp with e | e
        · have hk : k = r.name := congrArg Prod.fst e
          have hpe : p = soldPosition cx p0 ck.amount (avgPrice cx fills) := congrArg Prod.snd e
          rw [hpe]
          simp only [soldPosition]
          exact h.1 p0 (hk ▸ alist_get_mem hget)
        · exact h.1 p e
  | deposit a =>
    rcases hd : deposit cx c s a with ⟨out, s'⟩
    simp only [step, hd]
    cases out with
    | error e => rw [deposit_err hd]; exact h
    | ok res =>
      unfold deposit at hd
      split at hd
      · simp at hd
      · split at hd
        · simp at hd
        · simp at hd
        · simp only [Prod.mk.injEq] at hd
          obtain ⟨_, hs⟩ := hd
          subst hs
          exact h
  | withdraw a =>
    rcases hd : withdraw cx c s a with ⟨out, s'⟩
    simp only [step, hd]
    cases out with
    | error e => rw [withdraw_err hd]; exact h
    | ok res =>
      unfold withdraw at hd
      split at hd
      · simp at hd
      · simp only [] at hd
        split at hd
        · simp at hd
        · simp only [Prod.mk.injEq] at hd
          obtain ⟨_, hs⟩ := hd
          subst hs
          exact h
  | balance =>
    simp only [step, getMarketBalance]
    split
    · exact h
    · split
      · exact h
      · split <;> exact h

theorem runOpsO_expP (cx : DCtx) (c : TokenCfg) (ops : List Op) (s : DState) (hops : ∀ o ∈ ops, o ≠ Op.update)
    (k : String) (P : Int → Prop) (h : ExpP P k s) : ExpP P k (runOpsO cx c s ops).2.1 := by
  induction ops generalizing s with
  | nil => exact h
  | cons o os ih =>
    rw [runOpsO_cons]
    exact ih _ (fun o' ho' => hops o' (List.mem_cons_of_mem _ ho')) (step_expP cx c s o (hops o List.mem_cons_self) k P h)

theorem step_expOk (cx : DCtx) (c : TokenCfg) (s : DState) (o : Op) (ho : o ≠ .update) (k : String) (T : Int) (h : ExpOk k T s) :
    ExpOk k T (step cx c s o).2 := step_expP cx c s o ho k _ h

theorem runOpsO_expOk (cx : DCtx) (c : TokenCfg) (ops : List Op) (s : DState) (hops : ∀ o ∈ ops, o ≠ Op.update)
    (k : String) (T : Int) (h : ExpOk k T s) : ExpOk k T (runOpsO cx c s ops).2.1 := runOpsO_expP cx c ops s hops k _ h

/-- the state `update()` runs on in a bar: after the strategy's calls (and the second `set_market_status` when one of
    them was a successful trade) -/
def midState (cx : DCtx) (c : TokenCfg) (s : DState) (b : Bar) : DState :=
  if (runOpsO cx c (setStatus s b) b.ops).2.2 then setStatus (runOpsO cx c (setStatus s b) b.ops).2.1 b
  else (runOpsO cx c (setStatus s b) b.ops).2.1

theorem runBar_mid (cx : DCtx) (c : TokenCfg) (s : DState) (b : Bar) :
    (runBar cx c s b).state.positions = (update cx c (midState cx c s b)).positions ∧
    (runBar cx c s b).state.actions = (update cx c (midState cx c s b)).actions ∧
    (runBar cx c s b).state.cash = (update cx c (midState cx c s b)).cash := by
  have : (runBar cx c s b).state = (getMarketBalance cx c (update cx c (midState cx c s b))).2 := rfl
  rw [this]
  exact gmb_frame cx c _

theorem midState_frame (cx : DCtx) (c : TokenCfg) (s : DState) (b : Bar) (hops : ∀ o ∈ b.ops, o ≠ Op.update)
    (hn : KeysNodup s) :
    (midState cx c s b).now = b.now ∧ (midState cx c s b).onGrid = (b.now % (Gen.deribitFreqMinutes : Int) == 0) ∧
    KeysNodup (midState cx c s b) ∧
    (∀ k, expiredCount k (midState cx c s b).actions = expiredCount k s.actions) ∧
    (∀ k, (∀ o ∈ b.ops, o.key ≠ some k) → ∀ p, (k, p) ∈ (midState cx c s b).positions ↔ (k, p) ∈ s.positions) := by
  obtain ⟨h1, h2, h3, h4⟩ := runOpsO_frame cx c b.ops (setStatus s b) hops (by exact hn)
  have hnow : (midState cx c s b).now = b.now := by
    unfold midState; split
    · rfl
    · exact h1
  refine ⟨hnow, ?_, ?_, ?_, ?_⟩
  · unfold DState.onGrid; rw [hnow]
  · unfold midState; split
    · exact h2
    · exact h2
  · intro k; unfold midState; split
    · exact h3 k
    · exact h3 k
  · intro k hk p; unfold midState; split
    · exact h4 k hk p
    · exact h4 k hk p

theorem midState_expP (cx : DCtx) (c : TokenCfg) (s : DState) (b : Bar) (hops : ∀ o ∈ b.ops, o ≠ Op.update)
    (k : String) (P : Int → Prop) (hpos : ∀ p, (k, p) ∈ s.positions → P p.expiry) (hbook : ∀ i ∈ b.book, i.name = k → P i.expiry) :
    ∀ p, (k, p) ∈ (midState cx c s b).positions → P p.expiry := by
  have h := runOpsO_expP cx c b.ops (setStatus s b) hops k P ⟨hpos, hbook⟩
  unfold midState
  split
  · exact h.1
  · exact h.1

theorem midState_expOk (cx : DCtx) (c : TokenCfg) (s : DState) (b : Bar) (hops : ∀ o ∈ b.ops, o ≠ Op.update)
    (k : String) (T : Int) (hpos : ∀ p, (k, p) ∈ s.positions → T ≤ p.expiry) (hbook : ∀ i ∈ b.book, i.name = k → T ≤ i.expiry) :
    ∀ p, (k, p) ∈ (midState cx c s b).positions → T ≤ p.expiry := midState_expP cx c s b hops k _ hpos hbook

end Deribit

/-- **removed at the first open bar at or after expiry, whatever is traded in that bar**: after an on-grid bar no position
    that is due at that bar is left (every context, any calls of the strategy before `update()`) -/
theorem C16_bar_with_trades_leaves_nothing_due (cx : DCtx) (c : TokenCfg) (s : DState) (b : Bar)
    (hops : ∀ o ∈ b.ops, o ≠ Op.update) (hn : Deribit.KeysNodup s)
    (hg : (b.now % (Gen.deribitFreqMinutes : Int) == 0) = true) :
    ∀ kp ∈ (runBar cx c s b).state.positions, b.now < kp.2.expiry := by
  obtain ⟨hnow, hgrid, _, _, _⟩ := Deribit.midState_frame cx c s b hops hn
  intro kp hkp
  rw [(Deribit.runBar_mid cx c s b).1] at hkp
  have := C16_no_due_position_survives cx c (Deribit.midState cx c s b) (by rw [hgrid]; exact hg) kp hkp
  rwa [hnow] at this

/-- what one bar with trades adds to the count of Expired records of key `k` -/
theorem Deribit.expiredCount_runBar_trades (cx : DCtx) (c : TokenCfg) (s : DState) (b : Bar)
    (hops : ∀ o ∈ b.ops, o ≠ Op.update) (hn : Deribit.KeysNodup s) (k : String) :
    Deribit.expiredCount k (runBar cx c s b).state.actions =
      Deribit.expiredCount k s.actions +
        (if (b.now % (Gen.deribitFreqMinutes : Int) == 0) = true ∧
            k ∈ ((Deribit.midState cx c s b).positions.filter (fun kp => decide (b.now ≥ kp.2.expiry))).map Prod.fst then 1 else 0) ∧
    Deribit.KeysNodup (runBar cx c s b).state := by
  obtain ⟨hnow, hgrid, hn2, hcnt, _⟩ := Deribit.midState_frame cx c s b hops hn
  set m := Deribit.midState cx c s b with hm
  rw [(Deribit.runBar_mid cx c s b).2.1]
  unfold Deribit.KeysNodup
  rw [(Deribit.runBar_mid cx c s b).1]
  by_cases hg : (b.now % (Gen.deribitFreqMinutes : Int) == 0) = true
  · have hg' : m.onGrid = true := by rw [hgrid]; exact hg
    constructor
    · rw [C16_records cx c m hg' hn2]
      simp only [Deribit.expiredCount_append]
      have hd := Deribit.expiredCount_delivers cx c m k m.positions
      unfold Deribit.deliverRecs at hd
      rw [hd, Deribit.expiredCount_expireds, Deribit.count_key_nodup (Deribit.keysNodup_filter (s := m) hn2 _), hcnt k]
      simp only [hg, true_and, add_zero, Deribit.due, hnow]
    · rw [C16_settles_exactly_the_due_positions cx c m hg' hn2]
      exact Deribit.keysNodup_filter (s := m) hn2 _
  · have hg' : m.onGrid = false := by rw [hgrid]; simpa using hg
    rw [C16_update_off_grid_noop cx c m hg', if_neg (fun h => hg h.1)]
    exact ⟨by rw [hcnt k]; rfl, hn2⟩

/-- **nothing is settled before expiry, also when the instrument is traded on the way**: if every position ever held under
    key `k` expires at `T` or later (the held one, and the rows named `k` in every bar's book, which is where a bought
    position takes its expiry from) and no bar of the run is an on-grid bar at/after `T`, the run writes no Expired record
    for `k` -/
theorem C16_run_with_trades_nothing_settled_before_expiry (cx : DCtx) (c : TokenCfg) (bs : List Bar) (s : DState)
    (hn : Deribit.KeysNodup s) (k : String) (T : Int)
    (hops : ∀ b ∈ bs, ∀ o ∈ b.ops, o ≠ Op.update)
    (hpre : ∀ b ∈ bs, ¬ Deribit.settlesAt b T)
    (hbook : ∀ b ∈ bs, ∀ i ∈ b.book, i.name = k → T ≤ i.expiry)
    (h0 : ∀ p, (k, p) ∈ s.positions → T ≤ p.expiry) :
    Deribit.expiredCount k (runBars cx c s bs).actions = Deribit.expiredCount k s.actions ∧
    (∀ p, (k, p) ∈ (runBars cx c s bs).positions → T ≤ p.expiry) := by
  induction bs generalizing s with
  | nil => exact ⟨rfl, h0⟩
  | cons b bs ih =>
    have hb := hops b List.mem_cons_self
    have hnb := hpre b List.mem_cons_self
    obtain ⟨hcount, hn'⟩ := Deribit.expiredCount_runBar_trades cx c s b hb hn k
    have hmid := Deribit.midState_expOk cx c s b hb k T h0 (hbook b List.mem_cons_self)
    have hno : ¬ ((b.now % (Gen.deribitFreqMinutes : Int) == 0) = true ∧
        k ∈ ((Deribit.midState cx c s b).positions.filter (fun kp => decide (b.now ≥ kp.2.expiry))).map Prod.fst) := by
      rintro ⟨hg, hk⟩
      simp only [List.mem_map, List.mem_filter, decide_eq_true_eq] at hk
      obtain ⟨kp, ⟨hkp, hdue⟩, hkey⟩ := hk
      have hT : T ≤ kp.2.expiry := hmid kp.2 (by rw [← hkey]; exact hkp)
      exact hnb ⟨hg, le_trans hT hdue⟩
    rw [if_neg hno, add_zero] at hcount
    have h0' : ∀ p, (k, p) ∈ (runBar cx c s b).state.positions → T ≤ p.expiry := by
      intro p hp
      rw [(Deribit.runBar_mid cx c s b).1] at hp
      obtain ⟨_, hgrid, hn2, _, _⟩ := Deribit.midState_frame cx c s b hb hn
      by_cases hg : (Deribit.midState cx c s b).onGrid = true
      · rw [C16_settles_exactly_the_due_positions cx c _ hg hn2] at hp
        exact hmid p (List.mem_filter.mp hp).1
      · rw [C16_update_off_grid_noop cx c _ (by simpa using hg)] at hp; exact hmid p hp
    obtain ⟨i1, i2⟩ := ih (runBar cx c s b).state hn' (fun b' h => hops b' (List.mem_cons_of_mem _ h))
      (fun b' h => hpre b' (List.mem_cons_of_mem _ h)) (fun b' h => hbook b' (List.mem_cons_of_mem _ h)) h0'
    exact ⟨by rw [← hcount]; exact i1, i2⟩


namespace Deribit

/-- the calls of a bar: none is `update`, none names instrument `k` -/
def BarAvoids (k : String) (b : Bar) : Prop := ∀ o ∈ b.ops, o ≠ Op.update ∧ o.key ≠ some k

theorem update_sub (cx : DCtx) (c : TokenCfg) (m : DState) (hn : KeysNodup m) :
    ∀ kp ∈ (update cx c m).positions, kp ∈ m.positions := by
  intro kp hkp
  by_cases hg : m.onGrid = true
  · rw [C16_settles_exactly_the_due_positions cx c _ hg hn] at hkp
    exact (List.mem_filter.mp hkp).1
  · rw [C16_update_off_grid_noop cx c _ (by simpa using hg)] at hkp; exact hkp

/-- through bars in which the strategy trades anything but `k`, none of them an on-grid bar at/after the expiry: the position
    stays and no Expired record for it appears -/
theorem run_trades_keeps (cx : DCtx) (c : TokenCfg) (bs : List Bar) (s : DState)
    (hn : KeysNodup s) (k : String) (p : Position) (hmem : (k, p) ∈ s.positions)
    (hops : ∀ b ∈ bs, BarAvoids k b) (hpre : ∀ b ∈ bs, ¬ settlesAt b p.expiry) :
    (k, p) ∈ (runBars cx c s bs).positions ∧ KeysNodup (runBars cx c s bs) ∧
    expiredCount k (runBars cx c s bs).actions = expiredCount k s.actions := by
  induction bs generalizing s with
  | nil => exact ⟨hmem, hn, rfl⟩
  | cons b bs ih =>
    have hb := hops b List.mem_cons_self
    have hnb := hpre b List.mem_cons_self
    have hb1 : ∀ o ∈ b.ops, o ≠ Op.update := fun o h => (hb o h).1
    have hb2 : ∀ o ∈ b.ops, o.key ≠ some k := fun o h => (hb o h).2
    obtain ⟨hnow, hgrid, hn2, _, hkeep⟩ := midState_frame cx c s b hb1 hn
    have hmid : (k, p) ∈ (midState cx c s b).positions := (hkeep k hb2 p).mpr hmem
    obtain ⟨hcount, hn'⟩ := expiredCount_runBar_trades cx c s b hb1 hn k
    have hmem' : (k, p) ∈ (runBar cx c s b).state.positions := by
      rw [(runBar_mid cx c s b).1]
      by_cases hg : (midState cx c s b).onGrid = true
      · have hlt : ¬ p.expiry ≤ b.now := fun hle => hnb ⟨by rw [← hgrid]; exact hg, hle⟩
        exact C16_nothing_before_expiry cx c _ hn2 k p hmid (by rw [hnow]; omega)
      · rw [C16_update_off_grid_noop cx c _ (by simpa using hg)]; exact hmid
    have hno : ¬ ((b.now % (Gen.deribitFreqMinutes : Int) == 0) = true ∧
        k ∈ ((midState cx c s b).positions.filter (fun kp => decide (b.now ≥ kp.2.expiry))).map Prod.fst) := by
      rintro ⟨hg, hk⟩
      simp only [List.mem_map, List.mem_filter, decide_eq_true_eq] at hk
      obtain ⟨kp, ⟨hkp, hdue⟩, hkey⟩ := hk
      have := List.inj_on_of_nodup_map hn2 hkp hmid hkey
      subst this
      exact hnb ⟨hg, hdue⟩
    rw [if_neg hno, add_zero] at hcount
    obtain ⟨h1, h2, h3⟩ := ih (runBar cx c s b).state hn' hmem'
      (fun b' hb' => hops b' (List.mem_cons_of_mem _ hb')) (fun b' hb' => hpre b' (List.mem_cons_of_mem _ hb'))
    exact ⟨h1, h2, by rw [← hcount]; exact h3⟩

/-- a key that is not held and that the strategy does not trade is never settled -/
theorem run_trades_absent (cx : DCtx) (c : TokenCfg) (bs : List Bar) (s : DState)
    (hn : KeysNodup s) (k : String) (habs : k ∉ s.positions.map Prod.fst) (hops : ∀ b ∈ bs, BarAvoids k b) :
    k ∉ (runBars cx c s bs).positions.map Prod.fst ∧
    expiredCount k (runBars cx c s bs).actions = expiredCount k s.actions := by
  induction bs generalizing s with
  | nil => exact ⟨habs, rfl⟩
  | cons b bs ih =>
    have hb := hops b List.mem_cons_self
    have hb1 : ∀ o ∈ b.ops, o ≠ Op.update := fun o h => (hb o h).1
    have hb2 : ∀ o ∈ b.ops, o.key ≠ some k := fun o h => (hb o h).2
    obtain ⟨_, _, hn2, _, hkeep⟩ := midState_frame cx c s b hb1 hn
    have hmidabs : k ∉ (midState cx c s b).positions.map Prod.fst := by
      intro hk
      obtain ⟨kp, hkp, hkey⟩ := List.mem_map.mp hk
      have : (k, kp.2) ∈ s.positions := (hkeep k hb2 kp.2).mp (by rw [← hkey]; exact hkp)
      exact habs (List.mem_map.mpr ⟨(k, kp.2), this, rfl⟩)
    obtain ⟨hcount, hn'⟩ := expiredCount_runBar_trades cx c s b hb1 hn k
    have habs' : k ∉ (runBar cx c s b).state.positions.map Prod.fst := by
      intro hk
      obtain ⟨kp, hkp, hkey⟩ := List.mem_map.mp hk
      rw [(runBar_mid cx c s b).1] at hkp
      exact hmidabs (List.mem_map.mpr ⟨kp, update_sub cx c _ hn2 kp hkp, hkey⟩)
    have hno : ¬ ((b.now % (Gen.deribitFreqMinutes : Int) == 0) = true ∧
        k ∈ ((midState cx c s b).positions.filter (fun kp => decide (b.now ≥ kp.2.expiry))).map Prod.fst) := by
      rintro ⟨_, hk⟩
      obtain ⟨kp, hkp, hkey⟩ := List.mem_map.mp hk
      exact hmidabs (List.mem_map.mpr ⟨kp, (List.mem_filter.mp hkp).1, hkey⟩)
    rw [if_neg hno, add_zero] at hcount
    obtain ⟨h1, h2⟩ := ih (runBar cx c s b).state hn' habs' (fun b' hb' => hops b' (List.mem_cons_of_mem _ hb'))
    exact ⟨h1, by rw [← hcount]; exact h2⟩

end Deribit

/-- **settled exactly once, at the first open bar at or after expiry, in a run with trades**: while the strategy buys and
    sells any other instruments, deposits, withdraws and reads balances (accepted or rejected, any number per bar), a held
    position it does not trade itself survives every bar before the first on-grid bar `b` with `b.now ≥ expiry`, is removed in
    `b`, never reappears, and over the whole run exactly one Expired record for it is written (every arithmetic context, any
    bar grid, hours missing from the option data included). -/
theorem C16_run_with_trades_settles_exactly_once (cx : DCtx) (c : TokenCfg) (pre post : List Bar) (b : Bar) (s : DState)
    (hn : Deribit.KeysNodup s) (k : String) (p : Position) (hmem : (k, p) ∈ s.positions)
    (hops : ∀ b' ∈ pre ++ b :: post, Deribit.BarAvoids k b') (hpre : ∀ b' ∈ pre, ¬ Deribit.settlesAt b' p.expiry)
    (hb : Deribit.settlesAt b p.expiry) :
    (k, p) ∈ (runBars cx c s pre).positions ∧
    k ∉ (runBars cx c s (pre ++ [b])).positions.map Prod.fst ∧
    k ∉ (runBars cx c s (pre ++ b :: post)).positions.map Prod.fst ∧
    Deribit.expiredCount k (runBars cx c s (pre ++ b :: post)).actions = Deribit.expiredCount k s.actions + 1 := by
  have hops_pre : ∀ b' ∈ pre, Deribit.BarAvoids k b' := fun b' h => hops b' (List.mem_append_left _ h)
  have hops_b : Deribit.BarAvoids k b := hops b (List.mem_append_right _ List.mem_cons_self)
  have hops_post : ∀ b' ∈ post, Deribit.BarAvoids k b' := fun b' h => hops b' (List.mem_append_right _ (List.mem_cons_of_mem _ h))
  obtain ⟨hm1, hn1, hc1⟩ := Deribit.run_trades_keeps cx c pre s hn k p hmem hops_pre hpre
  have happ : ∀ (l1 l2 : List Bar) (s0 : DState), runBars cx c s0 (l1 ++ l2) = runBars cx c (runBars cx c s0 l1) l2 := by
    intro l1 l2
    induction l1 with
    | nil => intro s0; rfl
    | cons x xs ih => intro s0; exact ih _
  set s1 := runBars cx c s pre with hs1
  have hb1 : ∀ o ∈ b.ops, o ≠ Op.update := fun o h => (hops_b o h).1
  have hb2 : ∀ o ∈ b.ops, o.key ≠ some k := fun o h => (hops_b o h).2
  obtain ⟨hnow, hgrid, hn2, _, hkeep⟩ := Deribit.midState_frame cx c s1 b hb1 hn1
  have hmid : (k, p) ∈ (Deribit.midState cx c s1 b).positions := (hkeep k hb2 p).mpr hm1
  have hgone : k ∉ (runBar cx c s1 b).state.positions.map Prod.fst := by
    intro hk
    obtain ⟨kp, hkp, hkey⟩ := List.mem_map.mp hk
    have hlt := C16_bar_with_trades_leaves_nothing_due cx c s1 b hb1 hn1 hb.1 kp hkp
    rw [(Deribit.runBar_mid cx c s1 b).1] at hkp
    have hin := Deribit.update_sub cx c _ hn2 kp hkp
    have := List.inj_on_of_nodup_map hn2 hin hmid hkey
    subst this
    have : p.expiry ≤ b.now := hb.2
    simp only [] at hlt
    omega
  obtain ⟨hcb, hn3⟩ := Deribit.expiredCount_runBar_trades cx c s1 b hb1 hn1 k
  have hyes : (b.now % (Gen.deribitFreqMinutes : Int) == 0) = true ∧
      k ∈ ((Deribit.midState cx c s1 b).positions.filter (fun kp => decide (b.now ≥ kp.2.expiry))).map Prod.fst :=
    ⟨hb.1, List.mem_map.mpr ⟨(k, p), List.mem_filter.mpr ⟨hmid, by simpa using hb.2⟩, rfl⟩⟩
  rw [if_pos hyes] at hcb
  obtain ⟨hp3, hc3⟩ := Deribit.run_trades_absent cx c post (runBar cx c s1 b).state hn3 k hgone hops_post
  refine ⟨hm1, ?_, ?_, ?_⟩
  · rw [happ]; exact hgone
  · rw [happ]; exact hp3
  · rw [happ]
    show Deribit.expiredCount k (runBars cx c (runBar cx c s1 b).state post).actions = _
    rw [hc3, hcb, hc1]

/-- the bar with the strategy's other hooks (`runBarX`: calls from `after_bar` and from `notify`, which the driver replays) is the
    bar of these theorems when those hooks do nothing -/
theorem C16_bar_without_late_hooks (cx : DCtx) (c : TokenCfg) (s : DState) (b : Bar) :
    (runBarX cx c s b [] []).state = (runBar cx c s b).state ∧ (runBarX cx c s b [] []).outcomes = (runBar cx c s b).outcomes ∧
    (runBarX cx c s b [] []).balance = (runBar cx c s b).balance := by
  simp [runBarX, runBar, runOpsO]

/-! ### non-vacuity: the call of Proofs/C16/Run.lean held while another instrument is bought, sold and cash is moved -/

namespace Deribit
def c16Other : Instr :=
  { name := "ETH-1700-P", stateOpen := true, kind := .put, strike := 1700, expiry := 3000, mark := 3 / 100,
    underlying := 1700, delta := 1 / 2, gamma := 1 / 1000, asks := [⟨4 / 100, 30, false⟩, ⟨35 / 1000, 20, true⟩], bids := [⟨25 / 1000, 70, false⟩] }
def c16OtherReq (a : Rat) : Req := { name := "ETH-1700-P", amount := a, priceTok := none, priceUsd := none, mult := none }
def c16TBar (m : Int) (open_ : Bool) (S : Rat) (ops : List Op) : Bar :=
  { now := m, flagOpen := open_, book := [c16Instr S, c16Other], price := S, priceDec := true, ops := ops }
def c16TPre : List Bar :=
  [c16TBar 59 false 1700 [.deposit 1, .balance], c16TBar 60 true 1700 [.buy (c16OtherReq 25), .balance, .sell (c16OtherReq 5)],
   c16TBar 61 false 1700 [.withdraw (1 / 2), .buy (c16OtherReq 1)], c16TBar 119 false 1700 []]
def c16TSettle : Bar := c16TBar 120 true 1716 [.sell (c16OtherReq 20), .buy (c16OtherReq 3)]
def c16TPost : List Bar := [c16TBar 121 false 1716 [.balance], c16TBar 180 true 1716 [.buy (c16OtherReq 2)]]
def c16TState : DState := { c16State with wallet := [("ETH", 5)] }
end Deribit

section
open Deribit
example : ∀ b' ∈ c16TPre ++ c16TSettle :: c16TPost, BarAvoids "ETH-1650-C" b' := by
  simp only [BarAvoids]
  decide +kernel
example : (runBars DCtx.exact ethCfg c16TState (c16TPre ++ c16TSettle :: c16TPost)).positions.map Prod.fst = ["ETH-1700-P"] := by
  decide +kernel
example : expiredCount "ETH-1650-C" (runBars DCtx.exact ethCfg c16TState (c16TPre ++ c16TSettle :: c16TPost)).actions = 1 := by
  decide +kernel
example : ∀ b' ∈ c16TPre, ¬ settlesAt b' c16Pos.expiry := by
  intro b' hb'
  simp only [c16TPre, c16TBar, List.mem_cons, List.not_mem_nil, or_false] at hb'
  rcases hb' with rfl | rfl | rfl | rfl <;> (unfold settlesAt; decide)
example : settlesAt c16TSettle c16Pos.expiry := by unfold settlesAt; decide
example : ("ETH-1650-C", c16Pos) ∈ c16TState.positions ∧ KeysNodup c16TState :=
  ⟨by simp [c16TState, c16State], by unfold KeysNodup; decide⟩
end

end Demeter
