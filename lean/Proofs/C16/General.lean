/-
  C16, run level, arbitrary interleavings — every bar may carry any list of buys, sells, deposits, withdrawals and balance reads of
  ANY instrument (accepted or rejected), including the instrument whose settlement is followed: bought more, sold in part, sold out,
  bought back, rolled into another one inside a bar.
    * per bar (`C16_bar_any_trades_settles_exactly_the_due`): whatever exists when `update()` runs on an on-grid bar and is due
      there is removed in that bar with exactly one Expired record; whatever is not due stays, with none;
    * per run (`C16_run_any_trades_one_record_per_settlement`): the Expired records of an instrument over a whole run are exactly
      its settlements — the on-grid bars at which a position under its key existed and was due when `update()` ran;
    * exactly once (`C16_run_any_trades_settles_exactly_once`): with the instrument's expiry `T` fixed by the data (rows named `k`
      carry expiry `T` in the bars where the strategy trades `k`), no Expired record before the first on-grid bar `b` at/after `T`; at
      `b` the position — if the strategy has not sold it out by then — is removed with exactly one record; afterwards it cannot
      come back as long as the book no longer lists `k` as open (`check_transaction` refuses an instrument that is not in the book
      or not open — it does NOT look at the expiry: an expired instrument that the data still lists as open can be bought, and is
      then settled by the same bar's `update()`, see the witness at the end);
    * the cash moves by exactly the payoffs of the per-bar theorem (`C16_bar_any_trades_cash`).
  The earlier run-level theorems (`C16_run_with_trades_settles_exactly_once`: instrument not traded; hold runs) are instances.
-/
import Proofs.C16.Trades
namespace Demeter
open Demeter.Deribit

namespace Deribit

/-- does bar `b`, started in state `s`, settle a position under key `k`: it is on the hourly grid and when `update()` runs a
    position under `k` exists and is due -/
def settlesKey (cx : DCtx) (c : TokenCfg) (s : DState) (b : Bar) (k : String) : Prop :=
  (b.now % (Gen.deribitFreqMinutes : Int) == 0) = true ∧
    k ∈ ((midState cx c s b).positions.filter (fun kp => decide (b.now ≥ kp.2.expiry))).map Prod.fst

instance (cx : DCtx) (c : TokenCfg) (s : DState) (b : Bar) (k : String) : Decidable (settlesKey cx c s b k) := by
  unfold settlesKey; infer_instance

/-- the number of settlements of key `k` over a run -/
def settlements (cx : DCtx) (c : TokenCfg) (k : String) : DState → List Bar → Nat
  | _, [] => 0
  | s, b :: bs => (if settlesKey cx c s b k then 1 else 0) + settlements cx c k (runBar cx c s b).state bs

theorem runBars_append (cx : DCtx) (c : TokenCfg) (l1 l2 : List Bar) (s0 : DState) :
    runBars cx c s0 (l1 ++ l2) = runBars cx c (runBars cx c s0 l1) l2 := by
  induction l1 generalizing s0 with
  | nil => rfl
  | cons x xs ih => exact ih _

/-- the strategy does not call `update()` itself -/
def NoUpdate (b : Bar) : Prop := ∀ o ∈ b.ops, o ≠ Op.update

/-- the calls of a bar do not name instrument `k` -/
def Avoids (k : String) (b : Bar) : Prop := ∀ o ∈ b.ops, o.key ≠ some k

theorem closed_setAsks {k : String} {book : List Instr} (h : ∀ i ∈ book, i.name = k → i.stateOpen = false) (n : String) (ls : List Level) :
    ∀ i ∈ setAsks book n ls, i.name = k → i.stateOpen = false := by
  intro i hi
  obtain ⟨i0, hi0, rfl⟩ := List.mem_map.mp hi
  split <;> exact h i0 hi0

theorem closed_setBids {k : String} {book : List Instr} (h : ∀ i ∈ book, i.name = k → i.stateOpen = false) (n : String) (ls : List Level) :
    ∀ i ∈ setBids book n ls, i.name = k → i.stateOpen = false := by
  intro i hi
  obtain ⟨i0, hi0, rfl⟩ := List.mem_map.mp hi
  split <;> exact h i0 hi0

/-- an instrument the book does not list as open cannot be bought (`check_transaction`: "not in current orderbook" /
    "state … is not open"), whatever its expiry -/
theorem buy_refused_when_not_listed_open (cx : DCtx) (c : TokenCfg) (s : DState) (r : Req)
    (h : ∀ i ∈ s.book, i.name = r.name → i.stateOpen = false) : ∃ e, buy cx c s r = (.error e, s) := by
  rcases hb : buy cx c s r with ⟨out, s'⟩
  cases out with
  | error e => exact ⟨e, by rw [buy_err hb]⟩
  | ok res =>
    exfalso
    obtain ⟨_, ck, hck, _⟩ := buy_ok hb
    obtain ⟨⟨ins0, hfind, hnorm⟩, hopen, _⟩ := checkTx_ok hck
    have hname : ins0.name = r.name := by have := List.find?_some hfind; simpa using this
    have := h ins0 (findInstr_mem hfind) hname
    rw [hnorm] at hopen
    simp only [normInstr] at hopen
    rw [this] at hopen; cases hopen

theorem keys_set_sub {m : AList String Position} {n a : String} {v : Position} (h : a ∈ (AList.set m n v).map Prod.fst) :
    a = n ∨ a ∈ m.map Prod.fst := by
  obtain ⟨kp, hkp, rfl⟩ := List.mem_map.mp h
  rcases alist_mem_set _ _ _ _ hkp with e | e
  · exact Or.inl (congrArg Prod.fst e)
  · exact Or.inr (List.mem_map.mpr ⟨kp, e, rfl⟩)

/-- a key that is not held and that the book does not list as open stays absent through any call of the strategy -/
theorem step_absent (cx : DCtx) (c : TokenCfg) (s : DState) (o : Op) (ho : o ≠ .update) (k : String)
    (hbook : ∀ i ∈ s.book, i.name = k → i.stateOpen = false) (habs : k ∉ s.positions.map Prod.fst) :
    (∀ i ∈ (step cx c s o).2.book, i.name = k → i.stateOpen = false) ∧ k ∉ (step cx c s o).2.positions.map Prod.fst := by
  cases o with
  | update => exact absurd rfl ho
  | buy r =>
    rcases hb : buy cx c s r with ⟨out, s'⟩
    simp only [step, hb]
    cases out with
    | error e => rw [buy_err hb]; exact ⟨hbook, habs⟩
    | ok res =>
      have hne : r.name ≠ k := by
        intro e
        obtain ⟨e', he'⟩ := buy_refused_when_not_listed_open cx c s r (by rw [e]; exact hbook)
        rw [hb] at he'; cases he'
      obtain ⟨_, ck, _, fills, prem, fee, _, _, _, _, _, _, hs'⟩ := buy_ok hb
      rw [hs']
      refine ⟨closed_setAsks hbook _ _, ?_⟩
      intro hk
      rcases keys_set_sub hk with e | e
      · exact hne e.symm
      · exact habs e
  | sell r =>
    rcases hb : sell cx c s r with ⟨out, s'⟩
    simp only [step, hb]
    cases out with
    | error e => rw [sell_err hb]; exact ⟨hbook, habs⟩
    | ok res =>
      obtain ⟨_, ck, p0, bids, _, hget, _, _, fills, prem, fee, _, _, _, _, hs'⟩ := sell_ok hb
      have hne : r.name ≠ k := by
        intro e
        exact habs (List.mem_map.mpr ⟨(k, p0), e ▸ alist_get_mem hget, rfl⟩)
      rw [hs']
      refine ⟨closed_setBids hbook _ _, ?_⟩
      simp only []
      split
      · intro hk
        obtain ⟨kp, hkp, hkey⟩ := List.mem_map.mp hk
        exact habs (List.mem_map.mpr ⟨kp, (List.mem_filter.mp hkp).1, hkey⟩)
      · intro hk
        rcases keys_set_sub hk with e | e
        · exact hne e.symm
        · exact habs e
  | deposit a =>
    rcases hd : deposit cx c s a with ⟨out, s'⟩
    simp only [step, hd]
    cases out with
    | error e => rw [deposit_err hd]; exact ⟨hbook, habs⟩
    | ok res =>
      unfold deposit at hd
      split at hd
      · simp at hd
      · split at hd
        · simp at hd
        · simp at hd
        · simp only [Prod.mk.injEq] at hd
          obtain ⟨_, hs⟩ := hd
          subst hs
          exact ⟨hbook, habs⟩
  | withdraw a =>
    rcases hd : withdraw cx c s a with ⟨out, s'⟩
    simp only [step, hd]
    cases out with
    | error e => rw [withdraw_err hd]; exact ⟨hbook, habs⟩
    | ok res =>
      unfold withdraw at hd
      split at hd
      · simp at hd
      · simp only [] at hd
        split at hd
        · simp at hd
        · simp only [Prod.mk.injEq] at hd
          obtain ⟨_, hs⟩ := hd
          subst hs
          exact ⟨hbook, habs⟩
  | balance =>
    simp only [step, getMarketBalance]
    split
    · exact ⟨hbook, habs⟩
    · split
      · exact ⟨hbook, habs⟩
      · split <;> exact ⟨hbook, habs⟩

theorem runOpsO_absent (cx : DCtx) (c : TokenCfg) (ops : List Op) (s : DState) (hops : ∀ o ∈ ops, o ≠ Op.update) (k : String)
    (hbook : ∀ i ∈ s.book, i.name = k → i.stateOpen = false) (habs : k ∉ s.positions.map Prod.fst) :
    k ∉ (runOpsO cx c s ops).2.1.positions.map Prod.fst := by
  induction ops generalizing s with
  | nil => exact habs
  | cons o os ih =>
    rw [runOpsO_cons]
    obtain ⟨h1, h2⟩ := step_absent cx c s o (hops o List.mem_cons_self) k hbook habs
    exact ih _ (fun o' ho' => hops o' (List.mem_cons_of_mem _ ho')) h1 h2

/-- when `update()` runs, key `k` is still absent: the bar did not name it, or its book does not list it as open -/
theorem midState_absent (cx : DCtx) (c : TokenCfg) (s : DState) (b : Bar) (hops : NoUpdate b) (hn : KeysNodup s) (k : String)
    (habs : k ∉ s.positions.map Prod.fst)
    (hk : Avoids k b ∨ ∀ i ∈ b.book, i.name = k → i.stateOpen = false) :
    k ∉ (midState cx c s b).positions.map Prod.fst := by
  rcases hk with hk | hk
  · obtain ⟨_, _, _, _, hkeep⟩ := midState_frame cx c s b hops hn
    intro h
    obtain ⟨kp, hkp, hkey⟩ := List.mem_map.mp h
    have : (k, kp.2) ∈ s.positions := (hkeep k hk kp.2).mp (by rw [← hkey]; exact hkp)
    exact habs (List.mem_map.mpr ⟨(k, kp.2), this, rfl⟩)
  · have := runOpsO_absent cx c b.ops (setStatus s b) hops k hk habs
    unfold midState
    split
    · exact this
    · exact this

/-- the expiry of everything held under `k` when `update()` runs satisfies `P`: the bar did not name `k` (the position is the one
    that entered the bar), or the rows named `k` in its book carry such an expiry (where a bought position takes its expiry from) -/
theorem midState_expiry (cx : DCtx) (c : TokenCfg) (s : DState) (b : Bar) (hops : NoUpdate b) (hn : KeysNodup s) (k : String)
    (P : Int → Prop) (h0 : ∀ p, (k, p) ∈ s.positions → P p.expiry)
    (hk : Avoids k b ∨ ∀ i ∈ b.book, i.name = k → P i.expiry) :
    ∀ p, (k, p) ∈ (midState cx c s b).positions → P p.expiry := by
  rcases hk with hk | hk
  · obtain ⟨_, _, _, _, hkeep⟩ := midState_frame cx c s b hops hn
    intro p hp
    exact h0 p ((hkeep k hk p).mp hp)
  · exact midState_expP cx c s b hops k P h0 hk

end Deribit

/-- **one bar, any trades: exactly the due positions are settled, each exactly once.**  On an on-grid bar, whatever the strategy did
    before `update()` (to any instrument): a position that exists at that moment and is due is gone after the bar and the bar wrote
    exactly one Expired record for its key; a position that is not yet due is still there, unchanged, and the bar wrote none.
    Off the grid nothing is settled at all. -/
theorem C16_bar_any_trades_settles_exactly_the_due (cx : DCtx) (c : TokenCfg) (s : DState) (b : Bar)
    (hops : Deribit.NoUpdate b) (hn : Deribit.KeysNodup s) (k : String) (p : Position)
    (hmem : (k, p) ∈ (Deribit.midState cx c s b).positions) :
    ((b.now % (Gen.deribitFreqMinutes : Int) == 0) = true ∧ p.expiry ≤ b.now →
        k ∉ (runBar cx c s b).state.positions.map Prod.fst ∧
        Deribit.expiredCount k (runBar cx c s b).state.actions = Deribit.expiredCount k s.actions + 1) ∧
    (¬ ((b.now % (Gen.deribitFreqMinutes : Int) == 0) = true ∧ p.expiry ≤ b.now) →
        (k, p) ∈ (runBar cx c s b).state.positions ∧
        Deribit.expiredCount k (runBar cx c s b).state.actions = Deribit.expiredCount k s.actions) := by
  obtain ⟨hnow, hgrid, hn2, _, _⟩ := Deribit.midState_frame cx c s b hops hn
  obtain ⟨hcount, _⟩ := Deribit.expiredCount_runBar_trades cx c s b hops hn k
  constructor
  · rintro ⟨hg, hdue⟩
    constructor
    · intro hk
      obtain ⟨kp, hkp, hkey⟩ := List.mem_map.mp hk
      have hlt := C16_bar_with_trades_leaves_nothing_due cx c s b hops hn hg kp hkp
      rw [(Deribit.runBar_mid cx c s b).1] at hkp
      have hin := Deribit.update_sub cx c _ hn2 kp hkp
      have := List.inj_on_of_nodup_map hn2 hin hmem hkey
      subst this
      simp only [] at hlt
      omega
    · rw [hcount, if_pos ⟨hg, List.mem_map.mpr ⟨(k, p), List.mem_filter.mpr ⟨hmem, by simpa using hdue⟩, rfl⟩⟩]
  · intro hnot
    constructor
    · rw [(Deribit.runBar_mid cx c s b).1]
      by_cases hg : (Deribit.midState cx c s b).onGrid = true
      · have hlt : ¬ p.expiry ≤ b.now := fun hle => hnot ⟨by rw [← hgrid]; exact hg, hle⟩
        exact C16_nothing_before_expiry cx c _ hn2 k p hmem (by rw [hnow]; omega)
      · rw [C16_update_off_grid_noop cx c _ (by simpa using hg)]; exact hmem
    · rw [hcount, if_neg, add_zero]
      rintro ⟨hg, hk⟩
      simp only [List.mem_map, List.mem_filter, decide_eq_true_eq] at hk
      obtain ⟨kp, ⟨hkp, hdue⟩, hkey⟩ := hk
      have := List.inj_on_of_nodup_map hn2 hkp hmem hkey
      subst this
      exact hnot ⟨hg, hdue⟩

/-- **the cash of a bar with trades moves by exactly the payoffs** (exact arithmetic): after the strategy's calls the bar's
    `update()` adds, on an on-grid bar, the net payoff (`C16_payoff_formula`: intrinsic value minus delivery fee, or nothing) of every
    position that is due at that moment, and nothing otherwise.  `netPayoff` is the model's credited amount on the non-raising path;
    that it is the property's formula, and that the code's `update()` takes this path, needs the guard on the underlying price
    (`C16_cash_moves_by_the_formula`, `C16_barX_update_does_not_raise_under_guard`, Proofs/C16/Guard.lean, Hooks.lean) -/
theorem C16_bar_any_trades_cash (c : TokenCfg) (s : DState) (b : Bar) :
    (runBar DCtx.exact c s b).state.cash =
      (Deribit.midState DCtx.exact c s b).cash +
        (if (Deribit.midState DCtx.exact c s b).onGrid then
          (((Deribit.midState DCtx.exact c s b).positions.filter (fun kp => Deribit.due (Deribit.midState DCtx.exact c s b) kp.2)).map
            (fun kp => netPayoff c (Deribit.midState DCtx.exact c s b) kp.2)).sum else 0) := by
  rw [(Deribit.runBar_mid DCtx.exact c s b).2.2, Deribit.update_cash_eq]
  split <;> simp

/-- **Expired records = settlements, over any run**: however the strategy trades (any instruments, accepted or rejected orders, any
    number per bar), the number of Expired records an instrument collects over the run is the number of on-grid bars at which a
    position under its key existed and was due when `update()` ran — no record without a settlement, no settlement without its one
    record, none twice -/
theorem C16_run_any_trades_one_record_per_settlement (cx : DCtx) (c : TokenCfg) (bs : List Bar) (s : DState)
    (hn : Deribit.KeysNodup s) (hops : ∀ b ∈ bs, Deribit.NoUpdate b) (k : String) :
    Deribit.expiredCount k (runBars cx c s bs).actions = Deribit.expiredCount k s.actions + Deribit.settlements cx c k s bs ∧
    Deribit.KeysNodup (runBars cx c s bs) := by
  induction bs generalizing s with
  | nil => exact ⟨rfl, hn⟩
  | cons b bs ih =>
    obtain ⟨hcount, hn'⟩ := Deribit.expiredCount_runBar_trades cx c s b (hops b List.mem_cons_self) hn k
    obtain ⟨i1, i2⟩ := ih (runBar cx c s b).state hn' (fun b' h => hops b' (List.mem_cons_of_mem _ h))
    refine ⟨?_, i2⟩
    show Deribit.expiredCount k (runBars cx c (runBar cx c s b).state bs).actions = _
    rw [i1, hcount]
    simp only [Deribit.settlements, Deribit.settlesKey]
    omega

namespace Deribit

/-- before the settling bar: nothing under `k` is settled, and everything held under `k` keeps expiry `T` -/
theorem run_any_trades_pre (cx : DCtx) (c : TokenCfg) (bs : List Bar) (s : DState) (hn : KeysNodup s) (k : String) (T : Int)
    (hops : ∀ b ∈ bs, NoUpdate b)
    (hk : ∀ b ∈ bs, Avoids k b ∨ ∀ i ∈ b.book, i.name = k → i.expiry = T)
    (hpre : ∀ b ∈ bs, ¬ settlesAt b T)
    (h0 : ∀ p, (k, p) ∈ s.positions → p.expiry = T) :
    KeysNodup (runBars cx c s bs) ∧ expiredCount k (runBars cx c s bs).actions = expiredCount k s.actions ∧
    (∀ p, (k, p) ∈ (runBars cx c s bs).positions → p.expiry = T) := by
  induction bs generalizing s with
  | nil => exact ⟨hn, rfl, h0⟩
  | cons b bs ih =>
    have hb := hops b List.mem_cons_self
    have hnb := hpre b List.mem_cons_self
    obtain ⟨_, _, hn2, _, _⟩ := midState_frame cx c s b hb hn
    have hmid := midState_expiry cx c s b hb hn k (fun e => e = T) h0 (hk b List.mem_cons_self)
    obtain ⟨hcount, hn'⟩ := expiredCount_runBar_trades cx c s b hb hn k
    have hno : ¬ ((b.now % (Gen.deribitFreqMinutes : Int) == 0) = true ∧
        k ∈ ((midState cx c s b).positions.filter (fun kp => decide (b.now ≥ kp.2.expiry))).map Prod.fst) := by
      rintro ⟨hg, hkk⟩
      simp only [List.mem_map, List.mem_filter, decide_eq_true_eq] at hkk
      obtain ⟨kp, ⟨hkp, hdue⟩, hkey⟩ := hkk
      have hT : kp.2.expiry = T := hmid kp.2 (by rw [← hkey]; exact hkp)
      exact hnb ⟨hg, by rw [← hT]; exact hdue⟩
    rw [if_neg hno, add_zero] at hcount
    have h0' : ∀ p, (k, p) ∈ (runBar cx c s b).state.positions → p.expiry = T := by
      intro p hp
      rw [(runBar_mid cx c s b).1] at hp
      exact hmid p (update_sub cx c _ hn2 _ hp)
    obtain ⟨i1, i2, i3⟩ := ih (runBar cx c s b).state hn' (fun b' h => hops b' (List.mem_cons_of_mem _ h))
      (fun b' h => hk b' (List.mem_cons_of_mem _ h)) (fun b' h => hpre b' (List.mem_cons_of_mem _ h)) h0'
    exact ⟨i1, by rw [← hcount]; exact i2, i3⟩

/-- the settling bar: whatever is held under `k` when `update()` runs is due; it is removed, with exactly one record if there was
    anything to remove -/
theorem bar_any_trades_settles (cx : DCtx) (c : TokenCfg) (s : DState) (b : Bar) (hn : KeysNodup s) (k : String)
    (hops : NoUpdate b) (hg : (b.now % (Gen.deribitFreqMinutes : Int) == 0) = true)
    (hmid : ∀ p, (k, p) ∈ (midState cx c s b).positions → p.expiry ≤ b.now) :
    k ∉ (runBar cx c s b).state.positions.map Prod.fst ∧ KeysNodup (runBar cx c s b).state ∧
    expiredCount k (runBar cx c s b).state.actions =
      expiredCount k s.actions + (if k ∈ (midState cx c s b).positions.map Prod.fst then 1 else 0) := by
  obtain ⟨_, _, hn2, _, _⟩ := midState_frame cx c s b hops hn
  obtain ⟨hcount, hn'⟩ := expiredCount_runBar_trades cx c s b hops hn k
  refine ⟨?_, hn', ?_⟩
  · intro hk
    obtain ⟨kp, hkp, hkey⟩ := List.mem_map.mp hk
    have hlt := C16_bar_with_trades_leaves_nothing_due cx c s b hops hn hg kp hkp
    rw [(runBar_mid cx c s b).1] at hkp
    have hin := update_sub cx c _ hn2 kp hkp
    have := hmid kp.2 (by rw [← hkey]; exact hin)
    omega
  · rw [hcount]
    congr 1
    by_cases hin : k ∈ (midState cx c s b).positions.map Prod.fst
    · rw [if_pos hin, if_pos]
      refine ⟨hg, ?_⟩
      obtain ⟨kp, hkp, hkey⟩ := List.mem_map.mp hin
      exact List.mem_map.mpr ⟨kp, List.mem_filter.mpr ⟨hkp, by simpa using hmid kp.2 (by rw [← hkey]; exact hkp)⟩, hkey⟩
    · rw [if_neg hin, if_neg]
      rintro ⟨_, hkk⟩
      obtain ⟨kp, hkp, hkey⟩ := List.mem_map.mp hkk
      exact hin (List.mem_map.mpr ⟨kp, (List.mem_filter.mp hkp).1, hkey⟩)

/-- after it: a key that is not held does not come back while the strategy does not name it or the book does not list it as open -/
theorem run_any_trades_post (cx : DCtx) (c : TokenCfg) (bs : List Bar) (s : DState) (hn : KeysNodup s) (k : String)
    (hops : ∀ b ∈ bs, NoUpdate b)
    (hk : ∀ b ∈ bs, Avoids k b ∨ ∀ i ∈ b.book, i.name = k → i.stateOpen = false)
    (habs : k ∉ s.positions.map Prod.fst) :
    k ∉ (runBars cx c s bs).positions.map Prod.fst ∧ expiredCount k (runBars cx c s bs).actions = expiredCount k s.actions := by
  induction bs generalizing s with
  | nil => exact ⟨habs, rfl⟩
  | cons b bs ih =>
    have hb := hops b List.mem_cons_self
    obtain ⟨_, _, hn2, _, _⟩ := midState_frame cx c s b hb hn
    have hmidabs := midState_absent cx c s b hb hn k habs (hk b List.mem_cons_self)
    obtain ⟨hcount, hn'⟩ := expiredCount_runBar_trades cx c s b hb hn k
    have habs' : k ∉ (runBar cx c s b).state.positions.map Prod.fst := by
      intro h
      obtain ⟨kp, hkp, hkey⟩ := List.mem_map.mp h
      rw [(runBar_mid cx c s b).1] at hkp
      exact hmidabs (List.mem_map.mpr ⟨kp, update_sub cx c _ hn2 kp hkp, hkey⟩)
    have hno : ¬ ((b.now % (Gen.deribitFreqMinutes : Int) == 0) = true ∧
        k ∈ ((midState cx c s b).positions.filter (fun kp => decide (b.now ≥ kp.2.expiry))).map Prod.fst) := by
      rintro ⟨_, hkk⟩
      obtain ⟨kp, hkp, hkey⟩ := List.mem_map.mp hkk
      exact hmidabs (List.mem_map.mpr ⟨kp, (List.mem_filter.mp hkp).1, hkey⟩)
    rw [if_neg hno, add_zero] at hcount
    obtain ⟨i1, i2⟩ := ih (runBar cx c s b).state hn' (fun b' h => hops b' (List.mem_cons_of_mem _ h))
      (fun b' h => hk b' (List.mem_cons_of_mem _ h)) habs'
    exact ⟨i1, by rw [← hcount]; exact i2⟩

end Deribit

/-- **settled exactly once at the first open bar at or after expiry — arbitrary interleavings of trades.**
    Instrument `k` expires at `T`: what is held under `k` at the start does, and so do the rows named `k` in the book of every bar
    (up to and including the settling bar) in which the strategy names `k` at all.  `b` is the first on-grid bar at/after `T`.  The
    strategy may, in any bar, buy and sell any instrument — `k` itself included: add to the position, sell part of it, sell it out,
    buy it back, roll it into another instrument —, deposit, withdraw, read balances; orders may be accepted or rejected.  Then
      * through all bars before `b` no Expired record for `k` is written and whatever is held under `k` still expires at `T`;
      * in `b` the position under `k`, if one exists when `update()` runs, is removed and exactly one Expired record is written;
        if the strategy had sold it out, none is;
      * after `b`, as long as each bar either does not name `k` or has a book that does not list `k` as open (an expired instrument
        is delisted — that, not the expiry date, is what `check_transaction` looks at), `k` never reappears and no further record is
        written: over the whole run the records for `k` number exactly one if the position existed at `b`, else zero. -/
theorem C16_run_any_trades_settles_exactly_once (cx : DCtx) (c : TokenCfg) (pre post : List Bar) (b : Bar) (s : DState)
    (hn : Deribit.KeysNodup s) (k : String) (T : Int)
    (hops : ∀ b' ∈ pre ++ b :: post, Deribit.NoUpdate b')
    (h0 : ∀ p, (k, p) ∈ s.positions → p.expiry = T)
    (hk : ∀ b' ∈ pre ++ [b], Deribit.Avoids k b' ∨ ∀ i ∈ b'.book, i.name = k → i.expiry = T)
    (hpre : ∀ b' ∈ pre, ¬ Deribit.settlesAt b' T) (hb : Deribit.settlesAt b T)
    (hpost : ∀ b' ∈ post, Deribit.Avoids k b' ∨ ∀ i ∈ b'.book, i.name = k → i.stateOpen = false) :
    Deribit.expiredCount k (runBars cx c s pre).actions = Deribit.expiredCount k s.actions ∧
    (∀ p, (k, p) ∈ (runBars cx c s pre).positions → p.expiry = T) ∧
    k ∉ (runBars cx c s (pre ++ [b])).positions.map Prod.fst ∧
    k ∉ (runBars cx c s (pre ++ b :: post)).positions.map Prod.fst ∧
    Deribit.expiredCount k (runBars cx c s (pre ++ b :: post)).actions =
      Deribit.expiredCount k s.actions +
        (if k ∈ (Deribit.midState cx c (runBars cx c s pre) b).positions.map Prod.fst then 1 else 0) := by
  have hops_pre : ∀ b' ∈ pre, Deribit.NoUpdate b' := fun b' h => hops b' (List.mem_append_left _ h)
  have hops_b : Deribit.NoUpdate b := hops b (List.mem_append_right _ List.mem_cons_self)
  have hops_post : ∀ b' ∈ post, Deribit.NoUpdate b' := fun b' h => hops b' (List.mem_append_right _ (List.mem_cons_of_mem _ h))
  obtain ⟨hn1, hc1, he1⟩ := Deribit.run_any_trades_pre cx c pre s hn k T hops_pre
    (fun b' h => hk b' (List.mem_append_left _ h)) hpre h0
  set s1 := runBars cx c s pre with hs1
  have hmid := Deribit.midState_expiry cx c s1 b hops_b hn1 k (fun e => e = T) he1
    (hk b (List.mem_append_right _ List.mem_cons_self))
  obtain ⟨hgone, hn2, hcb⟩ := Deribit.bar_any_trades_settles cx c s1 b hn1 k hops_b hb.1
    (fun p hp => by rw [hmid p hp]; exact hb.2)
  obtain ⟨hp3, hc3⟩ := Deribit.run_any_trades_post cx c post (runBar cx c s1 b).state hn2 k hops_post hpost hgone
  refine ⟨hc1, he1, ?_, ?_, ?_⟩
  · rw [Deribit.runBars_append]; exact hgone
  · rw [Deribit.runBars_append]; exact hp3
  · rw [Deribit.runBars_append]
    show Deribit.expiredCount k (runBars cx c (runBar cx c s1 b).state post).actions = _
    rw [hc3, hcb, hc1]

/-- the run-level theorem for an instrument the strategy does not trade (`C16_run_with_trades_settles_exactly_once`) is the instance
    in which every bar avoids `k`: the position then is the one held from the start, it exists at the settling bar, and the record
    count is exactly one -/
theorem C16_run_with_trades_is_an_instance (cx : DCtx) (c : TokenCfg) (pre post : List Bar) (b : Bar) (s : DState)
    (hn : Deribit.KeysNodup s) (k : String) (p : Position) (hmem : (k, p) ∈ s.positions)
    (hops : ∀ b' ∈ pre ++ b :: post, Deribit.BarAvoids k b') (hpre : ∀ b' ∈ pre, ¬ Deribit.settlesAt b' p.expiry)
    (hb : Deribit.settlesAt b p.expiry) :
    (k, p) ∈ (runBars cx c s pre).positions ∧
    k ∉ (runBars cx c s (pre ++ [b])).positions.map Prod.fst ∧
    k ∉ (runBars cx c s (pre ++ b :: post)).positions.map Prod.fst ∧
    Deribit.expiredCount k (runBars cx c s (pre ++ b :: post)).actions = Deribit.expiredCount k s.actions + 1 := by
  have hnu : ∀ b' ∈ pre ++ b :: post, Deribit.NoUpdate b' := fun b' h o ho => (hops b' h o ho).1
  have hav : ∀ b' ∈ pre ++ b :: post, Deribit.Avoids k b' := fun b' h o ho => (hops b' h o ho).2
  have h0 : ∀ q, (k, q) ∈ s.positions → q.expiry = p.expiry := by
    intro q hq
    have := List.inj_on_of_nodup_map hn hq hmem rfl
    rw [Prod.mk.injEq] at this; rw [this.2]
  obtain ⟨_, _, g3, g4, g5⟩ := C16_run_any_trades_settles_exactly_once cx c pre post b s hn k p.expiry hnu h0
    (fun b' h => Or.inl (hav b' (by
      rcases List.mem_append.mp h with h | h
      · exact List.mem_append_left _ h
      · rw [List.mem_singleton] at h; rw [h]; exact List.mem_append_right _ List.mem_cons_self)))
    hpre hb (fun b' h => Or.inl (hav b' (List.mem_append_right _ (List.mem_cons_of_mem _ h))))
  -- the untouched position is still there when `update()` runs in `b`
  obtain ⟨hm1, hn1, _⟩ := Deribit.run_trades_keeps cx c pre s hn k p hmem
    (fun b' h => hops b' (List.mem_append_left _ h)) hpre
  have hops_b := hops b (List.mem_append_right _ List.mem_cons_self)
  obtain ⟨_, _, _, _, hkeep⟩ := Deribit.midState_frame cx c (runBars cx c s pre) b (fun o h => (hops_b o h).1) hn1
  have hmid : k ∈ (Deribit.midState cx c (runBars cx c s pre) b).positions.map Prod.fst :=
    List.mem_map.mpr ⟨(k, p), (hkeep k (fun o h => (hops_b o h).2) p).mpr hm1, rfl⟩
  rw [if_pos hmid] at g5
  exact ⟨hm1, g3, g4, g5⟩

/-- … and so is the hold run of Proofs/C16/Run.lean (no calls at all) -/
theorem C16_hold_run_is_an_instance (cx : DCtx) (c : TokenCfg) (pre post : List Bar) (b : Bar) (s : DState)
    (hn : Deribit.KeysNodup s) (k : String) (p : Position) (hmem : (k, p) ∈ s.positions)
    (hops : ∀ b' ∈ pre ++ b :: post, b'.ops = []) (hpre : ∀ b' ∈ pre, ¬ Deribit.settlesAt b' p.expiry)
    (hb : Deribit.settlesAt b p.expiry) :
    (k, p) ∈ (runBars cx c s pre).positions ∧
    k ∉ (runBars cx c s (pre ++ [b])).positions.map Prod.fst ∧
    k ∉ (runBars cx c s (pre ++ b :: post)).positions.map Prod.fst ∧
    Deribit.expiredCount k (runBars cx c s (pre ++ b :: post)).actions = Deribit.expiredCount k s.actions + 1 :=
  C16_run_with_trades_is_an_instance cx c pre post b s hn k p hmem
    (fun b' h o ho => by rw [hops b' h] at ho; cases ho) hpre hb

/-- **a delisted instrument cannot be bought**: when the bar's book has no open row named `k` (the row is gone, or its state is not
    "open"), every buy of `k` in that bar is refused and leaves the market as it was — positions "bought after expiry" cannot exist
    once the exchange has delisted the instrument.  (The refusal is about the listing: the code never compares the expiry with the
    clock when trading.) -/
theorem C16_delisted_instrument_cannot_be_bought (cx : DCtx) (c : TokenCfg) (s : DState) (r : Req)
    (h : ∀ i ∈ s.book, i.name = r.name → i.stateOpen = false) :
    ∃ e, step cx c s (.buy r) = (.error e, s) := Deribit.buy_refused_when_not_listed_open cx c s r h

/-! ### non-vacuity: the call of Proofs/C16/Run.lean (expiry minute 75) while the strategy trades that very instrument -/

namespace Deribit
def c16KReq (a : Rat) : Req := { name := "ETH-1650-C", amount := a, priceTok := none, priceUsd := none, mult := none }
/-- minute 59: an order on a closed bar (refused); minute 60: three more bought, one sold, another instrument bought; then held -/
def c16GPre : List Bar :=
  [c16TBar 59 false 1700 [.buy (c16KReq 1), .deposit 1], c16TBar 60 true 1700 [.buy (c16KReq 3), .sell (c16KReq 1), .buy (c16OtherReq 25), .balance],
   c16TBar 61 false 1700 [.sell (c16KReq 1), .withdraw (1 / 2)], c16TBar 119 false 1700 []]
/-- minute 120, the first on-grid bar after minute 75: the instrument is still listed; one more contract is sold before `update()` -/
def c16GSettle : Bar := c16TBar 120 true 1716 [.sell (c16KReq 1), .buy (c16OtherReq 3)]
/-- afterwards the instrument is delisted; the strategy keeps asking for it -/
def c16GPost : List Bar :=
  [{ c16TBar 121 false 1716 [.buy (c16KReq 1)] with book := [c16Other] }, { c16TBar 180 true 1716 [.buy (c16KReq 2), .buy (c16OtherReq 2)] with book := [c16Other] }]
/-- a roll at minute 60: everything held of the call is sold and the later-dated put is bought in the same bar -/
def c16GRoll : List Bar :=
  [c16TBar 60 true 1700 [.sell (c16KReq 2), .buy (c16OtherReq 2)], c16TBar 61 false 1700 [], c16TBar 119 false 1700 []]
end Deribit

section
open Deribit
example : ∀ b' ∈ c16GPre ++ c16GSettle :: c16GPost, NoUpdate b' := by simp only [NoUpdate]; decide +kernel
example : ∀ b' ∈ c16GPre ++ [c16GSettle], Avoids "ETH-1650-C" b' ∨ ∀ i ∈ b'.book, i.name = "ETH-1650-C" → i.expiry = 75 := by
  simp only [Avoids]; decide +kernel
example : ∀ b' ∈ c16GPost, Avoids "ETH-1650-C" b' ∨ ∀ i ∈ b'.book, i.name = "ETH-1650-C" → i.stateOpen = false := by
  simp only [Avoids]; decide +kernel
example : ∀ p, ("ETH-1650-C", p) ∈ c16TState.positions → p.expiry = 75 := by
  intro p hp; simp [c16TState, c16State] at hp; rw [hp]; rfl
example : ∀ b' ∈ c16GPre, ¬ settlesAt b' 75 := by
  intro b' hb'
  simp only [c16GPre, c16TBar, List.mem_cons, List.not_mem_nil, or_false] at hb'
  rcases hb' with rfl | rfl | rfl | rfl <;> (unfold settlesAt; decide)
example : settlesAt c16GSettle 75 := by unfold settlesAt; decide
-- the orders on the open bars are accepted, those on the closed bars and for the delisted instrument are refused
example : (runBar DCtx.exact ethCfg (runBar DCtx.exact ethCfg c16TState (c16TBar 59 false 1700 [.buy (c16KReq 1), .deposit 1])).state
    (c16TBar 60 true 1700 [.buy (c16KReq 3), .sell (c16KReq 1), .buy (c16OtherReq 25), .balance])).outcomes.map Except.toBool = [true, true, true, true] := by
  decide +kernel
example : (runBar DCtx.exact ethCfg c16TState (c16TBar 59 false 1700 [.buy (c16KReq 1), .deposit 1])).outcomes.map Except.toBool = [false, true] := by
  decide +kernel
-- 2 + 3 − 1 = 4 contracts enter the settling bar, one more is sold there, three are settled: one record, the key is gone and stays gone
example : ((runBars DCtx.exact ethCfg c16TState c16GPre).positions.map (fun kp => (kp.1, kp.2.amount))) = [("ETH-1650-C", 4), ("ETH-1700-P", 25)] := by
  decide +kernel
example : "ETH-1650-C" ∈ (midState DCtx.exact ethCfg (runBars DCtx.exact ethCfg c16TState c16GPre) c16GSettle).positions.map Prod.fst := by
  decide +kernel
example : expiredCount "ETH-1650-C" (runBars DCtx.exact ethCfg c16TState (c16GPre ++ c16GSettle :: c16GPost)).actions = 1 := by decide +kernel
example : (runBars DCtx.exact ethCfg c16TState (c16GPre ++ c16GSettle :: c16GPost)).positions.map Prod.fst = ["ETH-1700-P"] := by decide +kernel
example : settlements DCtx.exact ethCfg "ETH-1650-C" c16TState (c16GPre ++ c16GSettle :: c16GPost) = 1 := by decide +kernel
-- rolled out at minute 60: nothing is left to settle at minute 120 and no record is written; the number of positions is unchanged by the roll
example : (runBars DCtx.exact ethCfg c16TState c16GRoll).positions.map Prod.fst = ["ETH-1700-P"] := by decide +kernel
example : expiredCount "ETH-1650-C" (runBars DCtx.exact ethCfg c16TState (c16GRoll ++ c16GSettle :: c16GPost)).actions = 0 := by decide +kernel
-- what the code really does with an expired instrument that the data still lists as open: at minute 180 the call (expiry 75) is bought
-- — accepted — and the same bar's `update()` settles it: a second settlement, a second record, nothing left
example : (runBar DCtx.exact ethCfg (runBars DCtx.exact ethCfg c16TState (c16GPre ++ [c16GSettle])) (c16TBar 180 true 1716 [.buy (c16KReq 2)])).outcomes.map Except.toBool = [true] := by
  decide +kernel
example : expiredCount "ETH-1650-C" (runBars DCtx.exact ethCfg c16TState (c16GPre ++ [c16GSettle, c16TBar 180 true 1716 [.buy (c16KReq 2)]])).actions = 2 ∧
    settlements DCtx.exact ethCfg "ETH-1650-C" c16TState (c16GPre ++ [c16GSettle, c16TBar 180 true 1716 [.buy (c16KReq 2)]]) = 2 ∧
    (runBars DCtx.exact ethCfg c16TState (c16GPre ++ [c16GSettle, c16TBar 180 true 1716 [.buy (c16KReq 2)]])).positions.map Prod.fst = ["ETH-1700-P"] := by
  decide +kernel
end

end Demeter
