/-
  C16, run level, for the runs the driver replays: lists of `(Bar × after_bar calls × notify calls)` through `runBarX`.
    * `C16_runX_one_record_per_settlement` — Expired records of a key over any such run = its settlements (`settlementsX`: on-grid
      bars at which a position under the key existed and was due when `update()` ran);
    * `C16_runX_settles_exactly_once` — the exactly-once theorem of Proofs/C16/General.lean with late hooks everywhere: the hooks of
      the bars before the settling bar may trade `k` like the early calls (the rows named `k` carry expiry `T`), the late hooks of the
      settling bar and every call afterwards either do not name `k` or meet a book that does not list `k` as open.  That last
      hypothesis is necessary: `C16_late_hook_buy_is_settled_one_bar_late` is the kernel-checked run in which `after_bar` buys the
      expired, still listed instrument on the settling bar — the position survives that bar and is settled by the next on-grid bar,
      a second record.
-/
import Proofs.C16.Hooks
namespace Demeter
open Demeter.Deribit

namespace Deribit

/-- the number of settlements of key `k` over a run with late hooks -/
def settlementsX (cx : DCtx) (c : TokenCfg) (k : String) : DState → List XBar → Nat
  | _, [] => 0
  | s, x :: xs => (if settlesKey cx c s x.1 k then 1 else 0) + settlementsX cx c k (runBarX cx c s x.1 x.2.1 x.2.2).state xs

/-- the positions under `k` after a bar with late hooks have an expiry satisfying `P`, when those entering it do and either no call
    of the bar names `k` or the rows named `k` in its book do -/
theorem barX_expiry (cx : DCtx) (c : TokenCfg) (s : DState) (x : XBar) (hx : NoUpdateX x) (hn : KeysNodup s) (k : String)
    (P : Int → Prop) (h0 : ∀ p, (k, p) ∈ s.positions → P p.expiry)
    (hk : AvoidsX k x ∨ ∀ i ∈ x.1.book, i.name = k → P i.expiry) :
    ∀ p, (k, p) ∈ (runBarX cx c s x.1 x.2.1 x.2.2).state.positions → P p.expiry := by
  obtain ⟨_, hnu, hsub, hbook, _, _⟩ := postUpdate_frame cx c s x.1 hx.1 hn
  have hL := lateOps_noUpdate (fires cx c s x.1 x.2.1) x.2.1 x.2.2 hx.2.1 hx.2.2
  intro p hp
  rw [runBarX_state] at hp
  rcases hk with hk | hk
  · obtain ⟨_, _, _, f4⟩ := runOpsO_frame cx c _ (postUpdate cx c s x.1) hL hnu
    have h1 := (f4 k (lateOps_avoids k _ _ _ hk.2.1 hk.2.2) p).mp hp
    obtain ⟨_, _, _, _, hkeep⟩ := midState_frame cx c s x.1 hx.1 hn
    exact h0 p ((hkeep k hk.1 p).mp (hsub _ h1))
  · have hm := midState_expP2 cx c s x.1 hx.1 k P h0 hk
    have hu : ExpP P k (postUpdate cx c s x.1) := ⟨fun q hq => hm.1 q (hsub _ hq), by rw [hbook]; exact hm.2⟩
    exact (runOpsO_expP cx c _ _ hL k P hu).1 p hp

/-- a key absent when the bar starts is absent when it ends, when no call of the bar names it or its book does not list it as open -/
theorem barX_absent (cx : DCtx) (c : TokenCfg) (s : DState) (x : XBar) (hx : NoUpdateX x) (hn : KeysNodup s) (k : String)
    (habs : k ∉ s.positions.map Prod.fst)
    (hk : AvoidsX k x ∨ ∀ i ∈ x.1.book, i.name = k → i.stateOpen = false) :
    k ∉ (midState cx c s x.1).positions.map Prod.fst ∧ k ∉ (runBarX cx c s x.1 x.2.1 x.2.2).state.positions.map Prod.fst := by
  obtain ⟨_, hnu, hsub, hbook, _, _⟩ := postUpdate_frame cx c s x.1 hx.1 hn
  have hL := lateOps_noUpdate (fires cx c s x.1 x.2.1) x.2.1 x.2.2 hx.2.1 hx.2.2
  have hmid : k ∉ (midState cx c s x.1).positions.map Prod.fst :=
    midState_absent cx c s x.1 hx.1 hn k habs (hk.imp (fun h => h.1) id)
  have hu : k ∉ (postUpdate cx c s x.1).positions.map Prod.fst := by
    intro h
    obtain ⟨kp, hkp, hkey⟩ := List.mem_map.mp h
    exact hmid (List.mem_map.mpr ⟨kp, hsub _ hkp, hkey⟩)
  refine ⟨hmid, ?_⟩
  rw [runBarX_state]
  rcases hk with hk | hk
  · obtain ⟨_, _, _, f4⟩ := runOpsO_frame cx c _ (postUpdate cx c s x.1) hL hnu
    intro h
    obtain ⟨kp, hkp, hkey⟩ := List.mem_map.mp h
    have := (f4 k (lateOps_avoids k _ _ _ hk.2.1 hk.2.2) kp.2).mp (by rw [← hkey]; exact hkp)
    exact hu (List.mem_map.mpr ⟨(k, kp.2), this, rfl⟩)
  · exact runOpsO_absent cx c _ _ hL k (by rw [hbook]; exact midState_closed cx c s x.1 hx.1 k hk) hu

theorem not_settlesKey_of_absent (cx : DCtx) (c : TokenCfg) (s : DState) (b : Bar) (k : String)
    (h : k ∉ (midState cx c s b).positions.map Prod.fst) : ¬ settlesKey cx c s b k := by
  rintro ⟨_, hkk⟩
  obtain ⟨kp, hkp, hkey⟩ := List.mem_map.mp hkk
  exact h (List.mem_map.mpr ⟨kp, (List.mem_filter.mp hkp).1, hkey⟩)

/-- before the settling bar -/
theorem runX_pre (cx : DCtx) (c : TokenCfg) (xs : List XBar) (s : DState) (hn : KeysNodup s) (k : String) (T : Int)
    (hops : ∀ x ∈ xs, NoUpdateX x)
    (hk : ∀ x ∈ xs, AvoidsX k x ∨ ∀ i ∈ x.1.book, i.name = k → i.expiry = T)
    (hpre : ∀ x ∈ xs, ¬ settlesAt x.1 T)
    (h0 : ∀ p, (k, p) ∈ s.positions → p.expiry = T) :
    KeysNodup (runBarsX cx c s xs) ∧ expiredCount k (runBarsX cx c s xs).actions = expiredCount k s.actions ∧
    (∀ p, (k, p) ∈ (runBarsX cx c s xs).positions → p.expiry = T) := by
  induction xs generalizing s with
  | nil => exact ⟨hn, rfl, h0⟩
  | cons x xs ih =>
    have hx := hops x List.mem_cons_self
    have hnb := hpre x List.mem_cons_self
    have hkx := hk x List.mem_cons_self
    have hmid := midState_expiry cx c s x.1 hx.1 hn k (fun e => e = T) h0 (hkx.imp (fun h => h.1) id)
    obtain ⟨hcount, hn', _⟩ := expiredCount_runBarX cx c s x hx hn k
    have hno : ¬ settlesKey cx c s x.1 k := by
      rintro ⟨hg, hkk⟩
      simp only [List.mem_map, List.mem_filter, decide_eq_true_eq] at hkk
      obtain ⟨kp, ⟨hkp, hdue⟩, hkey⟩ := hkk
      have hT : kp.2.expiry = T := hmid kp.2 (by rw [← hkey]; exact hkp)
      exact hnb ⟨hg, by rw [← hT]; exact hdue⟩
    rw [if_neg hno, add_zero] at hcount
    have h0' := barX_expiry cx c s x hx hn k (fun e => e = T) h0 hkx
    obtain ⟨i1, i2, i3⟩ := ih (runBarX cx c s x.1 x.2.1 x.2.2).state hn' (fun x' h => hops x' (List.mem_cons_of_mem _ h))
      (fun x' h => hk x' (List.mem_cons_of_mem _ h)) (fun x' h => hpre x' (List.mem_cons_of_mem _ h)) h0'
    exact ⟨i1, by rw [← hcount]; exact i2, i3⟩

/-- after it -/
theorem runX_post (cx : DCtx) (c : TokenCfg) (xs : List XBar) (s : DState) (hn : KeysNodup s) (k : String)
    (hops : ∀ x ∈ xs, NoUpdateX x)
    (hk : ∀ x ∈ xs, AvoidsX k x ∨ ∀ i ∈ x.1.book, i.name = k → i.stateOpen = false)
    (habs : k ∉ s.positions.map Prod.fst) :
    k ∉ (runBarsX cx c s xs).positions.map Prod.fst ∧ expiredCount k (runBarsX cx c s xs).actions = expiredCount k s.actions := by
  induction xs generalizing s with
  | nil => exact ⟨habs, rfl⟩
  | cons x xs ih =>
    have hx := hops x List.mem_cons_self
    obtain ⟨hmidabs, habs'⟩ := barX_absent cx c s x hx hn k habs (hk x List.mem_cons_self)
    obtain ⟨hcount, hn', _⟩ := expiredCount_runBarX cx c s x hx hn k
    rw [if_neg (not_settlesKey_of_absent cx c s x.1 k hmidabs), add_zero] at hcount
    obtain ⟨i1, i2⟩ := ih (runBarX cx c s x.1 x.2.1 x.2.2).state hn' (fun x' h => hops x' (List.mem_cons_of_mem _ h))
      (fun x' h => hk x' (List.mem_cons_of_mem _ h)) habs'
    exact ⟨i1, by rw [← hcount]; exact i2⟩

end Deribit

/-- **Expired records = settlements, over any run with late hooks**: however the strategy trades, in `on_bar`, `after_bar` and
    `notify`, the number of Expired records an instrument collects over the run the driver replays is the number of on-grid bars at
    which a position under its key existed and was due when `update()` ran -/
theorem C16_runX_one_record_per_settlement (cx : DCtx) (c : TokenCfg) (xs : List Deribit.XBar) (s : DState)
    (hn : Deribit.KeysNodup s) (hops : ∀ x ∈ xs, Deribit.NoUpdateX x) (k : String) :
    Deribit.expiredCount k (Deribit.runBarsX cx c s xs).actions =
      Deribit.expiredCount k s.actions + Deribit.settlementsX cx c k s xs ∧
    Deribit.KeysNodup (Deribit.runBarsX cx c s xs) := by
  induction xs generalizing s with
  | nil => exact ⟨rfl, hn⟩
  | cons x xs ih =>
    obtain ⟨hcount, hn', _⟩ := Deribit.expiredCount_runBarX cx c s x (hops x List.mem_cons_self) hn k
    obtain ⟨i1, i2⟩ := ih (runBarX cx c s x.1 x.2.1 x.2.2).state hn' (fun x' h => hops x' (List.mem_cons_of_mem _ h))
    refine ⟨?_, i2⟩
    show Deribit.expiredCount k (Deribit.runBarsX cx c (runBarX cx c s x.1 x.2.1 x.2.2).state xs).actions = _
    rw [i1, hcount]
    simp only [Deribit.settlementsX]
    omega

/-- the runs of Proofs/C16/General.lean are the runs without late hooks -/
theorem C16_runX_without_late_hooks_is_run (cx : DCtx) (c : TokenCfg) (bs : List Bar) (s : DState) :
    Deribit.runBarsX cx c s (bs.map (fun b => (b, [], []))) = runBars cx c s bs ∧
    ∀ k, Deribit.settlementsX cx c k s (bs.map (fun b => (b, [], []))) = Deribit.settlements cx c k s bs := by
  induction bs generalizing s with
  | nil => exact ⟨rfl, fun _ => rfl⟩
  | cons b bs ih =>
    have h := (C16_bar_without_late_hooks cx c s b).1
    constructor
    · show Deribit.runBarsX cx c (runBarX cx c s b [] []).state _ = runBars cx c (runBar cx c s b).state bs
      rw [h]; exact (ih _).1
    · intro k
      show (if Deribit.settlesKey cx c s b k then 1 else 0) + Deribit.settlementsX cx c k (runBarX cx c s b [] []).state _ =
        (if Deribit.settlesKey cx c s b k then 1 else 0) + Deribit.settlements cx c k (runBar cx c s b).state bs
      rw [h, (ih _).2 k]

/-- **settled exactly once at the first open bar at or after expiry — any trades, in every hook.**  Instrument `k` expires at `T`
    (what is held under `k` at the start does; so do the rows named `k` in the book of every bar up to and including the settling bar
    `x` in which some call names `k`).  `x` is the first on-grid bar at/after `T`.  In every bar the strategy may trade anything from
    `on_bar`, `after_bar` and `notify`.  Then
      * through all bars before `x` no Expired record for `k` is written and whatever is held under `k` still expires at `T`;
      * in `x` the position under `k`, if one exists when `update()` runs, is removed with exactly one Expired record;
      * provided the LATE hooks of `x` and all calls of the later bars either do not name `k` or meet a book that does not list `k`
        as open, `k` is absent at the end of `x`, never reappears, and the run's records for `k` number exactly one (zero if the
        strategy had sold out before `update()` ran in `x`).
    Without that proviso the conclusion is false (`C16_late_hook_buy_is_settled_one_bar_late`). -/
theorem C16_runX_settles_exactly_once (cx : DCtx) (c : TokenCfg) (pre post : List Deribit.XBar) (x : Deribit.XBar) (s : DState)
    (hn : Deribit.KeysNodup s) (k : String) (T : Int)
    (hops : ∀ x' ∈ pre ++ x :: post, Deribit.NoUpdateX x')
    (h0 : ∀ p, (k, p) ∈ s.positions → p.expiry = T)
    (hkpre : ∀ x' ∈ pre, Deribit.AvoidsX k x' ∨ ∀ i ∈ x'.1.book, i.name = k → i.expiry = T)
    (hkx : Deribit.Avoids k x.1 ∨ ∀ i ∈ x.1.book, i.name = k → i.expiry = T)
    (hlate : Deribit.LateAvoids k x ∨ ∀ i ∈ x.1.book, i.name = k → i.stateOpen = false)
    (hpre : ∀ x' ∈ pre, ¬ Deribit.settlesAt x'.1 T) (hb : Deribit.settlesAt x.1 T)
    (hpost : ∀ x' ∈ post, Deribit.AvoidsX k x' ∨ ∀ i ∈ x'.1.book, i.name = k → i.stateOpen = false) :
    Deribit.expiredCount k (Deribit.runBarsX cx c s pre).actions = Deribit.expiredCount k s.actions ∧
    (∀ p, (k, p) ∈ (Deribit.runBarsX cx c s pre).positions → p.expiry = T) ∧
    k ∉ (Deribit.runBarsX cx c s (pre ++ [x])).positions.map Prod.fst ∧
    k ∉ (Deribit.runBarsX cx c s (pre ++ x :: post)).positions.map Prod.fst ∧
    Deribit.expiredCount k (Deribit.runBarsX cx c s (pre ++ x :: post)).actions =
      Deribit.expiredCount k s.actions +
        (if k ∈ (Deribit.midState cx c (Deribit.runBarsX cx c s pre) x.1).positions.map Prod.fst then 1 else 0) := by
  have hops_pre : ∀ x' ∈ pre, Deribit.NoUpdateX x' := fun x' h => hops x' (List.mem_append_left _ h)
  have hops_x : Deribit.NoUpdateX x := hops x (List.mem_append_right _ List.mem_cons_self)
  have hops_post : ∀ x' ∈ post, Deribit.NoUpdateX x' := fun x' h => hops x' (List.mem_append_right _ (List.mem_cons_of_mem _ h))
  obtain ⟨hn1, hc1, he1⟩ := Deribit.runX_pre cx c pre s hn k T hops_pre hkpre hpre h0
  set s1 := Deribit.runBarsX cx c s pre with hs1
  have hmid := Deribit.midState_expiry cx c s1 x.1 hops_x.1 hn1 k (fun e => e = T) he1 hkx
  -- the settling bar: `update()` removes what is held under `k`
  obtain ⟨hgone, _, hcb⟩ := Deribit.bar_any_trades_settles cx c s1 x.1 hn1 k hops_x.1 hb.1
    (fun p hp => by rw [hmid p hp]; exact hb.2)
  obtain ⟨hcx, hn2, _⟩ := Deribit.expiredCount_runBarX cx c s1 x hops_x hn1 k
  obtain ⟨hcr, _⟩ := Deribit.expiredCount_runBar_trades cx c s1 x.1 hops_x.1 hn1 k
  have hcount : Deribit.expiredCount k (runBarX cx c s1 x.1 x.2.1 x.2.2).state.actions =
      Deribit.expiredCount k s1.actions +
        (if k ∈ (Deribit.midState cx c s1 x.1).positions.map Prod.fst then 1 else 0) := by
    rw [← hcb, hcx, hcr]; simp only [Deribit.settlesKey]
  -- … and the late hooks do not bring it back
  obtain ⟨_, hnu, _, hbook, hpos, _⟩ := Deribit.postUpdate_frame cx c s1 x.1 hops_x.1 hn1
  have hL := Deribit.lateOps_noUpdate (Deribit.fires cx c s1 x.1 x.2.1) x.2.1 x.2.2 hops_x.2.1 hops_x.2.2
  have hu : k ∉ (Deribit.postUpdate cx c s1 x.1).positions.map Prod.fst := by rw [hpos]; exact hgone
  have hgoneX : k ∉ (runBarX cx c s1 x.1 x.2.1 x.2.2).state.positions.map Prod.fst := by
    rw [Deribit.runBarX_state]
    rcases hlate with hl | hl
    · obtain ⟨_, _, _, f4⟩ := Deribit.runOpsO_frame cx c _ (Deribit.postUpdate cx c s1 x.1) hL hnu
      intro h
      obtain ⟨kp, hkp, hkey⟩ := List.mem_map.mp h
      have := (f4 k (Deribit.lateOps_avoids k _ _ _ hl.1 hl.2) kp.2).mp (by rw [← hkey]; exact hkp)
      exact hu (List.mem_map.mpr ⟨(k, kp.2), this, rfl⟩)
    · exact Deribit.runOpsO_absent cx c _ _ hL k (by rw [hbook]; exact Deribit.midState_closed cx c s1 x.1 hops_x.1 k hl) hu
  obtain ⟨hp3, hc3⟩ := Deribit.runX_post cx c post (runBarX cx c s1 x.1 x.2.1 x.2.2).state hn2 k hops_post hpost hgoneX
  refine ⟨hc1, he1, ?_, ?_, ?_⟩
  · rw [Deribit.runBarsX_append]; exact hgoneX
  · rw [Deribit.runBarsX_append]; exact hp3
  · rw [Deribit.runBarsX_append]
    show Deribit.expiredCount k (Deribit.runBarsX cx c (runBarX cx c s1 x.1 x.2.1 x.2.2).state post).actions = _
    rw [hc3, hcount, hc1]

/-! ### non-vacuity, and the witness for the proviso -/

namespace Deribit
def xb (b : Bar) (after notify : List Op) : XBar := (b, after, notify)
/-- the run of Proofs/C16/General.lean with late hooks: at minute 60 `after_bar` buys one more contract of the call and `notify` (the
    bar recorded trades) sells one; at the settling bar (minute 120) the late hooks trade the other instrument only; afterwards the
    call is delisted and `after_bar` keeps asking for it -/
def c16XPre : List XBar :=
  [xb (c16TBar 59 false 1700 [.buy (c16KReq 1), .deposit 1]) [.balance] [],
   xb (c16TBar 60 true 1700 [.buy (c16KReq 3), .sell (c16KReq 1), .buy (c16OtherReq 25), .balance]) [.buy (c16KReq 1)] [.sell (c16KReq 1)],
   xb (c16TBar 61 false 1700 [.sell (c16KReq 1), .withdraw (1 / 2)]) [] [], xb (c16TBar 119 false 1700 []) [] []]
def c16XSettle : XBar := xb c16GSettle [.buy (c16OtherReq 1)] [.balance]
def c16XPost : List XBar :=
  [xb { c16TBar 121 false 1716 [.buy (c16KReq 1)] with book := [c16Other] } [.buy (c16KReq 1)] [],
   xb { c16TBar 180 true 1716 [.buy (c16KReq 2), .buy (c16OtherReq 2)] with book := [c16Other] } [.buy (c16KReq 1)] [.buy (c16KReq 1)]]
/-- the settling bar with an `after_bar` that buys two contracts of the expired call, which the data still lists as open -/
def c16XLate : XBar := xb c16GSettle [.buy (c16KReq 2)] []
/-- the next on-grid bar, the call still listed; the strategy does nothing -/
def c16XNext : XBar := xb (c16TBar 180 true 1716 []) [] []
end Deribit

section
open Deribit
example : ∀ x' ∈ c16XPre ++ c16XSettle :: c16XPost, NoUpdateX x' := by simp only [NoUpdateX, NoUpdate]; decide +kernel
example : ∀ x' ∈ c16XPre, AvoidsX "ETH-1650-C" x' ∨ ∀ i ∈ x'.1.book, i.name = "ETH-1650-C" → i.expiry = 75 := by
  simp only [AvoidsX, Avoids]; decide +kernel
example : LateAvoids "ETH-1650-C" c16XSettle := by simp only [LateAvoids]; decide +kernel
example : ∀ x' ∈ c16XPost, AvoidsX "ETH-1650-C" x' ∨ ∀ i ∈ x'.1.book, i.name = "ETH-1650-C" → i.stateOpen = false := by
  simp only [AvoidsX, Avoids]; decide +kernel
-- the late buy and the notify sell at minute 60 are accepted: 2 + 3 − 1 + 1 − 1 = 4 contracts enter (the sell at minute 61, a closed bar, is refused): the settling bar
example : ((runBarsX DCtx.exact ethCfg c16TState c16XPre).positions.map (fun kp => (kp.1, kp.2.amount))) = [("ETH-1650-C", 4), ("ETH-1700-P", 25)] := by
  decide +kernel
example : expiredCount "ETH-1650-C" (runBarsX DCtx.exact ethCfg c16TState (c16XPre ++ c16XSettle :: c16XPost)).actions = 1 ∧
    settlementsX DCtx.exact ethCfg "ETH-1650-C" c16TState (c16XPre ++ c16XSettle :: c16XPost) = 1 ∧
    (runBarsX DCtx.exact ethCfg c16TState (c16XPre ++ c16XSettle :: c16XPost)).positions.map Prod.fst = ["ETH-1700-P"] := by
  decide +kernel
end

/-- **the proviso on the settling bar's late hooks is necessary** (kernel-checked run, exact arithmetic): the call expires at minute
    75; minute 120 is the first on-grid bar after it and the data still lists the call as open there.  `after_bar` of that bar buys 2
    contracts: the order is accepted, `update()` has already run, so the bar ends with a due position under the key — it is settled by
    the `update()` of minute 180, one (hourly) bar late, and the key has collected two Expired records and two settlements. -/
theorem C16_late_hook_buy_is_settled_one_bar_late :
    (runBarX DCtx.exact ethCfg (Deribit.runBarsX DCtx.exact ethCfg Deribit.c16TState Deribit.c16XPre)
        Deribit.c16XLate.1 Deribit.c16XLate.2.1 Deribit.c16XLate.2.2).outcomes.map Except.toBool = [true, true, true] ∧
    ((Deribit.runBarsX DCtx.exact ethCfg Deribit.c16TState (Deribit.c16XPre ++ [Deribit.c16XLate])).positions.map
        (fun kp => (kp.1, kp.2.amount, kp.2.expiry))) = [("ETH-1700-P", 28, 3000), ("ETH-1650-C", 2, 75)] ∧
    Deribit.expiredCount "ETH-1650-C" (Deribit.runBarsX DCtx.exact ethCfg Deribit.c16TState (Deribit.c16XPre ++ [Deribit.c16XLate])).actions = 1 ∧
    Deribit.expiredCount "ETH-1650-C"
      (Deribit.runBarsX DCtx.exact ethCfg Deribit.c16TState (Deribit.c16XPre ++ [Deribit.c16XLate, Deribit.c16XNext])).actions = 2 ∧
    Deribit.settlementsX DCtx.exact ethCfg "ETH-1650-C" Deribit.c16TState (Deribit.c16XPre ++ [Deribit.c16XLate, Deribit.c16XNext]) = 2 ∧
    (Deribit.runBarsX DCtx.exact ethCfg Deribit.c16TState (Deribit.c16XPre ++ [Deribit.c16XLate, Deribit.c16XNext])).positions.map Prod.fst =
      ["ETH-1700-P"] := by
  decide +kernel

end Demeter
