/-
  C16 — the division of the payoff is not total in the code.

  `payoffRatio` writes `(S − K) / S` with the total division of `Rat` (`x / 0 = 0`); `_deliver_option` raises when the underlying
  price is 0 (`decimal.DivisionByZero` on a Decimal price, `decimal.InvalidOperation` on a float: `inf → Decimal('Infinity') →
  quantize`).  `Demeter/Deribit/Guard.lean` models the raising path (`exerciseE`, `updateE`, `stepE`; the driver answers with it).
  Here:
    * `Deribit.SettleGuard s` — the guard: every position that is due and in the money at `s` is quoted with an underlying ≠ 0
      (the data contract `underlying price > 0` restricted to exactly the positions whose settlement divides);
    * `C16_update_total_iff_guard` — on an on-grid bar `update()` returns normally iff the guard holds, and then it is `update`:
      every theorem about `update` (Proofs/C16.lean, C16/Run, C16/Trades, C16/General, C16/Hooks) is a theorem about the code's
      `update()` under the guard and says nothing without it;
    * `C16_update_raises_removes_nothing` — without the guard `update()` raises one of the two classes, removes NO position, writes no
      Expired record, and has paid exactly the due positions in front of the first offending one (it is not atomic);
    * `C16_payoff_formula` / `C16_cash_moves_by_payoffs` (the two theorems whose right-hand side divides by the underlying) are
      restated with the guard as a hypothesis, for any token configuration, instantiated with the literals of ETH and BTC.
-/
import Proofs.C16.Run
import Demeter.Deribit.Guard
namespace Demeter
open Demeter.Deribit

namespace Deribit

/-- every position that is due and in the money is quoted with an underlying price other than 0 -/
def SettleGuard (s : DState) : Prop :=
  ∀ kp ∈ s.positions, s.now ≥ kp.2.expiry → (itm kp.2 (settleQuote s kp.2.name).under).isSome = true →
    (settleQuote s kp.2.name).under ≠ 0

instance (s : DState) : Decidable (SettleGuard s) := by unfold SettleGuard; infer_instance

theorem settleErr_none_iff (s : DState) (p : Position) :
    settleErr s p = none ↔ ((itm p (settleQuote s p.name).under).isSome = true → (settleQuote s p.name).under ≠ 0) := by
  simp only [settleErr, payoffErr]
  generalize settleQuote s p.name = q
  cases hi : itm p q.under <;> by_cases h0 : q.under = 0 <;> simp [h0]

theorem settleErr_class (s : DState) (p : Position) (e : Err) (h : settleErr s p = some e) :
    (settleQuote s p.name).under = 0 ∧ (itm p (settleQuote s p.name).under).isSome = true ∧
    e = (if (settleQuote s p.name).dec then Err.divisionByZero else Err.invalidOperation) := by
  simp only [settleErr, payoffErr] at h
  generalize settleQuote s p.name = q at h ⊢
  cases hi : itm p q.under with
  | none => simp [hi] at h
  | some b =>
    by_cases h0 : q.under = 0
    · rw [hi] at h
      simp only [h0, if_true, Option.some.injEq] at h
      exact ⟨h0, rfl, h.symm⟩
    · simp [hi, h0] at h

theorem raisesAt_none_iff (s : DState) (ps : List (String × Position)) :
    raisesAt s ps = none ↔ ∀ kp ∈ ps, s.now ≥ kp.2.expiry → settleErr s kp.2 = none := by
  induction ps with
  | nil => simp [raisesAt]
  | cons kp ps ih =>
    obtain ⟨k, p⟩ := kp
    unfold raisesAt
    by_cases hd : s.now ≥ p.expiry
    · cases he : settleErr s p with
      | some e =>
        simp only [hd, if_true, he]
        constructor
        · intro h; cases h
        · intro h; have := h (k, p) List.mem_cons_self hd; rw [he] at this; cases this
      | none =>
        simp only [hd, if_true, he]
        cases hr : raisesAt s ps with
        | none =>
          simp only [true_iff]
          intro kp hkp
          rcases List.mem_cons.mp hkp with rfl | hkp
          · exact fun _ => he
          · exact (ih.mp hr) kp hkp
        | some pe =>
          simp only [reduceCtorEq, false_iff]
          intro h
          have := ih.mpr (fun kp hkp => h kp (List.mem_cons_of_mem _ hkp))
          rw [hr] at this; cases this
    · simp only [hd, if_false]
      cases hr : raisesAt s ps with
      | none =>
        simp only [true_iff]
        intro kp hkp
        rcases List.mem_cons.mp hkp with rfl | hkp
        · exact fun h => absurd h hd
        · exact (ih.mp hr) kp hkp
      | some pe =>
        simp only [reduceCtorEq, false_iff]
        intro h
        have := ih.mpr (fun kp hkp => h kp (List.mem_cons_of_mem _ hkp))
        rw [hr] at this; cases this

/-- where the loop raises: after a prefix on which nothing raises, at a due position whose settlement does -/
theorem raisesAt_some (s : DState) (ps pre : List (String × Position)) (e : Err) (h : raisesAt s ps = some (pre, e)) :
    ∃ k p post, ps = pre ++ (k, p) :: post ∧ s.now ≥ p.expiry ∧ settleErr s p = some e ∧
      (∀ kp ∈ pre, s.now ≥ kp.2.expiry → settleErr s kp.2 = none) := by
  induction ps generalizing pre with
  | nil => simp [raisesAt] at h
  | cons kp ps ih =>
    obtain ⟨k, p⟩ := kp
    unfold raisesAt at h
    split at h
    · rename_i e' he'
      simp only [Option.some.injEq, Prod.mk.injEq] at h
      obtain ⟨rfl, rfl⟩ := h
      by_cases hd : s.now ≥ p.expiry
      · simp only [hd, if_true] at he'
        exact ⟨k, p, ps, rfl, hd, he', fun _ h => by cases h⟩
      · simp [hd] at he'
    · rename_i hnone
      split at h
      · rename_i pre' e' hr
        simp only [Option.some.injEq, Prod.mk.injEq] at h
        obtain ⟨rfl, rfl⟩ := h
        obtain ⟨k', p', post, hps, hdue, herr, hpre⟩ := ih pre' hr
        refine ⟨k', p', post, by rw [hps]; rfl, hdue, herr, ?_⟩
        intro kp hkp
        rcases List.mem_cons.mp hkp with rfl | hkp
        · intro hd; simpa [hd] using hnone
        · exact hpre kp hkp
      · cases h

theorem settleGuard_iff (s : DState) : SettleGuard s ↔ raisesAt s s.positions = none := by
  rw [raisesAt_none_iff]
  unfold SettleGuard
  constructor
  · intro h kp hkp hd; exact (settleErr_none_iff s kp.2).mpr (h kp hkp hd)
  · intro h kp hkp hd; exact (settleErr_none_iff s kp.2).mp (h kp hkp hd)

end Deribit

/-- **`update()` returns normally exactly under the guard, and then it is `update`** (every context): on an on-grid bar the model of
    the code with its exception (`updateE`) answers `ok` iff every due in-the-money position has a nonzero underlying, and in that
    case its state is that of `update`; off the grid it never raises and changes nothing -/
theorem C16_update_total_iff_guard (cx : DCtx) (c : TokenCfg) (s : DState) :
    (s.onGrid = true → ((updateE cx c s).1 = .ok .unit ↔ Deribit.SettleGuard s)) ∧
    ((s.onGrid = true → Deribit.SettleGuard s) → updateE cx c s = (.ok .unit, update cx c s)) ∧
    (s.onGrid = false → updateE cx c s = (.ok .unit, s)) := by
  refine ⟨?_, ?_, ?_⟩
  · intro hg
    rw [Deribit.settleGuard_iff]
    unfold updateE exerciseE
    simp only [hg, if_true]
    cases hr : raisesAt s s.positions with
    | none => simp
    | some pe => simp
  · intro h
    unfold updateE update
    by_cases hg : s.onGrid = true
    · have := (Deribit.settleGuard_iff s).mp (h hg)
      simp only [hg, if_true, exerciseE, this]
    · simp [hg]
  · intro hg
    unfold updateE
    simp [hg]

/-- **what `update()` leaves behind when it raises** (every context): on an on-grid bar without the guard the exception is
    `DivisionByZero` (Decimal price) or `InvalidOperation` (float price) of a due, in-the-money position whose underlying is 0;
    every position is still there, nothing but cash and the action log has changed, the log has grown by the Deliver records of the
    due positions in front of the offending one — no Expired record — and (exact arithmetic, second theorem) the cash by their payoffs -/
theorem C16_update_raises_removes_nothing (cx : DCtx) (c : TokenCfg) (s : DState) (hg : s.onGrid = true)
    (hbad : ¬ Deribit.SettleGuard s) :
    ∃ e pre k p post, s.positions = pre ++ (k, p) :: post ∧
      (updateE cx c s).1 = .error e ∧ (e = .divisionByZero ∨ e = .invalidOperation) ∧
      s.now ≥ p.expiry ∧ (settleQuote s p.name).under = 0 ∧ (itm p (settleQuote s p.name).under).isSome = true ∧
      (updateE cx c s).2.positions = s.positions ∧ (updateE cx c s).2.book = s.book ∧ (updateE cx c s).2.wallet = s.wallet ∧
      (updateE cx c s).2.cache = s.cache ∧
      (updateE cx c s).2.actions = s.actions ++ deliverRecs cx c s pre ∧
      (∀ k', Deribit.expiredCount k' (updateE cx c s).2.actions = Deribit.expiredCount k' s.actions) := by
  rw [Deribit.settleGuard_iff] at hbad
  cases hr : raisesAt s s.positions with
  | none => exact absurd hr hbad
  | some pe =>
    obtain ⟨pre, e⟩ := pe
    obtain ⟨k, p, post, hps, hdue, herr, _⟩ := Deribit.raisesAt_some s s.positions pre e hr
    obtain ⟨h0, hitm, hcls⟩ := Deribit.settleErr_class s p e herr
    have hst : updateE cx c s = (.error e, { s with cash := (exerciseLoop cx c s pre (s.cash, s.actions, [])).1,
                                                     actions := (exerciseLoop cx c s pre (s.cash, s.actions, [])).2.1 }) := by
      unfold updateE exerciseE
      simp only [hg, if_true, hr]
    refine ⟨e, pre, k, p, post, hps, by rw [hst], ?_, hdue, h0, hitm, by rw [hst], by rw [hst], by rw [hst], by rw [hst], ?_, ?_⟩
    · rw [hcls]; split
      · exact Or.inl rfl
      · exact Or.inr rfl
    · rw [hst]; exact exerciseLoop_actions cx c s pre _ _ _
    · intro k'
      rw [hst]
      show Deribit.expiredCount k' (exerciseLoop cx c s pre (s.cash, s.actions, [])).2.1 = _
      rw [exerciseLoop_actions, Deribit.expiredCount_append]
      have := Deribit.expiredCount_delivers cx c s k' pre
      rw [this]; rfl

/-- … the cash it has already paid out when it raises (exact arithmetic) -/
theorem C16_update_raises_has_paid_the_prefix (c : TokenCfg) (s : DState) (hg : s.onGrid = true)
    (pre : List (String × Position)) (e : Err) (hr : raisesAt s s.positions = some (pre, e)) :
    (updateE DCtx.exact c s).2.cash = s.cash + ((pre.filter (fun kp => due s kp.2)).map (fun kp => netPayoff c s kp.2)).sum := by
  unfold updateE exerciseE
  simp only [hg, if_true, hr]
  exact exerciseLoop_cash c s pre _ _ _

/-! ### the payoff of the property text, for any token configuration -/

/-- in the money → `round(contracts × |S − K| / S)` minus `round(min(delivery fee rate × contracts, 12.5 % × contracts × round(mark)))`
    when the former exceeds the latter; otherwise nothing.  `e` is the token's `min_fee_decimal`, `fee` its `delivery_fee_rate`;
    `S ≠ 0` is the caller's obligation (`/` is `Rat`'s total division) -/
def Deribit.specPayoff (e : Int) (fee : Rat) (kind : Kind) (amount strike S mark : Rat) : Rat :=
  let itm : Bool := match kind with
    | .call => decide (strike < S)
    | .put => decide (S < strike)
  if itm then
    let gross := roundDec e (amount * ((if S < strike then strike - S else S - strike) / S))
    let fee := roundDec e (min (fee * amount) (125 / 1000 * (amount * roundDec e mark)))
    if gross ≤ fee then 0 else gross - fee
  else 0

/-- the model's credited amount against the formula WITHOUT the guard: at `S = 0` both sides are what `Rat`'s total division makes of
    them — a statement about the model only.  The property-level statements below carry the guard. -/
theorem Deribit.netPayoff_eq_specPayoff (c : TokenCfg) (s : DState) (p : Position) :
    netPayoff c s p =
      Deribit.specPayoff c.feeExp c.deliveryFee p.kind p.amount p.strike (settleQuote s p.name).under (settleQuote s p.name).mark := by
  have hm : maxFeeRate = 125 / 1000 := C16_constants.2.2.1
  unfold netPayoff paidOf Deribit.specPayoff itm
  cases hk : p.kind with
  | call =>
    simp only []
    by_cases hlt : p.strike < (settleQuote s p.name).under
    · have hnl : ¬ (settleQuote s p.name).under < p.strike := not_lt.mpr hlt.le
      simp only [hlt, if_true, hnl, if_false, deliverOption, payoffRatio, deliverFee, exact_num, NumCtx.exact_mul,
        NumCtx.exact_sub, NumCtx.exact_div, exact_fsub, exact_toF, exact_fdiv, Bool.if_true_left, if_true, hm, ite_self]
      split
      · rename_i x gf heq
        split at heq
        · simp at heq
        · rename_i hgf
          simp only [Option.some.injEq] at heq
          rw [← heq]; simp [hgf]
      · rename_i x heq
        split at heq
        · rename_i hgf; simp [hgf]
        · simp at heq
    · simp [hlt]
  | put =>
    simp only []
    by_cases hlt : (settleQuote s p.name).under < p.strike
    · have hgt : p.strike > (settleQuote s p.name).under := hlt
      simp only [hgt, hlt, if_true, deliverOption, payoffRatio, deliverFee, exact_num, NumCtx.exact_mul,
        NumCtx.exact_sub, NumCtx.exact_div, exact_fsub, exact_toF, exact_fdiv, hm, ite_self,
        Bool.false_eq_true, if_false]
      split
      · rename_i x gf heq
        split at heq
        · simp at heq
        · rename_i hgf
          simp only [Option.some.injEq] at heq
          rw [← heq]; simp [hgf]
      · rename_i x heq
        split at heq
        · rename_i hgf; simp [hgf]
        · simp at heq
    · have hgt : ¬ p.strike > (settleQuote s p.name).under := hlt
      simp [hgt, hlt]

/-- **intrinsic payoff net of delivery fee, any configuration, under the guard** (exact arithmetic): a position whose quote has a
    nonzero underlying is credited the property's formula with the configuration's own rounding exponent and delivery fee rate -/
theorem C16_payoff_formula (c : TokenCfg) (s : DState) (p : Position) (_hS : (settleQuote s p.name).under ≠ 0) :
    netPayoff c s p =
      Deribit.specPayoff c.feeExp c.deliveryFee p.kind p.amount p.strike (settleQuote s p.name).under (settleQuote s p.name).mark :=
  Deribit.netPayoff_eq_specPayoff c s p

/-- the constants of the BTC configuration -/
theorem C16_constants_btc : btcCfg.deliveryFee = 15 / 100000 ∧ btcCfg.feeExp = -8 ∧ Gen.deribitBtcMinFeeDecimal = -8 := by
  refine ⟨C16_constants.2.1, rfl, rfl⟩

/-- ETH: rounding to 6 decimals, 0.015 % -/
theorem C16_payoff_formula_eth (s : DState) (p : Position) (hS : (settleQuote s p.name).under ≠ 0) :
    netPayoff ethCfg s p =
      Deribit.specPayoff (-6) (15 / 100000) p.kind p.amount p.strike (settleQuote s p.name).under (settleQuote s p.name).mark := by
  rw [C16_payoff_formula ethCfg s p hS, C16_constants.1, C16_constants.2.2.2.1]

/-- BTC: rounding to 8 decimals, 0.015 % -/
theorem C16_payoff_formula_btc (s : DState) (p : Position) (hS : (settleQuote s p.name).under ≠ 0) :
    netPayoff btcCfg s p =
      Deribit.specPayoff (-8) (15 / 100000) p.kind p.amount p.strike (settleQuote s p.name).under (settleQuote s p.name).mark := by
  rw [C16_payoff_formula btcCfg s p hS, C16_constants_btc.1, C16_constants_btc.2.1]

/-- **cash moves by exactly the payoffs, under the guard** (exact arithmetic, the code's `update()` with its exception): when every
    due in-the-money position has a nonzero underlying, `update()` returns normally and the cash afterwards is the old cash plus the
    net payoff — the property's formula, `C16_payoff_formula` — of every due position; off the grid it does not move -/
theorem C16_cash_moves_by_payoffs (c : TokenCfg) (s : DState) (hG : s.onGrid = true → Deribit.SettleGuard s) :
    (updateE DCtx.exact c s).1 = .ok .unit ∧
    (updateE DCtx.exact c s).2.cash =
      if s.onGrid then s.cash + ((s.positions.filter (fun kp => due s kp.2)).map (fun kp => netPayoff c s kp.2)).sum
      else s.cash := by
  rw [(C16_update_total_iff_guard DCtx.exact c s).2.1 hG]
  exact ⟨rfl, Deribit.update_cash_eq c s⟩

/-- … and under the guard exactly the due positions are removed, by the code's `update()` with its exception (every context) -/
theorem C16_settles_exactly_the_due_positions_guarded (cx : DCtx) (c : TokenCfg) (s : DState) (hg : s.onGrid = true)
    (hn : Deribit.KeysNodup s) (hG : Deribit.SettleGuard s) :
    (updateE cx c s).1 = .ok .unit ∧
    (updateE cx c s).2.positions = s.positions.filter (fun kp => decide (s.now < kp.2.expiry)) := by
  rw [(C16_update_total_iff_guard cx c s).2.1 (fun _ => hG)]
  exact ⟨rfl, C16_settles_exactly_the_due_positions cx c s hg hn⟩

/-- **cash moves by exactly the property's payoffs** (exact arithmetic): on an on-grid bar, under the guard, the code's `update()`
    returns normally and adds, for every due position, the property's formula — `round(contracts × |S − K| / S)` less the rounded
    delivery fee, or nothing — evaluated with a nonzero `S` wherever it divides (a due position that is out of the money is paid
    nothing whatever its quote) -/
theorem C16_cash_moves_by_the_formula (c : TokenCfg) (s : DState) (hg : s.onGrid = true) (hG : Deribit.SettleGuard s) :
    (updateE DCtx.exact c s).1 = .ok .unit ∧
    (updateE DCtx.exact c s).2.cash =
      s.cash + ((s.positions.filter (fun kp => due s kp.2)).map (fun kp =>
        Deribit.specPayoff c.feeExp c.deliveryFee kp.2.kind kp.2.amount kp.2.strike (settleQuote s kp.2.name).under
          (settleQuote s kp.2.name).mark)).sum ∧
    (∀ kp ∈ s.positions.filter (fun kp => due s kp.2),
      (settleQuote s kp.2.name).under ≠ 0 ∨
        Deribit.specPayoff c.feeExp c.deliveryFee kp.2.kind kp.2.amount kp.2.strike (settleQuote s kp.2.name).under
          (settleQuote s kp.2.name).mark = 0) := by
  obtain ⟨h1, h2⟩ := C16_cash_moves_by_payoffs c s (fun _ => hG)
  refine ⟨h1, ?_, ?_⟩
  · rw [h2, if_pos hg]
    congr 2
    apply List.map_congr_left
    intro kp _
    exact Deribit.netPayoff_eq_specPayoff c s kp.2
  · intro kp hkp
    obtain ⟨hmem, hdue⟩ := List.mem_filter.mp hkp
    by_cases h0 : (settleQuote s kp.2.name).under = 0
    · right
      have hnot : ¬ (itm kp.2 (settleQuote s kp.2.name).under).isSome = true := fun hi =>
        hG kp hmem (by simpa [due] using hdue) hi h0
      unfold Deribit.specPayoff
      unfold itm at hnot
      cases hk : kp.2.kind with
      | call =>
        rw [hk] at hnot
        by_cases hlt : kp.2.strike < (settleQuote s kp.2.name).under
        · simp [hlt] at hnot
        · simp [hlt]
      | put =>
        rw [hk] at hnot
        by_cases hlt : kp.2.strike > (settleQuote s kp.2.name).under
        · simp [hlt] at hnot
        · have : ¬ (settleQuote s kp.2.name).under < kp.2.strike := hlt
          simp [this]
    · exact Or.inl h0

/-! ### non-vacuity -/

namespace Deribit
/-- `c16aState` of Proofs/C16.lean with the token price 0: its put (row gone from the book, Decimal price) is due and in the money -/
def c16zState : DState := { c16aState with price := 0 }
/-- the put listed with an underlying of 0 (float row) -/
def c16zPut : Instr :=
  { name := "ETH-1600-P", stateOpen := true, kind := .put, strike := 1600, expiry := 120, mark := 1 / 100,
    underlying := 0, delta := 1 / 2, gamma := 1 / 1000, asks := [], bids := [] }
def c16zFloat : DState := { c16aState with book := c16aBook ++ [c16zPut] }
end Deribit

/-- **at an underlying price of 0 `update()` is not atomic** (kernel-checked, exact arithmetic): a call expired in the money (row in
    the book) followed in the dict by a put whose instrument has left the book while the token price is 0 — `update()` raises
    `DivisionByZero`, yet the call has been paid (cash 1 → 1.076623) and its Deliver record written, and all three positions are
    still held: the next `update()` would pay the call again.  Outside the data contract (`SettleGuard`), which is why every
    statement about `update()` carries it. -/
theorem C16_update_at_zero_underlying_is_not_atomic :
    (updateE DCtx.exact ethCfg Deribit.c16zState).1 = .error .divisionByZero ∧
    (updateE DCtx.exact ethCfg Deribit.c16zState).2.cash = Deribit.c16zState.cash + (76923 / 1000000 - 3 / 10000) ∧
    (updateE DCtx.exact ethCfg Deribit.c16zState).2.actions.length = Deribit.c16zState.actions.length + 1 ∧
    (updateE DCtx.exact ethCfg Deribit.c16zState).2.positions = Deribit.c16zState.positions ∧
    ¬ Deribit.SettleGuard Deribit.c16zState := by decide +kernel

section
open Deribit
example : SettleGuard c16aState := by decide +kernel
example : ¬ SettleGuard c16zState := by decide +kernel
example : ¬ SettleGuard c16zFloat := by decide +kernel
-- Decimal price 0: DivisionByZero; the call in front has been paid (0.076923 − 0.0003), all three positions are still there
example : (updateE DCtx.exact ethCfg c16zState).1 = .error .divisionByZero := by decide +kernel
example : (updateE DCtx.exact ethCfg c16zState).2.cash = 1 + (76923 / 1000000 - 3 / 10000) := by decide +kernel
example : (updateE DCtx.exact ethCfg c16zState).2.positions = c16zState.positions := by decide +kernel
example : (updateE DCtx.exact ethCfg c16zState).2.actions.length = 1 := by decide +kernel
-- float row with underlying 0: InvalidOperation
example : (updateE DCtx.exact ethCfg c16zFloat).1 = .error .invalidOperation := by decide +kernel
-- under the guard: the result of Proofs/C16.lean
example : (updateE DCtx.exact ethCfg c16aState) = (.ok .unit, update DCtx.exact ethCfg c16aState) := by decide +kernel
-- the BTC formula on a call of 0.3 contracts, strike 26000, underlying 27000, mark 0.04: round8(0.3 × 1000 / 27000) − round8(min(0.000045, 0.0015))
example : specPayoff (-8) (15 / 100000) .call (3 / 10) 26000 27000 (4 / 100) = 1111111 / 100000000 - 45 / 1000000 := by decide +kernel
end

end Demeter
