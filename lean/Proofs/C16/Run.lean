/-
  C16, run level — through the bar loop (`Actuator.run` slice of Demeter/Deribit/Run.lean) a held position is
  settled at the first on-grid bar at or after its expiry, at no other bar, and exactly once.
  Stated for runs in which the strategy does not trade (the position is held to expiry); bars may be any mix of
  minutely closed bars, hourly open bars and hours missing from the option data.
-/
import Proofs.C16
namespace Demeter
open Demeter.Deribit

/-- the bar settles positions expiring at `T`: it is on the hourly grid and not before `T` -/
def Deribit.settlesAt (b : Bar) (T : Int) : Prop := (b.now % (Gen.deribitFreqMinutes : Int) == 0) = true ∧ T ≤ b.now

/-- is this log entry the Expired record of key `k`? -/
def Deribit.isExpiredOf (k : String) : Action → Bool
  | .expired r => decide (r.name = k)
  | _ => false

def Deribit.expiredCount (k : String) (acts : List Action) : Nat := (acts.filter (Deribit.isExpiredOf k)).length

namespace Deribit

theorem setStatus_positions (s : DState) (b : Bar) : (setStatus s b).positions = s.positions := rfl
theorem setStatus_actions (s : DState) (b : Bar) : (setStatus s b).actions = s.actions := rfl

theorem gmb_frame (cx : DCtx) (c : TokenCfg) (s : DState) :
    (getMarketBalance cx c s).2.positions = s.positions ∧ (getMarketBalance cx c s).2.actions = s.actions ∧
    (getMarketBalance cx c s).2.cash = s.cash := by
  unfold getMarketBalance
  split
  · exact ⟨rfl, rfl, rfl⟩
  · split
    · exact ⟨rfl, rfl, rfl⟩
    · split <;> exact ⟨rfl, rfl, rfl⟩

/-- a bar in which the strategy does nothing -/
theorem runBar_hold (cx : DCtx) (c : TokenCfg) (s : DState) (b : Bar) (h : b.ops = []) :
    (runBar cx c s b).state.positions = (update cx c (setStatus s b)).positions ∧
    (runBar cx c s b).state.actions = (update cx c (setStatus s b)).actions ∧
    (runBar cx c s b).state.cash = (update cx c (setStatus s b)).cash := by
  simp only [runBar, h, runOpsO, Bool.false_eq_true, if_false]
  exact gmb_frame cx c _

theorem onGrid_setStatus (s : DState) (b : Bar) :
    (setStatus s b).onGrid = (b.now % (Gen.deribitFreqMinutes : Int) == 0) := rfl

theorem keysNodup_filter {s : DState} (hn : KeysNodup s) (f : String × Position → Bool) :
    ((s.positions.filter f).map Prod.fst).Nodup :=
  List.Nodup.sublist (List.Sublist.map _ List.filter_sublist) hn

/-- unique keys are preserved by a hold bar -/
theorem keysNodup_runBar (cx : DCtx) (c : TokenCfg) (s : DState) (b : Bar) (h : b.ops = []) (hn : KeysNodup s) :
    KeysNodup (runBar cx c s b).state := by
  unfold KeysNodup
  rw [(runBar_hold cx c s b h).1]
  by_cases hg : (setStatus s b).onGrid = true
  · rw [C16_settles_exactly_the_due_positions cx c _ hg (by exact hn)]
    exact keysNodup_filter (s := setStatus s b) hn _
  · rw [C16_update_off_grid_noop cx c _ (by simpa using hg)]; exact hn

theorem isExpiredOf_expiredRec (cx : DCtx) (c : TokenCfg) (s : DState) (k k' : String) (p : Position) :
    isExpiredOf k (expiredRec cx c s k' p) = decide (k' = k) := by
  simp [isExpiredOf, expiredRec, settleRec]

theorem isExpiredOf_deliverRec (cx : DCtx) (c : TokenCfg) (s : DState) (k k' : String) (p : Position) (gf : Rat × Rat) :
    isExpiredOf k (deliverRec cx c s k' p gf) = false := by
  simp [isExpiredOf, deliverRec]

theorem expiredCount_append (k : String) (a b : List Action) :
    expiredCount k (a ++ b) = expiredCount k a + expiredCount k b := by
  simp [expiredCount, List.filter_append]

theorem expiredCount_delivers (cx : DCtx) (c : TokenCfg) (s : DState) (k : String) (ps : List (String × Position)) :
    expiredCount k (deliverRecs cx c s ps) = 0 := by
  unfold expiredCount deliverRecs
  rw [List.length_eq_zero_iff, List.filter_eq_nil_iff]
  intro a ha
  simp only [List.mem_filterMap, Option.map_eq_some_iff] at ha
  obtain ⟨kp, _, gf, _, rfl⟩ := ha
  simp [isExpiredOf_deliverRec]

theorem expiredCount_expireds (cx : DCtx) (c : TokenCfg) (s : DState) (k : String) (l : List (String × Position)) :
    expiredCount k (l.map (fun kp => expiredRec cx c s kp.1 kp.2)) = (l.filter (fun kp => decide (kp.1 = k))).length := by
  induction l with
  | nil => simp [expiredCount]
  | cons kp l ih =>
    simp only [expiredCount, List.map_cons, List.filter_cons, isExpiredOf_expiredRec] at ih ⊢
    by_cases h : kp.1 = k <;> simp [h, ih]

theorem count_key_nodup {l : List (String × Position)} (hn : (l.map Prod.fst).Nodup) (k : String) :
    (l.filter (fun kp => decide (kp.1 = k))).length = if k ∈ l.map Prod.fst then 1 else 0 := by
  induction l with
  | nil => simp
  | cons kp l ih =>
    simp only [List.map_cons, List.nodup_cons] at hn
    simp only [List.filter_cons, List.map_cons, List.mem_cons]
    by_cases h : kp.1 = k
    · have hnot : k ∉ l.map Prod.fst := h ▸ hn.1
      simp only [h, decide_true, if_true, List.length_cons, true_or, ih hn.2, hnot, if_false]
    · have : ¬ k = kp.1 := fun e => h e.symm
      simp only [h, decide_false, this, false_or, Bool.false_eq_true, if_false]
      exact ih hn.2

/-- what one hold bar adds to the count of Expired records of key `k` -/
theorem expiredCount_runBar (cx : DCtx) (c : TokenCfg) (s : DState) (b : Bar) (h : b.ops = []) (hn : KeysNodup s) (k : String) :
    expiredCount k (runBar cx c s b).state.actions =
      expiredCount k s.actions +
        (if (b.now % (Gen.deribitFreqMinutes : Int) == 0) = true ∧
            k ∈ (s.positions.filter (fun kp => decide (b.now ≥ kp.2.expiry))).map Prod.fst then 1 else 0) := by
  rw [(runBar_hold cx c s b h).2.1]
  by_cases hg : (b.now % (Gen.deribitFreqMinutes : Int) == 0) = true
  · have hg' : (setStatus s b).onGrid = true := by rw [onGrid_setStatus]; exact hg
    rw [C16_records cx c _ hg' (by exact hn)]
    simp only [setStatus_actions, setStatus_positions, expiredCount_append]
    have hd := expiredCount_delivers cx c (setStatus s b) k s.positions
    unfold deliverRecs at hd
    rw [hd, expiredCount_expireds, count_key_nodup (keysNodup_filter (s := s) hn _)]
    simp only [hg, true_and, add_zero]
    rfl
  · have hg' : (setStatus s b).onGrid = false := by rw [onGrid_setStatus]; simpa using hg
    rw [C16_update_off_grid_noop cx c _ hg', if_neg (fun h => hg h.1)]
    rfl

end Deribit

/-- **before the settling bar nothing happens to the position**: through any number of hold bars none of
    which is an on-grid bar at/after its expiry, the position stays, and no Expired record for it appears -/
theorem C16_run_keeps_position_before_expiry (cx : DCtx) (c : TokenCfg) (bs : List Bar) (s : DState)
    (hn : Deribit.KeysNodup s) (k : String) (p : Position) (hmem : (k, p) ∈ s.positions)
    (hops : ∀ b ∈ bs, b.ops = []) (hpre : ∀ b ∈ bs, ¬ Deribit.settlesAt b p.expiry) :
    (k, p) ∈ (runBars cx c s bs).positions ∧ Deribit.KeysNodup (runBars cx c s bs) ∧
    Deribit.expiredCount k (runBars cx c s bs).actions = Deribit.expiredCount k s.actions := by
  induction bs generalizing s with
  | nil => exact ⟨hmem, hn, rfl⟩
  | cons b bs ih =>
    have hb := hops b List.mem_cons_self
    have hnb := hpre b List.mem_cons_self
    have hn' := Deribit.keysNodup_runBar cx c s b hb hn
    have hmem' : (k, p) ∈ (runBar cx c s b).state.positions := by
      rw [(Deribit.runBar_hold cx c s b hb).1]
      by_cases hg : (setStatus s b).onGrid = true
      · have hlt : ¬ p.expiry ≤ b.now := fun hle => hnb ⟨by rw [← Deribit.onGrid_setStatus s b]; exact hg, hle⟩
        exact C16_nothing_before_expiry cx c (setStatus s b) hn k p hmem (by show b.now < p.expiry; omega)
      · rw [C16_update_off_grid_noop cx c _ (by simpa using hg)]; exact hmem
    have hcount : Deribit.expiredCount k (runBar cx c s b).state.actions = Deribit.expiredCount k s.actions := by
      rw [Deribit.expiredCount_runBar cx c s b hb hn k]
      have : ¬ ((b.now % (Gen.deribitFreqMinutes : Int) == 0) = true ∧
          k ∈ (s.positions.filter (fun kp => decide (b.now ≥ kp.2.expiry))).map Prod.fst) := by
        rintro ⟨hg, hk⟩
        simp only [List.mem_map, List.mem_filter, decide_eq_true_eq] at hk
        obtain ⟨kp, ⟨hkp, hdue⟩, hkey⟩ := hk
        have := List.inj_on_of_nodup_map hn hkp hmem hkey
        subst this
        exact hnb ⟨hg, hdue⟩
      rw [if_neg this]; rfl
    obtain ⟨h1, h2, h3⟩ := ih (runBar cx c s b).state hn' hmem'
      (fun b' hb' => hops b' (List.mem_cons_of_mem _ hb')) (fun b' hb' => hpre b' (List.mem_cons_of_mem _ hb'))
    exact ⟨h1, h2, by rw [← hcount]; exact h3⟩

/-- **after it is gone it stays gone**: in a hold run a key that is not held is never settled -/
theorem C16_run_absent_key_never_settled (cx : DCtx) (c : TokenCfg) (bs : List Bar) (s : DState)
    (hn : Deribit.KeysNodup s) (k : String) (habs : k ∉ s.positions.map Prod.fst) (hops : ∀ b ∈ bs, b.ops = []) :
    k ∉ (runBars cx c s bs).positions.map Prod.fst ∧
    Deribit.expiredCount k (runBars cx c s bs).actions = Deribit.expiredCount k s.actions := by
  induction bs generalizing s with
  | nil => exact ⟨habs, rfl⟩
  | cons b bs ih =>
    have hb := hops b List.mem_cons_self
    have hn' := Deribit.keysNodup_runBar cx c s b hb hn
    have hsub : ∀ kp ∈ (runBar cx c s b).state.positions, kp ∈ s.positions := by
      intro kp hkp
      rw [(Deribit.runBar_hold cx c s b hb).1] at hkp
      by_cases hg : (setStatus s b).onGrid = true
      · rw [C16_settles_exactly_the_due_positions cx c _ hg (by exact hn)] at hkp
        exact (List.mem_filter.mp hkp).1
      · rw [C16_update_off_grid_noop cx c _ (by simpa using hg)] at hkp; exact hkp
    have habs' : k ∉ (runBar cx c s b).state.positions.map Prod.fst := by
      intro hk
      obtain ⟨kp, hkp, hkey⟩ := List.mem_map.mp hk
      exact habs (List.mem_map.mpr ⟨kp, hsub kp hkp, hkey⟩)
    have hcount : Deribit.expiredCount k (runBar cx c s b).state.actions = Deribit.expiredCount k s.actions := by
      rw [Deribit.expiredCount_runBar cx c s b hb hn k]
      have : ¬ ((b.now % (Gen.deribitFreqMinutes : Int) == 0) = true ∧
          k ∈ (s.positions.filter (fun kp => decide (b.now ≥ kp.2.expiry))).map Prod.fst) := by
        rintro ⟨_, hk⟩
        obtain ⟨kp, hkp, hkey⟩ := List.mem_map.mp hk
        exact habs (List.mem_map.mpr ⟨kp, (List.mem_filter.mp hkp).1, hkey⟩)
      rw [if_neg this]; rfl
    obtain ⟨h1, h2⟩ := ih (runBar cx c s b).state hn' habs' (fun b' hb' => hops b' (List.mem_cons_of_mem _ hb'))
    exact ⟨h1, by rw [← hcount]; exact h2⟩

/-- **settled exactly once, at the first open bar at or after expiry**: a held position survives every bar
    before the first on-grid bar `b` with `b.now ≥ expiry`, is removed in `b`, never reappears, and over the whole
    run exactly one Expired record for it is written (every arithmetic context, any bar grid). -/
theorem C16_run_settles_exactly_once (cx : DCtx) (c : TokenCfg) (pre post : List Bar) (b : Bar) (s : DState)
    (hn : Deribit.KeysNodup s) (k : String) (p : Position) (hmem : (k, p) ∈ s.positions)
    (hops : ∀ b' ∈ pre ++ b :: post, b'.ops = []) (hpre : ∀ b' ∈ pre, ¬ Deribit.settlesAt b' p.expiry)
    (hb : Deribit.settlesAt b p.expiry) :
    (k, p) ∈ (runBars cx c s pre).positions ∧
    k ∉ (runBars cx c s (pre ++ [b])).positions.map Prod.fst ∧
    k ∉ (runBars cx c s (pre ++ b :: post)).positions.map Prod.fst ∧
    Deribit.expiredCount k (runBars cx c s (pre ++ b :: post)).actions = Deribit.expiredCount k s.actions + 1 := by
  have hops_pre : ∀ b' ∈ pre, b'.ops = [] := fun b' h => hops b' (List.mem_append_left _ h)
  have hops_b : b.ops = [] := hops b (List.mem_append_right _ List.mem_cons_self)
  have hops_post : ∀ b' ∈ post, b'.ops = [] := fun b' h => hops b' (List.mem_append_right _ (List.mem_cons_of_mem _ h))
  obtain ⟨hm1, hn1, hc1⟩ := C16_run_keeps_position_before_expiry cx c pre s hn k p hmem hops_pre hpre
  have happ : ∀ (l1 l2 : List Bar) (s0 : DState), runBars cx c s0 (l1 ++ l2) = runBars cx c (runBars cx c s0 l1) l2 := by
    intro l1 l2
    induction l1 with
    | nil => intro s0; rfl
    | cons x xs ih => intro s0; exact ih _
  set s1 := runBars cx c s pre with hs1
  -- the settling bar
  have hg : (setStatus s1 b).onGrid = true := by rw [Deribit.onGrid_setStatus]; exact hb.1
  have hgone : k ∉ (runBar cx c s1 b).state.positions.map Prod.fst := by
    intro hk
    obtain ⟨kp, hkp, hkey⟩ := List.mem_map.mp hk
    rw [(Deribit.runBar_hold cx c s1 b hops_b).1, C16_settles_exactly_the_due_positions cx c _ hg (by exact hn1)] at hkp
    obtain ⟨hkp1, hkp2⟩ := List.mem_filter.mp hkp
    have := List.inj_on_of_nodup_map hn1 hkp1 hm1 hkey
    subst this
    simp only [decide_eq_true_eq] at hkp2
    have : p.expiry ≤ b.now := hb.2
    exact absurd hkp2 (by show ¬ b.now < p.expiry; omega)
  have hcb : Deribit.expiredCount k (runBar cx c s1 b).state.actions = Deribit.expiredCount k s1.actions + 1 := by
    rw [Deribit.expiredCount_runBar cx c s1 b hops_b hn1 k]
    have : (b.now % (Gen.deribitFreqMinutes : Int) == 0) = true ∧
        k ∈ (s1.positions.filter (fun kp => decide (b.now ≥ kp.2.expiry))).map Prod.fst :=
      ⟨hb.1, List.mem_map.mpr ⟨(k, p), List.mem_filter.mpr ⟨hm1, by simpa using hb.2⟩, rfl⟩⟩
    rw [if_pos this]
  have hn2 := Deribit.keysNodup_runBar cx c s1 b hops_b hn1
  obtain ⟨hp3, hc3⟩ := C16_run_absent_key_never_settled cx c post (runBar cx c s1 b).state hn2 k hgone hops_post
  refine ⟨hm1, ?_, ?_, ?_⟩
  · rw [happ]; exact hgone
  · rw [happ]; exact hp3
  · rw [happ]
    show Deribit.expiredCount k (runBars cx c (runBar cx c s1 b).state post).actions = _
    rw [hc3, hcb, hc1]

/-! ### non-vacuity: a call expiring at minute 75, held through bars 59, 60, 61, 119, 120, 121 -/

namespace Deribit
def c16Instr (S : Rat) : Instr :=
  { name := "ETH-1650-C", stateOpen := true, kind := .call, strike := 1650, expiry := 75, mark := 479 / 10000,
    underlying := S, delta := 1 / 2, gamma := 1 / 1000, asks := [⟨1 / 20, 145, false⟩], bids := [⟨9 / 200, 70, false⟩] }
def c16Pos : Position :=
  { name := "ETH-1650-C", expiry := 75, strike := 1650, kind := .call, amount := 2, avgBuy := 1 / 20, buyAmt := 2,
    avgSell := 0, sellAmt := 0 }
def c16State : DState :=
  { cash := 1, positions := [("ETH-1650-C", c16Pos)], book := [], wallet := [("ETH", 1)], allowNeg := false, actions := [],
    cache := none, flagOpen := true, now := 0, price := 0, priceDec := true }
def c16Bar (m : Int) (open_ : Bool) (S : Rat) : Bar :=
  { now := m, flagOpen := open_, book := [c16Instr S], price := 1700, priceDec := true, ops := [] }
def c16Pre : List Bar := [c16Bar 59 false 1700, c16Bar 60 true 1700, c16Bar 61 false 1700, c16Bar 119 false 1700]
def c16Post : List Bar := [c16Bar 121 false 1716, c16Bar 180 true 1716]
end Deribit

section
open Deribit
example : KeysNodup c16State := by unfold KeysNodup; decide
example : ∀ b' ∈ c16Pre, ¬ settlesAt b' c16Pos.expiry := by
  intro b' hb'
  simp only [c16Pre, List.mem_cons, List.not_mem_nil, or_false] at hb'
  rcases hb' with rfl | rfl | rfl | rfl <;> (unfold settlesAt; decide)
example : settlesAt (c16Bar 120 true 1716) c16Pos.expiry := by unfold settlesAt; decide
-- the hour bar at minute 60 is before the expiry: still held; settled at minute 120 with
-- round(2 × 66 / 1716) − round(min(0.00015 × 2, 0.125 × 2 × 0.0479)) = 0.076923 − 0.0003
example : (runBars DCtx.exact ethCfg c16State c16Pre).positions = [("ETH-1650-C", c16Pos)] := by decide +kernel
example : (runBars DCtx.exact ethCfg c16State (c16Pre ++ [c16Bar 120 true 1716])).positions = [] := by decide +kernel
example : (runBars DCtx.exact ethCfg c16State (c16Pre ++ c16Bar 120 true 1716 :: c16Post)).cash = 1 + (76923 / 1000000 - 3 / 10000) := by
  decide +kernel
example : expiredCount "ETH-1650-C" (runBars DCtx.exact ethCfg c16State (c16Pre ++ c16Bar 120 true 1716 :: c16Post)).actions = 1 := by
  decide +kernel
-- out of the money at settlement: removed, nothing paid
example : (runBars DCtx.exact ethCfg c16State (c16Pre ++ [c16Bar 120 true 1600])).cash = 1 := by decide +kernel
end

end Demeter
