/-
  C18 — "for every bar interval and start time", also for trigger objects that have been through a run before.

  `Actuator.run` starts every installed trigger afresh (after `initialize()`, before the first bar) and hands `strategy.triggers` back as
  it found it (Demeter/Actuator.lean `actuatorRun` / `trigsAfterRun`, switched by the generated source flag `Gen.coreRunResetsTriggers`).
  So what a trigger object denotes in a run does not depend on the grids it has seen before: the theorems of Proofs/C18.lean about
  `trigRun` on freshly built triggers apply to every run of the same objects.
-/
import Proofs.C02.Rerun
namespace Demeter
open Core

/-- after a run over ANY grid and script, the same trigger objects run by a fresh actuator over any OTHER grid and script give exactly the
    run of these objects as first installed (trace, account rows, actions, outcome) -/
theorem C18_same_trigger_objects_on_another_grid (cfg₁ cfg₂ : Cfg) (sc₁ sc₂ : Script) (trigs : List Trig)
    (hn : (trigs.map (·.id)).Nodup) (h : (actuatorRun cfg₁ trigs sc₁).err = none) :
    actuatorRun cfg₂ (trigsAfterRun cfg₁ trigs sc₁) sc₂ = actuatorRun cfg₂ trigs sc₂ :=
  C02_rerun_any_leftover_state cfg₂ sc₂ trigs _ (Core.rerun_after_reset cfg₁ sc₁ trigs hn h)

/-- … in particular the actions called in the second run are the calls of `trigRun` — the subject of C18's per-class theorems — over the
    second run's own bar index, from the triggers' initial states: periods count from the second run's first bar -/
theorem C18_second_run_fires_on_its_own_grid (cfg₁ cfg₂ : Cfg) (sc₁ sc₂ : Script) (trigs : List Trig)
    (hn : (trigs.map (·.id)).Nodup) (h₁ : (actuatorRun cfg₁ trigs sc₁).err = none) (h₂ : (actuatorRun cfg₂ trigs sc₂).err = none) :
    (actuatorRun cfg₂ (trigsAfterRun cfg₁ trigs sc₁) sc₂).trace.filterMap fireOfEv =
      (trigRun (barIndex cfg₂) (trigs.map Trig.reset)).1 := by
  rw [C18_same_trigger_objects_on_another_grid cfg₁ cfg₂ sc₁ sc₂ trigs hn h₁]
  have hs : startTrigs trigs = trigs.map Trig.reset := by
    unfold startTrigs; rw [C02_run_resets_triggers_in_source]; rfl
  have := (C05_trigger_calls_are_trigRun cfg₂ (startTrigs trigs) sc₂ h₂).1
  rw [hs] at this
  exact this

/-- non-vacuity: the period trigger of `Core.rerunTrigs` (2 minutes, immediate) and its one-shot companion, first run over minutes 0..3, then
    over a grid that starts later: they fire on the second grid's own first bar and two minutes after it -/
def Core.rerunCfg2 : Cfg := { markets := [{ idx := [600, 660, 720, 780, 840], openCb := false }], priceIdx := [600, 660, 720, 780, 840], Δ := 60, resample := false }

example : (actuatorRun Core.rerunCfg2 (trigsAfterRun Core.rerunCfg Core.rerunTrigs Core.rerunScript) Core.rerunScript).trace.filterMap fireOfEv
    = [⟨600, 0, ""⟩, ⟨720, 0, ""⟩, ⟨840, 0, ""⟩] := by decide

end Demeter
