/-
  C18 — the trigger loop inside the bar loop of the general Actuator model (`fireLoopG`, Demeter/Actuator/Hooks.lean: actions that trade, install and
  remove triggers) is `dynLoop` (Demeter/Trigger.lean): operations, refreshes and records do not interfere with which triggers are evaluated.
-/
import Proofs.C18.Dynamic
import Proofs.Lemmas.CoreHooks6
namespace Demeter
open Core

namespace Core

def noBoom (body : List HStmt) : Prop := ∀ s ∈ body, s.isBoom = false

theorem doStmt_trig_effect (ts : Int) (h : Hook) (s : HStmt) (st : St) (hs : s.isBoom = false) :
    (doStmt ts h s st).2.2 = none ∧ (doStmt ts h s st).1.filterMap fireOfEv = [] ∧
    (doStmt ts h s st).2.1.trigs = applyMuts (mutsOf [s]) st.trigs := by
  cases s with
  | op o => exact ⟨rfl, doOp_noFire ts h o st, doOp_trigs ts h o st⟩
  | tadd t => exact ⟨rfl, rfl, rfl⟩
  | tdel id => exact ⟨rfl, rfl, rfl⟩
  | boom e => cases hs

theorem applyMuts_append : ∀ (a b : List TMut) (l : List Trig), applyMuts (a ++ b) l = applyMuts b (applyMuts a l)
  | [], _, _ => rfl
  | m :: a, b, l => by simp only [List.cons_append, applyMuts, applyMuts_append a b]

theorem runStmts_trig_effect (ts : Int) (h : Hook) : ∀ (body : List HStmt) (st : St), noBoom body →
    (runStmts ts h body st).2.2 = none ∧ (runStmts ts h body st).1.filterMap fireOfEv = [] ∧
    (runStmts ts h body st).2.1.trigs = applyMuts (mutsOf body) st.trigs
  | [], _, _ => ⟨rfl, rfl, rfl⟩
  | s :: ss, st, hb => by
    obtain ⟨a1, a2, a3⟩ := doStmt_trig_effect ts h s st (hb s (List.mem_cons_self ..))
    obtain ⟨b1, b2, b3⟩ := runStmts_trig_effect ts h ss (doStmt ts h s st).2.1 (fun x hx => hb x (List.mem_cons_of_mem _ hx))
    simp only [runStmts]
    rw [andThen_ok a1]
    refine ⟨b1, by simp only [List.filterMap_append, a2, b2]; rfl, ?_⟩
    show (runStmts ts h ss (doStmt ts h s st).2.1).2.1.trigs = _
    rw [b3, a3]
    have : mutsOf (s :: ss) = mutsOf [s] ++ mutsOf ss := by
      simp only [mutsOf, List.filterMap_cons, List.filterMap_nil]
      cases s.mutOf <;> rfl
    rw [this, applyMuts_append]

end Core

/-- **C18 — through the bar loop of the general Actuator model**: with actions that trade and change the list but do not raise, from any state: the
    calls of the trigger actions, the list of installed triggers afterwards and the outcome of the loop are those of `dynLoop` with
    `mu id` = what the action of trigger `id` does to the list; so the theorems of Proofs/C18/Dynamic.lean describe what `Actuator.run` does. -/
theorem C18_fired_set_with_dynamic_triggers_through_the_bar_loop (b : BarScript) (hb : ∀ id, noBoom (b.fire id)) (ts : Int) :
    ∀ (fuel i : Nat) (st : St),
    (fireLoopG b ts fuel i st).1.filterMap fireOfEv = (dynLoop (fun id => mutsOf (b.fire id)) ts fuel i st.trigs).1 ∧
    (fireLoopG b ts fuel i st).2.1.trigs = (dynLoop (fun id => mutsOf (b.fire id)) ts fuel i st.trigs).2.1 ∧
    (fireLoopG b ts fuel i st).2.2 = (dynLoop (fun id => mutsOf (b.fire id)) ts fuel i st.trigs).2.2
  | 0, i, st => ⟨rfl, rfl, rfl⟩
  | fuel + 1, i, st => by
    unfold fireLoopG dynLoop
    cases hg : st.trigs[i]? with
    | none => exact ⟨rfl, rfl, rfl⟩
    | some t =>
      dsimp only
      cases hw : whenErr t.k with
      | some e => exact ⟨rfl, rfl, rfl⟩
      | none =>
        dsimp only
        cases hf : (whenT ts t.k).1 with
        | false =>
          simp only [Bool.false_eq_true, if_false]
          exact C18_fired_set_with_dynamic_triggers_through_the_bar_loop b hb ts fuel (i + 1) _
        | true =>
          simp only [if_true]
          rw [andThen_okRes]
          obtain ⟨r1, r2, r3⟩ := runStmts_trig_effect ts (.fire t.id) (b.fire t.id)
            { st with trigs := st.trigs.set i { t with k := (whenT ts t.k).2 } } (hb t.id)
          have hnone : (([Ev.fire ts t.id t.kw] ++ (runStmts ts (.fire t.id) (b.fire t.id) { st with trigs := st.trigs.set i { t with k := (whenT ts t.k).2 } }).1,
              (runStmts ts (.fire t.id) (b.fire t.id) { st with trigs := st.trigs.set i { t with k := (whenT ts t.k).2 } }).2.1,
              (runStmts ts (.fire t.id) (b.fire t.id) { st with trigs := st.trigs.set i { t with k := (whenT ts t.k).2 } }).2.2) : Res).2.2 = none := r1
          rw [andThen_ok hnone]
          dsimp only
          obtain ⟨q1, q2, q3⟩ := C18_fired_set_with_dynamic_triggers_through_the_bar_loop b hb ts fuel (i + 1)
            (runStmts ts (.fire t.id) (b.fire t.id) { st with trigs := st.trigs.set i { t with k := (whenT ts t.k).2 } }).2.1
          rw [r3] at q1 q2 q3
          refine ⟨?_, q2, q3⟩
          simp only [List.filterMap_append, List.filterMap_cons, fireOfEv, List.filterMap_nil, r2, q1]
          rfl

end Demeter
