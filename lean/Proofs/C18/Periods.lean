/-
  C18 — several periods: why returning from `PeriodsTrigger.when` at the first due period (the code before fix 79587c6) is harmless on
  today's tree.  `when` first lets every period catch up (`while next < now: next += delta`, added by the off-grid repair) and only then
  compares; a period that was due on a bar but not advanced there (because an earlier period of the same trigger was due too and `when`
  returned) is put right by the catch-up of its next evaluation.  The first theorem is that step for every period, due time and later bar;
  the example runs both variants of the loop on the periods 2 and 3 minutes.
-/
import Proofs.Lemmas.CoreTrigger
import Mathlib.Tactic.Linarith
import Mathlib.Tactic.Ring
namespace Demeter
open Core

/-- a period whose due time `t` was reached on the bar at `t` but not advanced (a `when` that returned at an earlier period of the same
    trigger) is put right by its next evaluation: on any later bar it behaves exactly like the period advanced on time -/
theorem Core.stepOne_unadvanced (δ t now : Int) (hδ : 0 < δ) (h : t < now) : stepOne now δ t = stepOne now δ (t + δ) := by
  have key : advance δ t now = advance δ (t + δ) now := by
    obtain ⟨⟨m, hm⟩, _, h3⟩ := advance_spec δ t now hδ
    obtain ⟨⟨n, hn⟩, g2, g3⟩ := advance_spec δ (t + δ) now hδ
    obtain ⟨x1, x2⟩ := h3 h
    rw [hm] at x1 x2 ⊢
    rw [hn]
    by_cases hc : now ≤ t + δ
    · have hy := g2 hc
      rw [hn] at hy
      -- t + mδ ≥ now > t and t + mδ - δ < now ≤ t + δ  ⇒ m = 1
      have hm1 : (m : Int) = 1 := by
        have h1 : 0 < (m : Int) * δ := by omega
        have h2 : ((m : Int) - 1) * δ < δ := by
          have : ((m : Int) - 1) * δ = (m : Int) * δ - δ := by ring
          omega
        have h3 : 0 < (m : Int) := by
          by_contra hneg
          have : (m : Int) ≤ 0 := by omega
          have := Int.mul_le_mul_of_nonneg_right this (le_of_lt hδ)
          omega
        have h4 : (m : Int) - 1 < 1 := by
          by_contra hge
          have : 1 ≤ (m : Int) - 1 := by omega
          have := Int.mul_le_mul_of_nonneg_right this (le_of_lt hδ)
          omega
        omega
      rw [hm1]; omega
    · have hlt : t + δ < now := by omega
      obtain ⟨y1, y2⟩ := g3 hlt
      rw [hn] at y1 y2
      -- both are lattice points of t + ℤδ in [now, now + δ)
      have hd : ((m : Int) - 1 - n) * δ = (t + (m : Int) * δ) - (t + δ + (n : Int) * δ) := by ring
      have hk : (m : Int) - 1 - n = 0 := by
        have u1 : ((m : Int) - 1 - n) * δ < δ := by omega
        have u2 : -δ < ((m : Int) - 1 - n) * δ := by omega
        by_contra hne
        rcases lt_or_gt_of_ne hne with hl | hg
        · have : (m : Int) - 1 - n ≤ -1 := by omega
          have := Int.mul_le_mul_of_nonneg_right this (le_of_lt hδ)
          omega
        · have : 1 ≤ (m : Int) - 1 - n := by omega
          have := Int.mul_le_mul_of_nonneg_right this (le_of_lt hδ)
          omega
      have : (m : Int) = n + 1 := by omega
      rw [this]; ring
  unfold stepOne
  simp only [key]


/-- **C18 — a due period that was not advanced on its bar is put right by its next evaluation**: on every later bar it gives the answer and
    is left in the state of the period advanced on time -/
theorem C18_unadvanced_period_is_put_right (δ t now : Int) (hδ : 0 < δ) (h : t < now) :
    stepOne now δ t = stepOne now δ (t + δ) := Core.stepOne_unadvanced δ t now hδ h

/-- `PeriodsTrigger.when` returning at the first due period (the loop before 79587c6, with today's catch-up) -/
def Core.stepAllEarly (now : Int) : List Int → List Int → Bool × List Int
  | δ :: δs, n :: ns =>
    let r := stepOne now δ n
    if r.1 then (true, r.2 :: ns) else
      let rest := stepAllEarly now δs ns
      (rest.1, r.2 :: rest.2)
  | _, ns => (false, ns)

def Core.periodFires (step : Int → List Int → List Int → Bool × List Int) (δs : List Int) : List Int → List Int → List Int
  | [], _ => []
  | t :: ts, ns => let r := step t δs ns; (if r.1 then [t] else []) ++ periodFires step δs ts r.2

/-- periods of 2 and 3 minutes from minute 0 on one-minute bars 1..24 (and on 5-minute bars): both loops fire on the same bars — every
    multiple of 2 or 3 — although their private due times differ after minute 6 -/
example : periodFires stepAll [120, 180] (grid 60 60 24) [120, 180]
    = periodFires stepAllEarly [120, 180] (grid 60 60 24) [120, 180] ∧
    periodFires stepAll [120, 180] (grid 60 60 24) [120, 180]
      = [120, 180, 240, 360, 480, 540, 600, 720, 840, 900, 960, 1080, 1200, 1260, 1320, 1440] ∧
    (stepAll 360 [120, 180] [360, 360]).2 ≠ (stepAllEarly 360 [120, 180] [360, 360]).2 := by decide

example : periodFires stepAll [120, 180, 300] (grid 300 300 12) [120, 180, 300]
    = periodFires stepAllEarly [120, 180, 300] (grid 300 300 12) [120, 180, 300] := by decide

end Demeter
