/-
  C18 — triggers installed and removed by hooks WHILE the bar loop iterates over `strategy.triggers`.

  `for trigger in self._strategy.triggers:` (actuator.py) runs over the live list, index by index (`dynLoop`, Demeter/Trigger.lean; the
  generated flag `coreTriggerLoopOverLiveList` says the source still does).  The theorems:
    * the index loop is the cursor reading (`cursorLoop`): passed slots / slots ahead / how far the index is beyond the end;
    * actions that change nothing: the loop of Proofs/C18.lean (`fireLoop`, `trigRun`) — all its theorems apply;
    * actions that only APPEND: the loop is the static loop over the list as it is at the end — every trigger, also one installed on this very
      bar, is evaluated exactly once, in list order, and fires iff it is due;
    * an action that REMOVES a trigger at or before the cursor (itself, or one evaluated earlier on this bar): the trigger in the next slot is
      passed over — not evaluated, not fired, its schedule untouched — everything else goes on as before; removal ahead of the cursor just takes
      the trigger out;
    * hence "fires on exactly the bars its specification denotes" FAILS for the trigger behind a self-removing one (kernel-checked witness,
      known finding `Actuator.run:trigger-skipped-after-removal-during-loop`).
-/
import Proofs.C18
namespace Demeter
open Core

/-- the source iterates `strategy.triggers` itself, not a copy (generated from demeter/core/actuator.py) -/
theorem C18_trigger_loop_iterates_live_list_in_source : Gen.coreTriggerLoopOverLiveList = true := rfl

namespace Core

/-! ### `list.remove` on a list split at the cursor -/

def hasId (id : Nat) (l : List Trig) : Bool := l.any (·.id == id)

theorem eraseId_append_of_has (id : Nat) : ∀ (d td : List Trig), hasId id d = true → eraseId id (d ++ td) = eraseId id d ++ td
  | [], _, h => by simp [hasId] at h
  | a :: d, td, h => by
    simp only [List.cons_append, eraseId]
    by_cases ha : a.id = id
    · simp [ha]
    · simp only [ha, if_false]
      have : hasId id d = true := by
        simp only [hasId, List.any_cons, Bool.or_eq_true, beq_iff_eq] at h
        rcases h with h | h
        · exact absurd h ha
        · exact h
      rw [eraseId_append_of_has id d td this]
      rfl

theorem eraseId_append_of_not (id : Nat) : ∀ (d td : List Trig), hasId id d = false → eraseId id (d ++ td) = d ++ eraseId id td
  | [], _, _ => rfl
  | a :: d, td, h => by
    simp only [hasId, List.any_cons, Bool.or_eq_false_iff, beq_eq_false_iff_ne] at h
    simp only [List.cons_append, eraseId, h.1, if_false]
    rw [eraseId_append_of_not id d td (by simpa [hasId] using h.2)]

theorem eraseId_length_of_has (id : Nat) : ∀ (d : List Trig), hasId id d = true → (eraseId id d).length + 1 = d.length
  | [], h => by simp [hasId] at h
  | a :: d, h => by
    simp only [eraseId]
    by_cases ha : a.id = id
    · simp [ha]
    · simp only [ha, if_false, List.length_cons]
      have : hasId id d = true := by
        simp only [hasId, List.any_cons, Bool.or_eq_true, beq_iff_eq] at h
        rcases h with h | h
        · exact absurd h ha
        · exact h
      rw [eraseId_length_of_has id d this]

/-! ### the cursor reading -/

/-- the iterator's index -/
def Cursor.idx (c : Cursor) : Nat := c.done.length + c.debt

/-- the index is beyond the end only when nothing is ahead -/
def Cursor.OK (c : Cursor) : Prop := 0 < c.debt → c.todo = []

theorem mut_del_has_nil {c : Cursor} {id : Nat} (h : c.done.any (·.id == id) = true) (htd : c.todo = []) :
    c.mut (.del id) = { c with done := eraseId id c.done, debt := c.debt + 1 } := by
  unfold Cursor.mut; simp only [h, if_true, htd]

theorem mut_del_has_cons {c : Cursor} {id : Nat} {u : Trig} {rest : List Trig} (h : c.done.any (·.id == id) = true) (htd : c.todo = u :: rest) :
    c.mut (.del id) = { c with done := eraseId id c.done ++ [u], todo := rest } := by
  unfold Cursor.mut; simp only [h, if_true, htd]

theorem mut_del_not {c : Cursor} {id : Nat} (h : c.done.any (·.id == id) = false) :
    c.mut (.del id) = { c with todo := eraseId id c.todo } := by
  unfold Cursor.mut; simp only [h, Bool.false_eq_true, if_false]

theorem cursor_mut_spec (m : TMut) (c : Cursor) (h : c.OK) :
    applyMut m c.list = (c.mut m).list ∧ (c.mut m).idx = c.idx ∧ (c.mut m).OK := by
  cases m with
  | add t =>
    unfold Cursor.mut
    by_cases hd : c.debt = 0
    · simp only [hd, if_true]
      refine ⟨by simp [applyMut, Cursor.list, List.append_assoc], by simp [Cursor.idx, hd], fun h0 => by simp [hd] at h0⟩
    · simp only [hd, if_false]
      have ht : c.todo = [] := h (by omega)
      refine ⟨by simp [applyMut, Cursor.list, ht], by simp [Cursor.idx]; omega, fun _ => ht⟩
  | del id =>
    cases hh : c.done.any (·.id == id) with
    | true =>
      have hlen := eraseId_length_of_has id c.done hh
      cases htd : c.todo with
      | nil =>
        rw [mut_del_has_nil hh htd]
        refine ⟨?_, by simp only [Cursor.idx]; omega, fun _ => htd⟩
        simp only [applyMut, Cursor.list, htd, List.append_nil]
      | cons u rest =>
        have hdebt : c.debt = 0 := by
          by_contra hne
          have := h (by omega)
          rw [htd] at this; cases this
        rw [mut_del_has_cons hh htd]
        refine ⟨?_, by simp only [Cursor.idx, List.length_append, List.length_singleton]; omega, fun h0 => by simp only [hdebt] at h0; omega⟩
        simp only [applyMut, Cursor.list, htd]
        rw [eraseId_append_of_has id c.done (u :: rest) hh]
        simp [List.append_assoc]
    | false =>
      rw [mut_del_not hh]
      refine ⟨?_, rfl, fun h0 => ?_⟩
      · simp only [applyMut, Cursor.list]
        exact eraseId_append_of_not id c.done c.todo hh
      · have := h h0
        simp [this, eraseId]

theorem cursor_muts_spec : ∀ (ms : List TMut) (c : Cursor), c.OK →
    applyMuts ms c.list = (Cursor.muts ms c).list ∧ (Cursor.muts ms c).idx = c.idx ∧ (Cursor.muts ms c).OK
  | [], c, h => ⟨rfl, rfl, h⟩
  | m :: ms, c, h => by
    obtain ⟨a1, a2, a3⟩ := cursor_mut_spec m c h
    obtain ⟨b1, b2, b3⟩ := cursor_muts_spec ms (c.mut m) a3
    exact ⟨by simp only [applyMuts, Cursor.muts]; rw [a1, b1], by simp only [Cursor.muts]; rw [b2, a2], b3⟩

theorem dyn_getElem?_mid {α : Type} (done : List α) (t : α) (rest : List α) : (done ++ t :: rest)[done.length]? = some t := by
  induction done with
  | nil => rfl
  | cons a d ih => simpa using ih

theorem dyn_set_mid {α : Type} (done : List α) (t t' : α) (rest : List α) :
    (done ++ t :: rest).set done.length t' = (done ++ [t']) ++ rest := by
  induction done with
  | nil => rfl
  | cons a d ih => simp only [List.cons_append, List.length_cons, List.set_cons_succ, ih]

/-- **the index loop is the cursor loop** -/
theorem dynLoop_eq_cursorLoop (mu : Nat → List TMut) (now : Int) : ∀ (fuel : Nat) (c : Cursor), c.OK →
    dynLoop mu now fuel c.idx c.list =
      ((cursorLoop mu now fuel c).1, (cursorLoop mu now fuel c).2.1.list, (cursorLoop mu now fuel c).2.2)
  | 0, c, h => by
    simp only [dynLoop, cursorLoop]
    cases htd : c.todo with
    | nil => simp [Cursor.list, Cursor.idx, htd]
    | cons t rest =>
      have hdebt : c.debt = 0 := by
        by_contra hne
        have := h (by omega)
        rw [htd] at this; cases this
      simp [Cursor.list, Cursor.idx, htd, hdebt]
  | fuel + 1, c, h => by
    unfold dynLoop cursorLoop
    cases htd : c.todo with
    | nil =>
      have : c.list[c.idx]? = none := by
        apply List.getElem?_eq_none_iff.mpr
        simp [Cursor.list, Cursor.idx, htd]
      simp only [this]
    | cons t rest =>
      have hdebt : c.debt = 0 := by
        by_contra hne
        have := h (by omega)
        rw [htd] at this; cases this
      have hidx : c.idx = c.done.length := by simp [Cursor.idx, hdebt]
      have hlist : c.list = c.done ++ t :: rest := by simp [Cursor.list, htd]
      have hget : c.list[c.idx]? = some t := by rw [hidx, hlist]; exact dyn_getElem?_mid _ _ _
      simp only [hget]
      cases hw : whenErr t.k with
      | some e => simp only [Cursor.list, htd]
      | none =>
        simp only []
        have hset : c.list.set c.idx { t with k := (whenT now t.k).2 } =
            ({ c with done := c.done ++ [{ t with k := (whenT now t.k).2 }], todo := rest } : Cursor).list := by
          rw [hidx, hlist, dyn_set_mid]; rfl
        have hok1 : ({ c with done := c.done ++ [{ t with k := (whenT now t.k).2 }], todo := rest } : Cursor).OK := by
          intro h0; simp only [hdebt] at h0; omega
        have hidx1 : ({ c with done := c.done ++ [{ t with k := (whenT now t.k).2 }], todo := rest } : Cursor).idx = c.idx + 1 := by
          simp [Cursor.idx, hdebt]
        rw [hset]
        cases hf : (whenT now t.k).1 with
        | true =>
          simp only [if_true]
          obtain ⟨m1, m2, m3⟩ := cursor_muts_spec (mu t.id) _ hok1
          rw [m1, ← hidx1, ← m2, dynLoop_eq_cursorLoop mu now fuel _ m3]
        | false =>
          simp only [Bool.false_eq_true, if_false]
          rw [← hidx1, dynLoop_eq_cursorLoop mu now fuel _ hok1]

/-! ### actions that change nothing -/

theorem cursorLoop_static (now : Int) : ∀ (fuel : Nat) (c : Cursor), c.todo.length ≤ fuel →
    (cursorLoop (fun _ => []) now fuel c).1 = (fireLoop now c.todo).1 ∧
    (cursorLoop (fun _ => []) now fuel c).2.1.list = c.done ++ (fireLoop now c.todo).2.1 ∧
    (cursorLoop (fun _ => []) now fuel c).2.2 = (fireLoop now c.todo).2.2
  | 0, c, h => by
    have : c.todo = [] := List.length_eq_zero_iff.mp (by omega)
    simp [cursorLoop, this, fireLoop, Cursor.list]
  | fuel + 1, c, h => by
    unfold cursorLoop
    cases htd : c.todo with
    | nil => simp [fireLoop, Cursor.list, htd]
    | cons t rest =>
      simp only []
      unfold fireLoop
      cases hw : whenErr t.k with
      | some e => simp [Cursor.list, htd]
      | none =>
        simp only [Cursor.muts]
        rw [htd] at h
        have ih := cursorLoop_static now fuel { c with done := c.done ++ [{ t with k := (whenT now t.k).2 }], todo := rest } (by simpa using h)
        obtain ⟨i1, i2, i3⟩ := ih
        cases hf : (whenT now t.k).1 with
        | true => simp only [if_true]; exact ⟨by simp [i1], by rw [i2]; simp, i3⟩
        | false => simp only [Bool.false_eq_true, if_false]; exact ⟨by simp [i1], by rw [i2]; simp, i3⟩

/-! ### actions that only append -/

def TMut.isAdd : TMut → Bool
  | .add _ => true
  | .del _ => false

theorem cursor_muts_adds : ∀ (ms : List TMut) (c : Cursor), (∀ m ∈ ms, m.isAdd = true) → c.debt = 0 →
    ∃ A, Cursor.muts ms c = { c with todo := c.todo ++ A }
  | [], c, _, _ => ⟨[], by simp [Cursor.muts]⟩
  | m :: ms, c, hm, hd => by
    cases m with
    | del id => have := hm (.del id) (List.mem_cons_self ..); cases this
    | add t =>
      have h1 : c.mut (.add t) = { c with todo := c.todo ++ [t] } := by simp [Cursor.mut, hd]
      obtain ⟨A, hA⟩ := cursor_muts_adds ms (c.mut (.add t)) (fun x hx => hm x (List.mem_cons_of_mem _ hx)) (by rw [h1]; exact hd)
      exact ⟨t :: A, by simp only [Cursor.muts]; rw [hA, h1]; simp⟩

/-- with actions that only append, the cursor loop is the static loop over what is ahead followed by everything appended on the way -/
theorem cursorLoop_append_only (mu : Nat → List TMut) (hmu : ∀ id, ∀ m ∈ mu id, m.isAdd = true) (now : Int) : ∀ (fuel : Nat) (c : Cursor),
    c.debt = 0 → (cursorLoop mu now fuel c).2.2 ≠ some .diverges →
    ∃ A, (cursorLoop mu now fuel c).1 = (fireLoop now (c.todo ++ A)).1 ∧
         (cursorLoop mu now fuel c).2.1.list = c.done ++ (fireLoop now (c.todo ++ A)).2.1 ∧
         (cursorLoop mu now fuel c).2.2 = (fireLoop now (c.todo ++ A)).2.2
  | 0, c, _, h => by
    simp only [cursorLoop] at h ⊢
    cases htd : c.todo with
    | nil => exact ⟨[], by simp [fireLoop, Cursor.list, htd]⟩
    | cons t rest => simp [htd] at h
  | fuel + 1, c, hd, h => by
    unfold cursorLoop at h ⊢
    cases htd : c.todo with
    | nil => exact ⟨[], by simp [fireLoop, Cursor.list, htd]⟩
    | cons t rest =>
      rw [htd] at h
      simp only [] at h ⊢
      cases hw : whenErr t.k with
      | some e => exact ⟨[], by simp [fireLoop, hw, Cursor.list, htd]⟩
      | none =>
        rw [hw] at h
        simp only [] at h ⊢
        cases hf : (whenT now t.k).1 with
        | true =>
          rw [hf] at h
          simp only [if_true] at h ⊢
          obtain ⟨A1, hA1⟩ := cursor_muts_adds (mu t.id) { c with done := c.done ++ [{ t with k := (whenT now t.k).2 }], todo := rest }
            (hmu t.id) hd
          rw [hA1] at h ⊢
          obtain ⟨A2, i1, i2, i3⟩ := cursorLoop_append_only mu hmu now fuel
            ⟨c.done ++ [{ t with k := (whenT now t.k).2 }], rest ++ A1, c.debt⟩ hd h
          simp only [] at i1 i2 i3
          refine ⟨A1 ++ A2, ?_, ?_, ?_⟩
          · simp only [List.cons_append, fireLoop, hw, hf, if_true, List.singleton_append]
            rw [i1]; simp [List.append_assoc]
          · simp only [List.cons_append, fireLoop, hw]
            rw [i2]; simp [List.append_assoc]
          · simp only [List.cons_append, fireLoop, hw]
            rw [i3]; simp [List.append_assoc]
        | false =>
          rw [hf] at h
          simp only [Bool.false_eq_true, if_false] at h ⊢
          obtain ⟨A2, i1, i2, i3⟩ := cursorLoop_append_only mu hmu now fuel
            ⟨c.done ++ [{ t with k := (whenT now t.k).2 }], rest, c.debt⟩ hd h
          simp only [] at i1 i2 i3
          refine ⟨A2, ?_, ?_, ?_⟩
          · simp only [List.cons_append, fireLoop, hw, hf, Bool.false_eq_true, if_false, List.nil_append]
            rw [i1]
          · simp only [List.cons_append, fireLoop, hw]
            rw [i2]; simp [List.append_assoc]
          · simp only [List.cons_append, fireLoop, hw]
            rw [i3]

theorem cursorLoop_succ_fire (mu : Nat → List TMut) (now : Int) (fuel : Nat) (d rest : List Trig) (t : Trig) (debt : Nat)
    (hw : whenErr t.k = none) (hf : (whenT now t.k).1 = true) :
    cursorLoop mu now (fuel + 1) ⟨d, t :: rest, debt⟩ =
      (⟨now, t.id, t.kw⟩ :: (cursorLoop mu now fuel (Cursor.muts (mu t.id) ⟨d ++ [{ t with k := (whenT now t.k).2 }], rest, debt⟩)).1,
       (cursorLoop mu now fuel (Cursor.muts (mu t.id) ⟨d ++ [{ t with k := (whenT now t.k).2 }], rest, debt⟩)).2.1,
       (cursorLoop mu now fuel (Cursor.muts (mu t.id) ⟨d ++ [{ t with k := (whenT now t.k).2 }], rest, debt⟩)).2.2) := by
  conv => lhs; unfold cursorLoop
  simp only [hw, hf, if_true]

end Core

/-! ### the property theorems -/

/-- **C18 — the loop of the code under actions that change the list.**  Index-by-index iteration over the live list (`dynLoop`) is the cursor
    loop: from any position, for every list, every set of actions (append, remove — itself, an earlier one, a later one), every amount of fuel:
    same calls of the actions, same list afterwards, same outcome. -/
theorem C18_fired_set_with_dynamic_triggers_index_loop_is_cursor_loop (mu : Nat → List TMut) (now : Int) (fuel : Nat) (trigs : List Trig) :
    dynLoop mu now fuel 0 trigs =
      ((cursorLoop mu now fuel ⟨[], trigs, 0⟩).1, (cursorLoop mu now fuel ⟨[], trigs, 0⟩).2.1.list, (cursorLoop mu now fuel ⟨[], trigs, 0⟩).2.2) := by
  have := dynLoop_eq_cursorLoop mu now fuel ⟨[], trigs, 0⟩ (fun h => by simp at h)
  simpa [Cursor.idx, Cursor.list] using this

/-- **C18 — actions that leave `strategy.triggers` alone**: the loop under mutation is the loop of Proofs/C18.lean (`fireLoop`); one bar … -/
theorem C18_fired_set_with_dynamic_triggers_none_is_static_loop (now : Int) (extra : Nat) (trigs : List Trig) :
    trigPhaseD (fun _ => []) extra now trigs = trigPhase now trigs := by
  unfold trigPhaseD trigPhase
  rw [C18_fired_set_with_dynamic_triggers_index_loop_is_cursor_loop]
  obtain ⟨h1, h2, h3⟩ := cursorLoop_static now (trigs.length + extra) ⟨[], trigs, 0⟩ (by simp)
  simp only [List.nil_append] at h2
  simp only [h1, h2, h3]

/-- … and the whole run: `trigRunD` without list changes is `trigRun`, so `C18_fires_eq_denoted` and everything after it apply -/
theorem C18_fired_set_with_dynamic_triggers_none_is_static_run (extra : Nat) : ∀ (bars : List Int) (row : Nat) (trigs : List Trig),
    (trigRunD (fun _ _ => []) extra row bars trigs).1 = (trigRun bars trigs).1 ∧
    (trigRunD (fun _ _ => []) extra row bars trigs).2.2.1 = (trigRun bars trigs).2.1 ∧
    (trigRunD (fun _ _ => []) extra row bars trigs).2.2.2 = (trigRun bars trigs).2.2
  | [], _, _ => ⟨rfl, rfl, rfl⟩
  | t :: bars, row, trigs => by
    unfold trigRunD trigRun
    rw [C18_fired_set_with_dynamic_triggers_none_is_static_loop]
    dsimp only
    cases he : (trigPhase t trigs).2.2 with
    | some e => exact ⟨rfl, rfl, rfl⟩
    | none =>
      obtain ⟨i1, i2, i3⟩ := C18_fired_set_with_dynamic_triggers_none_is_static_run extra bars (row + 1) (trigPhase t trigs).2.1
      dsimp only
      exact ⟨by rw [i1], i2, i3⟩

/-- **C18 — actions that only install triggers.**  If no action removes anything, the evaluation of a bar — unless it never ends (every installed
    trigger fires at once and installs another) — is the static loop over the list extended by the triggers installed on the way (`A`, in the order
    of installation): every trigger present at the start AND every trigger installed during the loop is evaluated exactly once on this bar, in list
    order, and its action is called iff its `when` answers true — a trigger fires on the very bar it is installed on if that bar is one of its
    times. -/
theorem C18_fired_set_with_dynamic_triggers_append_only_is_static_loop_over_final_list (mu : Nat → List TMut)
    (hmu : ∀ id, ∀ m ∈ mu id, m.isAdd = true) (now : Int) (fuel : Nat) (trigs : List Trig)
    (hend : (dynLoop mu now fuel 0 trigs).2.2 ≠ some .diverges) :
    ∃ A, (dynLoop mu now fuel 0 trigs).1 = (fireLoop now (trigs ++ A)).1 ∧
         (dynLoop mu now fuel 0 trigs).2.1 = (fireLoop now (trigs ++ A)).2.1 ∧
         (dynLoop mu now fuel 0 trigs).2.2 = (fireLoop now (trigs ++ A)).2.2 := by
  rw [C18_fired_set_with_dynamic_triggers_index_loop_is_cursor_loop] at hend ⊢
  obtain ⟨A, h1, h2, h3⟩ := cursorLoop_append_only mu hmu now fuel ⟨[], trigs, 0⟩ rfl hend
  exact ⟨A, h1, by simpa using h2, h3⟩

/-- **C18 — what a removal does, precisely.**  The running action removes a trigger that sits at or before the cursor (`id` among the passed slots
    `done`, which include the running trigger itself): the trigger `u` in the next slot slides into a passed slot AS IT IS — it is not evaluated on
    this bar: `when` is not called, its action does not run, a period trigger's next due time is not advanced — and the loop goes on behind it.
    With nothing ahead the index ends up beyond the end of the list, and a trigger appended afterwards by the same action lands in a passed slot
    too.  A removal ahead of the cursor takes the trigger out and changes nothing else. -/
theorem C18_fired_set_with_dynamic_triggers_removal_at_or_before_cursor_skips_next (done rest : List Trig) (u : Trig) (id : Nat)
    (h : hasId id done = true) :
    (Cursor.mut (.del id) ⟨done, u :: rest, 0⟩ = ⟨eraseId id done ++ [u], rest, 0⟩) ∧
    (Cursor.mut (.del id) ⟨done, [], 0⟩ = ⟨eraseId id done, [], 1⟩) ∧
    (∀ t, Cursor.mut (.add t) ⟨eraseId id done, [], 1⟩ = ⟨eraseId id done ++ [t], [], 0⟩) := by
  unfold hasId at h
  refine ⟨by simp [Cursor.mut, h], by simp [Cursor.mut, h], fun t => by simp [Cursor.mut]⟩

theorem C18_fired_set_with_dynamic_triggers_removal_ahead_of_cursor_is_clean (done todo : List Trig) (id : Nat)
    (h : hasId id done = false) : Cursor.mut (.del id) ⟨done, todo, 0⟩ = ⟨done, eraseId id todo, 0⟩ := by
  unfold hasId at h
  simp [Cursor.mut, h]

/-- … in terms of the loop itself: trigger `t` (in slot `done.length`) fires and its action removes `t` itself; the next trigger `u` is passed
    over and the loop continues with the slot behind `u` -/
theorem C18_fired_set_with_dynamic_triggers_self_removal_passes_over_the_next (mu : Nat → List TMut) (now : Int) (fuel : Nat)
    (done rest : List Trig) (t u : Trig) (hw : whenErr t.k = none) (hf : (whenT now t.k).1 = true) (hmu : mu t.id = [.del t.id])
    (hfresh : hasId t.id done = false) :
    dynLoop mu now (fuel + 1) done.length (done ++ t :: u :: rest) =
      (⟨now, t.id, t.kw⟩ :: (dynLoop mu now fuel (done ++ [u]).length ((done ++ [u]) ++ rest)).1,
       (dynLoop mu now fuel (done ++ [u]).length ((done ++ [u]) ++ rest)).2.1,
       (dynLoop mu now fuel (done ++ [u]).length ((done ++ [u]) ++ rest)).2.2) := by
  have e1 := dynLoop_eq_cursorLoop mu now (fuel + 1) ⟨done, t :: u :: rest, 0⟩ (fun h => by simp at h)
  have e2 := dynLoop_eq_cursorLoop mu now fuel ⟨done ++ [u], rest, 0⟩ (fun h => by simp at h)
  simp only [Cursor.idx, Cursor.list, Nat.add_zero] at e1 e2
  rw [e1, e2, cursorLoop_succ_fire mu now fuel done (u :: rest) t 0 hw hf]
  have hhas : (done ++ [{ t with k := (whenT now t.k).2 }]).any (·.id == t.id) = true := by simp
  have herase : eraseId t.id (done ++ [{ t with k := (whenT now t.k).2 }]) = done := by
    rw [eraseId_append_of_not t.id done _ hfresh]
    simp [eraseId]
  have hm : Cursor.muts (mu t.id) ⟨done ++ [{ t with k := (whenT now t.k).2 }], u :: rest, 0⟩ = ⟨done ++ [u], rest, 0⟩ := by
    rw [hmu]
    simp only [Cursor.muts]
    have := mut_del_has_cons (c := ⟨done ++ [{ t with k := (whenT now t.k).2 }], u :: rest, 0⟩) (id := t.id) (u := u) (rest := rest) hhas rfl
    rw [this]
    simp only [herase]
  rw [hm]

/-! ### the property fails behind a self-removing trigger (known finding) -/

/-- two triggers for 00:01, the first one's action removes the first trigger (a one-shot): on the bar 00:01 only the first one fires — the second,
    whose specification denotes exactly that bar, is never called (on 00:02 it is retired as out of date) -/
theorem C18_fails_trigger_behind_a_self_removing_one_misses_its_bar :
    let mu : Nat → Nat → List TMut := fun _ id => if id = 0 then [.del 0] else []
    let trigs := install [("", .atTime 60), ("", .atTime 60)]
    (trigRunD mu 0 0 [0, 60, 120] trigs).1 = [⟨60, 0, ""⟩] ∧
    [0, 60, 120].filter (denotes 0 (.atTime 60)) = [60] ∧
    (trigRun [0, 60, 120] trigs).1 = [⟨60, 0, ""⟩, ⟨60, 1, ""⟩] := by decide

/-- the full statement holds when no action removes a trigger at or before the cursor — in particular when actions only install triggers
    (`…append_only…` above) or only remove triggers that are still ahead; with removals at or before the cursor it holds for every trigger but
    the ones passed over (`…removal_at_or_before_cursor_skips_next`).  Concrete check of the appended case: a trigger installed by an action on
    bar 00:01 with a range covering the run fires on 00:01 itself and on every later bar -/
example :
    let mu : Nat → Nat → List TMut := fun row id => if row = 1 ∧ id = 0 then [.add ⟨5, "k", .range 0 1000⟩] else []
    (trigRunD mu 1 0 [0, 60, 120] (install [("", .atTime 60)])).1 = [⟨60, 0, ""⟩, ⟨60, 5, "k"⟩, ⟨120, 5, "k"⟩] ∧
    (trigRunD mu 1 0 [0, 60, 120] (install [("", .atTime 60)])).2.1 = [[0], [5], [5]] := by decide

/-- an action that keeps installing a trigger that fires at once never lets the loop end: the model says so -/
example : (dynLoop (fun id => [.add ⟨id + 1, "", .range 0 1000⟩]) 60 10 0 (install [("", .range 0 1000)])).2.2 = some .diverges := by decide

end Demeter
