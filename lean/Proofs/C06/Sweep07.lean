-- shard 7 of the exhaustive TickMath sweep: |tick| in [229376, 262144)
import Proofs.Lemmas.SweepN
namespace Demeter
set_option maxRecDepth 100000 in
theorem sweep_shard_07 : chkN sweepPred 229376 shardBits = true := by decide +kernel
end Demeter
