/-
  C06 (e) for the drivers' own arithmetic: the ε-robust inverse theorem instantiated with the *proved* rounding
  error of the model's `round35`/`dsqrt35`/`dpowNat 35 · 2` (Proofs/Numerics.lean), instead of an assumed ε.
  `pyGTn` is the CPython-semantics context `TickNum.py` guarded by the magnitude bound `InRange` (numerator and
  denominator below 2^150000): inside the bound it IS `TickNum.py` (`Num_pyG_agrees`, `pyGTn_sq_eq`, `pyGTn_fac_eq`);
  every number the tick helpers produce (35-digit decimals with exponents within 10^±80) is far inside it.
-/
import Proofs.C06.Inverse
import Proofs.Lemmas.Round35Tick
namespace Demeter
open TickInv Numerics

/-- the price↔tick round trip through the integer-corrected conversion lands in {t−1, t} under the 35-digit
    half-even Decimal arithmetic of the model (relative error 5·10⁻³⁵ per operation — proved, not assumed) -/
theorem C06_inverse_x96_round35 (t : Int) (h1 : minTick ≤ t) (h2 : t ≤ maxTick)
    (d0 d1 : Nat) (q0 : Bool) (fuel : Nat) (est : Int) (hf : (clampTick est - t).natAbs + 1 ≤ fuel) :
    ∃ p r, tickToPrice pyGTn t d0 d1 q0 = .ok p ∧ priceToTickX96 pyGTn fuel est p d0 d1 q0 = .ok r ∧
      t - 1 ≤ r ∧ r ≤ t :=
  C06_inverse_x96 pyGTn EPS35 pyGTn_approx t h1 h2 d0 d1 q0 fuel est hf

/-- the rounding error is the one the property's Decimal context has: ε = 5·10⁻³⁵ -/
theorem C06_round35_eps : EPS35 = 5 / 10 ^ 35 := rfl

end Demeter
