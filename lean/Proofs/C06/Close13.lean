-- shard 13 of the closeness / tick-gap sweep (C06 (c), (e)): |tick| in [425984, 458752)
import Proofs.Lemmas.ClosePred
namespace Demeter.TickClose
set_option maxRecDepth 100000 in
theorem close_shard_13 : chkN closeSweepPred 425984 shardBits = true := by decide +kernel
end Demeter.TickClose
