-- shard 13 of the closeness / tick-gap sweep (C06 (c), (e)): |tick| in [425984, 458752), 16 blocks of 2^11
import Proofs.Lemmas.ClosePred
namespace Demeter.TickClose
set_option maxRecDepth 100000 in
theorem close_blk_425984 : chkN closeSweepPred 425984 11 = true := by decide +kernel
set_option maxRecDepth 100000 in
theorem close_blk_428032 : chkN closeSweepPred 428032 11 = true := by decide +kernel
set_option maxRecDepth 100000 in
theorem close_blk_430080 : chkN closeSweepPred 430080 11 = true := by decide +kernel
set_option maxRecDepth 100000 in
theorem close_blk_432128 : chkN closeSweepPred 432128 11 = true := by decide +kernel
set_option maxRecDepth 100000 in
theorem close_blk_434176 : chkN closeSweepPred 434176 11 = true := by decide +kernel
set_option maxRecDepth 100000 in
theorem close_blk_436224 : chkN closeSweepPred 436224 11 = true := by decide +kernel
set_option maxRecDepth 100000 in
theorem close_blk_438272 : chkN closeSweepPred 438272 11 = true := by decide +kernel
set_option maxRecDepth 100000 in
theorem close_blk_440320 : chkN closeSweepPred 440320 11 = true := by decide +kernel
set_option maxRecDepth 100000 in
theorem close_blk_442368 : chkN closeSweepPred 442368 11 = true := by decide +kernel
set_option maxRecDepth 100000 in
theorem close_blk_444416 : chkN closeSweepPred 444416 11 = true := by decide +kernel
set_option maxRecDepth 100000 in
theorem close_blk_446464 : chkN closeSweepPred 446464 11 = true := by decide +kernel
set_option maxRecDepth 100000 in
theorem close_blk_448512 : chkN closeSweepPred 448512 11 = true := by decide +kernel
set_option maxRecDepth 100000 in
theorem close_blk_450560 : chkN closeSweepPred 450560 11 = true := by decide +kernel
set_option maxRecDepth 100000 in
theorem close_blk_452608 : chkN closeSweepPred 452608 11 = true := by decide +kernel
set_option maxRecDepth 100000 in
theorem close_blk_454656 : chkN closeSweepPred 454656 11 = true := by decide +kernel
set_option maxRecDepth 100000 in
theorem close_blk_456704 : chkN closeSweepPred 456704 11 = true := by decide +kernel
theorem close_shard_13 : chkN closeSweepPred 425984 shardBits = true :=
  (chkN_join _ 425984 14 (chkN_join _ 425984 13 (chkN_join _ 425984 12 (chkN_join _ 425984 11 close_blk_425984 close_blk_428032) (chkN_join _ 430080 11 close_blk_430080 close_blk_432128)) (chkN_join _ 434176 12 (chkN_join _ 434176 11 close_blk_434176 close_blk_436224) (chkN_join _ 438272 11 close_blk_438272 close_blk_440320))) (chkN_join _ 442368 13 (chkN_join _ 442368 12 (chkN_join _ 442368 11 close_blk_442368 close_blk_444416) (chkN_join _ 446464 11 close_blk_446464 close_blk_448512)) (chkN_join _ 450560 12 (chkN_join _ 450560 11 close_blk_450560 close_blk_452608) (chkN_join _ 454656 11 close_blk_454656 close_blk_456704))))
end Demeter.TickClose
