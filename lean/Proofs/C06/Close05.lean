-- shard 5 of the closeness / tick-gap sweep (C06 (c), (e)): |tick| in [163840, 196608), 16 blocks of 2^11
import Proofs.Lemmas.ClosePred
namespace Demeter.TickClose
set_option maxRecDepth 100000 in
theorem close_blk_163840 : chkN closeSweepPred 163840 11 = true := by decide +kernel
set_option maxRecDepth 100000 in
theorem close_blk_165888 : chkN closeSweepPred 165888 11 = true := by decide +kernel
set_option maxRecDepth 100000 in
theorem close_blk_167936 : chkN closeSweepPred 167936 11 = true := by decide +kernel
set_option maxRecDepth 100000 in
theorem close_blk_169984 : chkN closeSweepPred 169984 11 = true := by decide +kernel
set_option maxRecDepth 100000 in
theorem close_blk_172032 : chkN closeSweepPred 172032 11 = true := by decide +kernel
set_option maxRecDepth 100000 in
theorem close_blk_174080 : chkN closeSweepPred 174080 11 = true := by decide +kernel
set_option maxRecDepth 100000 in
theorem close_blk_176128 : chkN closeSweepPred 176128 11 = true := by decide +kernel
set_option maxRecDepth 100000 in
theorem close_blk_178176 : chkN closeSweepPred 178176 11 = true := by decide +kernel
set_option maxRecDepth 100000 in
theorem close_blk_180224 : chkN closeSweepPred 180224 11 = true := by decide +kernel
set_option maxRecDepth 100000 in
theorem close_blk_182272 : chkN closeSweepPred 182272 11 = true := by decide +kernel
set_option maxRecDepth 100000 in
theorem close_blk_184320 : chkN closeSweepPred 184320 11 = true := by decide +kernel
set_option maxRecDepth 100000 in
theorem close_blk_186368 : chkN closeSweepPred 186368 11 = true := by decide +kernel
set_option maxRecDepth 100000 in
theorem close_blk_188416 : chkN closeSweepPred 188416 11 = true := by decide +kernel
set_option maxRecDepth 100000 in
theorem close_blk_190464 : chkN closeSweepPred 190464 11 = true := by decide +kernel
set_option maxRecDepth 100000 in
theorem close_blk_192512 : chkN closeSweepPred 192512 11 = true := by decide +kernel
set_option maxRecDepth 100000 in
theorem close_blk_194560 : chkN closeSweepPred 194560 11 = true := by decide +kernel
theorem close_shard_05 : chkN closeSweepPred 163840 shardBits = true :=
  (chkN_join _ 163840 14 (chkN_join _ 163840 13 (chkN_join _ 163840 12 (chkN_join _ 163840 11 close_blk_163840 close_blk_165888) (chkN_join _ 167936 11 close_blk_167936 close_blk_169984)) (chkN_join _ 172032 12 (chkN_join _ 172032 11 close_blk_172032 close_blk_174080) (chkN_join _ 176128 11 close_blk_176128 close_blk_178176))) (chkN_join _ 180224 13 (chkN_join _ 180224 12 (chkN_join _ 180224 11 close_blk_180224 close_blk_182272) (chkN_join _ 184320 11 close_blk_184320 close_blk_186368)) (chkN_join _ 188416 12 (chkN_join _ 188416 11 close_blk_188416 close_blk_190464) (chkN_join _ 192512 11 close_blk_192512 close_blk_194560))))
end Demeter.TickClose
