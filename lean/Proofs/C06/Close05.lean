-- shard 5 of the closeness / tick-gap sweep (C06 (c), (e)): |tick| in [163840, 196608)
import Proofs.Lemmas.ClosePred
namespace Demeter.TickClose
set_option maxRecDepth 100000 in
theorem close_shard_05 : chkN closeSweepPred 163840 shardBits = true := by decide +kernel
end Demeter.TickClose
