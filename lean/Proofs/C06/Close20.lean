-- shard 20 of the closeness / tick-gap sweep (C06 (c), (e)): |tick| in [655360, 688128), 16 blocks of 2^11
import Proofs.Lemmas.ClosePred
namespace Demeter.TickClose
set_option maxRecDepth 100000 in
theorem close_blk_655360 : chkN closeSweepPred 655360 11 = true := by decide +kernel
set_option maxRecDepth 100000 in
theorem close_blk_657408 : chkN closeSweepPred 657408 11 = true := by decide +kernel
set_option maxRecDepth 100000 in
theorem close_blk_659456 : chkN closeSweepPred 659456 11 = true := by decide +kernel
set_option maxRecDepth 100000 in
theorem close_blk_661504 : chkN closeSweepPred 661504 11 = true := by decide +kernel
set_option maxRecDepth 100000 in
theorem close_blk_663552 : chkN closeSweepPred 663552 11 = true := by decide +kernel
set_option maxRecDepth 100000 in
theorem close_blk_665600 : chkN closeSweepPred 665600 11 = true := by decide +kernel
set_option maxRecDepth 100000 in
theorem close_blk_667648 : chkN closeSweepPred 667648 11 = true := by decide +kernel
set_option maxRecDepth 100000 in
theorem close_blk_669696 : chkN closeSweepPred 669696 11 = true := by decide +kernel
set_option maxRecDepth 100000 in
theorem close_blk_671744 : chkN closeSweepPred 671744 11 = true := by decide +kernel
set_option maxRecDepth 100000 in
theorem close_blk_673792 : chkN closeSweepPred 673792 11 = true := by decide +kernel
set_option maxRecDepth 100000 in
theorem close_blk_675840 : chkN closeSweepPred 675840 11 = true := by decide +kernel
set_option maxRecDepth 100000 in
theorem close_blk_677888 : chkN closeSweepPred 677888 11 = true := by decide +kernel
set_option maxRecDepth 100000 in
theorem close_blk_679936 : chkN closeSweepPred 679936 11 = true := by decide +kernel
set_option maxRecDepth 100000 in
theorem close_blk_681984 : chkN closeSweepPred 681984 11 = true := by decide +kernel
set_option maxRecDepth 100000 in
theorem close_blk_684032 : chkN closeSweepPred 684032 11 = true := by decide +kernel
set_option maxRecDepth 100000 in
theorem close_blk_686080 : chkN closeSweepPred 686080 11 = true := by decide +kernel
theorem close_shard_20 : chkN closeSweepPred 655360 shardBits = true :=
  (chkN_join _ 655360 14 (chkN_join _ 655360 13 (chkN_join _ 655360 12 (chkN_join _ 655360 11 close_blk_655360 close_blk_657408) (chkN_join _ 659456 11 close_blk_659456 close_blk_661504)) (chkN_join _ 663552 12 (chkN_join _ 663552 11 close_blk_663552 close_blk_665600) (chkN_join _ 667648 11 close_blk_667648 close_blk_669696))) (chkN_join _ 671744 13 (chkN_join _ 671744 12 (chkN_join _ 671744 11 close_blk_671744 close_blk_673792) (chkN_join _ 675840 11 close_blk_675840 close_blk_677888)) (chkN_join _ 679936 12 (chkN_join _ 679936 11 close_blk_679936 close_blk_681984) (chkN_join _ 684032 11 close_blk_684032 close_blk_686080))))
end Demeter.TickClose
