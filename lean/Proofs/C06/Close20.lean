-- shard 20 of the closeness / tick-gap sweep (C06 (c), (e)): |tick| in [655360, 688128)
import Proofs.Lemmas.ClosePred
namespace Demeter.TickClose
set_option maxRecDepth 100000 in
theorem close_shard_20 : chkN closeSweepPred 655360 shardBits = true := by decide +kernel
end Demeter.TickClose
