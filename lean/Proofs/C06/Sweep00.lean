-- shard 0 of the exhaustive TickMath sweep: |tick| in [0, 32768)
import Proofs.Lemmas.SweepN
namespace Demeter
set_option maxRecDepth 100000 in
theorem sweep_shard_00 : chkN sweepPred 0 shardBits = true := by decide +kernel
end Demeter
