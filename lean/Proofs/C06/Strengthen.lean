/-
  C06 — strengthened statements (review findings C06-1, -3, -4, -5).

  * `C06_floor_any_estimate`      : with fuel 1 774 544 (= MAX_TICK − MIN_TICK: the loops of `sqrt_price_x96_to_tick` can never need
                                     more) the conversion returns the floor tick for EVERY integer estimate — no fuel hypothesis;
    `C06_floor_total`             : for every sqrt price in `[sqrtAt MIN, sqrtAt MAX)` and every estimate the result satisfies the
                                     floor inequalities (existence + the former).
  * `C06_nearest_usable_nearest`  : `nearest_usable_tick` returns a multiple of the spacing that is at least as close to the input as
                                     EVERY multiple inside the valid range — including when the end-of-range correction applies
                                     (no `hin` hypothesis), for every spacing; `C06_nearest_usable_ends` evaluates it within half a
                                     spacing of ±887272 for the spacings 10, 60, 200.
  * `C06_inverse_log_round35`     : the float-logarithm round trip for the 35-digit context; `LgSound pyGTn 10⁻⁹` is the single
                                     libm assumption.
  * `C06_inverse_x96_round35_fac` / `C06_inverse_log_round35_fac` : the 35-digit round trips for ANY positive `Decimal(10 ** e)` —
                                     in particular the binary64 value CPython computes for `e < 0` (`facPy`):
                                     `C06_inverse_x96_round35_facPy`, under `0 < facPy (d0 − d1)` (libm `pow` returned a positive
                                     finite double; automatic for `d0 ≥ d1`).
-/
import Proofs.C06.InverseLog
import Proofs.C06.InversePy
namespace Demeter
open Gen TickInv Numerics
set_option exponentiation.threshold 200000

/-! ### C06-5: no fuel hypothesis -/

theorem clampTick_range (est : Int) : minTick ≤ clampTick est ∧ clampTick est ≤ maxTick := by
  unfold clampTick minTick maxTick tickBound
  split
  · omega
  · split <;> omega

/-- **floor, for every estimate**: 1 774 544 iterations always suffice -/
theorem C06_floor_any_estimate (est : Int) (x : Nat) (ts : Int)
    (h1 : minTick ≤ ts) (h2 : ts < maxTick) (h3 : sqrtAt ts ≤ x) (h4 : x < sqrtAt (ts + 1)) :
    tickOfSqrt 1774544 est x = ts := by
  apply C06_floor 1774544 est x ts h1 h2 h3 h4
  have := clampTick_range est
  unfold minTick maxTick tickBound at *
  omega

/-- **floor, total form**: every sqrt price in the valid range, every estimate -/
theorem C06_floor_total (est : Int) (x : Nat) (h1 : sqrtAt minTick ≤ x) (h2 : x < sqrtAt maxTick) :
    minTick ≤ tickOfSqrt 1774544 est x ∧ tickOfSqrt 1774544 est x < maxTick ∧
    sqrtAt (tickOfSqrt 1774544 est x) ≤ x ∧ x < sqrtAt (tickOfSqrt 1774544 est x + 1) := by
  obtain ⟨t, a, b, c, d⟩ := C06_floor_exists x h1 h2
  rw [C06_floor_any_estimate est x t a b c d]
  exact ⟨a, b, c, d⟩

/-! ### C06-4: nearest usable tick, end-of-range correction included -/

theorem mul_step_le (k r : Int) (sp : Nat) (h : k + 1 ≤ r) : k * (sp : Int) + sp ≤ r * sp := by
  have : (k + 1) * (sp : Int) ≤ r * sp := Int.mul_le_mul_of_nonneg_right h (Int.natCast_nonneg _)
  rw [Int.add_mul, Int.one_mul] at this
  exact this

/-- **nearest**: no multiple of the spacing inside the valid range is closer to the input than the result — whether or
    not the end-of-range correction applied. -/
theorem C06_nearest_usable_nearest (t : Int) (sp : Nat) (hsp : 0 < sp) (k : Int)
    (hk1 : minTick ≤ k * sp) (hk2 : k * sp ≤ maxTick) :
    (nearestUsable t sp - t).natAbs ≤ (k * sp - t).natAbs := by
  have hn := roundDiv_near t sp hsp
  unfold nearestUsable
  simp only []
  generalize roundDivHalfEven t sp = r at hn ⊢
  rcases Int.lt_trichotomy k r with hlt | heq | hgt
  · have s1 := mul_step_le k r sp (by omega)
    split
    · omega
    · split <;> omega
  · subst heq
    rw [if_neg (by omega), if_neg (by omega)]
  · have s1 := mul_step_le r k sp (by omega)
    split
    · omega
    · split <;> omega

/-- the result is itself such a multiple (in range) whenever the input tick is in range and the spacing is at most 887272 -/
theorem C06_nearest_usable_spec (t : Int) (sp : Nat) (hsp : 0 < sp) (hsp2 : sp ≤ 887272) (ht : minTick ≤ t ∧ t ≤ maxTick) :
    (∃ k : Int, nearestUsable t sp = k * sp) ∧ minTick ≤ nearestUsable t sp ∧ nearestUsable t sp ≤ maxTick ∧
    ∀ k : Int, minTick ≤ k * sp → k * sp ≤ maxTick → (nearestUsable t sp - t).natAbs ≤ (k * sp - t).natAbs :=
  ⟨C06_nearest_usable_multiple t sp, (C06_nearest_usable_in_range t sp hsp hsp2 ht).1,
    (C06_nearest_usable_in_range t sp hsp hsp2 ht).2, fun k a b => C06_nearest_usable_nearest t sp hsp k a b⟩

/-- within half a spacing of ±887272 for the protocol's spacings: the nearest multiple lies outside the range and the result is
    the last multiple inside it -/
theorem C06_nearest_usable_ends :
    nearestUsable 887272 10 = 887270 ∧ nearestUsable (-887272) 10 = -887270 ∧ nearestUsable 887268 10 = 887270 ∧
    nearestUsable 887272 60 = 887220 ∧ nearestUsable (-887272) 60 = -887220 ∧ nearestUsable 887251 60 = 887220 ∧
    nearestUsable (-887251) 60 = -887220 ∧ nearestUsable 887250 60 = 887220 ∧
    nearestUsable 887272 200 = 887200 ∧ nearestUsable (-887272) 200 = -887200 ∧ nearestUsable 887201 200 = 887200 := by
  decide

/-! ### C06-3: any positive `Decimal(10 ** e)` -/

/-- the 35-digit context with `Decimal(10 ** e)` given by `fac` -/
def pyGTnFac (fac : Int → Rat) : TickNum := { cx := pyGTn.cx, sq := pyGTn.sq, fac := fac, lg := pyGTn.lg }

theorem pyGTnFac_approx (fac : Int → Rat) (hfac : ∀ e, 0 < fac e) : Approx (pyGTnFac fac) EPS35 :=
  { eps_nonneg := pyGTn_approx.eps_nonneg
    eps_small := pyGTn_approx.eps_small
    rnd := pyGTn_approx.rnd
    sq := pyGTn_approx.sq
    sqrt := pyGTn_approx.sqrt
    fac_pos := hfac }

/-- the round trip through the integer-corrected conversion under 35-digit arithmetic, for every positive `Decimal(10 ** e)`
    (the theorem does not depend on how well `10 ** negative` approximates a power of ten) -/
theorem C06_inverse_x96_round35_fac (fac : Int → Rat) (hfac : ∀ e, 0 < fac e) (t : Int) (h1 : minTick ≤ t) (h2 : t ≤ maxTick)
    (d0 d1 : Nat) (q0 : Bool) (fuel : Nat) (est : Int) (hf : (clampTick est - t).natAbs + 1 ≤ fuel) :
    ∃ p r, tickToPrice (pyGTnFac fac) t d0 d1 q0 = .ok p ∧ priceToTickX96 (pyGTnFac fac) fuel est p d0 d1 q0 = .ok r ∧
      t - 1 ≤ r ∧ r ≤ t :=
  C06_inverse_x96 (pyGTnFac fac) EPS35 (pyGTnFac_approx fac hfac) t h1 h2 d0 d1 q0 fuel est hf

/-- the helpers read `fac` only at `d0 − d1` -/
theorem tickPrice_congr (tn tn' : TickNum) (hcx : tn.cx = tn'.cx) (hsq : tn.sq = tn'.sq) (hlg : tn.lg = tn'.lg)
    (d0 d1 : Nat) (hfac : tn.fac ((d0 : Int) - d1) = tn'.fac ((d0 : Int) - d1)) (q0 : Bool) :
    (∀ t, tickToPrice tn t d0 d1 q0 = tickToPrice tn' t d0 d1 q0) ∧
    (∀ fuel est p, priceToTickX96 tn fuel est p d0 d1 q0 = priceToTickX96 tn' fuel est p d0 d1 q0) ∧
    (∀ p, priceToTick tn p d0 d1 q0 = priceToTick tn' p d0 d1 q0) := by
  have e1 : ∀ x, invIf tn q0 x = invIf tn' q0 x := by intro x; unfold invIf NumCtx.div; rw [hcx]
  have e2 : ∀ p, priceToSqrt tn p d0 d1 q0 = priceToSqrt tn' p d0 d1 q0 := by
    intro p; unfold priceToSqrt NumCtx.div; rw [e1, hfac, hcx]
  have e3 : ∀ p, priceToSqrtX96 tn p d0 d1 q0 = priceToSqrtX96 tn' p d0 d1 q0 := by
    intro p; unfold priceToSqrtX96 toX96 NumCtx.mul; rw [e2, hcx]
  refine ⟨fun t => ?_, fun fuel est p => ?_, fun p => ?_⟩
  · unfold tickToPrice sqrtX96ToPrice fromX96 NumCtx.mul NumCtx.div; rw [hfac, hcx, hsq]
    simp only [e1]
  · unfold priceToTickX96; rw [e3]
  · unfold priceToTick; rw [e2, hlg]

theorem facPy_pos_of_nonneg (e : Int) (h : 0 ≤ e) : 0 < facPy e := by
  unfold facPy; rw [if_pos h]
  exact_mod_cast Nat.pow_pos (by decide)

/-- **the 35-digit round trip with CPython's own `Decimal(10 ** (d0 − d1))`** (`facPy`: exact for `d0 ≥ d1`, else the binary64
    value of libm's `10.0 ** negative`), provided that value is positive (i.e. not underflowed to 0, not `inf/nan`) -/
theorem C06_inverse_x96_round35_facPy (t : Int) (h1 : minTick ≤ t) (h2 : t ≤ maxTick)
    (d0 d1 : Nat) (hfac : 0 < facPy ((d0 : Int) - d1)) (q0 : Bool) (fuel : Nat) (est : Int)
    (hf : (clampTick est - t).natAbs + 1 ≤ fuel) :
    ∃ p r, tickToPrice (pyGTnFac facPy) t d0 d1 q0 = .ok p ∧ priceToTickX96 (pyGTnFac facPy) fuel est p d0 d1 q0 = .ok r ∧
      t - 1 ≤ r ∧ r ≤ t := by
  set fac' : Int → Rat := fun e => if e = (d0 : Int) - d1 then facPy e else 1 with hfac'
  have hpos : ∀ e, 0 < fac' e := by
    intro e; simp only [hfac']; split
    · rename_i he; rw [he]; exact hfac
    · norm_num
  obtain ⟨p, r, a, b, c, d⟩ := C06_inverse_x96_round35_fac fac' hpos t h1 h2 d0 d1 q0 fuel est hf
  obtain ⟨k1, k2, _⟩ := tickPrice_congr (pyGTnFac facPy) (pyGTnFac fac') rfl rfl rfl d0 d1
    (by show facPy _ = fac' _; simp only [hfac', if_true]) q0
  exact ⟨p, r, by rw [k1]; exact a, by rw [k2]; exact b, c, d⟩

/-- for `d0 ≥ d1` no assumption is left -/
theorem C06_inverse_x96_round35_facPy_ge (t : Int) (h1 : minTick ≤ t) (h2 : t ≤ maxTick)
    (d0 d1 : Nat) (hd : d1 ≤ d0) (q0 : Bool) (fuel : Nat) (est : Int) (hf : (clampTick est - t).natAbs + 1 ≤ fuel) :
    ∃ p r, tickToPrice (pyGTnFac facPy) t d0 d1 q0 = .ok p ∧ priceToTickX96 (pyGTnFac facPy) fuel est p d0 d1 q0 = .ok r ∧
      t - 1 ≤ r ∧ r ≤ t :=
  C06_inverse_x96_round35_facPy t h1 h2 d0 d1 (facPy_pos_of_nonneg _ (by omega)) q0 fuel est hf

/-! ### C06-1: the float-logarithm route under 35-digit arithmetic -/

/-- `base_unit_price_to_tick ∘ tick_to_base_unit_price ∈ {t − 1, t}` under the 35-digit half-even arithmetic of the model
    (rounding error proved, Proofs/Numerics.lean), given ONE assumption about libm: `math.floor(math.log(y, SQRT_1p0001))` is
    the floor logarithm of its argument perturbed by at most 10⁻⁹ relative (`LgSound`; evaluated on every observed call by
    harness/c06.py against a 60-digit reference). -/
theorem C06_inverse_log_round35 (hl : LgSound pyGTn (1 / 10 ^ 9))
    (t : Int) (h1 : minTick ≤ t) (h2 : t ≤ maxTick) (d0 d1 : Nat) (q0 : Bool) :
    ∃ p r, tickToPrice pyGTn t d0 d1 q0 = .ok p ∧ priceToTick pyGTn p d0 d1 q0 = .ok r ∧ t - 1 ≤ r ∧ r ≤ t :=
  C06_inverse_log pyGTn EPS35 pyGTn_approx (by norm_num at hl ⊢; exact hl) t h1 h2 d0 d1 q0

/-- … and with any positive `Decimal(10 ** e)` (`LgSound` mentions only `lg`, which `pyGTnFac` does not change) -/
theorem C06_inverse_log_round35_fac (fac : Int → Rat) (hfac : ∀ e, 0 < fac e) (hl : LgSound pyGTn (1 / 10 ^ 9))
    (t : Int) (h1 : minTick ≤ t) (h2 : t ≤ maxTick) (d0 d1 : Nat) (q0 : Bool) :
    ∃ p r, tickToPrice (pyGTnFac fac) t d0 d1 q0 = .ok p ∧ priceToTick (pyGTnFac fac) p d0 d1 q0 = .ok r ∧
      t - 1 ≤ r ∧ r ≤ t :=
  C06_inverse_log (pyGTnFac fac) EPS35 (pyGTnFac_approx fac hfac) (by norm_num at hl ⊢; exact hl) t h1 h2 d0 d1 q0

/-! ### non-vacuity -/
example : tickOfSqrt 1774544 887272 (sqrtAt (-887272) + 1) = -887272 :=
  C06_floor_any_estimate _ _ _ (by decide) (by decide) (by omega) (by decide +kernel)
example : ∃ k : Int, minTick ≤ k * (60 : Nat) ∧ k * (60 : Nat) ≤ maxTick := ⟨-14787, by decide, by decide⟩
example : ∀ e, 0 < (fun e : Int => (10 : Rat) ^ e) e := fun e => zpow_pos (by norm_num) e

end Demeter
