-- shard 11 of the exhaustive TickMath sweep: |tick| in [360448, 393216)
import Proofs.Lemmas.SweepN
namespace Demeter
set_option maxRecDepth 100000 in
theorem sweep_shard_11 : chkN sweepPred 360448 shardBits = true := by decide +kernel
end Demeter
