-- shard 18 of the closeness / tick-gap sweep (C06 (c), (e)): |tick| in [589824, 622592), 16 blocks of 2^11
import Proofs.Lemmas.ClosePred
namespace Demeter.TickClose
set_option maxRecDepth 100000 in
theorem close_blk_589824 : chkN closeSweepPred 589824 11 = true := by decide +kernel
set_option maxRecDepth 100000 in
theorem close_blk_591872 : chkN closeSweepPred 591872 11 = true := by decide +kernel
set_option maxRecDepth 100000 in
theorem close_blk_593920 : chkN closeSweepPred 593920 11 = true := by decide +kernel
set_option maxRecDepth 100000 in
theorem close_blk_595968 : chkN closeSweepPred 595968 11 = true := by decide +kernel
set_option maxRecDepth 100000 in
theorem close_blk_598016 : chkN closeSweepPred 598016 11 = true := by decide +kernel
set_option maxRecDepth 100000 in
theorem close_blk_600064 : chkN closeSweepPred 600064 11 = true := by decide +kernel
set_option maxRecDepth 100000 in
theorem close_blk_602112 : chkN closeSweepPred 602112 11 = true := by decide +kernel
set_option maxRecDepth 100000 in
theorem close_blk_604160 : chkN closeSweepPred 604160 11 = true := by decide +kernel
set_option maxRecDepth 100000 in
theorem close_blk_606208 : chkN closeSweepPred 606208 11 = true := by decide +kernel
set_option maxRecDepth 100000 in
theorem close_blk_608256 : chkN closeSweepPred 608256 11 = true := by decide +kernel
set_option maxRecDepth 100000 in
theorem close_blk_610304 : chkN closeSweepPred 610304 11 = true := by decide +kernel
set_option maxRecDepth 100000 in
theorem close_blk_612352 : chkN closeSweepPred 612352 11 = true := by decide +kernel
set_option maxRecDepth 100000 in
theorem close_blk_614400 : chkN closeSweepPred 614400 11 = true := by decide +kernel
set_option maxRecDepth 100000 in
theorem close_blk_616448 : chkN closeSweepPred 616448 11 = true := by decide +kernel
set_option maxRecDepth 100000 in
theorem close_blk_618496 : chkN closeSweepPred 618496 11 = true := by decide +kernel
set_option maxRecDepth 100000 in
theorem close_blk_620544 : chkN closeSweepPred 620544 11 = true := by decide +kernel
theorem close_shard_18 : chkN closeSweepPred 589824 shardBits = true :=
  (chkN_join _ 589824 14 (chkN_join _ 589824 13 (chkN_join _ 589824 12 (chkN_join _ 589824 11 close_blk_589824 close_blk_591872) (chkN_join _ 593920 11 close_blk_593920 close_blk_595968)) (chkN_join _ 598016 12 (chkN_join _ 598016 11 close_blk_598016 close_blk_600064) (chkN_join _ 602112 11 close_blk_602112 close_blk_604160))) (chkN_join _ 606208 13 (chkN_join _ 606208 12 (chkN_join _ 606208 11 close_blk_606208 close_blk_608256) (chkN_join _ 610304 11 close_blk_610304 close_blk_612352)) (chkN_join _ 614400 12 (chkN_join _ 614400 11 close_blk_614400 close_blk_616448) (chkN_join _ 618496 11 close_blk_618496 close_blk_620544))))
end Demeter.TickClose
