-- shard 18 of the closeness / tick-gap sweep (C06 (c), (e)): |tick| in [589824, 622592)
import Proofs.Lemmas.ClosePred
namespace Demeter.TickClose
set_option maxRecDepth 100000 in
theorem close_shard_18 : chkN closeSweepPred 589824 shardBits = true := by decide +kernel
end Demeter.TickClose
