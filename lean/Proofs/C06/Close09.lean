-- shard 9 of the closeness / tick-gap sweep (C06 (c), (e)): |tick| in [294912, 327680), 16 blocks of 2^11
import Proofs.Lemmas.ClosePred
namespace Demeter.TickClose
set_option maxRecDepth 100000 in
theorem close_blk_294912 : chkN closeSweepPred 294912 11 = true := by decide +kernel
set_option maxRecDepth 100000 in
theorem close_blk_296960 : chkN closeSweepPred 296960 11 = true := by decide +kernel
set_option maxRecDepth 100000 in
theorem close_blk_299008 : chkN closeSweepPred 299008 11 = true := by decide +kernel
set_option maxRecDepth 100000 in
theorem close_blk_301056 : chkN closeSweepPred 301056 11 = true := by decide +kernel
set_option maxRecDepth 100000 in
theorem close_blk_303104 : chkN closeSweepPred 303104 11 = true := by decide +kernel
set_option maxRecDepth 100000 in
theorem close_blk_305152 : chkN closeSweepPred 305152 11 = true := by decide +kernel
set_option maxRecDepth 100000 in
theorem close_blk_307200 : chkN closeSweepPred 307200 11 = true := by decide +kernel
set_option maxRecDepth 100000 in
theorem close_blk_309248 : chkN closeSweepPred 309248 11 = true := by decide +kernel
set_option maxRecDepth 100000 in
theorem close_blk_311296 : chkN closeSweepPred 311296 11 = true := by decide +kernel
set_option maxRecDepth 100000 in
theorem close_blk_313344 : chkN closeSweepPred 313344 11 = true := by decide +kernel
set_option maxRecDepth 100000 in
theorem close_blk_315392 : chkN closeSweepPred 315392 11 = true := by decide +kernel
set_option maxRecDepth 100000 in
theorem close_blk_317440 : chkN closeSweepPred 317440 11 = true := by decide +kernel
set_option maxRecDepth 100000 in
theorem close_blk_319488 : chkN closeSweepPred 319488 11 = true := by decide +kernel
set_option maxRecDepth 100000 in
theorem close_blk_321536 : chkN closeSweepPred 321536 11 = true := by decide +kernel
set_option maxRecDepth 100000 in
theorem close_blk_323584 : chkN closeSweepPred 323584 11 = true := by decide +kernel
set_option maxRecDepth 100000 in
theorem close_blk_325632 : chkN closeSweepPred 325632 11 = true := by decide +kernel
theorem close_shard_09 : chkN closeSweepPred 294912 shardBits = true :=
  (chkN_join _ 294912 14 (chkN_join _ 294912 13 (chkN_join _ 294912 12 (chkN_join _ 294912 11 close_blk_294912 close_blk_296960) (chkN_join _ 299008 11 close_blk_299008 close_blk_301056)) (chkN_join _ 303104 12 (chkN_join _ 303104 11 close_blk_303104 close_blk_305152) (chkN_join _ 307200 11 close_blk_307200 close_blk_309248))) (chkN_join _ 311296 13 (chkN_join _ 311296 12 (chkN_join _ 311296 11 close_blk_311296 close_blk_313344) (chkN_join _ 315392 11 close_blk_315392 close_blk_317440)) (chkN_join _ 319488 12 (chkN_join _ 319488 11 close_blk_319488 close_blk_321536) (chkN_join _ 323584 11 close_blk_323584 close_blk_325632))))
end Demeter.TickClose
