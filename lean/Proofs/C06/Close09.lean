-- shard 9 of the closeness / tick-gap sweep (C06 (c), (e)): |tick| in [294912, 327680)
import Proofs.Lemmas.ClosePred
namespace Demeter.TickClose
set_option maxRecDepth 100000 in
theorem close_shard_09 : chkN closeSweepPred 294912 shardBits = true := by decide +kernel
end Demeter.TickClose
