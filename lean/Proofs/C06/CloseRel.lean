/-
  C06 (c), relative form — `C06_close_rel`: on the whole tick range `(sqrtAt t / 2^96)²` is within `(1 ± 2⁻³⁰)²` of
  `1.0001^t` (rational statement with an integer power of 10001/10000).  Derived from the integer closeness theorems
  C06_close_nonpos / C06_close_pos of Proofs/C06/Close.lean; used by the float-logarithm route of C06 (e).
-/
import Proofs.C06.Close
import Proofs.Lemmas.TickInv
import Mathlib.Tactic.Linarith
import Mathlib.Tactic.Positivity
import Mathlib.Tactic.Ring
import Mathlib.Tactic.NormNum
import Mathlib.Tactic.FieldSimp
import Mathlib.Algebra.Order.Field.Rat
import Mathlib.Data.Rat.Cast.Order
namespace Demeter
open Gen TickClose

namespace TickInv

theorem pow_bound_nat : 10001 ^ 887272 ≤ 2 ^ 129 * 10000 ^ 887272 := by decide +kernel

/-- `1.0001^a ≤ 2^129` on the tick range -/
theorem rho_pow_le (a : Nat) (h : a ≤ 887272) : rho ^ a ≤ 2 ^ 129 := by
  have h1 : rho ^ a ≤ rho ^ 887272 := pow_le_pow_right₀ (le_of_lt one_lt_rho) h
  have h2 : ((10001 ^ 887272 : Nat) : Rat) ≤ ((2 ^ 129 * 10000 ^ 887272 : Nat) : Rat) := by
    exact_mod_cast pow_bound_nat
  have h3 : rho ^ 887272 ≤ 2 ^ 129 := by
    unfold rho
    rw [div_pow, div_le_iff₀ (by positivity)]
    push_cast at h2
    exact h2
  exact le_trans h1 h3

end TickInv
open TickInv

/-- **relative closeness** on the whole range: `(S·(1−2⁻³⁰))² ≤ 1.0001^t ≤ (S·(1+2⁻³⁰))²`, `S = sqrtAt t / 2^96`. -/
theorem C06_close_rel (t : Int) (h1 : minTick ≤ t) (h2 : t ≤ maxTick) :
    ((sqrtAt t : Rat) / 2 ^ 96 * (1 - 1 / 2 ^ 30)) ^ 2 ≤ rho ^ t ∧
    rho ^ t ≤ ((sqrtAt t : Rat) / 2 ^ 96 * (1 + 1 / 2 ^ 30)) ^ 2 := by
  have hmin := sqrtAt_ge_min t h1 h2
  unfold minTick tickBound at h1
  unfold maxTick tickBound at h2
  have hsq : (4295128739 : Rat) ≤ (sqrtAt t : Rat) := by exact_mod_cast hmin
  by_cases hneg : t ≤ 0
  · obtain ⟨a, ha⟩ : ∃ a : Nat, t = -(a : Int) := ⟨(-t).toNat, by omega⟩
    subst ha
    obtain ⟨c0, c1, c2⟩ := C06_close_nonpos a (by omega)
    set s := sqrtAt (-(a : Int)) with hs
    have hP : (0 : Rat) < (10001 : Rat) ^ a := by positivity
    have hQ : (0 : Rat) < (10000 : Rat) ^ a := by positivity
    have e : rho ^ (-(a : Int)) = (10000 : Rat) ^ a / (10001 : Rat) ^ a := by
      rw [zpow_neg, zpow_natCast]; unfold rho; rw [div_pow, inv_div]
    have c1q : (((s - 1 : Nat) : Rat)) ^ 2 * (10001 : Rat) ^ a < 2 ^ 192 * (10000 : Rat) ^ a := by exact_mod_cast c1
    have c2q : (2 : Rat) ^ 192 * (10000 : Rat) ^ a < ((s : Rat) + 1) ^ 2 * (10001 : Rat) ^ a := by exact_mod_cast c2
    have es1 : (((s - 1 : Nat) : Rat)) = (s : Rat) - 1 := by rw [Nat.cast_sub c0]; simp
    rw [es1] at c1q
    rw [e]
    constructor
    · rw [le_div_iff₀ hP]
      have hle : (s : Rat) / 2 ^ 96 * (1 - 1 / 2 ^ 30) ≤ ((s : Rat) - 1) / 2 ^ 96 := by
        rw [div_mul_eq_mul_div, div_le_div_iff_of_pos_right (by positivity)]
        have : (s : Rat) * (1 / 2 ^ 30) ≥ 1 := by
          have : (2 : Rat) ^ 30 ≤ (s : Rat) := le_trans (by norm_num) hsq
          rw [mul_one_div, ge_iff_le, le_div_iff₀ (by positivity)]; linarith
        linarith
      have h0 : (0 : Rat) ≤ (s : Rat) / 2 ^ 96 * (1 - 1 / 2 ^ 30) := by
        apply mul_nonneg (by positivity); norm_num
      have hsq' : ((s : Rat) / 2 ^ 96 * (1 - 1 / 2 ^ 30)) ^ 2 ≤ (((s : Rat) - 1) / 2 ^ 96) ^ 2 :=
        pow_le_pow_left₀ h0 hle 2
      have : (((s : Rat) - 1) / 2 ^ 96) ^ 2 * (10001 : Rat) ^ a ≤ (10000 : Rat) ^ a := by
        rw [div_pow, div_mul_eq_mul_div, div_le_iff₀ (by positivity)]
        have e192 : ((2 : Rat) ^ 96) ^ 2 = 2 ^ 192 := by rw [← pow_mul]
        rw [e192]; linarith
      exact le_trans (mul_le_mul_of_nonneg_right hsq' (le_of_lt hP)) this
    · rw [div_le_iff₀ hP]
      have hle : ((s : Rat) + 1) / 2 ^ 96 ≤ (s : Rat) / 2 ^ 96 * (1 + 1 / 2 ^ 30) := by
        rw [div_mul_eq_mul_div, div_le_div_iff_of_pos_right (by positivity)]
        have : (s : Rat) * (1 / 2 ^ 30) ≥ 1 := by
          have : (2 : Rat) ^ 30 ≤ (s : Rat) := le_trans (by norm_num) hsq
          rw [mul_one_div, ge_iff_le, le_div_iff₀ (by positivity)]; linarith
        linarith
      have hsq' : (((s : Rat) + 1) / 2 ^ 96) ^ 2 ≤ ((s : Rat) / 2 ^ 96 * (1 + 1 / 2 ^ 30)) ^ 2 :=
        pow_le_pow_left₀ (by positivity) hle 2
      have : (10000 : Rat) ^ a ≤ (((s : Rat) + 1) / 2 ^ 96) ^ 2 * (10001 : Rat) ^ a := by
        rw [div_pow, div_mul_eq_mul_div, le_div_iff₀ (by positivity)]
        have e192 : ((2 : Rat) ^ 96) ^ 2 = 2 ^ 192 := by rw [← pow_mul]
        rw [e192]; linarith
      exact le_trans this (mul_le_mul_of_nonneg_right hsq' (le_of_lt hP))
  · obtain ⟨a, ha⟩ : ∃ a : Nat, t = (a : Int) := ⟨t.toNat, by omega⟩
    subst ha
    have ha0 : 0 < a := by omega
    obtain ⟨g0, g1, g2⟩ := C06_close_pos a ha0 (by omega)
    set s := sqrtAt (a : Int) with hs
    -- s ≥ 2^96 on non-negative ticks
    have hs96 : (2 : Rat) ^ 96 ≤ (s : Rat) := by
      have := mono_le' C06_strict_mono 0 (a : Int) (by unfold minTick tickBound; omega) (by omega)
        (by unfold maxTick tickBound; omega)
      rw [C06_boundary_zero] at this
      exact_mod_cast this
    have hP : (0 : Rat) < (10001 : Rat) ^ a := by positivity
    have hQ : (0 : Rat) < (10000 : Rat) ^ a := by positivity
    have e : rho ^ ((a : Nat) : Int) = (10001 : Rat) ^ a / (10000 : Rat) ^ a := by
      rw [zpow_natCast]; unfold rho; rw [div_pow]
    have hR129 : (10001 : Rat) ^ a / (10000 : Rat) ^ a ≤ 2 ^ 129 := by
      have := rho_pow_le a (by omega)
      unfold rho at this; rwa [div_pow] at this
    rw [e]
    set R : Rat := (10001 : Rat) ^ a / (10000 : Rat) ^ a with hR
    have hRpos : 0 < R := by positivity
    set β : Rat := R / 2 ^ 29 with hβ
    have hβpos : 0 < β := by positivity
    -- the three facts in ℚ, divided by (2^29·qa)
    have hD : (0 : Rat) < 2 ^ 29 * (10000 : Rat) ^ a := by positivity
    have g0q : (10001 : Rat) ^ a + 2 ^ 29 * (10000 : Rat) ^ a ≤ (s : Rat) * 2 ^ 29 * (10000 : Rat) ^ a := by
      exact_mod_cast g0
    have f0 : β ≤ (s : Rat) - 1 := by
      rw [hβ, hR, div_div, div_le_iff₀ (by positivity)]
      have : ((s : Rat) - 1) * ((10000 : Rat) ^ a * 2 ^ 29) = (s : Rat) * 2 ^ 29 * (10000 : Rat) ^ a - 2 ^ 29 * (10000 : Rat) ^ a := by ring
      rw [this]; linarith
    have eβD : β * (2 ^ 29 * (10000 : Rat) ^ a) = (10001 : Rat) ^ a := by
      rw [hβ, hR]; field_simp
    have g1q : (((s : Rat) - 1 - β) * (2 ^ 29 * (10000 : Rat) ^ a)) ^ 2 < 2 ^ 250 * (10001 : Rat) ^ a * (10000 : Rat) ^ a := by
      have hsub : ((s * 2 ^ 29 * 10000 ^ a - 2 ^ 29 * 10000 ^ a - 10001 ^ a : Nat) : Rat)
          = ((s : Rat) - 1 - β) * (2 ^ 29 * (10000 : Rat) ^ a) := by
        have i1 : 2 ^ 29 * 10000 ^ a ≤ s * 2 ^ 29 * 10000 ^ a := Nat.le_trans (Nat.le_add_left _ _) g0
        have i2 : 10001 ^ a ≤ s * 2 ^ 29 * 10000 ^ a - 2 ^ 29 * 10000 ^ a := Nat.le_sub_of_add_le g0
        rw [Nat.cast_sub i2, Nat.cast_sub i1]
        push_cast
        rw [sub_mul, sub_mul, eβD]; ring
      have := g1
      have hc : (((s * 2 ^ 29 * 10000 ^ a - 2 ^ 29 * 10000 ^ a - 10001 ^ a : Nat) : Rat)) ^ 2
          < ((2 ^ 250 * 10001 ^ a * 10000 ^ a : Nat) : Rat) := by exact_mod_cast this
      rw [hsub] at hc
      push_cast at hc
      exact hc
    have g2q : (2 : Rat) ^ 250 * (10001 : Rat) ^ a * (10000 : Rat) ^ a < (((s : Rat) + 1 + β) * (2 ^ 29 * (10000 : Rat) ^ a)) ^ 2 := by
      have hc : ((2 ^ 250 * 10001 ^ a * 10000 ^ a : Nat) : Rat)
          < (((s * 2 ^ 29 * 10000 ^ a + 2 ^ 29 * 10000 ^ a + 10001 ^ a : Nat) : Rat)) ^ 2 := by
        exact_mod_cast g2
      push_cast at hc
      have : ((s : Rat) + 1 + β) * (2 ^ 29 * (10000 : Rat) ^ a)
          = (s : Rat) * 2 ^ 29 * (10000 : Rat) ^ a + 2 ^ 29 * (10000 : Rat) ^ a + (10001 : Rat) ^ a := by
        rw [add_mul, add_mul, eβD]; ring
      rw [this]; exact hc
    -- I² = 2^192·R = 2^221·β
    have eI : (2 : Rat) ^ 250 * (10001 : Rat) ^ a * (10000 : Rat) ^ a = 2 ^ 192 * R * (2 ^ 29 * (10000 : Rat) ^ a) ^ 2 := by
      rw [hR]; field_simp
    have f1 : ((s : Rat) - 1 - β) ^ 2 < 2 ^ 192 * R := by
      rw [mul_pow, eI] at g1q
      exact lt_of_mul_lt_mul_right g1q (by positivity)
    have f2 : 2 ^ 192 * R < ((s : Rat) + 1 + β) ^ 2 := by
      rw [mul_pow, eI] at g2q
      exact lt_of_mul_lt_mul_right g2q (by positivity)
    have eIβ : (2 : Rat) ^ 192 * R = 2 ^ 221 * β := by rw [hβ]; field_simp
    -- step A: β ≤ s / 2^58
    have hβ100 : β ≤ 2 ^ 100 := by
      rw [hβ, div_le_iff₀ (by positivity)]
      calc R ≤ 2 ^ 129 := hR129
        _ = 2 ^ 100 * 2 ^ 29 := by norm_num
    have fA : β * 2 ^ 58 ≤ (s : Rat) := by
      by_contra hcon
      have hcon : (s : Rat) < β * 2 ^ 58 := lt_of_not_ge hcon
      have hb1 : (1 : Rat) ≤ β := by
        have : (2 : Rat) ^ 96 < β * 2 ^ 58 := lt_of_le_of_lt hs96 hcon
        have : (2 : Rat) ^ 38 * 2 ^ 58 < β * 2 ^ 58 := by
          calc (2 : Rat) ^ 38 * 2 ^ 58 = 2 ^ 96 := by norm_num
            _ < β * 2 ^ 58 := this
        have := lt_of_mul_lt_mul_right this (by positivity)
        linarith [show (1 : Rat) ≤ 2 ^ 38 by norm_num]
      have hb2 : (s : Rat) + 1 + β ≤ β * 2 ^ 59 := by
        have : β * 2 ^ 59 = β * 2 ^ 58 + β * 2 ^ 58 := by ring
        have : (2 : Rat) * β ≤ β * 2 ^ 58 := by nlinarith [show (2 : Rat) ≤ 2 ^ 58 by norm_num]
        linarith
      have hb3 : ((s : Rat) + 1 + β) ^ 2 ≤ (β * 2 ^ 59) ^ 2 := pow_le_pow_left₀ (by positivity) hb2 2
      have hb4 : (2 : Rat) ^ 221 * β < (β * 2 ^ 59) ^ 2 := by rw [← eIβ]; exact lt_of_lt_of_le f2 hb3
      have hb5 : (2 : Rat) ^ 221 * β < β * (β * 2 ^ 118) := by
        calc (2 : Rat) ^ 221 * β < (β * 2 ^ 59) ^ 2 := hb4
          _ = β * (β * 2 ^ 118) := by ring
      have hb6 : (2 : Rat) ^ 221 < β * 2 ^ 118 := by
        have : β * 2 ^ 221 < β * (β * 2 ^ 118) := by linarith
        exact lt_of_mul_lt_mul_left this (le_of_lt hβpos)
      have : β * 2 ^ 118 ≤ 2 ^ 100 * 2 ^ 118 := mul_le_mul_of_nonneg_right hβ100 (by positivity)
      have : (2 : Rat) ^ 100 * 2 ^ 118 = 2 ^ 218 := by norm_num
      have : (2 : Rat) ^ 218 < 2 ^ 221 := by norm_num
      linarith
    have hspos : (0 : Rat) < (s : Rat) := by linarith
    -- step B
    have hk : (1 : Rat) + β ≤ (s : Rat) * (1 / 2 ^ 30) := by
      have a1 : (1 : Rat) ≤ (s : Rat) * (1 / 2 ^ 96) := by
        rw [mul_one_div, le_div_iff₀ (by positivity)]; linarith
      have a2 : β ≤ (s : Rat) * (1 / 2 ^ 58) := by
        rw [mul_one_div, le_div_iff₀ (by positivity)]; exact fA
      have a3 : (s : Rat) * (1 / 2 ^ 96) + (s : Rat) * (1 / 2 ^ 58) ≤ (s : Rat) * (1 / 2 ^ 30) := by
        rw [← mul_add]
        exact mul_le_mul_of_nonneg_left (by norm_num) (le_of_lt hspos)
      linarith
    have e192 : ((2 : Rat) ^ 96) ^ 2 = 2 ^ 192 := by rw [← pow_mul]
    constructor
    · -- (S(1−κ))² ≤ R  ⟸  (s(1−κ))² ≤ (s−1−β)² < 2^192 R
      have hle : (s : Rat) * (1 - 1 / 2 ^ 30) ≤ (s : Rat) - 1 - β := by linarith
      have h0 : (0 : Rat) ≤ (s : Rat) * (1 - 1 / 2 ^ 30) := mul_nonneg (le_of_lt hspos) (by norm_num)
      have : ((s : Rat) * (1 - 1 / 2 ^ 30)) ^ 2 ≤ 2 ^ 192 * R :=
        le_trans (pow_le_pow_left₀ h0 hle 2) (le_of_lt f1)
      calc ((s : Rat) / 2 ^ 96 * (1 - 1 / 2 ^ 30)) ^ 2 = ((s : Rat) * (1 - 1 / 2 ^ 30)) ^ 2 / 2 ^ 192 := by
            rw [div_mul_eq_mul_div, div_pow, e192]
        _ ≤ R := by rw [div_le_iff₀ (by positivity)]; linarith
    · have hle : (s : Rat) + 1 + β ≤ (s : Rat) * (1 + 1 / 2 ^ 30) := by linarith
      have : 2 ^ 192 * R ≤ ((s : Rat) * (1 + 1 / 2 ^ 30)) ^ 2 :=
        le_trans (le_of_lt f2) (pow_le_pow_left₀ (by positivity) hle 2)
      calc R ≤ ((s : Rat) * (1 + 1 / 2 ^ 30)) ^ 2 / 2 ^ 192 := by rw [le_div_iff₀ (by positivity)]; linarith
        _ = ((s : Rat) / 2 ^ 96 * (1 + 1 / 2 ^ 30)) ^ 2 := by
            rw [div_mul_eq_mul_div, div_pow, e192]

end Demeter
