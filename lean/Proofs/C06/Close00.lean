-- shard 0 of the closeness / tick-gap sweep (C06 (c), (e)): |tick| in [0, 32768), 16 blocks of 2^11
import Proofs.Lemmas.ClosePred
namespace Demeter.TickClose
set_option maxRecDepth 100000 in
theorem close_blk_0 : chkN closeSweepPred 0 11 = true := by decide +kernel
set_option maxRecDepth 100000 in
theorem close_blk_2048 : chkN closeSweepPred 2048 11 = true := by decide +kernel
set_option maxRecDepth 100000 in
theorem close_blk_4096 : chkN closeSweepPred 4096 11 = true := by decide +kernel
set_option maxRecDepth 100000 in
theorem close_blk_6144 : chkN closeSweepPred 6144 11 = true := by decide +kernel
set_option maxRecDepth 100000 in
theorem close_blk_8192 : chkN closeSweepPred 8192 11 = true := by decide +kernel
set_option maxRecDepth 100000 in
theorem close_blk_10240 : chkN closeSweepPred 10240 11 = true := by decide +kernel
set_option maxRecDepth 100000 in
theorem close_blk_12288 : chkN closeSweepPred 12288 11 = true := by decide +kernel
set_option maxRecDepth 100000 in
theorem close_blk_14336 : chkN closeSweepPred 14336 11 = true := by decide +kernel
set_option maxRecDepth 100000 in
theorem close_blk_16384 : chkN closeSweepPred 16384 11 = true := by decide +kernel
set_option maxRecDepth 100000 in
theorem close_blk_18432 : chkN closeSweepPred 18432 11 = true := by decide +kernel
set_option maxRecDepth 100000 in
theorem close_blk_20480 : chkN closeSweepPred 20480 11 = true := by decide +kernel
set_option maxRecDepth 100000 in
theorem close_blk_22528 : chkN closeSweepPred 22528 11 = true := by decide +kernel
set_option maxRecDepth 100000 in
theorem close_blk_24576 : chkN closeSweepPred 24576 11 = true := by decide +kernel
set_option maxRecDepth 100000 in
theorem close_blk_26624 : chkN closeSweepPred 26624 11 = true := by decide +kernel
set_option maxRecDepth 100000 in
theorem close_blk_28672 : chkN closeSweepPred 28672 11 = true := by decide +kernel
set_option maxRecDepth 100000 in
theorem close_blk_30720 : chkN closeSweepPred 30720 11 = true := by decide +kernel
theorem close_shard_00 : chkN closeSweepPred 0 shardBits = true :=
  (chkN_join _ 0 14 (chkN_join _ 0 13 (chkN_join _ 0 12 (chkN_join _ 0 11 close_blk_0 close_blk_2048) (chkN_join _ 4096 11 close_blk_4096 close_blk_6144)) (chkN_join _ 8192 12 (chkN_join _ 8192 11 close_blk_8192 close_blk_10240) (chkN_join _ 12288 11 close_blk_12288 close_blk_14336))) (chkN_join _ 16384 13 (chkN_join _ 16384 12 (chkN_join _ 16384 11 close_blk_16384 close_blk_18432) (chkN_join _ 20480 11 close_blk_20480 close_blk_22528)) (chkN_join _ 24576 12 (chkN_join _ 24576 11 close_blk_24576 close_blk_26624) (chkN_join _ 28672 11 close_blk_28672 close_blk_30720))))
end Demeter.TickClose
