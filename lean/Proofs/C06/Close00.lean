-- shard 0 of the closeness / tick-gap sweep (C06 (c), (e)): |tick| in [0, 32768)
import Proofs.Lemmas.ClosePred
namespace Demeter.TickClose
set_option maxRecDepth 100000 in
theorem close_shard_00 : chkN closeSweepPred 0 shardBits = true := by decide +kernel
end Demeter.TickClose
