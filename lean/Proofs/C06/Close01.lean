-- shard 1 of the closeness / tick-gap sweep (C06 (c), (e)): |tick| in [32768, 65536), 16 blocks of 2^11
import Proofs.Lemmas.ClosePred
namespace Demeter.TickClose
set_option maxRecDepth 100000 in
theorem close_blk_32768 : chkN closeSweepPred 32768 11 = true := by decide +kernel
set_option maxRecDepth 100000 in
theorem close_blk_34816 : chkN closeSweepPred 34816 11 = true := by decide +kernel
set_option maxRecDepth 100000 in
theorem close_blk_36864 : chkN closeSweepPred 36864 11 = true := by decide +kernel
set_option maxRecDepth 100000 in
theorem close_blk_38912 : chkN closeSweepPred 38912 11 = true := by decide +kernel
set_option maxRecDepth 100000 in
theorem close_blk_40960 : chkN closeSweepPred 40960 11 = true := by decide +kernel
set_option maxRecDepth 100000 in
theorem close_blk_43008 : chkN closeSweepPred 43008 11 = true := by decide +kernel
set_option maxRecDepth 100000 in
theorem close_blk_45056 : chkN closeSweepPred 45056 11 = true := by decide +kernel
set_option maxRecDepth 100000 in
theorem close_blk_47104 : chkN closeSweepPred 47104 11 = true := by decide +kernel
set_option maxRecDepth 100000 in
theorem close_blk_49152 : chkN closeSweepPred 49152 11 = true := by decide +kernel
set_option maxRecDepth 100000 in
theorem close_blk_51200 : chkN closeSweepPred 51200 11 = true := by decide +kernel
set_option maxRecDepth 100000 in
theorem close_blk_53248 : chkN closeSweepPred 53248 11 = true := by decide +kernel
set_option maxRecDepth 100000 in
theorem close_blk_55296 : chkN closeSweepPred 55296 11 = true := by decide +kernel
set_option maxRecDepth 100000 in
theorem close_blk_57344 : chkN closeSweepPred 57344 11 = true := by decide +kernel
set_option maxRecDepth 100000 in
theorem close_blk_59392 : chkN closeSweepPred 59392 11 = true := by decide +kernel
set_option maxRecDepth 100000 in
theorem close_blk_61440 : chkN closeSweepPred 61440 11 = true := by decide +kernel
set_option maxRecDepth 100000 in
theorem close_blk_63488 : chkN closeSweepPred 63488 11 = true := by decide +kernel
theorem close_shard_01 : chkN closeSweepPred 32768 shardBits = true :=
  (chkN_join _ 32768 14 (chkN_join _ 32768 13 (chkN_join _ 32768 12 (chkN_join _ 32768 11 close_blk_32768 close_blk_34816) (chkN_join _ 36864 11 close_blk_36864 close_blk_38912)) (chkN_join _ 40960 12 (chkN_join _ 40960 11 close_blk_40960 close_blk_43008) (chkN_join _ 45056 11 close_blk_45056 close_blk_47104))) (chkN_join _ 49152 13 (chkN_join _ 49152 12 (chkN_join _ 49152 11 close_blk_49152 close_blk_51200) (chkN_join _ 53248 11 close_blk_53248 close_blk_55296)) (chkN_join _ 57344 12 (chkN_join _ 57344 11 close_blk_57344 close_blk_59392) (chkN_join _ 61440 11 close_blk_61440 close_blk_63488))))
end Demeter.TickClose
