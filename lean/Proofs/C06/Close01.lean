-- shard 1 of the closeness / tick-gap sweep (C06 (c), (e)): |tick| in [32768, 65536)
import Proofs.Lemmas.ClosePred
namespace Demeter.TickClose
set_option maxRecDepth 100000 in
theorem close_shard_01 : chkN closeSweepPred 32768 shardBits = true := by decide +kernel
end Demeter.TickClose
