-- shard 3 of the closeness / tick-gap sweep (C06 (c), (e)): |tick| in [98304, 131072), 16 blocks of 2^11
import Proofs.Lemmas.ClosePred
namespace Demeter.TickClose
set_option maxRecDepth 100000 in
theorem close_blk_98304 : chkN closeSweepPred 98304 11 = true := by decide +kernel
set_option maxRecDepth 100000 in
theorem close_blk_100352 : chkN closeSweepPred 100352 11 = true := by decide +kernel
set_option maxRecDepth 100000 in
theorem close_blk_102400 : chkN closeSweepPred 102400 11 = true := by decide +kernel
set_option maxRecDepth 100000 in
theorem close_blk_104448 : chkN closeSweepPred 104448 11 = true := by decide +kernel
set_option maxRecDepth 100000 in
theorem close_blk_106496 : chkN closeSweepPred 106496 11 = true := by decide +kernel
set_option maxRecDepth 100000 in
theorem close_blk_108544 : chkN closeSweepPred 108544 11 = true := by decide +kernel
set_option maxRecDepth 100000 in
theorem close_blk_110592 : chkN closeSweepPred 110592 11 = true := by decide +kernel
set_option maxRecDepth 100000 in
theorem close_blk_112640 : chkN closeSweepPred 112640 11 = true := by decide +kernel
set_option maxRecDepth 100000 in
theorem close_blk_114688 : chkN closeSweepPred 114688 11 = true := by decide +kernel
set_option maxRecDepth 100000 in
theorem close_blk_116736 : chkN closeSweepPred 116736 11 = true := by decide +kernel
set_option maxRecDepth 100000 in
theorem close_blk_118784 : chkN closeSweepPred 118784 11 = true := by decide +kernel
set_option maxRecDepth 100000 in
theorem close_blk_120832 : chkN closeSweepPred 120832 11 = true := by decide +kernel
set_option maxRecDepth 100000 in
theorem close_blk_122880 : chkN closeSweepPred 122880 11 = true := by decide +kernel
set_option maxRecDepth 100000 in
theorem close_blk_124928 : chkN closeSweepPred 124928 11 = true := by decide +kernel
set_option maxRecDepth 100000 in
theorem close_blk_126976 : chkN closeSweepPred 126976 11 = true := by decide +kernel
set_option maxRecDepth 100000 in
theorem close_blk_129024 : chkN closeSweepPred 129024 11 = true := by decide +kernel
theorem close_shard_03 : chkN closeSweepPred 98304 shardBits = true :=
  (chkN_join _ 98304 14 (chkN_join _ 98304 13 (chkN_join _ 98304 12 (chkN_join _ 98304 11 close_blk_98304 close_blk_100352) (chkN_join _ 102400 11 close_blk_102400 close_blk_104448)) (chkN_join _ 106496 12 (chkN_join _ 106496 11 close_blk_106496 close_blk_108544) (chkN_join _ 110592 11 close_blk_110592 close_blk_112640))) (chkN_join _ 114688 13 (chkN_join _ 114688 12 (chkN_join _ 114688 11 close_blk_114688 close_blk_116736) (chkN_join _ 118784 11 close_blk_118784 close_blk_120832)) (chkN_join _ 122880 12 (chkN_join _ 122880 11 close_blk_122880 close_blk_124928) (chkN_join _ 126976 11 close_blk_126976 close_blk_129024))))
end Demeter.TickClose
