-- shard 3 of the closeness / tick-gap sweep (C06 (c), (e)): |tick| in [98304, 131072)
import Proofs.Lemmas.ClosePred
namespace Demeter.TickClose
set_option maxRecDepth 100000 in
theorem close_shard_03 : chkN closeSweepPred 98304 shardBits = true := by decide +kernel
end Demeter.TickClose
