/-
  All shards together: `sweepPred a` holds for every a < 28·2^15 = 917504 (> 887272).
-/
import Proofs.C06.Sweep00
import Proofs.C06.Sweep01
import Proofs.C06.Sweep02
import Proofs.C06.Sweep03
import Proofs.C06.Sweep04
import Proofs.C06.Sweep05
import Proofs.C06.Sweep06
import Proofs.C06.Sweep07
import Proofs.C06.Sweep08
import Proofs.C06.Sweep09
import Proofs.C06.Sweep10
import Proofs.C06.Sweep11
import Proofs.C06.Sweep12
import Proofs.C06.Sweep13
import Proofs.C06.Sweep14
import Proofs.C06.Sweep15
import Proofs.C06.Sweep16
import Proofs.C06.Sweep17
import Proofs.C06.Sweep18
import Proofs.C06.Sweep19
import Proofs.C06.Sweep20
import Proofs.C06.Sweep21
import Proofs.C06.Sweep22
import Proofs.C06.Sweep23
import Proofs.C06.Sweep24
import Proofs.C06.Sweep25
import Proofs.C06.Sweep26
import Proofs.C06.Sweep27
namespace Demeter

theorem sweep_all (a : Nat) (h : a < 917504) : sweepPred a = true := by
  have hk : a / 32768 < 28 := by omega
  have hlo : (a / 32768) * 32768 ≤ a := Nat.div_mul_le_self a 32768
  have hhi : a < (a / 32768) * 32768 + 2 ^ 15 := by
    have := Nat.lt_div_mul_add (a := a) (b := 32768) (by decide)
    omega
  have key : ∀ k, k < 28 → chkN sweepPred (k * 32768) 15 = true := by
    intro k hk
    match k, hk with
    | 0, _ => exact sweep_shard_00
    | 1, _ => exact sweep_shard_01
    | 2, _ => exact sweep_shard_02
    | 3, _ => exact sweep_shard_03
    | 4, _ => exact sweep_shard_04
    | 5, _ => exact sweep_shard_05
    | 6, _ => exact sweep_shard_06
    | 7, _ => exact sweep_shard_07
    | 8, _ => exact sweep_shard_08
    | 9, _ => exact sweep_shard_09
    | 10, _ => exact sweep_shard_10
    | 11, _ => exact sweep_shard_11
    | 12, _ => exact sweep_shard_12
    | 13, _ => exact sweep_shard_13
    | 14, _ => exact sweep_shard_14
    | 15, _ => exact sweep_shard_15
    | 16, _ => exact sweep_shard_16
    | 17, _ => exact sweep_shard_17
    | 18, _ => exact sweep_shard_18
    | 19, _ => exact sweep_shard_19
    | 20, _ => exact sweep_shard_20
    | 21, _ => exact sweep_shard_21
    | 22, _ => exact sweep_shard_22
    | 23, _ => exact sweep_shard_23
    | 24, _ => exact sweep_shard_24
    | 25, _ => exact sweep_shard_25
    | 26, _ => exact sweep_shard_26
    | 27, _ => exact sweep_shard_27
    | k + 28, hk => exact absurd hk (by omega)
  exact chkN_sound sweepPred 15 _ (key _ hk) a hlo hhi

end Demeter
