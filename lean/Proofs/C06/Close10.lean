-- shard 10 of the closeness / tick-gap sweep (C06 (c), (e)): |tick| in [327680, 360448), 16 blocks of 2^11
import Proofs.Lemmas.ClosePred
namespace Demeter.TickClose
set_option maxRecDepth 100000 in
theorem close_blk_327680 : chkN closeSweepPred 327680 11 = true := by decide +kernel
set_option maxRecDepth 100000 in
theorem close_blk_329728 : chkN closeSweepPred 329728 11 = true := by decide +kernel
set_option maxRecDepth 100000 in
theorem close_blk_331776 : chkN closeSweepPred 331776 11 = true := by decide +kernel
set_option maxRecDepth 100000 in
theorem close_blk_333824 : chkN closeSweepPred 333824 11 = true := by decide +kernel
set_option maxRecDepth 100000 in
theorem close_blk_335872 : chkN closeSweepPred 335872 11 = true := by decide +kernel
set_option maxRecDepth 100000 in
theorem close_blk_337920 : chkN closeSweepPred 337920 11 = true := by decide +kernel
set_option maxRecDepth 100000 in
theorem close_blk_339968 : chkN closeSweepPred 339968 11 = true := by decide +kernel
set_option maxRecDepth 100000 in
theorem close_blk_342016 : chkN closeSweepPred 342016 11 = true := by decide +kernel
set_option maxRecDepth 100000 in
theorem close_blk_344064 : chkN closeSweepPred 344064 11 = true := by decide +kernel
set_option maxRecDepth 100000 in
theorem close_blk_346112 : chkN closeSweepPred 346112 11 = true := by decide +kernel
set_option maxRecDepth 100000 in
theorem close_blk_348160 : chkN closeSweepPred 348160 11 = true := by decide +kernel
set_option maxRecDepth 100000 in
theorem close_blk_350208 : chkN closeSweepPred 350208 11 = true := by decide +kernel
set_option maxRecDepth 100000 in
theorem close_blk_352256 : chkN closeSweepPred 352256 11 = true := by decide +kernel
set_option maxRecDepth 100000 in
theorem close_blk_354304 : chkN closeSweepPred 354304 11 = true := by decide +kernel
set_option maxRecDepth 100000 in
theorem close_blk_356352 : chkN closeSweepPred 356352 11 = true := by decide +kernel
set_option maxRecDepth 100000 in
theorem close_blk_358400 : chkN closeSweepPred 358400 11 = true := by decide +kernel
theorem close_shard_10 : chkN closeSweepPred 327680 shardBits = true :=
  (chkN_join _ 327680 14 (chkN_join _ 327680 13 (chkN_join _ 327680 12 (chkN_join _ 327680 11 close_blk_327680 close_blk_329728) (chkN_join _ 331776 11 close_blk_331776 close_blk_333824)) (chkN_join _ 335872 12 (chkN_join _ 335872 11 close_blk_335872 close_blk_337920) (chkN_join _ 339968 11 close_blk_339968 close_blk_342016))) (chkN_join _ 344064 13 (chkN_join _ 344064 12 (chkN_join _ 344064 11 close_blk_344064 close_blk_346112) (chkN_join _ 348160 11 close_blk_348160 close_blk_350208)) (chkN_join _ 352256 12 (chkN_join _ 352256 11 close_blk_352256 close_blk_354304) (chkN_join _ 356352 11 close_blk_356352 close_blk_358400))))
end Demeter.TickClose
