-- shard 10 of the closeness / tick-gap sweep (C06 (c), (e)): |tick| in [327680, 360448)
import Proofs.Lemmas.ClosePred
namespace Demeter.TickClose
set_option maxRecDepth 100000 in
theorem close_shard_10 : chkN closeSweepPred 327680 shardBits = true := by decide +kernel
end Demeter.TickClose
