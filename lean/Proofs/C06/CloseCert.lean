/-
  C06 (c), step (i): kernel-checked certificates for the twenty enclosure constants
  `encC i = ⌊2^192·(10000/10001)^(2^i/2)⌋`:   c² · 10001^(2^i) ≤ 2^384 · 10000^(2^i) ≤ (c+1)² · 10001^(2^i).
  The largest operands (i = 19) have ≈ 2.1 million decimal digits; `Nat.pow`/`Nat.mul`/`Nat.ble` on literals are
  GMP-accelerated in the kernel (`decide +kernel`, no `native_decide`).
-/
import Proofs.Lemmas.TickEnc
namespace Demeter.TickClose
open Demeter Gen

theorem encStartOdd_cert : Cert 1 encStartOdd := by decide +kernel

theorem encTable_cert : ∀ e ∈ encTable, Cert e.1 e.2 := by decide +kernel

/-- the table really covers masks 2, 4, …, 2^19 with the constants listed in `encC` -/
theorem encTable_masks : encTable.map (·.1) = (List.range 19).map (fun i => 2 ^ (i + 1)) := by decide +kernel
theorem encTable_consts : encStartOdd :: encTable.map (·.2) = encC := by decide +kernel

/-- **enclosure** (no hypotheses left): `L ≤ 2^192·(10000/10001)^(a/2) ≤ L + 40` for `L = encLowU a`, `a < 2^20` -/
theorem enc_bracket (a : Nat) (h : a < 1048576) : Enc a (encLowU a) encSlack :=
  enc_bracket_of_cert encStartOdd_cert encTable_cert a h

end Demeter.TickClose
