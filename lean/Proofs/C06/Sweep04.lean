-- shard 4 of the exhaustive TickMath sweep: |tick| in [131072, 163840)
import Proofs.Lemmas.SweepN
namespace Demeter
set_option maxRecDepth 100000 in
theorem sweep_shard_04 : chkN sweepPred 131072 shardBits = true := by decide +kernel
end Demeter
