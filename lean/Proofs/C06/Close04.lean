-- shard 4 of the closeness / tick-gap sweep (C06 (c), (e)): |tick| in [131072, 163840)
import Proofs.Lemmas.ClosePred
namespace Demeter.TickClose
set_option maxRecDepth 100000 in
theorem close_shard_04 : chkN closeSweepPred 131072 shardBits = true := by decide +kernel
end Demeter.TickClose
