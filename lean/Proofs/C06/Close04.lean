-- shard 4 of the closeness / tick-gap sweep (C06 (c), (e)): |tick| in [131072, 163840), 16 blocks of 2^11
import Proofs.Lemmas.ClosePred
namespace Demeter.TickClose
set_option maxRecDepth 100000 in
theorem close_blk_131072 : chkN closeSweepPred 131072 11 = true := by decide +kernel
set_option maxRecDepth 100000 in
theorem close_blk_133120 : chkN closeSweepPred 133120 11 = true := by decide +kernel
set_option maxRecDepth 100000 in
theorem close_blk_135168 : chkN closeSweepPred 135168 11 = true := by decide +kernel
set_option maxRecDepth 100000 in
theorem close_blk_137216 : chkN closeSweepPred 137216 11 = true := by decide +kernel
set_option maxRecDepth 100000 in
theorem close_blk_139264 : chkN closeSweepPred 139264 11 = true := by decide +kernel
set_option maxRecDepth 100000 in
theorem close_blk_141312 : chkN closeSweepPred 141312 11 = true := by decide +kernel
set_option maxRecDepth 100000 in
theorem close_blk_143360 : chkN closeSweepPred 143360 11 = true := by decide +kernel
set_option maxRecDepth 100000 in
theorem close_blk_145408 : chkN closeSweepPred 145408 11 = true := by decide +kernel
set_option maxRecDepth 100000 in
theorem close_blk_147456 : chkN closeSweepPred 147456 11 = true := by decide +kernel
set_option maxRecDepth 100000 in
theorem close_blk_149504 : chkN closeSweepPred 149504 11 = true := by decide +kernel
set_option maxRecDepth 100000 in
theorem close_blk_151552 : chkN closeSweepPred 151552 11 = true := by decide +kernel
set_option maxRecDepth 100000 in
theorem close_blk_153600 : chkN closeSweepPred 153600 11 = true := by decide +kernel
set_option maxRecDepth 100000 in
theorem close_blk_155648 : chkN closeSweepPred 155648 11 = true := by decide +kernel
set_option maxRecDepth 100000 in
theorem close_blk_157696 : chkN closeSweepPred 157696 11 = true := by decide +kernel
set_option maxRecDepth 100000 in
theorem close_blk_159744 : chkN closeSweepPred 159744 11 = true := by decide +kernel
set_option maxRecDepth 100000 in
theorem close_blk_161792 : chkN closeSweepPred 161792 11 = true := by decide +kernel
theorem close_shard_04 : chkN closeSweepPred 131072 shardBits = true :=
  (chkN_join _ 131072 14 (chkN_join _ 131072 13 (chkN_join _ 131072 12 (chkN_join _ 131072 11 close_blk_131072 close_blk_133120) (chkN_join _ 135168 11 close_blk_135168 close_blk_137216)) (chkN_join _ 139264 12 (chkN_join _ 139264 11 close_blk_139264 close_blk_141312) (chkN_join _ 143360 11 close_blk_143360 close_blk_145408))) (chkN_join _ 147456 13 (chkN_join _ 147456 12 (chkN_join _ 147456 11 close_blk_147456 close_blk_149504) (chkN_join _ 151552 11 close_blk_151552 close_blk_153600)) (chkN_join _ 155648 12 (chkN_join _ 155648 11 close_blk_155648 close_blk_157696) (chkN_join _ 159744 11 close_blk_159744 close_blk_161792))))
end Demeter.TickClose
