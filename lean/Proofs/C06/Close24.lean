-- shard 24 of the closeness / tick-gap sweep (C06 (c), (e)): |tick| in [786432, 819200)
import Proofs.Lemmas.ClosePred
namespace Demeter.TickClose
set_option maxRecDepth 100000 in
theorem close_shard_24 : chkN closeSweepPred 786432 shardBits = true := by decide +kernel
end Demeter.TickClose
