-- shard 24 of the closeness / tick-gap sweep (C06 (c), (e)): |tick| in [786432, 819200), 16 blocks of 2^11
import Proofs.Lemmas.ClosePred
namespace Demeter.TickClose
set_option maxRecDepth 100000 in
theorem close_blk_786432 : chkN closeSweepPred 786432 11 = true := by decide +kernel
set_option maxRecDepth 100000 in
theorem close_blk_788480 : chkN closeSweepPred 788480 11 = true := by decide +kernel
set_option maxRecDepth 100000 in
theorem close_blk_790528 : chkN closeSweepPred 790528 11 = true := by decide +kernel
set_option maxRecDepth 100000 in
theorem close_blk_792576 : chkN closeSweepPred 792576 11 = true := by decide +kernel
set_option maxRecDepth 100000 in
theorem close_blk_794624 : chkN closeSweepPred 794624 11 = true := by decide +kernel
set_option maxRecDepth 100000 in
theorem close_blk_796672 : chkN closeSweepPred 796672 11 = true := by decide +kernel
set_option maxRecDepth 100000 in
theorem close_blk_798720 : chkN closeSweepPred 798720 11 = true := by decide +kernel
set_option maxRecDepth 100000 in
theorem close_blk_800768 : chkN closeSweepPred 800768 11 = true := by decide +kernel
set_option maxRecDepth 100000 in
theorem close_blk_802816 : chkN closeSweepPred 802816 11 = true := by decide +kernel
set_option maxRecDepth 100000 in
theorem close_blk_804864 : chkN closeSweepPred 804864 11 = true := by decide +kernel
set_option maxRecDepth 100000 in
theorem close_blk_806912 : chkN closeSweepPred 806912 11 = true := by decide +kernel
set_option maxRecDepth 100000 in
theorem close_blk_808960 : chkN closeSweepPred 808960 11 = true := by decide +kernel
set_option maxRecDepth 100000 in
theorem close_blk_811008 : chkN closeSweepPred 811008 11 = true := by decide +kernel
set_option maxRecDepth 100000 in
theorem close_blk_813056 : chkN closeSweepPred 813056 11 = true := by decide +kernel
set_option maxRecDepth 100000 in
theorem close_blk_815104 : chkN closeSweepPred 815104 11 = true := by decide +kernel
set_option maxRecDepth 100000 in
theorem close_blk_817152 : chkN closeSweepPred 817152 11 = true := by decide +kernel
theorem close_shard_24 : chkN closeSweepPred 786432 shardBits = true :=
  (chkN_join _ 786432 14 (chkN_join _ 786432 13 (chkN_join _ 786432 12 (chkN_join _ 786432 11 close_blk_786432 close_blk_788480) (chkN_join _ 790528 11 close_blk_790528 close_blk_792576)) (chkN_join _ 794624 12 (chkN_join _ 794624 11 close_blk_794624 close_blk_796672) (chkN_join _ 798720 11 close_blk_798720 close_blk_800768))) (chkN_join _ 802816 13 (chkN_join _ 802816 12 (chkN_join _ 802816 11 close_blk_802816 close_blk_804864) (chkN_join _ 806912 11 close_blk_806912 close_blk_808960)) (chkN_join _ 811008 12 (chkN_join _ 811008 11 close_blk_811008 close_blk_813056) (chkN_join _ 815104 11 close_blk_815104 close_blk_817152))))
end Demeter.TickClose
