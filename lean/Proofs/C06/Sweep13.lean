-- shard 13 of the exhaustive TickMath sweep: |tick| in [425984, 458752)
import Proofs.Lemmas.SweepN
namespace Demeter
set_option maxRecDepth 100000 in
theorem sweep_shard_13 : chkN sweepPred 425984 shardBits = true := by decide +kernel
end Demeter
