-- shard 1 of the exhaustive TickMath sweep: |tick| in [32768, 65536)
import Proofs.Lemmas.SweepN
namespace Demeter
set_option maxRecDepth 100000 in
theorem sweep_shard_01 : chkN sweepPred 32768 shardBits = true := by decide +kernel
end Demeter
