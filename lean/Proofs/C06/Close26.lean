-- shard 26 of the closeness / tick-gap sweep (C06 (c), (e)): |tick| in [851968, 884736), 16 blocks of 2^11
import Proofs.Lemmas.ClosePred
namespace Demeter.TickClose
set_option maxRecDepth 100000 in
theorem close_blk_851968 : chkN closeSweepPred 851968 11 = true := by decide +kernel
set_option maxRecDepth 100000 in
theorem close_blk_854016 : chkN closeSweepPred 854016 11 = true := by decide +kernel
set_option maxRecDepth 100000 in
theorem close_blk_856064 : chkN closeSweepPred 856064 11 = true := by decide +kernel
set_option maxRecDepth 100000 in
theorem close_blk_858112 : chkN closeSweepPred 858112 11 = true := by decide +kernel
set_option maxRecDepth 100000 in
theorem close_blk_860160 : chkN closeSweepPred 860160 11 = true := by decide +kernel
set_option maxRecDepth 100000 in
theorem close_blk_862208 : chkN closeSweepPred 862208 11 = true := by decide +kernel
set_option maxRecDepth 100000 in
theorem close_blk_864256 : chkN closeSweepPred 864256 11 = true := by decide +kernel
set_option maxRecDepth 100000 in
theorem close_blk_866304 : chkN closeSweepPred 866304 11 = true := by decide +kernel
set_option maxRecDepth 100000 in
theorem close_blk_868352 : chkN closeSweepPred 868352 11 = true := by decide +kernel
set_option maxRecDepth 100000 in
theorem close_blk_870400 : chkN closeSweepPred 870400 11 = true := by decide +kernel
set_option maxRecDepth 100000 in
theorem close_blk_872448 : chkN closeSweepPred 872448 11 = true := by decide +kernel
set_option maxRecDepth 100000 in
theorem close_blk_874496 : chkN closeSweepPred 874496 11 = true := by decide +kernel
set_option maxRecDepth 100000 in
theorem close_blk_876544 : chkN closeSweepPred 876544 11 = true := by decide +kernel
set_option maxRecDepth 100000 in
theorem close_blk_878592 : chkN closeSweepPred 878592 11 = true := by decide +kernel
set_option maxRecDepth 100000 in
theorem close_blk_880640 : chkN closeSweepPred 880640 11 = true := by decide +kernel
set_option maxRecDepth 100000 in
theorem close_blk_882688 : chkN closeSweepPred 882688 11 = true := by decide +kernel
theorem close_shard_26 : chkN closeSweepPred 851968 shardBits = true :=
  (chkN_join _ 851968 14 (chkN_join _ 851968 13 (chkN_join _ 851968 12 (chkN_join _ 851968 11 close_blk_851968 close_blk_854016) (chkN_join _ 856064 11 close_blk_856064 close_blk_858112)) (chkN_join _ 860160 12 (chkN_join _ 860160 11 close_blk_860160 close_blk_862208) (chkN_join _ 864256 11 close_blk_864256 close_blk_866304))) (chkN_join _ 868352 13 (chkN_join _ 868352 12 (chkN_join _ 868352 11 close_blk_868352 close_blk_870400) (chkN_join _ 872448 11 close_blk_872448 close_blk_874496)) (chkN_join _ 876544 12 (chkN_join _ 876544 11 close_blk_876544 close_blk_878592) (chkN_join _ 880640 11 close_blk_880640 close_blk_882688))))
end Demeter.TickClose
