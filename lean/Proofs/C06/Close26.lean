-- shard 26 of the closeness / tick-gap sweep (C06 (c), (e)): |tick| in [851968, 884736)
import Proofs.Lemmas.ClosePred
namespace Demeter.TickClose
set_option maxRecDepth 100000 in
theorem close_shard_26 : chkN closeSweepPred 851968 shardBits = true := by decide +kernel
end Demeter.TickClose
