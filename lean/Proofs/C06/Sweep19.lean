-- shard 19 of the exhaustive TickMath sweep: |tick| in [622592, 655360)
import Proofs.Lemmas.SweepN
namespace Demeter
set_option maxRecDepth 100000 in
theorem sweep_shard_19 : chkN sweepPred 622592 shardBits = true := by decide +kernel
end Demeter
