-- shard 17 of the closeness / tick-gap sweep (C06 (c), (e)): |tick| in [557056, 589824)
import Proofs.Lemmas.ClosePred
namespace Demeter.TickClose
set_option maxRecDepth 100000 in
theorem close_shard_17 : chkN closeSweepPred 557056 shardBits = true := by decide +kernel
end Demeter.TickClose
