-- shard 17 of the closeness / tick-gap sweep (C06 (c), (e)): |tick| in [557056, 589824), 16 blocks of 2^11
import Proofs.Lemmas.ClosePred
namespace Demeter.TickClose
set_option maxRecDepth 100000 in
theorem close_blk_557056 : chkN closeSweepPred 557056 11 = true := by decide +kernel
set_option maxRecDepth 100000 in
theorem close_blk_559104 : chkN closeSweepPred 559104 11 = true := by decide +kernel
set_option maxRecDepth 100000 in
theorem close_blk_561152 : chkN closeSweepPred 561152 11 = true := by decide +kernel
set_option maxRecDepth 100000 in
theorem close_blk_563200 : chkN closeSweepPred 563200 11 = true := by decide +kernel
set_option maxRecDepth 100000 in
theorem close_blk_565248 : chkN closeSweepPred 565248 11 = true := by decide +kernel
set_option maxRecDepth 100000 in
theorem close_blk_567296 : chkN closeSweepPred 567296 11 = true := by decide +kernel
set_option maxRecDepth 100000 in
theorem close_blk_569344 : chkN closeSweepPred 569344 11 = true := by decide +kernel
set_option maxRecDepth 100000 in
theorem close_blk_571392 : chkN closeSweepPred 571392 11 = true := by decide +kernel
set_option maxRecDepth 100000 in
theorem close_blk_573440 : chkN closeSweepPred 573440 11 = true := by decide +kernel
set_option maxRecDepth 100000 in
theorem close_blk_575488 : chkN closeSweepPred 575488 11 = true := by decide +kernel
set_option maxRecDepth 100000 in
theorem close_blk_577536 : chkN closeSweepPred 577536 11 = true := by decide +kernel
set_option maxRecDepth 100000 in
theorem close_blk_579584 : chkN closeSweepPred 579584 11 = true := by decide +kernel
set_option maxRecDepth 100000 in
theorem close_blk_581632 : chkN closeSweepPred 581632 11 = true := by decide +kernel
set_option maxRecDepth 100000 in
theorem close_blk_583680 : chkN closeSweepPred 583680 11 = true := by decide +kernel
set_option maxRecDepth 100000 in
theorem close_blk_585728 : chkN closeSweepPred 585728 11 = true := by decide +kernel
set_option maxRecDepth 100000 in
theorem close_blk_587776 : chkN closeSweepPred 587776 11 = true := by decide +kernel
theorem close_shard_17 : chkN closeSweepPred 557056 shardBits = true :=
  (chkN_join _ 557056 14 (chkN_join _ 557056 13 (chkN_join _ 557056 12 (chkN_join _ 557056 11 close_blk_557056 close_blk_559104) (chkN_join _ 561152 11 close_blk_561152 close_blk_563200)) (chkN_join _ 565248 12 (chkN_join _ 565248 11 close_blk_565248 close_blk_567296) (chkN_join _ 569344 11 close_blk_569344 close_blk_571392))) (chkN_join _ 573440 13 (chkN_join _ 573440 12 (chkN_join _ 573440 11 close_blk_573440 close_blk_575488) (chkN_join _ 577536 11 close_blk_577536 close_blk_579584)) (chkN_join _ 581632 12 (chkN_join _ 581632 11 close_blk_581632 close_blk_583680) (chkN_join _ 585728 11 close_blk_585728 close_blk_587776))))
end Demeter.TickClose
