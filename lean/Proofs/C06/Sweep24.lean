-- shard 24 of the exhaustive TickMath sweep: |tick| in [786432, 819200)
import Proofs.Lemmas.SweepN
namespace Demeter
set_option maxRecDepth 100000 in
theorem sweep_shard_24 : chkN sweepPred 786432 shardBits = true := by decide +kernel
end Demeter
