-- shard 8 of the closeness / tick-gap sweep (C06 (c), (e)): |tick| in [262144, 294912), 16 blocks of 2^11
import Proofs.Lemmas.ClosePred
namespace Demeter.TickClose
set_option maxRecDepth 100000 in
theorem close_blk_262144 : chkN closeSweepPred 262144 11 = true := by decide +kernel
set_option maxRecDepth 100000 in
theorem close_blk_264192 : chkN closeSweepPred 264192 11 = true := by decide +kernel
set_option maxRecDepth 100000 in
theorem close_blk_266240 : chkN closeSweepPred 266240 11 = true := by decide +kernel
set_option maxRecDepth 100000 in
theorem close_blk_268288 : chkN closeSweepPred 268288 11 = true := by decide +kernel
set_option maxRecDepth 100000 in
theorem close_blk_270336 : chkN closeSweepPred 270336 11 = true := by decide +kernel
set_option maxRecDepth 100000 in
theorem close_blk_272384 : chkN closeSweepPred 272384 11 = true := by decide +kernel
set_option maxRecDepth 100000 in
theorem close_blk_274432 : chkN closeSweepPred 274432 11 = true := by decide +kernel
set_option maxRecDepth 100000 in
theorem close_blk_276480 : chkN closeSweepPred 276480 11 = true := by decide +kernel
set_option maxRecDepth 100000 in
theorem close_blk_278528 : chkN closeSweepPred 278528 11 = true := by decide +kernel
set_option maxRecDepth 100000 in
theorem close_blk_280576 : chkN closeSweepPred 280576 11 = true := by decide +kernel
set_option maxRecDepth 100000 in
theorem close_blk_282624 : chkN closeSweepPred 282624 11 = true := by decide +kernel
set_option maxRecDepth 100000 in
theorem close_blk_284672 : chkN closeSweepPred 284672 11 = true := by decide +kernel
set_option maxRecDepth 100000 in
theorem close_blk_286720 : chkN closeSweepPred 286720 11 = true := by decide +kernel
set_option maxRecDepth 100000 in
theorem close_blk_288768 : chkN closeSweepPred 288768 11 = true := by decide +kernel
set_option maxRecDepth 100000 in
theorem close_blk_290816 : chkN closeSweepPred 290816 11 = true := by decide +kernel
set_option maxRecDepth 100000 in
theorem close_blk_292864 : chkN closeSweepPred 292864 11 = true := by decide +kernel
theorem close_shard_08 : chkN closeSweepPred 262144 shardBits = true :=
  (chkN_join _ 262144 14 (chkN_join _ 262144 13 (chkN_join _ 262144 12 (chkN_join _ 262144 11 close_blk_262144 close_blk_264192) (chkN_join _ 266240 11 close_blk_266240 close_blk_268288)) (chkN_join _ 270336 12 (chkN_join _ 270336 11 close_blk_270336 close_blk_272384) (chkN_join _ 274432 11 close_blk_274432 close_blk_276480))) (chkN_join _ 278528 13 (chkN_join _ 278528 12 (chkN_join _ 278528 11 close_blk_278528 close_blk_280576) (chkN_join _ 282624 11 close_blk_282624 close_blk_284672)) (chkN_join _ 286720 12 (chkN_join _ 286720 11 close_blk_286720 close_blk_288768) (chkN_join _ 290816 11 close_blk_290816 close_blk_292864))))
end Demeter.TickClose
