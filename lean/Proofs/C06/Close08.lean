-- shard 8 of the closeness / tick-gap sweep (C06 (c), (e)): |tick| in [262144, 294912)
import Proofs.Lemmas.ClosePred
namespace Demeter.TickClose
set_option maxRecDepth 100000 in
theorem close_shard_08 : chkN closeSweepPred 262144 shardBits = true := by decide +kernel
end Demeter.TickClose
