-- shard 22 of the exhaustive TickMath sweep: |tick| in [720896, 753664)
import Proofs.Lemmas.SweepN
namespace Demeter
set_option maxRecDepth 100000 in
theorem sweep_shard_22 : chkN sweepPred 720896 shardBits = true := by decide +kernel
end Demeter
