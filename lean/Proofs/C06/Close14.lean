-- shard 14 of the closeness / tick-gap sweep (C06 (c), (e)): |tick| in [458752, 491520), 16 blocks of 2^11
import Proofs.Lemmas.ClosePred
namespace Demeter.TickClose
set_option maxRecDepth 100000 in
theorem close_blk_458752 : chkN closeSweepPred 458752 11 = true := by decide +kernel
set_option maxRecDepth 100000 in
theorem close_blk_460800 : chkN closeSweepPred 460800 11 = true := by decide +kernel
set_option maxRecDepth 100000 in
theorem close_blk_462848 : chkN closeSweepPred 462848 11 = true := by decide +kernel
set_option maxRecDepth 100000 in
theorem close_blk_464896 : chkN closeSweepPred 464896 11 = true := by decide +kernel
set_option maxRecDepth 100000 in
theorem close_blk_466944 : chkN closeSweepPred 466944 11 = true := by decide +kernel
set_option maxRecDepth 100000 in
theorem close_blk_468992 : chkN closeSweepPred 468992 11 = true := by decide +kernel
set_option maxRecDepth 100000 in
theorem close_blk_471040 : chkN closeSweepPred 471040 11 = true := by decide +kernel
set_option maxRecDepth 100000 in
theorem close_blk_473088 : chkN closeSweepPred 473088 11 = true := by decide +kernel
set_option maxRecDepth 100000 in
theorem close_blk_475136 : chkN closeSweepPred 475136 11 = true := by decide +kernel
set_option maxRecDepth 100000 in
theorem close_blk_477184 : chkN closeSweepPred 477184 11 = true := by decide +kernel
set_option maxRecDepth 100000 in
theorem close_blk_479232 : chkN closeSweepPred 479232 11 = true := by decide +kernel
set_option maxRecDepth 100000 in
theorem close_blk_481280 : chkN closeSweepPred 481280 11 = true := by decide +kernel
set_option maxRecDepth 100000 in
theorem close_blk_483328 : chkN closeSweepPred 483328 11 = true := by decide +kernel
set_option maxRecDepth 100000 in
theorem close_blk_485376 : chkN closeSweepPred 485376 11 = true := by decide +kernel
set_option maxRecDepth 100000 in
theorem close_blk_487424 : chkN closeSweepPred 487424 11 = true := by decide +kernel
set_option maxRecDepth 100000 in
theorem close_blk_489472 : chkN closeSweepPred 489472 11 = true := by decide +kernel
theorem close_shard_14 : chkN closeSweepPred 458752 shardBits = true :=
  (chkN_join _ 458752 14 (chkN_join _ 458752 13 (chkN_join _ 458752 12 (chkN_join _ 458752 11 close_blk_458752 close_blk_460800) (chkN_join _ 462848 11 close_blk_462848 close_blk_464896)) (chkN_join _ 466944 12 (chkN_join _ 466944 11 close_blk_466944 close_blk_468992) (chkN_join _ 471040 11 close_blk_471040 close_blk_473088))) (chkN_join _ 475136 13 (chkN_join _ 475136 12 (chkN_join _ 475136 11 close_blk_475136 close_blk_477184) (chkN_join _ 479232 11 close_blk_479232 close_blk_481280)) (chkN_join _ 483328 12 (chkN_join _ 483328 11 close_blk_483328 close_blk_485376) (chkN_join _ 487424 11 close_blk_487424 close_blk_489472))))
end Demeter.TickClose
