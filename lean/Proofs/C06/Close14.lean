-- shard 14 of the closeness / tick-gap sweep (C06 (c), (e)): |tick| in [458752, 491520)
import Proofs.Lemmas.ClosePred
namespace Demeter.TickClose
set_option maxRecDepth 100000 in
theorem close_shard_14 : chkN closeSweepPred 458752 shardBits = true := by decide +kernel
end Demeter.TickClose
