/-
  C06 (e), the other direction (review finding C06-2): price → tick → price.

  `C06_inverse_x96` shows tick → price → tick ∈ {t − 1, t}.  Conversely, for EVERY positive price `p` whose sqrt price
  `x = base_unit_price_to_sqrt_price_x96(p)` lies in the protocol's range, the tick `r = sqrt_price_x96_to_tick(x)` (whatever
  the float estimate inside was) is one whose price interval contains `p` up to the rounding of the Decimal chain:

      token0 is base (q0 = false):   price(r) ≤ p·(1+ε)¹¹          and   p·(1−ε)¹¹ ≤ price(r+1)
      token0 is quote (q0 = true):   p·(1−ε)⁶ ≤ price(r)·(1+ε)⁶    and   price(r+1)·(1−ε)⁶ ≤ p·(1+ε)¹¹      (prices fall with the tick)

  i.e. `tick_to_base_unit_price(tick_of(p))` and `p` are within one tick step (a factor 1.0001) of one another, up to eleven
  roundings.  `C06_inverse_converse_round35` instantiates ε with the proved 5·10⁻³⁵ of the 35-digit context and bounds the
  factors by 1 ± 10⁻³³.
-/
import Proofs.C06.Strengthen
namespace Demeter
open Gen TickInv Numerics

namespace TickInv
variable {tn : TickNum} {ε : Rat}

/-- backward chain from the (oriented) pool price `A` to the Decimal sqrt price -/
theorem sqrt_chain (h : Approx tn ε) {A y1 F : Rat} (hA : 0 < A) (hF : 0 < F)
    (b1 : A * (1 - ε) ≤ y1) (b2 : y1 ≤ A * (1 + ε)) :
    0 < tn.cx.div y1 F ∧ 0 ≤ tn.cx.dsqrt (tn.cx.div y1 F) ∧
    A / F * (1 - ε) ^ 4 ≤ tn.cx.dsqrt (tn.cx.div y1 F) ^ 2 ∧ tn.cx.dsqrt (tn.cx.div y1 F) ^ 2 ≤ A / F * (1 + ε) ^ 4 := by
  have h0 := h.eps_nonneg
  have h1 := h.eps_small
  have hs := one_sub_pos h0 h1
  have hy1 : 0 < y1 := lt_of_lt_of_le (mul_pos hA hs) b1
  have r1 : RelLU ε 1 1 A y1 := ⟨by simpa using b1, by simpa using b2⟩
  have r2 := rel_div_const h0 h1 F hF r1
  have hq : 0 ≤ y1 / F := le_of_lt (div_pos hy1 hF)
  have r3 : RelLU ε 2 2 (A / F) (tn.cx.div y1 F) := rel_step h0 h1 (le_of_lt (div_pos hA hF)) r2 (h.rnd _ hq)
  have hat : 0 < tn.cx.div y1 F := rel_pos h0 h1 (div_pos hA hF) r3
  obtain ⟨sq0, sq1, sq2⟩ := h.sqrt _ (le_of_lt hat)
  refine ⟨hat, sq0, ?_, ?_⟩
  · calc A / F * (1 - ε) ^ 4 = A / F * (1 - ε) ^ 2 * (1 - ε) ^ 2 := by ring
      _ ≤ tn.cx.div y1 F * (1 - ε) ^ 2 := mul_le_mul_of_nonneg_right r3.1 (by positivity)
      _ ≤ _ := sq1
  · calc _ ≤ tn.cx.div y1 F * (1 + ε) ^ 2 := sq2
      _ ≤ A / F * (1 + ε) ^ 2 * (1 + ε) ^ 2 := mul_le_mul_of_nonneg_right r3.2 (by positivity)
      _ = A / F * (1 + ε) ^ 4 := by ring

/-- `base_unit_price_to_sqrt_price` of any positive price succeeds; its square is within four roundings of the atomic price -/
theorem priceToSqrt_bounds (h : Approx tn ε) (p : Rat) (hp : 0 < p) (d0 d1 : Nat) (q0 : Bool) :
    ∃ sp, priceToSqrt tn p d0 d1 q0 = .ok sp ∧ 0 ≤ sp ∧
      (if q0 then 1 / p else p) / tn.fac ((d0 : Int) - d1) * (1 - ε) ^ 4 ≤ sp ^ 2 ∧
      sp ^ 2 ≤ (if q0 then 1 / p else p) / tn.fac ((d0 : Int) - d1) * (1 + ε) ^ 4 := by
  have h0 := h.eps_nonneg
  have hF := h.fac_pos ((d0 : Int) - d1)
  cases q0 with
  | false =>
    obtain ⟨c1, c2, c3, c4⟩ := sqrt_chain h hp hF (y1 := p)
      (by nlinarith) (by nlinarith)
    refine ⟨_, ?_, c2, by simpa using c3, by simpa using c4⟩
    simp only [priceToSqrt, invIf, Bool.false_eq_true, if_false]
    rw [if_neg (not_lt.2 (le_of_lt c1))]
  | true =>
    have hA : (0 : Rat) < 1 / p := by positivity
    obtain ⟨a1, a2⟩ := h.rnd (1 / p) (le_of_lt hA)
    obtain ⟨c1, c2, c3, c4⟩ := sqrt_chain h hA hF a1 a2
    refine ⟨_, ?_, c2, by simpa using c3, by simpa using c4⟩
    simp only [priceToSqrt, invIf, if_true, if_neg (ne_of_gt hp)]
    have c1' : ¬ (tn.cx.div (tn.cx.div 1 p) (tn.fac ((d0 : Int) - d1)) < 0) := not_lt.2 (le_of_lt c1)
    rw [if_neg c1']
    rfl

/-- forward: `tick_to_base_unit_price` of a valid tick, relative to `T = (s/2⁹⁶)²·fac` -/
theorem tickToPrice_rel (h : Approx tn ε) (t : Int) (h1 : minTick ≤ t) (h2 : t ≤ maxTick) (d0 d1 : Nat) (q0 : Bool) :
    0 < (sqrtAt t : Rat) / q96Rat * ((sqrtAt t : Rat) / q96Rat) * tn.fac ((d0 : Int) - d1) ∧
    ∃ pr, tickToPrice tn t d0 d1 q0 = .ok pr ∧
      (q0 = false → RelLU ε 5 5 ((sqrtAt t : Rat) / q96Rat * ((sqrtAt t : Rat) / q96Rat) * tn.fac ((d0 : Int) - d1)) pr) ∧
      (q0 = true → RelLU ε 6 11 (1 / ((sqrtAt t : Rat) / q96Rat * ((sqrtAt t : Rat) / q96Rat) * tn.fac ((d0 : Int) - d1))) pr) := by
  have hs := sqrtAt_pos' t h1 h2
  have hsq : (0 : Rat) < (sqrtAt t : Rat) := by exact_mod_cast hs
  have hq := q96Rat_pos
  have hF := h.fac_pos ((d0 : Int) - d1)
  have hT : 0 < (sqrtAt t : Rat) / q96Rat * ((sqrtAt t : Rat) / q96Rat) * tn.fac ((d0 : Int) - d1) := by positivity
  have rp := pool_rel h (sqrtAt t) hs ((d0 : Int) - d1)
  obtain ⟨pr, e, f1, f2⟩ := invIf_rel h q0 hT rp
  refine ⟨hT, pr, ?_, f1, ?_⟩
  · simp only [tickToPrice, tickOk_of_range t h1 h2, Bool.not_true, Bool.false_eq_true, if_false, sqrtX96ToPrice]
    exact e
  · intro hq0
    have := f2 hq0
    exact this

end TickInv

/-- **price → tick → price**: the tick returned for any in-range price brackets that price up to eleven roundings. -/
theorem C06_inverse_converse (tn : TickNum) (ε : Rat) (h : Approx tn ε) (p : Rat) (hp : 0 < p) (d0 d1 : Nat) (q0 : Bool)
    (est : Int) (x : Int) (hx : priceToSqrtX96 tn p d0 d1 q0 = .ok x)
    (hlo : (sqrtAt minTick : Int) ≤ x) (hhi : x < (sqrtAt maxTick : Int)) :
    ∃ r pl ph, priceToTickX96 tn 1774544 est p d0 d1 q0 = .ok r ∧ minTick ≤ r ∧ r < maxTick ∧
      tickToPrice tn r d0 d1 q0 = .ok pl ∧ tickToPrice tn (r + 1) d0 d1 q0 = .ok ph ∧
      (q0 = false → pl ≤ p * (1 + ε) ^ 11 ∧ p * (1 - ε) ^ 11 ≤ ph) ∧
      (q0 = true → p * (1 - ε) ^ 6 ≤ pl * (1 + ε) ^ 6 ∧ ph * (1 - ε) ^ 6 ≤ p * (1 + ε) ^ 11) := by
  have h0 := h.eps_nonneg
  have h1 := h.eps_small
  have hs := one_sub_pos h0 h1
  have ha := one_add_pos h0 h1
  have hq := q96Rat_pos
  set F := tn.fac ((d0 : Int) - d1) with hFdef
  have hF : 0 < F := h.fac_pos _
  set A : Rat := if q0 then 1 / p else p with hAdef
  have hA : 0 < A := by rw [hAdef]; split <;> positivity
  -- backward chain
  obtain ⟨sp, esp, sp0, spl, spu⟩ := priceToSqrt_bounds h p hp d0 d1 q0
  have hx' : x = toX96 tn sp := by
    simp only [priceToSqrtX96, esp] at hx
    injection hx with hx; exact hx.symm
  have hz0 : 0 ≤ sp * q96Rat := mul_nonneg sp0 (le_of_lt hq)
  obtain ⟨z1, z2⟩ := h.rnd _ hz0
  set z := tn.cx.rnd (sp * q96Rat) with hz
  have hznn : 0 ≤ z := le_trans (mul_nonneg hz0 (le_of_lt hs)) z1
  obtain ⟨t1, t2, t3⟩ := truncInt_bounds z hznn
  have hxz : x = truncInt z := by rw [hx']; rfl
  rw [← hxz] at t1 t2 t3
  obtain ⟨X, hX⟩ : ∃ X : Nat, x = (X : Int) := ⟨x.toNat, by omega⟩
  subst hX
  have t1' : (X : Rat) ≤ z := by exact_mod_cast t1
  have t2' : z < (X : Rat) + 1 := by exact_mod_cast t2
  -- the floor tick
  obtain ⟨r1, r2, r3, r4⟩ := C06_floor_total est X (by exact_mod_cast hlo) (by exact_mod_cast hhi)
  set r := tickOfSqrt 1774544 est X with hr
  have hprice : priceToTickX96 tn 1774544 est p d0 d1 q0 = .ok r := by
    simp only [priceToTickX96, hx, Int.toNat_natCast, hr]
  -- sandwich on squares
  have hsr : ((sqrtAt r : Nat) : Rat) ≤ (X : Rat) := by exact_mod_cast r3
  have hsr1 : (X : Rat) + 1 ≤ ((sqrtAt (r + 1) : Nat) : Rat) := by exact_mod_cast (by omega : X + 1 ≤ sqrtAt (r + 1))
  have hsr0 : (0 : Rat) ≤ ((sqrtAt r : Nat) : Rat) := by positivity
  have up1 : ((sqrtAt r : Nat) : Rat) ^ 2 ≤ A / F * q96Rat ^ 2 * (1 + ε) ^ 6 := by
    have a1 : ((sqrtAt r : Nat) : Rat) ≤ sp * q96Rat * (1 + ε) := by linarith
    calc ((sqrtAt r : Nat) : Rat) ^ 2 ≤ (sp * q96Rat * (1 + ε)) ^ 2 := pow_le_pow_left₀ hsr0 a1 2
      _ = sp ^ 2 * (q96Rat ^ 2 * (1 + ε) ^ 2) := by ring
      _ ≤ A / F * (1 + ε) ^ 4 * (q96Rat ^ 2 * (1 + ε) ^ 2) := mul_le_mul_of_nonneg_right spu (by positivity)
      _ = A / F * q96Rat ^ 2 * (1 + ε) ^ 6 := by ring
  have lo1 : A / F * q96Rat ^ 2 * (1 - ε) ^ 6 ≤ ((sqrtAt (r + 1) : Nat) : Rat) ^ 2 := by
    have a1 : sp * q96Rat * (1 - ε) ≤ ((sqrtAt (r + 1) : Nat) : Rat) := by linarith
    have a0 : 0 ≤ sp * q96Rat * (1 - ε) := mul_nonneg hz0 (le_of_lt hs)
    calc A / F * q96Rat ^ 2 * (1 - ε) ^ 6 = A / F * (1 - ε) ^ 4 * (q96Rat ^ 2 * (1 - ε) ^ 2) := by ring
      _ ≤ sp ^ 2 * (q96Rat ^ 2 * (1 - ε) ^ 2) := mul_le_mul_of_nonneg_right spl (by positivity)
      _ = (sp * q96Rat * (1 - ε)) ^ 2 := by ring
      _ ≤ ((sqrtAt (r + 1) : Nat) : Rat) ^ 2 := pow_le_pow_left₀ a0 a1 2
  -- in terms of T = (s/Q)^2 F
  have hTu : ((sqrtAt r : Nat) : Rat) / q96Rat * (((sqrtAt r : Nat) : Rat) / q96Rat) * F ≤ A * (1 + ε) ^ 6 := by
    have e : ((sqrtAt r : Nat) : Rat) / q96Rat * (((sqrtAt r : Nat) : Rat) / q96Rat) * F
        = ((sqrtAt r : Nat) : Rat) ^ 2 * (F / q96Rat ^ 2) := by field_simp
    have e2 : A / F * q96Rat ^ 2 * (1 + ε) ^ 6 * (F / q96Rat ^ 2) = A * (1 + ε) ^ 6 := by field_simp
    rw [e, ← e2]
    exact mul_le_mul_of_nonneg_right up1 (by positivity)
  have hTl : A * (1 - ε) ^ 6 ≤ ((sqrtAt (r + 1) : Nat) : Rat) / q96Rat * (((sqrtAt (r + 1) : Nat) : Rat) / q96Rat) * F := by
    have e : ((sqrtAt (r + 1) : Nat) : Rat) / q96Rat * (((sqrtAt (r + 1) : Nat) : Rat) / q96Rat) * F
        = ((sqrtAt (r + 1) : Nat) : Rat) ^ 2 * (F / q96Rat ^ 2) := by field_simp
    have e2 : A / F * q96Rat ^ 2 * (1 - ε) ^ 6 * (F / q96Rat ^ 2) = A * (1 - ε) ^ 6 := by field_simp
    rw [e, ← e2]
    exact mul_le_mul_of_nonneg_right lo1 (by positivity)
  -- forward at r and r + 1
  obtain ⟨hT0, pl, epl, fl1, fl2⟩ := tickToPrice_rel h r r1 (by omega) d0 d1 q0
  obtain ⟨hT1, ph, eph, fh1, fh2⟩ := tickToPrice_rel h (r + 1) (by omega) (by omega) d0 d1 q0
  rw [← hFdef] at hT0 hT1 fl1 fl2 fh1 fh2
  set T0 := ((sqrtAt r : Nat) : Rat) / q96Rat * (((sqrtAt r : Nat) : Rat) / q96Rat) * F with hT0def
  set T1 := ((sqrtAt (r + 1) : Nat) : Rat) / q96Rat * (((sqrtAt (r + 1) : Nat) : Rat) / q96Rat) * F with hT1def
  refine ⟨r, pl, ph, hprice, r1, r2, epl, eph, ?_, ?_⟩
  · intro hq0
    have hAp : A = p := by rw [hAdef, hq0]; rfl
    rw [hAp] at hTu hTl
    obtain ⟨_, u⟩ := fl1 hq0
    obtain ⟨l, _⟩ := fh1 hq0
    constructor
    · calc pl ≤ T0 * (1 + ε) ^ 5 := u
        _ ≤ p * (1 + ε) ^ 6 * (1 + ε) ^ 5 := mul_le_mul_of_nonneg_right hTu (by positivity)
        _ = p * (1 + ε) ^ 11 := by ring
    · calc p * (1 - ε) ^ 11 = p * (1 - ε) ^ 6 * (1 - ε) ^ 5 := by ring
        _ ≤ T1 * (1 - ε) ^ 5 := mul_le_mul_of_nonneg_right hTl (by positivity)
        _ ≤ ph := l
  · intro hq0
    have hAp : A = 1 / p := by rw [hAdef, hq0]; rfl
    rw [hAp] at hTu hTl
    obtain ⟨l, _⟩ := fl2 hq0
    obtain ⟨_, u⟩ := fh2 hq0
    constructor
    · -- p ≤ (1+ε)^6 / T0
      have k : p * T0 ≤ (1 + ε) ^ 6 := by
        have := mul_le_mul_of_nonneg_left hTu (le_of_lt hp)
        have e : p * (1 / p * (1 + ε) ^ 6) = (1 + ε) ^ 6 := by field_simp
        rwa [e] at this
      have k2 : p ≤ (1 + ε) ^ 6 * (1 / T0) := by
        rw [mul_one_div, le_div_iff₀ hT0]; exact k
      calc p * (1 - ε) ^ 6 ≤ (1 + ε) ^ 6 * (1 / T0) * (1 - ε) ^ 6 := mul_le_mul_of_nonneg_right k2 (by positivity)
        _ = (1 / T0 * (1 - ε) ^ 6) * (1 + ε) ^ 6 := by ring
        _ ≤ pl * (1 + ε) ^ 6 := mul_le_mul_of_nonneg_right l (by positivity)
    · -- (1-ε)^6 / T1 ≤ p
      have k : (1 - ε) ^ 6 ≤ p * T1 := by
        have := mul_le_mul_of_nonneg_left hTl (le_of_lt hp)
        have e : p * (1 / p * (1 - ε) ^ 6) = (1 - ε) ^ 6 := by field_simp
        rwa [e] at this
      have k2 : (1 / T1) * (1 - ε) ^ 6 ≤ p := by
        rw [one_div, inv_mul_le_iff₀ hT1]; linarith
      calc ph * (1 - ε) ^ 6 ≤ (1 / T1 * (1 + ε) ^ 11) * (1 - ε) ^ 6 := mul_le_mul_of_nonneg_right u (by positivity)
        _ = (1 / T1 * (1 - ε) ^ 6) * (1 + ε) ^ 11 := by ring
        _ ≤ p * (1 + ε) ^ 11 := mul_le_mul_of_nonneg_right k2 (by positivity)

theorem tickConv_eps35 : (1 + EPS35) ^ 11 ≤ 1 + 1 / 10 ^ 33 ∧ 1 - 1 / 10 ^ 33 ≤ (1 - EPS35) ^ 11 ∧
    (1 + EPS35) ^ 6 ≤ 1 + 1 / 10 ^ 33 ∧ 1 - 1 / 10 ^ 33 ≤ (1 - EPS35) ^ 6 := by
  rw [C06_round35_eps]; norm_num

/-- **price → tick → price under the 35-digit arithmetic of the model** (rounding error proved): with δ = 10⁻³³,
    `price(r)·(1−δ) ≤ p·(1+δ)`-style brackets in both orientations, for any positive `Decimal(10 ** e)`. -/
theorem C06_inverse_converse_round35 (fac : Int → Rat) (hfac : ∀ e, 0 < fac e) (p : Rat) (hp : 0 < p) (d0 d1 : Nat) (q0 : Bool)
    (est : Int) (x : Int) (hx : priceToSqrtX96 (pyGTnFac fac) p d0 d1 q0 = .ok x)
    (hlo : (sqrtAt minTick : Int) ≤ x) (hhi : x < (sqrtAt maxTick : Int)) :
    ∃ r pl ph, priceToTickX96 (pyGTnFac fac) 1774544 est p d0 d1 q0 = .ok r ∧ minTick ≤ r ∧ r < maxTick ∧
      tickToPrice (pyGTnFac fac) r d0 d1 q0 = .ok pl ∧ tickToPrice (pyGTnFac fac) (r + 1) d0 d1 q0 = .ok ph ∧
      (q0 = false → pl ≤ p * (1 + 1 / 10 ^ 33) ∧ p * (1 - 1 / 10 ^ 33) ≤ ph) ∧
      (q0 = true → p * (1 - 1 / 10 ^ 33) ≤ pl * (1 + 1 / 10 ^ 33) ∧ ph * (1 - 1 / 10 ^ 33) ≤ p * (1 + 1 / 10 ^ 33)) := by
  obtain ⟨r, pl, ph, a, b, c, d, e, f, g⟩ :=
    C06_inverse_converse (pyGTnFac fac) EPS35 (pyGTnFac_approx fac hfac) p hp d0 d1 q0 est x hx hlo hhi
  obtain ⟨k1, k2, k3, k4⟩ := tickConv_eps35
  have hpl : 0 ≤ pl := by
    obtain ⟨hT, pr, epr, f1, f2⟩ := tickToPrice_rel (pyGTnFac_approx fac hfac) r b (by omega) d0 d1 q0
    rw [d] at epr; injection epr with epr; subst epr
    cases q0 with
    | false => exact le_of_lt (rel_pos (le_of_lt EPS35_pos) EPS35_small hT (f1 rfl))
    | true => exact le_of_lt (rel_pos (le_of_lt EPS35_pos) EPS35_small (by positivity) (f2 rfl))
  have hph : 0 ≤ ph := by
    obtain ⟨hT, pr, epr, f1, f2⟩ := tickToPrice_rel (pyGTnFac_approx fac hfac) (r + 1) (by omega) (by omega) d0 d1 q0
    rw [e] at epr; injection epr with epr; subst epr
    cases q0 with
    | false => exact le_of_lt (rel_pos (le_of_lt EPS35_pos) EPS35_small hT (f1 rfl))
    | true => exact le_of_lt (rel_pos (le_of_lt EPS35_pos) EPS35_small (by positivity) (f2 rfl))
  refine ⟨r, pl, ph, a, b, c, d, e, fun hq0 => ?_, fun hq0 => ?_⟩
  · obtain ⟨u, l⟩ := f hq0
    exact ⟨le_trans u (mul_le_mul_of_nonneg_left k1 (le_of_lt hp)),
           le_trans (mul_le_mul_of_nonneg_left k2 (le_of_lt hp)) l⟩
  · obtain ⟨l, u⟩ := g hq0
    exact ⟨le_trans (mul_le_mul_of_nonneg_left k4 (le_of_lt hp)) (le_trans l (mul_le_mul_of_nonneg_left k3 hpl)),
           le_trans (mul_le_mul_of_nonneg_left k4 hph) (le_trans u (mul_le_mul_of_nonneg_left k1 (le_of_lt hp)))⟩

/-! ### non-vacuity: the exact-arithmetic demo context, price 1 (tick 0), both orientations' hypotheses are satisfiable -/
example : ∃ tn, Approx tn (1 / 1000000000) := ⟨demoTn, demo_approx⟩
example : (sqrtAt minTick : Int) ≤ 2 ^ 96 ∧ (2 ^ 96 : Int) < sqrtAt maxTick := by decide +kernel
/-- all hypotheses hold together for a concrete price (the price of tick −200000, token0 = quote), and the conclusion follows -/
example : ∃ p r, 0 < p ∧ priceToTickX96 demoTn 1774544 0 p 6 18 true = .ok r ∧ minTick ≤ r ∧ r < maxTick := by
  obtain ⟨p, a, b, _⟩ := C06_inverse_exact demoTn demo_exact (-200000) (by decide) (by decide) 6 18 true 64 (-199990) (by decide)
  have hp : 0 < p := by
    obtain ⟨hT, pr, epr, _, f2⟩ := tickToPrice_rel demo_approx (-200000) (by decide) (by decide) 6 18 true
    rw [a] at epr; injection epr with epr; subst epr
    exact rel_pos (by norm_num) (le_refl _) (by positivity) (f2 rfl)
  have l1 : sqrtAt minTick ≤ sqrtAt (-200000) := by decide +kernel
  have l2 : sqrtAt (-200000) < sqrtAt maxTick := by decide +kernel
  obtain ⟨r, _, _, c, d, e, _⟩ := C06_inverse_converse demoTn _ demo_approx p hp 6 18 true 0 _ b
    (by exact_mod_cast l1) (by exact_mod_cast l2)
  exact ⟨p, r, hp, c, d, e⟩

end Demeter
