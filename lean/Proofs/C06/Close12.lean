-- shard 12 of the closeness / tick-gap sweep (C06 (c), (e)): |tick| in [393216, 425984), 16 blocks of 2^11
import Proofs.Lemmas.ClosePred
namespace Demeter.TickClose
set_option maxRecDepth 100000 in
theorem close_blk_393216 : chkN closeSweepPred 393216 11 = true := by decide +kernel
set_option maxRecDepth 100000 in
theorem close_blk_395264 : chkN closeSweepPred 395264 11 = true := by decide +kernel
set_option maxRecDepth 100000 in
theorem close_blk_397312 : chkN closeSweepPred 397312 11 = true := by decide +kernel
set_option maxRecDepth 100000 in
theorem close_blk_399360 : chkN closeSweepPred 399360 11 = true := by decide +kernel
set_option maxRecDepth 100000 in
theorem close_blk_401408 : chkN closeSweepPred 401408 11 = true := by decide +kernel
set_option maxRecDepth 100000 in
theorem close_blk_403456 : chkN closeSweepPred 403456 11 = true := by decide +kernel
set_option maxRecDepth 100000 in
theorem close_blk_405504 : chkN closeSweepPred 405504 11 = true := by decide +kernel
set_option maxRecDepth 100000 in
theorem close_blk_407552 : chkN closeSweepPred 407552 11 = true := by decide +kernel
set_option maxRecDepth 100000 in
theorem close_blk_409600 : chkN closeSweepPred 409600 11 = true := by decide +kernel
set_option maxRecDepth 100000 in
theorem close_blk_411648 : chkN closeSweepPred 411648 11 = true := by decide +kernel
set_option maxRecDepth 100000 in
theorem close_blk_413696 : chkN closeSweepPred 413696 11 = true := by decide +kernel
set_option maxRecDepth 100000 in
theorem close_blk_415744 : chkN closeSweepPred 415744 11 = true := by decide +kernel
set_option maxRecDepth 100000 in
theorem close_blk_417792 : chkN closeSweepPred 417792 11 = true := by decide +kernel
set_option maxRecDepth 100000 in
theorem close_blk_419840 : chkN closeSweepPred 419840 11 = true := by decide +kernel
set_option maxRecDepth 100000 in
theorem close_blk_421888 : chkN closeSweepPred 421888 11 = true := by decide +kernel
set_option maxRecDepth 100000 in
theorem close_blk_423936 : chkN closeSweepPred 423936 11 = true := by decide +kernel
theorem close_shard_12 : chkN closeSweepPred 393216 shardBits = true :=
  (chkN_join _ 393216 14 (chkN_join _ 393216 13 (chkN_join _ 393216 12 (chkN_join _ 393216 11 close_blk_393216 close_blk_395264) (chkN_join _ 397312 11 close_blk_397312 close_blk_399360)) (chkN_join _ 401408 12 (chkN_join _ 401408 11 close_blk_401408 close_blk_403456) (chkN_join _ 405504 11 close_blk_405504 close_blk_407552))) (chkN_join _ 409600 13 (chkN_join _ 409600 12 (chkN_join _ 409600 11 close_blk_409600 close_blk_411648) (chkN_join _ 413696 11 close_blk_413696 close_blk_415744)) (chkN_join _ 417792 12 (chkN_join _ 417792 11 close_blk_417792 close_blk_419840) (chkN_join _ 421888 11 close_blk_421888 close_blk_423936))))
end Demeter.TickClose
