-- shard 12 of the closeness / tick-gap sweep (C06 (c), (e)): |tick| in [393216, 425984)
import Proofs.Lemmas.ClosePred
namespace Demeter.TickClose
set_option maxRecDepth 100000 in
theorem close_shard_12 : chkN closeSweepPred 393216 shardBits = true := by decide +kernel
end Demeter.TickClose
