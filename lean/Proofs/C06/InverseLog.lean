/-
  C06 (e), second half — `base_unit_price_to_tick` ends in `math.floor(math.log(sqrt_price, SQRT_1p0001))`, a libm
  computation that is NOT corrected by integer comparisons.  It is modelled as the oracle `tn.lg`; the theorem is proved
  under the hypothesis `LgSound tn δ` ("the result is the floor logarithm to base √1.0001 of the argument perturbed by at
  most δ = 10⁻⁹ relative" — stated on squares with integer powers of 10001/10000, no real numbers; true of IEEE doubles
  with a wide margin, and evaluated on every observed call by harness/c06.py).

  Ingredients: `C06_close_rel` — the relative form of the closeness theorems C06_close_nonpos / C06_close_pos:
  `(sqrtAt t / 2^96)²` is within `(1 ± 2⁻³⁰)²` of `1.0001^t` on the whole range — and the error propagation of
  Proofs/Lemmas/TickInvChain.lean.
-/
import Proofs.C06.Inverse
import Proofs.C06.CloseRel
namespace Demeter
open Gen TickInv TickClose

namespace TickInv

theorem q96Rat_eq : q96Rat = 2 ^ 96 := by unfold q96Rat; norm_num

end TickInv

/-- **ε-robust round trip through the float logarithm** (`base_unit_price_to_tick ∘ tick_to_base_unit_price`):
    in {t − 1, t} for every tick, both orientations, all decimals — given relative error ≤ ε ≤ 10⁻⁹ per Decimal
    operation and a floor logarithm that is accurate up to a relative perturbation 10⁻⁹ of its argument. -/
theorem C06_inverse_log (tn : TickNum) (ε : Rat) (h : Approx tn ε) (hl : LgSound tn (1 / 1000000000))
    (t : Int) (h1 : minTick ≤ t) (h2 : t ≤ maxTick) (d0 d1 : Nat) (q0 : Bool) :
    ∃ p r, tickToPrice tn t d0 d1 q0 = .ok p ∧ priceToTick tn p d0 d1 q0 = .ok r ∧ t - 1 ≤ r ∧ r ≤ t := by
  have h0 := h.eps_nonneg
  have he := h.eps_small
  have hs := sqrtAt_pos' t h1 h2
  obtain ⟨cl, cu⟩ := C06_close_rel t h1 h2
  set s := sqrtAt t with hs_def
  have hsq : (0 : Rat) < (s : Rat) := by exact_mod_cast hs
  obtain ⟨p, y, e1, e2, r⟩ := roundtrip_sqrt h s hs d0 d1 q0
  rw [q96Rat_eq] at r
  set S : Rat := (s : Rat) / 2 ^ 96 with hS
  have hSpos : 0 < S := by positivity
  have hy : 0 < y := rel_pos h0 he hSpos r
  have hok := tickOk_of_range t h1 h2
  have hprice : tickToPrice tn t d0 d1 q0 = .ok p := by
    simp only [tickToPrice, hok, Bool.not_true, Bool.false_eq_true, if_false]; exact e1
  have hback : priceToTick tn p d0 d1 q0 = .ok (tn.lg y) := by
    simp only [priceToTick, e2]
    rw [if_neg (not_le.2 hy)]
  obtain ⟨l1, l2⟩ := hl y hy
  -- accumulated Decimal error
  have hu : (1 + ε) ^ 16 ≤ 1 + 2 / 100000000 := by
    calc (1 + ε) ^ 16 ≤ (1 + 1 / 1000000000) ^ 16 := pow_le_pow_left₀ (by linarith) (by linarith) 16
      _ ≤ 1 + 2 / 100000000 := by norm_num
  have hlo : 1 - 2 / 100000000 ≤ (1 - ε) ^ 15 := by
    calc (1 : Rat) - 2 / 100000000 ≤ (1 - 1 / 1000000000) ^ 15 := by norm_num
      _ ≤ (1 - ε) ^ 15 := pow_le_pow_left₀ (by norm_num) (by linarith) 15
  have yu : y ≤ S * (1 + 2 / 100000000) := le_trans r.2 (mul_le_mul_of_nonneg_left hu (le_of_lt hSpos))
  have yl : S * (1 - 2 / 100000000) ≤ y := le_trans (mul_le_mul_of_nonneg_left hlo (le_of_lt hSpos)) r.1
  have hρ := rho_pos
  have hS2 : 0 < S ^ 2 := by positivity
  refine ⟨p, tn.lg y, hprice, hback, ?_, ?_⟩
  · -- ρ^(t−1) < ρ^(r+1)
    have a1 : (S * (1 - 2 / 100000000) * (1 - 1 / 1000000000)) ^ 2 ≤ (y * (1 - 1 / 1000000000)) ^ 2 :=
      pow_le_pow_left₀ (by positivity) (mul_le_mul_of_nonneg_right yl (by norm_num)) 2
    have a2 : rho ^ (t - 1) < rho ^ (tn.lg y + 1) := by
      rw [zpow_sub_one₀ (ne_of_gt hρ)]
      have a3 : rho ^ t * rho⁻¹ ≤ (S * (1 + 1 / 2 ^ 30)) ^ 2 * rho⁻¹ :=
        mul_le_mul_of_nonneg_right cu (le_of_lt (inv_pos.2 hρ))
      have a4 : (S * (1 + 1 / 2 ^ 30)) ^ 2 * rho⁻¹ < (S * (1 - 2 / 100000000) * (1 - 1 / 1000000000)) ^ 2 := by
        have : (1 + 1 / 2 ^ 30 : Rat) ^ 2 * rho⁻¹ < ((1 - 2 / 100000000) * (1 - 1 / 1000000000)) ^ 2 := by
          unfold rho; norm_num
        calc (S * (1 + 1 / 2 ^ 30)) ^ 2 * rho⁻¹ = S ^ 2 * ((1 + 1 / 2 ^ 30) ^ 2 * rho⁻¹) := by ring
          _ < S ^ 2 * ((1 - 2 / 100000000) * (1 - 1 / 1000000000)) ^ 2 := mul_lt_mul_of_pos_left this hS2
          _ = _ := by ring
      linarith
    have := (zpow_lt_zpow_iff_right₀ one_lt_rho).1 a2
    omega
  · -- ρ^r < ρ^(t+1)
    have a1 : (y * (1 + 1 / 1000000000)) ^ 2 ≤ (S * (1 + 2 / 100000000) * (1 + 1 / 1000000000)) ^ 2 :=
      pow_le_pow_left₀ (by positivity) (mul_le_mul_of_nonneg_right yu (by norm_num)) 2
    have a2 : rho ^ (tn.lg y) < rho ^ (t + 1) := by
      rw [zpow_add_one₀ (ne_of_gt hρ)]
      have a3 : (S * (1 - 1 / 2 ^ 30)) ^ 2 * rho ≤ rho ^ t * rho :=
        mul_le_mul_of_nonneg_right cl (le_of_lt hρ)
      have a4 : (S * (1 + 2 / 100000000) * (1 + 1 / 1000000000)) ^ 2 < (S * (1 - 1 / 2 ^ 30)) ^ 2 * rho := by
        have : ((1 + 2 / 100000000 : Rat) * (1 + 1 / 1000000000)) ^ 2 < (1 - 1 / 2 ^ 30) ^ 2 * rho := by
          unfold rho; norm_num
        calc (S * (1 + 2 / 100000000) * (1 + 1 / 1000000000)) ^ 2
            = S ^ 2 * ((1 + 2 / 100000000) * (1 + 1 / 1000000000)) ^ 2 := by ring
          _ < S ^ 2 * ((1 - 1 / 2 ^ 30) ^ 2 * rho) := mul_lt_mul_of_pos_left this hS2
          _ = _ := by ring
      linarith
    have := (zpow_lt_zpow_iff_right₀ one_lt_rho).1 a2
    omega

/-! non-vacuity: a context satisfying all hypotheses exists (true floor logarithm, Proofs/Lemmas/TickInvDemo.lean) -/
example : ∃ tn, Approx tn (1 / 1000000000) ∧ LgSound tn (1 / 1000000000) := ⟨demoTn, demo_approx, demo_lg⟩
example : ∃ p r, tickToPrice demoTn 887272 18 6 false = .ok p ∧ priceToTick demoTn p 18 6 false = .ok r ∧
    887271 ≤ r ∧ r ≤ 887272 := by
  obtain ⟨p, r, a, b, c, d⟩ := C06_inverse_log demoTn _ demo_approx demo_lg 887272 (by decide) (by decide) 18 6 false
  exact ⟨p, r, a, b, by omega, d⟩

end Demeter
