/-
  All closeness shards together: `closeSweepPred a` holds for every a < 28·2^15 = 917504 (> 887272).
-/
import Proofs.C06.Close00
import Proofs.C06.Close01
import Proofs.C06.Close02
import Proofs.C06.Close03
import Proofs.C06.Close04
import Proofs.C06.Close05
import Proofs.C06.Close06
import Proofs.C06.Close07
import Proofs.C06.Close08
import Proofs.C06.Close09
import Proofs.C06.Close10
import Proofs.C06.Close11
import Proofs.C06.Close12
import Proofs.C06.Close13
import Proofs.C06.Close14
import Proofs.C06.Close15
import Proofs.C06.Close16
import Proofs.C06.Close17
import Proofs.C06.Close18
import Proofs.C06.Close19
import Proofs.C06.Close20
import Proofs.C06.Close21
import Proofs.C06.Close22
import Proofs.C06.Close23
import Proofs.C06.Close24
import Proofs.C06.Close25
import Proofs.C06.Close26
import Proofs.C06.Close27
namespace Demeter.TickClose
open Demeter

theorem close_all (a : Nat) (h : a < 917504) : closeSweepPred a = true := by
  have hk : a / 32768 < 28 := by omega
  have hlo : (a / 32768) * 32768 ≤ a := Nat.div_mul_le_self a 32768
  have hhi : a < (a / 32768) * 32768 + 2 ^ 15 := by
    have := Nat.lt_div_mul_add (a := a) (b := 32768) (by decide)
    omega
  have key : ∀ k, k < 28 → chkN closeSweepPred (k * 32768) 15 = true := by
    intro k hk
    match k, hk with
    | 0, _ => exact close_shard_00
    | 1, _ => exact close_shard_01
    | 2, _ => exact close_shard_02
    | 3, _ => exact close_shard_03
    | 4, _ => exact close_shard_04
    | 5, _ => exact close_shard_05
    | 6, _ => exact close_shard_06
    | 7, _ => exact close_shard_07
    | 8, _ => exact close_shard_08
    | 9, _ => exact close_shard_09
    | 10, _ => exact close_shard_10
    | 11, _ => exact close_shard_11
    | 12, _ => exact close_shard_12
    | 13, _ => exact close_shard_13
    | 14, _ => exact close_shard_14
    | 15, _ => exact close_shard_15
    | 16, _ => exact close_shard_16
    | 17, _ => exact close_shard_17
    | 18, _ => exact close_shard_18
    | 19, _ => exact close_shard_19
    | 20, _ => exact close_shard_20
    | 21, _ => exact close_shard_21
    | 22, _ => exact close_shard_22
    | 23, _ => exact close_shard_23
    | 24, _ => exact close_shard_24
    | 25, _ => exact close_shard_25
    | 26, _ => exact close_shard_26
    | 27, _ => exact close_shard_27
    | k + 28, hk => exact absurd hk (by omega)
  exact chkN_sound closeSweepPred 15 _ (key _ hk) a hlo hhi

end Demeter.TickClose
