-- shard 7 of the closeness / tick-gap sweep (C06 (c), (e)): |tick| in [229376, 262144)
import Proofs.Lemmas.ClosePred
namespace Demeter.TickClose
set_option maxRecDepth 100000 in
theorem close_shard_07 : chkN closeSweepPred 229376 shardBits = true := by decide +kernel
end Demeter.TickClose
