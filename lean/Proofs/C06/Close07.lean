-- shard 7 of the closeness / tick-gap sweep (C06 (c), (e)): |tick| in [229376, 262144), 16 blocks of 2^11
import Proofs.Lemmas.ClosePred
namespace Demeter.TickClose
set_option maxRecDepth 100000 in
theorem close_blk_229376 : chkN closeSweepPred 229376 11 = true := by decide +kernel
set_option maxRecDepth 100000 in
theorem close_blk_231424 : chkN closeSweepPred 231424 11 = true := by decide +kernel
set_option maxRecDepth 100000 in
theorem close_blk_233472 : chkN closeSweepPred 233472 11 = true := by decide +kernel
set_option maxRecDepth 100000 in
theorem close_blk_235520 : chkN closeSweepPred 235520 11 = true := by decide +kernel
set_option maxRecDepth 100000 in
theorem close_blk_237568 : chkN closeSweepPred 237568 11 = true := by decide +kernel
set_option maxRecDepth 100000 in
theorem close_blk_239616 : chkN closeSweepPred 239616 11 = true := by decide +kernel
set_option maxRecDepth 100000 in
theorem close_blk_241664 : chkN closeSweepPred 241664 11 = true := by decide +kernel
set_option maxRecDepth 100000 in
theorem close_blk_243712 : chkN closeSweepPred 243712 11 = true := by decide +kernel
set_option maxRecDepth 100000 in
theorem close_blk_245760 : chkN closeSweepPred 245760 11 = true := by decide +kernel
set_option maxRecDepth 100000 in
theorem close_blk_247808 : chkN closeSweepPred 247808 11 = true := by decide +kernel
set_option maxRecDepth 100000 in
theorem close_blk_249856 : chkN closeSweepPred 249856 11 = true := by decide +kernel
set_option maxRecDepth 100000 in
theorem close_blk_251904 : chkN closeSweepPred 251904 11 = true := by decide +kernel
set_option maxRecDepth 100000 in
theorem close_blk_253952 : chkN closeSweepPred 253952 11 = true := by decide +kernel
set_option maxRecDepth 100000 in
theorem close_blk_256000 : chkN closeSweepPred 256000 11 = true := by decide +kernel
set_option maxRecDepth 100000 in
theorem close_blk_258048 : chkN closeSweepPred 258048 11 = true := by decide +kernel
set_option maxRecDepth 100000 in
theorem close_blk_260096 : chkN closeSweepPred 260096 11 = true := by decide +kernel
theorem close_shard_07 : chkN closeSweepPred 229376 shardBits = true :=
  (chkN_join _ 229376 14 (chkN_join _ 229376 13 (chkN_join _ 229376 12 (chkN_join _ 229376 11 close_blk_229376 close_blk_231424) (chkN_join _ 233472 11 close_blk_233472 close_blk_235520)) (chkN_join _ 237568 12 (chkN_join _ 237568 11 close_blk_237568 close_blk_239616) (chkN_join _ 241664 11 close_blk_241664 close_blk_243712))) (chkN_join _ 245760 13 (chkN_join _ 245760 12 (chkN_join _ 245760 11 close_blk_245760 close_blk_247808) (chkN_join _ 249856 11 close_blk_249856 close_blk_251904)) (chkN_join _ 253952 12 (chkN_join _ 253952 11 close_blk_253952 close_blk_256000) (chkN_join _ 258048 11 close_blk_258048 close_blk_260096))))
end Demeter.TickClose
