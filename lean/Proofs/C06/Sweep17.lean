-- shard 17 of the exhaustive TickMath sweep: |tick| in [557056, 589824)
import Proofs.Lemmas.SweepN
namespace Demeter
set_option maxRecDepth 100000 in
theorem sweep_shard_17 : chkN sweepPred 557056 shardBits = true := by decide +kernel
end Demeter
