-- shard 16 of the closeness / tick-gap sweep (C06 (c), (e)): |tick| in [524288, 557056), 16 blocks of 2^11
import Proofs.Lemmas.ClosePred
namespace Demeter.TickClose
set_option maxRecDepth 100000 in
theorem close_blk_524288 : chkN closeSweepPred 524288 11 = true := by decide +kernel
set_option maxRecDepth 100000 in
theorem close_blk_526336 : chkN closeSweepPred 526336 11 = true := by decide +kernel
set_option maxRecDepth 100000 in
theorem close_blk_528384 : chkN closeSweepPred 528384 11 = true := by decide +kernel
set_option maxRecDepth 100000 in
theorem close_blk_530432 : chkN closeSweepPred 530432 11 = true := by decide +kernel
set_option maxRecDepth 100000 in
theorem close_blk_532480 : chkN closeSweepPred 532480 11 = true := by decide +kernel
set_option maxRecDepth 100000 in
theorem close_blk_534528 : chkN closeSweepPred 534528 11 = true := by decide +kernel
set_option maxRecDepth 100000 in
theorem close_blk_536576 : chkN closeSweepPred 536576 11 = true := by decide +kernel
set_option maxRecDepth 100000 in
theorem close_blk_538624 : chkN closeSweepPred 538624 11 = true := by decide +kernel
set_option maxRecDepth 100000 in
theorem close_blk_540672 : chkN closeSweepPred 540672 11 = true := by decide +kernel
set_option maxRecDepth 100000 in
theorem close_blk_542720 : chkN closeSweepPred 542720 11 = true := by decide +kernel
set_option maxRecDepth 100000 in
theorem close_blk_544768 : chkN closeSweepPred 544768 11 = true := by decide +kernel
set_option maxRecDepth 100000 in
theorem close_blk_546816 : chkN closeSweepPred 546816 11 = true := by decide +kernel
set_option maxRecDepth 100000 in
theorem close_blk_548864 : chkN closeSweepPred 548864 11 = true := by decide +kernel
set_option maxRecDepth 100000 in
theorem close_blk_550912 : chkN closeSweepPred 550912 11 = true := by decide +kernel
set_option maxRecDepth 100000 in
theorem close_blk_552960 : chkN closeSweepPred 552960 11 = true := by decide +kernel
set_option maxRecDepth 100000 in
theorem close_blk_555008 : chkN closeSweepPred 555008 11 = true := by decide +kernel
theorem close_shard_16 : chkN closeSweepPred 524288 shardBits = true :=
  (chkN_join _ 524288 14 (chkN_join _ 524288 13 (chkN_join _ 524288 12 (chkN_join _ 524288 11 close_blk_524288 close_blk_526336) (chkN_join _ 528384 11 close_blk_528384 close_blk_530432)) (chkN_join _ 532480 12 (chkN_join _ 532480 11 close_blk_532480 close_blk_534528) (chkN_join _ 536576 11 close_blk_536576 close_blk_538624))) (chkN_join _ 540672 13 (chkN_join _ 540672 12 (chkN_join _ 540672 11 close_blk_540672 close_blk_542720) (chkN_join _ 544768 11 close_blk_544768 close_blk_546816)) (chkN_join _ 548864 12 (chkN_join _ 548864 11 close_blk_548864 close_blk_550912) (chkN_join _ 552960 11 close_blk_552960 close_blk_555008))))
end Demeter.TickClose
