-- shard 16 of the closeness / tick-gap sweep (C06 (c), (e)): |tick| in [524288, 557056)
import Proofs.Lemmas.ClosePred
namespace Demeter.TickClose
set_option maxRecDepth 100000 in
theorem close_shard_16 : chkN closeSweepPred 524288 shardBits = true := by decide +kernel
end Demeter.TickClose
