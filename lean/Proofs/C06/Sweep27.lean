-- shard 27 of the exhaustive TickMath sweep: |tick| in [884736, 917504)
import Proofs.Lemmas.SweepN
namespace Demeter
set_option maxRecDepth 100000 in
theorem sweep_shard_27 : chkN sweepPred 884736 shardBits = true := by decide +kernel
end Demeter
