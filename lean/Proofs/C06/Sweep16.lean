-- shard 16 of the exhaustive TickMath sweep: |tick| in [524288, 557056)
import Proofs.Lemmas.SweepN
namespace Demeter
set_option maxRecDepth 100000 in
theorem sweep_shard_16 : chkN sweepPred 524288 shardBits = true := by decide +kernel
end Demeter
