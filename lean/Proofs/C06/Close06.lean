-- shard 6 of the closeness / tick-gap sweep (C06 (c), (e)): |tick| in [196608, 229376), 16 blocks of 2^11
import Proofs.Lemmas.ClosePred
namespace Demeter.TickClose
set_option maxRecDepth 100000 in
theorem close_blk_196608 : chkN closeSweepPred 196608 11 = true := by decide +kernel
set_option maxRecDepth 100000 in
theorem close_blk_198656 : chkN closeSweepPred 198656 11 = true := by decide +kernel
set_option maxRecDepth 100000 in
theorem close_blk_200704 : chkN closeSweepPred 200704 11 = true := by decide +kernel
set_option maxRecDepth 100000 in
theorem close_blk_202752 : chkN closeSweepPred 202752 11 = true := by decide +kernel
set_option maxRecDepth 100000 in
theorem close_blk_204800 : chkN closeSweepPred 204800 11 = true := by decide +kernel
set_option maxRecDepth 100000 in
theorem close_blk_206848 : chkN closeSweepPred 206848 11 = true := by decide +kernel
set_option maxRecDepth 100000 in
theorem close_blk_208896 : chkN closeSweepPred 208896 11 = true := by decide +kernel
set_option maxRecDepth 100000 in
theorem close_blk_210944 : chkN closeSweepPred 210944 11 = true := by decide +kernel
set_option maxRecDepth 100000 in
theorem close_blk_212992 : chkN closeSweepPred 212992 11 = true := by decide +kernel
set_option maxRecDepth 100000 in
theorem close_blk_215040 : chkN closeSweepPred 215040 11 = true := by decide +kernel
set_option maxRecDepth 100000 in
theorem close_blk_217088 : chkN closeSweepPred 217088 11 = true := by decide +kernel
set_option maxRecDepth 100000 in
theorem close_blk_219136 : chkN closeSweepPred 219136 11 = true := by decide +kernel
set_option maxRecDepth 100000 in
theorem close_blk_221184 : chkN closeSweepPred 221184 11 = true := by decide +kernel
set_option maxRecDepth 100000 in
theorem close_blk_223232 : chkN closeSweepPred 223232 11 = true := by decide +kernel
set_option maxRecDepth 100000 in
theorem close_blk_225280 : chkN closeSweepPred 225280 11 = true := by decide +kernel
set_option maxRecDepth 100000 in
theorem close_blk_227328 : chkN closeSweepPred 227328 11 = true := by decide +kernel
theorem close_shard_06 : chkN closeSweepPred 196608 shardBits = true :=
  (chkN_join _ 196608 14 (chkN_join _ 196608 13 (chkN_join _ 196608 12 (chkN_join _ 196608 11 close_blk_196608 close_blk_198656) (chkN_join _ 200704 11 close_blk_200704 close_blk_202752)) (chkN_join _ 204800 12 (chkN_join _ 204800 11 close_blk_204800 close_blk_206848) (chkN_join _ 208896 11 close_blk_208896 close_blk_210944))) (chkN_join _ 212992 13 (chkN_join _ 212992 12 (chkN_join _ 212992 11 close_blk_212992 close_blk_215040) (chkN_join _ 217088 11 close_blk_217088 close_blk_219136)) (chkN_join _ 221184 12 (chkN_join _ 221184 11 close_blk_221184 close_blk_223232) (chkN_join _ 225280 11 close_blk_225280 close_blk_227328))))
end Demeter.TickClose
