-- shard 6 of the closeness / tick-gap sweep (C06 (c), (e)): |tick| in [196608, 229376)
import Proofs.Lemmas.ClosePred
namespace Demeter.TickClose
set_option maxRecDepth 100000 in
theorem close_shard_06 : chkN closeSweepPred 196608 shardBits = true := by decide +kernel
end Demeter.TickClose
