-- shard 6 of the exhaustive TickMath sweep: |tick| in [196608, 229376)
import Proofs.Lemmas.SweepN
namespace Demeter
set_option maxRecDepth 100000 in
theorem sweep_shard_06 : chkN sweepPred 196608 shardBits = true := by decide +kernel
end Demeter
