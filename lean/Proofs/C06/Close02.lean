-- shard 2 of the closeness / tick-gap sweep (C06 (c), (e)): |tick| in [65536, 98304), 16 blocks of 2^11
import Proofs.Lemmas.ClosePred
namespace Demeter.TickClose
set_option maxRecDepth 100000 in
theorem close_blk_65536 : chkN closeSweepPred 65536 11 = true := by decide +kernel
set_option maxRecDepth 100000 in
theorem close_blk_67584 : chkN closeSweepPred 67584 11 = true := by decide +kernel
set_option maxRecDepth 100000 in
theorem close_blk_69632 : chkN closeSweepPred 69632 11 = true := by decide +kernel
set_option maxRecDepth 100000 in
theorem close_blk_71680 : chkN closeSweepPred 71680 11 = true := by decide +kernel
set_option maxRecDepth 100000 in
theorem close_blk_73728 : chkN closeSweepPred 73728 11 = true := by decide +kernel
set_option maxRecDepth 100000 in
theorem close_blk_75776 : chkN closeSweepPred 75776 11 = true := by decide +kernel
set_option maxRecDepth 100000 in
theorem close_blk_77824 : chkN closeSweepPred 77824 11 = true := by decide +kernel
set_option maxRecDepth 100000 in
theorem close_blk_79872 : chkN closeSweepPred 79872 11 = true := by decide +kernel
set_option maxRecDepth 100000 in
theorem close_blk_81920 : chkN closeSweepPred 81920 11 = true := by decide +kernel
set_option maxRecDepth 100000 in
theorem close_blk_83968 : chkN closeSweepPred 83968 11 = true := by decide +kernel
set_option maxRecDepth 100000 in
theorem close_blk_86016 : chkN closeSweepPred 86016 11 = true := by decide +kernel
set_option maxRecDepth 100000 in
theorem close_blk_88064 : chkN closeSweepPred 88064 11 = true := by decide +kernel
set_option maxRecDepth 100000 in
theorem close_blk_90112 : chkN closeSweepPred 90112 11 = true := by decide +kernel
set_option maxRecDepth 100000 in
theorem close_blk_92160 : chkN closeSweepPred 92160 11 = true := by decide +kernel
set_option maxRecDepth 100000 in
theorem close_blk_94208 : chkN closeSweepPred 94208 11 = true := by decide +kernel
set_option maxRecDepth 100000 in
theorem close_blk_96256 : chkN closeSweepPred 96256 11 = true := by decide +kernel
theorem close_shard_02 : chkN closeSweepPred 65536 shardBits = true :=
  (chkN_join _ 65536 14 (chkN_join _ 65536 13 (chkN_join _ 65536 12 (chkN_join _ 65536 11 close_blk_65536 close_blk_67584) (chkN_join _ 69632 11 close_blk_69632 close_blk_71680)) (chkN_join _ 73728 12 (chkN_join _ 73728 11 close_blk_73728 close_blk_75776) (chkN_join _ 77824 11 close_blk_77824 close_blk_79872))) (chkN_join _ 81920 13 (chkN_join _ 81920 12 (chkN_join _ 81920 11 close_blk_81920 close_blk_83968) (chkN_join _ 86016 11 close_blk_86016 close_blk_88064)) (chkN_join _ 90112 12 (chkN_join _ 90112 11 close_blk_90112 close_blk_92160) (chkN_join _ 94208 11 close_blk_94208 close_blk_96256))))
end Demeter.TickClose
