-- shard 2 of the closeness / tick-gap sweep (C06 (c), (e)): |tick| in [65536, 98304)
import Proofs.Lemmas.ClosePred
namespace Demeter.TickClose
set_option maxRecDepth 100000 in
theorem close_shard_02 : chkN closeSweepPred 65536 shardBits = true := by decide +kernel
end Demeter.TickClose
