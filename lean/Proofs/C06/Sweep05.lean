-- shard 5 of the exhaustive TickMath sweep: |tick| in [163840, 196608)
import Proofs.Lemmas.SweepN
namespace Demeter
set_option maxRecDepth 100000 in
theorem sweep_shard_05 : chkN sweepPred 163840 shardBits = true := by decide +kernel
end Demeter
