/-
  C06 (e) — the price ⇄ tick helpers of demeter/uniswap/helper.py are mutually inverse to within one tick, for both
  token orientations and all decimals (model: Demeter/TickPrice.lean).

  * `C06_inverse_exact`: with exact arithmetic (`rnd = id`, `x ** 2 = x·x`, `sqrt (y·y) = y`) the round trip
    tick → price → sqrt price x96 → tick returns the sqrt price and the tick exactly.
  * `C06_inverse_x96`: with ANY arithmetic whose operations have relative error ≤ ε ≤ 10⁻⁹ (CPython's Decimal context:
    5·10⁻³⁵) the round trip through `base_unit_price_to_sqrt_price_x96` and the integer-corrected
    `sqrt_price_x96_to_tick` lands in {t − 1, t} — for every float estimate `est` inside that function.
    Uses strict monotonicity, the floor theorem and the per-tick relative gap `C06_tick_gap` (kernel sweep).
  The float-logarithm route `base_unit_price_to_tick` is in Proofs/C06/InverseLog.lean.
-/
import Proofs.C06.Close
import Proofs.Lemmas.TickInvChain
import Proofs.Lemmas.TickInvDemo
namespace Demeter
open Gen TickInv TickClose

namespace TickInv

theorem sqrtAt_pos' (t : Int) (h1 : minTick ≤ t) (h2 : t ≤ maxTick) : 0 < sqrtAt t := by
  have := sqrtAt_ge_min t h1 h2; omega

theorem tickOk_of_range (t : Int) (h1 : minTick ≤ t) (h2 : t ≤ maxTick) : tickOk t = true := by
  unfold minTick at h1; unfold maxTick at h2
  unfold tickOk; simp only [decide_eq_true_eq]; omega

/-- below the first tick the conversion stays at the first tick -/
theorem tickOfSqrt_below (fuel : Nat) (est : Int) (x : Nat) (hx : x < sqrtAt minTick)
    (hf : (clampTick est - minTick).natAbs ≤ fuel) : tickOfSqrt fuel est x = minTick := by
  have hm := C06_strict_mono
  have hmm : minTick < maxTick := by unfold minTick maxTick tickBound; omega
  have hc1 : minTick ≤ clampTick est := by
    unfold clampTick; split
    · omega
    · split <;> omega
  have hc2 : clampTick est ≤ maxTick := by
    unfold clampTick; split
    · omega
    · split <;> omega
  have hdown : ∀ (f : Nat) (t : Int), minTick ≤ t → t ≤ maxTick → t - minTick ≤ f → tickCorrectDown f t x = minTick := by
    intro f
    induction f with
    | zero =>
      intro t a _ b
      have : t = minTick := by omega
      simp [tickCorrectDown, this]
    | succ f ih =>
      intro t ht1 ht2 hf
      simp only [tickCorrectDown]
      by_cases heq : t = minTick
      · subst heq; rw [if_neg (by omega)]
      · have : x < sqrtAt t := Nat.lt_of_lt_of_le hx (mono_le' hm minTick t (Int.le_refl _) ht1 ht2)
        rw [if_pos ⟨by omega, this⟩]
        exact ih (t - 1) (by omega) (by omega) (by omega)
  have hup : ∀ f : Nat, tickCorrectUp f minTick x = minTick := by
    intro f
    cases f with
    | zero => rfl
    | succ f =>
      simp only [tickCorrectUp]
      have : x < sqrtAt (minTick + 1) := Nat.lt_trans hx (hm minTick (Int.le_refl _) hmm)
      rw [if_neg (by omega)]
  unfold tickOfSqrt
  simp only []
  rw [hdown fuel _ hc1 hc2 (by omega)]
  exact hup fuel

end TickInv

/-- **exact round trip**: tick → `tick_to_base_unit_price` → `base_unit_price_to_sqrt_price_x96` gives back
    `get_sqrt_ratio_at_tick(t)` exactly, and `sqrt_price_x96_to_tick` of that gives back `t`, whatever the float
    estimate inside it was. -/
theorem C06_inverse_exact (tn : TickNum) (h : Exact tn) (t : Int) (h1 : minTick ≤ t) (h2 : t ≤ maxTick)
    (d0 d1 : Nat) (q0 : Bool) (fuel : Nat) (est : Int) (hf : (clampTick est - t).natAbs ≤ fuel) :
    ∃ p, tickToPrice tn t d0 d1 q0 = .ok p ∧
      priceToSqrtX96 tn p d0 d1 q0 = .ok (sqrtAt t : Int) ∧
      priceToTickX96 tn fuel est p d0 d1 q0 = .ok t := by
  have hq := q96Rat_pos
  have hs := sqrtAt_pos' t h1 h2
  have hsq : (0 : Rat) < (sqrtAt t : Rat) := by exact_mod_cast hs
  set s := sqrtAt t with hs_def
  set e : Int := (d0 : Int) - (d1 : Int) with he
  have hF := h.fac_pos e
  set S : Rat := (s : Rat) / q96Rat with hS
  have hSpos : 0 < S := div_pos hsq hq
  have hpool : tn.cx.mul (tn.sq (fromX96 tn s)) (tn.fac e) = S * S * tn.fac e := by
    simp only [fromX96, NumCtx.mul, NumCtx.div, h.rnd, h.sq, hS]
  have hok := tickOk_of_range t h1 h2
  -- the price, by orientation
  have key : ∃ p, sqrtX96ToPrice tn s d0 d1 q0 = .ok p ∧ priceToSqrt tn p d0 d1 q0 = .ok S := by
    cases q0 with
    | false =>
      refine ⟨S * S * tn.fac e, by simp only [sqrtX96ToPrice, invIf, hpool, ← he]; rfl, ?_⟩
      have e1 : S * S * tn.fac e / tn.fac e = S * S := by field_simp
      have hnn : ¬ (S * S < 0) := not_lt.2 (by positivity)
      simp only [priceToSqrt, invIf, ← he, NumCtx.div, h.rnd, e1, Bool.false_eq_true, if_false, hnn]
      rw [h.sqrt S (le_of_lt hSpos)]
    | true =>
      have hne : S * S * tn.fac e ≠ 0 := by positivity
      refine ⟨1 / (S * S * tn.fac e), by simp only [sqrtX96ToPrice, invIf, hpool, ← he, NumCtx.div, h.rnd, hne, if_true, if_false], ?_⟩
      have hne2 : (1 / (S * S * tn.fac e)) ≠ 0 := by positivity
      have e1 : 1 / (1 / (S * S * tn.fac e)) / tn.fac e = S * S := by field_simp
      have hnn : ¬ (S * S < 0) := not_lt.2 (by positivity)
      simp only [priceToSqrt, invIf, ← he, NumCtx.div, h.rnd, hne2, e1, if_true, if_false, hnn]
      rw [h.sqrt S (le_of_lt hSpos)]
  obtain ⟨p, hp1, hp2⟩ := key
  have hx : toX96 tn S = (s : Int) := by
    have e2 : S * q96Rat = (s : Rat) := by rw [hS]; field_simp
    simp only [toX96, NumCtx.mul, h.rnd, e2]
    unfold truncInt
    simp
  refine ⟨p, ?_, ?_, ?_⟩
  · simp only [tickToPrice, hok, Bool.not_true, Bool.false_eq_true, if_false]; exact hp1
  · simp only [priceToSqrtX96, hp2, hx]
  · simp only [priceToTickX96, priceToSqrtX96, hp2, hx, Int.toNat_natCast]
    congr 1
    exact tickOfSqrt_floor fuel est s t h1 h2 (Nat.le_refl _)
      (fun hlt => C06_strict_mono t h1 hlt) hf

/-- **ε-robust round trip** through the integer-corrected conversion: in {t − 1, t}. -/
theorem C06_inverse_x96 (tn : TickNum) (ε : Rat) (h : Approx tn ε) (t : Int) (h1 : minTick ≤ t) (h2 : t ≤ maxTick)
    (d0 d1 : Nat) (q0 : Bool) (fuel : Nat) (est : Int) (hf : (clampTick est - t).natAbs + 1 ≤ fuel) :
    ∃ p r, tickToPrice tn t d0 d1 q0 = .ok p ∧ priceToTickX96 tn fuel est p d0 d1 q0 = .ok r ∧
      t - 1 ≤ r ∧ r ≤ t := by
  have h0 := h.eps_nonneg
  have he := h.eps_small
  have hmin := sqrtAt_ge_min t h1 h2
  have hs := sqrtAt_pos' t h1 h2
  set s := sqrtAt t with hs_def
  have hsq : (4295128739 : Rat) ≤ (s : Rat) := by exact_mod_cast hmin
  obtain ⟨p, x, e1, e2, x0, xl, xu⟩ := roundtrip_x96 h s hs d0 d1 q0
  have hok := tickOk_of_range t h1 h2
  -- numeric bounds on the accumulated error
  have hu : (1 + ε) ^ 17 ≤ 1 + 2 / 100000000 := by
    calc (1 + ε) ^ 17 ≤ (1 + 1 / 1000000000) ^ 17 := pow_le_pow_left₀ (by linarith) (by linarith) 17
      _ ≤ 1 + 2 / 100000000 := by norm_num
  have hl : 1 - 2 / 100000000 ≤ (1 - ε) ^ 16 := by
    calc (1 : Rat) - 2 / 100000000 ≤ (1 - 1 / 1000000000) ^ 16 := by norm_num
      _ ≤ (1 - ε) ^ 16 := pow_le_pow_left₀ (by norm_num) (by linarith) 16
  have xu' : (x : Rat) ≤ (s : Rat) * (1 + 2 / 100000000) :=
    le_trans xu (mul_le_mul_of_nonneg_left hu (by linarith))
  have xl' : (s : Rat) * (1 - 2 / 100000000) - 1 < (x : Rat) :=
    lt_of_le_of_lt (by linarith [mul_le_mul_of_nonneg_left hl (by linarith : (0 : Rat) ≤ (s : Rat))]) xl
  obtain ⟨X, hX⟩ : ∃ X : Nat, x = (X : Int) := ⟨x.toNat, by omega⟩
  subst hX
  have xuN : ((X : Nat) : Rat) ≤ (s : Rat) * (1 + 2 / 100000000) := by exact_mod_cast xu'
  have xlN : (s : Rat) * (1 - 2 / 100000000) - 1 < ((X : Nat) : Rat) := by exact_mod_cast xl'
  -- X is below the next tick
  have hnext : t < maxTick → X < sqrtAt (t + 1) := by
    intro hlt
    have hg := C06_tick_gap t h1 hlt
    have hgq : (100004 : Rat) * (s : Rat) ≤ 100000 * (sqrtAt (t + 1) : Rat) := by exact_mod_cast hg
    have : ((X : Nat) : Rat) < (sqrtAt (t + 1) : Rat) := by linarith
    exact_mod_cast this
  have hprice : tickToPrice tn t d0 d1 q0 = .ok p := by
    simp only [tickToPrice, hok, Bool.not_true, Bool.false_eq_true, if_false]; exact e1
  refine ⟨p, tickOfSqrt fuel est X, hprice, by simp only [priceToTickX96, e2, Int.toNat_natCast], ?_⟩
  by_cases hge : s ≤ X
  · have := tickOfSqrt_floor fuel est X t h1 h2 hge hnext (by omega)
    omega
  · have hlt : X < s := by omega
    by_cases hmn : t = minTick
    · have hb := tickOfSqrt_below fuel est X (by rw [← hmn]; exact hlt) (by rw [← hmn]; omega)
      omega
    · have hg := C06_tick_gap (t - 1) (by omega) (by omega)
      rw [Int.sub_add_cancel] at hg
      have hgq : (100004 : Rat) * (sqrtAt (t - 1) : Rat) ≤ 100000 * (s : Rat) := by exact_mod_cast hg
      have hprev : sqrtAt (t - 1) ≤ X := by
        have : (sqrtAt (t - 1) : Rat) < ((X : Nat) : Rat) := by linarith
        have : sqrtAt (t - 1) < X := by exact_mod_cast this
        omega
      have := tickOfSqrt_floor fuel est X (t - 1) (by omega) (by omega) hprev
        (fun _ => by rw [Int.sub_add_cancel]; exact hlt) (by omega)
      omega

/-! non-vacuity: the hypotheses are satisfiable (Proofs/Lemmas/TickInvDemo.lean), and the conclusions are about a
    concrete non-trivial round trip -/
example : ∃ tn, Exact tn ∧ Approx tn (1 / 1000000000) := ⟨demoTn, demo_exact, demo_approx⟩
example : ∃ p, tickToPrice demoTn (-200000) 6 18 true = .ok p ∧
    priceToTickX96 demoTn 64 (-199990) p 6 18 true = .ok (-200000) := by
  obtain ⟨p, a, _, c⟩ := C06_inverse_exact demoTn demo_exact (-200000) (by decide) (by decide) 6 18 true 64 (-199990) (by decide)
  exact ⟨p, a, c⟩

end Demeter
