-- shard 23 of the exhaustive TickMath sweep: |tick| in [753664, 786432)
import Proofs.Lemmas.SweepN
namespace Demeter
set_option maxRecDepth 100000 in
theorem sweep_shard_23 : chkN sweepPred 753664 shardBits = true := by decide +kernel
end Demeter
