-- shard 11 of the closeness / tick-gap sweep (C06 (c), (e)): |tick| in [360448, 393216), 16 blocks of 2^11
import Proofs.Lemmas.ClosePred
namespace Demeter.TickClose
set_option maxRecDepth 100000 in
theorem close_blk_360448 : chkN closeSweepPred 360448 11 = true := by decide +kernel
set_option maxRecDepth 100000 in
theorem close_blk_362496 : chkN closeSweepPred 362496 11 = true := by decide +kernel
set_option maxRecDepth 100000 in
theorem close_blk_364544 : chkN closeSweepPred 364544 11 = true := by decide +kernel
set_option maxRecDepth 100000 in
theorem close_blk_366592 : chkN closeSweepPred 366592 11 = true := by decide +kernel
set_option maxRecDepth 100000 in
theorem close_blk_368640 : chkN closeSweepPred 368640 11 = true := by decide +kernel
set_option maxRecDepth 100000 in
theorem close_blk_370688 : chkN closeSweepPred 370688 11 = true := by decide +kernel
set_option maxRecDepth 100000 in
theorem close_blk_372736 : chkN closeSweepPred 372736 11 = true := by decide +kernel
set_option maxRecDepth 100000 in
theorem close_blk_374784 : chkN closeSweepPred 374784 11 = true := by decide +kernel
set_option maxRecDepth 100000 in
theorem close_blk_376832 : chkN closeSweepPred 376832 11 = true := by decide +kernel
set_option maxRecDepth 100000 in
theorem close_blk_378880 : chkN closeSweepPred 378880 11 = true := by decide +kernel
set_option maxRecDepth 100000 in
theorem close_blk_380928 : chkN closeSweepPred 380928 11 = true := by decide +kernel
set_option maxRecDepth 100000 in
theorem close_blk_382976 : chkN closeSweepPred 382976 11 = true := by decide +kernel
set_option maxRecDepth 100000 in
theorem close_blk_385024 : chkN closeSweepPred 385024 11 = true := by decide +kernel
set_option maxRecDepth 100000 in
theorem close_blk_387072 : chkN closeSweepPred 387072 11 = true := by decide +kernel
set_option maxRecDepth 100000 in
theorem close_blk_389120 : chkN closeSweepPred 389120 11 = true := by decide +kernel
set_option maxRecDepth 100000 in
theorem close_blk_391168 : chkN closeSweepPred 391168 11 = true := by decide +kernel
theorem close_shard_11 : chkN closeSweepPred 360448 shardBits = true :=
  (chkN_join _ 360448 14 (chkN_join _ 360448 13 (chkN_join _ 360448 12 (chkN_join _ 360448 11 close_blk_360448 close_blk_362496) (chkN_join _ 364544 11 close_blk_364544 close_blk_366592)) (chkN_join _ 368640 12 (chkN_join _ 368640 11 close_blk_368640 close_blk_370688) (chkN_join _ 372736 11 close_blk_372736 close_blk_374784))) (chkN_join _ 376832 13 (chkN_join _ 376832 12 (chkN_join _ 376832 11 close_blk_376832 close_blk_378880) (chkN_join _ 380928 11 close_blk_380928 close_blk_382976)) (chkN_join _ 385024 12 (chkN_join _ 385024 11 close_blk_385024 close_blk_387072) (chkN_join _ 389120 11 close_blk_389120 close_blk_391168))))
end Demeter.TickClose
