-- shard 11 of the closeness / tick-gap sweep (C06 (c), (e)): |tick| in [360448, 393216)
import Proofs.Lemmas.ClosePred
namespace Demeter.TickClose
set_option maxRecDepth 100000 in
theorem close_shard_11 : chkN closeSweepPred 360448 shardBits = true := by decide +kernel
end Demeter.TickClose
