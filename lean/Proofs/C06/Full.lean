/-
  C06 (b) — strict monotonicity for all 1 774 545 ticks from the exhaustive kernel sweep, and the
  unconditional forms of the theorems of Proofs/C06.lean.
-/
import Proofs.C06
import Proofs.C06.SweepAll
namespace Demeter
open Gen

theorem monoPred_all (a : Nat) (h : a < 887272) :
    sqrtNegU (a + 1) < sqrtNegU a ∧ sqrtPosU a < sqrtPosU (a + 1) := by
  have hs := sweep_all a (by omega)
  simp only [sweepPred, Bool.and_eq_true] at hs
  have hm := hs.1
  unfold monoPred at hm
  have hb : Nat.ble tickBound a = false := by
    cases hbe : Nat.ble tickBound a with
    | false => rfl
    | true => have := Nat.le_of_ble_eq_true hbe; unfold tickBound at this; omega
  simp only [hb, Bool.false_or, Bool.and_eq_true] at hm
  have a1 : sqrtNegU (a + 1) + 1 ≤ sqrtNegU a := by simpa [Nat.blt] using hm.1
  have a2 : sqrtPosU a + 1 ≤ sqrtPosU (a + 1) := by simpa [Nat.blt] using hm.2
  exact ⟨by omega, by omega⟩

theorem sqrtPosU_zero : sqrtPosU 0 = sqrtNegU 0 := by decide +kernel

/-- **strictly increasing** on the whole tick range -/
theorem C06_strict_mono : MonoAll := by
  intro t h1 h2
  unfold minTick tickBound at h1
  unfold maxTick tickBound at h2
  by_cases hneg : t < 0
  · -- t = -(a+1), t+1 = -a
    obtain ⟨a, ha⟩ : ∃ a : Nat, t = -((a + 1 : Nat) : Int) := ⟨(-t - 1).toNat, by omega⟩
    have e1 : t + 1 = -((a : Nat) : Int) := by omega
    rw [e1, ha, sqrtAt_neg, sqrtAt_neg]
    exact (monoPred_all a (by omega)).1
  · obtain ⟨a, ha⟩ : ∃ a : Nat, t = (a : Int) := ⟨t.toNat, by omega⟩
    have e1 : t + 1 = ((a + 1 : Nat) : Int) := by omega
    rw [e1, ha, sqrtAt_pos (a + 1) (by omega)]
    have hm := (monoPred_all a (by omega)).2
    by_cases h0 : a = 0
    · subst h0
      have : sqrtAt ((0 : Nat) : Int) = sqrtNegU 0 := by
        have := sqrtAt_neg 0; simpa using this
      rw [this, ← sqrtPosU_zero]; exact hm
    · rw [sqrtAt_pos a (by omega)]; exact hm

/-- **floor**, unconditional -/
theorem C06_floor (fuel : Nat) (est : Int) (x : Nat) (ts : Int)
    (h1 : minTick ≤ ts) (h2 : ts < maxTick) (h3 : sqrtAt ts ≤ x) (h4 : x < sqrtAt (ts + 1))
    (hf : (clampTick est - ts).natAbs ≤ fuel) : tickOfSqrt fuel est x = ts :=
  C06_floor_of_mono C06_strict_mono fuel est x ts h1 h2 h3 h4 hf

/-- reciprocity of the concrete kernel (used by C09): `|s(−a)·s(a) − 2^192| ≤ 2·max(s(−a), s(a))` -/
theorem C06_reciprocity (a : Nat) (h : a ≤ 887272) (h0 : 0 < a) :
    sqrtAt (-(a : Int)) * sqrtAt a ≤ 2 ^ 192 + 2 * max (sqrtAt (-(a : Int))) (sqrtAt a) ∧
    2 ^ 192 ≤ sqrtAt (-(a : Int)) * sqrtAt a + 2 * max (sqrtAt (-(a : Int))) (sqrtAt a) := by
  have hs := sweep_all a (by omega)
  simp only [sweepPred, Bool.and_eq_true] at hs
  have hr := hs.2
  unfold recipPred at hr
  have hb : Nat.blt tickBound a = false := by
    cases hbe : Nat.blt tickBound a with
    | false => rfl
    | true =>
      have : tickBound + 1 ≤ a := by simpa [Nat.blt] using hbe
      unfold tickBound at this; omega
  rw [sqrtAt_neg, sqrtAt_pos a h0]
  simp only [hb, Bool.false_or, Bool.and_eq_true] at hr
  have e : (2 : Nat) ^ 192 = 6277101735386680763835789423207666416102355444464034512896 := by decide
  have hmax : (if Nat.ble (sqrtNegU a) (sqrtPosU a) = true then sqrtPosU a else sqrtNegU a)
      = max (sqrtNegU a) (sqrtPosU a) := by
    by_cases hle : sqrtNegU a ≤ sqrtPosU a
    · have : Nat.ble (sqrtNegU a) (sqrtPosU a) = true := Nat.ble_eq_true_of_le hle
      simp [this, Nat.max_eq_right hle]
    · have : Nat.ble (sqrtNegU a) (sqrtPosU a) = false := by
        cases hbe : Nat.ble (sqrtNegU a) (sqrtPosU a) with
        | false => rfl
        | true => exact absurd (Nat.le_of_ble_eq_true hbe) hle
      simp [this, Nat.max_eq_left (by omega : sqrtPosU a ≤ sqrtNegU a)]
  obtain ⟨ha, hb'⟩ := hr
  have ha' := Nat.le_of_ble_eq_true ha
  have hb'' := Nat.le_of_ble_eq_true hb'
  simp only [Nat.add_zero, Nat.add_eq, Nat.mul_eq] at ha' hb''
  rw [hmax] at ha' hb''
  rw [e]
  exact ⟨ha', hb''⟩

end Demeter
