-- shard 21 of the closeness / tick-gap sweep (C06 (c), (e)): |tick| in [688128, 720896), 16 blocks of 2^11
import Proofs.Lemmas.ClosePred
namespace Demeter.TickClose
set_option maxRecDepth 100000 in
theorem close_blk_688128 : chkN closeSweepPred 688128 11 = true := by decide +kernel
set_option maxRecDepth 100000 in
theorem close_blk_690176 : chkN closeSweepPred 690176 11 = true := by decide +kernel
set_option maxRecDepth 100000 in
theorem close_blk_692224 : chkN closeSweepPred 692224 11 = true := by decide +kernel
set_option maxRecDepth 100000 in
theorem close_blk_694272 : chkN closeSweepPred 694272 11 = true := by decide +kernel
set_option maxRecDepth 100000 in
theorem close_blk_696320 : chkN closeSweepPred 696320 11 = true := by decide +kernel
set_option maxRecDepth 100000 in
theorem close_blk_698368 : chkN closeSweepPred 698368 11 = true := by decide +kernel
set_option maxRecDepth 100000 in
theorem close_blk_700416 : chkN closeSweepPred 700416 11 = true := by decide +kernel
set_option maxRecDepth 100000 in
theorem close_blk_702464 : chkN closeSweepPred 702464 11 = true := by decide +kernel
set_option maxRecDepth 100000 in
theorem close_blk_704512 : chkN closeSweepPred 704512 11 = true := by decide +kernel
set_option maxRecDepth 100000 in
theorem close_blk_706560 : chkN closeSweepPred 706560 11 = true := by decide +kernel
set_option maxRecDepth 100000 in
theorem close_blk_708608 : chkN closeSweepPred 708608 11 = true := by decide +kernel
set_option maxRecDepth 100000 in
theorem close_blk_710656 : chkN closeSweepPred 710656 11 = true := by decide +kernel
set_option maxRecDepth 100000 in
theorem close_blk_712704 : chkN closeSweepPred 712704 11 = true := by decide +kernel
set_option maxRecDepth 100000 in
theorem close_blk_714752 : chkN closeSweepPred 714752 11 = true := by decide +kernel
set_option maxRecDepth 100000 in
theorem close_blk_716800 : chkN closeSweepPred 716800 11 = true := by decide +kernel
set_option maxRecDepth 100000 in
theorem close_blk_718848 : chkN closeSweepPred 718848 11 = true := by decide +kernel
theorem close_shard_21 : chkN closeSweepPred 688128 shardBits = true :=
  (chkN_join _ 688128 14 (chkN_join _ 688128 13 (chkN_join _ 688128 12 (chkN_join _ 688128 11 close_blk_688128 close_blk_690176) (chkN_join _ 692224 11 close_blk_692224 close_blk_694272)) (chkN_join _ 696320 12 (chkN_join _ 696320 11 close_blk_696320 close_blk_698368) (chkN_join _ 700416 11 close_blk_700416 close_blk_702464))) (chkN_join _ 704512 13 (chkN_join _ 704512 12 (chkN_join _ 704512 11 close_blk_704512 close_blk_706560) (chkN_join _ 708608 11 close_blk_708608 close_blk_710656)) (chkN_join _ 712704 12 (chkN_join _ 712704 11 close_blk_712704 close_blk_714752) (chkN_join _ 716800 11 close_blk_716800 close_blk_718848))))
end Demeter.TickClose
