-- shard 21 of the closeness / tick-gap sweep (C06 (c), (e)): |tick| in [688128, 720896)
import Proofs.Lemmas.ClosePred
namespace Demeter.TickClose
set_option maxRecDepth 100000 in
theorem close_shard_21 : chkN closeSweepPred 688128 shardBits = true := by decide +kernel
end Demeter.TickClose
