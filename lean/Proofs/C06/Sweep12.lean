-- shard 12 of the exhaustive TickMath sweep: |tick| in [393216, 425984)
import Proofs.Lemmas.SweepN
namespace Demeter
set_option maxRecDepth 100000 in
theorem sweep_shard_12 : chkN sweepPred 393216 shardBits = true := by decide +kernel
end Demeter
