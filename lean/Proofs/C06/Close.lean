/-
  C06 (c) — CLOSENESS of `get_sqrt_ratio_at_tick` to `√(1.0001^tick)·2^96`, for every tick in [−887272, 887272],
  and the relative gap between neighbouring ticks used by C06 (e).

  How it is proved (no `native_decide`, no real-number axioms):
    (i)   Proofs/C06/CloseCert.lean — kernel-checked certificates for twenty 192-bit constants
          `c_i = ⌊2^192·(10000/10001)^(2^i/2)⌋`:  c_i²·10001^(2^i) ≤ 2^384·10000^(2^i) ≤ (c_i+1)²·10001^(2^i);
    (ii)  Proofs/Lemmas/TickEnc.lean — the rounded-down product `L = encLowU a` of the constants selected by the bits
          of `a = |tick|` satisfies  L²·10001^a ≤ 2^384·10000^a ≤ (L+40)²·10001^a  (brackets multiply);
    (iii) Proofs/C06/Close00…27.lean — for every `a < 917504` the kernel evaluates `closeSweepPred a`: the model's
          `sqrtNegU a`, `sqrtPosU a` lie within the property's bound of every point of `[L, L+40]`;
          Proofs/Lemmas/TickCloseSound.lean turns the Boolean checks into the inequalities below.

  The statements are integer inequalities.  With  r := 1.0001^(tick/2)  (so r² = (10001/10000)^tick) and
  I := r·2^96  the ideal value, they read, for s = sqrtAt tick:
    tick = −a ≤ 0 :   (s−1)² < 2^192·(10000/10001)^a = I² < (s+1)²                     ⟺  |s − I| < 1
    tick =  a > 0 :   with β := 8·I·r/2^128 = (10001/10000)^a / 2^29:
                       β ≤ s − 1,  (s−1−β)² < I² = 2^192·(10001/10000)^a < (s+1+β)²       ⟺  |s − I| < 1 + β
  each multiplied by the positive denominators (`10001^a`, resp. `(2^29·10000^a)²`).
  Proofs/C06/CloseReal.lean restates them with `Real.sqrt`.
-/
import Proofs.C06.Full
import Proofs.C06.CloseCert
import Proofs.C06.CloseAll
import Proofs.Lemmas.TickCloseSound
namespace Demeter
open Gen TickClose

namespace TickClose

theorem closePred_all (a : Nat) (h : a ≤ 887272) :
    closeNegB (sqrtNegU a) (encLowU a) = true ∧ closePosB (sqrtPosU a) (encLowU a) = true := by
  have hs := close_all a (by omega)
  simp only [closeSweepPred, Bool.and_eq_true] at hs
  have hc := hs.1
  unfold closePred at hc
  have hb : Nat.blt tickBound a = false := by
    cases hbe : Nat.blt tickBound a with
    | false => rfl
    | true =>
      have : tickBound < a := (blt_iff _ _).1 hbe
      unfold tickBound at this; omega
  simpa [hb] using hc

theorem gapPred_all (a : Nat) (h : a < 887272) :
    100004 * sqrtNegU (a + 1) ≤ 100000 * sqrtNegU a ∧ 100004 * sqrtPosU a ≤ 100000 * sqrtPosU (a + 1) := by
  have hs := close_all a (by omega)
  simp only [closeSweepPred, Bool.and_eq_true] at hs
  have hg := hs.2
  unfold gapPred at hg
  have hb : Nat.ble tickBound a = false := by
    cases hbe : Nat.ble tickBound a with
    | false => rfl
    | true => have := Nat.le_of_ble_eq_true hbe; unfold tickBound at this; omega
  simpa [hb] using hg

/-- every sqrt price of the valid range is at least the protocol minimum -/
theorem sqrtAt_ge_min (t : Int) (h1 : minTick ≤ t) (h2 : t ≤ maxTick) : 4295128739 ≤ sqrtAt t := by
  have := mono_le' C06_strict_mono minTick t (by omega) h1 h2
  have e : sqrtAt minTick = 4295128739 := C06_boundary_min
  omega

end TickClose

/-- **closeness, tick ≤ 0**: `|sqrtAt(−a) − 2^96·√(1.0001^(−a))| < 1`, i.e. on squares and with the denominator
    `10001^a` cleared:  `(s−1)² < 2^192·(10000/10001)^a < (s+1)²`. -/
theorem C06_close_nonpos (a : Nat) (h : a ≤ 887272) :
    1 ≤ sqrtAt (-(a : Int)) ∧
    (sqrtAt (-(a : Int)) - 1) ^ 2 * 10001 ^ a < 2 ^ 192 * 10000 ^ a ∧
    2 ^ 192 * 10000 ^ a < (sqrtAt (-(a : Int)) + 1) ^ 2 * 10001 ^ a := by
  have hmin := sqrtAt_ge_min (-(a : Int)) (by unfold minTick tickBound; omega) (by unfold maxTick tickBound; omega)
  have hn : 1 ≤ sqrtAt (-(a : Int)) := by omega
  refine ⟨hn, ?_⟩
  rw [sqrtAt_neg] at hn ⊢
  exact close_neg_sound a _ _ hn (enc_bracket a (by omega)) (closePred_all a h).1

/-- **closeness, tick > 0**: `|sqrtAt a − I| < 1 + β` with `I = 2^96·√(1.0001^a)`, `β = 8·I·1.0001^(a/2)/2^128
    = (10001/10000)^a/2^29`; on squares and multiplied by `(2^29·10000^a)²`:
    `β ≤ s−1`,  `(s−1−β)² < I²`,  `I² < (s+1+β)²`  where `I² = 2^192·(10001/10000)^a`. -/
theorem C06_close_pos (a : Nat) (h0 : 0 < a) (h : a ≤ 887272) :
    10001 ^ a + 2 ^ 29 * 10000 ^ a ≤ sqrtAt a * 2 ^ 29 * 10000 ^ a ∧
    (sqrtAt a * 2 ^ 29 * 10000 ^ a - 2 ^ 29 * 10000 ^ a - 10001 ^ a) ^ 2 < 2 ^ 250 * 10001 ^ a * 10000 ^ a ∧
    2 ^ 250 * 10001 ^ a * 10000 ^ a < (sqrtAt a * 2 ^ 29 * 10000 ^ a + 2 ^ 29 * 10000 ^ a + 10001 ^ a) ^ 2 := by
  rw [sqrtAt_pos a h0]
  exact close_pos_sound a _ _ (enc_bracket a (by omega)) (closePred_all a h).2

/-- **relative gap between neighbouring ticks** (used by C06 (e)): `1.00004·sqrtAt t ≤ sqrtAt (t+1)` on the whole range
    (the ideal ratio is `√1.0001 = 1.00004999…`). -/
theorem C06_tick_gap (t : Int) (h1 : minTick ≤ t) (h2 : t < maxTick) :
    100004 * sqrtAt t ≤ 100000 * sqrtAt (t + 1) := by
  unfold minTick tickBound at h1
  unfold maxTick tickBound at h2
  by_cases hneg : t < 0
  · obtain ⟨a, ha⟩ : ∃ a : Nat, t = -((a + 1 : Nat) : Int) := ⟨(-t - 1).toNat, by omega⟩
    have e1 : t + 1 = -((a : Nat) : Int) := by omega
    rw [e1, ha, sqrtAt_neg, sqrtAt_neg]
    exact (gapPred_all a (by omega)).1
  · obtain ⟨a, ha⟩ : ∃ a : Nat, t = (a : Int) := ⟨t.toNat, by omega⟩
    have e1 : t + 1 = ((a + 1 : Nat) : Int) := by omega
    rw [e1, ha, sqrtAt_pos (a + 1) (by omega)]
    have hm := (gapPred_all a (by omega)).2
    by_cases h0 : a = 0
    · subst h0
      have : sqrtAt ((0 : Nat) : Int) = sqrtNegU 0 := by
        have := sqrtAt_neg 0; simpa using this
      rw [this, ← sqrtPosU_zero]; exact hm
    · rw [sqrtAt_pos a (by omega)]; exact hm

/-! non-vacuity: the statements at concrete ticks are non-trivial facts about the generated table -/
example : (sqrtAt (-1) - 1) ^ 2 * 10001 ^ 1 < 2 ^ 192 * 10000 ^ 1 ∧ 2 ^ 192 * 10000 ^ 1 < (sqrtAt (-1) + 1) ^ 2 * 10001 ^ 1 :=
  (C06_close_nonpos 1 (by decide)).2
-- … and it pins the value down: the same statement about `sqrtAt (-1) + 1` is false
example : ¬ ((sqrtAt (-1) + 1 - 1) ^ 2 * 10001 ^ 1 < 2 ^ 192 * 10000 ^ 1 ∧ 2 ^ 192 * 10000 ^ 1 < (sqrtAt (-1) + 1 + 1) ^ 2 * 10001 ^ 1) := by
  decide +kernel
example : 100004 * sqrtAt 5 ≤ 100000 * sqrtAt 6 ∧ ¬ (100006 * sqrtAt 5 ≤ 100000 * sqrtAt 6) := by decide +kernel

end Demeter
