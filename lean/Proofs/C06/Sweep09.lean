-- shard 9 of the exhaustive TickMath sweep: |tick| in [294912, 327680)
import Proofs.Lemmas.SweepN
namespace Demeter
set_option maxRecDepth 100000 in
theorem sweep_shard_09 : chkN sweepPred 294912 shardBits = true := by decide +kernel
end Demeter
