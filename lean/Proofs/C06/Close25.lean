-- shard 25 of the closeness / tick-gap sweep (C06 (c), (e)): |tick| in [819200, 851968)
import Proofs.Lemmas.ClosePred
namespace Demeter.TickClose
set_option maxRecDepth 100000 in
theorem close_shard_25 : chkN closeSweepPred 819200 shardBits = true := by decide +kernel
end Demeter.TickClose
