-- shard 25 of the closeness / tick-gap sweep (C06 (c), (e)): |tick| in [819200, 851968), 16 blocks of 2^11
import Proofs.Lemmas.ClosePred
namespace Demeter.TickClose
set_option maxRecDepth 100000 in
theorem close_blk_819200 : chkN closeSweepPred 819200 11 = true := by decide +kernel
set_option maxRecDepth 100000 in
theorem close_blk_821248 : chkN closeSweepPred 821248 11 = true := by decide +kernel
set_option maxRecDepth 100000 in
theorem close_blk_823296 : chkN closeSweepPred 823296 11 = true := by decide +kernel
set_option maxRecDepth 100000 in
theorem close_blk_825344 : chkN closeSweepPred 825344 11 = true := by decide +kernel
set_option maxRecDepth 100000 in
theorem close_blk_827392 : chkN closeSweepPred 827392 11 = true := by decide +kernel
set_option maxRecDepth 100000 in
theorem close_blk_829440 : chkN closeSweepPred 829440 11 = true := by decide +kernel
set_option maxRecDepth 100000 in
theorem close_blk_831488 : chkN closeSweepPred 831488 11 = true := by decide +kernel
set_option maxRecDepth 100000 in
theorem close_blk_833536 : chkN closeSweepPred 833536 11 = true := by decide +kernel
set_option maxRecDepth 100000 in
theorem close_blk_835584 : chkN closeSweepPred 835584 11 = true := by decide +kernel
set_option maxRecDepth 100000 in
theorem close_blk_837632 : chkN closeSweepPred 837632 11 = true := by decide +kernel
set_option maxRecDepth 100000 in
theorem close_blk_839680 : chkN closeSweepPred 839680 11 = true := by decide +kernel
set_option maxRecDepth 100000 in
theorem close_blk_841728 : chkN closeSweepPred 841728 11 = true := by decide +kernel
set_option maxRecDepth 100000 in
theorem close_blk_843776 : chkN closeSweepPred 843776 11 = true := by decide +kernel
set_option maxRecDepth 100000 in
theorem close_blk_845824 : chkN closeSweepPred 845824 11 = true := by decide +kernel
set_option maxRecDepth 100000 in
theorem close_blk_847872 : chkN closeSweepPred 847872 11 = true := by decide +kernel
set_option maxRecDepth 100000 in
theorem close_blk_849920 : chkN closeSweepPred 849920 11 = true := by decide +kernel
theorem close_shard_25 : chkN closeSweepPred 819200 shardBits = true :=
  (chkN_join _ 819200 14 (chkN_join _ 819200 13 (chkN_join _ 819200 12 (chkN_join _ 819200 11 close_blk_819200 close_blk_821248) (chkN_join _ 823296 11 close_blk_823296 close_blk_825344)) (chkN_join _ 827392 12 (chkN_join _ 827392 11 close_blk_827392 close_blk_829440) (chkN_join _ 831488 11 close_blk_831488 close_blk_833536))) (chkN_join _ 835584 13 (chkN_join _ 835584 12 (chkN_join _ 835584 11 close_blk_835584 close_blk_837632) (chkN_join _ 839680 11 close_blk_839680 close_blk_841728)) (chkN_join _ 843776 12 (chkN_join _ 843776 11 close_blk_843776 close_blk_845824) (chkN_join _ 847872 11 close_blk_847872 close_blk_849920))))
end Demeter.TickClose
