-- shard 21 of the exhaustive TickMath sweep: |tick| in [688128, 720896)
import Proofs.Lemmas.SweepN
namespace Demeter
set_option maxRecDepth 100000 in
theorem sweep_shard_21 : chkN sweepPred 688128 shardBits = true := by decide +kernel
end Demeter
