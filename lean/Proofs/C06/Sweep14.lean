-- shard 14 of the exhaustive TickMath sweep: |tick| in [458752, 491520)
import Proofs.Lemmas.SweepN
namespace Demeter
set_option maxRecDepth 100000 in
theorem sweep_shard_14 : chkN sweepPred 458752 shardBits = true := by decide +kernel
end Demeter
