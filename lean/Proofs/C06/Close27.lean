-- shard 27 of the closeness / tick-gap sweep (C06 (c), (e)): |tick| in [884736, 917504), 16 blocks of 2^11
import Proofs.Lemmas.ClosePred
namespace Demeter.TickClose
set_option maxRecDepth 100000 in
theorem close_blk_884736 : chkN closeSweepPred 884736 11 = true := by decide +kernel
set_option maxRecDepth 100000 in
theorem close_blk_886784 : chkN closeSweepPred 886784 11 = true := by decide +kernel
set_option maxRecDepth 100000 in
theorem close_blk_888832 : chkN closeSweepPred 888832 11 = true := by decide +kernel
set_option maxRecDepth 100000 in
theorem close_blk_890880 : chkN closeSweepPred 890880 11 = true := by decide +kernel
set_option maxRecDepth 100000 in
theorem close_blk_892928 : chkN closeSweepPred 892928 11 = true := by decide +kernel
set_option maxRecDepth 100000 in
theorem close_blk_894976 : chkN closeSweepPred 894976 11 = true := by decide +kernel
set_option maxRecDepth 100000 in
theorem close_blk_897024 : chkN closeSweepPred 897024 11 = true := by decide +kernel
set_option maxRecDepth 100000 in
theorem close_blk_899072 : chkN closeSweepPred 899072 11 = true := by decide +kernel
set_option maxRecDepth 100000 in
theorem close_blk_901120 : chkN closeSweepPred 901120 11 = true := by decide +kernel
set_option maxRecDepth 100000 in
theorem close_blk_903168 : chkN closeSweepPred 903168 11 = true := by decide +kernel
set_option maxRecDepth 100000 in
theorem close_blk_905216 : chkN closeSweepPred 905216 11 = true := by decide +kernel
set_option maxRecDepth 100000 in
theorem close_blk_907264 : chkN closeSweepPred 907264 11 = true := by decide +kernel
set_option maxRecDepth 100000 in
theorem close_blk_909312 : chkN closeSweepPred 909312 11 = true := by decide +kernel
set_option maxRecDepth 100000 in
theorem close_blk_911360 : chkN closeSweepPred 911360 11 = true := by decide +kernel
set_option maxRecDepth 100000 in
theorem close_blk_913408 : chkN closeSweepPred 913408 11 = true := by decide +kernel
set_option maxRecDepth 100000 in
theorem close_blk_915456 : chkN closeSweepPred 915456 11 = true := by decide +kernel
theorem close_shard_27 : chkN closeSweepPred 884736 shardBits = true :=
  (chkN_join _ 884736 14 (chkN_join _ 884736 13 (chkN_join _ 884736 12 (chkN_join _ 884736 11 close_blk_884736 close_blk_886784) (chkN_join _ 888832 11 close_blk_888832 close_blk_890880)) (chkN_join _ 892928 12 (chkN_join _ 892928 11 close_blk_892928 close_blk_894976) (chkN_join _ 897024 11 close_blk_897024 close_blk_899072))) (chkN_join _ 901120 13 (chkN_join _ 901120 12 (chkN_join _ 901120 11 close_blk_901120 close_blk_903168) (chkN_join _ 905216 11 close_blk_905216 close_blk_907264)) (chkN_join _ 909312 12 (chkN_join _ 909312 11 close_blk_909312 close_blk_911360) (chkN_join _ 913408 11 close_blk_913408 close_blk_915456))))
end Demeter.TickClose
