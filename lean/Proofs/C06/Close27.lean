-- shard 27 of the closeness / tick-gap sweep (C06 (c), (e)): |tick| in [884736, 917504)
import Proofs.Lemmas.ClosePred
namespace Demeter.TickClose
set_option maxRecDepth 100000 in
theorem close_shard_27 : chkN closeSweepPred 884736 shardBits = true := by decide +kernel
end Demeter.TickClose
