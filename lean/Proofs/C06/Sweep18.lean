-- shard 18 of the exhaustive TickMath sweep: |tick| in [589824, 622592)
import Proofs.Lemmas.SweepN
namespace Demeter
set_option maxRecDepth 100000 in
theorem sweep_shard_18 : chkN sweepPred 589824 shardBits = true := by decide +kernel
end Demeter
