-- shard 25 of the exhaustive TickMath sweep: |tick| in [819200, 851968)
import Proofs.Lemmas.SweepN
namespace Demeter
set_option maxRecDepth 100000 in
theorem sweep_shard_25 : chkN sweepPred 819200 shardBits = true := by decide +kernel
end Demeter
