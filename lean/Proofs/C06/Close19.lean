-- shard 19 of the closeness / tick-gap sweep (C06 (c), (e)): |tick| in [622592, 655360), 16 blocks of 2^11
import Proofs.Lemmas.ClosePred
namespace Demeter.TickClose
set_option maxRecDepth 100000 in
theorem close_blk_622592 : chkN closeSweepPred 622592 11 = true := by decide +kernel
set_option maxRecDepth 100000 in
theorem close_blk_624640 : chkN closeSweepPred 624640 11 = true := by decide +kernel
set_option maxRecDepth 100000 in
theorem close_blk_626688 : chkN closeSweepPred 626688 11 = true := by decide +kernel
set_option maxRecDepth 100000 in
theorem close_blk_628736 : chkN closeSweepPred 628736 11 = true := by decide +kernel
set_option maxRecDepth 100000 in
theorem close_blk_630784 : chkN closeSweepPred 630784 11 = true := by decide +kernel
set_option maxRecDepth 100000 in
theorem close_blk_632832 : chkN closeSweepPred 632832 11 = true := by decide +kernel
set_option maxRecDepth 100000 in
theorem close_blk_634880 : chkN closeSweepPred 634880 11 = true := by decide +kernel
set_option maxRecDepth 100000 in
theorem close_blk_636928 : chkN closeSweepPred 636928 11 = true := by decide +kernel
set_option maxRecDepth 100000 in
theorem close_blk_638976 : chkN closeSweepPred 638976 11 = true := by decide +kernel
set_option maxRecDepth 100000 in
theorem close_blk_641024 : chkN closeSweepPred 641024 11 = true := by decide +kernel
set_option maxRecDepth 100000 in
theorem close_blk_643072 : chkN closeSweepPred 643072 11 = true := by decide +kernel
set_option maxRecDepth 100000 in
theorem close_blk_645120 : chkN closeSweepPred 645120 11 = true := by decide +kernel
set_option maxRecDepth 100000 in
theorem close_blk_647168 : chkN closeSweepPred 647168 11 = true := by decide +kernel
set_option maxRecDepth 100000 in
theorem close_blk_649216 : chkN closeSweepPred 649216 11 = true := by decide +kernel
set_option maxRecDepth 100000 in
theorem close_blk_651264 : chkN closeSweepPred 651264 11 = true := by decide +kernel
set_option maxRecDepth 100000 in
theorem close_blk_653312 : chkN closeSweepPred 653312 11 = true := by decide +kernel
theorem close_shard_19 : chkN closeSweepPred 622592 shardBits = true :=
  (chkN_join _ 622592 14 (chkN_join _ 622592 13 (chkN_join _ 622592 12 (chkN_join _ 622592 11 close_blk_622592 close_blk_624640) (chkN_join _ 626688 11 close_blk_626688 close_blk_628736)) (chkN_join _ 630784 12 (chkN_join _ 630784 11 close_blk_630784 close_blk_632832) (chkN_join _ 634880 11 close_blk_634880 close_blk_636928))) (chkN_join _ 638976 13 (chkN_join _ 638976 12 (chkN_join _ 638976 11 close_blk_638976 close_blk_641024) (chkN_join _ 643072 11 close_blk_643072 close_blk_645120)) (chkN_join _ 647168 12 (chkN_join _ 647168 11 close_blk_647168 close_blk_649216) (chkN_join _ 651264 11 close_blk_651264 close_blk_653312))))
end Demeter.TickClose
