-- shard 19 of the closeness / tick-gap sweep (C06 (c), (e)): |tick| in [622592, 655360)
import Proofs.Lemmas.ClosePred
namespace Demeter.TickClose
set_option maxRecDepth 100000 in
theorem close_shard_19 : chkN closeSweepPred 622592 shardBits = true := by decide +kernel
end Demeter.TickClose
