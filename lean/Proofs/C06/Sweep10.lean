-- shard 10 of the exhaustive TickMath sweep: |tick| in [327680, 360448)
import Proofs.Lemmas.SweepN
namespace Demeter
set_option maxRecDepth 100000 in
theorem sweep_shard_10 : chkN sweepPred 327680 shardBits = true := by decide +kernel
end Demeter
