-- shard 2 of the exhaustive TickMath sweep: |tick| in [65536, 98304)
import Proofs.Lemmas.SweepN
namespace Demeter
set_option maxRecDepth 100000 in
theorem sweep_shard_02 : chkN sweepPred 65536 shardBits = true := by decide +kernel
end Demeter
