-- shard 26 of the exhaustive TickMath sweep: |tick| in [851968, 884736)
import Proofs.Lemmas.SweepN
namespace Demeter
set_option maxRecDepth 100000 in
theorem sweep_shard_26 : chkN sweepPred 851968 shardBits = true := by decide +kernel
end Demeter
