-- shard 3 of the exhaustive TickMath sweep: |tick| in [98304, 131072)
import Proofs.Lemmas.SweepN
namespace Demeter
set_option maxRecDepth 100000 in
theorem sweep_shard_03 : chkN sweepPred 98304 shardBits = true := by decide +kernel
end Demeter
