-- shard 23 of the closeness / tick-gap sweep (C06 (c), (e)): |tick| in [753664, 786432), 16 blocks of 2^11
import Proofs.Lemmas.ClosePred
namespace Demeter.TickClose
set_option maxRecDepth 100000 in
theorem close_blk_753664 : chkN closeSweepPred 753664 11 = true := by decide +kernel
set_option maxRecDepth 100000 in
theorem close_blk_755712 : chkN closeSweepPred 755712 11 = true := by decide +kernel
set_option maxRecDepth 100000 in
theorem close_blk_757760 : chkN closeSweepPred 757760 11 = true := by decide +kernel
set_option maxRecDepth 100000 in
theorem close_blk_759808 : chkN closeSweepPred 759808 11 = true := by decide +kernel
set_option maxRecDepth 100000 in
theorem close_blk_761856 : chkN closeSweepPred 761856 11 = true := by decide +kernel
set_option maxRecDepth 100000 in
theorem close_blk_763904 : chkN closeSweepPred 763904 11 = true := by decide +kernel
set_option maxRecDepth 100000 in
theorem close_blk_765952 : chkN closeSweepPred 765952 11 = true := by decide +kernel
set_option maxRecDepth 100000 in
theorem close_blk_768000 : chkN closeSweepPred 768000 11 = true := by decide +kernel
set_option maxRecDepth 100000 in
theorem close_blk_770048 : chkN closeSweepPred 770048 11 = true := by decide +kernel
set_option maxRecDepth 100000 in
theorem close_blk_772096 : chkN closeSweepPred 772096 11 = true := by decide +kernel
set_option maxRecDepth 100000 in
theorem close_blk_774144 : chkN closeSweepPred 774144 11 = true := by decide +kernel
set_option maxRecDepth 100000 in
theorem close_blk_776192 : chkN closeSweepPred 776192 11 = true := by decide +kernel
set_option maxRecDepth 100000 in
theorem close_blk_778240 : chkN closeSweepPred 778240 11 = true := by decide +kernel
set_option maxRecDepth 100000 in
theorem close_blk_780288 : chkN closeSweepPred 780288 11 = true := by decide +kernel
set_option maxRecDepth 100000 in
theorem close_blk_782336 : chkN closeSweepPred 782336 11 = true := by decide +kernel
set_option maxRecDepth 100000 in
theorem close_blk_784384 : chkN closeSweepPred 784384 11 = true := by decide +kernel
theorem close_shard_23 : chkN closeSweepPred 753664 shardBits = true :=
  (chkN_join _ 753664 14 (chkN_join _ 753664 13 (chkN_join _ 753664 12 (chkN_join _ 753664 11 close_blk_753664 close_blk_755712) (chkN_join _ 757760 11 close_blk_757760 close_blk_759808)) (chkN_join _ 761856 12 (chkN_join _ 761856 11 close_blk_761856 close_blk_763904) (chkN_join _ 765952 11 close_blk_765952 close_blk_768000))) (chkN_join _ 770048 13 (chkN_join _ 770048 12 (chkN_join _ 770048 11 close_blk_770048 close_blk_772096) (chkN_join _ 774144 11 close_blk_774144 close_blk_776192)) (chkN_join _ 778240 12 (chkN_join _ 778240 11 close_blk_778240 close_blk_780288) (chkN_join _ 782336 11 close_blk_782336 close_blk_784384))))
end Demeter.TickClose
