-- shard 23 of the closeness / tick-gap sweep (C06 (c), (e)): |tick| in [753664, 786432)
import Proofs.Lemmas.ClosePred
namespace Demeter.TickClose
set_option maxRecDepth 100000 in
theorem close_shard_23 : chkN closeSweepPred 753664 shardBits = true := by decide +kernel
end Demeter.TickClose
