-- shard 8 of the exhaustive TickMath sweep: |tick| in [262144, 294912)
import Proofs.Lemmas.SweepN
namespace Demeter
set_option maxRecDepth 100000 in
theorem sweep_shard_08 : chkN sweepPred 262144 shardBits = true := by decide +kernel
end Demeter
