-- shard 15 of the closeness / tick-gap sweep (C06 (c), (e)): |tick| in [491520, 524288)
import Proofs.Lemmas.ClosePred
namespace Demeter.TickClose
set_option maxRecDepth 100000 in
theorem close_shard_15 : chkN closeSweepPred 491520 shardBits = true := by decide +kernel
end Demeter.TickClose
