-- shard 15 of the closeness / tick-gap sweep (C06 (c), (e)): |tick| in [491520, 524288), 16 blocks of 2^11
import Proofs.Lemmas.ClosePred
namespace Demeter.TickClose
set_option maxRecDepth 100000 in
theorem close_blk_491520 : chkN closeSweepPred 491520 11 = true := by decide +kernel
set_option maxRecDepth 100000 in
theorem close_blk_493568 : chkN closeSweepPred 493568 11 = true := by decide +kernel
set_option maxRecDepth 100000 in
theorem close_blk_495616 : chkN closeSweepPred 495616 11 = true := by decide +kernel
set_option maxRecDepth 100000 in
theorem close_blk_497664 : chkN closeSweepPred 497664 11 = true := by decide +kernel
set_option maxRecDepth 100000 in
theorem close_blk_499712 : chkN closeSweepPred 499712 11 = true := by decide +kernel
set_option maxRecDepth 100000 in
theorem close_blk_501760 : chkN closeSweepPred 501760 11 = true := by decide +kernel
set_option maxRecDepth 100000 in
theorem close_blk_503808 : chkN closeSweepPred 503808 11 = true := by decide +kernel
set_option maxRecDepth 100000 in
theorem close_blk_505856 : chkN closeSweepPred 505856 11 = true := by decide +kernel
set_option maxRecDepth 100000 in
theorem close_blk_507904 : chkN closeSweepPred 507904 11 = true := by decide +kernel
set_option maxRecDepth 100000 in
theorem close_blk_509952 : chkN closeSweepPred 509952 11 = true := by decide +kernel
set_option maxRecDepth 100000 in
theorem close_blk_512000 : chkN closeSweepPred 512000 11 = true := by decide +kernel
set_option maxRecDepth 100000 in
theorem close_blk_514048 : chkN closeSweepPred 514048 11 = true := by decide +kernel
set_option maxRecDepth 100000 in
theorem close_blk_516096 : chkN closeSweepPred 516096 11 = true := by decide +kernel
set_option maxRecDepth 100000 in
theorem close_blk_518144 : chkN closeSweepPred 518144 11 = true := by decide +kernel
set_option maxRecDepth 100000 in
theorem close_blk_520192 : chkN closeSweepPred 520192 11 = true := by decide +kernel
set_option maxRecDepth 100000 in
theorem close_blk_522240 : chkN closeSweepPred 522240 11 = true := by decide +kernel
theorem close_shard_15 : chkN closeSweepPred 491520 shardBits = true :=
  (chkN_join _ 491520 14 (chkN_join _ 491520 13 (chkN_join _ 491520 12 (chkN_join _ 491520 11 close_blk_491520 close_blk_493568) (chkN_join _ 495616 11 close_blk_495616 close_blk_497664)) (chkN_join _ 499712 12 (chkN_join _ 499712 11 close_blk_499712 close_blk_501760) (chkN_join _ 503808 11 close_blk_503808 close_blk_505856))) (chkN_join _ 507904 13 (chkN_join _ 507904 12 (chkN_join _ 507904 11 close_blk_507904 close_blk_509952) (chkN_join _ 512000 11 close_blk_512000 close_blk_514048)) (chkN_join _ 516096 12 (chkN_join _ 516096 11 close_blk_516096 close_blk_518144) (chkN_join _ 520192 11 close_blk_520192 close_blk_522240))))
end Demeter.TickClose
