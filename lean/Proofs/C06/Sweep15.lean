-- shard 15 of the exhaustive TickMath sweep: |tick| in [491520, 524288)
import Proofs.Lemmas.SweepN
namespace Demeter
set_option maxRecDepth 100000 in
theorem sweep_shard_15 : chkN sweepPred 491520 shardBits = true := by decide +kernel
end Demeter
