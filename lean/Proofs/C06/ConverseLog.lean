/-
  C06 (e), price → tick → price through the float-logarithm route `base_unit_price_to_tick` (review finding C06-2, second route).

  Under the single libm assumption `LgSound tn 10⁻⁹` (Proofs/Lemmas/TickInv.lean) the tick `r = base_unit_price_to_tick(p)` of any
  positive price brackets that price up to the perturbation allowed for the logarithm (10⁻⁹ on the sqrt price), the closeness of the
  integer sqrt prices to `1.0001^(t/2)` (2⁻³⁰, `C06_close_rel`) and nine Decimal roundings:

      q0 = false:   price(r) ≤ p·(1 + 2·10⁻⁸)     and   p·(1 − 2·10⁻⁸) ≤ price(r+1)
      q0 = true :   p·(1 − 2·10⁻⁸) ≤ price(r)     and   price(r+1) ≤ p·(1 + 2·10⁻⁸)

  whenever `r` and `r + 1` are valid ticks (the float route does not clamp).  `C06_inverse_converse_log_round35` is the instance
  for the 35-digit context (there the factors of `C06_inverse_converse_log_factors` give ≈ 4·10⁻⁹; stated with the same 2·10⁻⁸).
-/
import Proofs.C06.Converse
namespace Demeter
open Gen TickInv Numerics
set_option exponentiation.threshold 200000

/-- the bracket with the error factors kept symbolic -/
theorem C06_inverse_converse_log_factors (tn : TickNum) (ε : Rat) (h : Approx tn ε) (hl : LgSound tn (1 / 1000000000))
    (p : Rat) (hp : 0 < p) (d0 d1 : Nat) (q0 : Bool) :
    ∃ r, priceToTick tn p d0 d1 q0 = .ok r ∧
      (minTick ≤ r → r < maxTick → ∃ pl ph, tickToPrice tn r d0 d1 q0 = .ok pl ∧ tickToPrice tn (r + 1) d0 d1 q0 = .ok ph ∧
        0 < pl ∧ 0 < ph ∧
        (q0 = false → pl * (1 - 1 / 2 ^ 30) ^ 2 ≤ p * ((1 + ε) ^ 9 * (1 + 1 / 1000000000) ^ 2) ∧
                      p * ((1 - ε) ^ 9 * (1 - 1 / 1000000000) ^ 2) ≤ ph * (1 + 1 / 2 ^ 30) ^ 2) ∧
        (q0 = true → p * ((1 - 1 / 2 ^ 30) ^ 2 * (1 - ε) ^ 6) ≤ pl * ((1 + ε) ^ 4 * (1 + 1 / 1000000000) ^ 2) ∧
                     ph * ((1 - ε) ^ 4 * (1 - 1 / 1000000000) ^ 2) ≤ p * ((1 + 1 / 2 ^ 30) ^ 2 * (1 + ε) ^ 11))) := by
  have h0 := h.eps_nonneg
  have h1 := h.eps_small
  have hs := one_sub_pos h0 h1
  have ha := one_add_pos h0 h1
  set F := tn.fac ((d0 : Int) - d1) with hFdef
  have hF : 0 < F := h.fac_pos _
  set A : Rat := if q0 then 1 / p else p with hAdef
  have hA : 0 < A := by rw [hAdef]; split <;> positivity
  obtain ⟨sp, esp, sp0, spl, spu⟩ := priceToSqrt_bounds h p hp d0 d1 q0
  have hAF : 0 < A / F := div_pos hA hF
  have hsp2 : 0 < sp ^ 2 := lt_of_lt_of_le (by positivity) spl
  have hsp : 0 < sp := by
    rcases lt_or_eq_of_le sp0 with hlt | heq
    · exact hlt
    · rw [← heq] at hsp2; norm_num at hsp2
  obtain ⟨lg1, lg2⟩ := hl sp hsp
  have hback : priceToTick tn p d0 d1 q0 = .ok (tn.lg sp) := by
    simp only [priceToTick, esp]
    rw [if_neg (not_le.2 hsp)]
  refine ⟨tn.lg sp, hback, fun r1 r2 => ?_⟩
  set r := tn.lg sp with hr
  obtain ⟨cl0, cu0⟩ := C06_close_rel r r1 (by omega)
  obtain ⟨cl1, cu1⟩ := C06_close_rel (r + 1) (by omega) (by omega)
  obtain ⟨hT0, pl, epl, fl1, fl2⟩ := tickToPrice_rel h r r1 (by omega) d0 d1 q0
  obtain ⟨hT1, ph, eph, fh1, fh2⟩ := tickToPrice_rel h (r + 1) (by omega) (by omega) d0 d1 q0
  rw [← hFdef] at hT0 hT1 fl1 fl2 fh1 fh2
  rw [q96Rat_eq] at hT0 hT1 fl1 fl2 fh1 fh2
  set S0 : Rat := (sqrtAt r : Rat) / 2 ^ 96 with hS0
  set S1 : Rat := (sqrtAt (r + 1) : Rat) / 2 ^ 96 with hS1
  -- T_r·c ≤ A·U   and   A·V ≤ T_{r+1}·C
  have kU : S0 * S0 * F * (1 - 1 / 2 ^ 30) ^ 2 ≤ A * ((1 + ε) ^ 4 * (1 + 1 / 1000000000) ^ 2) := by
    have a1 : (S0 * (1 - 1 / 2 ^ 30)) ^ 2 ≤ sp ^ 2 * (1 + 1 / 1000000000) ^ 2 := by
      calc (S0 * (1 - 1 / 2 ^ 30)) ^ 2 ≤ rho ^ r := cl0
        _ ≤ (sp * (1 + 1 / 1000000000)) ^ 2 := lg1
        _ = sp ^ 2 * (1 + 1 / 1000000000) ^ 2 := by ring
    have a2 : sp ^ 2 * (1 + 1 / 1000000000) ^ 2 ≤ A / F * (1 + ε) ^ 4 * (1 + 1 / 1000000000) ^ 2 :=
      mul_le_mul_of_nonneg_right spu (by positivity)
    have a3 := mul_le_mul_of_nonneg_right (le_trans a1 a2) (le_of_lt hF)
    have e1 : (S0 * (1 - 1 / 2 ^ 30)) ^ 2 * F = S0 * S0 * F * (1 - 1 / 2 ^ 30) ^ 2 := by ring
    have e2 : A / F * (1 + ε) ^ 4 * (1 + 1 / 1000000000) ^ 2 * F = A * ((1 + ε) ^ 4 * (1 + 1 / 1000000000) ^ 2) := by
      field_simp
    rw [e1, e2] at a3
    exact a3
  have kV : A * ((1 - ε) ^ 4 * (1 - 1 / 1000000000) ^ 2) ≤ S1 * S1 * F * (1 + 1 / 2 ^ 30) ^ 2 := by
    have a1 : sp ^ 2 * (1 - 1 / 1000000000) ^ 2 ≤ (S1 * (1 + 1 / 2 ^ 30)) ^ 2 := by
      calc sp ^ 2 * (1 - 1 / 1000000000) ^ 2 = (sp * (1 - 1 / 1000000000)) ^ 2 := by ring
        _ ≤ rho ^ (r + 1) := le_of_lt lg2
        _ ≤ (S1 * (1 + 1 / 2 ^ 30)) ^ 2 := cu1
    have a2 : A / F * (1 - ε) ^ 4 * (1 - 1 / 1000000000) ^ 2 ≤ sp ^ 2 * (1 - 1 / 1000000000) ^ 2 :=
      mul_le_mul_of_nonneg_right spl (by positivity)
    have a3 := mul_le_mul_of_nonneg_right (le_trans a2 a1) (le_of_lt hF)
    have e1 : (S1 * (1 + 1 / 2 ^ 30)) ^ 2 * F = S1 * S1 * F * (1 + 1 / 2 ^ 30) ^ 2 := by ring
    have e2 : A / F * (1 - ε) ^ 4 * (1 - 1 / 1000000000) ^ 2 * F = A * ((1 - ε) ^ 4 * (1 - 1 / 1000000000) ^ 2) := by
      field_simp
    rw [e1, e2] at a3
    exact a3
  set T0 := S0 * S0 * F with hT0def
  set T1 := S1 * S1 * F with hT1def
  have hplpos : 0 < pl := by
    cases q0 with
    | false => exact rel_pos h0 h1 hT0 (fl1 rfl)
    | true => exact rel_pos h0 h1 (by positivity) (fl2 rfl)
  have hphpos : 0 < ph := by
    cases q0 with
    | false => exact rel_pos h0 h1 hT1 (fh1 rfl)
    | true => exact rel_pos h0 h1 (by positivity) (fh2 rfl)
  refine ⟨pl, ph, epl, eph, hplpos, hphpos, ?_, ?_⟩
  · intro hq0
    have hAp : A = p := by rw [hAdef, hq0]; rfl
    rw [hAp] at kU kV
    obtain ⟨_, u⟩ := fl1 hq0
    obtain ⟨l, _⟩ := fh1 hq0
    constructor
    · calc pl * (1 - 1 / 2 ^ 30) ^ 2 ≤ T0 * (1 + ε) ^ 5 * (1 - 1 / 2 ^ 30) ^ 2 := mul_le_mul_of_nonneg_right u (by positivity)
        _ = T0 * (1 - 1 / 2 ^ 30) ^ 2 * (1 + ε) ^ 5 := by ring
        _ ≤ p * ((1 + ε) ^ 4 * (1 + 1 / 1000000000) ^ 2) * (1 + ε) ^ 5 := mul_le_mul_of_nonneg_right kU (by positivity)
        _ = p * ((1 + ε) ^ 9 * (1 + 1 / 1000000000) ^ 2) := by ring
    · calc p * ((1 - ε) ^ 9 * (1 - 1 / 1000000000) ^ 2)
          = p * ((1 - ε) ^ 4 * (1 - 1 / 1000000000) ^ 2) * (1 - ε) ^ 5 := by ring
        _ ≤ T1 * (1 + 1 / 2 ^ 30) ^ 2 * (1 - ε) ^ 5 := mul_le_mul_of_nonneg_right kV (by positivity)
        _ = T1 * (1 - ε) ^ 5 * (1 + 1 / 2 ^ 30) ^ 2 := by ring
        _ ≤ ph * (1 + 1 / 2 ^ 30) ^ 2 := mul_le_mul_of_nonneg_right l (by positivity)
  · intro hq0
    have hAp : A = 1 / p := by rw [hAdef, hq0]; rfl
    rw [hAp] at kU kV
    obtain ⟨l, _⟩ := fl2 hq0
    obtain ⟨_, u⟩ := fh2 hq0
    constructor
    · -- p·c ≤ U / T0
      have k : p * (T0 * (1 - 1 / 2 ^ 30) ^ 2) ≤ (1 + ε) ^ 4 * (1 + 1 / 1000000000) ^ 2 := by
        have := mul_le_mul_of_nonneg_left kU (le_of_lt hp)
        have e : p * (1 / p * ((1 + ε) ^ 4 * (1 + 1 / 1000000000) ^ 2)) = (1 + ε) ^ 4 * (1 + 1 / 1000000000) ^ 2 := by
          field_simp
        rwa [e] at this
      have k2 : p * (1 - 1 / 2 ^ 30) ^ 2 ≤ (1 + ε) ^ 4 * (1 + 1 / 1000000000) ^ 2 * (1 / T0) := by
        rw [mul_one_div, le_div_iff₀ hT0]; linarith
      calc p * ((1 - 1 / 2 ^ 30) ^ 2 * (1 - ε) ^ 6) = p * (1 - 1 / 2 ^ 30) ^ 2 * (1 - ε) ^ 6 := by ring
        _ ≤ (1 + ε) ^ 4 * (1 + 1 / 1000000000) ^ 2 * (1 / T0) * (1 - ε) ^ 6 := mul_le_mul_of_nonneg_right k2 (by positivity)
        _ = (1 / T0 * (1 - ε) ^ 6) * ((1 + ε) ^ 4 * (1 + 1 / 1000000000) ^ 2) := by ring
        _ ≤ pl * ((1 + ε) ^ 4 * (1 + 1 / 1000000000) ^ 2) := mul_le_mul_of_nonneg_right l (by positivity)
    · have k : (1 - ε) ^ 4 * (1 - 1 / 1000000000) ^ 2 ≤ p * (T1 * (1 + 1 / 2 ^ 30) ^ 2) := by
        have := mul_le_mul_of_nonneg_left kV (le_of_lt hp)
        have e : p * (1 / p * ((1 - ε) ^ 4 * (1 - 1 / 1000000000) ^ 2)) = (1 - ε) ^ 4 * (1 - 1 / 1000000000) ^ 2 := by
          field_simp
        rwa [e] at this
      have k2 : (1 / T1) * ((1 - ε) ^ 4 * (1 - 1 / 1000000000) ^ 2) ≤ p * (1 + 1 / 2 ^ 30) ^ 2 := by
        rw [one_div, inv_mul_le_iff₀ hT1]; linarith
      calc ph * ((1 - ε) ^ 4 * (1 - 1 / 1000000000) ^ 2)
          ≤ (1 / T1 * (1 + ε) ^ 11) * ((1 - ε) ^ 4 * (1 - 1 / 1000000000) ^ 2) := mul_le_mul_of_nonneg_right u (by positivity)
        _ = (1 / T1 * ((1 - ε) ^ 4 * (1 - 1 / 1000000000) ^ 2)) * (1 + ε) ^ 11 := by ring
        _ ≤ p * (1 + 1 / 2 ^ 30) ^ 2 * (1 + ε) ^ 11 := mul_le_mul_of_nonneg_right k2 (by positivity)
        _ = p * ((1 + 1 / 2 ^ 30) ^ 2 * (1 + ε) ^ 11) := by ring

/-- **price → tick → price through the float logarithm**, any arithmetic with relative error ≤ ε ≤ 10⁻⁹ per operation:
    the bracket holds to 2·10⁻⁸ relative. -/
theorem C06_inverse_converse_log (tn : TickNum) (ε : Rat) (h : Approx tn ε) (hl : LgSound tn (1 / 1000000000))
    (p : Rat) (hp : 0 < p) (d0 d1 : Nat) (q0 : Bool) :
    ∃ r, priceToTick tn p d0 d1 q0 = .ok r ∧
      (minTick ≤ r → r < maxTick → ∃ pl ph, tickToPrice tn r d0 d1 q0 = .ok pl ∧ tickToPrice tn (r + 1) d0 d1 q0 = .ok ph ∧
        (q0 = false → pl ≤ p * (1 + 2 / 10 ^ 8) ∧ p * (1 - 2 / 10 ^ 8) ≤ ph) ∧
        (q0 = true → p * (1 - 2 / 10 ^ 8) ≤ pl ∧ ph ≤ p * (1 + 2 / 10 ^ 8))) := by
  obtain ⟨r, e, f⟩ := C06_inverse_converse_log_factors tn ε h hl p hp d0 d1 q0
  refine ⟨r, e, fun r1 r2 => ?_⟩
  obtain ⟨pl, ph, a, b, hpl, hph, c, d⟩ := f r1 r2
  have h0 := h.eps_nonneg
  have h1 := h.eps_small
  have hs := one_sub_pos h0 h1
  have u9 : (1 + ε) ^ 9 ≤ (1 + 1 / 1000000000) ^ 9 := pow_le_pow_left₀ (by linarith) (by linarith) 9
  have u4 : (1 + ε) ^ 4 ≤ (1 + 1 / 1000000000) ^ 4 := pow_le_pow_left₀ (by linarith) (by linarith) 4
  have u11 : (1 + ε) ^ 11 ≤ (1 + 1 / 1000000000) ^ 11 := pow_le_pow_left₀ (by linarith) (by linarith) 11
  have l9 : (1 - 1 / 1000000000 : Rat) ^ 9 ≤ (1 - ε) ^ 9 := pow_le_pow_left₀ (by norm_num) (by linarith) 9
  have l6 : (1 - 1 / 1000000000 : Rat) ^ 6 ≤ (1 - ε) ^ 6 := pow_le_pow_left₀ (by norm_num) (by linarith) 6
  have l4 : (1 - 1 / 1000000000 : Rat) ^ 4 ≤ (1 - ε) ^ 4 := pow_le_pow_left₀ (by norm_num) (by linarith) 4
  have hc : (0 : Rat) < (1 - 1 / 2 ^ 30) ^ 2 := by norm_num
  have hC : (0 : Rat) < (1 + 1 / 2 ^ 30) ^ 2 := by norm_num
  refine ⟨pl, ph, a, b, fun hq0 => ?_, fun hq0 => ?_⟩
  · obtain ⟨c1, c2⟩ := c hq0
    constructor
    · -- pl·c ≤ p·U9 ≤ p·(1+2e-8)·c
      have k : (1 + ε) ^ 9 * (1 + 1 / 1000000000 : Rat) ^ 2 ≤ (1 + 2 / 10 ^ 8) * (1 - 1 / 2 ^ 30) ^ 2 :=
        le_trans (mul_le_mul_of_nonneg_right u9 (by norm_num)) (by norm_num)
      have := le_trans c1 (mul_le_mul_of_nonneg_left k (le_of_lt hp))
      have e2 : p * ((1 + 2 / 10 ^ 8) * (1 - 1 / 2 ^ 30) ^ 2) = p * (1 + 2 / 10 ^ 8) * (1 - 1 / 2 ^ 30) ^ 2 := by ring
      rw [e2] at this
      exact le_of_mul_le_mul_right this hc
    · have k : (1 - 2 / 10 ^ 8 : Rat) * (1 + 1 / 2 ^ 30) ^ 2 ≤ (1 - ε) ^ 9 * (1 - 1 / 1000000000) ^ 2 :=
        le_trans (by norm_num) (mul_le_mul_of_nonneg_right l9 (by norm_num))
      have := le_trans (mul_le_mul_of_nonneg_left k (le_of_lt hp)) c2
      have e2 : p * ((1 - 2 / 10 ^ 8) * (1 + 1 / 2 ^ 30) ^ 2) = p * (1 - 2 / 10 ^ 8) * (1 + 1 / 2 ^ 30) ^ 2 := by ring
      rw [e2] at this
      exact le_of_mul_le_mul_right this hC
  · obtain ⟨d1', d2'⟩ := d hq0
    constructor
    · -- p·c·(1−ε)^6 ≤ pl·U4 ;  (1−2e-8)·U4 ≤ c·(1−ε)^6
      have hU : (0 : Rat) < (1 + ε) ^ 4 * (1 + 1 / 1000000000) ^ 2 := by positivity
      have k : (1 - 2 / 10 ^ 8 : Rat) * ((1 + ε) ^ 4 * (1 + 1 / 1000000000) ^ 2) ≤ (1 - 1 / 2 ^ 30) ^ 2 * (1 - ε) ^ 6 := by
        calc (1 - 2 / 10 ^ 8 : Rat) * ((1 + ε) ^ 4 * (1 + 1 / 1000000000) ^ 2)
            ≤ (1 - 2 / 10 ^ 8) * ((1 + 1 / 1000000000) ^ 4 * (1 + 1 / 1000000000) ^ 2) :=
              mul_le_mul_of_nonneg_left (mul_le_mul_of_nonneg_right u4 (by norm_num)) (by norm_num)
          _ ≤ (1 - 1 / 2 ^ 30) ^ 2 * (1 - 1 / 1000000000) ^ 6 := by norm_num
          _ ≤ (1 - 1 / 2 ^ 30) ^ 2 * (1 - ε) ^ 6 := mul_le_mul_of_nonneg_left l6 (le_of_lt hc)
      have := le_trans (mul_le_mul_of_nonneg_left k (le_of_lt hp)) d1'
      have e2 : p * ((1 - 2 / 10 ^ 8) * ((1 + ε) ^ 4 * (1 + 1 / 1000000000) ^ 2))
          = p * (1 - 2 / 10 ^ 8) * ((1 + ε) ^ 4 * (1 + 1 / 1000000000) ^ 2) := by ring
      rw [e2] at this
      exact le_of_mul_le_mul_right this hU
    · have hV : (0 : Rat) < (1 - ε) ^ 4 * (1 - 1 / 1000000000) ^ 2 := by
        have : (0 : Rat) < (1 - 1 / 1000000000) ^ 2 := by norm_num
        positivity
      have k : (1 + 1 / 2 ^ 30 : Rat) ^ 2 * (1 + ε) ^ 11 ≤ (1 + 2 / 10 ^ 8) * ((1 - ε) ^ 4 * (1 - 1 / 1000000000) ^ 2) := by
        calc (1 + 1 / 2 ^ 30 : Rat) ^ 2 * (1 + ε) ^ 11 ≤ (1 + 1 / 2 ^ 30) ^ 2 * (1 + 1 / 1000000000) ^ 11 :=
              mul_le_mul_of_nonneg_left u11 (le_of_lt hC)
          _ ≤ (1 + 2 / 10 ^ 8) * ((1 - 1 / 1000000000) ^ 4 * (1 - 1 / 1000000000) ^ 2) := by norm_num
          _ ≤ (1 + 2 / 10 ^ 8) * ((1 - ε) ^ 4 * (1 - 1 / 1000000000) ^ 2) :=
              mul_le_mul_of_nonneg_left (mul_le_mul_of_nonneg_right l4 (by norm_num)) (by norm_num)
      have := le_trans d2' (mul_le_mul_of_nonneg_left k (le_of_lt hp))
      have e2 : p * ((1 + 2 / 10 ^ 8) * ((1 - ε) ^ 4 * (1 - 1 / 1000000000) ^ 2))
          = p * (1 + 2 / 10 ^ 8) * ((1 - ε) ^ 4 * (1 - 1 / 1000000000) ^ 2) := by ring
      rw [e2] at this
      exact le_of_mul_le_mul_right this hV

/-- the 35-digit instance (ε = 5·10⁻³⁵ proved; `LgSound pyGTn 10⁻⁹` the single libm assumption; any positive `Decimal(10**e)`) -/
theorem C06_inverse_converse_log_round35 (fac : Int → Rat) (hfac : ∀ e, 0 < fac e) (hl : LgSound pyGTn (1 / 10 ^ 9))
    (p : Rat) (hp : 0 < p) (d0 d1 : Nat) (q0 : Bool) :
    ∃ r, priceToTick (pyGTnFac fac) p d0 d1 q0 = .ok r ∧
      (minTick ≤ r → r < maxTick → ∃ pl ph, tickToPrice (pyGTnFac fac) r d0 d1 q0 = .ok pl ∧
        tickToPrice (pyGTnFac fac) (r + 1) d0 d1 q0 = .ok ph ∧
        (q0 = false → pl ≤ p * (1 + 2 / 10 ^ 8) ∧ p * (1 - 2 / 10 ^ 8) ≤ ph) ∧
        (q0 = true → p * (1 - 2 / 10 ^ 8) ≤ pl ∧ ph ≤ p * (1 + 2 / 10 ^ 8))) :=
  C06_inverse_converse_log (pyGTnFac fac) EPS35 (pyGTnFac_approx fac hfac) (by norm_num at hl ⊢; exact hl) p hp d0 d1 q0

/-! non-vacuity: the demo context satisfies both hypotheses -/
example : ∃ tn, Approx tn (1 / 1000000000) ∧ LgSound tn (1 / 1000000000) := ⟨demoTn, demo_approx, demo_lg⟩

end Demeter
