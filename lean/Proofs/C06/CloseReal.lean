/-
  C06 (c) in the words of the property: for every tick in [−887272, 887272]

      | get_sqrt_ratio_at_tick(tick) − √(1.0001^tick)·2^96 |  <  1                          (tick ≤ 0)
      | get_sqrt_ratio_at_tick(tick) − I |  <  1 + 8·I·√(1.0001^tick)/2^128,  I = √(1.0001^tick)·2^96   (tick > 0)

  over the real numbers (`Real.sqrt`), as corollaries of the integer theorems C06_close_nonpos / C06_close_pos.
-/
import Proofs.C06.Close
import Mathlib.Analysis.Real.Sqrt
import Mathlib.Tactic.Linarith
import Mathlib.Tactic.Positivity
import Mathlib.Tactic.Ring
import Mathlib.Tactic.NormNum
import Mathlib.Tactic.FieldSimp
namespace Demeter
open Gen TickClose

namespace TickClose

/-- `(u)² < x < (v)²`, `0 ≤ u`, `0 ≤ v`  ⟹  `u < √x < v` -/
theorem sqrt_between {u v x : ℝ} (hu : 0 ≤ u) (hv : 0 ≤ v) (hx : 0 ≤ x) (h1 : u ^ 2 < x) (h2 : x < v ^ 2) :
    u < Real.sqrt x ∧ Real.sqrt x < v := by
  constructor
  · exact (Real.lt_sqrt hu).2 h1
  · exact (Real.sqrt_lt' (lt_of_le_of_ne hv (by
      rintro rfl
      have : (0 : ℝ) ^ 2 = 0 := by norm_num
      rw [this] at h2; linarith))).2 h2

end TickClose

/-- **closeness, tick ≤ 0**, real-number form -/
theorem C06_close_real_nonpos (a : Nat) (h : a ≤ 887272) :
    |(sqrtAt (-(a : Int)) : ℝ) - Real.sqrt ((1.0001 : ℝ) ^ (-(a : Int))) * 2 ^ 96| < 1 := by
  obtain ⟨c0, c1, c2⟩ := C06_close_nonpos a h
  set s := sqrtAt (-(a : Int)) with hs
  have hP : (0 : ℝ) < (10001 : ℝ) ^ a := by positivity
  have e : (1.0001 : ℝ) ^ (-(a : Int)) = (10000 : ℝ) ^ a / (10001 : ℝ) ^ a := by
    rw [zpow_neg, zpow_natCast]
    have : (1.0001 : ℝ) = 10001 / 10000 := by norm_num
    rw [this, div_pow, inv_div]
  have c1r : (((s - 1 : Nat) : ℝ)) ^ 2 * (10001 : ℝ) ^ a < 2 ^ 192 * (10000 : ℝ) ^ a := by exact_mod_cast c1
  have c2r : (2 : ℝ) ^ 192 * (10000 : ℝ) ^ a < ((s : ℝ) + 1) ^ 2 * (10001 : ℝ) ^ a := by exact_mod_cast c2
  have es1 : (((s - 1 : Nat) : ℝ)) = (s : ℝ) - 1 := by rw [Nat.cast_sub c0]; simp
  rw [es1] at c1r
  have hs1 : (1 : ℝ) ≤ (s : ℝ) := by exact_mod_cast c0
  -- x = 2^192·(Q/P)^a = I²
  set x : ℝ := 2 ^ 192 * ((10000 : ℝ) ^ a / (10001 : ℝ) ^ a) with hx
  have hx0 : 0 ≤ x := by positivity
  have l1 : ((s : ℝ) - 1) ^ 2 < x := by
    rw [hx, mul_div_assoc', lt_div_iff₀ hP]; exact c1r
  have l2 : x < ((s : ℝ) + 1) ^ 2 := by
    rw [hx, mul_div_assoc', div_lt_iff₀ hP]; exact c2r
  obtain ⟨b1, b2⟩ := sqrt_between (by linarith) (by linarith) hx0 l1 l2
  have eI : Real.sqrt ((1.0001 : ℝ) ^ (-(a : Int))) * 2 ^ 96 = Real.sqrt x := by
    rw [e, hx]
    have h192 : (2 : ℝ) ^ 192 = (2 ^ 96) ^ 2 := by rw [← pow_mul]
    rw [h192, Real.sqrt_mul (by positivity), Real.sqrt_sq (by positivity), mul_comm]
  rw [eI, abs_lt]
  constructor <;> linarith

/-- **closeness, tick > 0**, real-number form: the allowed error is one unit plus the relative
    `8·1.0001^(tick/2)/2^128` of the ideal value -/
theorem C06_close_real_pos (a : Nat) (h0 : 0 < a) (h : a ≤ 887272) :
    |(sqrtAt (a : Int) : ℝ) - Real.sqrt ((1.0001 : ℝ) ^ a) * 2 ^ 96|
      < 1 + 8 * (Real.sqrt ((1.0001 : ℝ) ^ a) * 2 ^ 96) * Real.sqrt ((1.0001 : ℝ) ^ a) / 2 ^ 128 := by
  obtain ⟨g0, g1, g2⟩ := C06_close_pos a h0 h
  set s := sqrtAt (a : Int) with hs
  have hP : (0 : ℝ) < (10001 : ℝ) ^ a := by positivity
  have hQ : (0 : ℝ) < (10000 : ℝ) ^ a := by positivity
  have e : (1.0001 : ℝ) ^ a = (10001 : ℝ) ^ a / (10000 : ℝ) ^ a := by
    have : (1.0001 : ℝ) = 10001 / 10000 := by norm_num
    rw [this, div_pow]
  set R : ℝ := (10001 : ℝ) ^ a / (10000 : ℝ) ^ a with hR
  have hRpos : 0 < R := by positivity
  set β : ℝ := R / 2 ^ 29 with hβ
  have hβpos : 0 < β := by positivity
  -- the bound of the property is 1 + β
  have eb : 8 * (Real.sqrt R * 2 ^ 96) * Real.sqrt R / 2 ^ 128 = β := by
    have : Real.sqrt R * Real.sqrt R = R := Real.mul_self_sqrt (le_of_lt hRpos)
    calc 8 * (Real.sqrt R * 2 ^ 96) * Real.sqrt R / 2 ^ 128
        = (Real.sqrt R * Real.sqrt R) * (8 * 2 ^ 96 / 2 ^ 128) := by ring
      _ = R * (8 * 2 ^ 96 / 2 ^ 128) := by rw [this]
      _ = β := by rw [hβ]; norm_num; ring
  rw [e, eb]
  have hD : (0 : ℝ) < 2 ^ 29 * (10000 : ℝ) ^ a := by positivity
  have eβD : β * (2 ^ 29 * (10000 : ℝ) ^ a) = (10001 : ℝ) ^ a := by
    rw [hβ, hR]; field_simp
  have g0r : (10001 : ℝ) ^ a + 2 ^ 29 * (10000 : ℝ) ^ a ≤ (s : ℝ) * 2 ^ 29 * (10000 : ℝ) ^ a := by
    exact_mod_cast g0
  have f0 : β ≤ (s : ℝ) - 1 := by
    have : β * (2 ^ 29 * (10000 : ℝ) ^ a) ≤ ((s : ℝ) - 1) * (2 ^ 29 * (10000 : ℝ) ^ a) := by
      rw [eβD]; linarith
    exact le_of_mul_le_mul_right this hD
  have g1r : (((s : ℝ) - 1 - β) * (2 ^ 29 * (10000 : ℝ) ^ a)) ^ 2 < 2 ^ 250 * (10001 : ℝ) ^ a * (10000 : ℝ) ^ a := by
    have hsub : ((s * 2 ^ 29 * 10000 ^ a - 2 ^ 29 * 10000 ^ a - 10001 ^ a : Nat) : ℝ)
        = ((s : ℝ) - 1 - β) * (2 ^ 29 * (10000 : ℝ) ^ a) := by
      have i1 : 2 ^ 29 * 10000 ^ a ≤ s * 2 ^ 29 * 10000 ^ a := Nat.le_trans (Nat.le_add_left _ _) g0
      have i2 : 10001 ^ a ≤ s * 2 ^ 29 * 10000 ^ a - 2 ^ 29 * 10000 ^ a := Nat.le_sub_of_add_le g0
      rw [Nat.cast_sub i2, Nat.cast_sub i1]
      push_cast
      rw [sub_mul, sub_mul, eβD]; ring
    have hc : (((s * 2 ^ 29 * 10000 ^ a - 2 ^ 29 * 10000 ^ a - 10001 ^ a : Nat) : ℝ)) ^ 2
        < ((2 ^ 250 * 10001 ^ a * 10000 ^ a : Nat) : ℝ) := by exact_mod_cast g1
    rw [hsub] at hc
    simp only [Nat.cast_mul, Nat.cast_pow, Nat.cast_ofNat] at hc
    exact hc
  have g2r : (2 : ℝ) ^ 250 * (10001 : ℝ) ^ a * (10000 : ℝ) ^ a < (((s : ℝ) + 1 + β) * (2 ^ 29 * (10000 : ℝ) ^ a)) ^ 2 := by
    have hc : ((2 ^ 250 * 10001 ^ a * 10000 ^ a : Nat) : ℝ)
        < (((s * 2 ^ 29 * 10000 ^ a + 2 ^ 29 * 10000 ^ a + 10001 ^ a : Nat) : ℝ)) ^ 2 := by
      exact_mod_cast g2
    simp only [Nat.cast_mul, Nat.cast_pow, Nat.cast_add, Nat.cast_ofNat] at hc
    have : ((s : ℝ) + 1 + β) * (2 ^ 29 * (10000 : ℝ) ^ a)
        = (s : ℝ) * 2 ^ 29 * (10000 : ℝ) ^ a + 2 ^ 29 * (10000 : ℝ) ^ a + (10001 : ℝ) ^ a := by
      rw [add_mul, add_mul, eβD]; ring
    rw [this]; exact hc
  have eI : (2 : ℝ) ^ 250 * (10001 : ℝ) ^ a * (10000 : ℝ) ^ a = 2 ^ 192 * R * (2 ^ 29 * (10000 : ℝ) ^ a) ^ 2 := by
    rw [hR]; field_simp
  have f1 : ((s : ℝ) - 1 - β) ^ 2 < 2 ^ 192 * R := by
    rw [mul_pow, eI] at g1r
    exact lt_of_mul_lt_mul_right g1r (by positivity)
  have f2 : 2 ^ 192 * R < ((s : ℝ) + 1 + β) ^ 2 := by
    rw [mul_pow, eI] at g2r
    exact lt_of_mul_lt_mul_right g2r (by positivity)
  obtain ⟨b1, b2⟩ := sqrt_between (by linarith) (by positivity) (by positivity) f1 f2
  have eS : Real.sqrt R * 2 ^ 96 = Real.sqrt (2 ^ 192 * R) := by
    have h192 : (2 : ℝ) ^ 192 = (2 ^ 96) ^ 2 := by rw [← pow_mul]
    rw [h192, Real.sqrt_mul (by positivity), Real.sqrt_sq (by positivity), mul_comm]
  rw [eS, abs_lt]
  constructor <;> linarith

end Demeter
