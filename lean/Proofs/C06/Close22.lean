-- shard 22 of the closeness / tick-gap sweep (C06 (c), (e)): |tick| in [720896, 753664)
import Proofs.Lemmas.ClosePred
namespace Demeter.TickClose
set_option maxRecDepth 100000 in
theorem close_shard_22 : chkN closeSweepPred 720896 shardBits = true := by decide +kernel
end Demeter.TickClose
