-- shard 22 of the closeness / tick-gap sweep (C06 (c), (e)): |tick| in [720896, 753664), 16 blocks of 2^11
import Proofs.Lemmas.ClosePred
namespace Demeter.TickClose
set_option maxRecDepth 100000 in
theorem close_blk_720896 : chkN closeSweepPred 720896 11 = true := by decide +kernel
set_option maxRecDepth 100000 in
theorem close_blk_722944 : chkN closeSweepPred 722944 11 = true := by decide +kernel
set_option maxRecDepth 100000 in
theorem close_blk_724992 : chkN closeSweepPred 724992 11 = true := by decide +kernel
set_option maxRecDepth 100000 in
theorem close_blk_727040 : chkN closeSweepPred 727040 11 = true := by decide +kernel
set_option maxRecDepth 100000 in
theorem close_blk_729088 : chkN closeSweepPred 729088 11 = true := by decide +kernel
set_option maxRecDepth 100000 in
theorem close_blk_731136 : chkN closeSweepPred 731136 11 = true := by decide +kernel
set_option maxRecDepth 100000 in
theorem close_blk_733184 : chkN closeSweepPred 733184 11 = true := by decide +kernel
set_option maxRecDepth 100000 in
theorem close_blk_735232 : chkN closeSweepPred 735232 11 = true := by decide +kernel
set_option maxRecDepth 100000 in
theorem close_blk_737280 : chkN closeSweepPred 737280 11 = true := by decide +kernel
set_option maxRecDepth 100000 in
theorem close_blk_739328 : chkN closeSweepPred 739328 11 = true := by decide +kernel
set_option maxRecDepth 100000 in
theorem close_blk_741376 : chkN closeSweepPred 741376 11 = true := by decide +kernel
set_option maxRecDepth 100000 in
theorem close_blk_743424 : chkN closeSweepPred 743424 11 = true := by decide +kernel
set_option maxRecDepth 100000 in
theorem close_blk_745472 : chkN closeSweepPred 745472 11 = true := by decide +kernel
set_option maxRecDepth 100000 in
theorem close_blk_747520 : chkN closeSweepPred 747520 11 = true := by decide +kernel
set_option maxRecDepth 100000 in
theorem close_blk_749568 : chkN closeSweepPred 749568 11 = true := by decide +kernel
set_option maxRecDepth 100000 in
theorem close_blk_751616 : chkN closeSweepPred 751616 11 = true := by decide +kernel
theorem close_shard_22 : chkN closeSweepPred 720896 shardBits = true :=
  (chkN_join _ 720896 14 (chkN_join _ 720896 13 (chkN_join _ 720896 12 (chkN_join _ 720896 11 close_blk_720896 close_blk_722944) (chkN_join _ 724992 11 close_blk_724992 close_blk_727040)) (chkN_join _ 729088 12 (chkN_join _ 729088 11 close_blk_729088 close_blk_731136) (chkN_join _ 733184 11 close_blk_733184 close_blk_735232))) (chkN_join _ 737280 13 (chkN_join _ 737280 12 (chkN_join _ 737280 11 close_blk_737280 close_blk_739328) (chkN_join _ 741376 11 close_blk_741376 close_blk_743424)) (chkN_join _ 745472 12 (chkN_join _ 745472 11 close_blk_745472 close_blk_747520) (chkN_join _ 749568 11 close_blk_749568 close_blk_751616))))
end Demeter.TickClose
