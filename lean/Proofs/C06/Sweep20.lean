-- shard 20 of the exhaustive TickMath sweep: |tick| in [655360, 688128)
import Proofs.Lemmas.SweepN
namespace Demeter
set_option maxRecDepth 100000 in
theorem sweep_shard_20 : chkN sweepPred 655360 shardBits = true := by decide +kernel
end Demeter
