/-
  C14 — Squeeth vaults: the 150 % rule.  An accepted mint / collateral withdrawal / LP withdrawal leaves the vault
  with no debt or with effective collateral (ETH + LP position at the index price) ≥ 1.5 × debt at the TWAP and
  ≥ 0.5 ETH.  (TWAP window: Proofs/C14/Window.lean; liquidation: Proofs/C14/Liquidation.lean; amounts never
  negative and exact movements: Proofs/C14/Amounts.lean.)
-/
import Proofs.C14.Window
import Mathlib.Tactic.Linarith
import Mathlib.Tactic.NormNum
import Mathlib.Tactic.Ring
import Mathlib.Algebra.Order.Field.Rat
namespace Demeter
open Squeeth Gen

/-- what `get_vault_status = (True, False)` says in exact arithmetic: no debt, or
    `2 · collateral ≥ 3 · debt` with `debt = short · norm_factor · twap(ETH) / 10000` and `collateral ≥ 0.5` -/
theorem C14_safe_status_means (e : Env) (s : State) (vk : Nat)
    (h : vaultStatus NumCtx.exact e s vk = .ok (true, false)) :
    ∃ v, AList.get? s.vaults vk = some v ∧
      (v.short = 0 ∨ ∃ c, effColl NumCtx.exact e s vk = .ok c ∧
        3 * (v.short * e.nf * twap e .weth / 10000) ≤ 2 * c ∧ 1 / 2 ≤ c) := by
  unfold vaultStatus at h
  cases hv : AList.get? s.vaults vk with
  | none => rw [hv] at h; simp at h
  | some v =>
    refine ⟨v, rfl, ?_⟩
    rw [hv] at h
    by_cases h0 : v.short = 0
    · exact Or.inl h0
    · right
      simp only [h0, if_false] at h
      cases hc : effColl NumCtx.exact e s vk with
      | error er => rw [hc] at h; simp at h
      | ok c =>
        rw [hc] at h
        simp only [Except.ok.injEq, Prod.mk.injEq, decide_eq_true_eq, decide_eq_false_iff_not, debtEth,
          NumCtx.exact_mul, NumCtx.exact_div, C14_constants.2.2.1, C14_constants.2.2.2.1, C14_constants.2.2.2.2.1,
          C14_constants.2.2.2.2.2.2.2.1] at h
        exact ⟨c, rfl, by linarith [h.1], by linarith [h.2]⟩

/-- the effective collateral: the vault's ETH, plus — when an LP position is deposited — the position's WETH and its
    oSQTH at the *index* price `norm_factor · twap(ETH) / 10000` (liquidity amounts at the pool price + pending) -/
theorem C14_effective_collateral (e : Env) (s : State) (vk : Nat) (v : Vault) (hv : AList.get? s.vaults vk = some v) :
    effColl NumCtx.exact e s vk =
      match v.nft with
      | none => .ok v.coll
      | some pos =>
        match AList.get? s.positions pos with
        | none => .error (.key "position")
        | some p => .ok (v.coll + ((posAmount NumCtx.exact e s pos).1 + p.pending0)
                          + ((posAmount NumCtx.exact e s pos).2 + p.pending1) * (e.nf * twap e .weth / 10000)) := by
  unfold effColl
  rw [hv]
  cases hn : v.nft with
  | none => simp only [hn]
  | some pos =>
    cases hp : AList.get? s.positions pos with
    | none => simp only [hn, hp]
    | some p =>
      simp only [hn, hp, lpCollateral, NumCtx.exact_add, NumCtx.exact_mul, NumCtx.exact_div, C14_constants.2.2.2.2.2.2.2.1]
      congr 1; ring

namespace Squeeth
/-- the vault an operation works on -/
def Op.vault (s : State) : Op → Option Nat
  | .openMint _ _ vk? _ => some (openVault s vk?).2
  | .burnWithdraw vk _ _ => some vk
  | .withdrawUni vk _ => some vk
  | _ => none
end Squeeth

theorem C14_accepted_mint_is_safe (cx : NumCtx) (e : Env) (s : State) (d m : Rat) (vk? : Option Nat) (pos? : Option PosKey)
    (h : (step cx e s (.openMint d m vk? pos?)).err = none) :
    vaultStatus cx e (step cx e s (.openMint d m vk? pos?)).st (openVault s vk?).2 = .ok (true, false) := by
  unfold step at h ⊢
  simp only [Op.isAtomic, if_true] at h ⊢
  obtain ⟨hb, heq⟩ := atomic_ok h
  rw [heq]
  unfold stepBody openBody at hb ⊢
  simp only [] at hb ⊢
  obtain ⟨_, _, e2⟩ := Res.andThen_ok hb
  rw [e2] at hb ⊢
  obtain ⟨_, _, e4⟩ := Res.andThen_ok hb
  rw [e4] at hb ⊢
  obtain ⟨_, _, e6⟩ := Res.andThen_ok hb
  rw [e6] at hb ⊢
  obtain ⟨hs, hst⟩ := checked_ok hb
  rw [hst]; exact hs

theorem C14_accepted_withdrawal_is_safe (cx : NumCtx) (e : Env) (s : State) (vk : Nat) (b w : Rat)
    (h : (step cx e s (.burnWithdraw vk b w)).err = none) :
    vaultStatus cx e (step cx e s (.burnWithdraw vk b w)).st vk = .ok (true, false) := by
  unfold step at h ⊢
  simp only [Op.isAtomic, if_true] at h ⊢
  obtain ⟨hb, heq⟩ := atomic_ok h
  rw [heq]
  unfold stepBody burnWithdrawBody at hb ⊢
  simp only [] at hb ⊢
  obtain ⟨_, _, e2⟩ := Res.andThen_ok hb
  rw [e2] at hb ⊢
  obtain ⟨_, _, e4⟩ := Res.andThen_ok hb
  rw [e4] at hb ⊢
  obtain ⟨hs, hst⟩ := checked_ok hb
  rw [hst]; exact hs

theorem C14_accepted_lp_withdrawal_is_safe (cx : NumCtx) (e : Env) (s : State) (vk : Nat) (pos : PosKey)
    (h : (step cx e s (.withdrawUni vk pos)).err = none) :
    vaultStatus cx e (step cx e s (.withdrawUni vk pos)).st vk = .ok (true, false) := by
  unfold step at h ⊢
  simp only [Op.isAtomic, if_true] at h ⊢
  obtain ⟨hb, heq⟩ := atomic_ok h
  rw [heq]
  unfold stepBody withdrawUniBody at hb ⊢
  simp only [] at hb ⊢
  cases hv : AList.get? s.vaults vk with
  | none => simp [hv] at hb
  | some v =>
    simp only [hv] at hb ⊢
    by_cases hn : v.nft = some pos
    · simp only [hn, ne_eq, not_true_eq_false, if_false] at hb ⊢
      cases hp : AList.get? (s.setVault vk { v with nft := none }).positions pos with
      | none => simp [hp] at hb
      | some p =>
        simp only [hp] at hb ⊢
        by_cases ht : p.transferred = true
        · simp only [ht, Bool.not_true, Bool.false_eq_true, if_false] at hb ⊢
          obtain ⟨h1, _, e2⟩ := Res.andThen_ok hb
          rw [e2]
          obtain ⟨hs, hst⟩ := checked_ok h1
          simp only [Res.ok_st, State.record]
          rw [hst]
          -- recording an action does not change the vault status
          have : ∀ (t : State) (a : Action), vaultStatus cx e (t.record a) vk = vaultStatus cx e t vk := by
            intro t a; rfl
          exact (this _ _).trans hs
        · simp [ht] at hb
    · simp [hn] at hb

/-- **the 150 % rule**: a mint, a collateral withdrawal or an LP withdrawal is accepted only if afterwards the
    vault has no debt or holds collateral of at least 1.5 × its debt at the TWAP and at least 0.5 ETH -/
theorem C14_accepted_only_if_safe (e : Env) (s : State) (op : Op) (vk : Nat) (hop : Op.vault s op = some vk)
    (h : (step NumCtx.exact e s op).err = none) :
    ∃ v, AList.get? (step NumCtx.exact e s op).st.vaults vk = some v ∧
      (v.short = 0 ∨ ∃ c, effColl NumCtx.exact e (step NumCtx.exact e s op).st vk = .ok c ∧
        (3 / 2) * (v.short * e.nf * twap e .weth / 10000) ≤ c ∧ 1 / 2 ≤ c) := by
  have hs : vaultStatus NumCtx.exact e (step NumCtx.exact e s op).st vk = .ok (true, false) := by
    cases op with
    | openMint d m vk? pos? =>
      simp only [Op.vault, Option.some.injEq] at hop; subst hop
      exact C14_accepted_mint_is_safe _ e s d m vk? pos? h
    | burnWithdraw vk' b w =>
      simp only [Op.vault, Option.some.injEq] at hop; subst hop
      exact C14_accepted_withdrawal_is_safe _ e s _ b w h
    | withdrawUni vk' pos =>
      simp only [Op.vault, Option.some.injEq] at hop; subst hop
      exact C14_accepted_lp_withdrawal_is_safe _ e s _ pos h
    | _ => simp [Op.vault] at hop
  obtain ⟨v, hv, hr⟩ := C14_safe_status_means e _ vk hs
  refine ⟨v, hv, ?_⟩
  rcases hr with h0 | ⟨c, hc, h1, h2⟩
  · exact Or.inl h0
  · exact Or.inr ⟨c, hc, by linarith, h2⟩

/-! ### non-vacuity -/
namespace Squeeth
def exEnv : Env := { nf := 1/2, weth := 2000, osqth := 1/10, now := none, rows := [], uniPrice := 1/10, uniOpen := true, mean := fun _ => 0 }
def exState : State := { wallet := [("WETH", 100), ("OSQTH", 100)], vaults := [], maxId := 0, positions := [], log := [] }
end Squeeth
-- 1.5 ETH against 10 oSQTH (= 1 ETH of debt) is accepted at the tie, one more oSQTH is not
example : (step NumCtx.exact exEnv exState (.openMint (3/2) 10 none none)).err = none := by decide +kernel
example : (step NumCtx.exact exEnv exState (.openMint (3/2) 11 none none)).err = some (.demeter "unsafe") := by decide +kernel
example : (step NumCtx.exact exEnv exState (.openMint (3/2) 11 none none)).st = exState := by decide +kernel
example : (step NumCtx.exact exEnv exState (.openMint (2/5) 1 none none)).err = some (.demeter "dust") := by decide +kernel

end Demeter
