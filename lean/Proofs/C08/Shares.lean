/-
  C08 — several positions: "its share of active liquidity (own / (pool + own) when it is the only position, never more
  than that otherwise)".  With `n` positions held, every position's share is `own_i / (pool + Σ own)`; the shares add up
  to `Σ own / (pool + Σ own) < 1`, so all positions together never earn more than the bar's `volume × fee rate` per
  token — whatever their ranges (overlapping, nested, disjoint) and whatever the tick path.
-/
import Proofs.C08
import Proofs.C08.Bar
import Mathlib.Tactic.Linarith
import Mathlib.Tactic.Positivity
import Mathlib.Tactic.FieldSimp
namespace Demeter.Uni
open Demeter

/-- a position's share of active liquidity in a bar: own liquidity over pool liquidity plus all own liquidity -/
def shareOf (poolLiq : Rat) (ps : List Pos) (p : Pos) : Rat := (p.liq : Rat) / (poolLiq + ((sumLiq ps : Int) : Rat))

/-- Σ over a list -/
def sumRat {α : Type} (f : α → Rat) : List α → Rat
  | [] => 0
  | x :: xs => f x + sumRat f xs

theorem sumRat_liq (ps : List Pos) : sumRat (fun p => (p.liq : Rat)) ps = ((sumLiq ps : Int) : Rat) := by
  induction ps with
  | nil => simp [sumRat, sumLiq]
  | cons p ps ih => simp only [sumRat, sumLiq, ih]; push_cast; ring

theorem sumRat_div (f : Pos → Rat) (D : Rat) (ps : List Pos) : sumRat (fun p => f p / D) ps = sumRat f ps / D := by
  induction ps with
  | nil => simp [sumRat]
  | cons p ps ih => simp only [sumRat, ih]; ring

theorem sumRat_le {α : Type} (f g : α → Rat) (xs : List α) (h : ∀ x ∈ xs, f x ≤ g x) : sumRat f xs ≤ sumRat g xs := by
  induction xs with
  | nil => simp [sumRat]
  | cons x xs ih =>
    simp only [sumRat]
    exact add_le_add (h x (List.mem_cons_self ..)) (ih (fun y hy => h y (List.mem_cons_of_mem _ hy)))

theorem sumRat_mul_right {α : Type} (f : α → Rat) (c : Rat) (xs : List α) : sumRat (fun x => f x * c) xs = sumRat f xs * c := by
  induction xs with
  | nil => simp [sumRat]
  | cons x xs ih => simp only [sumRat, ih]; ring

end Demeter.Uni

namespace Demeter
open Demeter.Uni

/-- **The shares of `n` positions.**  With pool liquidity `poolLiq > 0` and own positions `ps` (any number, any ranges,
    liquidity ≥ 0): the shares `own_i / (pool + Σ own)` add up to `Σ own / (pool + Σ own)`, which is below 1; each share
    is at most `own_i / (pool + own_i)` (what it would be were it the only position) and at least 0. -/
theorem C08_shares_sum (poolLiq : Rat) (ps : List Pos) (hnn : ∀ q ∈ ps, 0 ≤ q.liq) (hpool : 0 < poolLiq) :
    sumRat (shareOf poolLiq ps) ps = ((sumLiq ps : Int) : Rat) / (poolLiq + ((sumLiq ps : Int) : Rat)) ∧
    sumRat (shareOf poolLiq ps) ps < 1 ∧
    ∀ p ∈ ps, 0 ≤ shareOf poolLiq ps p ∧ shareOf poolLiq ps p ≤ (p.liq : Rat) / (poolLiq + p.liq) := by
  have hS : (0 : Rat) ≤ ((sumLiq ps : Int) : Rat) := by exact_mod_cast Uni.sumLiq_nonneg hnn
  have hD : 0 < poolLiq + ((sumLiq ps : Int) : Rat) := by linarith
  have hsum : sumRat (shareOf poolLiq ps) ps = ((sumLiq ps : Int) : Rat) / (poolLiq + ((sumLiq ps : Int) : Rat)) := by
    unfold shareOf
    rw [sumRat_div (fun p => (p.liq : Rat)), sumRat_liq]
  refine ⟨hsum, ?_, ?_⟩
  · rw [hsum, div_lt_one hD]; linarith
  · intro p hp
    have hl : (0 : Rat) ≤ (p.liq : Rat) := by exact_mod_cast hnn p hp
    exact ⟨div_nonneg hl (le_of_lt hD), (C08_share poolLiq ps p hp hnn hpool).2⟩

/-- **All positions together never earn more than the bar's fee volume.**  For the amounts `update()` adds in one bar
    (`C08_bar_fee`: `feeInc (pathFraction …) volume decimals own D feeRate` with `D = pool + Σ own`), summed over all
    positions held, per token: at most `volume × fee rate × Σ own / (pool + Σ own)`, hence strictly less than
    `volume × fee rate` when there is volume — for every tick path and every family of ranges. -/
theorem C08_total_fee_le_volume (pool : Pool) (prev close : Int) (inAmt : Rat) (d : Nat) (poolLiq : Rat) (ps : List Pos)
    (hnn : ∀ q ∈ ps, 0 ≤ q.liq) (hlu : ∀ q ∈ ps, q.lower < q.upper) (hpool : 0 < poolLiq) (hin : 0 ≤ inAmt)
    (hfee : 0 ≤ pool.feeRate) :
    let D := poolLiq + ((sumLiq ps : Int) : Rat)
    let vol := ((truncInt inAmt : Int) : Rat) / ((pow10 d : Nat) : Rat)
    sumRat (fun p => feeInc (pathFraction prev close p.lower p.upper) inAmt d p.liq D pool.feeRate) ps
      ≤ vol * pool.feeRate * (((sumLiq ps : Int) : Rat) / D) ∧
    vol * pool.feeRate * (((sumLiq ps : Int) : Rat) / D) ≤ vol * pool.feeRate := by
  intro D vol
  have hS : (0 : Rat) ≤ ((sumLiq ps : Int) : Rat) := by exact_mod_cast Uni.sumLiq_nonneg hnn
  have hD : 0 < D := by show 0 < poolLiq + ((sumLiq ps : Int) : Rat); linarith
  have hvol : 0 ≤ vol := by
    have h1 : (0 : Rat) ≤ ((truncInt inAmt : Int) : Rat) := by exact_mod_cast truncInt_nonneg hin
    have h2 : (0 : Rat) ≤ ((pow10 d : Nat) : Rat) := by positivity
    exact div_nonneg h1 h2
  constructor
  · -- each summand is at most vol * fee * own_i / D because the path fraction is at most 1
    have hle : ∀ p ∈ ps, feeInc (pathFraction prev close p.lower p.upper) inAmt d p.liq D pool.feeRate
        ≤ (p.liq : Rat) * (vol * pool.feeRate / D) := by
      intro p hp
      have hw := C08_weight_spec prev close p.lower p.upper (hlu p hp)
      have hl : (0 : Rat) ≤ (p.liq : Rat) := by exact_mod_cast hnn p hp
      have hq : 0 ≤ vol * ((p.liq : Rat) / D) * pool.feeRate :=
        mul_nonneg (mul_nonneg hvol (div_nonneg hl (le_of_lt hD))) hfee
      have : feeInc (pathFraction prev close p.lower p.upper) inAmt d p.liq D pool.feeRate
          = pathFraction prev close p.lower p.upper * (vol * ((p.liq : Rat) / D) * pool.feeRate) := by
        simp only [feeInc]; ring
      rw [this]
      calc pathFraction prev close p.lower p.upper * (vol * ((p.liq : Rat) / D) * pool.feeRate)
          ≤ 1 * (vol * ((p.liq : Rat) / D) * pool.feeRate) := mul_le_mul_of_nonneg_right (hw.1 ▸ hw.2.2) hq
        _ = (p.liq : Rat) * (vol * pool.feeRate / D) := by ring
    calc sumRat (fun p => feeInc (pathFraction prev close p.lower p.upper) inAmt d p.liq D pool.feeRate) ps
        ≤ sumRat (fun p => (p.liq : Rat) * (vol * pool.feeRate / D)) ps := sumRat_le _ _ ps hle
      _ = ((sumLiq ps : Int) : Rat) * (vol * pool.feeRate / D) := by rw [sumRat_mul_right, sumRat_liq]
      _ = vol * pool.feeRate * (((sumLiq ps : Int) : Rat) / D) := by ring
  · have hr : ((sumLiq ps : Int) : Rat) / D ≤ 1 := by
      rw [div_le_one hD]; show ((sumLiq ps : Int) : Rat) ≤ poolLiq + ((sumLiq ps : Int) : Rat); linarith
    calc vol * pool.feeRate * (((sumLiq ps : Int) : Rat) / D) ≤ vol * pool.feeRate * 1 :=
          mul_le_mul_of_nonneg_left hr (mul_nonneg hvol hfee)
      _ = vol * pool.feeRate := by ring

/-- non-vacuity: three overlapping positions (nested, overlapping, out of range) in a pool of liquidity 1000:
    shares 1/10 + 2/10 + 3/10 of the active liquidity 2000… the total stays below 1 -/
example : let ps : List Pos := [{ (default : Pos) with lower := -10, upper := 10, liq := 100 },
                               { (default : Pos) with lower := -100, upper := 100, liq := 200 },
                               { (default : Pos) with lower := 50, upper := 60, liq := 300 }]
    sumRat (shareOf 400 ps) ps = 3 / 5 ∧ (∀ q ∈ ps, 0 ≤ q.liq) ∧ (∀ q ∈ ps, q.lower < q.upper) := by
  refine ⟨?_, ?_, ?_⟩
  · simp [sumRat, shareOf, sumLiq]; norm_num
  · intro q hq; simp at hq; rcases hq with rfl | rfl | rfl <;> decide
  · intro q hq; simp at hq; rcases hq with rfl | rfl | rfl <;> decide

end Demeter
