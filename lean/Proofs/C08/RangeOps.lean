/-
  C08: the position invariant of Proofs/C08/Range.lean (`lower < upper ∧ 0 ≤ liquidity`) through the remaining
  operations (swaps, rebalance, `add_liquidity_by_value`), `step` and `runOps`.
-/
import Proofs.C08.Range
namespace Demeter.Uni
open Demeter

theorem buy_inv (K : Kern) (pool : Pool) (s : State) (a : Rat) (p : Option Rat) : InvRel s (buy K pool s a p).2 := by
  unfold buy
  try simp only []
  split
  · exact InvRel.refl s
  · split
    · exact InvRel.refl s
    · split
      · exact InvRel.refl s
      · split
        · exact InvRel.refl s
        · rename_i price _ _ _
          have h := swap_inv K pool s (K.cx.div (K.cx.mul a price) (K.cx.sub 1 pool.feeRate)) pool.quoteTok pool.baseTok
            (some (K.cx.div 1 price)) false
          split
          · rename_i heq; rw [heq] at h; exact h
          · rename_i heq; rw [heq] at h
            repeat' split
            all_goals first
              | exact h
              | exact InvRel.trans h (InvRel.ofPos rfl)

theorem sell_inv (K : Kern) (pool : Pool) (s : State) (a : Rat) (p : Option Rat) : InvRel s (sell K pool s a p).2 := by
  unfold sell
  try simp only []
  split
  · exact InvRel.refl s
  · split
    · exact InvRel.refl s
    · rename_i price _
      have h := swap_inv K pool s a pool.baseTok pool.quoteTok (some price) false
      split
      · rename_i heq; rw [heq] at h; exact h
      · rename_i heq; rw [heq] at h
        repeat' split
        all_goals first
          | exact h
          | exact InvRel.trans h (InvRel.ofPos rfl)

theorem evenRebalance_inv (K : Kern) (pool : Pool) (s : State) (p : Option Rat) :
    InvRel s (evenRebalance K pool s p).2 := by
  unfold evenRebalance
  try simp only []
  repeat' split
  all_goals first
    | exact InvRel.refl s
    | (rename_i heq; exact InvRel.ofEq (buy_inv ..) heq)
    | (rename_i heq; exact InvRel.ofEq (sell_inv ..) heq)

theorem optSwapFee_inv (K : Kern) (pool : Pool) (s : State) (c : Bool) (a : Rat) (f t : String) :
    InvRel s (optSwapFee K pool s c a f t).2 := by
  unfold optSwapFee
  split
  · have h := swap_inv K pool s a f t none true
    split
    · rename_i heq; rw [heq] at h; exact h
    · rename_i heq; rw [heq] at h; exact h
  · exact InvRel.refl s

theorem swapValue_inv (K : Kern) (pool : Pool) (s : State) (b : Bool) (v p : Rat) :
    InvRel s (swapValue K pool s b v p).2 := by
  unfold swapValue
  repeat' split
  all_goals first
    | exact InvRel.refl s
    | exact swap_inv ..

theorem addValues_inv (K : Kern) (hK : KernAddOK K) (pool : Pool) (s : State) (lo up : Int) (p a b : Rat) :
    InvRel s (addValues K pool s lo up p a b).2 := by
  unfold addValues
  split
  · exact InvRel.refl s
  · exact addByTick_inv K hK ..

theorem addByValueInRange_inv (K : Kern) (hK : KernAddOK K) (pool : Pool) (s : State) (lo up t : Int) (p v r : Rat) :
    InvRel s (addByValueInRange K pool s lo up t p v r).2 := by
  unfold addByValueInRange
  try simp only []
  repeat' split
  all_goals first
    | exact InvRel.refl s
    | exact addValues_inv K hK ..
    | (rename_i heq; exact InvRel.ofEq (swapValue_inv ..) heq)
    | (rename_i heq; exact InvRel.trans (InvRel.ofEq (swapValue_inv ..) heq) (addValues_inv K hK ..))

theorem addByValue_inv (K : Kern) (hK : KernAddOK K) (pool : Pool) (me : Rat) (s : State) (lo up : Int) (v : Option Rat)
    (trim : Bool) (o : ByValueOracle) : InvRel s (addByValue K pool me s lo up v trim o).2 := by
  unfold addByValue
  try simp only []
  repeat' split
  all_goals first
    | exact InvRel.refl s
    | exact addByValueInRange_inv K hK ..
    | (rename_i heq; exact InvRel.ofEq (optSwapFee_inv ..) heq)
    | (rename_i heq; exact InvRel.trans (InvRel.ofEq (optSwapFee_inv ..) heq) (addByTick_inv K hK ..))

theorem step_inv (K : Kern) (hK : KernAddOK K) (pool : Pool) (me : Rat) (s : State) (op : Op) :
    InvRel s (step K pool me s op).2 := by
  cases op <;> simp only [step]
  case addRaw a0 a1 lo up sq =>
    have h := addRaw_inv K hK pool s a0 a1 lo up sq
    split <;> (rename_i heq; rw [heq] at h; exact h)
  case swap a f t p log =>
    have h := swap_inv K pool s a f t p log
    split <;> (rename_i heq; rw [heq] at h; exact h)
  case addByTick => exact addByTick_inv K hK ..
  case addByPrice => exact addByPrice_inv K hK ..
  case remove => exact remove_inv ..
  case collect => exact collect_inv ..
  case removeAll => exact removeAllLoop_inv ..
  case buy => exact buy_inv ..
  case sell => exact sell_inv ..
  case evenRebalance => exact evenRebalance_inv ..
  case addByValue => exact addByValue_inv K hK ..
  case transferOut => exact transferOut_inv ..
  case transferIn => exact transferIn_inv ..

theorem runOps_inv (K : Kern) (hK : KernAddOK K) (pool : Pool) (me : Rat) :
    ∀ (ops : List Op) (s : State), InvRel s (runOps K pool me s ops)
  | [], s => InvRel.refl s
  | op :: ops, s => InvRel.trans (step_inv K hK pool me s op) (runOps_inv K hK pool me ops _)

end Demeter.Uni
