/-
  C08: the side conditions of the amount theorems are invariants of the market's operations.

  `C08_fee_formula`, `C08_bar_fee`, `C08_share`, … assume `lower < upper` for every position, non-negative own
  liquidity and a non-zero `pool + Σ own`.  Here: every operation of the model (`step`, hence `runOps`) and
  `update()` preserve `lower < upper ∧ 0 ≤ liquidity` for every position, for every kernel whose
  `new_position` refuses an empty range and returns a non-negative liquidity for non-negative offers
  (`KernAddOK`), and the code's kernel `Kern.std` is such a kernel:

  * `lower > upper` is refused by `_add_liquidity_by_tick`'s own guard (`DemeterError`);
  * `lower = upper` passes that guard (it tests `>` only) and dies inside `get_liquidity` with
    `ZeroDivisionError` (both ticks have the same sqrt price) — before anything is mutated (repaired order);
    `add_liquidity_by_tick(..., trim_tick=True)` can produce such a pair by rounding two different ticks to the
    same usable tick (`C08_trim_can_collapse_range`), and it is refused the same way;
  * positions are only created by accepted adds; remove / collect / transfer only rewrite or delete entries,
    and a partial removal leaves `liq − delta ≥ 0` because `delta` is capped at the position's liquidity.
-/
import Demeter.Uni.Step
import Demeter.Uni.Kernel
import Proofs.C08
import Proofs.C08.Ops
namespace Demeter.Uni
open Demeter

/-- what the amount theorems need of one position -/
def PosOK (p : Pos) : Prop := p.lower < p.upper ∧ 0 ≤ p.liq

def PosInv (ps : List Pos) : Prop := ∀ p ∈ ps, PosOK p

/-- `V3CoreLib.new_position` as the orchestration needs it: an empty range is refused, and the liquidity
    bought with non-negative amounts is non-negative -/
def KernAddOK (K : Kern) : Prop :=
  ∀ pool sq lo up a0 a1 u0 u1 l, 0 ≤ a0 → 0 ≤ a1 → K.newPos pool sq lo up a0 a1 = .ok (u0, u1, l) → lo ≠ up ∧ 0 ≤ l

/-- the invariant passes from `s` to `s'` -/
structure InvRel (s s' : State) : Prop where
  pres : PosInv s.positions → PosInv s'.positions

theorem InvRel.refl (s : State) : InvRel s s := ⟨fun h => h⟩
theorem InvRel.trans {a b c : State} (h1 : InvRel a b) (h2 : InvRel b c) : InvRel a c := ⟨fun h => h2.pres (h1.pres h)⟩
theorem InvRel.ofEq {α : Type} {s s' : State} {r : α × State} {x : α} (h : InvRel s r.2) (heq : r = (x, s')) :
    InvRel s s' := by rw [heq] at h; exact h
theorem InvRel.ofPos {s s' : State} (h : s'.positions = s.positions) : InvRel s s' := ⟨fun hi => by rw [h]; exact hi⟩

/-! ### the kernel of the code -/

theorem c08r_sortPair_self (x : Nat) : sortPair x x = (x, x) := by simp [sortPair]

/-- `get_liquidity` on an empty range: `ZeroDivisionError` -/
theorem c08r_getLiquidity_empty (cx : NumCtx) (s : Nat) (t : Int) (a0 a1 : Rat) (d0 d1 : Nat) :
    getLiquidity cx s t t a0 a1 d0 d1 = none := by
  simp [getLiquidity, c08r_sortPair_self]

theorem c08r_toWei_nonneg (cx : NumCtx) (hr : ∀ x, 0 ≤ x → 0 ≤ cx.rnd x) (a : Rat) (d : Nat) (ha : 0 ≤ a) :
    0 ≤ toWei cx a d := by
  unfold toWei NumCtx.mul
  apply truncInt_nonneg
  apply hr
  have : (0 : Rat) ≤ ((pow10 d : Nat) : Rat) := by exact_mod_cast Nat.zero_le _
  exact mul_nonneg ha this

theorem c08r_getLiquidity_nonneg (cx : NumCtx) (hr : ∀ x, 0 ≤ x → 0 ≤ cx.rnd x) (s : Nat) (ta tb : Int) (a0 a1 : Rat)
    (d0 d1 : Nat) (h0 : 0 ≤ a0) (h1 : 0 ≤ a1) (l : Int) (h : getLiquidity cx s ta tb a0 a1 d0 d1 = some l) : 0 ≤ l := by
  have w0 := c08r_toWei_nonneg cx hr a0 d0 h0
  have w1 := c08r_toWei_nonneg cx hr a1 d1 h1
  have key : ∀ (w : Int) (n m : Nat), 0 ≤ w → 0 ≤ (w * (n : Int)) / (m : Int) := fun w n m hw =>
    Int.ediv_nonneg (Int.mul_nonneg hw (Int.natCast_nonneg n)) (Int.natCast_nonneg m)
  unfold getLiquidity at h
  simp only [] at h
  split at h
  · cases h
  · split at h
    · cases h; exact key _ _ _ w0
    · split at h
      · cases h; split
        · exact key _ _ _ w0
        · exact key _ _ _ w1
      · cases h; exact key _ _ _ w1

/-- `new_position` of the code refuses `lower = upper` in every arithmetic context, and returns a non-negative
    liquidity for non-negative offers in every context whose rounding keeps signs (the exact one, CPython's) -/
theorem c08r_newPosStd_ok (cx : NumCtx) (hr : ∀ x, 0 ≤ x → 0 ≤ cx.rnd x) (pool : Pool) (s : Nat) (ta tb : Int)
    (a0 a1 u0 u1 : Rat) (l : Int) (h0 : 0 ≤ a0) (h1 : 0 ≤ a1)
    (h : newPosStd cx pool s ta tb a0 a1 = .ok (u0, u1, l)) : ta ≠ tb ∧ 0 ≤ l := by
  unfold newPosStd at h
  split at h
  · cases h
  · split at h
    · cases h
    · rename_i l' hl
      split at h
      · cases h
      · cases h
        refine ⟨?_, c08r_getLiquidity_nonneg cx hr s ta tb a0 a1 pool.d0 pool.d1 h0 h1 _ hl⟩
        intro e; subst e
        rw [c08r_getLiquidity_empty] at hl; cases hl

theorem c08r_std_addOK (cx : NumCtx) (sq : Rat → Rat) (hr : ∀ x, 0 ≤ x → 0 ≤ cx.rnd x) : KernAddOK (Kern.std cx sq) :=
  fun pool s lo up a0 a1 u0 u1 l h0 h1 h => c08r_newPosStd_ok cx hr pool s lo up a0 a1 u0 u1 l h0 h1 h

theorem c08r_exact_addOK (sq : Rat → Rat) : KernAddOK (Kern.std NumCtx.exact sq) :=
  c08r_std_addOK NumCtx.exact sq (fun _ h => h)

/-! ### the positions dict -/

theorem c08r_findPos_some {ps : List Pos} {lo up : Int} {p : Pos} (h : findPos ps lo up = some p) :
    p ∈ ps ∧ p.lower = lo ∧ p.upper = up := by
  unfold findPos at h
  have hk := List.find?_some h
  simp only [Pos.hasKey, Bool.and_eq_true, beq_iff_eq] at hk
  exact ⟨List.mem_of_find?_eq_some h, hk.1, hk.2⟩

theorem c08r_mapPos_inv {ps : List Pos} (lo up : Int) (f : Pos → Pos) (hi : PosInv ps)
    (hf : ∀ p ∈ ps, p.lower = lo → p.upper = up → PosOK (f p)) : PosInv (mapPos ps lo up f) := by
  intro q hq
  unfold mapPos at hq
  obtain ⟨p, hp, rfl⟩ := List.mem_map.mp hq
  split
  · rename_i hk
    simp only [Pos.hasKey, Bool.and_eq_true, beq_iff_eq] at hk
    exact hf p hp hk.1 hk.2
  · exact hi p hp

theorem c08r_erasePos_inv {ps : List Pos} (lo up : Int) (hi : PosInv ps) : PosInv (erasePos ps lo up) := by
  intro q hq
  exact hi q (List.mem_filter.mp hq).1

theorem c08r_newEntity_some {K : Kern} {pool : Pool} {s : State} {lo up liq : Int} {sq : Nat} {e : Pos}
    (h : newEntity K pool s lo up liq sq = .ok (some e)) : e.lower = lo ∧ e.upper = up ∧ e.liq = liq := by
  unfold newEntity at h
  split at h
  · cases h
  · split at h
    · cases h; split <;> exact ⟨rfl, rfl, rfl⟩
    all_goals cases h

theorem c08r_addToPositions_inv {ps : List Pos} {lo up liq : Int} (hi : PosInv ps) (hlu : lo < up) (hl : 0 ≤ liq)
    (ent : Option Pos) (he : ∀ e, ent = some e → e.lower = lo ∧ e.upper = up ∧ e.liq = liq) :
    PosInv (addToPositions ps lo up liq ent) := by
  cases ent with
  | none =>
    apply c08r_mapPos_inv lo up _ hi
    intro p hp _ _
    have := hi p hp
    exact ⟨this.1, by show 0 ≤ p.liq + liq; have := this.2; omega⟩
  | some e =>
    intro q hq
    rcases List.mem_append.mp hq with h | h
    · exact hi q h
    · rw [List.mem_singleton.mp h]
      obtain ⟨e1, e2, e3⟩ := he e rfl
      exact ⟨by rw [e1, e2]; exact hlu, by rw [e3]; exact hl⟩

/-! ### the operations -/

theorem addRaw_inv (K : Kern) (hK : KernAddOK K) (pool : Pool) (s : State) (a0 a1 : Rat) (lo up : Int) (sq : Option Nat) :
    InvRel s (addRaw K pool s a0 a1 lo up sq).2 := by
  refine ⟨fun hi => ?_⟩
  unfold addRaw
  split
  · exact hi
  split
  · exact hi
  split
  · exact hi
  split
  · exact hi
  rename_i hgt
  split
  · exact hi
  rename_i hneg
  split
  · exact hi
  rename_i u0 u1 liq hnew
  split
  · exact hi
  rename_i ent hent
  split
  · exact hi
  simp only [Bool.or_eq_true, decide_eq_true_eq, not_or, not_lt] at hneg
  obtain ⟨hne, hl⟩ := hK pool _ lo up a0 a1 u0 u1 liq hneg.1 hneg.2 hnew
  have hlu : lo < up := by omega
  exact c08r_addToPositions_inv hi hlu hl ent (fun e he => c08r_newEntity_some (he ▸ hent))

theorem c08r_collectPos_ok (cx : NumCtx) {p : Pos} (f0 f1 : Rat) (h : PosOK p) : PosOK (collectPos cx p f0 f1) := h

theorem c08r_removePos_ok (cx : NumCtx) {p : Pos} (l? : Option Int) (g0 g1 : Rat) (h : PosOK p) :
    PosOK (removePos cx p (removeDelta l? p).1 (removeDelta l? p).2 g0 g1) := by
  refine ⟨h.1, ?_⟩
  show 0 ≤ p.liq - (removeDelta l? p).1
  have := h.2
  unfold removeDelta
  cases l? with
  | none => simp
  | some l => simp only []; split <;> (simp; try omega)

/-- rewriting the entry of a key with (a function of) the entry `findPos` returned for that key -/
theorem c08r_mapPos_found {ps : List Pos} {lo up : Int} {p p' : Pos} (hi : PosInv ps) (hf : findPos ps lo up = some p)
    (hp' : PosOK p → PosOK p') : PosInv (mapPos ps lo up (fun _ => p')) :=
  c08r_mapPos_inv lo up _ hi (fun _ _ _ _ => hp' (hi p (c08r_findPos_some hf).1))

theorem collectCore_inv (K : Kern) (pool : Pool) (s : State) (lo up : Int) (p : Pos) (f0 f1 : Rat) (tu : Bool)
    (hf : findPos s.positions lo up = some p) : InvRel s (collectCore K pool s lo up p f0 f1 tu) := ⟨fun hi =>
  c08r_mapPos_found hi hf (c08r_collectPos_ok K.cx f0 f1)⟩

theorem collectFinish_inv (K : Kern) (pool : Pool) (s : State) (lo up : Int) (p : Pos) (f0 f1 : Rat) (rd tu : Bool)
    (bb qb : Rat) (hf : findPos s.positions lo up = some p) :
    InvRel s (collectFinish K pool s lo up p f0 f1 rd tu bb qb) := by
  refine ⟨fun hi => ?_⟩
  have h := (collectCore_inv K pool s lo up p f0 f1 tu hf).pres hi
  unfold collectFinish
  simp only []
  split
  · exact c08r_erasePos_inv lo up h
  · exact h

theorem collect_inv (K : Kern) (pool : Pool) (s : State) (lo up : Int) (m0 m1 : Option Rat) (rd tu : Bool) :
    InvRel s (collect K pool s lo up m0 m1 rd tu).2 := by
  unfold collect
  split
  · exact InvRel.refl s
  split
  · exact InvRel.refl s
  rename_i p hf
  repeat' split
  all_goals first
    | exact InvRel.refl s
    | exact collectFinish_inv K pool s lo up p _ _ rd tu _ _ hf
    | exact collectCore_inv K pool s lo up p _ _ tu hf

theorem removeCore_inv (K : Kern) (s : State) (lo up : Int) (p : Pos) (l? : Option Int) (g0 g1 : Rat)
    (hf : findPos s.positions lo up = some p) :
    InvRel s (removeCore K s lo up p (removeDelta l? p).1 (removeDelta l? p).2 g0 g1) := ⟨fun hi =>
  c08r_mapPos_found hi hf (c08r_removePos_ok K.cx l? g0 g1)⟩

theorem removeNoCollect_inv (K : Kern) (pool : Pool) (s : State) (lo up : Int) (l : Option Int) (sq : Option Nat) :
    InvRel s (removeNoCollect K pool s lo up l sq).2 := by
  unfold removeNoCollect
  split
  · exact InvRel.refl s
  split
  · exact InvRel.refl s
  split
  · exact InvRel.refl s
  split
  · exact InvRel.refl s
  split
  · exact InvRel.refl s
  rename_i p hf
  repeat' split
  all_goals first
    | exact InvRel.refl s
    | exact removeCore_inv K s lo up p l _ _ hf
    | exact InvRel.trans (removeCore_inv K s lo up p l _ _ hf) (InvRel.ofPos rfl)

theorem remove_inv (K : Kern) (pool : Pool) (s : State) (lo up : Int) (l : Option Int) (c : Bool) (sq : Option Nat)
    (rd : Bool) : InvRel s (remove K pool s lo up l c sq rd).2 := by
  unfold remove
  have h := removeNoCollect_inv K pool s lo up l sq
  split
  · rename_i heq; exact InvRel.ofEq h heq
  · rename_i heq
    split
    · exact InvRel.trans (InvRel.ofEq h heq) (collect_inv ..)
    · exact InvRel.ofEq h heq

theorem removeAllLoop_inv (K : Kern) (pool : Pool) : ∀ (ks : List (Int × Int)) (s : State),
    InvRel s (removeAllLoop K pool ks s).2
  | [], s => InvRel.refl s
  | (lo, up) :: ks, s => by
    unfold removeAllLoop
    have h := remove_inv K pool s lo up none true none true
    split
    · rename_i e s' heq; rw [heq] at h; exact h
    · rename_i v s' heq; rw [heq] at h; exact InvRel.trans h (removeAllLoop_inv K pool ks s')

theorem swap_pos (K : Kern) (pool : Pool) (s : State) (a : Rat) (f t : String) (p : Option Rat) (log : Bool) :
    (swap K pool s a f t p log).2.positions = s.positions := by
  unfold swap
  try simp only []
  repeat' split
  all_goals rfl

theorem swap_inv (K : Kern) (pool : Pool) (s : State) (a : Rat) (f t : String) (p : Option Rat) (log : Bool) :
    InvRel s (swap K pool s a f t p log).2 := InvRel.ofPos (swap_pos ..)

theorem c08r_flag_inv (s : State) (lo up : Int) (b : Bool) :
    InvRel s { s with positions := mapPos s.positions lo up (fun p => { p with transferred := b }) } := ⟨fun hi =>
  c08r_mapPos_inv lo up _ hi (fun p hp _ _ => hi p hp)⟩

theorem transferOut_inv (s : State) (lo up : Int) : InvRel s (transferOut s lo up).2 := by
  unfold transferOut
  repeat' split
  all_goals first
    | exact InvRel.refl s
    | exact c08r_flag_inv s lo up true

theorem transferIn_inv (s : State) (lo up : Int) : InvRel s (transferIn s lo up).2 := by
  unfold transferIn
  repeat' split
  all_goals first
    | exact InvRel.refl s
    | exact c08r_flag_inv s lo up false

theorem addAndLog_inv (K : Kern) (hK : KernAddOK K) (pool : Pool) (s : State) (b q : Rat) (lo up : Int) (sq : Option Nat)
    (lp upp : Rat) : InvRel s (addAndLog K pool s b q lo up sq lp upp).2 := by
  unfold addAndLog
  have h := addRaw_inv K hK pool s (pool.conv b q).1 (pool.conv b q).2 lo up sq
  try simp only []
  split
  · rename_i e s' heq; rw [heq] at h; exact h
  · rename_i heq; rw [heq] at h
    repeat' split
    all_goals first
      | exact h
      | exact InvRel.trans h (InvRel.ofPos rfl)

theorem addByTick_inv (K : Kern) (hK : KernAddOK K) (pool : Pool) (s : State) (lo up : Int) (b q : Option Rat)
    (sq : Option Nat) (t : Option Int) (trim : Bool) : InvRel s (addByTick K pool s lo up b q sq t trim).2 := by
  unfold addByTick
  try simp only []
  repeat' split
  all_goals first
    | exact InvRel.refl s
    | exact addAndLog_inv K hK ..

theorem addByPrice_inv (K : Kern) (hK : KernAddOK K) (pool : Pool) (s : State) (lp up : Rat) (lt ut : Int)
    (q b : Option Rat) : InvRel s (addByPrice K pool s lp up lt ut q b).2 := by
  unfold addByPrice
  try simp only []
  repeat' split
  all_goals first
    | exact InvRel.refl s
    | exact addAndLog_inv K hK ..

end Demeter.Uni
