/-
  C08: every operation of the Uniswap market (the model in Demeter/Uni/Ops.lean, Views.lean) leaves `last_tick`,
  the status row and its timestamp alone (`Frame`), and sets `has_update` whenever it changes the own-liquidity
  total (`Coherent`) — the two facts about "whatever else happens in the bar" that the bar-level theorems of
  Proofs/C08/Bar.lean assume.  Holds for every kernel and every arithmetic context.
-/
import Demeter.Uni.Step
import Proofs.C08.Bar
namespace Demeter.Uni
open Demeter

/-- what an operation may do to the bookkeeping of the bar loop -/
def BarRel (s s' : State) : Prop :=
  s'.lastTick = s.lastTick ∧ s'.row = s.row ∧ s'.ts = s.ts ∧
  (s'.hasUpdate = true ∨ (sumLiq s'.positions = sumLiq s.positions ∧ s'.hasUpdate = s.hasUpdate))

theorem BarRel.refl (s : State) : BarRel s s := ⟨rfl, rfl, rfl, Or.inr ⟨rfl, rfl⟩⟩

theorem BarRel.trans {a b c : State} (h1 : BarRel a b) (h2 : BarRel b c) : BarRel a c := by
  obtain ⟨l1, r1, t1, u1⟩ := h1
  obtain ⟨l2, r2, t2, u2⟩ := h2
  refine ⟨l2.trans l1, r2.trans r1, t2.trans t1, ?_⟩
  rcases u2 with h | ⟨hs, hu⟩
  · exact Or.inl h
  · rcases u1 with h | ⟨hs1, hu1⟩
    · exact Or.inl (hu.trans h)
    · exact Or.inr ⟨hs.trans hs1, hu.trans hu1⟩

/-- anything that ends in `has_update = True` and keeps the three fields -/
theorem BarRel.ofUpdate {s s' : State} (hl : s'.lastTick = s.lastTick) (hr : s'.row = s.row) (ht : s'.ts = s.ts)
    (hu : s'.hasUpdate = true) : BarRel s s' := ⟨hl, hr, ht, Or.inl hu⟩

theorem BarRel.ofEq {α : Type} {s s' : State} {r : α × State} {x : α} (h : BarRel s r.2) (heq : r = (x, s')) :
    BarRel s s' := by rw [heq] at h; exact h

theorem BarRel.record (s : State) (a : Act) : BarRel s (record s a) := ⟨rfl, rfl, rfl, Or.inr ⟨rfl, rfl⟩⟩

theorem sumLiq_mapPos_of_liq (ps : List Pos) (lo up : Int) (f : Pos → Pos) (hf : ∀ p, (f p).liq = p.liq) :
    sumLiq (mapPos ps lo up f) = sumLiq ps := by
  induction ps with
  | nil => rfl
  | cons p ps ih =>
    simp only [mapPos, List.map_cons, sumLiq] at ih ⊢
    split <;> simp [hf, ih]

theorem addRaw_rel (K : Kern) (pool : Pool) (s : State) (a0 a1 : Rat) (lo up : Int) (sq : Option Nat) :
    BarRel s (addRaw K pool s a0 a1 lo up sq).2 := by
  unfold addRaw
  repeat' split
  all_goals first
    | exact BarRel.refl s
    | exact BarRel.ofUpdate rfl rfl rfl rfl

theorem collectFinish_rel (K : Kern) (pool : Pool) (s : State) (lo up : Int) (p : Pos) (f0 f1 : Rat) (rd tu : Bool)
    (bb qb : Rat) : BarRel s (collectFinish K pool s lo up p f0 f1 rd tu bb qb) := by
  unfold collectFinish
  simp only []
  split <;> exact BarRel.ofUpdate rfl rfl rfl rfl

theorem collect_rel (K : Kern) (pool : Pool) (s : State) (lo up : Int) (m0 m1 : Option Rat) (rd tu : Bool) :
    BarRel s (collect K pool s lo up m0 m1 rd tu).2 := by
  unfold collect
  repeat' split
  all_goals first
    | exact BarRel.refl s
    | exact collectFinish_rel ..
    | exact BarRel.ofUpdate rfl rfl rfl rfl

theorem removeNoCollect_rel (K : Kern) (pool : Pool) (s : State) (lo up : Int) (l : Option Int) (sq : Option Nat) :
    BarRel s (removeNoCollect K pool s lo up l sq).2 := by
  unfold removeNoCollect
  repeat' split
  all_goals first
    | exact BarRel.refl s
    | exact BarRel.ofUpdate rfl rfl rfl rfl

theorem remove_rel (K : Kern) (pool : Pool) (s : State) (lo up : Int) (l : Option Int) (c : Bool) (sq : Option Nat)
    (rd : Bool) : BarRel s (remove K pool s lo up l c sq rd).2 := by
  unfold remove
  have h := removeNoCollect_rel K pool s lo up l sq
  split
  · rename_i heq; exact BarRel.ofEq h heq
  · rename_i heq
    split
    · exact BarRel.trans (BarRel.ofEq h heq) (collect_rel ..)
    · exact BarRel.ofEq h heq

theorem removeAllLoop_rel (K : Kern) (pool : Pool) : ∀ (ks : List (Int × Int)) (s : State),
    BarRel s (removeAllLoop K pool ks s).2
  | [], s => BarRel.refl s
  | (lo, up) :: ks, s => by
    unfold removeAllLoop
    have h := remove_rel K pool s lo up none true none true
    split
    · rename_i e s' heq; rw [heq] at h; exact h
    · rename_i v s' heq; rw [heq] at h; exact BarRel.trans h (removeAllLoop_rel K pool ks s')

theorem swap_rel (K : Kern) (pool : Pool) (s : State) (a : Rat) (f t : String) (p : Option Rat) (log : Bool) :
    BarRel s (swap K pool s a f t p log).2 := by
  unfold swap
  try simp only []
  repeat' split
  all_goals first
    | exact BarRel.refl s
    | exact ⟨rfl, rfl, rfl, Or.inr ⟨rfl, rfl⟩⟩

theorem transferOut_rel (s : State) (lo up : Int) : BarRel s (transferOut s lo up).2 := by
  unfold transferOut
  repeat' split
  all_goals first
    | exact BarRel.refl s
    | exact ⟨rfl, rfl, rfl, Or.inr ⟨sumLiq_mapPos_of_liq _ _ _ _ (fun _ => rfl), rfl⟩⟩

theorem transferIn_rel (s : State) (lo up : Int) : BarRel s (transferIn s lo up).2 := by
  unfold transferIn
  repeat' split
  all_goals first
    | exact BarRel.refl s
    | exact ⟨rfl, rfl, rfl, Or.inr ⟨sumLiq_mapPos_of_liq _ _ _ _ (fun _ => rfl), rfl⟩⟩

theorem addAndLog_rel (K : Kern) (pool : Pool) (s : State) (b q : Rat) (lo up : Int) (sq : Option Nat) (lp upp : Rat) :
    BarRel s (addAndLog K pool s b q lo up sq lp upp).2 := by
  unfold addAndLog
  have h := addRaw_rel K pool s (pool.conv b q).1 (pool.conv b q).2 lo up sq
  try simp only []
  split
  · rename_i e s' heq; rw [heq] at h; exact h
  · rename_i heq; rw [heq] at h
    repeat' split
    all_goals first
      | exact h
      | exact BarRel.trans h (BarRel.record ..)

theorem addByTick_rel (K : Kern) (pool : Pool) (s : State) (lo up : Int) (b q : Option Rat) (sq : Option Nat)
    (t : Option Int) (trim : Bool) : BarRel s (addByTick K pool s lo up b q sq t trim).2 := by
  unfold addByTick
  try simp only []
  repeat' split
  all_goals first
    | exact BarRel.refl s
    | exact addAndLog_rel ..

theorem addByPrice_rel (K : Kern) (pool : Pool) (s : State) (lp up : Rat) (lt ut : Int) (q b : Option Rat) :
    BarRel s (addByPrice K pool s lp up lt ut q b).2 := by
  unfold addByPrice
  try simp only []
  repeat' split
  all_goals first
    | exact BarRel.refl s
    | exact addAndLog_rel ..

theorem buy_rel (K : Kern) (pool : Pool) (s : State) (a : Rat) (p : Option Rat) : BarRel s (buy K pool s a p).2 := by
  unfold buy
  try simp only []
  split
  · exact BarRel.refl s
  · split
    · exact BarRel.refl s
    · split
      · exact BarRel.refl s
      · split
        · exact BarRel.refl s
        · rename_i price _ _ _
          have h := swap_rel K pool s (K.cx.div (K.cx.mul a price) (K.cx.sub 1 pool.feeRate)) pool.quoteTok pool.baseTok
            (some (K.cx.div 1 price)) false
          split
          · rename_i heq; rw [heq] at h; exact h
          · rename_i heq; rw [heq] at h
            repeat' split
            all_goals first
              | exact h
              | exact BarRel.trans h (BarRel.record ..)

theorem sell_rel (K : Kern) (pool : Pool) (s : State) (a : Rat) (p : Option Rat) : BarRel s (sell K pool s a p).2 := by
  unfold sell
  try simp only []
  split
  · exact BarRel.refl s
  · split
    · exact BarRel.refl s
    · rename_i price _
      have h := swap_rel K pool s a pool.baseTok pool.quoteTok (some price) false
      split
      · rename_i heq; rw [heq] at h; exact h
      · rename_i heq; rw [heq] at h
        repeat' split
        all_goals first
          | exact h
          | exact BarRel.trans h (BarRel.record ..)

theorem evenRebalance_rel (K : Kern) (pool : Pool) (s : State) (p : Option Rat) :
    BarRel s (evenRebalance K pool s p).2 := by
  unfold evenRebalance
  try simp only []
  repeat' split
  all_goals first
    | exact BarRel.refl s
    | (rename_i heq; exact BarRel.ofEq (buy_rel ..) heq)
    | (rename_i heq; exact BarRel.ofEq (sell_rel ..) heq)

theorem optSwapFee_rel (K : Kern) (pool : Pool) (s : State) (c : Bool) (a : Rat) (f t : String) :
    BarRel s (optSwapFee K pool s c a f t).2 := by
  unfold optSwapFee
  split
  · have h := swap_rel K pool s a f t none true
    split
    · rename_i heq; rw [heq] at h; exact h
    · rename_i heq; rw [heq] at h; exact h
  · exact BarRel.refl s

theorem swapValue_rel (K : Kern) (pool : Pool) (s : State) (b : Bool) (v p : Rat) :
    BarRel s (swapValue K pool s b v p).2 := by
  unfold swapValue
  repeat' split
  all_goals first
    | exact BarRel.refl s
    | exact swap_rel ..

theorem addValues_rel (K : Kern) (pool : Pool) (s : State) (lo up : Int) (p a b : Rat) :
    BarRel s (addValues K pool s lo up p a b).2 := by
  unfold addValues
  split
  · exact BarRel.refl s
  · exact addByTick_rel ..

theorem addByValueInRange_rel (K : Kern) (pool : Pool) (s : State) (lo up t : Int) (p v r : Rat) :
    BarRel s (addByValueInRange K pool s lo up t p v r).2 := by
  unfold addByValueInRange
  try simp only []
  repeat' split
  all_goals first
    | exact BarRel.refl s
    | exact addValues_rel ..
    | (rename_i heq; exact BarRel.ofEq (swapValue_rel ..) heq)
    | (rename_i heq; exact BarRel.trans (BarRel.ofEq (swapValue_rel ..) heq) (addValues_rel ..))

theorem addByValue_rel (K : Kern) (pool : Pool) (me : Rat) (s : State) (lo up : Int) (v : Option Rat) (trim : Bool)
    (o : ByValueOracle) : BarRel s (addByValue K pool me s lo up v trim o).2 := by
  unfold addByValue
  try simp only []
  repeat' split
  all_goals first
    | exact BarRel.refl s
    | exact addByValueInRange_rel ..
    | (rename_i heq; exact BarRel.ofEq (optSwapFee_rel ..) heq)
    | (rename_i heq; exact BarRel.trans (BarRel.ofEq (optSwapFee_rel ..) heq) (addByTick_rel ..))

theorem step_rel (K : Kern) (pool : Pool) (me : Rat) (s : State) (op : Op) : BarRel s (step K pool me s op).2 := by
  cases op <;> simp only [step]
  case addRaw a0 a1 lo up sq =>
    have h := addRaw_rel K pool s a0 a1 lo up sq
    split <;> (rename_i heq; rw [heq] at h; exact h)
  case swap a f t p log =>
    have h := swap_rel K pool s a f t p log
    split <;> (rename_i heq; rw [heq] at h; exact h)
  case addByTick => exact addByTick_rel ..
  case addByPrice => exact addByPrice_rel ..
  case remove => exact remove_rel ..
  case collect => exact collect_rel ..
  case removeAll => exact removeAllLoop_rel ..
  case buy => exact buy_rel ..
  case sell => exact sell_rel ..
  case evenRebalance => exact evenRebalance_rel ..
  case addByValue => exact addByValue_rel ..
  case transferOut => exact transferOut_rel ..
  case transferIn => exact transferIn_rel ..

theorem runOps_rel (K : Kern) (pool : Pool) (me : Rat) : ∀ (ops : List Op) (s : State), BarRel s (runOps K pool me s ops)
  | [], s => BarRel.refl s
  | op :: ops, s => BarRel.trans (step_rel K pool me s op) (runOps_rel K pool me ops _)

end Demeter.Uni

namespace Demeter
open Demeter.Uni

/-- Whatever list of market operations a strategy issues in a bar (accepted or rejected), it does not touch
    `last_tick`, the status row or its timestamp. -/
theorem C08_ops_frame (K : Kern) (pool : Pool) (minError : Rat) (ops : List Op) :
    Frame (fun s => runOps K pool minError s ops) := fun s =>
  let h := runOps_rel K pool minError ops s
  ⟨h.1, h.2.1, h.2.2.1⟩

/-- … and if it changes the total own liquidity it has set `has_update`, so the second refresh happens. -/
theorem C08_ops_coherent (K : Kern) (pool : Pool) (minError : Rat) (ops : List Op) :
    Coherent (fun s => runOps K pool minError s ops) := fun s =>
  (runOps_rel K pool minError ops s).2.2.2

/-- The bar theorem for concrete operations: liquidity added by `add_liquidity*` during bar `k` earns in bar `k`
    with the path starting at the previous close, and every other operation of the bar enters only through the
    own-liquidity total in the denominator. -/
theorem C08_bar_fee_ops (K : Kern) (pool : Pool) (minError : Rat) (s : State) (k : Nat) (raw : Row) (ops : List Op) (c : Int)
    (hs : BarStart k s c)
    (hlu : ∀ p ∈ (runOps K pool minError (setStatus NumCtx.exact s raw (some k) true) ops).positions, p.lower < p.upper)
    (hD : raw.curLiq + ((sumLiq (runOps K pool minError (setStatus NumCtx.exact s raw (some k) true) ops).positions : Int) : Rat) ≠ 0) :
    let ps := (runOps K pool minError (setStatus NumCtx.exact s raw (some k) true) ops).positions
    let D := raw.curLiq + ((sumLiq ps : Int) : Rat)
    let r := update NumCtx.exact pool (barPrep (setStatus NumCtx.exact) s k raw (fun s => runOps K pool minError s ops))
    r.2 = none ∧
    r.1.positions = ps.map (fun p => { p with
        pending0 := p.pending0 + feeInc (pathFraction c raw.closeTick p.lower p.upper) raw.in0 pool.d0 p.liq D pool.feeRate,
        pending1 := p.pending1 + feeInc (pathFraction c raw.closeTick p.lower p.upper) raw.in1 pool.d1 p.liq D pool.feeRate }) :=
  C08_bar_fee pool s k raw (fun s => runOps K pool minError s ops) c hs
    (C08_ops_frame K pool minError ops) (C08_ops_coherent K pool minError ops) hlu hD

end Demeter
