/-
  C08, run level.

  (a) `C08_runOps_preserves_range` …: the side conditions of the amount theorems (`lower < upper`, non-negative own
      liquidity, `pool + Σ own ≠ 0`) are invariants of the operations, so they are needed for the *initial*
      state only (a fresh market has no positions: nothing to assume).
  (b) `C08_run_fees`: in a whole `Actuator.run`, bar after bar, `update()` never raises and every position that
      exists when the bar's operations are done earns
      `volume(i) × fee rate × pathFraction(close(i−1), close(i), lower, upper) × own / (pool(i) + Σ own)`
      (bar 0: the path starts at its own close), the own-liquidity total being the one after the bar's
      operations.  Composition of `C08_bar_fee`, `Uni.barStep_next` and the invariants of (a), by induction
      over the list of bars.
-/
import Proofs.C08.RangeOps
namespace Demeter.Uni
open Demeter

/-- a state transformer keeps `lower < upper ∧ 0 ≤ liquidity` for every position -/
def InvPres (f : State → State) : Prop := ∀ s, PosInv s.positions → PosInv (f s).positions

theorem InvPres.id : InvPres id := fun _ h => h

/-- what bar `k` does to the positions, the path of the bar starting at tick `c` -/
def BarFees (pool : Pool) (k : Nat) (s : State) (c : Int) (b : Bar) : Prop :=
  let ps := (b.pre (setStatus NumCtx.exact s b.raw (some k) true)).positions
  let D := b.raw.curLiq + ((sumLiq ps : Int) : Rat)
  let r := update NumCtx.exact pool (barPrep (setStatus NumCtx.exact) s k b.raw b.pre)
  r.2 = none ∧ 0 < D ∧
  r.1.positions = ps.map (fun p => { p with
      pending0 := p.pending0 + feeInc (pathFraction c b.raw.closeTick p.lower p.upper) b.raw.in0 pool.d0 p.liq D pool.feeRate,
      pending1 := p.pending1 + feeInc (pathFraction c b.raw.closeTick p.lower p.upper) b.raw.in1 pool.d1 p.liq D pool.feeRate })

/-- `BarFees` for every bar of the run: bar `k` starts its path at `c`, bar `k+1` at the close of bar `k`, … -/
def RunFees (pool : Pool) : Nat → State → Int → List Bar → Prop
  | _, _, _, [] => True
  | k, s, c, b :: bs =>
    BarFees pool k s c b ∧
    RunFees pool (k + 1) (barStep NumCtx.exact pool (setStatus NumCtx.exact) s k b.raw b.pre b.post).1 b.raw.closeTick bs

/-- what the run theorem asks of one bar: its operations satisfy the three facts proved for every list of
    market operations (`C08_ops_frame`, `C08_ops_coherent`, `C08_runOps_preserves_range`), and the pool's own
    liquidity in the data row is positive -/
def BarOK (b : Bar) : Prop :=
  Frame b.pre ∧ Coherent b.pre ∧ InvPres b.pre ∧ Frame b.post ∧ InvPres b.post ∧ 0 < b.raw.curLiq

theorem c08r_update_positions_inv {ps : List Pos} (f0 f1 : Pos → Rat) (hi : PosInv ps) :
    PosInv (ps.map (fun p => { p with pending0 := f0 p, pending1 := f1 p })) := by
  intro q hq
  obtain ⟨p, hp, rfl⟩ := List.mem_map.mp hq
  exact hi p hp

theorem c08r_D_pos {ps : List Pos} (hi : PosInv ps) {x : Rat} (hx : 0 < x) : 0 < x + ((sumLiq ps : Int) : Rat) := by
  have h : 0 ≤ sumLiq ps := Uni.sumLiq_nonneg (fun q hq => (hi q hq).2)
  have h' : (0 : Rat) ≤ ((sumLiq ps : Int) : Rat) := by exact_mod_cast h
  exact add_pos_of_pos_of_nonneg hx h'

/-- one bar: the amounts, and everything the next bar needs -/
theorem c08r_bar (pool : Pool) (s : State) (k : Nat) (b : Bar) (c : Int) (hs : BarStart k s c)
    (hi : PosInv s.positions) (hb : BarOK b) :
    BarFees pool k s c b ∧
    (barStep NumCtx.exact pool (setStatus NumCtx.exact) s k b.raw b.pre b.post).2 = none ∧
    PosInv (barStep NumCtx.exact pool (setStatus NumCtx.exact) s k b.raw b.pre b.post).1.positions ∧
    BarStart (k + 1) (barStep NumCtx.exact pool (setStatus NumCtx.exact) s k b.raw b.pre b.post).1 b.raw.closeTick := by
  obtain ⟨hpre, hco, hpi, hpost, hqi, hliq⟩ := hb
  have hps : PosInv (b.pre (setStatus NumCtx.exact s b.raw (some k) true)).positions := hpi _ hi
  have hD := c08r_D_pos hps hliq
  obtain ⟨h1, h2⟩ := C08_bar_fee pool s k b.raw b.pre c hs hpre hco (fun p hp => (hps p hp).1) (ne_of_gt hD)
  have hstep : barStep NumCtx.exact pool (setStatus NumCtx.exact) s k b.raw b.pre b.post =
      (b.post (update NumCtx.exact pool (barPrep (setStatus NumCtx.exact) s k b.raw b.pre)).1, none) := by
    unfold barStep; simp only []; rw [h1]
  refine ⟨⟨h1, hD, h2⟩, by rw [hstep], ?_, Uni.barStep_next NumCtx.exact pool s k b c hs hpre hpost⟩
  rw [hstep]
  apply hqi
  rw [h2]
  exact c08r_update_positions_inv _ _ hps

theorem c08r_runFrom (pool : Pool) : ∀ (bars : List Bar) (k : Nat) (s : State) (c : Int), BarStart k s c →
    PosInv s.positions → (∀ b ∈ bars, BarOK b) →
    RunFees pool k s c bars ∧
    (runFrom NumCtx.exact pool (setStatus NumCtx.exact) k s bars).2 = none ∧
    PosInv (runFrom NumCtx.exact pool (setStatus NumCtx.exact) k s bars).1.positions := by
  intro bars
  induction bars with
  | nil => intro k s c _ hi _; exact ⟨trivial, rfl, hi⟩
  | cons b bs ih =>
    intro k s c hs hi hb
    obtain ⟨hf, hnone, hinv, hnext⟩ := c08r_bar pool s k b c hs hi (hb b (List.mem_cons_self ..))
    obtain ⟨r1, r2, r3⟩ := ih (k + 1) _ b.raw.closeTick hnext hinv (fun x hx => hb x (List.mem_cons_of_mem _ hx))
    have hrun : runFrom NumCtx.exact pool (setStatus NumCtx.exact) k s (b :: bs) =
        runFrom NumCtx.exact pool (setStatus NumCtx.exact) (k + 1)
          (barStep NumCtx.exact pool (setStatus NumCtx.exact) s k b.raw b.pre b.post).1 bs := by
      conv => lhs; unfold runFrom
      simp only []; rw [hnone]
    exact ⟨⟨hf, r1⟩, by rw [hrun]; exact r2, by rw [hrun]; exact r3⟩

/-- bars given by the lists of market operations the strategy issues before `update()` (before_bar, on_bar) and
    after it (after_bar) -/
structure OpBar where
  raw : Row
  pre : List Op
  post : List Op

def OpBar.toBar (K : Kern) (pool : Pool) (minError : Rat) (b : OpBar) : Bar :=
  ⟨b.raw, fun s => runOps K pool minError s b.pre, fun s => runOps K pool minError s b.post⟩

end Demeter.Uni

namespace Demeter
open Demeter.Uni

/-! ### (a) the side conditions are invariants -/

/-- Every position has `lower < upper` after any list of operations (accepted or rejected) if it had before —
    for every kernel whose `new_position` refuses an empty range. The orchestration refuses `lower > upper`
    itself; `lower = upper` is left to the kernel. -/
theorem C08_runOps_preserves_range (K : Kern) (hK : KernAddOK K) (pool : Pool) (minError : Rat) (ops : List Op) (s : State)
    (h : ∀ p ∈ s.positions, p.lower < p.upper ∧ 0 ≤ p.liq) :
    ∀ p ∈ (runOps K pool minError s ops).positions, p.lower < p.upper ∧ 0 ≤ p.liq :=
  (runOps_inv K hK pool minError ops s).pres h

/-- The kernel of the code is such a kernel: `get_liquidity` on `lower = upper` raises `ZeroDivisionError`
    (`new_position` returns `.error .zeroDiv`) in every arithmetic context, and the liquidity it computes from
    non-negative offers is non-negative when rounding keeps signs. -/
theorem C08_std_kernel_rejects_empty_range (cx : NumCtx) (sq : Rat → Rat) (pool : Pool) (s : Nat) (t : Int) (a0 a1 : Rat) :
    (Kern.std cx sq).newPos pool s t t a0 a1 = .error .zeroDiv ∨ (Kern.std cx sq).newPos pool s t t a0 a1 = .error .assertion := by
  show newPosStd cx pool s t t a0 a1 = _ ∨ newPosStd cx pool s t t a0 a1 = _
  unfold newPosStd
  split
  · exact Or.inr rfl
  · rw [c08r_getLiquidity_empty]; exact Or.inl rfl

theorem C08_std_kernel_addOK (sq : Rat → Rat) : KernAddOK (Kern.std NumCtx.exact sq) := c08r_exact_addOK sq

theorem Uni.c08r_roundSig_nonneg (p : Nat) (x : Rat) (hx : 0 ≤ x) : 0 ≤ roundSig p x := by
  unfold roundSig
  split
  · exact le_refl _
  · have hn : ¬ x.num < 0 := not_lt.mpr (Rat.num_nonneg.mpr hx)
    simp only []
    rw [if_neg hn]
    split
    · exact_mod_cast Nat.zero_le _
    · exact Rat.mkRat_nonneg (Int.natCast_nonneg _) _

/-- … and so is the kernel under CPython's 35-digit arithmetic (what the driver runs): half-even rounding to 35
    digits keeps signs, so the invariant is not an artefact of the exact context. -/
theorem C08_py_kernel_addOK : KernAddOK Kern.py :=
  c08r_std_addOK NumCtx.py _ (fun x hx => Uni.c08r_roundSig_nonneg 35 x hx)

theorem C08_runOps_preserves_range_py (pool : Pool) (minError : Rat) (ops : List Op) (s : State)
    (h : ∀ p ∈ s.positions, p.lower < p.upper ∧ 0 ≤ p.liq) :
    ∀ p ∈ (runOps Kern.py pool minError s ops).positions, p.lower < p.upper ∧ 0 ≤ p.liq :=
  C08_runOps_preserves_range _ C08_py_kernel_addOK pool minError ops s h

/-- so with the code's kernel the invariant needs nothing but the initial state -/
theorem C08_runOps_preserves_range_std (sq : Rat → Rat) (pool : Pool) (minError : Rat) (ops : List Op) (s : State)
    (h : ∀ p ∈ s.positions, p.lower < p.upper ∧ 0 ≤ p.liq) :
    ∀ p ∈ (runOps (Kern.std NumCtx.exact sq) pool minError s ops).positions, p.lower < p.upper ∧ 0 ≤ p.liq :=
  C08_runOps_preserves_range _ (c08r_exact_addOK sq) pool minError ops s h

/-- `add_liquidity_by_tick(lower, upper, …, trim_tick=True)` does hand `lower = upper` to `_add_liquidity_by_tick`
    when both ticks round to the same usable tick (spacing 60: 25 and −20 both become 0) … -/
theorem C08_trim_can_collapse_range : nearestUsable 25 60 = nearestUsable (-20) 60 ∧ (25 : Int) ≠ -20 := by decide

/-- … and that call is refused before anything changes: the state stays what it was, for every kernel that
    refuses empty ranges. -/
theorem C08_empty_range_rejected (K : Kern) (hK : KernAddOK K) (pool : Pool) (s : State) (a0 a1 : Rat) (t : Int)
    (sq : Option Nat) :
    (∃ e, (addRaw K pool s a0 a1 t t sq).1 = .error e) ∧ (addRaw K pool s a0 a1 t t sq).2 = s := by
  unfold addRaw
  split
  · exact ⟨⟨_, rfl⟩, rfl⟩
  split
  · exact ⟨⟨_, rfl⟩, rfl⟩
  split
  · exact ⟨⟨_, rfl⟩, rfl⟩
  split
  · exact ⟨⟨_, rfl⟩, rfl⟩
  split
  · exact ⟨⟨_, rfl⟩, rfl⟩
  rename_i hneg
  split
  · exact ⟨⟨_, rfl⟩, rfl⟩
  rename_i u0 u1 liq hnew
  simp only [Bool.or_eq_true, decide_eq_true_eq, not_or, not_lt] at hneg
  exact absurd rfl (hK pool _ t t a0 a1 u0 u1 liq hneg.1 hneg.2 hnew).1

/-- `C08_bar_fee_ops` with the hypotheses on the state the bar starts from only: positions well-formed there, and a
    positive pool liquidity in the bar's data row. -/
theorem C08_bar_fee_ops_init (K : Kern) (hK : KernAddOK K) (pool : Pool) (minError : Rat) (s : State) (k : Nat) (raw : Row)
    (ops : List Op) (c : Int) (hs : BarStart k s c)
    (hinit : ∀ p ∈ s.positions, p.lower < p.upper ∧ 0 ≤ p.liq) (hpool : 0 < raw.curLiq) :
    let ps := (runOps K pool minError (setStatus NumCtx.exact s raw (some k) true) ops).positions
    let D := raw.curLiq + ((sumLiq ps : Int) : Rat)
    let r := update NumCtx.exact pool (barPrep (setStatus NumCtx.exact) s k raw (fun s => runOps K pool minError s ops))
    0 < D ∧ (∀ p ∈ ps, p.lower < p.upper ∧ 0 ≤ p.liq) ∧ r.2 = none ∧
    r.1.positions = ps.map (fun p => { p with
        pending0 := p.pending0 + feeInc (pathFraction c raw.closeTick p.lower p.upper) raw.in0 pool.d0 p.liq D pool.feeRate,
        pending1 := p.pending1 + feeInc (pathFraction c raw.closeTick p.lower p.upper) raw.in1 pool.d1 p.liq D pool.feeRate }) := by
  intro ps D r
  have hps : PosInv ps := (runOps_inv K hK pool minError ops _).pres hinit
  have hD : 0 < D := c08r_D_pos hps hpool
  obtain ⟨h1, h2⟩ := C08_bar_fee_ops K pool minError s k raw ops c hs (fun p hp => (hps p hp).1) (ne_of_gt hD)
  exact ⟨hD, hps, h1, h2⟩

theorem Uni.c08r_calcAmounts_ok {cx : NumCtx} {pool : Pool} {row : Row} {p p' : Pos} {w : Rat}
    (h : calcAmounts cx pool row p w = .ok p') (hp : PosOK p) : PosOK p' := by
  unfold calcAmounts at h
  split at h
  · cases h
  · cases h; exact hp

theorem Uni.c08r_updateFee_ok {cx : NumCtx} {pool : Pool} {last : Option Int} {row : Row} {p p' : Pos}
    (h : updateFee cx pool last row p = .ok p') (hp : PosOK p) : PosOK p' := by
  unfold updateFee at h
  split at h
  · cases h; exact hp
  · exact Uni.c08r_calcAmounts_ok h hp
  · cases h
  · simp only [] at h
    split at h
    · cases h
    · exact Uni.c08r_calcAmounts_ok h hp

theorem Uni.c08r_updateLoop_inv (cx : NumCtx) (pool : Pool) (last : Option Int) (row : Row) :
    ∀ ps : List Pos, PosInv ps → PosInv (updateLoop cx pool last row ps).1
  | [], _ => by intro q hq; cases hq
  | p :: ps, hi => by
    unfold updateLoop
    split
    · exact hi
    · rename_i p' hp'
      intro q hq
      rcases List.mem_cons.mp hq with h | h
      · rw [h]; exact Uni.c08r_updateFee_ok hp' (hi p (List.mem_cons_self ..))
      · exact Uni.c08r_updateLoop_inv cx pool last row ps (fun x hx => hi x (List.mem_cons_of_mem _ hx)) q h

/-- `update()` — in every arithmetic context, also when it raises half-way through the positions — changes pending
    amounts only: ranges and liquidities stay what they were. -/
theorem C08_update_preserves_range (cx : NumCtx) (pool : Pool) (s : State)
    (h : ∀ p ∈ s.positions, p.lower < p.upper ∧ 0 ≤ p.liq) :
    ∀ p ∈ (update cx pool s).1.positions, p.lower < p.upper ∧ 0 ≤ p.liq := by
  unfold update
  split
  · exact h
  · exact h
  · rename_i hps _
    exact Uni.c08r_updateLoop_inv cx pool s.lastTick _ _ h

/-! ### (b) the whole run -/

/-- `Actuator.run` on a fresh market (no status yet; positions, if any, well-formed): bar after bar `update()`
    does not raise, `pool(i) + Σ own > 0`, and the positions present when the operations of bar `i` are done
    earn `feeInc (pathFraction close(i−1) close(i) lower upper) volume(i) … own (pool(i) + Σ own) feeRate` per token —
    bar 0 with `close(−1) := close(0)`.  `RunFees` spells this out bar by bar. The strategy's behaviour is
    arbitrary within `BarOK` (what every list of market operations satisfies, see `C08_run_fees_ops`). -/
theorem C08_run_fees (pool : Pool) (s : State) (init : State → State) (b0 : Bar) (bs : List Bar)
    (hfresh : s.row = none ∧ s.ts = none) (hpos : ∀ p ∈ s.positions, p.lower < p.upper ∧ 0 ≤ p.liq)
    (hinit : Frame init ∧ InvPres init) (hb : ∀ b ∈ b0 :: bs, BarOK b) :
    RunFees pool 0 (runStart (setStatus NumCtx.exact) s init (b0 :: bs)) b0.raw.closeTick (b0 :: bs) ∧
    (run NumCtx.exact pool (setStatus NumCtx.exact) s init (b0 :: bs)).2 = none ∧
    (∀ p ∈ (run NumCtx.exact pool (setStatus NumCtx.exact) s init (b0 :: bs)).1.positions, p.lower < p.upper ∧ 0 ≤ p.liq) := by
  apply c08r_runFrom pool (b0 :: bs) 0 _ b0.raw.closeTick _ _ hb
  · obtain ⟨i1, i2, _⟩ := hinit.1 (setStatus NumCtx.exact s b0.raw (some 0) true)
    refine ⟨?_, Or.inr ?_⟩
    · show (init _).row.map _ = _; rw [i2]; rfl
    · show (init _).lastTick = none; rw [i1]
      show (if _ then _ else _) = _
      rw [hfresh.1, hfresh.2]; simp
  · exact hinit.2 _ hpos

theorem Uni.OpBar.ok (K : Kern) (hK : KernAddOK K) (pool : Pool) (minError : Rat) (b : OpBar) (h : 0 < b.raw.curLiq) :
    BarOK (b.toBar K pool minError) :=
  ⟨C08_ops_frame K pool minError b.pre, C08_ops_coherent K pool minError b.pre,
   fun s hs => (runOps_inv K hK pool minError b.pre s).pres hs,
   C08_ops_frame K pool minError b.post, fun s hs => (runOps_inv K hK pool minError b.post s).pres hs, h⟩

/-- The run theorem for concrete operations: whatever lists of market operations the strategy issues in
    `initialize` and in each bar before and after `update()`, with any kernel that refuses empty ranges (the code's
    does: `C08_std_kernel_addOK`). The only hypotheses left are on the inputs: a fresh market and positive pool
    liquidity in every data row. -/
theorem C08_run_fees_ops (K : Kern) (hK : KernAddOK K) (pool : Pool) (minError : Rat) (s : State) (initOps : List Op)
    (b0 : OpBar) (bs : List OpBar)
    (hfresh : s.row = none ∧ s.ts = none) (hpos : ∀ p ∈ s.positions, p.lower < p.upper ∧ 0 ≤ p.liq)
    (hrows : ∀ b ∈ b0 :: bs, 0 < b.raw.curLiq) :
    let bars := (b0 :: bs).map (OpBar.toBar K pool minError)
    let init := fun s => runOps K pool minError s initOps
    RunFees pool 0 (runStart (setStatus NumCtx.exact) s init bars) b0.raw.closeTick bars ∧
    (run NumCtx.exact pool (setStatus NumCtx.exact) s init bars).2 = none ∧
    (∀ p ∈ (run NumCtx.exact pool (setStatus NumCtx.exact) s init bars).1.positions, p.lower < p.upper ∧ 0 ≤ p.liq) := by
  intro bars init
  apply C08_run_fees pool s init (b0.toBar K pool minError) (bs.map (OpBar.toBar K pool minError)) hfresh hpos
  · exact ⟨C08_ops_frame K pool minError initOps, fun s hs => (runOps_inv K hK pool minError initOps s).pres hs⟩
  · intro b hb
    rw [← List.map_cons] at hb
    obtain ⟨ob, hob, rfl⟩ := List.mem_map.mp hb
    exact Uni.OpBar.ok K hK pool minError ob (hrows ob hob)

end Demeter

/-! ### the same, bar by bar with an index -/
namespace Demeter
open Demeter.Uni

theorem Uni.c08r_barStep_of_fees {pool : Pool} {k : Nat} {s : State} {c : Int} {b : Bar} (h : BarFees pool k s c b) :
    (barStep NumCtx.exact pool (setStatus NumCtx.exact) s k b.raw b.pre b.post).2 = none := by
  have h1 : (update NumCtx.exact pool (barPrep (setStatus NumCtx.exact) s k b.raw b.pre)).2 = none := h.1
  unfold barStep; simp only []; rw [h1]

/-- `RunFees` read at bar `i`: the state the bar starts from is the one the first `i` bars of the run produced,
    the path starts at entry `i` of `c :: close(0) :: close(1) :: …`, i.e. at `c` for the first bar and at the
    previous bar's close afterwards. -/
theorem C08_run_fees_at (pool : Pool) : ∀ (bars : List Bar) (k : Nat) (s : State) (c : Int), RunFees pool k s c bars →
    ∀ (i : Nat) (b : Bar) (prev : Int), bars[i]? = some b → (c :: bars.map (·.raw.closeTick))[i]? = some prev →
      (runFrom NumCtx.exact pool (setStatus NumCtx.exact) k s (bars.take i)).2 = none ∧
      BarFees pool (k + i) (runFrom NumCtx.exact pool (setStatus NumCtx.exact) k s (bars.take i)).1 prev b := by
  intro bars
  induction bars with
  | nil => intro k s c _ i b prev hb; simp at hb
  | cons b0 bs ih =>
    intro k s c h i b prev hb hp
    cases i with
    | zero =>
      simp only [List.getElem?_cons_zero, Option.some.injEq] at hb hp
      subst hb; subst hp
      exact ⟨rfl, h.1⟩
    | succ j =>
      simp only [List.getElem?_cons_succ, List.map_cons] at hb hp
      have hnone := Uni.c08r_barStep_of_fees h.1
      have hrun : runFrom NumCtx.exact pool (setStatus NumCtx.exact) k s ((b0 :: bs).take (j + 1)) =
          runFrom NumCtx.exact pool (setStatus NumCtx.exact) (k + 1)
            (barStep NumCtx.exact pool (setStatus NumCtx.exact) s k b0.raw b0.pre b0.post).1 (bs.take j) := by
        rw [List.take_succ_cons]
        conv => lhs; unfold runFrom
        simp only []; rw [hnone]
      have hk : k + (j + 1) = k + 1 + j := by omega
      rw [hrun, hk]
      exact ih (k + 1) _ b0.raw.closeTick h.2 j b prev hb hp

/-- `C08_run_fees_ops`, bar `i`: in a run on a fresh market with arbitrary market operations in `initialize` and in every
    bar, the first `i` bars complete without an exception and bar `i` pays, to every position present after its
    operations, `feeInc (pathFraction prev close(i) lower upper) volume(i) decimals own (pool(i) + Σ own) feeRate`
    with `prev = close(i−1)` (`close(0)` for `i = 0`): entry `i` of `close(0) :: close(0) :: close(1) :: …`. -/
theorem C08_run_fees_ops_at (K : Kern) (hK : KernAddOK K) (pool : Pool) (minError : Rat) (s : State) (initOps : List Op)
    (b0 : OpBar) (bs : List OpBar)
    (hfresh : s.row = none ∧ s.ts = none) (hpos : ∀ p ∈ s.positions, p.lower < p.upper ∧ 0 ≤ p.liq)
    (hrows : ∀ b ∈ b0 :: bs, 0 < b.raw.curLiq)
    (i : Nat) (b : OpBar) (prev : Int) (hb : (b0 :: bs)[i]? = some b)
    (hp : (b0.raw.closeTick :: (b0 :: bs).map (·.raw.closeTick))[i]? = some prev) :
    let bars := (b0 :: bs).map (OpBar.toBar K pool minError)
    let init := fun s => runOps K pool minError s initOps
    let r := runFrom NumCtx.exact pool (setStatus NumCtx.exact) 0 (runStart (setStatus NumCtx.exact) s init bars) (bars.take i)
    r.2 = none ∧ BarFees pool i r.1 prev (b.toBar K pool minError) := by
  intro bars init r
  have h := (C08_run_fees_ops K hK pool minError s initOps b0 bs hfresh hpos hrows).1
  have hb' : bars[i]? = some (b.toBar K pool minError) := by
    show ((b0 :: bs).map (OpBar.toBar K pool minError))[i]? = _
    rw [List.getElem?_map, hb]; rfl
  have hp' : (b0.raw.closeTick :: bars.map (·.raw.closeTick))[i]? = some prev := by
    have : bars.map (·.raw.closeTick) = (b0 :: bs).map (·.raw.closeTick) := by
      show ((b0 :: bs).map (OpBar.toBar K pool minError)).map _ = _
      rw [List.map_map]; rfl
    rw [this]; exact hp
  have h2 := C08_run_fees_at pool bars 0 _ b0.raw.closeTick h i _ prev hb' hp'
  rw [Nat.zero_add] at h2
  exact h2

end Demeter

/-! ### non-vacuity -/
namespace Demeter.Uni

def c08rExPool : Pool :=
  { tok0 := "a", tok1 := "b", d0 := 0, d1 := 0, feeRate := 3 / 1000, spacing := 1, q0 := false, decFac := 1 }

/-- a fresh market (no status yet) that already holds the position [0, 10) with liquidity 1000 -/
def c08rExState : State :=
  { (default : State) with
    positions := [{ (default : Pos) with lower := 0, upper := 10, liq := 1000 }], lastTick := none, row := none, ts := none }

/-- bar 0 closes at tick 5 (inside), bar 1 at tick 15 (above: half of the path 5 → 15 is inside); in bar 1 the
    strategy lends the position out before `update()` (it keeps earning) -/
def c08rExBar0 : OpBar := ⟨{ closeTick := 5, curLiq := 9000, in0 := 1000000, in1 := 2000000, price := 1 }, [], []⟩
def c08rExBar1 : OpBar :=
  ⟨{ closeTick := 15, curLiq := 9000, in0 := 1000000, in1 := 2000000, price := 1 }, [Op.transferOut 0 10], []⟩
def c08rExBars : List OpBar := [c08rExBar0, c08rExBar1]

end Demeter.Uni

namespace Demeter
open Demeter.Uni

/-- the hypotheses of `C08_run_fees_ops` hold for that 2-bar run with the code's kernel … -/
example : (c08rExState.row = none ∧ c08rExState.ts = none) ∧ c08rExState.positions ≠ [] ∧
    (∀ p ∈ c08rExState.positions, p.lower < p.upper ∧ 0 ≤ p.liq) ∧ (∀ b ∈ c08rExBars, 0 < b.raw.curLiq) ∧
    KernAddOK (Kern.std NumCtx.exact (fun x => x * x)) :=
  ⟨⟨rfl, rfl⟩, by decide, by decide, by decide, C08_std_kernel_addOK _⟩

/-- … and what the run computes is what the theorem says: bar 0 (stationary inside, weight 1, share 1000/10000):
    300 and 600; bar 1 (weight 1/2): 150 and 300 more. -/
example :
    ((run NumCtx.exact c08rExPool (setStatus NumCtx.exact) c08rExState id
        (c08rExBars.map (OpBar.toBar (Kern.std NumCtx.exact (fun x => x * x)) c08rExPool 0))).1.positions.map
      (fun p => (p.pending0, p.pending1, p.transferred))) = [(450, 900, true)] ∧
    feeInc (pathFraction 5 15 0 10) 1000000 0 1000 (9000 + 1000) (3 / 1000) = 150 := by decide +kernel

/-- bar 1 of that run read through `C08_run_fees_ops_at`: bar 0 completed, and the path of bar 1 starts at 5 = close(0) -/
example :
    let K := Kern.std NumCtx.exact (fun x => x * x)
    let bars := c08rExBars.map (OpBar.toBar K c08rExPool 0)
    let r := runFrom NumCtx.exact c08rExPool (setStatus NumCtx.exact) 0
      (runStart (setStatus NumCtx.exact) c08rExState (fun s => runOps K c08rExPool 0 s []) bars) (bars.take 1)
    r.2 = none ∧ BarFees c08rExPool 1 r.1 5 (c08rExBar1.toBar K c08rExPool 0) :=
  C08_run_fees_ops_at (Kern.std NumCtx.exact (fun x => x * x)) (C08_std_kernel_addOK _) c08rExPool 0 c08rExState []
    c08rExBar0 [c08rExBar1] ⟨rfl, rfl⟩ (by decide) (by decide) 1 c08rExBar1 5 rfl rfl

end Demeter
