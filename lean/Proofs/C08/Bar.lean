/-
  C08, bar level: where the tick path starts, what `currentLiquidity` is when fees are computed, and that
  liquidity added during a bar earns in that bar.  The strategy's operations are arbitrary state
  transformers constrained only by what every concrete operation satisfies (proved in Proofs/C08/Ops.lean):
  `Frame` = they do not touch `last_tick`, the status row or its timestamp; `Coherent` = whoever changes the
  own-liquidity total sets `has_update`.
-/
import Demeter.Uni.Fee
import Proofs.Lemmas.UniFee
namespace Demeter.Uni
open Demeter

def Frame (f : State → State) : Prop :=
  ∀ s, (f s).lastTick = s.lastTick ∧ (f s).row = s.row ∧ (f s).ts = s.ts

def Coherent (f : State → State) : Prop :=
  ∀ s, (f s).hasUpdate = true ∨ (sumLiq (f s).positions = sumLiq s.positions ∧ (f s).hasUpdate = s.hasUpdate)

theorem Frame.id : Frame id := fun _ => ⟨rfl, rfl, rfl⟩
theorem Frame.comp {f g : State → State} (hf : Frame f) (hg : Frame g) : Frame (f ∘ g) := fun s =>
  ⟨(hf (g s)).1.trans (hg s).1, (hf (g s)).2.1.trans (hg s).2.1, (hf (g s)).2.2.trans (hg s).2.2⟩

/-- bar `k` starts from a state whose status row closes at `c` and which is not already inside bar `k` -/
def BarStart (k : Nat) (s : State) (c : Int) : Prop :=
  s.row.map (·.closeTick) = some c ∧ (s.ts ≠ some k ∨ s.lastTick = none)

/-- the state handed to `update()` -/
theorem barPrep_spec (cx : NumCtx) (s : State) (k : Nat) (raw : Row) (pre : State → State) (c : Int)
    (hs : BarStart k s c) (hpre : Frame pre) (hco : Coherent pre) :
    let s1 := setStatus cx s raw (some k) true
    let s3 := barPrep (setStatus cx) s k raw pre
    s3.lastTick = some c ∧ s3.ts = some k ∧ s3.positions = (pre s1).positions ∧
    s3.row = some { raw with curLiq := cx.add raw.curLiq ((sumLiq (pre s1).positions : Int) : Rat) } := by
  intro s1 s3
  obtain ⟨hrow, hts⟩ := hs
  have h1l : s1.lastTick = some c := by
    show (if _ then _ else _) = _
    have : ((some k).isSome && (some k == s.ts) && s.lastTick.isSome) = false := by
      rcases hts with h | h
      · have : (some k == s.ts) = false := by
          cases hh : s.ts with
          | none => rfl
          | some j =>
            have : k ≠ j := fun e => h (by rw [hh, e])
            simp [this]
        simp [this]
      · simp [h]
    rw [this]; simpa using hrow
  have h1t : s1.ts = some k := rfl
  have h1h : s1.hasUpdate = false := rfl
  have h1r : s1.row = some { raw with curLiq := cx.add raw.curLiq ((sumLiq s.positions : Int) : Rat) } := rfl
  have h1p : s1.positions = s.positions := rfl
  obtain ⟨f1, f2, f3⟩ := hpre s1
  by_cases hu : (pre s1).hasUpdate = true
  · have e : s3 = setStatus cx (pre s1) raw (some k) true := by
      show (if _ then _ else _) = _; rw [if_pos hu]
    rw [e]
    refine ⟨?_, rfl, rfl, rfl⟩
    show (if _ then _ else _) = _
    have : ((some k).isSome && (some k == (pre s1).ts) && (pre s1).lastTick.isSome) = true := by
      rw [f3, h1t, f1, h1l]; simp
    rw [this, if_pos rfl, f1, h1l]
  · have e : s3 = pre s1 := by
      show (if _ then _ else _) = _; rw [if_neg hu]
    rw [e]
    refine ⟨f1.trans h1l, f3.trans h1t, rfl, ?_⟩
    rcases hco s1 with h | ⟨hsum, _⟩
    · exact absurd h hu
    · rw [f2, h1r, hsum, h1p]

/-- where the path starts needs `Frame` only -/
theorem barPrep_lastTick (cx : NumCtx) (s : State) (k : Nat) (raw : Row) (pre : State → State) (c : Int)
    (hs : BarStart k s c) (hpre : Frame pre) :
    let s3 := barPrep (setStatus cx) s k raw pre
    s3.lastTick = some c ∧ s3.ts = some k ∧ s3.row.map (·.closeTick) = some raw.closeTick := by
  intro s3
  let s1 := setStatus cx s raw (some k) true
  obtain ⟨hrow, hts⟩ := hs
  have h1l : s1.lastTick = some c := by
    show (if _ then _ else _) = _
    have : ((some k).isSome && (some k == s.ts) && s.lastTick.isSome) = false := by
      rcases hts with h | h
      · have : (some k == s.ts) = false := by
          cases hh : s.ts with
          | none => rfl
          | some j =>
            have : k ≠ j := fun e => h (by rw [hh, e])
            simp [this]
        simp [this]
      · simp [h]
    rw [this]; simpa using hrow
  have h1t : s1.ts = some k := rfl
  obtain ⟨f1, f2, f3⟩ := hpre s1
  by_cases hu : (pre s1).hasUpdate = true
  · have e : s3 = setStatus cx (pre s1) raw (some k) true := by
      show (if _ then _ else _) = _; rw [if_pos hu]
    rw [e]
    refine ⟨?_, rfl, rfl⟩
    show (if _ then _ else _) = _
    have : ((some k).isSome && (some k == (pre s1).ts) && (pre s1).lastTick.isSome) = true := by
      rw [f3, h1t, f1, h1l]; simp
    rw [this, if_pos rfl, f1, h1l]
  · have e : s3 = pre s1 := by
      show (if _ then _ else _) = _; rw [if_neg hu]
    rw [e]
    exact ⟨f1.trans h1l, f3.trans h1t, by rw [f2]; rfl⟩

/-- `update()` touches positions only -/
theorem update_frame (cx : NumCtx) (pool : Pool) (s : State) :
    (update cx pool s).1.lastTick = s.lastTick ∧ (update cx pool s).1.row = s.row ∧
    (update cx pool s).1.ts = s.ts := by
  unfold update
  split <;> simp

theorem updateLoop_exact (pool : Pool) (prev : Int) (row : Row) (hc : row.curLiq ≠ 0) (ps : List Pos)
    (hlu : ∀ p ∈ ps, p.lower < p.upper) :
    updateLoop NumCtx.exact pool (some prev) row ps =
      (ps.map (fun p => { p with
        pending0 := p.pending0 + feeInc (pathFraction prev row.closeTick p.lower p.upper) row.in0 pool.d0 p.liq row.curLiq pool.feeRate,
        pending1 := p.pending1 + feeInc (pathFraction prev row.closeTick p.lower p.upper) row.in1 pool.d1 p.liq row.curLiq pool.feeRate }),
       none) := by
  induction ps with
  | nil => rfl
  | cons p ps ih =>
    have h1 := updateFee_exact pool prev row p (hlu p (List.mem_cons_self ..)) hc
    have h2 := ih (fun q hq => hlu q (List.mem_cons_of_mem _ hq))
    simp only [updateLoop, h1, h2, List.map_cons]

end Demeter.Uni

namespace Demeter
open Demeter.Uni

/-! ### (2)+(5) the bar as a whole -/

/-- In bar `k ≥ 1` (or bar 0 of a fresh market) every position that exists when the strategy's operations of
    the bar are done — including liquidity added or increased by them — earns
    `volume × fee × pathFraction(close(k−1), close(k)) × own / (pool + Σ own)`, where the own-liquidity total
    is taken **after** those operations. -/
theorem C08_bar_fee (pool : Pool) (s : State) (k : Nat) (raw : Row) (pre : State → State) (c : Int)
    (hs : BarStart k s c) (hpre : Frame pre) (hco : Coherent pre)
    (hlu : ∀ p ∈ (pre (setStatus NumCtx.exact s raw (some k) true)).positions, p.lower < p.upper)
    (hD : raw.curLiq + ((sumLiq (pre (setStatus NumCtx.exact s raw (some k) true)).positions : Int) : Rat) ≠ 0) :
    let ps := (pre (setStatus NumCtx.exact s raw (some k) true)).positions
    let D := raw.curLiq + ((sumLiq ps : Int) : Rat)
    let r := update NumCtx.exact pool (barPrep (setStatus NumCtx.exact) s k raw pre)
    r.2 = none ∧
    r.1.positions = ps.map (fun p => { p with
        pending0 := p.pending0 + feeInc (pathFraction c raw.closeTick p.lower p.upper) raw.in0 pool.d0 p.liq D pool.feeRate,
        pending1 := p.pending1 + feeInc (pathFraction c raw.closeTick p.lower p.upper) raw.in1 pool.d1 p.liq D pool.feeRate }) := by
  intro ps D r
  obtain ⟨hl, _, hp, hr⟩ := barPrep_spec NumCtx.exact s k raw pre c hs hpre hco
  have hr' : (barPrep (setStatus NumCtx.exact) s k raw pre).row = some { raw with curLiq := D } := by
    rw [hr]; rfl
  show (update NumCtx.exact pool (barPrep (setStatus NumCtx.exact) s k raw pre)).2 = none ∧
    (update NumCtx.exact pool (barPrep (setStatus NumCtx.exact) s k raw pre)).1.positions = _
  unfold update
  rw [hp, hr', hl]
  cases hps : (pre (setStatus NumCtx.exact s raw (some k) true)).positions with
  | nil => simp [ps, hps]; rw [hp, hps]
  | cons q qs =>
    have hloop := updateLoop_exact pool c { raw with curLiq := D } hD (q :: qs) (by rw [← hps]; exact hlu)
    simp only [hloop, ps, hps]
    exact ⟨trivial, trivial⟩

/-- (5) liquidity added during bar `k` is part of the own-liquidity total the shares of bar `k` are computed
    with, and the state handed to `update()` holds the positions as the bar's operations left them. -/
theorem C08_added_in_bar_earns (cx : NumCtx) (s : State) (k : Nat) (raw : Row) (pre : State → State) (c : Int)
    (hs : BarStart k s c) (hpre : Frame pre) (hco : Coherent pre) :
    (barPrep (setStatus cx) s k raw pre).positions = (pre (setStatus cx s raw (some k) true)).positions ∧
    (barPrep (setStatus cx) s k raw pre).row.map (·.curLiq) =
      some (cx.add raw.curLiq ((sumLiq (pre (setStatus cx s raw (some k) true)).positions : Int) : Rat)) := by
  obtain ⟨_, _, hp, hr⟩ := barPrep_spec cx s k raw pre c hs hpre hco
  exact ⟨hp, by rw [hr]; rfl⟩

/-! ### (3) the path starts at the previous bar's close, whatever happens in the bar -/

theorem Uni.barStep_next (cx : NumCtx) (pool : Pool) (s : State) (k : Nat) (b : Bar) (c : Int)
    (hs : BarStart k s c) (hpre : Frame b.pre) (hpost : Frame b.post) :
    BarStart (k + 1) (barStep cx pool (setStatus cx) s k b.raw b.pre b.post).1 b.raw.closeTick := by
  obtain ⟨_, ht, hr⟩ := barPrep_lastTick cx s k b.raw b.pre c hs hpre
  obtain ⟨_, u2, u3⟩ := update_frame cx pool (barPrep (setStatus cx) s k b.raw b.pre)
  unfold barStep
  simp only []
  cases (update cx pool (barPrep (setStatus cx) s k b.raw b.pre)).2 with
  | some e => exact ⟨by rw [u2]; exact hr, Or.inl (by rw [u3, ht]; simp)⟩
  | none =>
    obtain ⟨_, p2, p3⟩ := hpost (update cx pool (barPrep (setStatus cx) s k b.raw b.pre)).1
    exact ⟨by show Option.map _ (b.post _).row = _; rw [p2, u2]; exact hr,
      Or.inl (by show (b.post _).ts ≠ _; rw [p3, u3, ht]; simp)⟩

theorem Uni.prepTrace_lastTicks (cx : NumCtx) (pool : Pool) :
    ∀ (bars : List Bar) (k : Nat) (s : State) (c : Int), BarStart k s c →
      (∀ b ∈ bars, Frame b.pre ∧ Frame b.post) →
      (prepTrace cx pool (setStatus cx) k s bars).map (·.lastTick) =
        ((c :: bars.map (·.raw.closeTick)).take (prepTrace cx pool (setStatus cx) k s bars).length).map some := by
  intro bars
  induction bars with
  | nil => intro k s c _ _; simp [prepTrace]
  | cons b bs ih =>
    intro k s c hs hf
    obtain ⟨hbpre, hbpost⟩ := hf b (List.mem_cons_self ..)
    obtain ⟨hl, _, _⟩ := barPrep_lastTick cx s k b.raw b.pre c hs hbpre
    have hnext := Uni.barStep_next cx pool s k b c hs hbpre hbpost
    simp only [prepTrace, List.map_cons, List.length_cons, List.take_succ_cons, hl]
    congr 1
    split
    · simp
    · exact ih (k + 1) _ b.raw.closeTick hnext (fun x hx => hf x (List.mem_cons_of_mem _ hx))

/-- In `Actuator.run` on a fresh market, the `last_tick` the fee computation of bar `i` sees is the close of
    bar `i − 1` for `i ≥ 1` and the close of bar 0 for `i = 0` (there is no previous bar), for **arbitrary**
    strategy behaviour in `initialize`, before/on/after bar — it may set `has_update` and thereby trigger the
    second refresh as often as it likes. (`take` accounts for a run that stops at a raising `update()`.) -/
theorem C08_path_start (cx : NumCtx) (pool : Pool) (s : State) (init : State → State) (b0 : Bar) (bs : List Bar)
    (hfresh : s.row = none ∧ s.ts = none) (hinit : Frame init)
    (hf : ∀ b ∈ b0 :: bs, Frame b.pre ∧ Frame b.post) :
    let tr := prepTrace cx pool (setStatus cx) 0 (runStart (setStatus cx) s init (b0 :: bs)) (b0 :: bs)
    tr.map (·.lastTick) =
      ((b0.raw.closeTick :: (b0 :: bs).map (·.raw.closeTick)).take tr.length).map some := by
  intro tr
  apply Uni.prepTrace_lastTicks cx pool (b0 :: bs) 0 _ b0.raw.closeTick _ hf
  obtain ⟨i1, i2, _⟩ := hinit (setStatus cx s b0.raw (some 0) true)
  refine ⟨?_, Or.inr ?_⟩
  · show (init _).row.map _ = _; rw [i2]; rfl
  · show (init _).lastTick = none; rw [i1]
    show (if _ then _ else _) = _
    rw [hfresh.1, hfresh.2]; simp

/-- Before the repair (`setStatusOld`: every refresh overwrites `last_tick`) the statement was false: a bar
    whose operations merely set `has_update` starts its path at its *own* close. -/
theorem C08_path_start_fails_before_fix :
    ∃ (s : State) (b0 b1 : Bar), (s.row = none ∧ s.ts = none) ∧ Frame b0.pre ∧ Frame b0.post ∧ Frame b1.pre ∧ Frame b1.post ∧
      ((prepTrace NumCtx.exact default (setStatusOld NumCtx.exact) 0 (runStart (setStatusOld NumCtx.exact) s id [b0, b1]) [b0, b1]).map (·.lastTick))
        ≠ [some b0.raw.closeTick, some b0.raw.closeTick] := by
  refine ⟨{ (default : State) with row := none, ts := none },
    ⟨{ (default : Row) with closeTick := 10 }, id, id⟩,
    ⟨{ (default : Row) with closeTick := 20 }, (fun s => { s with hasUpdate := true }), id⟩,
    ⟨rfl, rfl⟩, Frame.id, Frame.id, (fun _ => ⟨rfl, rfl, rfl⟩), Frame.id, ?_⟩
  decide

end Demeter

/-! ### non-vacuity -/
namespace Demeter
open Demeter.Uni

/-- the same two bars under the repaired refresh: both paths start where they should -/
example :
    (prepTrace NumCtx.exact default (setStatus NumCtx.exact) 0
      (runStart (setStatus NumCtx.exact) { (default : State) with row := none, ts := none } id
        [⟨{ (default : Row) with closeTick := 10 }, id, id⟩,
         ⟨{ (default : Row) with closeTick := 20 }, (fun s => { s with hasUpdate := true }), id⟩])
      [⟨{ (default : Row) with closeTick := 10 }, id, id⟩,
       ⟨{ (default : Row) with closeTick := 20 }, (fun s => { s with hasUpdate := true }), id⟩]).map (·.lastTick)
      = [some 10, some 10] := by decide

/-- `BarStart`, `Frame`, `Coherent` are satisfiable together with a non-empty position list -/
example : BarStart 3 { (default : State) with row := some { (default : Row) with closeTick := 7 }, ts := some 2 } 7 ∧
    Frame (fun s => { s with hasUpdate := true, positions := { (default : Pos) with lower := 0, upper := 10, liq := 5 } :: s.positions }) ∧
    Coherent (fun s => { s with hasUpdate := true, positions := { (default : Pos) with lower := 0, upper := 10, liq := 5 } :: s.positions }) :=
  ⟨⟨rfl, Or.inl (by decide)⟩, fun _ => ⟨rfl, rfl, rfl⟩, fun _ => Or.inl rfl⟩

end Demeter
