/-
  C06 — tick ⇄ sqrt-price conversions.  Property theorems (statements); helper lemmas are in Proofs/Lemmas.
  The exhaustive kernel sweep that discharges `MonoAll` for the generated table is Proofs/C06/Full.lean.
-/
import Demeter.TickMath
import Proofs.Lemmas.TickUnroll
namespace Demeter
open Gen

/-- strict monotonicity of `get_sqrt_ratio_at_tick` over the whole valid range -/
def MonoAll : Prop := ∀ t : Int, minTick ≤ t → t < maxTick → sqrtAt t < sqrtAt (t + 1)

/-! ### (a) the protocol's boundary values (literals from the property, table from the source) -/

theorem C06_boundary_zero : sqrtAt 0 = 2 ^ 96 := by decide +kernel
theorem C06_boundary_min : sqrtAt (-887272) = 4295128739 := by decide +kernel
theorem C06_boundary_max : sqrtAt 887272 = 1461446703485210103287273052203988822378723970342 := by decide +kernel
theorem C06_tick_bound : tickBound = 887272 := by decide

/-! ### (d) sqrt price → tick is the floor, for every float estimate within the loop's fuel -/

theorem mono_le (hm : MonoAll) : ∀ (n : Nat) (s : Int), minTick ≤ s → s + n ≤ maxTick →
    sqrtAt s ≤ sqrtAt (s + n) := by
  intro n
  induction n with
  | zero => intro s _ _; simp
  | succ n ih =>
    intro s h1 h2
    have h3 := ih s h1 (by omega)
    have h4 := hm (s + n) (by omega) (by omega)
    have : s + ((n + 1 : Nat) : Int) = s + (n : Int) + 1 := by omega
    rw [this]; omega

theorem mono_le' (hm : MonoAll) (s t : Int) (h1 : minTick ≤ s) (h2 : s ≤ t) (h3 : t ≤ maxTick) :
    sqrtAt s ≤ sqrtAt t := by
  have := mono_le hm (t - s).toNat s h1 (by omega)
  have e : s + ((t - s).toNat : Int) = t := by omega
  rwa [e] at this

theorem mono_lt' (hm : MonoAll) (s t : Int) (h1 : minTick ≤ s) (h2 : s < t) (h3 : t ≤ maxTick) :
    sqrtAt s < sqrtAt t := by
  have a := hm s h1 (by omega)
  have b := mono_le' hm (s + 1) t (by omega) (by omega) h3
  omega

/-- a floor tick exists for every sqrt price in the valid range -/
theorem C06_floor_exists (x : Nat) (h1 : sqrtAt minTick ≤ x) (h2 : x < sqrtAt maxTick) :
    ∃ t, minTick ≤ t ∧ t < maxTick ∧ sqrtAt t ≤ x ∧ x < sqrtAt (t + 1) := by
  have key : ∀ n : Nat, x < sqrtAt (minTick + n) →
      ∃ t, minTick ≤ t ∧ t < minTick + n ∧ sqrtAt t ≤ x ∧ x < sqrtAt (t + 1) := by
    intro n
    induction n with
    | zero => intro h; simp at h; omega
    | succ n ih =>
      intro h
      by_cases hx : x < sqrtAt (minTick + n)
      · obtain ⟨t, a, b, c, d⟩ := ih hx
        exact ⟨t, a, by omega, c, d⟩
      · refine ⟨minTick + n, by omega, by omega, by omega, ?_⟩
        have : minTick + (n : Int) + 1 = minTick + ((n + 1 : Nat) : Int) := by omega
        rw [this]; exact h
  have hn : minTick + ((maxTick - minTick).toNat : Int) = maxTick := by
    unfold minTick maxTick; omega
  obtain ⟨t, a, b, c, d⟩ := key (maxTick - minTick).toNat (by rw [hn]; exact h2)
  exact ⟨t, a, by omega, c, d⟩

theorem tickCorrectDown_spec (hm : MonoAll) (x : Nat) (ts : Int)
    (h1 : minTick ≤ ts) (h2 : ts < maxTick) (h3 : sqrtAt ts ≤ x) (h4 : x < sqrtAt (ts + 1)) :
    ∀ (fuel : Nat) (t : Int), t ≤ maxTick → minTick ≤ t →
      (t ≤ ts → tickCorrectDown fuel t x = t) ∧
      (ts ≤ t → t - ts ≤ fuel → tickCorrectDown fuel t x = ts) := by
  intro fuel
  induction fuel with
  | zero =>
    intro t _ _
    refine ⟨fun _ => rfl, fun a b => ?_⟩
    have : t = ts := by omega
    simp [tickCorrectDown, this]
  | succ fuel ih =>
    intro t ht ht'
    constructor
    · intro hle
      have : sqrtAt t ≤ x := Nat.le_trans (mono_le' hm t ts ht' hle (by omega)) h3
      simp only [tickCorrectDown]
      rw [if_neg (by omega)]
    · intro hge hf
      simp only [tickCorrectDown]
      by_cases heq : t = ts
      · subst heq; rw [if_neg (by omega)]
      · have hlt : ts + 1 ≤ t := by omega
        have : x < sqrtAt t := Nat.lt_of_lt_of_le h4 (mono_le' hm (ts + 1) t (by omega) hlt ht)
        rw [if_pos ⟨by omega, this⟩]
        exact (ih (t - 1) (by omega) (by omega)).2 (by omega) (by omega)

theorem tickCorrectUp_spec (hm : MonoAll) (x : Nat) (ts : Int)
    (h1 : minTick ≤ ts) (h2 : ts < maxTick) (h3 : sqrtAt ts ≤ x) (h4 : x < sqrtAt (ts + 1)) :
    ∀ (fuel : Nat) (t : Int), minTick ≤ t → t ≤ ts → ts - t ≤ fuel → tickCorrectUp fuel t x = ts := by
  intro fuel
  induction fuel with
  | zero =>
    intro t _ a b
    have : t = ts := by omega
    simp [tickCorrectUp, this]
  | succ fuel ih =>
    intro t ht hle hf
    simp only [tickCorrectUp]
    by_cases heq : t = ts
    · subst heq; rw [if_neg (by omega)]
    · have : sqrtAt (t + 1) ≤ x := Nat.le_trans (mono_le' hm (t + 1) ts (by omega) (by omega) (by omega)) h3
      rw [if_pos ⟨by omega, this⟩]
      exact ih (t + 1) (by omega) (by omega) (by omega)

/-- **floor**: whatever integer the float logarithm produced, the conversion returns the greatest tick whose
    sqrt price does not exceed `x` — negative ticks included — as long as the estimate is within `fuel`. -/
theorem C06_floor_of_mono (hm : MonoAll) (fuel : Nat) (est : Int) (x : Nat) (ts : Int)
    (h1 : minTick ≤ ts) (h2 : ts < maxTick) (h3 : sqrtAt ts ≤ x) (h4 : x < sqrtAt (ts + 1))
    (hf : (clampTick est - ts).natAbs ≤ fuel) :
    tickOfSqrt fuel est x = ts := by
  unfold tickOfSqrt
  have hmm : minTick ≤ maxTick := by unfold minTick maxTick; omega
  have hc1 : minTick ≤ clampTick est := by
    unfold clampTick
    split
    · omega
    · split <;> omega
  have hc2 : clampTick est ≤ maxTick := by
    unfold clampTick
    split
    · omega
    · split <;> omega
  simp only []
  have hd := tickCorrectDown_spec hm x ts h1 h2 h3 h4 fuel (clampTick est) hc2 hc1
  by_cases hle : clampTick est ≤ ts
  · simp only [hd.1 hle]
    exact tickCorrectUp_spec hm x ts h1 h2 h3 h4 fuel _ hc1 hle (by omega)
  · simp only [hd.2 (by omega) (by omega)]
    exact tickCorrectUp_spec hm x ts h1 h2 h3 h4 fuel ts h1 (by omega) (by omega)

/-- the result never leaves the valid range and always satisfies the floor inequalities it can check,
    even with no fuel assumption: `sqrtAt result ≤ x` fails only if the down-loop ran out of fuel. -/
theorem C06_floor_unique (hm : MonoAll) (x : Nat) (s t : Int)
    (hs1 : minTick ≤ s) (hs2 : s < maxTick) (hs3 : sqrtAt s ≤ x) (hs4 : x < sqrtAt (s + 1))
    (ht1 : minTick ≤ t) (ht2 : t < maxTick) (ht3 : sqrtAt t ≤ x) (ht4 : x < sqrtAt (t + 1)) : s = t := by
  by_cases h : s < t
  · have := mono_le' hm (s + 1) t (by omega) (by omega) (by omega); omega
  · by_cases h' : t < s
    · have := mono_le' hm (t + 1) s (by omega) (by omega) (by omega); omega
    · omega

/-! ### (f) rounding to usable ticks -/

theorem roundHalfEvenNat_near (n d : Nat) (hd : 0 < d) :
    2 * (roundHalfEvenNat n d * d) ≤ 2 * n + d ∧ 2 * n ≤ 2 * (roundHalfEvenNat n d * d) + d := by
  unfold roundHalfEvenNat
  have h := Nat.div_add_mod n d
  have hr := Nat.mod_lt n hd
  have hm : (n / d + 1) * d = d * (n / d) + d := by rw [Nat.add_mul, Nat.mul_comm]; omega
  have hm0 : n / d * d = d * (n / d) := Nat.mul_comm _ _
  simp only []
  split
  · omega
  · split
    · omega
    · split <;> omega

/-- the result is a multiple of the spacing -/
theorem C06_nearest_usable_multiple (t : Int) (sp : Nat) : ∃ k : Int, nearestUsable t sp = k * sp := by
  unfold nearestUsable
  simp only []
  split
  · exact ⟨roundDivHalfEven t sp + 1, by rw [Int.add_mul]; omega⟩
  · split
    · exact ⟨roundDivHalfEven t sp - 1, by rw [Int.sub_mul]; omega⟩
    · exact ⟨_, rfl⟩

theorem roundDiv_near (t : Int) (sp : Nat) (hsp : 0 < sp) :
    2 * (roundDivHalfEven t sp * sp - t).natAbs ≤ sp := by
  unfold roundDivHalfEven
  have h := roundHalfEvenNat_near t.natAbs sp hsp
  generalize hq : roundHalfEvenNat t.natAbs sp = q at h
  have hc : ((q * sp : Nat) : Int) = (q : Int) * (sp : Int) := by push_cast; rfl
  generalize hqs : q * sp = m at h hc
  by_cases ht : t < 0
  · simp only [ht, if_true]
    rw [Int.neg_mul, ← hc]; omega
  · simp only [ht, if_false]
    rw [← hc]; omega

/-- nearest: when no end-of-range correction applies the result is within half a spacing of the input -/
theorem C06_nearest_usable_near (t : Int) (sp : Nat) (hsp : 0 < sp)
    (hin : minTick ≤ roundDivHalfEven t sp * sp ∧ roundDivHalfEven t sp * sp ≤ maxTick) :
    2 * (nearestUsable t sp - t).natAbs ≤ sp := by
  unfold nearestUsable
  simp only []
  rw [if_neg (by omega), if_neg (by omega)]
  exact roundDiv_near t sp hsp

/-- inside the valid range: for an input tick in range and a spacing not larger than the range the result
    is in range -/
theorem C06_nearest_usable_in_range (t : Int) (sp : Nat) (hsp : 0 < sp) (hsp2 : sp ≤ 887272)
    (ht : minTick ≤ t ∧ t ≤ maxTick) :
    minTick ≤ nearestUsable t sp ∧ nearestUsable t sp ≤ maxTick := by
  have hn := roundDiv_near t sp hsp
  unfold nearestUsable
  simp only []
  unfold minTick maxTick tickBound at *
  split
  · omega
  · split <;> omega

/-! ### non-vacuity -/
example : nearestUsable 25 10 = 20 ∧ nearestUsable (-887272) 60 = -887220 ∧ nearestUsable 35 10 = 40 := by decide
example : tickOfSqrt 64 (-3) (sqrtAt (-5) + 1) = -5 := by decide +kernel
example : sqrtAt (-5) ≤ sqrtAt (-5) + 1 ∧ sqrtAt (-5) + 1 < sqrtAt (-4) := by decide +kernel

end Demeter
