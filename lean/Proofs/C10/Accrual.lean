/-
  C10 (continued) — accrual with the indices independent of what happens in between, split / merge.
-/
import Proofs.C10
namespace Demeter
open Aave

variable {env : Env}

/-! ### accrual: the balance follows the index, whatever happens to other positions in between -/

/-- operations that can change the supply entry of `tok` -/
def TouchesSupply (tok : String) : Op → Prop
  | .supply t _ _ => t = tok
  | .withdraw t _ => t = tok
  | .repay t _ w c => w = true ∧ c.getD t = tok
  | .changeCollateral t _ => t = tok
  | .update => True
  | _ => False

/-- operations that can change the debt entry of `tok` -/
def TouchesBorrow (tok : String) : Op → Prop
  | .borrow t _ => t = tok
  | .repay t _ _ _ => t = tok
  | .update => True
  | _ => False

section untouched
variable {cx : ACtx} {tok : String}

theorem aave_inv_walletDebit {I : St → Prop} (hI : ∀ s w, I s → I { s with wallet := w }) (t : String) (a : Rat) :
    Inv I (walletDebit cx t a) := by
  intro s hs
  unfold walletDebit
  split
  · exact hI s _ hs
  · exact hs
  · exact hs

theorem aave_inv_finally {I : St → Prop} {α : Type} {m : M α} {fin : St → St} (hm : Inv I m) (hf : ∀ s, I s → I (fin s)) :
    Inv I (finally' m fin) := by
  intro s hs
  rw [finally'_snd]
  exact hf _ (hm s hs)

/-- the invariant "the supply entry of `tok` is `x`" -/
def SupIs (tok : String) (x : Option SupplyInfo) (s : St) : Prop := AList.get? s.supplies tok = x
def BorIs (tok : String) (x : Option BorrowInfo) (s : St) : Prop := AList.get? s.borrows tok = x

theorem aave_readInv_supIs (x : Option SupplyInfo) : ReadInv cx env (SupIs tok x) :=
  ReadInv.ofIgnoring (fun _ _ h => h) (fun _ _ h => h) (fun _ _ h => h) (fun _ _ h => h) (fun _ _ h => h)

theorem aave_readInv_borIs (x : Option BorrowInfo) : ReadInv cx env (BorIs tok x) :=
  ReadInv.ofIgnoring (fun _ _ h => h) (fun _ _ h => h) (fun _ _ h => h) (fun _ _ h => h) (fun _ _ h => h)

theorem aave_supIs_subSupply (x : Option SupplyInfo) {t : String} (ht : t ≠ tok) (a : Rat) :
    Inv (SupIs tok x) (subSupplyAmount cx env t a) := by
  unfold subSupplyAmount commitSubSupply
  refine Inv.bind (Inv.queryPos _) (fun old => ?_)
  cases old with
  | none => dsimp only; split; exact Inv.pure _; exact Inv.throw _
  | some info =>
    dsimp only
    refine Inv.bind (Inv.ofRes _) (fun _ => Inv.bind (Inv.ofRes _) (fun _ => Inv.bind (Inv.modify _ (fun s hs => ?_)) (fun _ => Inv.pure _)))
    show AList.get? (if _ = 0 then _ else _) tok = x
    split
    · rw [aget_erase_ne' _ (Ne.symm ht)]; exact hs
    · rw [aget_set_ne _ ht]; exact hs

theorem aave_supIs_subBorrow (x : Option SupplyInfo) (t : String) (a : Rat) :
    Inv (SupIs tok x) (subBorrowAmount cx env t a) := by
  unfold subBorrowAmount commitSubBorrow
  refine Inv.bind (Inv.queryPos _) (fun old => ?_)
  cases old with
  | none => dsimp only; split; exact Inv.pure _; exact Inv.throw _
  | some info =>
    dsimp only
    exact Inv.bind (Inv.ofRes _) (fun _ => Inv.bind (Inv.ofRes _) (fun _ => Inv.bind (Inv.modify _ (fun s hs => hs)) (fun _ => Inv.pure _)))

theorem aave_supIs_modify (x : Option SupplyInfo) (g : St → St) (hg : ∀ s, (g s).supplies = s.supplies) :
    Inv (SupIs tok x) (M.modify g) :=
  Inv.modify _ (fun s hs => by show AList.get? (g s).supplies tok = x; rw [hg]; exact hs)

theorem aave_supIs_setOther (x : Option SupplyInfo) {t : String} (ht : t ≠ tok) (g : St → St)
    (hg : ∀ s, ∃ info, (g s).supplies = AList.set s.supplies t info) : Inv (SupIs tok x) (M.modify g) :=
  Inv.modify _ (fun s hs => by
    obtain ⟨info, e⟩ := hg s
    show AList.get? (g s).supplies tok = x
    rw [e, aget_set_ne _ ht]; exact hs)

theorem aave_supIs_supply (x : Option SupplyInfo) {t : String} (ht : t ≠ tok) (a : Rat) (c : Bool) :
    Inv (SupIs tok x) (supply cx env t a c) := by
  have hwd := aave_inv_walletDebit (cx := cx) (I := SupIs tok x) (fun _ _ h => h) t a
  have hcommit : ∀ info, Inv (SupIs tok x) (commitSupply t info) :=
    fun info => aave_supIs_setOther x ht _ (fun s => ⟨info, rfl⟩)
  have hrec : ∀ act, Inv (SupIs tok x) (record act) := fun act => aave_supIs_modify x _ (fun _ => rfl)
  have hupd : Inv (SupIs tok x) setUpdated := aave_supIs_modify x _ (fun _ => rfl)
  unfold supply guardOpen checkCanCollateral checkFlag
  repeat (first | exact hcommit _ | exact hrec _ | inv_step)

theorem aave_supIs_withdraw (x : Option SupplyInfo) {t : String} (ht : t ≠ tok) (a : Option Rat) :
    Inv (SupIs tok x) (withdraw cx env t a) := by
  have hR := aave_readInv_supIs (cx := cx) (env := env) (tok := tok) x
  have h6 := hR.toReadInv3.getSupply t
  have hsub := fun amt => aave_supIs_subSupply (cx := cx) (env := env) x ht amt
  have hcred : ∀ amt, Inv (SupIs tok x) (walletCredit cx t amt) := fun amt => aave_supIs_modify x _ (fun _ => rfl)
  have hrec : ∀ act, Inv (SupIs tok x) (record act) := fun act => aave_supIs_modify x _ (fun _ => rfl)
  have hupd : Inv (SupIs tok x) setUpdated := aave_supIs_modify x _ (fun _ => rfl)
  have htrial : ∀ info tb, Inv (SupIs tok x) (trialHealthFactor cx env t info tb) := by
    intro info tb
    unfold trialHealthFactor
    refine Inv.bind (aave_supIs_setOther x ht _ (fun s => ⟨_, rfl⟩)) (fun _ => ?_)
    refine aave_inv_finally hR.toReadInv3.healthFactor (fun s hs => ?_)
    show AList.get? (AList.set s.supplies t info) tok = x
    rw [aget_set_ne _ ht]; exact hs
  have hchk : ∀ info amt idx, Inv (SupIs tok x) (checkWithdrawHf cx env t info amt idx) := by
    intro info amt idx
    unfold checkWithdrawHf
    split
    · exact Inv.bind (Inv.ofRes _) (fun _ => Inv.bind (htrial _ _) (fun _ => Inv.require _ _))
    · exact Inv.pure _
  unfold withdraw guardOpen lookupSupply
  repeat (first | exact hchk _ _ _ | exact hsub _ | exact hcred _ | exact hrec _ | inv_step)

theorem aave_supIs_borrow (x : Option SupplyInfo) (t : String) (a : Option Rat) :
    Inv (SupIs tok x) (borrow cx env t a) := by
  have hR := aave_readInv_supIs (cx := cx) (env := env) (tok := tok) x
  have h2 := hR.bv; have h3 := hR.cv; have h5 := hR.bo
  have h9 := hR.toReadInv3.healthFactor; have h10 := hR.toReadInv3.maxLtv
  have h11 : Inv (SupIs tok x) (borrowAmountOf cx env t a) := by
    unfold borrowAmountOf
    split
    · exact Inv.pure _
    · exact hR.toReadInv3.maxBorrowAmount t
  have hcommit : ∀ info amt, Inv (SupIs tok x) (commitBorrow cx t info amt) :=
    fun info amt => aave_supIs_modify x _ (fun _ => rfl)
  have hrec : ∀ act, Inv (SupIs tok x) (record act) := fun act => aave_supIs_modify x _ (fun _ => rfl)
  have hupd : Inv (SupIs tok x) setUpdated := aave_supIs_modify x _ (fun _ => rfl)
  unfold borrow guardOpen
  exact Inv.bind (Inv.require _ _) (fun _ => Inv.bind h11 (fun _ => Inv.bind (Inv.require _ _) (fun _ =>
    Inv.bind_ofRes (fun st _ => Inv.bind_ofRes (fun r _ => Inv.bind (Inv.require _ _) (fun _ => Inv.bind h3 (fun cv =>
    Inv.bind (Inv.require _ _) (fun _ => Inv.bind h10 (fun ml => Inv.bind (Inv.require _ _) (fun _ => Inv.bind h9 (fun hf =>
    Inv.bind (Inv.require _ _) (fun _ => Inv.bind_ofRes (fun p _ => Inv.bind h5 (fun bv => Inv.bind_ofRes (fun needed _ =>
    Inv.bind (Inv.require _ _) (fun _ => Inv.bind_ofRes (fun base _ => Inv.bind (Inv.queryPos _) (fun old =>
    Inv.bind (hcommit _ _) (fun _ => Inv.bind (hrec _) (fun _ => hupd))))))))))))))))))))

theorem aave_supIs_repay (x : Option SupplyInfo) (t : String) (a : Option Rat) (w : Bool) (c : Option String)
    (ht : w = true → c.getD t ≠ tok) : Inv (SupIs tok x) (repay cx env t a w c) := by
  have hR := aave_readInv_supIs (cx := cx) (env := env) (tok := tok) x
  have h4 := hR.su
  have h6 := fun k => hR.toReadInv3.getSupply k
  have h7 := hR.toReadInv3.getBorrow t
  have hcap : ∀ t c a w, Inv (SupIs tok x) (repayAmountOf cx env t c a w) := by
    intro t c a w
    unfold repayAmountOf repayCollateralCap
    repeat (first | exact h6 _ | inv_step)
  have htake : ∀ p, Inv (SupIs tok x) (takeRepayment cx env t (c.getD t) p w) := by
    intro p
    unfold takeRepayment
    split
    · rename_i hw
      exact Inv.bind (Inv.ofRes _) (fun _ => Inv.bind (aave_supIs_subSupply x (ht hw) _) (fun _ => Inv.pure _))
    · exact aave_inv_walletDebit (fun _ _ h => h) _ _
  have hsubb := fun p => aave_supIs_subBorrow (cx := cx) (env := env) (tok := tok) x t p
  have hrec : ∀ act, Inv (SupIs tok x) (record act) := fun act => aave_supIs_modify x _ (fun _ => rfl)
  have hupd : Inv (SupIs tok x) setUpdated := aave_supIs_modify x _ (fun _ => rfl)
  unfold repay guardOpen lookupBorrow
  exact Inv.bind (Inv.require _ _) (fun _ => Inv.bind_ofRes (fun st _ => Inv.bind h7 (fun bv =>
    Inv.bind (hcap _ _ _ _) (fun payback => Inv.bind_ofRes (fun pbBase _ => Inv.bind (Inv.require _ _) (fun _ =>
    Inv.bind (Inv.queryPos _) (fun info => Inv.bind (Inv.require _ _) (fun _ => Inv.bind_ofRes (fun rr _ =>
    Inv.bind (Inv.require _ _) (fun _ => Inv.bind (htake _) (fun _ => Inv.bind (hsubb _) (fun debt =>
    Inv.bind (hrec _) (fun _ => hupd)))))))))))))

theorem aave_supIs_changeCollateral (x : Option SupplyInfo) {t : String} (ht : t ≠ tok) (c : Bool) :
    Inv (SupIs tok x) (changeCollateral cx env t c) := by
  have hR := aave_readInv_supIs (cx := cx) (env := env) (tok := tok) x
  have h9 := hR.toReadInv3.healthFactor
  have hflag : ∀ info, Inv (SupIs tok x) (commitFlag t info) :=
    fun info => aave_supIs_setOther x ht _ (fun s => ⟨info, rfl⟩)
  have hupd : Inv (SupIs tok x) setUpdated := aave_supIs_modify x _ (fun _ => rfl)
  unfold changeCollateral guardOpen lookupSupply
  repeat (first | exact hflag _ | exact Inv.onError h9 (fun s hs => hflag _ s hs) | inv_step)

/-- **an operation that does not target `tok`'s supply leaves that entry exactly as it is** — in any bar, any
    arithmetic, accepted or rejected (reads, operations on other tokens, borrow, cash repay, bar change). -/
theorem C10_supply_untouched (op : Op) (h : ¬ TouchesSupply tok op) (env : Env) (s : St) :
    AList.get? (step cx env s op).2.supplies tok = AList.get? s.supplies tok := by
  have key : ∀ (m : M Unit), Inv (SupIs tok (AList.get? s.supplies tok)) m →
      AList.get? (unitM m s).2.supplies tok = AList.get? s.supplies tok := by
    intro m hm
    have := hm s rfl
    unfold unitM mapM'
    rcases hms : m s with ⟨r, s1⟩
    rw [hms] at this
    cases r <;> exact this
  cases op with
  | supply t a c => exact key _ (aave_supIs_supply _ (fun e => h e) a c)
  | withdraw t a => exact key _ (aave_supIs_withdraw _ (fun e => h e) a)
  | borrow t a => exact key _ (aave_supIs_borrow _ t a)
  | repay t a w c => exact key _ (aave_supIs_repay _ t a w c (fun hw e => h ⟨hw, e⟩))
  | changeCollateral t c => exact key _ (aave_supIs_changeCollateral _ (fun e => h e) c)
  | update => exact absurd trivial h
  | read v => exact (aave_readInv_supIs (cx := cx) (env := env) (tok := tok) _).readView v s rfl
  | newBar => rfl

end untouched

/-- a history: in each step the caller's bar (`Env`) and one operation -/
def runHist (cx : ACtx) : St → List (Env × Op) → St
  | s, [] => s
  | s, (env, op) :: rest => runHist cx (step cx env s op).2 rest

theorem C10_supply_untouched_hist {cx : ACtx} {tok : String} (hist : List (Env × Op)) :
    ∀ (s : St), (∀ p ∈ hist, ¬ TouchesSupply tok p.2) →
      AList.get? (runHist cx s hist).supplies tok = AList.get? s.supplies tok := by
  induction hist with
  | nil => intro s _; rfl
  | cons p rest ih =>
    intro s h
    obtain ⟨env, op⟩ := p
    show AList.get? (runHist cx (step cx env s op).2 rest).supplies tok = _
    rw [ih _ (fun q hq => h q (List.mem_cons_of_mem _ hq))]
    exact C10_supply_untouched op (h (env, op) (List.mem_cons_self ..)) env s

/-- **a supplied balance equals amount × index now / index at supply time, regardless of how many bars or other
    operations lie between**: supply `a` of a token not yet supplied in a bar with liquidity index `I₀`; let any
    history of bars and operations follow that does not target this supply (other tokens, borrows, cash repayments,
    reads, bar changes — accepted or rejected); in a bar with index `I` the scaled entry is still `a / I₀`, i.e. the
    balance `get_supply(tok).amount = base × I` is `a × I / I₀`. -/
theorem C10_supply_accrues {env0 : Env} {s0 s1 : St} {tok : String} {a : Rat} {coll : Bool}
    (hnew : AList.get? s0.supplies tok = none)
    (h : supply aaveExact env0 tok a coll s0 = (.ok (), s1))
    (hist : List (Env × Op)) (hun : ∀ p ∈ hist, ¬ TouchesSupply tok p.2) (I : Rat) :
    ∃ st0 e, env0.statusOf tok = .ok st0 ∧ AList.get? (runHist aaveExact s1 hist).supplies tok = some e ∧
      e.base * I = a * I / st0.liqIdx := by
  obtain ⟨st, e, hst, he, hb, _, _, _⟩ := C10_supply_exact h
  obtain ⟨st', _, _, _, hst', hnz, _, _, _⟩ := supply_inv h
  rw [hst] at hst'; cases hst'
  refine ⟨st, e, hst, by rw [C10_supply_untouched_hist hist s1 hun]; exact he, ?_⟩
  rw [hnew] at hb
  simp at hb
  have : e.base = a / st.liqIdx := by field_simp; linarith
  rw [this]; field_simp

end Demeter
