/-
  C10 — ε-robust accrual for the 35-digit Decimal context.

  The exact-arithmetic theorems (`C10_supply_accrues`, …) say: supplied `a` at liquidity index `I₀`, any history that does
  not target this supply, then the balance in a bar with index `I` is `a·I/I₀`.  Here the same round trip is proved for a
  *rounding* context: every `+ − × ÷` result is rounded with relative error ≤ ε (`RndOK`).  The model performs
        base   = rnd(0 + rnd(a / I₀))            (supply: `pool_amount`, then `Decimal(0) += pool_amount`)
        amount = rnd(base · I)                    (`get_supply(...).amount`, what `withdraw(None)` pays out)
        left   = rnd(base − rnd(amount / I))      (`sub_base_amount`; below MIN_TOKEN_VALUE ⇒ the entry is deleted)
  so   |amount − a·I/I₀| ≤ ((1+ε)³ − 1)·a·I/I₀ ≤ 4ε·a·I/I₀   and   left ≤ 3ε·(1+ε)²·a/I₀.

  `Proofs/Numerics.lean` proves `RndOK NumCtx.pyG EPS35` (ε = 5·10⁻³⁵: CPython's `prec = 35`, `NumCtx.pyG` = the drivers'
  `NumCtx.py` inside the magnitude range `InRange`, identity outside), hence for the Decimal arithmetic of the code:
  withdraw-all after any number of bars returns `a·I/I₀` within 2·10⁻³⁴ relative (≪ the 10⁻¹⁸ of the property), and —
  under the explicit magnitude bound `a/I₀ ≤ 10¹⁵` scaled units — the position disappears (`C10_roundtrip_pyG`).
  The debt side has the same three roundings (borrow: `rnd(0 + rnd(a/I₀))`, `get_borrow(...).amount = rnd(base·I)`, what
  `repay(None)` takes from the wallet, `sub_base_amount`): `C10_debt_roundtrip_robust`, `C10_debt_roundtrip_pyG`.
-/
import Proofs.C10.Accrual
import Proofs.C10.Debt
import Proofs.Numerics
import Mathlib.Tactic.Positivity
namespace Demeter
open Aave Demeter.Numerics

/-- ε-hypothesis on an arithmetic context: a non-negative exact result is rounded within relative `ε`, a non-positive one
    stays non-positive -/
structure Aave.RndOK (nc : NumCtx) (ε : Rat) : Prop where
  within : ∀ x : Rat, 0 ≤ x → x * (1 - ε) ≤ nc.rnd x ∧ nc.rnd x ≤ x * (1 + ε)
  nonpos : ∀ x : Rat, x ≤ 0 → nc.rnd x ≤ 0

/-- the Aave context over the guarded 35-digit Decimal arithmetic (`dpow` = libmpdec's power, irrelevant here) -/
def aavePyG : ACtx := { NumCtx.pyG with dpow := dpowNat 35 }

/-- the proved rounding error of the model's 35-digit arithmetic discharges the ε-hypothesis, ε = 5·10⁻³⁵ -/
theorem aave_pyG_rndOK : RndOK aavePyG.toNumCtx EPS35 where
  within := Num_pyG_rnd
  nonpos := by
    intro x hx
    show (if InRange x then round35 x else x) ≤ 0
    split_ifs
    · exact round35_nonpos hx
    · exact hx

namespace Aave
variable {nc : NumCtx} {ε : Rat}

theorem RndOK.between (h : RndOK nc ε) (hε : 0 ≤ ε) (hε1 : ε ≤ 1) {x lo hi : Rat} (hlo : 0 ≤ lo) (h1 : lo ≤ x) (h2 : x ≤ hi) :
    lo * (1 - ε) ≤ nc.rnd x ∧ nc.rnd x ≤ hi * (1 + ε) := by
  obtain ⟨a, b⟩ := h.within x (le_trans hlo h1)
  constructor
  · have : lo * (1 - ε) ≤ x * (1 - ε) := mul_le_mul_of_nonneg_right h1 (by linarith)
    linarith
  · have : x * (1 + ε) ≤ hi * (1 + ε) := mul_le_mul_of_nonneg_right h2 (by linarith)
    linarith

/-- the three roundings of supply-then-read: `rnd(rnd(0 + rnd(a/I₀)) · I)` against `t = a·I/I₀` -/
theorem roundtrip_amount (h : RndOK nc ε) (hε : 0 ≤ ε) (hε1 : ε ≤ 1) {a I0 I : Rat} (ha : 0 ≤ a) (hI0 : 0 < I0) (hI : 0 < I) :
    let base := nc.add 0 (nc.div a I0)
    a / I0 * (1 - ε) ^ 2 ≤ base ∧ base ≤ a / I0 * (1 + ε) ^ 2 ∧
    a * I / I0 * (1 - ε) ^ 3 ≤ nc.mul base I ∧ nc.mul base I ≤ a * I / I0 * (1 + ε) ^ 3 := by
  intro base
  have hq : 0 ≤ a / I0 := div_nonneg ha hI0.le
  have h1e : 0 ≤ 1 - ε := by linarith
  obtain ⟨b1, b2⟩ := h.within (a / I0) hq
  have hb0 : 0 ≤ a / I0 * (1 - ε) := mul_nonneg hq h1e
  obtain ⟨c1, c2⟩ := h.between hε hε1 (x := 0 + nc.div a I0) hb0 (by show _ ≤ 0 + nc.rnd (a / I0); linarith)
    (by show 0 + nc.rnd (a / I0) ≤ a / I0 * (1 + ε); linarith)
  have hbl : a / I0 * (1 - ε) ^ 2 ≤ base := by
    have : a / I0 * (1 - ε) ^ 2 = a / I0 * (1 - ε) * (1 - ε) := by ring
    rw [this]; exact c1
  have hbh : base ≤ a / I0 * (1 + ε) ^ 2 := by
    have : a / I0 * (1 + ε) ^ 2 = a / I0 * (1 + ε) * (1 + ε) := by ring
    rw [this]; exact c2
  have hl0 : 0 ≤ a / I0 * (1 - ε) ^ 2 * I := mul_nonneg (mul_nonneg hq (by positivity)) hI.le
  obtain ⟨d1, d2⟩ := h.between hε hε1 (x := base * I) hl0 (mul_le_mul_of_nonneg_right hbl hI.le)
    (mul_le_mul_of_nonneg_right hbh hI.le)
  refine ⟨hbl, hbh, ?_, ?_⟩
  · have : a * I / I0 * (1 - ε) ^ 3 = a / I0 * (1 - ε) ^ 2 * I * (1 - ε) := by ring
    rw [this]; exact d1
  · have : a * I / I0 * (1 + ε) ^ 3 = a / I0 * (1 + ε) ^ 2 * I * (1 + ε) := by ring
    rw [this]; exact d2

/-- what `sub_base_amount` is left with when the whole balance `amount = rnd(base·I)` is withdrawn -/
theorem roundtrip_left (h : RndOK nc ε) (hε : 0 ≤ ε) (hεh : ε ≤ 1 / 2) {base I : Rat} (hb : 0 ≤ base) (hI : 0 < I) :
    nc.sub base (nc.div (nc.mul base I) I) ≤ 3 * ε * base := by
  have hε1 : ε ≤ 1 := by linarith
  have h1e : 0 ≤ 1 - ε := by linarith
  obtain ⟨m1, m2⟩ := h.within (base * I) (mul_nonneg hb hI.le)
  have hm0 : 0 ≤ base * (1 - ε) := mul_nonneg hb h1e
  have hdl : base * (1 - ε) ≤ nc.mul base I / I := by
    rw [le_div_iff₀ hI]
    have : base * (1 - ε) * I = base * I * (1 - ε) := by ring
    rw [this]; exact m1
  have hdh : nc.mul base I / I ≤ base * (1 + ε) := by
    rw [div_le_iff₀ hI]
    have : base * (1 + ε) * I = base * I * (1 + ε) := by ring
    rw [this]; exact m2
  obtain ⟨d1, _⟩ := h.between hε hε1 (x := nc.mul base I / I) hm0 hdl hdh
  -- d := rnd(amount / I) ≥ base (1-ε)²
  by_cases hneg : base - nc.div (nc.mul base I) I ≤ 0
  · have := h.nonpos _ hneg
    have h3 : 0 ≤ 3 * ε * base := by positivity
    exact le_trans this h3
  · push_neg at hneg
    obtain ⟨_, s2⟩ := h.within _ hneg.le
    have hdiff : base - nc.div (nc.mul base I) I ≤ base * (2 * ε) := by
      have : base * (1 - ε) * (1 - ε) ≤ nc.div (nc.mul base I) I := d1
      nlinarith [mul_nonneg hb (mul_nonneg hε hε)]
    have : nc.sub base (nc.div (nc.mul base I) I) ≤ base * (2 * ε) * (1 + ε) :=
      le_trans s2 (mul_le_mul_of_nonneg_right hdiff (by linarith))
    have h2 : base * (2 * ε) * (1 + ε) ≤ 3 * ε * base := by
      nlinarith [mul_nonneg (mul_nonneg hb hε) (by linarith : (0:ℚ) ≤ 1 - 2 * ε)]
    linarith

end Aave

/-- **ε-robust accrual round trip** (any arithmetic context with relative rounding error ≤ ε ≤ 1/2): supply `a` of a
    token not yet supplied in a bar with liquidity index `I₀`; then ANY history of bars and operations that does not target
    this supply (other tokens, borrows, cash repayments, reads, bar changes; accepted or rejected); then `withdraw(None)` in
    a bar with index `I`.  The wallet is credited with `x`, `|x − a·I/I₀| ≤ ((1+ε)³ − 1)·a·I/I₀`, and what is left of the
    scaled balance before the dust rule is at most `3ε(1+ε)²·a/I₀` — so the entry is deleted as soon as that is below
    MIN_TOKEN_VALUE. -/
theorem C10_roundtrip_robust {cx : ACtx} {ε : Rat} (hR : RndOK cx.toNumCtx ε) (hε : 0 ≤ ε) (hε1 : ε ≤ 1 / 2)
    {env0 env : Env} {s0 s1 s3 : St} {tok : String} {a : Rat} {coll : Bool}
    (hI0 : AavePosIdx env0) (hI : AavePosIdx env)
    (hnew : AList.get? s0.supplies tok = none)
    (hsup : supply cx env0 tok a coll s0 = (.ok (), s1))
    (hist : List (Env × Op)) (hun : ∀ p ∈ hist, ¬ TouchesSupply tok p.2)
    (hgood : Good cx env (runHist cx s1 hist))
    (hw : withdraw cx env tok none (runHist cx s1 hist) = (.ok (), s3)) :
    ∃ st0 st x, env0.statusOf tok = .ok st0 ∧ env.statusOf tok = .ok st ∧
      s3.wallet = Wallet.credit cx.toNumCtx (runHist cx s1 hist).wallet tok x ∧
      a * st.liqIdx / st0.liqIdx * (1 - ε) ^ 3 ≤ x ∧ x ≤ a * st.liqIdx / st0.liqIdx * (1 + ε) ^ 3 ∧
      (3 * ε * (a / st0.liqIdx * (1 + ε) ^ 2) < Gen.aaveMinTokenValue → AList.get? s3.supplies tok = none) := by
  obtain ⟨st0, w', _, hapos, hst0, _, _, _, hcore⟩ := supply_inv hsup
  have hI0pos := (hI0 tok st0 hst0).1
  have hs1 : AList.get? s1.supplies tok = some ⟨cx.add 0 (cx.div a st0.liqIdx), coll, st0.liqIdx⟩ := by
    have : s1.supplies = _ := congrArg Core.supplies hcore
    rw [this, hnew]
    exact aget_set_self _ _ _
  have hs2 := C10_supply_untouched_hist (cx := cx) (tok := tok) hist s1 hun
  rw [hs1] at hs2
  obtain ⟨st, info, amount, nb, _, hst, _, hg, hamt, _, _, hnb, hcore3⟩ := withdraw_inv hgood hw
  rw [hs2] at hg
  cases hg
  have hIpos := (hI tok st hst).1
  simp only [Option.getD_none] at hamt
  obtain ⟨bl, bh, xl, xh⟩ := roundtrip_amount hR hε (by linarith) (le_of_lt hapos) hI0pos hIpos
  refine ⟨st0, st, amount, hst0, hst, congrArg Core.wallet hcore3, by rw [hamt]; exact xl, by rw [hamt]; exact xh, ?_⟩
  intro hsmall
  have hb0 : 0 ≤ cx.add 0 (cx.div a st0.liqIdx) :=
    le_trans (mul_nonneg (div_nonneg hapos.le hI0pos.le) (by positivity)) bl
  have hleft := roundtrip_left hR hε hε1 hb0 hIpos
  have hnb0 : nb = 0 := by
    rw [hnb, hamt]
    unfold subBase
    rw [if_pos]
    calc cx.sub (cx.add 0 (cx.div a st0.liqIdx)) (cx.div (cx.mul (cx.add 0 (cx.div a st0.liqIdx)) st.liqIdx) st.liqIdx)
        ≤ 3 * ε * cx.add 0 (cx.div a st0.liqIdx) := hleft
      _ ≤ 3 * ε * (a / st0.liqIdx * (1 + ε) ^ 2) := mul_le_mul_of_nonneg_left bh (by positivity)
      _ < Gen.aaveMinTokenValue := hsmall
  have : s3.supplies = _ := congrArg Core.supplies hcore3
  rw [this, hnb0]
  unfold supAfterSub
  rw [if_pos rfl]
  exact aget_erase_self' _ _

/-- **the round trip under CPython's 35-digit Decimal arithmetic** (`NumCtx.pyG`, ε = 5·10⁻³⁵ proved in
    `Proofs/Numerics.lean`): the amount returned by withdraw-all after any untouched history is `a·I/I₀` within
    10⁻¹⁸ relative (in fact 2·10⁻³⁴), and for positions up to 10¹⁵ scaled units the entry disappears. -/
theorem C10_roundtrip_pyG {env0 env : Env} {s0 s1 s3 : St} {tok : String} {a : Rat} {coll : Bool}
    (hI0 : AavePosIdx env0) (hI : AavePosIdx env)
    (hnew : AList.get? s0.supplies tok = none)
    (hsup : supply aavePyG env0 tok a coll s0 = (.ok (), s1))
    (hist : List (Env × Op)) (hun : ∀ p ∈ hist, ¬ TouchesSupply tok p.2)
    (hgood : Good aavePyG env (runHist aavePyG s1 hist))
    (hw : withdraw aavePyG env tok none (runHist aavePyG s1 hist) = (.ok (), s3)) :
    ∃ st0 st x, env0.statusOf tok = .ok st0 ∧ env.statusOf tok = .ok st ∧
      s3.wallet = Wallet.credit NumCtx.pyG (runHist aavePyG s1 hist).wallet tok x ∧
      |x - a * st.liqIdx / st0.liqIdx| ≤ 1 / 10 ^ 18 * (a * st.liqIdx / st0.liqIdx) ∧
      (a / st0.liqIdx ≤ 10 ^ 15 → AList.get? s3.supplies tok = none) := by
  have hε0 : (0:ℚ) ≤ EPS35 := EPS35_pos.le
  have hε1 : EPS35 ≤ 1 / 2 := le_trans EPS35_small (by norm_num)
  obtain ⟨st0, st, x, h1, h2, h3, xl, xh, hdel⟩ :=
    C10_roundtrip_robust aave_pyG_rndOK hε0 hε1 hI0 hI hnew hsup hist hun hgood hw
  obtain ⟨_, _, _, hapos, hst0, _⟩ := supply_inv hsup
  rw [h1] at hst0; cases hst0
  have hI0pos := (hI0 tok st0 h1).1
  have hIpos := (hI tok st h2).1
  have ht : 0 ≤ a * st.liqIdx / st0.liqIdx := div_nonneg (mul_nonneg hapos.le hIpos.le) hI0pos.le
  refine ⟨st0, st, x, h1, h2, h3, ?_, ?_⟩
  · have e3l : (1:ℚ) - 1 / 10 ^ 18 ≤ (1 - EPS35) ^ 3 := by unfold EPS35; norm_num
    have e3h : (1 + EPS35) ^ 3 ≤ (1:ℚ) + 1 / 10 ^ 18 := by unfold EPS35; norm_num
    rw [abs_le]
    constructor
    · nlinarith [mul_le_mul_of_nonneg_left e3l ht]
    · nlinarith [mul_le_mul_of_nonneg_left e3h ht]
  · intro hsmall
    apply hdel
    have hq : 0 ≤ a / st0.liqIdx := div_nonneg hapos.le hI0pos.le
    have e2 : 3 * EPS35 * ((10:ℚ) ^ 15 * (1 + EPS35) ^ 2) < Gen.aaveMinTokenValue := by
      unfold EPS35 Gen.aaveMinTokenValue; norm_num
    have : 3 * EPS35 * (a / st0.liqIdx * (1 + EPS35) ^ 2) ≤ 3 * EPS35 * ((10:ℚ) ^ 15 * (1 + EPS35) ^ 2) := by
      apply mul_le_mul_of_nonneg_left _ (by positivity)
      exact mul_le_mul_of_nonneg_right hsmall (by positivity)
    linarith

/-! ### the debt side: borrow, untouched history, full repayment -/

/-- **ε-robust accrual round trip on the debt side** (any arithmetic context with relative rounding error ≤ ε ≤ 1/2): borrow
    `a` of a token not yet borrowed in a bar with variable borrow index `I₀`; then ANY history of bars and operations that
    does not target this debt (other tokens, supplies, withdrawals, reads, bar changes; accepted or rejected); then
    `repay(token)` (`payback_amount=None`, cash) in a bar with index `I`.  The wallet is debited by `x`
    (`subtract_from_balance(x)`), `|x − a·I/I₀| ≤ ((1+ε)³ − 1)·a·I/I₀`, and what is left of the scaled debt before the dust
    rule is at most `3ε(1+ε)²·a/I₀` — so the debt entry is deleted as soon as that is below MIN_TOKEN_VALUE. -/
theorem C10_debt_roundtrip_robust {cx : ACtx} {ε : Rat} (hR : RndOK cx.toNumCtx ε) (hε : 0 ≤ ε) (hε1 : ε ≤ 1 / 2)
    {env0 env : Env} {s0 s1 s3 : St} {tok : String} {a : Rat} {c : Option String}
    (hI0 : AavePosIdx env0) (hI : AavePosIdx env)
    (hnew : AList.get? s0.borrows tok = none)
    (hbor : borrow cx env0 tok (some a) s0 = (.ok (), s1))
    (hist : List (Env × Op)) (hun : ∀ p ∈ hist, ¬ TouchesBorrow tok p.2)
    (hgood : Good cx env (runHist cx s1 hist))
    (hr : repay cx env tok none false c (runHist cx s1 hist) = (.ok (), s3)) :
    ∃ st0 st x, env0.statusOf tok = .ok st0 ∧ env.statusOf tok = .ok st ∧
      Wallet.debit cx.toNumCtx (runHist cx s1 hist).wallet tok x false = .ok s3.wallet ∧
      a * st.varIdx / st0.varIdx * (1 - ε) ^ 3 ≤ x ∧ x ≤ a * st.varIdx / st0.varIdx * (1 + ε) ^ 3 ∧
      (3 * ε * (a / st0.varIdx * (1 + ε) ^ 2) < Gen.aaveMinTokenValue → AList.get? s3.borrows tok = none) := by
  obtain ⟨a', st0, _, hapos, ha, hst0, _, hcore⟩ := borrow_inv hbor
  have := ha a rfl; subst this
  have hI0pos := (hI0 tok st0 hst0).2
  have hs1 : AList.get? s1.borrows tok = some ⟨cx.add 0 (cx.div a' st0.varIdx), st0.varIdx⟩ := by
    have : s1.borrows = _ := congrArg Core.borrows hcore
    rw [this, hnew]
    exact aget_set_self _ _ _
  have hs2 := C10_debt_untouched_hist (cx := cx) (tok := tok) hist s1 hun
  rw [hs1] at hs2
  obtain ⟨st, info, payback, nb, _, hst, _, hg, hpay, _, hnb, hcash, _⟩ := repay_inv hgood hr
  rw [hs2] at hg
  cases hg
  obtain ⟨w', hw, hcore3⟩ := hcash rfl
  have hamt := hpay rfl
  simp only [Option.getD_none] at hamt
  have hIpos := (hI tok st hst).2
  obtain ⟨bl, bh, xl, xh⟩ := roundtrip_amount hR hε (by linarith) (le_of_lt hapos) hI0pos hIpos
  have hw3 : s3.wallet = w' := congrArg Core.wallet hcore3
  refine ⟨st0, st, payback, hst0, hst, by rw [hw3]; exact hw, by rw [hamt]; exact xl, by rw [hamt]; exact xh, ?_⟩
  intro hsmall
  have hb0 : 0 ≤ cx.add 0 (cx.div a' st0.varIdx) :=
    le_trans (mul_nonneg (div_nonneg hapos.le hI0pos.le) (by positivity)) bl
  have hleft := roundtrip_left hR hε hε1 hb0 hIpos
  have hnb0 : nb = 0 := by
    rw [hnb, hamt]
    unfold subBase
    rw [if_pos]
    calc cx.sub (cx.add 0 (cx.div a' st0.varIdx)) (cx.div (cx.mul (cx.add 0 (cx.div a' st0.varIdx)) st.varIdx) st.varIdx)
        ≤ 3 * ε * cx.add 0 (cx.div a' st0.varIdx) := hleft
      _ ≤ 3 * ε * (a' / st0.varIdx * (1 + ε) ^ 2) := mul_le_mul_of_nonneg_left bh (by positivity)
      _ < Gen.aaveMinTokenValue := hsmall
  have : s3.borrows = _ := congrArg Core.borrows hcore3
  rw [this, hnb0]
  unfold borAfterSub
  rw [if_pos rfl]
  exact aget_erase_self' _ _

/-- **the debt round trip under CPython's 35-digit Decimal arithmetic** (`NumCtx.pyG`, ε = 5·10⁻³⁵): the amount a full
    repayment takes from the wallet after any untouched history is `a·I/I₀` within 10⁻¹⁸ relative (in fact 2·10⁻³⁴), and for
    debts up to 10¹⁵ scaled units the entry disappears. -/
theorem C10_debt_roundtrip_pyG {env0 env : Env} {s0 s1 s3 : St} {tok : String} {a : Rat} {c : Option String}
    (hI0 : AavePosIdx env0) (hI : AavePosIdx env)
    (hnew : AList.get? s0.borrows tok = none)
    (hbor : borrow aavePyG env0 tok (some a) s0 = (.ok (), s1))
    (hist : List (Env × Op)) (hun : ∀ p ∈ hist, ¬ TouchesBorrow tok p.2)
    (hgood : Good aavePyG env (runHist aavePyG s1 hist))
    (hr : repay aavePyG env tok none false c (runHist aavePyG s1 hist) = (.ok (), s3)) :
    ∃ st0 st x, env0.statusOf tok = .ok st0 ∧ env.statusOf tok = .ok st ∧
      Wallet.debit NumCtx.pyG (runHist aavePyG s1 hist).wallet tok x false = .ok s3.wallet ∧
      |x - a * st.varIdx / st0.varIdx| ≤ 1 / 10 ^ 18 * (a * st.varIdx / st0.varIdx) ∧
      (a / st0.varIdx ≤ 10 ^ 15 → AList.get? s3.borrows tok = none) := by
  have hε0 : (0:ℚ) ≤ EPS35 := EPS35_pos.le
  have hε1 : EPS35 ≤ 1 / 2 := le_trans EPS35_small (by norm_num)
  obtain ⟨st0, st, x, h1, h2, h3, xl, xh, hdel⟩ :=
    C10_debt_roundtrip_robust aave_pyG_rndOK hε0 hε1 hI0 hI hnew hbor hist hun hgood hr
  obtain ⟨a', st0', _, hapos, ha, hst0, _⟩ := borrow_inv hbor
  have := ha a rfl; subst this
  rw [h1] at hst0; cases hst0
  have hI0pos := (hI0 tok st0 h1).2
  have hIpos := (hI tok st h2).2
  have ht : 0 ≤ a' * st.varIdx / st0.varIdx := div_nonneg (mul_nonneg hapos.le hIpos.le) hI0pos.le
  refine ⟨st0, st, x, h1, h2, h3, ?_, ?_⟩
  · have e3l : (1:ℚ) - 1 / 10 ^ 18 ≤ (1 - EPS35) ^ 3 := by unfold EPS35; norm_num
    have e3h : (1 + EPS35) ^ 3 ≤ (1:ℚ) + 1 / 10 ^ 18 := by unfold EPS35; norm_num
    rw [abs_le]
    constructor
    · nlinarith [mul_le_mul_of_nonneg_left e3l ht]
    · nlinarith [mul_le_mul_of_nonneg_left e3h ht]
  · intro hsmall
    apply hdel
    have hq : 0 ≤ a' / st0.varIdx := div_nonneg hapos.le hI0pos.le
    have e2 : 3 * EPS35 * ((10:ℚ) ^ 15 * (1 + EPS35) ^ 2) < Gen.aaveMinTokenValue := by
      unfold EPS35 Gen.aaveMinTokenValue; norm_num
    have : 3 * EPS35 * (a' / st0.varIdx * (1 + EPS35) ^ 2) ≤ 3 * EPS35 * ((10:ℚ) ^ 15 * (1 + EPS35) ^ 2) := by
      apply mul_le_mul_of_nonneg_left _ (by positivity)
      exact mul_le_mul_of_nonneg_right hsmall (by positivity)
    linarith

/-! ### non-vacuity: the ε-hypothesis is inhabited, and the bound is what CPython's arithmetic does on a concrete case -/

example : RndOK aavePyG.toNumCtx (5 / 10 ^ 35) := aave_pyG_rndOK

/-- 1000 tokens supplied at index 1.1, read at index 1.21: CPython prints 1100.0000000000000000000000000000000 for
    `Decimal(1000)/Decimal('1.1')*Decimal('1.21')`, the exact value is 1100 -/
example : NumCtx.py.mul (NumCtx.py.add 0 (NumCtx.py.div 1000 (11/10))) (121/100) = 1100 := by decide +kernel

/-- 5000 tokens borrowed at borrow index 1.25, repaid in full at index 1.5: the exact value 6000 -/
example : NumCtx.py.mul (NumCtx.py.add 0 (NumCtx.py.div 5000 (5/4))) (3/2) = 6000 := by decide +kernel

end Demeter
