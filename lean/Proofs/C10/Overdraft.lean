/-
  C10 (continued, finding B-5) — "the wallet gives exactly `amount`" and `Asset.sub`'s tolerance.

  `WalletTook` (the wallet clause of `C10_supply_exact` / `C10_repay_exact`) admits `b' = 0 ∧ |(b − amount)/b| < 1e-5`, and that
  includes `amount > b`: `Asset.sub` (`demeter/broker/_typing.py`) sets the balance to 0 whenever the difference is within 1e-5 of
  the balance *before* it looks at the sign, so a supply / cash repayment of up to `balance × (1 + 1e-5)` is accepted, the wallet
  pays only `balance`, and the Aave position moves by the full `amount`.

    * `C10_supply_overdraft_dust`, `C10_repay_overdraft_dust` — kernel-checked witnesses (wallet 100 / 99.9995 USDC, amount 100.0005 /
      debt 100): accepted, wallet 0, position moved by the full amount.  By design of `Asset.sub`'s tolerance ("the amount calculated by
      v3_core has some acceptable error"): recorded as known finding `move:supply:overdraft-dust` / `move:repay:overdraft-dust`.
    * `C10_supply_exact_within_balance`, `C10_repay_exact_within_balance` — for `amount ≤ balance` the wallet pays *at least* `amount`
      (exactly `amount`, or everything when what would be left is below 1e-5 of the balance): the position is never credited with more
      than was paid.
    * `C10_supply_overdraft_bound`, `C10_repay_overdraft_bound` — for `amount > balance` an accepted call has
      `amount − balance < 1e-5 × balance`: that is all that can be created per call.
-/
import Proofs.Lemmas.AaveDebit
namespace Demeter
open Aave

variable {env : Env}

/-- what an accepted `subtract_from_balance(amount)` does to the balance `b`, split by `amount ≤ b` / `amount > b` -/
theorem aave_debit_cases {w w' : Wallet} {tok : String} {amount : Rat}
    (h : Wallet.debit aaveExact.toNumCtx w tok amount false = .ok w') (hpos : amount > 0) :
    ∃ b b', AList.get? w tok = some b ∧ AList.get? w' tok = some b' ∧
      ((amount ≤ b ∧ (b' = b - amount ∨ (b' = 0 ∧ b - amount < assetDust * b))) ∨
       (b < amount ∧ b' = 0 ∧ 0 < b ∧ amount - b < assetDust * b)) := by
  obtain ⟨b, b', hb, hw, hcase⟩ := aave_debit_inv h hpos
  refine ⟨b, b', hb, by rw [hw]; exact aget_set_self _ _ _, ?_⟩
  rcases hcase with ⟨e, hge⟩ | ⟨e, hbpos, habs⟩
  · exact Or.inl ⟨by linarith, Or.inl e⟩
  · rw [abs_lt] at habs
    by_cases hle : amount ≤ b
    · exact Or.inl ⟨hle, Or.inr ⟨e, habs.2⟩⟩
    · exact Or.inr ⟨not_le.mp hle, e, hbpos, by linarith [habs.1]⟩

/-- **supply within the balance moves exactly the stated amount, and the wallet pays for all of it**: when the wallet holds
    `b ≥ amount`, the supply grows by exactly `amount` and the wallet goes to `b − amount` — or to 0 when less than 1e-5 of the
    balance would be left; either way the wallet pays at least what the position is credited with. -/
theorem C10_supply_exact_within_balance {s s' : St} {tok : String} {amount b : Rat} {coll : Bool}
    (h : supply aaveExact env tok amount coll s = (.ok (), s'))
    (hb : AList.get? s.wallet tok = some b) (hle : amount ≤ b) :
    ∃ st e b', env.statusOf tok = .ok st ∧ AList.get? s'.supplies tok = some e ∧
      e.base * st.liqIdx = ((AList.get? s.supplies tok).map (·.base)).getD 0 * st.liqIdx + amount ∧
      AList.get? s'.wallet tok = some b' ∧
      (b' = b - amount ∨ (b' = 0 ∧ b - amount < assetDust * b)) ∧ amount ≤ b - b' := by
  obtain ⟨st, e, hst, he, hamt, _, _, _⟩ := C10_supply_exact h
  obtain ⟨_, w', _, hpos, _, _, _, hw, hc⟩ := supply_inv h
  have h3 : s'.wallet = w' := congrArg Core.wallet hc
  obtain ⟨b0, b', hb0, hb', hcase⟩ := aave_debit_cases hw hpos
  rw [hb] at hb0; cases hb0
  refine ⟨st, e, b', hst, he, hamt, by rw [h3]; exact hb', ?_⟩
  rcases hcase with ⟨_, hc⟩ | ⟨hlt, _⟩
  · refine ⟨hc, ?_⟩
    rcases hc with e | ⟨e, _⟩ <;> rw [e] <;> linarith
  · exact absurd hle (not_le.mpr hlt)

/-- **what an overdraft can create is bounded**: an accepted supply of more than the wallet holds empties the wallet and has
    `amount − balance < 1e-5 × balance` (`assetDust = 0.00001` as a float: its exact binary value). -/
theorem C10_supply_overdraft_bound {s s' : St} {tok : String} {amount b : Rat} {coll : Bool}
    (h : supply aaveExact env tok amount coll s = (.ok (), s'))
    (hb : AList.get? s.wallet tok = some b) (hgt : b < amount) :
    AList.get? s'.wallet tok = some 0 ∧ 0 < b ∧ amount - b < assetDust * b ∧ assetDust < 1 / 10 ^ 5 + 1 / 10 ^ 20 := by
  obtain ⟨_, w', _, hpos, _, _, _, hw, hc⟩ := supply_inv h
  have h3 : s'.wallet = w' := congrArg Core.wallet hc
  obtain ⟨b0, b', hb0, hb', hcase⟩ := aave_debit_cases hw hpos
  rw [hb] at hb0; cases hb0
  rcases hcase with ⟨hle, _⟩ | ⟨_, e, hbpos, hd⟩
  · exact absurd hgt (not_lt.mpr hle)
  · refine ⟨by rw [h3, hb', e], hbpos, hd, ?_⟩
    unfold assetDust Gen.assetSubDust; norm_num

/-- **cash repayment within the balance**: the wallet pays at least `payback`. -/
theorem C10_repay_exact_within_balance (hI : AavePosIdx env) {s s' : St} (hs : Good aaveExact env s) {tok : String}
    {amount? : Option Rat} {collTok? : Option String} {b : Rat}
    (h : repay aaveExact env tok amount? false collTok? s = (.ok (), s'))
    (hb : AList.get? s.wallet tok = some b)
    (hle : ∀ st info, env.statusOf tok = .ok st → AList.get? s.borrows tok = some info →
      amount?.getD (info.base * st.varIdx) ≤ b) :
    ∃ st info payback b', env.statusOf tok = .ok st ∧ AList.get? s.borrows tok = some info ∧
      payback = amount?.getD (info.base * st.varIdx) ∧ AList.get? s'.wallet tok = some b' ∧
      (b' = b - payback ∨ (b' = 0 ∧ b - payback < assetDust * b)) ∧ payback ≤ b - b' := by
  obtain ⟨st, info, payback, nb, _, hst, hnz, hg, hpay, hpos, _, hcash, _⟩ := repay_inv hs h
  obtain ⟨w', hw, hc⟩ := hcash rfl
  have hp := hpay rfl
  simp only [aaveExact_mul, aaveExact_div] at hp hpos
  have hidx : 0 < st.varIdx := (hI tok st hst).2
  have hpb : 0 < payback := by
    have := mul_pos hpos hidx
    rwa [div_mul_cancel₀ _ hnz] at this
  have h3 : s'.wallet = w' := congrArg Core.wallet hc
  obtain ⟨b0, b', hb0, hb', hcase⟩ := aave_debit_cases hw hpb
  rw [hb] at hb0; cases hb0
  refine ⟨st, info, payback, b', hst, hg, hp, by rw [h3]; exact hb', ?_⟩
  have hle' : payback ≤ b := by rw [hp]; exact hle st info hst hg
  rcases hcase with ⟨_, hc⟩ | ⟨hlt, _⟩
  · refine ⟨hc, ?_⟩
    rcases hc with e | ⟨e, _⟩ <;> rw [e] <;> linarith
  · exact absurd hle' (not_le.mpr hlt)

/-- **cash repayment above the balance**: accepted only inside the 1e-5 tolerance; the wallet is emptied. -/
theorem C10_repay_overdraft_bound (hI : AavePosIdx env) {s s' : St} (hs : Good aaveExact env s) {tok : String}
    {amount? : Option Rat} {collTok? : Option String} {b : Rat}
    (h : repay aaveExact env tok amount? false collTok? s = (.ok (), s'))
    (hb : AList.get? s.wallet tok = some b)
    (hgt : ∀ st info, env.statusOf tok = .ok st → AList.get? s.borrows tok = some info →
      b < amount?.getD (info.base * st.varIdx)) :
    ∃ st info payback, env.statusOf tok = .ok st ∧ AList.get? s.borrows tok = some info ∧
      payback = amount?.getD (info.base * st.varIdx) ∧ AList.get? s'.wallet tok = some 0 ∧ 0 < b ∧
      payback - b < assetDust * b := by
  obtain ⟨st, info, payback, nb, _, hst, hnz, hg, hpay, hpos, _, hcash, _⟩ := repay_inv hs h
  obtain ⟨w', hw, hc⟩ := hcash rfl
  have hp := hpay rfl
  simp only [aaveExact_mul, aaveExact_div] at hp hpos
  have hidx : 0 < st.varIdx := (hI tok st hst).2
  have hpb : 0 < payback := by
    have := mul_pos hpos hidx
    rwa [div_mul_cancel₀ _ hnz] at this
  have h3 : s'.wallet = w' := congrArg Core.wallet hc
  obtain ⟨b0, b', hb0, hb', hcase⟩ := aave_debit_cases hw hpb
  rw [hb] at hb0; cases hb0
  have hgt' : b < payback := by rw [hp]; exact hgt st info hst hg
  rcases hcase with ⟨hle, _⟩ | ⟨_, e, hbpos, hd⟩
  · exact absurd hgt' (not_lt.mpr hle)
  · exact ⟨st, info, payback, hst, hg, hp, by rw [h3, hb', e], hbpos, hd⟩

/-! ### the witnesses -/

def c10oEnv : Env :=
  { status := [("WETH", ⟨1/100, 3/100, 11/10, 12/10⟩), ("USDC", ⟨1/100, 3/100, 1, 1⟩)],
    price := [("WETH", 1000), ("USDC", 1)],
    risk := [("WETH", ⟨true, 8/10, 825/1000, 5/100, true⟩), ("USDC", ⟨true, 8/10, 85/100, 4/100, true⟩)],
    isOpen := true }

/-- 100 USDC in the wallet, nothing supplied -/
def c10oSt : St := { St.init with wallet := [("USDC", 100)] }
/-- 10 WETH of collateral, 100 USDC of debt, 99.9995 USDC in the wallet -/
def c10oDebt : St :=
  { St.init with supplies := [("WETH", ⟨10, true, 1⟩)], borrows := [("USDC", ⟨100, 1⟩)], wallet := [("USDC", 999995 / 10000)] }

def c10oOk {α : Type} (r : Res α) : Bool :=
  match r with
  | .ok _ => true
  | .error _ => false

/-- **the supply is credited with more than the wallet paid** (finding B-5; by design of `Asset.sub`'s tolerance): wallet 100 USDC,
    `supply(USDC, 100.0005)` is accepted, the wallet goes to 0 and the supply is `100.0005 USDC` (index 1). -/
theorem C10_supply_overdraft_dust :
    AList.get? c10oSt.wallet "USDC" = some 100 ∧
    c10oOk (step aaveExact c10oEnv c10oSt (.supply "USDC" (1000005 / 10000) false)).1 = true ∧
    (step aaveExact c10oEnv c10oSt (.supply "USDC" (1000005 / 10000) false)).2.wallet = [("USDC", 0)] ∧
    (step aaveExact c10oEnv c10oSt (.supply "USDC" (1000005 / 10000) false)).2.supplies = [("USDC", ⟨1000005 / 10000, false, 1⟩)] := by
  decide +kernel

/-- **the debt goes down by more than the wallet paid**: debt 100 USDC, wallet 99.9995 USDC, `repay(USDC, None)` is accepted, the wallet
    goes to 0 and the debt disappears. -/
theorem C10_repay_overdraft_dust :
    AList.get? c10oDebt.wallet "USDC" = some (999995 / 10000) ∧ c10oDebt.borrows = [("USDC", ⟨100, 1⟩)] ∧
    c10oOk (step aaveExact c10oEnv c10oDebt (.repay "USDC" none false none)).1 = true ∧
    (step aaveExact c10oEnv c10oDebt (.repay "USDC" none false none)).2.wallet = [("USDC", 0)] ∧
    (step aaveExact c10oEnv c10oDebt (.repay "USDC" none false none)).2.borrows = [] := by
  decide +kernel

/-- the statement "the wallet pays at least what the position is credited with" **fails** without `amount ≤ balance` -/
theorem C10_fails_supply_paid_by_wallet :
    ¬ (∀ (env : Env) (s : St) (tok : String) (amount b b' : Rat) (coll : Bool),
        c10oOk (step aaveExact env s (.supply tok amount coll)).1 = true →
        AList.get? s.wallet tok = some b →
        AList.get? (step aaveExact env s (.supply tok amount coll)).2.wallet tok = some b' → amount ≤ b - b') := by
  intro hall
  have h := hall c10oEnv c10oSt "USDC" (1000005 / 10000) 100 0 false (by decide +kernel) (by decide +kernel) (by decide +kernel)
  norm_num at h

/-! ### non-vacuity of the within-balance theorems: 100 USDC in the wallet, supply 40 -/
example : (step aaveExact c10oEnv c10oSt (.supply "USDC" 40 false)).2.wallet = [("USDC", 60)] ∧
    (step aaveExact c10oEnv c10oSt (.supply "USDC" 40 false)).2.supplies = [("USDC", ⟨40, false, 1⟩)] := by decide +kernel
/-- … and 99.9999 of 100: the remaining 0.0001 is inside the tolerance and is taken too (the wallet pays *more* than the position gets) -/
example : (step aaveExact c10oEnv c10oSt (.supply "USDC" (999999 / 10000) false)).2.wallet = [("USDC", 0)] := by decide +kernel
/-- an overdraft outside the tolerance is refused -/
example : c10oOk (step aaveExact c10oEnv c10oSt (.supply "USDC" (100 + 2 / 1000) false)).1 = false := by decide +kernel

end Demeter
