/-
  C10 (continued, finding B-3) — the ε-robust / 35-digit **round trips through the bars of a run**: `C10_roundtrip_robust`,
  `C10_roundtrip_pyG`, `C10_debt_roundtrip_robust`, `C10_debt_roundtrip_pyG` with histories that may contain the `update()` of every
  bar, as long as it cannot liquidate (closed market, or coherent state whose health factor — risk model on the projected
  portfolio, in the SAME arithmetic context `cx` — is not in (0, 1); `C12_sm_no_liquidation_unless_below_one` holds for every
  context).  The proofs are those of `Proofs/C10/Robust.lean` with the untouched-history step replaced.
-/
import Proofs.C10.Robust
import Proofs.C10.Bars
namespace Demeter
open Aave Demeter.Numerics

/-- an `update()` that cannot liquidate, in arithmetic context `cx` -/
def C10QuietUpdateCx (cx : ACtx) (env : Env) (s : St) : Prop :=
  env.isOpen = false ∨ (Good cx env s ∧ env.isOpen = true ∧
    ((AaveRisk.healthFactor cx.toNumCtx (proj env s)).gtB 0 &&
     (AaveRisk.healthFactor cx.toNumCtx (proj env s)).ltB Gen.arHfLiqThreshold) = false)

theorem aave_quietUpdateCx_positions {cx : ACtx} {env : Env} {s : St} (h : C10QuietUpdateCx cx env s) :
    (step cx env s .update).2.supplies = s.supplies ∧ (step cx env s .update).2.borrows = s.borrows := by
  rcases h with hclosed | ⟨hs, hopen, hout⟩
  · have : liquidate cx env s = (.error .closed, s) := by
      unfold liquidate guardOpen
      rw [run_bind_err (s' := s) (e := .closed) (by rw [hclosed]; rfl)]
    show (unitM (liquidate cx env) s).2.supplies = _ ∧ (unitM (liquidate cx env) s).2.borrows = _
    unfold unitM mapM'
    rw [this]
    exact ⟨rfl, rfl⟩
  · obtain ⟨s', hl, h1, h2, _⟩ := C12_sm_no_liquidation_unless_below_one hs hopen hout
    show (unitM (liquidate cx env) s).2.supplies = _ ∧ (unitM (liquidate cx env) s).2.borrows = _
    unfold unitM mapM'
    rw [hl]
    exact ⟨h1, h2⟩

def C10SupplyBarsCx (cx : ACtx) (tok : String) : St → List (Env × Op) → Prop
  | _, [] => True
  | s, (env, op) :: rest =>
      (¬ TouchesSupply tok op ∨ (op = .update ∧ C10QuietUpdateCx cx env s)) ∧
      C10SupplyBarsCx cx tok (step cx env s op).2 rest

def C10DebtBarsCx (cx : ACtx) (tok : String) : St → List (Env × Op) → Prop
  | _, [] => True
  | s, (env, op) :: rest =>
      (¬ TouchesBorrow tok op ∨ (op = .update ∧ C10QuietUpdateCx cx env s)) ∧
      C10DebtBarsCx cx tok (step cx env s op).2 rest

theorem C10_supply_untouched_through_bars_cx {cx : ACtx} {tok : String} (hist : List (Env × Op)) :
    ∀ (s : St), C10SupplyBarsCx cx tok s hist →
      AList.get? (runHist cx s hist).supplies tok = AList.get? s.supplies tok := by
  induction hist with
  | nil => intro s _; rfl
  | cons p rest ih =>
    intro s h
    obtain ⟨env, op⟩ := p
    obtain ⟨h1, h2⟩ := h
    show AList.get? (runHist cx (step cx env s op).2 rest).supplies tok = _
    rw [ih _ h2]
    rcases h1 with hn | ⟨rfl, hq⟩
    · exact C10_supply_untouched op hn env s
    · rw [(aave_quietUpdateCx_positions hq).1]

theorem C10_debt_untouched_through_bars_cx {cx : ACtx} {tok : String} (hist : List (Env × Op)) :
    ∀ (s : St), C10DebtBarsCx cx tok s hist →
      AList.get? (runHist cx s hist).borrows tok = AList.get? s.borrows tok := by
  induction hist with
  | nil => intro s _; rfl
  | cons p rest ih =>
    intro s h
    obtain ⟨env, op⟩ := p
    obtain ⟨h1, h2⟩ := h
    show AList.get? (runHist cx (step cx env s op).2 rest).borrows tok = _
    rw [ih _ h2]
    rcases h1 with hn | ⟨rfl, hq⟩
    · exact C10_debt_untouched op hn env s
    · rw [(aave_quietUpdateCx_positions hq).2]

/-- **ε-robust supply round trip through bars**: as `C10_roundtrip_robust`, the history may contain non-liquidating `update()`s. -/
theorem C10_roundtrip_robust_through_bars {cx : ACtx} {ε : Rat} (hR : RndOK cx.toNumCtx ε) (hε : 0 ≤ ε) (hε1 : ε ≤ 1 / 2)
    {env0 env : Env} {s0 s1 s3 : St} {tok : String} {a : Rat} {coll : Bool}
    (hI0 : AavePosIdx env0) (hI : AavePosIdx env)
    (hnew : AList.get? s0.supplies tok = none)
    (hsup : supply cx env0 tok a coll s0 = (.ok (), s1))
    (hist : List (Env × Op)) (hbars : C10SupplyBarsCx cx tok s1 hist)
    (hgood : Good cx env (runHist cx s1 hist))
    (hw : withdraw cx env tok none (runHist cx s1 hist) = (.ok (), s3)) :
    ∃ st0 st x, env0.statusOf tok = .ok st0 ∧ env.statusOf tok = .ok st ∧
      s3.wallet = Wallet.credit cx.toNumCtx (runHist cx s1 hist).wallet tok x ∧
      a * st.liqIdx / st0.liqIdx * (1 - ε) ^ 3 ≤ x ∧ x ≤ a * st.liqIdx / st0.liqIdx * (1 + ε) ^ 3 ∧
      (3 * ε * (a / st0.liqIdx * (1 + ε) ^ 2) < Gen.aaveMinTokenValue → AList.get? s3.supplies tok = none) := by
  obtain ⟨st0, w', _, hapos, hst0, _, _, _, hcore⟩ := supply_inv hsup
  have hI0pos := (hI0 tok st0 hst0).1
  have hs1 : AList.get? s1.supplies tok = some ⟨cx.add 0 (cx.div a st0.liqIdx), coll, st0.liqIdx⟩ := by
    have : s1.supplies = _ := congrArg Core.supplies hcore
    rw [this, hnew]
    exact aget_set_self _ _ _
  have hs2 := C10_supply_untouched_through_bars_cx (cx := cx) (tok := tok) hist s1 hbars
  rw [hs1] at hs2
  obtain ⟨st, info, amount, nb, _, hst, _, hg, hamt, _, _, hnb, hcore3⟩ := withdraw_inv hgood hw
  rw [hs2] at hg
  cases hg
  have hIpos := (hI tok st hst).1
  simp only [Option.getD_none] at hamt
  obtain ⟨bl, bh, xl, xh⟩ := roundtrip_amount hR hε (by linarith) (le_of_lt hapos) hI0pos hIpos
  refine ⟨st0, st, amount, hst0, hst, congrArg Core.wallet hcore3, by rw [hamt]; exact xl, by rw [hamt]; exact xh, ?_⟩
  intro hsmall
  have hb0 : 0 ≤ cx.add 0 (cx.div a st0.liqIdx) :=
    le_trans (mul_nonneg (div_nonneg hapos.le hI0pos.le) (by positivity)) bl
  have hleft := roundtrip_left hR hε hε1 hb0 hIpos
  have hnb0 : nb = 0 := by
    rw [hnb, hamt]
    unfold subBase
    rw [if_pos]
    calc cx.sub (cx.add 0 (cx.div a st0.liqIdx)) (cx.div (cx.mul (cx.add 0 (cx.div a st0.liqIdx)) st.liqIdx) st.liqIdx)
        ≤ 3 * ε * cx.add 0 (cx.div a st0.liqIdx) := hleft
      _ ≤ 3 * ε * (a / st0.liqIdx * (1 + ε) ^ 2) := mul_le_mul_of_nonneg_left bh (by positivity)
      _ < Gen.aaveMinTokenValue := hsmall
  have : s3.supplies = _ := congrArg Core.supplies hcore3
  rw [this, hnb0]
  unfold supAfterSub
  rw [if_pos rfl]
  exact aget_erase_self' _ _

/-- **35-digit supply round trip through bars** (`NumCtx.pyG`): withdraw-all returns `a·I/I₀` within 10⁻¹⁸ relative. -/
theorem C10_roundtrip_pyG_through_bars {env0 env : Env} {s0 s1 s3 : St} {tok : String} {a : Rat} {coll : Bool}
    (hI0 : AavePosIdx env0) (hI : AavePosIdx env)
    (hnew : AList.get? s0.supplies tok = none)
    (hsup : supply aavePyG env0 tok a coll s0 = (.ok (), s1))
    (hist : List (Env × Op)) (hbars : C10SupplyBarsCx aavePyG tok s1 hist)
    (hgood : Good aavePyG env (runHist aavePyG s1 hist))
    (hw : withdraw aavePyG env tok none (runHist aavePyG s1 hist) = (.ok (), s3)) :
    ∃ st0 st x, env0.statusOf tok = .ok st0 ∧ env.statusOf tok = .ok st ∧
      s3.wallet = Wallet.credit NumCtx.pyG (runHist aavePyG s1 hist).wallet tok x ∧
      |x - a * st.liqIdx / st0.liqIdx| ≤ 1 / 10 ^ 18 * (a * st.liqIdx / st0.liqIdx) ∧
      (a / st0.liqIdx ≤ 10 ^ 15 → AList.get? s3.supplies tok = none) := by
  have hε0 : (0:ℚ) ≤ EPS35 := EPS35_pos.le
  have hε1 : EPS35 ≤ 1 / 2 := le_trans EPS35_small (by norm_num)
  obtain ⟨st0, st, x, h1, h2, h3, xl, xh, hdel⟩ :=
    C10_roundtrip_robust_through_bars aave_pyG_rndOK hε0 hε1 hI0 hI hnew hsup hist hbars hgood hw
  obtain ⟨_, _, _, hapos, hst0, _⟩ := supply_inv hsup
  rw [h1] at hst0; cases hst0
  have hI0pos := (hI0 tok st0 h1).1
  have hIpos := (hI tok st h2).1
  have ht : 0 ≤ a * st.liqIdx / st0.liqIdx := div_nonneg (mul_nonneg hapos.le hIpos.le) hI0pos.le
  refine ⟨st0, st, x, h1, h2, h3, ?_, ?_⟩
  · have e3l : (1:ℚ) - 1 / 10 ^ 18 ≤ (1 - EPS35) ^ 3 := by unfold EPS35; norm_num
    have e3h : (1 + EPS35) ^ 3 ≤ (1:ℚ) + 1 / 10 ^ 18 := by unfold EPS35; norm_num
    rw [abs_le]
    constructor
    · nlinarith [mul_le_mul_of_nonneg_left e3l ht]
    · nlinarith [mul_le_mul_of_nonneg_left e3h ht]
  · intro hsmall
    apply hdel
    have hq : 0 ≤ a / st0.liqIdx := div_nonneg hapos.le hI0pos.le
    have e2 : 3 * EPS35 * ((10:ℚ) ^ 15 * (1 + EPS35) ^ 2) < Gen.aaveMinTokenValue := by
      unfold EPS35 Gen.aaveMinTokenValue; norm_num
    have : 3 * EPS35 * (a / st0.liqIdx * (1 + EPS35) ^ 2) ≤ 3 * EPS35 * ((10:ℚ) ^ 15 * (1 + EPS35) ^ 2) := by
      apply mul_le_mul_of_nonneg_left _ (by positivity)
      exact mul_le_mul_of_nonneg_right hsmall (by positivity)
    linarith

/-- **ε-robust debt round trip through bars** -/
theorem C10_debt_roundtrip_robust_through_bars {cx : ACtx} {ε : Rat} (hR : RndOK cx.toNumCtx ε) (hε : 0 ≤ ε) (hε1 : ε ≤ 1 / 2)
    {env0 env : Env} {s0 s1 s3 : St} {tok : String} {a : Rat} {c : Option String}
    (hI0 : AavePosIdx env0) (hI : AavePosIdx env)
    (hnew : AList.get? s0.borrows tok = none)
    (hbor : borrow cx env0 tok (some a) s0 = (.ok (), s1))
    (hist : List (Env × Op)) (hbars : C10DebtBarsCx cx tok s1 hist)
    (hgood : Good cx env (runHist cx s1 hist))
    (hr : repay cx env tok none false c (runHist cx s1 hist) = (.ok (), s3)) :
    ∃ st0 st x, env0.statusOf tok = .ok st0 ∧ env.statusOf tok = .ok st ∧
      Wallet.debit cx.toNumCtx (runHist cx s1 hist).wallet tok x false = .ok s3.wallet ∧
      a * st.varIdx / st0.varIdx * (1 - ε) ^ 3 ≤ x ∧ x ≤ a * st.varIdx / st0.varIdx * (1 + ε) ^ 3 ∧
      (3 * ε * (a / st0.varIdx * (1 + ε) ^ 2) < Gen.aaveMinTokenValue → AList.get? s3.borrows tok = none) := by
  obtain ⟨a', st0, _, hapos, ha, hst0, _, hcore⟩ := borrow_inv hbor
  have := ha a rfl; subst this
  have hI0pos := (hI0 tok st0 hst0).2
  have hs1 : AList.get? s1.borrows tok = some ⟨cx.add 0 (cx.div a' st0.varIdx), st0.varIdx⟩ := by
    have : s1.borrows = _ := congrArg Core.borrows hcore
    rw [this, hnew]
    exact aget_set_self _ _ _
  have hs2 := C10_debt_untouched_through_bars_cx (cx := cx) (tok := tok) hist s1 hbars
  rw [hs1] at hs2
  obtain ⟨st, info, payback, nb, _, hst, _, hg, hpay, _, hnb, hcash, _⟩ := repay_inv hgood hr
  rw [hs2] at hg
  cases hg
  obtain ⟨w', hw, hcore3⟩ := hcash rfl
  have hamt := hpay rfl
  simp only [Option.getD_none] at hamt
  have hIpos := (hI tok st hst).2
  obtain ⟨bl, bh, xl, xh⟩ := roundtrip_amount hR hε (by linarith) (le_of_lt hapos) hI0pos hIpos
  have hw3 : s3.wallet = w' := congrArg Core.wallet hcore3
  refine ⟨st0, st, payback, hst0, hst, by rw [hw3]; exact hw, by rw [hamt]; exact xl, by rw [hamt]; exact xh, ?_⟩
  intro hsmall
  have hb0 : 0 ≤ cx.add 0 (cx.div a' st0.varIdx) :=
    le_trans (mul_nonneg (div_nonneg hapos.le hI0pos.le) (by positivity)) bl
  have hleft := roundtrip_left hR hε hε1 hb0 hIpos
  have hnb0 : nb = 0 := by
    rw [hnb, hamt]
    unfold subBase
    rw [if_pos]
    calc cx.sub (cx.add 0 (cx.div a' st0.varIdx)) (cx.div (cx.mul (cx.add 0 (cx.div a' st0.varIdx)) st.varIdx) st.varIdx)
        ≤ 3 * ε * cx.add 0 (cx.div a' st0.varIdx) := hleft
      _ ≤ 3 * ε * (a' / st0.varIdx * (1 + ε) ^ 2) := mul_le_mul_of_nonneg_left bh (by positivity)
      _ < Gen.aaveMinTokenValue := hsmall
  have : s3.borrows = _ := congrArg Core.borrows hcore3
  rw [this, hnb0]
  unfold borAfterSub
  rw [if_pos rfl]
  exact aget_erase_self' _ _

/-- **35-digit debt round trip through bars** -/
theorem C10_debt_roundtrip_pyG_through_bars {env0 env : Env} {s0 s1 s3 : St} {tok : String} {a : Rat} {c : Option String}
    (hI0 : AavePosIdx env0) (hI : AavePosIdx env)
    (hnew : AList.get? s0.borrows tok = none)
    (hbor : borrow aavePyG env0 tok (some a) s0 = (.ok (), s1))
    (hist : List (Env × Op)) (hbars : C10DebtBarsCx aavePyG tok s1 hist)
    (hgood : Good aavePyG env (runHist aavePyG s1 hist))
    (hr : repay aavePyG env tok none false c (runHist aavePyG s1 hist) = (.ok (), s3)) :
    ∃ st0 st x, env0.statusOf tok = .ok st0 ∧ env.statusOf tok = .ok st ∧
      Wallet.debit NumCtx.pyG (runHist aavePyG s1 hist).wallet tok x false = .ok s3.wallet ∧
      |x - a * st.varIdx / st0.varIdx| ≤ 1 / 10 ^ 18 * (a * st.varIdx / st0.varIdx) ∧
      (a / st0.varIdx ≤ 10 ^ 15 → AList.get? s3.borrows tok = none) := by
  have hε0 : (0:ℚ) ≤ EPS35 := EPS35_pos.le
  have hε1 : EPS35 ≤ 1 / 2 := le_trans EPS35_small (by norm_num)
  obtain ⟨st0, st, x, h1, h2, h3, xl, xh, hdel⟩ :=
    C10_debt_roundtrip_robust_through_bars aave_pyG_rndOK hε0 hε1 hI0 hI hnew hbor hist hbars hgood hr
  obtain ⟨a', st0', _, hapos, ha, hst0, _⟩ := borrow_inv hbor
  have := ha a rfl; subst this
  rw [h1] at hst0; cases hst0
  have hI0pos := (hI0 tok st0 h1).2
  have hIpos := (hI tok st h2).2
  have ht : 0 ≤ a' * st.varIdx / st0.varIdx := div_nonneg (mul_nonneg hapos.le hIpos.le) hI0pos.le
  refine ⟨st0, st, x, h1, h2, h3, ?_, ?_⟩
  · have e3l : (1:ℚ) - 1 / 10 ^ 18 ≤ (1 - EPS35) ^ 3 := by unfold EPS35; norm_num
    have e3h : (1 + EPS35) ^ 3 ≤ (1:ℚ) + 1 / 10 ^ 18 := by unfold EPS35; norm_num
    rw [abs_le]
    constructor
    · nlinarith [mul_le_mul_of_nonneg_left e3l ht]
    · nlinarith [mul_le_mul_of_nonneg_left e3h ht]
  · intro hsmall
    apply hdel
    have hq : 0 ≤ a' / st0.varIdx := div_nonneg hapos.le hI0pos.le
    have e2 : 3 * EPS35 * ((10:ℚ) ^ 15 * (1 + EPS35) ^ 2) < Gen.aaveMinTokenValue := by
      unfold EPS35 Gen.aaveMinTokenValue; norm_num
    have : 3 * EPS35 * (a' / st0.varIdx * (1 + EPS35) ^ 2) ≤ 3 * EPS35 * ((10:ℚ) ^ 15 * (1 + EPS35) ^ 2) := by
      apply mul_le_mul_of_nonneg_left _ (by positivity)
      exact mul_le_mul_of_nonneg_right hsmall (by positivity)
    linarith

/-! ### non-vacuity: the exact-arithmetic run of `Proofs/C10/Bars.lean` is also a run in this sense (context `aaveExact`) -/

example : C10DebtBarsCx aaveExact "USDC" c10bS2 [(c10bEnv0, .read .healthFactor), (c10bEnv0, .update)] := by
  have hE0 := c10b_envOK c10bEnv0 (Or.inl rfl)
  have g0 : Good aaveExact c10bEnv0 c10bSt :=
    ⟨⟨List.nodup_nil, fun _ h => absurd h (by simp [c10bSt, St.init, keys]), CohC.fresh _, CohC.fresh _, CohC.fresh _⟩,
     ⟨List.nodup_nil, fun _ h => absurd h (by simp [c10bSt, St.init, keys]), CohC.fresh _, CohC.fresh _⟩⟩
  have g1 := C13_step_coherent hE0.1 hE0.2 _ g0 (.supply "WETH" 11 true) (by simp)
  have g2 := C13_step_coherent hE0.1 hE0.2 _ g1 (.borrow "USDC" (some 5000)) (by simp)
  have g3 := C13_step_coherent hE0.1 hE0.2 _ g2 (.read .healthFactor) (by simp)
  exact ⟨Or.inl (by simp [TouchesBorrow]), Or.inr ⟨rfl, Or.inr ⟨g3, rfl, by decide +kernel⟩⟩, trivial⟩

end Demeter
