/-
  C10 (continued, finding B-4) — the interleaved formula **with the dust rule as an explicit term**.

  `C10_supply_interleaved` assumes that no accepted withdrawal leaves a scaled remainder in (0, MIN_TOKEN_VALUE)
  (`C10NoDustSnap`).  Without that hypothesis each accepted withdrawal may delete the entry and drop a scaled remainder
  `0 ≤ r < MIN_TOKEN_VALUE`; so with `n` = number of accepted withdrawals of `tok` in the history

      Σ a_j·I/I_j − Σ w_k·I/I_k − n · MIN_TOKEN_VALUE · I   ≤   get_supply(tok).amount   ≤   Σ a_j·I/I_j − Σ w_k·I/I_k .

  (`MIN_TOKEN_VALUE · I` is below 1e-18 × index tokens per withdrawal: `C10_min_token_value`.)
-/
import Proofs.C10.Interleaved
namespace Demeter
open Aave

/-- ledger steps without the no-dust hypothesis; withdrawals in a coherent state of a bar with positive indices -/
def C10SupLedgerStepD (tok : String) (env : Env) (s : St) (op : Op) : Prop :=
  ¬ TouchesSupply tok op ∨ (op = .update ∧ C10QuietUpdate env s) ∨ (∃ a c, op = .supply tok a c) ∨
  (∃ a?, op = .withdraw tok a? ∧ Good aaveExact env s ∧ AavePosIdx env) ∨ (∃ c, op = .changeCollateral tok c)

def C10SupLedgerRunD (tok : String) : St → List (Env × Op) → Prop
  | _, [] => True
  | s, (env, op) :: rest => C10SupLedgerStepD tok env s op ∧ C10SupLedgerRunD tok (step aaveExact env s op).2 rest

/-- number of withdrawal lines (negative amounts) in a ledger -/
def c10Withdrawals (evs : List (Rat × Rat)) : Nat := (evs.filter (fun p => decide (p.1 < 0))).length

theorem c10Withdrawals_append (a b : List (Rat × Rat)) : c10Withdrawals (a ++ b) = c10Withdrawals a + c10Withdrawals b := by
  unfold c10Withdrawals; rw [List.filter_append, List.length_append]

theorem c10Ledger_scale (evs : List (Rat × Rat)) (I : Rat) : c10Ledger evs I = c10Ledger evs 1 * I := by
  induction evs with
  | nil => simp [c10Ledger]
  | cons p rest ih =>
    have e : ∀ J, c10Ledger (p :: rest) J = p.1 * J / p.2 + c10Ledger rest J := by
      intro J; unfold c10Ledger; simp
    rw [e I, e 1, ih]; ring

/-- one step: the scaled balance is the ledger value, or — a withdrawal that triggers the dust rule — up to `MIN_TOKEN_VALUE` below -/
theorem aave_supBase_step_dust {tok : String} {env : Env} {s : St} {op : Op} (h : C10SupLedgerStepD tok env s op) :
    c10SupBase tok (step aaveExact env s op).2 ≤ c10SupBase tok s + c10Ledger (c10SupEvent tok env s op) 1 ∧
    c10SupBase tok s + c10Ledger (c10SupEvent tok env s op) 1 - c10SupBase tok (step aaveExact env s op).2
      ≤ Gen.aaveMinTokenValue * (c10Withdrawals (c10SupEvent tok env s op) : Rat) := by
  have hmin := aave_minToken_pos
  have hcnt : (0 : Rat) ≤ Gen.aaveMinTokenValue * (c10Withdrawals (c10SupEvent tok env s op) : Rat) :=
    mul_nonneg hmin.le (by exact_mod_cast Nat.zero_le _)
  -- the exact cases
  have exact : C10SupLedgerStep tok env s op → _ := fun h' => by
    have := aave_supBase_step h' 1
    simp only [mul_one] at this
    exact (⟨by rw [this], by rw [this]; simpa using hcnt⟩ :
      c10SupBase tok (step aaveExact env s op).2 ≤ c10SupBase tok s + c10Ledger (c10SupEvent tok env s op) 1 ∧
      c10SupBase tok s + c10Ledger (c10SupEvent tok env s op) 1 - c10SupBase tok (step aaveExact env s op).2
        ≤ Gen.aaveMinTokenValue * (c10Withdrawals (c10SupEvent tok env s op) : Rat))
  rcases h with hn | hq | hsup | ⟨a?, rfl, hs, hI⟩ | hcc
  rotate_right
  · exact exact (Or.inr (Or.inr (Or.inr (Or.inr hcc))))
  · exact exact (Or.inl hn)
  · exact exact (Or.inr (Or.inl hq))
  · exact exact (Or.inr (Or.inr (Or.inl hsup)))
  · by_cases hsnap : C10NoDustSnap tok env s a?
    · exact exact (Or.inr (Or.inr (Or.inr (Or.inl ⟨a?, rfl, hs, hsnap⟩))))
    · -- the dust rule fires: the call is accepted and the remainder is in (0, MIN)
      unfold C10NoDustSnap at hsnap
      push Not at hsnap
      obtain ⟨hacc, hlt, hne⟩ := hsnap
      rcases hm : withdraw aaveExact env tok a? s with ⟨r, s1⟩
      cases r with
      | error e =>
        have hstep : step aaveExact env s (.withdraw tok a?) = (.error e, s1) := c10_unitM_err hm
        rw [hstep] at hacc; cases hacc
      | ok u =>
        cases u
        have hstep : step aaveExact env s (.withdraw tok a?) = (.ok .unit, s1) := c10_unitM_ok hm
        obtain ⟨st, info, amount, hst, hg, ha, hapos, hale, hcase, _⟩ := C10_withdraw_exact hs hm
        have hipos : 0 < st.liqIdx := (hI tok st hst).1
        have hidx : c10LiqIdx env tok = st.liqIdx := by unfold c10LiqIdx; rw [hst]
        have hbase : c10SupBase tok s = info.base := by unfold c10SupBase; rw [hg]; rfl
        have e2 : c10SupEvent tok env s (.withdraw tok a?) = [(-amount, st.liqIdx)] := by
          unfold c10SupEvent; rw [hstep, hidx, hbase]; simp [c10Accepted, ha]
        rw [hidx, hbase, ← ha] at hlt hne
        have hw : c10Withdrawals [(-amount, st.liqIdx)] = 1 := by
          unfold c10Withdrawals; simp [hapos]
        have hr0 : 0 ≤ info.base - amount / st.liqIdx := by
          have : amount / st.liqIdx ≤ info.base := by rw [div_le_iff₀ hipos]; exact hale
          linarith
        have e1 : c10SupBase tok s1 = 0 := by
          rcases hcase with ⟨_, hnone⟩ | ⟨hge, _⟩
          · unfold c10SupBase; rw [hnone]; rfl
          · exact absurd hlt (not_lt.mpr hge)
        rw [hstep, e2, c10Ledger_single, hw, hbase]
        show c10SupBase tok s1 ≤ _ ∧ _ - c10SupBase tok s1 ≤ _
        rw [e1]
        constructor
        · have : info.base + -amount / st.liqIdx * 1 = info.base - amount / st.liqIdx := by ring
          rw [this]; exact hr0
        · have : info.base + -amount / st.liqIdx * 1 - 0 = info.base - amount / st.liqIdx := by ring
          rw [this]; push_cast; linarith

/-- **the interleaved formula with the dust term**: for a non-negative index `I`, the balance `base × I` lies between the ledger
    sum minus `n · MIN_TOKEN_VALUE · I` and the ledger sum, `n` the number of accepted withdrawals of `tok`. -/
theorem C10_supply_interleaved_dust_bound {tok : String} (hist : List (Env × Op)) :
    ∀ (s : St), C10SupLedgerRunD tok s hist → ∀ I : Rat, 0 ≤ I →
      c10SupBase tok (runHist aaveExact s hist) * I ≤ c10SupBase tok s * I + c10Ledger (c10SupEvents tok s hist) I ∧
      c10SupBase tok s * I + c10Ledger (c10SupEvents tok s hist) I
        - Gen.aaveMinTokenValue * (c10Withdrawals (c10SupEvents tok s hist) : Rat) * I
        ≤ c10SupBase tok (runHist aaveExact s hist) * I := by
  induction hist with
  | nil =>
    intro s _ I _
    show c10SupBase tok s * I ≤ _ + c10Ledger [] I ∧ _ + c10Ledger [] I - _ * ((c10Withdrawals [] : Nat) : Rat) * I ≤ c10SupBase tok s * I
    rw [c10Ledger_nil]; simp [c10Withdrawals]
  | cons p rest ih =>
    intro s h I hI
    obtain ⟨env, op⟩ := p
    obtain ⟨h1, h2⟩ := h
    obtain ⟨a1, a2⟩ := aave_supBase_step_dust h1
    obtain ⟨b1, b2⟩ := ih _ h2 I hI
    show c10SupBase tok (runHist aaveExact (step aaveExact env s op).2 rest) * I ≤
        _ + c10Ledger (c10SupEvent tok env s op ++ c10SupEvents tok (step aaveExact env s op).2 rest) I ∧
      _ + c10Ledger (c10SupEvent tok env s op ++ c10SupEvents tok (step aaveExact env s op).2 rest) I
        - _ * ((c10Withdrawals (c10SupEvent tok env s op ++ c10SupEvents tok (step aaveExact env s op).2 rest) : Nat) : Rat) * I ≤ _
    rw [c10Ledger_append, c10Withdrawals_append, c10Ledger_scale (c10SupEvent tok env s op) I]
    have hr : runHist aaveExact s ((env, op) :: rest) = runHist aaveExact (step aaveExact env s op).2 rest := rfl
    try rw [hr]
    push_cast
    have m1 := mul_le_mul_of_nonneg_right a1 hI
    have m2 := mul_le_mul_of_nonneg_right a2 hI
    constructor
    · nlinarith [m1, b1]
    · nlinarith [m2, b2]

/-! ### non-vacuity: the dust rule fires — 1 token supplied at index 1, then all but 5e-19 withdrawn: the entry disappears,
    the ledger says 5e-19 -/
def c10dEnv : Env :=
  { status := [("USDC", ⟨1/100, 3/100, 1, 1⟩)], price := [("USDC", 1)], risk := [("USDC", ⟨true, 8/10, 85/100, 4/100, true⟩)],
    isOpen := true }
def c10dSt : St := { St.init with wallet := [("USDC", 1)] }
def c10dHist : List (Env × Op) :=
  [(c10dEnv, .supply "USDC" 1 false), (c10dEnv, .withdraw "USDC" (some (1 - 5 / 10 ^ 19)))]

example : (runHist aaveExact c10dSt c10dHist).supplies = [] ∧
    c10Ledger (c10SupEvents "USDC" c10dSt c10dHist) 1 = 5 / 10 ^ 19 ∧ c10Withdrawals (c10SupEvents "USDC" c10dSt c10dHist) = 1 := by
  decide +kernel

end Demeter
