/-
  C10 (continued, finding B-3) — accrual **through the bars of a real run**.

  `C10_supply_accrues` / `C10_debt_accrues` exclude every `update()` (`TouchesSupply tok .update = True`), but the
  Actuator calls `update()` at the end of every bar.  Here `(env, .update)` steps are allowed
    * when the market is closed (`write_func` refuses the call before anything is read), or
    * in a coherent state (`Good`, what C13 proves of every reachable state) whose health factor — the risk model's
      figure of the projected portfolio, exact arithmetic — is **not in (0, 1)**: then `update()` liquidates nothing
      (`C12_sm_no_liquidation_unless_below_one`) and the positions are exactly what they were.
  `C10_*_accrues_through_run` discharges the `Good` side conditions from C13 for histories whose bars have complete,
  non-zero data (`EnvOK`, `EnvPos`) and begin with `newBar` (`set_market_status`) covering the tokens held.
-/
import Proofs.C10.Debt
import Proofs.C12.Refine
import Proofs.C13
namespace Demeter
open Aave

def c10IsOk' {α : Type} (r : Res α) : Bool :=
  match r with
  | .ok _ => true
  | .error _ => false

/-- the health factor of the account (risk model, projected portfolio, exact arithmetic) is not in (0, 1) -/
def C10HfOutside (env : Env) (s : St) : Prop :=
  ((AaveRisk.healthFactor aaveExact.toNumCtx (proj env s)).gtB 0 &&
   (AaveRisk.healthFactor aaveExact.toNumCtx (proj env s)).ltB Gen.arHfLiqThreshold) = false

/-- an `update()` that cannot liquidate: the market is closed, or the state is coherent and the health factor is
    outside (0, 1) -/
def C10QuietUpdate (env : Env) (s : St) : Prop :=
  env.isOpen = false ∨ (Good aaveExact env s ∧ env.isOpen = true ∧ C10HfOutside env s)

/-- `update()` in such a state changes neither supplies nor borrows -/
theorem aave_quietUpdate_positions {env : Env} {s : St} (h : C10QuietUpdate env s) :
    (step aaveExact env s .update).2.supplies = s.supplies ∧ (step aaveExact env s .update).2.borrows = s.borrows := by
  rcases h with hclosed | ⟨hs, hopen, hout⟩
  · have : liquidate aaveExact env s = (.error .closed, s) := by
      unfold liquidate guardOpen
      rw [run_bind_err (s' := s) (e := .closed) (by rw [hclosed]; rfl)]
    show (unitM (liquidate aaveExact env) s).2.supplies = _ ∧ (unitM (liquidate aaveExact env) s).2.borrows = _
    unfold unitM mapM'
    rw [this]
    exact ⟨rfl, rfl⟩
  · obtain ⟨s', hl, h1, h2, _⟩ := C12_sm_no_liquidation_unless_below_one hs hopen hout
    show (unitM (liquidate aaveExact env) s).2.supplies = _ ∧ (unitM (liquidate aaveExact env) s).2.borrows = _
    unfold unitM mapM'
    rw [hl]
    exact ⟨h1, h2⟩

/-- every step of the history either does not target `tok`'s supply, or is an `update()` that cannot liquidate -/
def C10SupplyBars (tok : String) : St → List (Env × Op) → Prop
  | _, [] => True
  | s, (env, op) :: rest =>
      (¬ TouchesSupply tok op ∨ (op = .update ∧ C10QuietUpdate env s)) ∧
      C10SupplyBars tok (step aaveExact env s op).2 rest

/-- the same for `tok`'s debt -/
def C10DebtBars (tok : String) : St → List (Env × Op) → Prop
  | _, [] => True
  | s, (env, op) :: rest =>
      (¬ TouchesBorrow tok op ∨ (op = .update ∧ C10QuietUpdate env s)) ∧
      C10DebtBars tok (step aaveExact env s op).2 rest

theorem C10_supply_untouched_through_bars {tok : String} (hist : List (Env × Op)) :
    ∀ (s : St), C10SupplyBars tok s hist →
      AList.get? (runHist aaveExact s hist).supplies tok = AList.get? s.supplies tok := by
  induction hist with
  | nil => intro s _; rfl
  | cons p rest ih =>
    intro s h
    obtain ⟨env, op⟩ := p
    obtain ⟨h1, h2⟩ := h
    show AList.get? (runHist aaveExact (step aaveExact env s op).2 rest).supplies tok = _
    rw [ih _ h2]
    rcases h1 with hn | ⟨rfl, hq⟩
    · exact C10_supply_untouched op hn env s
    · rw [(aave_quietUpdate_positions hq).1]

theorem C10_debt_untouched_through_bars {tok : String} (hist : List (Env × Op)) :
    ∀ (s : St), C10DebtBars tok s hist →
      AList.get? (runHist aaveExact s hist).borrows tok = AList.get? s.borrows tok := by
  induction hist with
  | nil => intro s _; rfl
  | cons p rest ih =>
    intro s h
    obtain ⟨env, op⟩ := p
    obtain ⟨h1, h2⟩ := h
    show AList.get? (runHist aaveExact (step aaveExact env s op).2 rest).borrows tok = _
    rw [ih _ h2]
    rcases h1 with hn | ⟨rfl, hq⟩
    · exact C10_debt_untouched op hn env s
    · rw [(aave_quietUpdate_positions hq).2]

/-- **a supplied balance equals amount × index now / index at supply time through the bars of a run**: as
    `C10_supply_accrues`, but the history may contain the `update()` of every bar as long as it does not liquidate
    (market closed, or coherent state with health factor outside (0, 1)). -/
theorem C10_supply_accrues_through_bars {env0 : Env} {s0 s1 : St} {tok : String} {a : Rat} {coll : Bool}
    (hnew : AList.get? s0.supplies tok = none)
    (h : supply aaveExact env0 tok a coll s0 = (.ok (), s1))
    (hist : List (Env × Op)) (hbars : C10SupplyBars tok s1 hist) (I : Rat) :
    ∃ st0 e, env0.statusOf tok = .ok st0 ∧ AList.get? (runHist aaveExact s1 hist).supplies tok = some e ∧
      e.base * I = a * I / st0.liqIdx := by
  obtain ⟨st, e, hst, he, hb, _, _, _⟩ := C10_supply_exact h
  obtain ⟨st', _, _, _, hst', hnz, _, _, _⟩ := supply_inv h
  rw [hst] at hst'; cases hst'
  refine ⟨st, e, hst, by rw [C10_supply_untouched_through_bars hist s1 hbars]; exact he, ?_⟩
  rw [hnew] at hb
  simp at hb
  have : e.base = a / st.liqIdx := by field_simp; linarith
  rw [this]; field_simp

/-- **a debt equals amount borrowed × borrow index now / borrow index then through the bars of a run.** -/
theorem C10_debt_accrues_through_bars {env0 : Env} {s0 s1 : St} {tok : String} {a : Rat}
    (hnew : AList.get? s0.borrows tok = none)
    (h : borrow aaveExact env0 tok (some a) s0 = (.ok (), s1))
    (hist : List (Env × Op)) (hbars : C10DebtBars tok s1 hist) (I : Rat) :
    ∃ st0 e, env0.statusOf tok = .ok st0 ∧ AList.get? (runHist aaveExact s1 hist).borrows tok = some e ∧
      e.base * I = a * I / st0.varIdx := by
  obtain ⟨st, e, amount, hst, ha, _, he, hb, _, _, _, _⟩ := C10_borrow_exact h
  obtain ⟨_, st', _, _, _, hst', hnz, _⟩ := borrow_inv h
  rw [hst] at hst'; cases hst'
  have : amount = a := ha a rfl
  subst this
  refine ⟨st, e, hst, by rw [C10_debt_untouched_through_bars hist s1 hbars]; exact he, ?_⟩
  rw [hnew] at hb
  simp at hb
  have : e.base = amount / st.varIdx := by field_simp; linarith
  rw [this]; field_simp

/-! ### the `Good` side conditions come from C13: histories made of whole bars -/

/-- a history as the Actuator produces it, seen from a state coherent for bar `env`: operations of the current bar
    (`p.1 = env`), or a bar change `(env', .newBar)` to a bar with complete, non-zero data that lists the tokens held.
    On top of that every `update()` meets a health factor outside (0, 1) (or a closed market) and nothing else targets
    `tok`'s supply (`sup = true`) / debt (`sup = false`). -/
def C10RunOK (sup : Bool) (tok : String) : Env → St → List (Env × Op) → Prop
  | _, _, [] => True
  | env, s, (env', op) :: rest =>
      (if op = .newBar then EnvOK env' ∧ EnvPos env' ∧ Covers env' s.supplies ∧ Covers env' s.borrows else env' = env) ∧
      (if op = .update then env'.isOpen = false ∨ C10HfOutside env' s
       else if sup then ¬ TouchesSupply tok op else ¬ TouchesBorrow tok op) ∧
      C10RunOK sup tok env' (step aaveExact env' s op).2 rest

theorem aave_runOK_bars {tok : String} (hist : List (Env × Op)) :
    ∀ (env : Env) (s : St), EnvOK env → EnvPos env → Good aaveExact env s →
      (C10RunOK true tok env s hist → C10SupplyBars tok s hist) ∧
      (C10RunOK false tok env s hist → C10DebtBars tok s hist) := by
  induction hist with
  | nil => intro _ _ _ _ _; exact ⟨fun _ => trivial, fun _ => trivial⟩
  | cons p rest ih =>
    intro env s hE hP hs
    obtain ⟨env', op⟩ := p
    -- coherence after the step, for the bar the step belongs to
    have next : ∀ {b : Bool}, C10RunOK b tok env s ((env', op) :: rest) →
        EnvOK env' ∧ EnvPos env' ∧ Good aaveExact env' (step aaveExact env' s op).2 := by
      intro b h
      obtain ⟨h1, _, _⟩ := h
      by_cases hop : op = .newBar
      · subst hop
        simp only [if_true] at h1
        exact ⟨h1.1, h1.2.1, C13_newBar_coherent s hs h1.2.2.1 h1.2.2.2⟩
      · simp only [hop, if_false] at h1
        subst h1
        exact ⟨hE, hP, C13_step_coherent hE hP s hs op hop⟩
    have here : ∀ {b : Bool}, C10RunOK b tok env s ((env', op) :: rest) → op = .update → C10QuietUpdate env' s := by
      intro b h hop
      obtain ⟨h1, h2, _⟩ := h
      subst hop
      simp only [if_true, reduceCtorEq, if_false] at h1 h2
      subst h1
      rcases h2 with hc | ho
      · exact Or.inl hc
      · cases hopen : env'.isOpen with
        | false => exact Or.inl hopen
        | true => exact Or.inr ⟨hs, hopen, ho⟩
    constructor
    · intro h
      obtain ⟨hE', hP', hs'⟩ := next h
      refine ⟨?_, (ih env' _ hE' hP' hs').1 h.2.2⟩
      by_cases hop : op = .update
      · exact Or.inr ⟨hop, here h hop⟩
      · have := h.2.1
        simp only [hop, if_false, if_true] at this
        exact Or.inl this
    · intro h
      obtain ⟨hE', hP', hs'⟩ := next h
      refine ⟨?_, (ih env' _ hE' hP' hs').2 h.2.2⟩
      by_cases hop : op = .update
      · exact Or.inr ⟨hop, here h hop⟩
      · have := h.2.1
        simp only [hop, if_false, Bool.false_eq_true] at this
        exact Or.inl this

/-- **supply accrual over a whole run**: start coherent (`Good`, e.g. the empty market), supply `a` of a token not yet
    supplied; then any number of bars — each entered by `newBar`, with any reads / operations that do not target this
    supply and the bar's `update()` — during which the account's health factor is never in (0, 1) when `update()` runs:
    the scaled entry is still `a / I₀`.  No coherence hypothesis inside the run: C13 provides it. -/
theorem C10_supply_accrues_through_run {env0 : Env} {s0 s1 : St} {tok : String} {a : Rat} {coll : Bool}
    (hE : EnvOK env0) (hP : EnvPos env0) (hs : Good aaveExact env0 s0)
    (hnew : AList.get? s0.supplies tok = none)
    (h : supply aaveExact env0 tok a coll s0 = (.ok (), s1))
    (hist : List (Env × Op)) (hrun : C10RunOK true tok env0 s1 hist) (I : Rat) :
    ∃ st0 e, env0.statusOf tok = .ok st0 ∧ AList.get? (runHist aaveExact s1 hist).supplies tok = some e ∧
      e.base * I = a * I / st0.liqIdx := by
  have hs1 : Good aaveExact env0 s1 := by
    have := C13_step_coherent hE hP s0 hs (.supply tok a coll) (by simp)
    have e : (step aaveExact env0 s0 (.supply tok a coll)).2 = s1 := by
      show (unitM (supply aaveExact env0 tok a coll) s0).2 = s1
      unfold unitM mapM'; rw [h]
    rwa [e] at this
  exact C10_supply_accrues_through_bars hnew h hist ((aave_runOK_bars hist env0 s1 hE hP hs1).1 hrun) I

/-- **debt accrual over a whole run** -/
theorem C10_debt_accrues_through_run {env0 : Env} {s0 s1 : St} {tok : String} {a : Rat}
    (hE : EnvOK env0) (hP : EnvPos env0) (hs : Good aaveExact env0 s0)
    (hnew : AList.get? s0.borrows tok = none)
    (h : borrow aaveExact env0 tok (some a) s0 = (.ok (), s1))
    (hist : List (Env × Op)) (hrun : C10RunOK false tok env0 s1 hist) (I : Rat) :
    ∃ st0 e, env0.statusOf tok = .ok st0 ∧ AList.get? (runHist aaveExact s1 hist).borrows tok = some e ∧
      e.base * I = a * I / st0.varIdx := by
  have hs1 : Good aaveExact env0 s1 := by
    have := C13_step_coherent hE hP s0 hs (.borrow tok (some a)) (by simp)
    have e : (step aaveExact env0 s0 (.borrow tok (some a))).2 = s1 := by
      show (unitM (borrow aaveExact env0 tok (some a)) s0).2 = s1
      unfold unitM mapM'; rw [h]
    rwa [e] at this
  exact C10_debt_accrues_through_bars hnew h hist ((aave_runOK_bars hist env0 s1 hE hP hs1).2 hrun) I

/-! ### non-vacuity: two bars of a run with a debt, `update()` at the end of each, health factor ≈ 1.99 / 1.8 -/

def c10bEnv0 : Env :=
  { status := [("WETH", ⟨1/100, 3/100, 11/10, 12/10⟩), ("USDC", ⟨1/100, 3/100, 1, 5/4⟩)],
    price := [("WETH", 1000), ("USDC", 1)],
    risk := [("WETH", ⟨true, 8/10, 825/1000, 5/100, true⟩), ("USDC", ⟨true, 8/10, 85/100, 4/100, true⟩)],
    isOpen := true }
/-- the next bar: both indices have grown, WETH is cheaper -/
def c10bEnv1 : Env :=
  { c10bEnv0 with status := [("WETH", ⟨1/100, 3/100, 121/100, 13/10⟩), ("USDC", ⟨1/100, 3/100, 11/10, 3/2⟩)],
                  price := [("WETH", 900), ("USDC", 1)] }
def c10bSt : St := { St.init with wallet := [("WETH", 11), ("USDC", 0)] }
def c10bS1 : St := (step aaveExact c10bEnv0 c10bSt (.supply "WETH" 11 true)).2
def c10bS2 : St := (step aaveExact c10bEnv0 c10bS1 (.borrow "USDC" (some 5000))).2
def c10bHist : List (Env × Op) :=
  [(c10bEnv0, .read .healthFactor), (c10bEnv0, .update), (c10bEnv1, .newBar), (c10bEnv1, .supply "USDC" 10 false),
   (c10bEnv1, .update)]

theorem c10b_envOK (env : Env) (h : env = c10bEnv0 ∨ env = c10bEnv1) : EnvOK env ∧ EnvPos env := by
  constructor
  · intro k st hk
    by_cases h1 : k = "WETH"
    · subst h1; rcases h with rfl | rfl <;> exact ⟨⟨_, rfl⟩, ⟨_, rfl⟩, ⟨_, rfl⟩⟩
    · by_cases h2 : k = "USDC"
      · subst h2; rcases h with rfl | rfl <;> exact ⟨⟨_, rfl⟩, ⟨_, rfl⟩, ⟨_, rfl⟩⟩
      · exfalso
        rcases h with rfl | rfl <;>
          simp [Env.statusOf, c10bEnv0, c10bEnv1, aget_cons, optRes, Ne.symm h1, Ne.symm h2] at hk
  · intro k st hk
    by_cases h1 : k = "WETH"
    · subst h1; rcases h with rfl | rfl <;> (cases hk; constructor <;> norm_num)
    · by_cases h2 : k = "USDC"
      · subst h2; rcases h with rfl | rfl <;> (cases hk; constructor <;> norm_num)
      · exfalso
        rcases h with rfl | rfl <;>
          simp [Env.statusOf, c10bEnv0, c10bEnv1, aget_cons, optRes, Ne.symm h1, Ne.symm h2] at hk

example : c10IsOk' (borrow aaveExact c10bEnv0 "USDC" (some 5000) c10bS1).1 = true := by decide +kernel
/-- the run satisfies the hypothesis of `C10_debt_accrues_through_run` … -/
example : C10RunOK false "USDC" c10bEnv0 c10bS2 c10bHist := by
  have hcov : ∀ (s : St), (keys s.supplies = ["WETH"] ∨ keys s.supplies = ["WETH", "USDC"]) → keys s.borrows = ["USDC"] →
      Covers c10bEnv1 s.supplies ∧ Covers c10bEnv1 s.borrows := by
    intro s h1 h2
    have hd : ∀ k, k = "WETH" ∨ k = "USDC" → HasData c10bEnv1 k := by
      intro k hk
      rcases hk with h | h <;> subst h <;> exact ⟨⟨_, rfl⟩, ⟨_, rfl⟩, ⟨_, rfl⟩⟩
    constructor
    · intro k hk
      rcases h1 with h1 | h1 <;> rw [h1] at hk <;> simp at hk
      · exact hd k (Or.inl hk)
      · exact hd k hk
    · intro k hk; rw [h2] at hk; simp at hk; exact hd k (Or.inr hk)
  refine ⟨rfl, by simp [TouchesBorrow], ?_⟩
  refine ⟨rfl, Or.inr (by unfold C10HfOutside; decide +kernel), ?_⟩
  refine ⟨⟨(c10b_envOK _ (Or.inr rfl)).1, (c10b_envOK _ (Or.inr rfl)).2, ?_⟩, by simp [TouchesBorrow], ?_⟩
  · exact hcov _ (Or.inl (by decide +kernel)) (by decide +kernel)
  refine ⟨rfl, by simp [TouchesBorrow], ?_⟩
  exact ⟨rfl, Or.inr (by unfold C10HfOutside; decide +kernel), trivial⟩
/-- … and its conclusion is the concrete fact: scaled debt 5000 / 1.25 = 4000 after both bars, i.e. 6000 USDC at index 1.5 -/
example : (runHist aaveExact c10bS2 c10bHist).borrows = [("USDC", ⟨4000, 5/4⟩)] := by decide +kernel
/-- an `update()` that does liquidate (health factor 0.9075 in (0, 1)) is not admitted -/
example : ¬ C10HfOutside c11rEnv c12rSt := by unfold C10HfOutside; decide +kernel

end Demeter
