/-
  C10 (continued) — a debt equals the amount borrowed × borrow-index ratio, whatever happens in between.
-/
import Proofs.C10.Accrual
namespace Demeter
open Aave

variable {env : Env}

section untouched
variable {cx : ACtx} {tok : String}

theorem aave_borIs_modify (x : Option BorrowInfo) (g : St → St) (hg : ∀ s, (g s).borrows = s.borrows) :
    Inv (BorIs tok x) (M.modify g) :=
  Inv.modify _ (fun s hs => by show AList.get? (g s).borrows tok = x; rw [hg]; exact hs)

theorem aave_borIs_subSupply (x : Option BorrowInfo) (t : String) (a : Rat) :
    Inv (BorIs tok x) (subSupplyAmount cx env t a) := by
  unfold subSupplyAmount commitSubSupply
  refine Inv.bind (Inv.queryPos _) (fun old => ?_)
  cases old with
  | none => dsimp only; split; exact Inv.pure _; exact Inv.throw _
  | some info =>
    dsimp only
    exact Inv.bind (Inv.ofRes _) (fun _ => Inv.bind (Inv.ofRes _) (fun _ => Inv.bind (Inv.modify _ (fun s hs => hs)) (fun _ => Inv.pure _)))

theorem aave_borIs_subBorrow (x : Option BorrowInfo) {t : String} (ht : t ≠ tok) (a : Rat) :
    Inv (BorIs tok x) (subBorrowAmount cx env t a) := by
  unfold subBorrowAmount commitSubBorrow
  refine Inv.bind (Inv.queryPos _) (fun old => ?_)
  cases old with
  | none => dsimp only; split; exact Inv.pure _; exact Inv.throw _
  | some info =>
    dsimp only
    refine Inv.bind (Inv.ofRes _) (fun _ => Inv.bind (Inv.ofRes _) (fun _ => Inv.bind (Inv.modify _ (fun s hs => ?_)) (fun _ => Inv.pure _)))
    show AList.get? (if _ = 0 then _ else _) tok = x
    split
    · rw [aget_erase_ne' _ (Ne.symm ht)]; exact hs
    · rw [aget_set_ne _ ht]; exact hs

theorem aave_borIs_supply (x : Option BorrowInfo) (t : String) (a : Rat) (c : Bool) :
    Inv (BorIs tok x) (supply cx env t a c) := by
  have hwd := aave_inv_walletDebit (cx := cx) (I := BorIs tok x) (fun _ _ h => h) t a
  have hcc : Inv (BorIs tok x) (checkCanCollateral env t c) := by
    unfold checkCanCollateral; split
    · exact Inv.bind (Inv.ofRes _) (fun _ => Inv.require _ _)
    · exact Inv.pure _
  have hcf : ∀ old, Inv (BorIs tok x) (checkFlag old c) := by
    intro old; unfold checkFlag; split
    · exact Inv.require _ _
    · exact Inv.pure _
  unfold supply guardOpen
  exact Inv.bind (Inv.require _ _) (fun _ => Inv.bind (Inv.require _ _) (fun _ => Inv.bind hcc (fun _ =>
    Inv.bind_ofRes (fun st _ => Inv.bind_ofRes (fun pa _ => Inv.bind (Inv.queryPos _) (fun old => Inv.bind (hcf old) (fun _ =>
    Inv.bind hwd (fun _ => Inv.bind (aave_borIs_modify x _ (fun _ => rfl)) (fun _ =>
    Inv.bind (aave_borIs_modify x _ (fun _ => rfl)) (fun _ => aave_borIs_modify x _ (fun _ => rfl)))))))))))

theorem aave_borIs_withdraw (x : Option BorrowInfo) (t : String) (a : Option Rat) :
    Inv (BorIs tok x) (withdraw cx env t a) := by
  have hR := aave_readInv_borIs (cx := cx) (env := env) (tok := tok) x
  have h6 := hR.toReadInv3.getSupply t
  have htrial : ∀ info tb, Inv (BorIs tok x) (trialHealthFactor cx env t info tb) := by
    intro info tb
    unfold trialHealthFactor
    exact Inv.bind (aave_borIs_modify x _ (fun _ => rfl)) (fun _ =>
      aave_inv_finally hR.toReadInv3.healthFactor (fun s hs => hs))
  have hchk : ∀ info amt idx, Inv (BorIs tok x) (checkWithdrawHf cx env t info amt idx) := by
    intro info amt idx
    unfold checkWithdrawHf
    split
    · exact Inv.bind (Inv.ofRes _) (fun _ => Inv.bind (htrial _ _) (fun _ => Inv.require _ _))
    · exact Inv.pure _
  unfold withdraw guardOpen lookupSupply
  exact Inv.bind (Inv.require _ _) (fun _ => Inv.bind_ofRes (fun st _ => Inv.bind h6 (fun sv =>
    Inv.bind (Inv.require _ _) (fun _ => Inv.bind (Inv.require _ _) (fun _ => Inv.bind (Inv.queryPos _) (fun info =>
    Inv.bind (hchk _ _ _) (fun _ => Inv.bind (aave_borIs_subSupply x t _) (fun fin =>
    Inv.bind (aave_borIs_modify x _ (fun _ => rfl)) (fun _ => Inv.bind (aave_borIs_modify x _ (fun _ => rfl)) (fun _ =>
    aave_borIs_modify x _ (fun _ => rfl)))))))))))

theorem aave_borIs_borrow (x : Option BorrowInfo) {t : String} (ht : t ≠ tok) (a : Option Rat) :
    Inv (BorIs tok x) (borrow cx env t a) := by
  have hR := aave_readInv_borIs (cx := cx) (env := env) (tok := tok) x
  have h3 := hR.cv; have h5 := hR.bo
  have h9 := hR.toReadInv3.healthFactor; have h10 := hR.toReadInv3.maxLtv
  have h11 : Inv (BorIs tok x) (borrowAmountOf cx env t a) := by
    unfold borrowAmountOf
    split
    · exact Inv.pure _
    · exact hR.toReadInv3.maxBorrowAmount t
  have hcommit : ∀ info amt, Inv (BorIs tok x) (commitBorrow cx t info amt) := by
    intro info amt
    refine Inv.modify _ (fun s hs => ?_)
    show AList.get? (AList.set s.borrows t info) tok = x
    rw [aget_set_ne _ ht]; exact hs
  unfold borrow guardOpen
  exact Inv.bind (Inv.require _ _) (fun _ => Inv.bind h11 (fun _ => Inv.bind (Inv.require _ _) (fun _ =>
    Inv.bind_ofRes (fun st _ => Inv.bind_ofRes (fun r _ => Inv.bind (Inv.require _ _) (fun _ => Inv.bind h3 (fun cv =>
    Inv.bind (Inv.require _ _) (fun _ => Inv.bind h10 (fun ml => Inv.bind (Inv.require _ _) (fun _ => Inv.bind h9 (fun hf =>
    Inv.bind (Inv.require _ _) (fun _ => Inv.bind_ofRes (fun p _ => Inv.bind h5 (fun bv => Inv.bind_ofRes (fun needed _ =>
    Inv.bind (Inv.require _ _) (fun _ => Inv.bind_ofRes (fun base _ => Inv.bind (Inv.queryPos _) (fun old =>
    Inv.bind (hcommit _ _) (fun _ => Inv.bind (aave_borIs_modify x _ (fun _ => rfl)) (fun _ =>
    aave_borIs_modify x _ (fun _ => rfl)))))))))))))))))))))

theorem aave_borIs_repay (x : Option BorrowInfo) {t : String} (ht : t ≠ tok) (a : Option Rat) (w : Bool) (c : Option String) :
    Inv (BorIs tok x) (repay cx env t a w c) := by
  have hR := aave_readInv_borIs (cx := cx) (env := env) (tok := tok) x
  have h4 := hR.su
  have h6 := fun k => hR.toReadInv3.getSupply k
  have h7 := hR.toReadInv3.getBorrow t
  have hcap : ∀ t c a w, Inv (BorIs tok x) (repayAmountOf cx env t c a w) := by
    intro t c a w
    unfold repayAmountOf repayCollateralCap
    repeat (first | exact h6 _ | inv_step)
  have htake : ∀ p, Inv (BorIs tok x) (takeRepayment cx env t (c.getD t) p w) := by
    intro p
    unfold takeRepayment
    split
    · exact Inv.bind (Inv.ofRes _) (fun _ => Inv.bind (aave_borIs_subSupply x _ _) (fun _ => Inv.pure _))
    · exact aave_inv_walletDebit (fun _ _ h => h) _ _
  unfold repay guardOpen lookupBorrow
  exact Inv.bind (Inv.require _ _) (fun _ => Inv.bind_ofRes (fun st _ => Inv.bind h7 (fun bv =>
    Inv.bind (hcap _ _ _ _) (fun payback => Inv.bind_ofRes (fun pbBase _ => Inv.bind (Inv.require _ _) (fun _ =>
    Inv.bind (Inv.queryPos _) (fun info => Inv.bind (Inv.require _ _) (fun _ => Inv.bind_ofRes (fun rr _ =>
    Inv.bind (Inv.require _ _) (fun _ => Inv.bind (htake _) (fun _ => Inv.bind (aave_borIs_subBorrow x ht _) (fun debt =>
    Inv.bind (aave_borIs_modify x _ (fun _ => rfl)) (fun _ => aave_borIs_modify x _ (fun _ => rfl))))))))))))))

theorem aave_borIs_changeCollateral (x : Option BorrowInfo) (t : String) (c : Bool) :
    Inv (BorIs tok x) (changeCollateral cx env t c) := by
  have hR := aave_readInv_borIs (cx := cx) (env := env) (tok := tok) x
  have h9 := hR.toReadInv3.healthFactor
  have hflag : ∀ info, Inv (BorIs tok x) (commitFlag t info) := fun info => aave_borIs_modify x _ (fun _ => rfl)
  have hupd : Inv (BorIs tok x) setUpdated := aave_borIs_modify x _ (fun _ => rfl)
  unfold changeCollateral guardOpen lookupSupply
  repeat (first | exact hflag _ | exact Inv.onError h9 (fun s hs => hflag _ s hs) | inv_step)

/-- **an operation that does not target `tok`'s debt leaves that entry exactly as it is** — in any bar, any
    arithmetic, accepted or rejected. -/
theorem C10_debt_untouched (op : Op) (h : ¬ TouchesBorrow tok op) (env : Env) (s : St) :
    AList.get? (step cx env s op).2.borrows tok = AList.get? s.borrows tok := by
  have key : ∀ (m : M Unit), Inv (BorIs tok (AList.get? s.borrows tok)) m →
      AList.get? (unitM m s).2.borrows tok = AList.get? s.borrows tok := by
    intro m hm
    have := hm s rfl
    unfold unitM mapM'
    rcases hms : m s with ⟨r, s1⟩
    rw [hms] at this
    cases r <;> exact this
  cases op with
  | supply t a c => exact key _ (aave_borIs_supply _ t a c)
  | withdraw t a => exact key _ (aave_borIs_withdraw _ t a)
  | borrow t a => exact key _ (aave_borIs_borrow _ (fun e => h e) a)
  | repay t a w c => exact key _ (aave_borIs_repay _ (fun e => h e) a w c)
  | changeCollateral t c => exact key _ (aave_borIs_changeCollateral _ t c)
  | update => exact absurd trivial h
  | read v => exact (aave_readInv_borIs (cx := cx) (env := env) (tok := tok) _).readView v s rfl
  | newBar => rfl

end untouched

theorem C10_debt_untouched_hist {cx : ACtx} {tok : String} (hist : List (Env × Op)) :
    ∀ (s : St), (∀ p ∈ hist, ¬ TouchesBorrow tok p.2) →
      AList.get? (runHist cx s hist).borrows tok = AList.get? s.borrows tok := by
  induction hist with
  | nil => intro s _; rfl
  | cons p rest ih =>
    intro s h
    obtain ⟨env, op⟩ := p
    show AList.get? (runHist cx (step cx env s op).2 rest).borrows tok = _
    rw [ih _ (fun q hq => h q (List.mem_cons_of_mem _ hq))]
    exact C10_debt_untouched op (h (env, op) (List.mem_cons_self ..)) env s

/-- **a debt equals the amount borrowed × borrow index now / borrow index at borrowing time**, regardless of how
    many bars or other operations lie between. -/
theorem C10_debt_accrues {env0 : Env} {s0 s1 : St} {tok : String} {a : Rat}
    (hnew : AList.get? s0.borrows tok = none)
    (h : borrow aaveExact env0 tok (some a) s0 = (.ok (), s1))
    (hist : List (Env × Op)) (hun : ∀ p ∈ hist, ¬ TouchesBorrow tok p.2) (I : Rat) :
    ∃ st0 e, env0.statusOf tok = .ok st0 ∧ AList.get? (runHist aaveExact s1 hist).borrows tok = some e ∧
      e.base * I = a * I / st0.varIdx := by
  obtain ⟨st, e, amount, hst, ha, _, he, hb, _, _, _, _⟩ := C10_borrow_exact h
  obtain ⟨_, st', _, _, _, hst', hnz, _⟩ := borrow_inv h
  rw [hst] at hst'; cases hst'
  have : amount = a := ha a rfl
  subst this
  refine ⟨st, e, hst, by rw [C10_debt_untouched_hist hist s1 hun]; exact he, ?_⟩
  rw [hnew] at hb
  simp at hb
  have : e.base = amount / st.varIdx := by field_simp; linarith
  rw [this]; field_simp

end Demeter
