/-
  C10 (continued, finding B-6) — the amount a repayment actually pays back, pinned.

  * `C10_repay_collateral_exact` leaves `payback` existentially quantified.  `C10_repay_collateral_exact_pinned` states
    which amount it is: the amount asked for (`None` = the whole debt `base × variable index`), unless that is worth more
    than the collateral supply holds — then the counter-value of the whole supply (`repayCollateralCap`, "contract will
    change payback amount instead of raise an error").
  * `C10_repay_exact` says nothing about `payback ≤ debt`.  The code's check is
    `require((base − payback/index).quantize(1e-18) ≥ 0)`: quantize is round-half-even to 18 decimals, so an accepted call has
    `base − payback/index ≥ −1/(2·10¹⁸)`, i.e. `payback ≤ base × index + index / (2·10¹⁸)` — the exact slack, reached by
    the witness at the end of the file.  When a payment exceeds the debt (inside that slack) the entry is deleted
    (`C10_repay_overpay_removes`): at most `index × 5e-19` tokens are taken from the wallet on top of the debt.
-/
import Proofs.C10.Split
import Proofs.Lemmas.AaveQuant
namespace Demeter.Aave
open Demeter M

variable {cx : ACtx} {env : Env}

/-- second pass over an accepted `repay`: the `exceedDebt` check it went through, on the amount that is recorded -/
theorem repay_exceed_inv {s s' : St} (hs : Good cx env s) {tok : String} {amount? : Option Rat} {withColl : Bool}
    {collTok? : Option String} (h : repay cx env tok amount? withColl collTok? s = (.ok (), s')) :
    ∃ st info payback rr debt pre, env.statusOf tok = .ok st ∧ AList.get? s.borrows tok = some info ∧
      quantE Gen.aaveRepayRoundDigits (cx.sub info.base (cx.div payback st.varIdx)) = .ok rr ∧ rr ≥ 0 ∧
      s'.actions = pre ++ [.repay tok payback debt] := by
  have hR := readInv_core (cx := cx) (env := env) s.core
  unfold repay guardOpen lookupBorrow at h
  obtain ⟨_, s1, h1, h⟩ := bind_ok_inv h
  obtain ⟨_, rfl⟩ := require_ok_inv h1
  obtain ⟨st, s1, h1, h⟩ := bind_ok_inv h
  obtain ⟨hst, rfl⟩ := ofRes_ok_inv h1
  obtain ⟨bv, s1, h1, h⟩ := bind_ok_inv h
  obtain ⟨info, st', hg, hst', hamt, c1, g1⟩ := getBorrow_ok_good hs h1
  rw [hst] at hst'; cases hst'
  dsimp only at h
  rw [hamt] at h
  obtain ⟨payback, s2, h1, h⟩ := bind_ok_inv h
  have c2 : s2.core = s.core := by
    unfold repayAmountOf at h1
    cases withColl with
    | false =>
      simp only [Bool.false_eq_true, if_false] at h1
      obtain ⟨_, rfl⟩ := pure_ok_inv h1
      exact c1
    | true =>
      simp only [if_true] at h1
      have hk : KCP s.core (repayCollateralCap cx env tok (collTok?.getD tok) (amount?.getD (cx.mul info.base st.varIdx))) := by
        have h4 : KCP s.core (suppliesView cx env) := hR.su
        have h6 : ∀ k, KCP s.core (getSupply cx env k) := fun k => hR.toReadInv3.getSupply k
        unfold repayCollateralCap
        repeat (first | exact h6 _ | inv_step)
      exact kcp_ok hk c1 h1
  obtain ⟨pbBase, s3, h1, h⟩ := bind_ok_inv h
  obtain ⟨hpbb, rfl⟩ := ofRes_ok_inv h1
  obtain ⟨_, rfl⟩ := divE_ok_eq hpbb
  obtain ⟨_, s3, h1, h⟩ := bind_ok_inv h
  obtain ⟨_, rfl⟩ := require_ok_inv h1
  obtain ⟨info2, s3, h1, h⟩ := bind_ok_inv h
  obtain ⟨hq, rfl⟩ := queryPos_ok_inv h1
  have q2b : s2.borrows = s.borrows := congrArg Core.borrows c2
  have : info = info2 := by
    rw [q2b, hg] at hq; simp only [optRes] at hq; cases hq; rfl
  subst this
  obtain ⟨_, s3, h1, h⟩ := bind_ok_inv h
  obtain ⟨_, rfl⟩ := require_ok_inv h1
  obtain ⟨rr, s3, h1, h⟩ := bind_ok_inv h
  obtain ⟨hrr, rfl⟩ := ofRes_ok_inv h1
  obtain ⟨_, s3, h1, h⟩ := bind_ok_inv h
  obtain ⟨hge, rfl⟩ := require_ok_inv h1
  obtain ⟨_, s3, h1, h⟩ := bind_ok_inv h
  obtain ⟨debt, s4, h2, h⟩ := bind_ok_inv h
  obtain ⟨_, s5, h3, h⟩ := bind_ok_inv h
  have e5 := modify_ok_inv h3
  have e6 := modify_ok_inv h
  refine ⟨st, info, payback, rr, cx.mul debt st.varIdx, s4.actions, hst, hg, hrr, by simpa using hge, ?_⟩
  rw [← e6, ← e5]

end Demeter.Aave

namespace Demeter
open Aave

variable {env : Env}

/-- `quantize` to `k` decimals of a number below minus half a unit is negative — contrapositive: a non-negative result means
    the number is at least minus half a unit of the last place -/
theorem aave_quant_nonneg_bound (k : Nat) (x : Rat) (h : 0 ≤ quantHalfEven k x) : -(1 / (2 * 10 ^ k)) ≤ x := by
  have := aave_quant_err k x
  rw [abs_le] at this
  linarith [this.2]

theorem aave_quantE_ok_eq {k : Nat} {x r : Rat} (h : quantE k x = .ok r) : r = quantHalfEven k x := by
  unfold quantE at h
  dsimp only at h
  by_cases hc : ratAbs (quantHalfEven k x) * ((pow10 k : Nat) : Rat) < ((pow10 Gen.decimalPrec : Nat) : Rat)
  · rw [if_pos hc] at h; cases h; rfl
  · rw [if_neg hc] at h; cases h

/-- the slack of the `exceedDebt` check of an accepted repayment (cash or collateral), linked to the call by the recorded
    action: `base − payback / index ≥ −1/(2·10¹⁸)` -/
theorem aave_repay_check {s s' : St} (hs : Good aaveExact env s) {tok : String} {amount? : Option Rat} {withColl : Bool}
    {collTok? : Option String} (h : repay aaveExact env tok amount? withColl collTok? s = (.ok (), s'))
    {st : TokStatus} {info : BorrowInfo} {payback x : Rat} (hst : env.statusOf tok = .ok st)
    (hg : AList.get? s.borrows tok = some info) (hact : s'.actions = s.actions ++ [.repay tok payback x]) :
    -(1 / (2 * 10 ^ Gen.aaveRepayRoundDigits)) ≤ info.base - payback / st.varIdx := by
  obtain ⟨st', info', payback', rr, debt, pre, hst', hg', hrr, hge, hact'⟩ := repay_exceed_inv hs h
  rw [hst] at hst'; cases hst'
  rw [hg] at hg'; cases hg'
  rw [hact] at hact'
  have h2 := (List.append_inj' hact' rfl).2
  simp only [List.cons.injEq, Action.repay.injEq, and_true, true_and] at h2
  obtain ⟨rfl, _⟩ := h2
  have hq := aave_quantE_ok_eq hrr
  subst hq
  exact aave_quant_nonneg_bound _ _ hge

/-- **the amount a cash repayment pays back is bounded by the debt plus the quantize slack**: an accepted
    `repay(tok, amount)` has `amount ≤ base × index + index / (2·10¹⁸)` (`aaveRepayRoundDigits = 18`), where `base × index`
    is the debt shown by `get_borrow(tok).amount`. -/
theorem C10_repay_payback_bound (hI : AavePosIdx env) {s s' : St} (hs : Good aaveExact env s) {tok : String}
    {amount? : Option Rat} {collTok? : Option String}
    (h : repay aaveExact env tok amount? false collTok? s = (.ok (), s')) :
    ∃ st info payback, env.statusOf tok = .ok st ∧ AList.get? s.borrows tok = some info ∧
      payback = amount?.getD (info.base * st.varIdx) ∧ 0 < payback ∧
      payback ≤ info.base * st.varIdx + st.varIdx / (2 * 10 ^ 18) ∧ Gen.aaveRepayRoundDigits = 18 := by
  obtain ⟨st, info, payback, nb, _, hst, hnz, hg, hpay, hpos, hnb, hcash, _⟩ := repay_inv hs h
  obtain ⟨w', hw, hc⟩ := hcash rfl
  have hp := hpay rfl
  simp only [aaveExact_mul, aaveExact_div] at hp hpos
  have hidx : 0 < st.varIdx := (hI tok st hst).2
  have hpb : 0 < payback := by
    have := mul_pos hpos hidx
    rwa [div_mul_cancel₀ _ hnz] at this
  have hb := aave_repay_check hs h hst hg (congrArg Core.actions hc)
  refine ⟨st, info, payback, hst, hg, hp, hpb, ?_, rfl⟩
  have e : Gen.aaveRepayRoundDigits = 18 := rfl
  rw [e] at hb
  have : payback / st.varIdx ≤ info.base + 1 / (2 * 10 ^ 18) := by linarith
  have h2 := mul_le_mul_of_nonneg_right this (le_of_lt hidx)
  rw [div_mul_cancel₀ _ hnz] at h2
  calc payback ≤ (info.base + 1 / (2 * 10 ^ 18)) * st.varIdx := h2
    _ = info.base * st.varIdx + st.varIdx / (2 * 10 ^ 18) := by ring

/-- **a payment above the debt (inside the slack) deletes the entry**: nothing negative is ever stored. -/
theorem C10_repay_overpay_removes (hI : AavePosIdx env) {s s' : St} (hs : Good aaveExact env s) {tok : String}
    {a : Rat} {collTok? : Option String}
    (h : repay aaveExact env tok (some a) false collTok? s = (.ok (), s'))
    (hover : ∀ st info, env.statusOf tok = .ok st → AList.get? s.borrows tok = some info → info.base * st.varIdx ≤ a) :
    AList.get? s'.borrows tok = none := by
  obtain ⟨st, info, payback, hst, hg, hp, _, hcase, _⟩ := C10_repay_exact hI hs h
  have hidx : 0 < st.varIdx := (hI tok st hst).2
  simp only [Option.getD_some] at hp
  subst hp
  rcases hcase with ⟨_, hn⟩ | ⟨hge, _⟩
  · exact hn
  · exfalso
    have h1 := hover st info hst hg
    have : info.base ≤ payback / st.varIdx := by
      rw [le_div_iff₀ hidx]; exact h1
    have := aave_minToken_pos
    linarith

/-- **repay with collateral, the amount pinned**: the wallet is not touched; with `a0` the amount asked for (`None` = the
    whole debt) and `S = cinfo.base × liquidity index` the collateral balance, the amount paid back is
    `if a0·pb/pc > S then S·pc/pb else a0`; the debt goes down by exactly that, the collateral supply by its counter-value
    `payback·pb/pc`; and the amount passes the same `exceedDebt` check (`payback ≤ debt + index/(2·10¹⁸)`). -/
theorem C10_repay_collateral_exact_pinned (hI : AavePosIdx env) {s s' : St} (hs : Good aaveExact env s) {tok : String}
    {amount? : Option Rat} {collTok? : Option String}
    (h : repay aaveExact env tok amount? true collTok? s = (.ok (), s')) :
    ∃ st cst info cinfo payback pb pc, env.statusOf tok = .ok st ∧ env.statusOf (collTok?.getD tok) = .ok cst ∧
      env.priceOf tok = .ok pb ∧ env.priceOf (collTok?.getD tok) = .ok pc ∧
      AList.get? s.borrows tok = some info ∧ AList.get? s.supplies (collTok?.getD tok) = some cinfo ∧
      payback = (if amount?.getD (info.base * st.varIdx) * pb / pc > cinfo.base * cst.liqIdx
                 then cinfo.base * cst.liqIdx * pc / pb else amount?.getD (info.base * st.varIdx)) ∧
      0 < payback ∧ payback ≤ info.base * st.varIdx + st.varIdx / (2 * 10 ^ 18) ∧
      s'.wallet = s.wallet ∧
      s'.borrows = borAfterSub s.borrows tok info (subBase aaveExact info.base (payback / st.varIdx)) ∧
      s'.supplies = supAfterSub s.supplies (collTok?.getD tok) cinfo
        (subBase aaveExact cinfo.base (payback * pb / pc / cst.liqIdx)) := by
  obtain ⟨st, info, cinfo, cst, payback, inColl, hst, hnz, hg, hci, hcst, hcnz, hcap, hsw, hc⟩ := repay_coll_inv hs h
  obtain ⟨pb, pc, hpb, hpc, hpcnz, hin⟩ := aave_swap_exact hsw
  have hcase := aave_capped_exact hpb hpc hcap
  simp only [aaveExact_mul, aaveExact_div] at hcase hc
  obtain ⟨_, _, payback0, _, _, hst0, _, hg0, _, hpos, _, _, _⟩ := repay_inv hs h
  have hidx : 0 < st.varIdx := (hI tok st hst).2
  have hb := aave_repay_check hs h hst hg (congrArg Core.actions hc)
  have e : Gen.aaveRepayRoundDigits = 18 := rfl
  rw [e] at hb
  -- positivity of the recorded amount: `repay_inv`'s amount is the recorded one
  have hpb0 : 0 < payback := by
    obtain ⟨st', info', payback', rr, debt, pre, hst', hg', hrr, hge, hact'⟩ := repay_exceed_inv hs h
    obtain ⟨st2, info2, payback2, nb2, _, hst2, hnz2, hg2, _, hpos2, _, _, hcoll2⟩ := repay_inv hs h
    obtain ⟨_, _, _, _, _, _, _, _, _, hc2⟩ := hcoll2 rfl
    rw [hst] at hst2; cases hst2
    have a1 : s'.actions = _ := congrArg Core.actions hc
    have a2 : s'.actions = _ := congrArg Core.actions hc2
    rw [a1] at a2
    have h2 := (List.append_inj' a2 rfl).2
    simp only [List.cons.injEq, Action.repay.injEq, and_true, true_and] at h2
    obtain ⟨rfl, _⟩ := h2
    simp only [aaveExact_div] at hpos2
    have := mul_pos hpos2 hidx
    rwa [div_mul_cancel₀ _ hnz] at this
  refine ⟨st, cst, info, cinfo, payback, pb, pc, hst, hcst, hpb, hpc, hg, hci, ?_, hpb0, ?_,
    congrArg Core.wallet hc, congrArg Core.borrows hc, ?_⟩
  · rcases hcase with ⟨hgt, _, hp⟩ | ⟨hle, hp⟩
    · rw [if_pos hgt]; exact hp
    · rw [if_neg hle]; exact hp
  · have : payback / st.varIdx ≤ info.base + 1 / (2 * 10 ^ 18) := by linarith
    have h2 := mul_le_mul_of_nonneg_right this (le_of_lt hidx)
    rw [div_mul_cancel₀ _ hnz] at h2
    calc payback ≤ (info.base + 1 / (2 * 10 ^ 18)) * st.varIdx := h2
      _ = info.base * st.varIdx + st.varIdx / (2 * 10 ^ 18) := by ring
  · rw [← hin]; exact congrArg Core.supplies hc

/-! ### non-vacuity and tightness -/

/-- debt 4000 scaled × index 1.25 = 5000 USDC (`c10Bor` of `Proofs/C10/Split.lean`), wallet 5000 USDC: a repayment of
    exactly `5000 + 1.25/(2·10¹⁸)` — the bound of `C10_repay_payback_bound` — is accepted (round-half-even sends the scaled
    remainder `−5e-19` to `−0`), the entry disappears and the wallet goes to 0 through `Asset.sub`'s dust rule … -/
example : c10IsOk (step aaveExact c10Env c10Bor (.repay "USDC" (some (5000 + (5/4) / (2 * 10 ^ 18))) false none)).1 = true ∧
    (step aaveExact c10Env c10Bor (.repay "USDC" (some (5000 + (5/4) / (2 * 10 ^ 18))) false none)).2.borrows = [] := by
  decide +kernel
/-- … and anything more is refused -/
example : c10IsOk (step aaveExact c10Env c10Bor (.repay "USDC" (some (5000 + (5/4) / (2 * 10 ^ 18) + 1 / 10 ^ 30)) false none)).1
    = false := by decide +kernel
/-- the cap: 11 WETH of collateral (10 scaled × 1.1) are worth 11 000 USDC; asking to repay the whole 5000 USDC debt out of
    it is not capped (`a0·pb/pc = 5 ≤ 11`), the debt disappears and 5 WETH = 50/11 scaled units are taken -/
example : (step aaveExact c10Env c10Bor (.repay "USDC" none true (some "WETH"))).2.borrows = [] ∧
    (step aaveExact c10Env c10Bor (.repay "USDC" none true (some "WETH"))).2.supplies = [("WETH", ⟨10 - 50 / 11, true, 11/10⟩)] := by
  decide +kernel

end Demeter
