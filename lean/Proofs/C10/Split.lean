/-
  C10 (continued) — splitting or merging supplies, borrows and withdrawals changes nothing (exact arithmetic:
  the positions are *equal*; under CPython's 35-digit rounding the harness measures the difference, ≤ 1e-18).
-/
import Proofs.C10
namespace Demeter
open Aave

variable {env : Env}

theorem aave_supplyEntry_two (old : Option SupplyInfo) (a b I : Rat) (c : Bool) (hI : I ≠ 0) :
    supplyEntry aaveExact (some (supplyEntry aaveExact old (a / I) c I)) (b / I) c I =
      supplyEntry aaveExact old ((a + b) / I) c I := by
  cases old with
  | none =>
    simp only [supplyEntry, aaveExact_add]
    congr 1
    field_simp; ring
  | some i =>
    simp only [supplyEntry, aaveExact_add]
    congr 1
    field_simp; ring

/-- **supply(a) ; supply(b) = supply(a + b)** on the positions. -/
theorem C10_supply_split {s s1 s2 s12 : St} {tok : String} {a b : Rat} {coll : Bool}
    (h1 : supply aaveExact env tok a coll s = (.ok (), s1))
    (h2 : supply aaveExact env tok b coll s1 = (.ok (), s2))
    (h12 : supply aaveExact env tok (a + b) coll s = (.ok (), s12)) :
    s2.supplies = s12.supplies ∧ s2.borrows = s12.borrows := by
  obtain ⟨st, _, _, _, hst, hnz, _, _, c1⟩ := supply_inv h1
  obtain ⟨st', _, _, _, hst', _, _, _, c2⟩ := supply_inv h2
  obtain ⟨st'', _, _, _, hst'', _, _, _, c12⟩ := supply_inv h12
  rw [hst] at hst' hst''; cases hst'; cases hst''
  have e1 : s1.supplies = _ := congrArg Core.supplies c1
  have e2 : s2.supplies = _ := congrArg Core.supplies c2
  have e12 : s12.supplies = _ := congrArg Core.supplies c12
  have b1 : s1.borrows = s.borrows := congrArg Core.borrows c1
  have b2 : s2.borrows = s1.borrows := congrArg Core.borrows c2
  have b12 : s12.borrows = s.borrows := congrArg Core.borrows c12
  refine ⟨?_, by rw [b2, b1, b12]⟩
  rw [e2, e12, e1, aget_set_self, aset_aset]
  simp only [aaveExact_div]
  rw [aave_supplyEntry_two _ _ _ _ _ hnz]

theorem aave_borrowEntry_two (old : Option BorrowInfo) (a b I : Rat) (hI : I ≠ 0) :
    borrowEntry aaveExact (some (borrowEntry aaveExact old (a / I) I)) (b / I) I =
      borrowEntry aaveExact old ((a + b) / I) I := by
  cases old with
  | none =>
    simp only [borrowEntry, aaveExact_add]
    congr 1
    field_simp; ring
  | some i =>
    simp only [borrowEntry, aaveExact_add]
    congr 1
    field_simp; ring

/-- **borrow(a) ; borrow(b) = borrow(a + b)** on the positions. -/
theorem C10_borrow_split {s s1 s2 s12 : St} {tok : String} {a b : Rat}
    (h1 : borrow aaveExact env tok (some a) s = (.ok (), s1))
    (h2 : borrow aaveExact env tok (some b) s1 = (.ok (), s2))
    (h12 : borrow aaveExact env tok (some (a + b)) s = (.ok (), s12)) :
    s2.borrows = s12.borrows ∧ s2.supplies = s12.supplies := by
  obtain ⟨a', st, _, _, ha, hst, hnz, c1⟩ := borrow_inv h1
  obtain ⟨b', st', _, _, hb, hst', _, c2⟩ := borrow_inv h2
  obtain ⟨ab', st'', _, _, hab, hst'', _, c12⟩ := borrow_inv h12
  rw [hst] at hst' hst''; cases hst'; cases hst''
  have := ha a rfl; subst this
  have := hb b rfl; subst this
  have := hab _ rfl; subst this
  have e1 : s1.borrows = _ := congrArg Core.borrows c1
  have e2 : s2.borrows = _ := congrArg Core.borrows c2
  have e12 : s12.borrows = _ := congrArg Core.borrows c12
  have p1 : s1.supplies = s.supplies := congrArg Core.supplies c1
  have p2 : s2.supplies = s1.supplies := congrArg Core.supplies c2
  have p12 : s12.supplies = s.supplies := congrArg Core.supplies c12
  refine ⟨?_, by rw [p2, p1, p12]⟩
  rw [e2, e12, e1, aget_set_self, aset_aset]
  simp only [aaveExact_div]
  rw [aave_borrowEntry_two _ _ _ _ hnz]

theorem aave_subBase_congr {b d b' d' : Rat} (h : b - d = b' - d') : subBase aaveExact b d = subBase aaveExact b' d' := by
  have e : ∀ x y, subBase aaveExact x y = if x - y < Gen.aaveMinTokenValue then 0 else x - y := fun _ _ => rfl
  rw [e, e, h]

/-- **withdraw(a) ; withdraw(b) = withdraw(a + b)** on the positions (all three accepted). -/
theorem C10_withdraw_split {s s1 s2 s12 : St} (hs : Good aaveExact env s) {tok : String} {a b : Rat}
    (h1 : withdraw aaveExact env tok (some a) s = (.ok (), s1))
    (h2 : withdraw aaveExact env tok (some b) s1 = (.ok (), s2))
    (h12 : withdraw aaveExact env tok (some (a + b)) s = (.ok (), s12)) :
    s2.supplies = s12.supplies ∧ s2.borrows = s12.borrows := by
  have hs1 : Good aaveExact env s1 := by
    have := inv_withdraw (cx := aaveExact) (env := env) tok (some a) s hs
    rw [h1] at this; exact this
  obtain ⟨st, info, am, nb, _, hst, hnz, hg, ha, _, _, hnb, c1⟩ := withdraw_inv hs h1
  obtain ⟨st', info1, am1, nb1, _, hst', _, hg1, ha1, _, _, hnb1, c2⟩ := withdraw_inv hs1 h2
  obtain ⟨st'', info12, am12, nb12, _, hst'', _, hg12, ha12, _, _, hnb12, c12⟩ := withdraw_inv hs h12
  rw [hst] at hst' hst''; cases hst'; cases hst''
  rw [hg] at hg12; cases hg12
  simp only [Option.getD_some] at ha ha1 ha12
  rw [ha] at hnb; rw [ha1] at hnb1; rw [ha12] at hnb12
  have e1 : s1.supplies = supAfterSub s.supplies tok info nb := congrArg Core.supplies c1
  have e2 : s2.supplies = supAfterSub s1.supplies tok info1 nb1 := congrArg Core.supplies c2
  have e12 : s12.supplies = supAfterSub s.supplies tok info nb12 := congrArg Core.supplies c12
  have b1 : s1.borrows = s.borrows := congrArg Core.borrows c1
  have b2 : s2.borrows = s1.borrows := congrArg Core.borrows c2
  have b12 : s12.borrows = s.borrows := congrArg Core.borrows c12
  refine ⟨?_, by rw [b2, b1, b12]⟩
  simp only [aaveExact_div] at hnb hnb1 hnb12
  -- the first withdrawal left the entry in place (otherwise the second one would have raised)
  have hnb_ne : nb ≠ 0 := by
    intro e
    rw [e1, e] at hg1
    unfold supAfterSub at hg1
    simp only [if_true] at hg1
    rw [aget_erase_self'] at hg1; cases hg1
  rcases aave_subBase_cases info.base (a / st.liqIdx) with ⟨_, h0⟩ | ⟨_, heq, _⟩
  · exact absurd (hnb.trans h0) hnb_ne
  · have hinfo1 : info1 = { info with base := nb } := by
      rw [e1] at hg1
      unfold supAfterSub at hg1
      simp only [hnb_ne, if_false, aget_set_self, Option.some.injEq] at hg1
      exact hg1.symm
    have hsame : nb1 = nb12 := by
      rw [hnb1, hnb12, hinfo1]
      show subBase aaveExact nb (b / st.liqIdx) = _
      apply aave_subBase_congr
      rw [hnb, heq]; field_simp; ring
    rw [e2, e12, e1, hsame, hinfo1]
    unfold supAfterSub
    simp only [hnb_ne, if_false]
    split
    · exact erase_set _ _ _
    · rw [aset_aset]

/-! ### non-vacuity: concrete accepted calls in exact arithmetic -/

def c10Env : Env :=
  { status := [("WETH", ⟨1/100, 3/100, 11/10, 12/10⟩), ("USDC", ⟨1/100, 3/100, 1, 5/4⟩)],
    price := [("WETH", 1000), ("USDC", 1)],
    risk := [("WETH", ⟨true, 8/10, 825/1000, 5/100, true⟩), ("USDC", ⟨true, 8/10, 85/100, 4/100, true⟩)],
    isOpen := true }

/-- 11 WETH in the wallet, nothing supplied yet -/
def c10St : St := { St.init with wallet := [("WETH", 11), ("USDC", 0)] }

def c10IsOk {α : Type} (r : Res α) : Bool :=
  match r with
  | .ok _ => true
  | .error _ => false

-- supply 11 WETH at index 1.1: scaled 10; borrow 5000 USDC at borrow index 1.25: scaled 4000
example : c10IsOk (step aaveExact c10Env c10St (.supply "WETH" 11 true)).1 = true := by decide +kernel
example : (step aaveExact c10Env c10St (.supply "WETH" 11 true)).2.supplies = [("WETH", ⟨10, true, 11/10⟩)] := by
  decide +kernel
example : (step aaveExact c10Env (step aaveExact c10Env c10St (.supply "WETH" 11 true)).2 (.borrow "USDC" (some 5000))).2.borrows
    = [("USDC", ⟨4000, 5/4⟩)] := by decide +kernel
-- split: 4 + 7 = 11
example : (step aaveExact c10Env (step aaveExact c10Env c10St (.supply "WETH" 4 true)).2 (.supply "WETH" 7 true)).2.supplies
    = (step aaveExact c10Env c10St (.supply "WETH" 11 true)).2.supplies := by decide +kernel
-- full withdrawal removes the entry and returns the 11 WETH
example : (step aaveExact c10Env (step aaveExact c10Env c10St (.supply "WETH" 11 true)).2 (.withdraw "WETH" none)).2.supplies = [] := by
  decide +kernel
example : (step aaveExact c10Env (step aaveExact c10Env c10St (.supply "WETH" 11 true)).2 (.withdraw "WETH" none)).2.wallet
    = [("WETH", 11), ("USDC", 0)] := by decide +kernel

end Demeter
