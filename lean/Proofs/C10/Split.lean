/-
  C10 (continued) — splitting or merging supplies, borrows, withdrawals and repayments (cash or out of collateral) changes
  nothing (exact arithmetic: the positions are *equal*; under CPython's 35-digit rounding the harness measures the
  difference, ≤ 1e-18).  For cash repayments the wallet is part of the statement: it gives the same total, up to the 1e-5
  dust rule of `Asset.sub`, which may snap one run to 0 and not the other.
-/
import Proofs.C10
import Proofs.Lemmas.AaveDebit
import Proofs.Lemmas.AaveRepayColl
namespace Demeter
open Aave

variable {env : Env}

theorem aave_supplyEntry_two (old : Option SupplyInfo) (a b I : Rat) (c : Bool) (hI : I ≠ 0) :
    supplyEntry aaveExact (some (supplyEntry aaveExact old (a / I) c I)) (b / I) c I =
      supplyEntry aaveExact old ((a + b) / I) c I := by
  cases old with
  | none =>
    simp only [supplyEntry, aaveExact_add]
    congr 1
    field_simp; ring
  | some i =>
    simp only [supplyEntry, aaveExact_add]
    congr 1
    field_simp; ring

/-- **supply(a) ; supply(b) = supply(a + b)** on the positions. -/
theorem C10_supply_split {s s1 s2 s12 : St} {tok : String} {a b : Rat} {coll : Bool}
    (h1 : supply aaveExact env tok a coll s = (.ok (), s1))
    (h2 : supply aaveExact env tok b coll s1 = (.ok (), s2))
    (h12 : supply aaveExact env tok (a + b) coll s = (.ok (), s12)) :
    s2.supplies = s12.supplies ∧ s2.borrows = s12.borrows := by
  obtain ⟨st, _, _, _, hst, hnz, _, _, c1⟩ := supply_inv h1
  obtain ⟨st', _, _, _, hst', _, _, _, c2⟩ := supply_inv h2
  obtain ⟨st'', _, _, _, hst'', _, _, _, c12⟩ := supply_inv h12
  rw [hst] at hst' hst''; cases hst'; cases hst''
  have e1 : s1.supplies = _ := congrArg Core.supplies c1
  have e2 : s2.supplies = _ := congrArg Core.supplies c2
  have e12 : s12.supplies = _ := congrArg Core.supplies c12
  have b1 : s1.borrows = s.borrows := congrArg Core.borrows c1
  have b2 : s2.borrows = s1.borrows := congrArg Core.borrows c2
  have b12 : s12.borrows = s.borrows := congrArg Core.borrows c12
  refine ⟨?_, by rw [b2, b1, b12]⟩
  rw [e2, e12, e1, aget_set_self, aset_aset]
  simp only [aaveExact_div]
  rw [aave_supplyEntry_two _ _ _ _ _ hnz]

theorem aave_borrowEntry_two (old : Option BorrowInfo) (a b I : Rat) (hI : I ≠ 0) :
    borrowEntry aaveExact (some (borrowEntry aaveExact old (a / I) I)) (b / I) I =
      borrowEntry aaveExact old ((a + b) / I) I := by
  cases old with
  | none =>
    simp only [borrowEntry, aaveExact_add]
    congr 1
    field_simp; ring
  | some i =>
    simp only [borrowEntry, aaveExact_add]
    congr 1
    field_simp; ring

/-- **borrow(a) ; borrow(b) = borrow(a + b)** on the positions. -/
theorem C10_borrow_split {s s1 s2 s12 : St} {tok : String} {a b : Rat}
    (h1 : borrow aaveExact env tok (some a) s = (.ok (), s1))
    (h2 : borrow aaveExact env tok (some b) s1 = (.ok (), s2))
    (h12 : borrow aaveExact env tok (some (a + b)) s = (.ok (), s12)) :
    s2.borrows = s12.borrows ∧ s2.supplies = s12.supplies := by
  obtain ⟨a', st, _, _, ha, hst, hnz, c1⟩ := borrow_inv h1
  obtain ⟨b', st', _, _, hb, hst', _, c2⟩ := borrow_inv h2
  obtain ⟨ab', st'', _, _, hab, hst'', _, c12⟩ := borrow_inv h12
  rw [hst] at hst' hst''; cases hst'; cases hst''
  have := ha a rfl; subst this
  have := hb b rfl; subst this
  have := hab _ rfl; subst this
  have e1 : s1.borrows = _ := congrArg Core.borrows c1
  have e2 : s2.borrows = _ := congrArg Core.borrows c2
  have e12 : s12.borrows = _ := congrArg Core.borrows c12
  have p1 : s1.supplies = s.supplies := congrArg Core.supplies c1
  have p2 : s2.supplies = s1.supplies := congrArg Core.supplies c2
  have p12 : s12.supplies = s.supplies := congrArg Core.supplies c12
  refine ⟨?_, by rw [p2, p1, p12]⟩
  rw [e2, e12, e1, aget_set_self, aset_aset]
  simp only [aaveExact_div]
  rw [aave_borrowEntry_two _ _ _ _ hnz]

theorem aave_subBase_congr {b d b' d' : Rat} (h : b - d = b' - d') : subBase aaveExact b d = subBase aaveExact b' d' := by
  have e : ∀ x y, subBase aaveExact x y = if x - y < Gen.aaveMinTokenValue then 0 else x - y := fun _ _ => rfl
  rw [e, e, h]

/-- **withdraw(a) ; withdraw(b) = withdraw(a + b)** on the positions (all three accepted). -/
theorem C10_withdraw_split {s s1 s2 s12 : St} (hs : Good aaveExact env s) {tok : String} {a b : Rat}
    (h1 : withdraw aaveExact env tok (some a) s = (.ok (), s1))
    (h2 : withdraw aaveExact env tok (some b) s1 = (.ok (), s2))
    (h12 : withdraw aaveExact env tok (some (a + b)) s = (.ok (), s12)) :
    s2.supplies = s12.supplies ∧ s2.borrows = s12.borrows := by
  have hs1 : Good aaveExact env s1 := by
    have := inv_withdraw (cx := aaveExact) (env := env) tok (some a) s hs
    rw [h1] at this; exact this
  obtain ⟨st, info, am, nb, _, hst, hnz, hg, ha, _, _, hnb, c1⟩ := withdraw_inv hs h1
  obtain ⟨st', info1, am1, nb1, _, hst', _, hg1, ha1, _, _, hnb1, c2⟩ := withdraw_inv hs1 h2
  obtain ⟨st'', info12, am12, nb12, _, hst'', _, hg12, ha12, _, _, hnb12, c12⟩ := withdraw_inv hs h12
  rw [hst] at hst' hst''; cases hst'; cases hst''
  rw [hg] at hg12; cases hg12
  simp only [Option.getD_some] at ha ha1 ha12
  rw [ha] at hnb; rw [ha1] at hnb1; rw [ha12] at hnb12
  have e1 : s1.supplies = supAfterSub s.supplies tok info nb := congrArg Core.supplies c1
  have e2 : s2.supplies = supAfterSub s1.supplies tok info1 nb1 := congrArg Core.supplies c2
  have e12 : s12.supplies = supAfterSub s.supplies tok info nb12 := congrArg Core.supplies c12
  have b1 : s1.borrows = s.borrows := congrArg Core.borrows c1
  have b2 : s2.borrows = s1.borrows := congrArg Core.borrows c2
  have b12 : s12.borrows = s.borrows := congrArg Core.borrows c12
  refine ⟨?_, by rw [b2, b1, b12]⟩
  simp only [aaveExact_div] at hnb hnb1 hnb12
  -- the first withdrawal left the entry in place (otherwise the second one would have raised)
  have hnb_ne : nb ≠ 0 := by
    intro e
    rw [e1, e] at hg1
    unfold supAfterSub at hg1
    simp only [if_true] at hg1
    rw [aget_erase_self'] at hg1; cases hg1
  rcases aave_subBase_cases info.base (a / st.liqIdx) with ⟨_, h0⟩ | ⟨_, heq, _⟩
  · exact absurd (hnb.trans h0) hnb_ne
  · have hinfo1 : info1 = { info with base := nb } := by
      rw [e1] at hg1
      unfold supAfterSub at hg1
      simp only [hnb_ne, if_false, aget_set_self, Option.some.injEq] at hg1
      exact hg1.symm
    have hsame : nb1 = nb12 := by
      rw [hnb1, hnb12, hinfo1]
      show subBase aaveExact nb (b / st.liqIdx) = _
      apply aave_subBase_congr
      rw [hnb, heq]; field_simp; ring
    rw [e2, e12, e1, hsame, hinfo1]
    unfold supAfterSub
    simp only [hnb_ne, if_false]
    split
    · exact erase_set _ _ _
    · rw [aset_aset]

/-! ### repay (cash) -/

/-- the two ways a reduction of the scaled debt `base` by `x` ends: entry deleted (remainder below `MIN_TOKEN_VALUE`), or kept
    with exactly the difference -/
theorem aave_borAfterSub_cases (bor : AList String BorrowInfo) (tok : String) (info : BorrowInfo) (x I : Rat) (hI : I ≠ 0) :
    (info.base - x / I < Gen.aaveMinTokenValue ∧
      AList.get? (borAfterSub bor tok info (subBase aaveExact info.base (x / I))) tok = none) ∨
    (Gen.aaveMinTokenValue ≤ info.base - x / I ∧
      ∃ e, AList.get? (borAfterSub bor tok info (subBase aaveExact info.base (x / I))) tok = some e ∧
        e.base * I = info.base * I - x) := by
  rcases aave_subBase_cases info.base (x / I) with ⟨hlt, h0⟩ | ⟨hge, heq, hne⟩
  · left
    refine ⟨hlt, ?_⟩
    rw [h0]; unfold borAfterSub; simp only [if_true]
    exact aget_erase_self' _ _
  · right
    refine ⟨hge, { info with base := subBase aaveExact info.base (x / I) }, ?_, ?_⟩
    · unfold borAfterSub
      simp only [hne, if_false]; exact aget_set_self _ _ _
    · show subBase aaveExact info.base (x / I) * I = _
      rw [heq]; field_simp

/-- the common core of the repay splits: three accepted cash repayments `p₁` on `s`, `p₂` on the state the first one left, and
    `p₁₂` on `s`, where `p₁ + p₂ = p₁₂` (the amounts may be `None` = "the whole debt at that moment") -/
theorem aave_repay_split_core (hI : AavePosIdx env) {s s1 s2 s12 : St} (hs : Good aaveExact env s) {tok : String}
    {a1 a2 a12 : Option Rat} {c1 c2 c12 : Option String}
    (h1 : repay aaveExact env tok a1 false c1 s = (.ok (), s1))
    (h2 : repay aaveExact env tok a2 false c2 s1 = (.ok (), s2))
    (h12 : repay aaveExact env tok a12 false c12 s = (.ok (), s12))
    (hsum : ∀ info st info1, AList.get? s.borrows tok = some info → env.statusOf tok = .ok st → st.varIdx ≠ 0 →
      AList.get? s1.borrows tok = some info1 →
      info1.base = info.base - a1.getD (info.base * st.varIdx) / st.varIdx →
      a1.getD (info.base * st.varIdx) + a2.getD (info1.base * st.varIdx) = a12.getD (info.base * st.varIdx)) :
    ∃ st info p, env.statusOf tok = .ok st ∧ AList.get? s.borrows tok = some info ∧ p = a12.getD (info.base * st.varIdx) ∧
    s2.borrows = s12.borrows ∧ s2.supplies = s12.supplies ∧
      ((info.base - p / st.varIdx < Gen.aaveMinTokenValue ∧
          AList.get? s2.borrows tok = none ∧ AList.get? s12.borrows tok = none) ∨
       (Gen.aaveMinTokenValue ≤ info.base - p / st.varIdx ∧ ∃ e, AList.get? s2.borrows tok = some e ∧
          AList.get? s12.borrows tok = some e ∧ e.base * st.varIdx = info.base * st.varIdx - p)) ∧
    WalletTook s.wallet s2.wallet tok p ∧ WalletTook s.wallet s12.wallet tok p ∧
    (∃ b0 x2 x12, AList.get? s.wallet tok = some b0 ∧ s2.wallet = AList.set s.wallet tok x2 ∧
      s12.wallet = AList.set s.wallet tok x12 ∧ DebitEnds b0 p x2 ∧ DebitEnds b0 p x12 ∧
      (x2 ≠ x12 → 0 < b0 ∧ |b0 - p| < assetDust * b0)) := by
  have hs1 : Good aaveExact env s1 := by
    have := inv_repay (cx := aaveExact) (env := env) tok a1 false c1 s hs
    rw [h1] at this; exact this
  obtain ⟨st, info, pa, nb, _, hst, hnz, hg, hpa, hpos, hnb, hcash, _⟩ := repay_inv hs h1
  obtain ⟨st', info1, pb, nb1, _, hst', _, hg1, hpb, hpos1, hnb1, hcash1, _⟩ := repay_inv hs1 h2
  obtain ⟨st'', info12, pab, nb12, _, hst'', _, hg12, hpab, hpos12, hnb12, hcash12, _⟩ := repay_inv hs h12
  rw [hst] at hst' hst''; cases hst'; cases hst''
  rw [hg] at hg12; cases hg12
  have epa := hpa rfl
  have epb := hpb rfl
  have epab := hpab rfl
  simp only [aaveExact_mul] at epa epb epab
  obtain ⟨w1, hw1, k1⟩ := hcash rfl
  obtain ⟨w2, hw2, k2⟩ := hcash1 rfl
  obtain ⟨w12, hw12, k12⟩ := hcash12 rfl
  simp only [aaveExact_div] at hnb hnb1 hnb12 hpos hpos1 hpos12
  have hidx : 0 < st.varIdx := (hI tok st hst).2
  have hapos : 0 < pa := by
    have := mul_pos hpos hidx; rwa [div_mul_cancel₀ _ hnz] at this
  have hbpos : 0 < pb := by
    have := mul_pos hpos1 hidx; rwa [div_mul_cancel₀ _ hnz] at this
  have e1 : s1.borrows = borAfterSub s.borrows tok info nb := congrArg Core.borrows k1
  have e2 : s2.borrows = borAfterSub s1.borrows tok info1 nb1 := congrArg Core.borrows k2
  have e12 : s12.borrows = borAfterSub s.borrows tok info nb12 := congrArg Core.borrows k12
  have p1 : s1.supplies = s.supplies := congrArg Core.supplies k1
  have p2 : s2.supplies = s1.supplies := congrArg Core.supplies k2
  have p12 : s12.supplies = s.supplies := congrArg Core.supplies k12
  have q1 : s1.wallet = w1 := congrArg Core.wallet k1
  have q2 : s2.wallet = w2 := congrArg Core.wallet k2
  have q12 : s12.wallet = w12 := congrArg Core.wallet k12
  -- the first repayment left the entry in place (otherwise the second one would have raised)
  have hnb_ne : nb ≠ 0 := by
    intro e
    rw [e1, e] at hg1
    unfold borAfterSub at hg1
    simp only [if_true] at hg1
    rw [aget_erase_self'] at hg1; cases hg1
  have hkey : info1 = { info with base := nb } ∧ nb = info.base - pa / st.varIdx := by
    rcases aave_subBase_cases info.base (pa / st.varIdx) with ⟨_, h0⟩ | ⟨_, heq, _⟩
    · exact absurd (hnb.trans h0) hnb_ne
    · refine ⟨?_, hnb.trans heq⟩
      rw [e1] at hg1
      unfold borAfterSub at hg1
      simp only [hnb_ne, if_false, aget_set_self, Option.some.injEq] at hg1
      exact hg1.symm
  obtain ⟨hinfo1, hnbeq⟩ := hkey
  have hadd : pa + pb = pab := by
    rw [epa, epb, epab]
    exact hsum info st info1 hg hst hnz hg1 (by rw [hinfo1, ← epa]; exact hnbeq)
  have hbor : s2.borrows = s12.borrows := by
    have hsame : nb1 = nb12 := by
      rw [hnb1, hnb12, hinfo1]
      show subBase aaveExact nb (pb / st.varIdx) = _
      apply aave_subBase_congr
      rw [hnbeq, ← hadd]; field_simp; ring
    rw [e2, e12, e1, hsame, hinfo1]
    unfold borAfterSub
    simp only [hnb_ne, if_false]
    split
    · exact erase_set _ _ _
    · rw [aset_aset]
  rw [q1] at hw2
  rw [← hadd] at hw12
  obtain ⟨b0, x2, x12, g0, ew2, ew12, d2, d12⟩ := aave_debit_two hapos hbpos hw1 hw2 hw12
  rw [hadd] at d2 d12
  refine ⟨st, info, pab, hst, hg, epab, hbor, by rw [p2, p1, p12], ?_, ?_, ?_,
    ⟨b0, x2, x12, g0, by rw [q2]; exact ew2, by rw [q12]; exact ew12, d2, d12, d2.differ d12⟩⟩
  · rw [hbor, e12, hnb12]
    rcases aave_borAfterSub_cases s.borrows tok info pab st.varIdx hnz with ⟨h, g⟩ | ⟨h, e, g, he⟩
    · exact Or.inl ⟨h, g, g⟩
    · exact Or.inr ⟨h, e, g, g, he⟩
  · rw [q2, ew2]; exact aave_walletTook_of_set g0 d2
  · rw [q12, ew12]; exact aave_walletTook_of_set g0 d12

/-- **repay(a) ; repay(b) = repay(a + b)** (cash; all three accepted; coherent start state; positive indices): the same debts
    afterwards — explicitly, the entry is gone in both runs when the scaled remainder `base − (a+b)/I` is below
    `MIN_TOKEN_VALUE` (full repayment, dust snap of `sub_base_amount`), and otherwise it holds the amount `base·I − (a+b)` in
    both —, supplies untouched, and the wallet gave `a + b` in both runs: each wallet is the old one with the token's balance
    replaced by `b₀ − (a+b)`, or by 0 under `Asset.sub`'s dust rule (`DebitEnds`); the two runs can differ there only inside
    that dust, `|b₀ − (a+b)| < 1e-5·b₀`. -/
theorem C10_repay_split (hI : AavePosIdx env) {s s1 s2 s12 : St} (hs : Good aaveExact env s) {tok : String} {a b : Rat}
    {c1 c2 c12 : Option String}
    (h1 : repay aaveExact env tok (some a) false c1 s = (.ok (), s1))
    (h2 : repay aaveExact env tok (some b) false c2 s1 = (.ok (), s2))
    (h12 : repay aaveExact env tok (some (a + b)) false c12 s = (.ok (), s12)) :
    s2.borrows = s12.borrows ∧ s2.supplies = s12.supplies ∧
    (∃ st info, env.statusOf tok = .ok st ∧ AList.get? s.borrows tok = some info ∧
      ((info.base - (a + b) / st.varIdx < Gen.aaveMinTokenValue ∧
          AList.get? s2.borrows tok = none ∧ AList.get? s12.borrows tok = none) ∨
       (Gen.aaveMinTokenValue ≤ info.base - (a + b) / st.varIdx ∧ ∃ e, AList.get? s2.borrows tok = some e ∧
          AList.get? s12.borrows tok = some e ∧ e.base * st.varIdx = info.base * st.varIdx - (a + b)))) ∧
    WalletTook s.wallet s2.wallet tok (a + b) ∧ WalletTook s.wallet s12.wallet tok (a + b) ∧
    (∃ b0 x2 x12, AList.get? s.wallet tok = some b0 ∧ s2.wallet = AList.set s.wallet tok x2 ∧
      s12.wallet = AList.set s.wallet tok x12 ∧ DebitEnds b0 (a + b) x2 ∧ DebitEnds b0 (a + b) x12 ∧
      (x2 ≠ x12 → 0 < b0 ∧ |b0 - (a + b)| < assetDust * b0)) := by
  obtain ⟨st, info, p, hst, hg, hp, r1, r2, r3, r4, r5, r6⟩ :=
    aave_repay_split_core hI hs h1 h2 h12 (fun _ _ _ _ _ _ _ _ => by simp only [Option.getD_some])
  simp only [Option.getD_some] at hp
  subst hp
  exact ⟨r1, r2, ⟨st, info, hst, hg, r3⟩, r4, r5, r6⟩

/-- **repay(a) ; repay(None) = repay(None)**: paying `a` and then "everything that is left" is paying the whole debt at once —
    the debt entry is gone in both runs, supplies untouched, and the wallet gave the whole debt `base·I` in both (up to
    `Asset.sub`'s dust rule, as in `C10_repay_split`). -/
theorem C10_repay_split_rest (hI : AavePosIdx env) {s s1 s2 s12 : St} (hs : Good aaveExact env s) {tok : String} {a : Rat}
    {c1 c2 c12 : Option String}
    (h1 : repay aaveExact env tok (some a) false c1 s = (.ok (), s1))
    (h2 : repay aaveExact env tok none false c2 s1 = (.ok (), s2))
    (h12 : repay aaveExact env tok none false c12 s = (.ok (), s12)) :
    s2.borrows = s12.borrows ∧ s2.supplies = s12.supplies ∧
    AList.get? s2.borrows tok = none ∧ AList.get? s12.borrows tok = none ∧
    (∃ st info, env.statusOf tok = .ok st ∧ AList.get? s.borrows tok = some info ∧
      WalletTook s.wallet s2.wallet tok (info.base * st.varIdx) ∧ WalletTook s.wallet s12.wallet tok (info.base * st.varIdx) ∧
      (∃ b0 x2 x12, AList.get? s.wallet tok = some b0 ∧ s2.wallet = AList.set s.wallet tok x2 ∧
        s12.wallet = AList.set s.wallet tok x12 ∧ DebitEnds b0 (info.base * st.varIdx) x2 ∧
        DebitEnds b0 (info.base * st.varIdx) x12 ∧
        (x2 ≠ x12 → 0 < b0 ∧ |b0 - info.base * st.varIdx| < assetDust * b0))) := by
  obtain ⟨st, info, p, hst, hg, hp, r1, r2, r3, r4, r5, r6⟩ :=
    aave_repay_split_core hI hs h1 h2 h12 (fun info st info1 _ _ hnz _ hb => by
      simp only [Option.getD_some, Option.getD_none] at hb ⊢
      rw [hb]; field_simp; ring)
  simp only [Option.getD_none] at hp
  subst hp
  have hnz : st.varIdx ≠ 0 := ne_of_gt (hI tok st hst).2
  have hgone : AList.get? s2.borrows tok = none ∧ AList.get? s12.borrows tok = none := by
    rcases r3 with ⟨_, g2, g12⟩ | ⟨hge, _⟩
    · exact ⟨g2, g12⟩
    · exfalso
      have : info.base - info.base * st.varIdx / st.varIdx = 0 := by field_simp; ring
      rw [this] at hge
      exact absurd aave_minToken_pos (not_lt.mpr hge)
  exact ⟨r1, r2, hgone.1, hgone.2, st, info, hst, hg, r4, r5, r6⟩

/-! ### repay out of collateral -/

theorem aave_subBase_ne_zero {b x : Rat} (h : subBase aaveExact b x ≠ 0) : subBase aaveExact b x = b - x := by
  rcases aave_subBase_cases b x with ⟨_, h0⟩ | ⟨_, heq, _⟩
  · exact absurd h0 h
  · exact heq

/-- two reductions of one supply (the first leaves the entry in place) = one reduction by the sum -/
theorem aave_supAfterSub_two (sup : AList String SupplyInfo) (tok : String) (info : SupplyInfo) (x y : Rat)
    (h1 : subBase aaveExact info.base x ≠ 0) :
    supAfterSub (supAfterSub sup tok info (subBase aaveExact info.base x)) tok { info with base := subBase aaveExact info.base x }
        (subBase aaveExact (subBase aaveExact info.base x) y) =
      supAfterSub sup tok info (subBase aaveExact info.base (x + y)) := by
  have e : subBase aaveExact (subBase aaveExact info.base x) y = subBase aaveExact info.base (x + y) := by
    apply aave_subBase_congr
    rw [aave_subBase_ne_zero h1]; ring
  rw [e]
  unfold supAfterSub
  simp only [h1, if_false]
  split
  · exact erase_set _ _ _
  · rw [aset_aset]

theorem aave_borAfterSub_two (bor : AList String BorrowInfo) (tok : String) (info : BorrowInfo) (x y : Rat)
    (h1 : subBase aaveExact info.base x ≠ 0) :
    borAfterSub (borAfterSub bor tok info (subBase aaveExact info.base x)) tok { info with base := subBase aaveExact info.base x }
        (subBase aaveExact (subBase aaveExact info.base x) y) =
      borAfterSub bor tok info (subBase aaveExact info.base (x + y)) := by
  have e : subBase aaveExact (subBase aaveExact info.base x) y = subBase aaveExact info.base (x + y) := by
    apply aave_subBase_congr
    rw [aave_subBase_ne_zero h1]; ring
  rw [e]
  unfold borAfterSub
  simp only [h1, if_false]
  split
  · exact erase_set _ _ _
  · rw [aset_aset]

theorem aave_swap_exact {f t : String} {a x : Rat} (h : swapAmount aaveExact env f t a = .ok x) :
    ∃ pf pt, env.priceOf f = .ok pf ∧ env.priceOf t = .ok pt ∧ pt ≠ 0 ∧ x = a * pf / pt := by
  unfold swapAmount at h
  cases hpf : env.priceOf f with
  | error e => rw [hpf] at h; cases h
  | ok pf =>
    cases hpt : env.priceOf t with
    | error e => rw [hpf, hpt] at h; cases h
    | ok pt =>
      rw [hpf, hpt] at h
      have hin : divE aaveExact (aaveExact.mul (aaveExact.mul a 1) pf) pt = .ok x := h
      obtain ⟨hnz, hx⟩ := divE_ok_eq hin
      simp only [aaveExact_mul, aaveExact_div, mul_one] at hx
      exact ⟨pf, pt, rfl, rfl, hnz, hx⟩

/-- the amount a repayment out of collateral settles on, in exact arithmetic: `a0`, or the counter-value `S·pc/pb` of the whole
    collateral balance `S` when `a0` is worth more than that (`a0·pb/pc > S`) -/
theorem aave_capped_exact {tok ctok : String} {a0 p : Rat} {cinfo : SupplyInfo} {cst : TokStatus} {pb pc : Rat}
    (hpb : env.priceOf tok = .ok pb) (hpc : env.priceOf ctok = .ok pc)
    (h : CappedPayback aaveExact env tok ctok a0 cinfo cst p) :
    (a0 * pb / pc > cinfo.base * cst.liqIdx ∧ pb ≠ 0 ∧ p = cinfo.base * cst.liqIdx * pc / pb) ∨
    (¬ a0 * pb / pc > cinfo.base * cst.liqIdx ∧ p = a0) := by
  obtain ⟨need, hneed, hcase⟩ := h
  obtain ⟨pf, pt, h1, h2, _, hx⟩ := aave_swap_exact hneed
  rw [hpb] at h1; rw [hpc] at h2; cases h1; cases h2
  subst hx
  simp only [aaveExact_mul] at hcase
  rcases hcase with ⟨hc, hs⟩ | ⟨hc, hp⟩
  · obtain ⟨pf, pt, h1, h2, hnz, hx⟩ := aave_swap_exact hs
    rw [hpc] at h1; rw [hpb] at h2; cases h1; cases h2
    exact Or.inl ⟨hc, hnz, hx⟩
  · exact Or.inr ⟨hc, hp⟩

/-- **repay-with-collateral(a) ; repay-with-collateral(b) = repay-with-collateral(a + b)** (same collateral token, all three
    accepted, coherent start state, exact arithmetic): the same debts, the same supplies (also when a repayment is capped by
    what the collateral supply holds: then the pieces `a` and `S·pc/pb − a` add up to the capped whole, and when the dust rule
    of `sub_base_amount` deletes the debt or the collateral entry at the end), and the wallet is never touched. -/
theorem C10_repay_collateral_split {s s1 s2 s12 : St} (hs : Good aaveExact env s) {tok : String} {a b : Rat}
    {ct : Option String}
    (h1 : repay aaveExact env tok (some a) true ct s = (.ok (), s1))
    (h2 : repay aaveExact env tok (some b) true ct s1 = (.ok (), s2))
    (h12 : repay aaveExact env tok (some (a + b)) true ct s = (.ok (), s12)) :
    s2.borrows = s12.borrows ∧ s2.supplies = s12.supplies ∧ s2.wallet = s.wallet ∧ s12.wallet = s.wallet := by
  have hs1 : Good aaveExact env s1 := by
    have := inv_repay (cx := aaveExact) (env := env) tok (some a) true ct s hs
    rw [h1] at this; exact this
  obtain ⟨st, info, cinfo, cst, p1, in1, hst, hnz, hg, hci, hcst, hcnz, cap1, sw1, k1⟩ := repay_coll_inv hs h1
  obtain ⟨st', info1, cinfo1, cst', p2, in2, hst', _, hg1, hci1, hcst', _, cap2, sw2, k2⟩ := repay_coll_inv hs1 h2
  obtain ⟨st'', info', cinfo', cst'', p12, in12, hst'', _, hg', hci', hcst'', _, cap12, sw12, k12⟩ := repay_coll_inv hs h12
  rw [hst] at hst' hst''; cases hst'; cases hst''
  rw [hcst] at hcst' hcst''; cases hcst'; cases hcst''
  rw [hg] at hg'; cases hg'
  rw [hci] at hci'; cases hci'
  obtain ⟨pb, pc, hpb, hpc, hpcnz, ein1⟩ := aave_swap_exact sw1
  obtain ⟨_, _, hpb', hpc', _, ein2⟩ := aave_swap_exact sw2
  obtain ⟨_, _, hpb'', hpc'', _, ein12⟩ := aave_swap_exact sw12
  rw [hpb] at hpb' hpb''; rw [hpc] at hpc' hpc''; cases hpb'; cases hpc'; cases hpb''; cases hpc''
  simp only [Option.getD_some] at cap1 cap2 cap12
  have c1 := aave_capped_exact hpb hpc cap1
  have c2 := aave_capped_exact hpb hpc cap2
  have c12 := aave_capped_exact hpb hpc cap12
  simp only [aaveExact_div, aaveExact_mul] at k1 k2 k12
  have e1s : s1.supplies = _ := congrArg Core.supplies k1
  have e1b : s1.borrows = _ := congrArg Core.borrows k1
  -- after the first repayment both entries are still there (the second call found them)
  have hcnb1 : subBase aaveExact cinfo.base (in1 / cst.liqIdx) ≠ 0 := by
    intro e
    rw [e1s, e] at hci1
    unfold supAfterSub at hci1
    simp only [if_true] at hci1
    rw [aget_erase_self'] at hci1; cases hci1
  have hnb1 : subBase aaveExact info.base (p1 / st.varIdx) ≠ 0 := by
    intro e
    rw [e1b, e] at hg1
    unfold borAfterSub at hg1
    simp only [if_true] at hg1
    rw [aget_erase_self'] at hg1; cases hg1
  have hcinfo1 : cinfo1 = { cinfo with base := subBase aaveExact cinfo.base (in1 / cst.liqIdx) } := by
    rw [e1s] at hci1
    unfold supAfterSub at hci1
    simp only [hcnb1, if_false, aget_set_self, Option.some.injEq] at hci1
    exact hci1.symm
  have hinfo1 : info1 = { info with base := subBase aaveExact info.base (p1 / st.varIdx) } := by
    rw [e1b] at hg1
    unfold borAfterSub at hg1
    simp only [hnb1, if_false, aget_set_self, Option.some.injEq] at hg1
    exact hg1.symm
  -- the first repayment was not capped: a capped one takes the whole collateral supply
  have hp1 : p1 = a := by
    rcases c1 with ⟨_, hpbnz, e⟩ | ⟨_, e⟩
    · exfalso
      apply hcnb1
      have : cinfo.base - in1 / cst.liqIdx = 0 := by rw [ein1, e]; field_simp; ring
      rcases aave_subBase_cases cinfo.base (in1 / cst.liqIdx) with ⟨_, h0⟩ | ⟨hge, _, _⟩
      · exact h0
      · rw [this] at hge; exact absurd aave_minToken_pos (not_lt.mpr hge)
    · exact e
  have hcb1 : cinfo1.base = cinfo.base - a * pb / pc / cst.liqIdx := by
    rw [hcinfo1]; show subBase aaveExact cinfo.base (in1 / cst.liqIdx) = _
    rw [aave_subBase_ne_zero hcnb1, ein1, hp1]
  -- the pieces add up
  have hsum : p1 + p2 = p12 := by
    rw [hp1]
    rw [hcb1] at c2
    have hS1 : (cinfo.base - a * pb / pc / cst.liqIdx) * cst.liqIdx = cinfo.base * cst.liqIdx - a * pb / pc := by
      field_simp
    rw [hS1] at c2
    have hadd : (a + b) * pb / pc = a * pb / pc + b * pb / pc := by field_simp
    rcases c2 with ⟨hc2, hpbnz, e2⟩ | ⟨hc2, e2⟩
    · rcases c12 with ⟨hc12, _, e12⟩ | ⟨hc12, _⟩
      · rw [e2, e12]; field_simp; ring
      · exfalso; apply hc12; rw [hadd]; linarith
    · rcases c12 with ⟨hc12, _, _⟩ | ⟨_, e12⟩
      · exfalso; apply hc2; rw [hadd] at hc12; linarith
      · rw [e2, e12]
  have hinsum : in1 / cst.liqIdx + in2 / cst.liqIdx = in12 / cst.liqIdx := by
    rw [ein1, ein2, ein12, ← hsum]; field_simp
  have hpsum : p1 / st.varIdx + p2 / st.varIdx = p12 / st.varIdx := by rw [← hsum]; field_simp
  have e2b : s2.borrows = borAfterSub s1.borrows tok info1 (subBase aaveExact info1.base (p2 / st.varIdx)) :=
    congrArg Core.borrows k2
  have e12b : s12.borrows = borAfterSub s.borrows tok info (subBase aaveExact info.base (p12 / st.varIdx)) :=
    congrArg Core.borrows k12
  have e1b' : s1.borrows = borAfterSub s.borrows tok info (subBase aaveExact info.base (p1 / st.varIdx)) := e1b
  have e2s : s2.supplies = supAfterSub s1.supplies (ct.getD tok) cinfo1 (subBase aaveExact cinfo1.base (in2 / cst.liqIdx)) :=
    congrArg Core.supplies k2
  have e12s : s12.supplies = supAfterSub s.supplies (ct.getD tok) cinfo (subBase aaveExact cinfo.base (in12 / cst.liqIdx)) :=
    congrArg Core.supplies k12
  have e1s' : s1.supplies = supAfterSub s.supplies (ct.getD tok) cinfo (subBase aaveExact cinfo.base (in1 / cst.liqIdx)) := e1s
  have w1 : s1.wallet = s.wallet := congrArg Core.wallet k1
  have w2 : s2.wallet = s1.wallet := congrArg Core.wallet k2
  refine ⟨?_, ?_, w2.trans w1, congrArg Core.wallet k12⟩
  · rw [e2b, e12b, e1b', hinfo1, ← hpsum]
    exact aave_borAfterSub_two _ _ _ _ _ hnb1
  · rw [e2s, e12s, e1s', hcinfo1, ← hinsum]
    exact aave_supAfterSub_two _ _ _ _ _ hcnb1

/-! ### non-vacuity: concrete accepted calls in exact arithmetic -/

def c10Env : Env :=
  { status := [("WETH", ⟨1/100, 3/100, 11/10, 12/10⟩), ("USDC", ⟨1/100, 3/100, 1, 5/4⟩)],
    price := [("WETH", 1000), ("USDC", 1)],
    risk := [("WETH", ⟨true, 8/10, 825/1000, 5/100, true⟩), ("USDC", ⟨true, 8/10, 85/100, 4/100, true⟩)],
    isOpen := true }

/-- 11 WETH in the wallet, nothing supplied yet -/
def c10St : St := { St.init with wallet := [("WETH", 11), ("USDC", 0)] }

def c10IsOk {α : Type} (r : Res α) : Bool :=
  match r with
  | .ok _ => true
  | .error _ => false

-- supply 11 WETH at index 1.1: scaled 10; borrow 5000 USDC at borrow index 1.25: scaled 4000
example : c10IsOk (step aaveExact c10Env c10St (.supply "WETH" 11 true)).1 = true := by decide +kernel
example : (step aaveExact c10Env c10St (.supply "WETH" 11 true)).2.supplies = [("WETH", ⟨10, true, 11/10⟩)] := by
  decide +kernel
example : (step aaveExact c10Env (step aaveExact c10Env c10St (.supply "WETH" 11 true)).2 (.borrow "USDC" (some 5000))).2.borrows
    = [("USDC", ⟨4000, 5/4⟩)] := by decide +kernel
-- split: 4 + 7 = 11
example : (step aaveExact c10Env (step aaveExact c10Env c10St (.supply "WETH" 4 true)).2 (.supply "WETH" 7 true)).2.supplies
    = (step aaveExact c10Env c10St (.supply "WETH" 11 true)).2.supplies := by decide +kernel
-- full withdrawal removes the entry and returns the 11 WETH
example : (step aaveExact c10Env (step aaveExact c10Env c10St (.supply "WETH" 11 true)).2 (.withdraw "WETH" none)).2.supplies = [] := by
  decide +kernel
example : (step aaveExact c10Env (step aaveExact c10Env c10St (.supply "WETH" 11 true)).2 (.withdraw "WETH" none)).2.wallet
    = [("WETH", 11), ("USDC", 0)] := by decide +kernel

-- repay: 5000 USDC borrowed above; 2000 + 3000 = 5000 (full repayment: the entry disappears, the wallet is back at 0),
-- 1000 + 1500 = 2500 (half of the scaled debt 4000 is left)
def c10Bor : St := (step aaveExact c10Env (step aaveExact c10Env c10St (.supply "WETH" 11 true)).2 (.borrow "USDC" (some 5000))).2
def c10Rep (s : St) (a : Rat) : St := (step aaveExact c10Env s (.repay "USDC" (some a) false none)).2
def c10RepC (s : St) (a : Rat) : St := (step aaveExact c10Env s (.repay "USDC" (some a) true (some "WETH"))).2
example : c10IsOk (step aaveExact c10Env c10Bor (.repay "USDC" (some 2000) false none)).1 = true := by decide +kernel
example : (c10Rep (c10Rep c10Bor 2000) 3000).borrows = [] ∧ (c10Rep c10Bor 5000).borrows = [] ∧
    (c10Rep (c10Rep c10Bor 2000) 3000).wallet = (c10Rep c10Bor 5000).wallet := by decide +kernel
example : (c10Rep (c10Rep c10Bor 1000) 1500).borrows = [("USDC", ⟨2000, 5/4⟩)] ∧
    (c10Rep c10Bor 2500).borrows = [("USDC", ⟨2000, 5/4⟩)] := by decide +kernel
example : (step aaveExact c10Env (c10Rep c10Bor 1000) (.repay "USDC" none false none)).2.core.borrows = [] := by decide +kernel
-- out of collateral: 1100 + 2200 = 3300 USDC cost 3.3 WETH = 3 scaled units of the 10 supplied
example : c10IsOk (step aaveExact c10Env c10Bor (.repay "USDC" (some 1100) true (some "WETH"))).1 = true := by decide +kernel
example : (c10RepC (c10RepC c10Bor 1100) 2200).supplies = [("WETH", ⟨7, true, 11/10⟩)] ∧
    (c10RepC c10Bor 3300).supplies = [("WETH", ⟨7, true, 11/10⟩)] ∧
    (c10RepC (c10RepC c10Bor 1100) 2200).borrows = (c10RepC c10Bor 3300).borrows := by decide +kernel

end Demeter
