/-
  C10 (continued, finding B-4) — the **interleaved accrual formula**.

  `C10_supply_accrues` covers one fresh position that is never touched again.  Here the position may be supplied to and
  withdrawn from any number of times, in bars with different indices, with anything else in between:

      get_supply(tok).amount  now  =  Σ_j a_j · I_now / I_j  −  Σ_k w_k · I_now / I_k

  where `a_j` / `w_k` are the amounts of the *accepted* `supply(tok, ·)` / `withdraw(tok, ·)` calls (`None` = the balance shown at
  that moment) and `I_j`, `I_k` the liquidity index of the bar they were made in.  The ledger `c10SupEvents` is read off the
  run: which calls were accepted is the model's own answer, the amounts and indices are the call's argument and the bar's data.

  The dust rule of `sub_base_amount` is an explicit hypothesis (`C10NoDustSnap`): an accepted withdrawal leaves a scaled
  remainder that is 0 or at least `MIN_TOKEN_VALUE` — otherwise the entry is deleted and up to `MIN_TOKEN_VALUE × I` tokens
  vanish from the sum.  Steps admitted (`C10SupLedgerStep`): any operation that does not target `tok`'s supply (other tokens,
  borrow, cash repay, reads, bar changes; accepted or rejected), `update()` that cannot liquidate (`C10QuietUpdate`),
  `supply(tok, ·)` (accepted or rejected, any state), `withdraw(tok, ·)` in a coherent state (accepted or rejected).
  NOT covered (hence the debt-side statement and these are left out, not silently included): `repay(…, repay_with_collateral)`
  paid out of `tok`'s supply and an `update()` that liquidates.  `change_collateral(tok, ·)` is a ledger step that contributes
  nothing (`aave_changeCollateral_base`: accepted, rejected or raising, it never changes the scaled balance).  The same statement for debts (`borrow` / cash `repay`) is `C10_debt_interleaved`.
-/
import Proofs.C10.Bars
import Proofs.Lemmas.AaveReject2
namespace Demeter
open Aave

/-- the scaled balance of `tok`'s supply (0 when there is no entry) -/
def c10SupBase (tok : String) (s : St) : Rat := ((AList.get? s.supplies tok).map (·.base)).getD 0
/-- the scaled debt of `tok` (0 when there is no entry) -/
def c10BorBase (tok : String) (s : St) : Rat := ((AList.get? s.borrows tok).map (·.base)).getD 0
/-- the bar's liquidity index of `tok` -/
def c10LiqIdx (env : Env) (tok : String) : Rat :=
  match env.statusOf tok with
  | .ok st => st.liqIdx
  | .error _ => 1
/-- the bar's variable borrow index of `tok` -/
def c10VarIdx (env : Env) (tok : String) : Rat :=
  match env.statusOf tok with
  | .ok st => st.varIdx
  | .error _ => 1

def c10Accepted (r : Res Val) : Bool :=
  match r with
  | .ok _ => true
  | .error _ => false

/-- the ledger line `(signed amount, index)` a step contributes to `tok`'s supply: `+a` for an accepted `supply(tok, a)`,
    `−w` for an accepted `withdraw(tok, w)` (`None`: the balance shown, `base × index`), nothing otherwise -/
def c10SupEvent (tok : String) (env : Env) (s : St) (op : Op) : List (Rat × Rat) :=
  if c10Accepted (step aaveExact env s op).1 then
    match op with
    | .supply t a _ => if t = tok then [(a, c10LiqIdx env tok)] else []
    | .withdraw t a? => if t = tok then [(-(a?.getD (c10SupBase tok s * c10LiqIdx env tok)), c10LiqIdx env tok)] else []
    | _ => []
  else []

/-- the ledger of a whole history -/
def c10SupEvents (tok : String) : St → List (Env × Op) → List (Rat × Rat)
  | _, [] => []
  | s, (env, op) :: rest => c10SupEvent tok env s op ++ c10SupEvents tok (step aaveExact env s op).2 rest

/-- `Σ a_j · I / I_j` over the signed ledger lines -/
def c10Ledger (evs : List (Rat × Rat)) (I : Rat) : Rat := (evs.map (fun p => p.1 * I / p.2)).sum

theorem c10Ledger_nil (I : Rat) : c10Ledger [] I = 0 := rfl
theorem c10Ledger_append (a b : List (Rat × Rat)) (I : Rat) : c10Ledger (a ++ b) I = c10Ledger a I + c10Ledger b I := by
  unfold c10Ledger; rw [List.map_append, List.sum_append]
theorem c10Ledger_single (a i I : Rat) : c10Ledger [(a, i)] I = a / i * I := by
  unfold c10Ledger; simp; ring

/-- the entry of `tok` exists and has scaled balance `b` -/
def C10BaseIs (tok : String) (b : Rat) (s : St) : Prop := ∃ e, AList.get? s.supplies tok = some e ∧ e.base = b

theorem aave_inv_bind_dep {I : St → Prop} {α β : Type} {m : M α} {f : α → M β} (s : St)
    (hok : ∀ a s1, m s = (.ok a, s1) → I ((f a) s1).2) (herr : ∀ e s1, m s = (.error e, s1) → I s1) :
    I ((m >>= f) s).2 := by
  rw [run_bind]
  rcases h : m s with ⟨r, s1⟩
  cases r with
  | ok a => exact hok a s1 h
  | error e => exact herr e s1 h

/-- **`change_collateral(tok, ·)` never changes the scaled balance** — accepted, rejected (health factor too low, token not
    usable as collateral) or raising inside the health-factor read: only the flag is written (and written back). -/
theorem aave_changeCollateral_base {cx : ACtx} (env : Env) (tok : String) (c : Bool) (s : St) :
    c10SupBase tok (changeCollateral cx env tok c s).2 = c10SupBase tok s := by
  have hrest : ∀ info : SupplyInfo, Inv (C10BaseIs tok info.base) (do
      checkCanCollateral env tok c
      commitFlag tok { info with coll := c }
      if !c then do
        let hf ← onError (healthFactor cx env) (fun s => (commitFlag tok info s).2)
        if hf.ltR Gen.aaveHfThreshold then do
          commitFlag tok info
          M.throw .hfLow
        else pure ()
      else pure ()
      setUpdated) := by
    intro info
    have hR : ReadInv cx env (C10BaseIs tok info.base) :=
      ReadInv.ofIgnoring (fun _ _ h => h) (fun _ _ h => h) (fun _ _ h => h) (fun _ _ h => h) (fun _ _ h => h)
    have h9 := hR.toReadInv3.healthFactor
    have hflag : ∀ i : SupplyInfo, i.base = info.base → Inv (C10BaseIs tok info.base) (commitFlag tok i) :=
      fun i hi => Inv.modify _ (fun s _ => ⟨i, aget_set_self _ _ _, hi⟩)
    have hupd : Inv (C10BaseIs tok info.base) setUpdated := Inv.modify _ (fun s hs => hs)
    refine Inv.bind (Inv.checkCanCollateral _ _ _) (fun _ => Inv.bind (hflag _ rfl) (fun _ => ?_))
    dsimp only
    split
    · refine Inv.bind (Inv.onError h9 (fun s _ => ⟨info, aget_set_self _ _ _, rfl⟩)) (fun hf => ?_)
      split
      · exact Inv.bind (hflag _ rfl) (fun _ => Inv.bind (Inv.throw _) (fun _ => hupd))
      · exact hupd
    · exact hupd
  unfold changeCollateral guardOpen lookupSupply
  refine aave_inv_bind_dep (I := fun s' => c10SupBase tok s' = c10SupBase tok s) s ?_ ?_
  · intro _ s1 h1
    obtain ⟨_, rfl⟩ := require_ok_inv h1
    refine aave_inv_bind_dep (I := fun s' => c10SupBase tok s' = c10SupBase tok s) s ?_ ?_
    · intro info s1 h2
      obtain ⟨hq, rfl⟩ := queryPos_ok_inv h2
      have hg : AList.get? s.supplies tok = some info := by
        cases hx : AList.get? s.supplies tok with
        | none => rw [hx] at hq; cases hq
        | some i => rw [hx] at hq; simp only [optRes] at hq; cases hq; rfl
      split
      · rfl
      · obtain ⟨e, he, hb⟩ := hrest info s ⟨info, hg, rfl⟩
        unfold c10SupBase
        rw [he, hg]
        exact hb
    · intro e s1 h2
      simp only [run_queryPos, Prod.mk.injEq] at h2
      rw [← h2.2]
  · intro e s1 h1
    rw [run_require] at h1
    split at h1 <;> (cases h1; try rfl)

/-- the dust rule does not fire: the scaled remainder of an accepted withdrawal is 0 or at least `MIN_TOKEN_VALUE` -/
def C10NoDustSnap (tok : String) (env : Env) (s : St) (a? : Option Rat) : Prop :=
  c10Accepted (step aaveExact env s (.withdraw tok a?)).1 = true →
    c10SupBase tok s - (a?.getD (c10SupBase tok s * c10LiqIdx env tok)) / c10LiqIdx env tok < Gen.aaveMinTokenValue →
    c10SupBase tok s - (a?.getD (c10SupBase tok s * c10LiqIdx env tok)) / c10LiqIdx env tok = 0

/-- the steps the supply ledger follows -/
def C10SupLedgerStep (tok : String) (env : Env) (s : St) (op : Op) : Prop :=
  ¬ TouchesSupply tok op ∨ (op = .update ∧ C10QuietUpdate env s) ∨ (∃ a c, op = .supply tok a c) ∨
  (∃ a?, op = .withdraw tok a? ∧ Good aaveExact env s ∧ C10NoDustSnap tok env s a?) ∨
  (∃ c, op = .changeCollateral tok c)

def C10SupLedgerRun (tok : String) : St → List (Env × Op) → Prop
  | _, [] => True
  | s, (env, op) :: rest => C10SupLedgerStep tok env s op ∧ C10SupLedgerRun tok (step aaveExact env s op).2 rest

theorem c10_unitM_ok {m : M Unit} {s s1 : St} (hm : m s = (.ok (), s1)) : unitM m s = (.ok .unit, s1) := by
  unfold unitM mapM'; rw [hm]
theorem c10_unitM_err {m : M Unit} {s s1 : St} {e : Err} (hm : m s = (.error e, s1)) : unitM m s = (.error e, s1) := by
  unfold unitM mapM'; rw [hm]

/-- one step moves the scaled balance by exactly its ledger line -/
theorem aave_supBase_step {tok : String} {env : Env} {s : St} {op : Op} (h : C10SupLedgerStep tok env s op) (I : Rat) :
    c10SupBase tok (step aaveExact env s op).2 * I = c10SupBase tok s * I + c10Ledger (c10SupEvent tok env s op) I := by
  rcases h with hn | ⟨rfl, hq⟩ | ⟨a, c, rfl⟩ | ⟨a?, rfl, hs, hsnap⟩ | ⟨c, rfl⟩
  rotate_right
  · have e1 : c10SupBase tok (step aaveExact env s (.changeCollateral tok c)).2 = c10SupBase tok s := by
      show c10SupBase tok (unitM (changeCollateral aaveExact env tok c) s).2 = _
      have : (unitM (changeCollateral aaveExact env tok c) s).2 = (changeCollateral aaveExact env tok c s).2 := by
        unfold unitM mapM'
        rcases changeCollateral aaveExact env tok c s with ⟨r, s1⟩
        cases r <;> rfl
      rw [this]; exact aave_changeCollateral_base env tok c s
    have e2 : c10SupEvent tok env s (.changeCollateral tok c) = [] := by
      unfold c10SupEvent; split <;> rfl
    rw [e1, e2, c10Ledger_nil, add_zero]
  · have e1 : c10SupBase tok (step aaveExact env s op).2 = c10SupBase tok s := by
      unfold c10SupBase; rw [C10_supply_untouched op hn env s]
    have e2 : c10SupEvent tok env s op = [] := by
      unfold c10SupEvent
      split
      · cases op with
        | supply t a c => have : t ≠ tok := fun e => hn e; simp [this]
        | withdraw t a => have : t ≠ tok := fun e => hn e; simp [this]
        | _ => rfl
      · rfl
    rw [e1, e2, c10Ledger_nil, add_zero]
  · have e1 : c10SupBase tok (step aaveExact env s .update).2 = c10SupBase tok s := by
      unfold c10SupBase; rw [(aave_quietUpdate_positions hq).1]
    have e2 : c10SupEvent tok env s .update = [] := by
      unfold c10SupEvent; split <;> rfl
    rw [e1, e2, c10Ledger_nil, add_zero]
  · rcases hm : supply aaveExact env tok a c s with ⟨r, s1⟩
    cases r with
    | error e =>
      have hstep : step aaveExact env s (.supply tok a c) = (.error e, s1) := c10_unitM_err hm
      have hcore : s1.core = s.core := by
        have := ekp_supply (cx := aaveExact) (env := env) s.core tok a c s rfl e (by rw [hm])
        rwa [hm] at this
      have e1 : c10SupBase tok s1 = c10SupBase tok s := by
        unfold c10SupBase; rw [show s1.supplies = s.supplies from congrArg Core.supplies hcore]
      have e2 : c10SupEvent tok env s (.supply tok a c) = [] := by
        unfold c10SupEvent; rw [hstep]; rfl
      rw [hstep, e2, c10Ledger_nil, add_zero]
      show c10SupBase tok s1 * I = _
      rw [e1]
    | ok u =>
      cases u
      have hstep : step aaveExact env s (.supply tok a c) = (.ok .unit, s1) := c10_unitM_ok hm
      obtain ⟨st, e, hst, he, hb, _, _, _⟩ := C10_supply_exact hm
      obtain ⟨st', _, _, _, hst', hnz, _, _, _⟩ := supply_inv hm
      rw [hst] at hst'; cases hst'
      have hidx : c10LiqIdx env tok = st.liqIdx := by unfold c10LiqIdx; rw [hst]
      have e2 : c10SupEvent tok env s (.supply tok a c) = [(a, st.liqIdx)] := by
        unfold c10SupEvent; rw [hstep, hidx]; simp [c10Accepted]
      rw [hstep, e2, c10Ledger_single]
      show c10SupBase tok s1 * I = _
      have e1 : c10SupBase tok s1 = c10SupBase tok s + a / st.liqIdx := by
        unfold c10SupBase
        rw [he]
        show e.base = _
        field_simp
        linarith
      rw [e1]; ring
  · rcases hm : withdraw aaveExact env tok a? s with ⟨r, s1⟩
    cases r with
    | error e =>
      have hstep : step aaveExact env s (.withdraw tok a?) = (.error e, s1) := c10_unitM_err hm
      have hcore : s1.core = s.core := by
        have := ekp_withdraw (cx := aaveExact) (env := env) s.core tok a? s rfl e (by rw [hm])
        rwa [hm] at this
      have e1 : c10SupBase tok s1 = c10SupBase tok s := by
        unfold c10SupBase; rw [show s1.supplies = s.supplies from congrArg Core.supplies hcore]
      have e2 : c10SupEvent tok env s (.withdraw tok a?) = [] := by
        unfold c10SupEvent; rw [hstep]; rfl
      rw [hstep, e2, c10Ledger_nil, add_zero]
      show c10SupBase tok s1 * I = _
      rw [e1]
    | ok u =>
      cases u
      have hstep : step aaveExact env s (.withdraw tok a?) = (.ok .unit, s1) := c10_unitM_ok hm
      obtain ⟨st, info, amount, hst, hg, ha, _, _, hcase, _⟩ := C10_withdraw_exact hs hm
      obtain ⟨st', _, _, _, _, hst', hnz, _⟩ := withdraw_inv hs hm
      rw [hst] at hst'; cases hst'
      have hidx : c10LiqIdx env tok = st.liqIdx := by unfold c10LiqIdx; rw [hst]
      have hbase : c10SupBase tok s = info.base := by unfold c10SupBase; rw [hg]; rfl
      have e2 : c10SupEvent tok env s (.withdraw tok a?) = [(-amount, st.liqIdx)] := by
        unfold c10SupEvent; rw [hstep, hidx, hbase]; simp [c10Accepted, ha]
      have hsn := hsnap (by rw [hstep]; rfl)
      rw [hidx, hbase, ← ha] at hsn
      rw [hstep, e2, c10Ledger_single]
      show c10SupBase tok s1 * I = _
      have e1 : c10SupBase tok s1 = info.base - amount / st.liqIdx := by
        rcases hcase with ⟨hlt, hnone⟩ | ⟨_, e, he, hb⟩
        · unfold c10SupBase; rw [hnone]
          exact (hsn hlt).symm
        · unfold c10SupBase; rw [he]
          show e.base = _
          field_simp
          linarith
      rw [e1, hbase]; ring

/-- **the interleaved formula, from any start state**: scaled balance now × `I` = scaled balance at the start × `I` +
    `Σ ±amount · I / index` over the accepted supplies / withdrawals of the history. -/
theorem C10_supply_interleaved_from {tok : String} (hist : List (Env × Op)) :
    ∀ (s : St), C10SupLedgerRun tok s hist → ∀ I : Rat,
      c10SupBase tok (runHist aaveExact s hist) * I = c10SupBase tok s * I + c10Ledger (c10SupEvents tok s hist) I := by
  induction hist with
  | nil => intro s _ I; show _ = _ + c10Ledger [] I; rw [c10Ledger_nil, add_zero]; rfl
  | cons p rest ih =>
    intro s h I
    obtain ⟨env, op⟩ := p
    obtain ⟨h1, h2⟩ := h
    show c10SupBase tok (runHist aaveExact (step aaveExact env s op).2 rest) * I =
      _ + c10Ledger (c10SupEvent tok env s op ++ c10SupEvents tok (step aaveExact env s op).2 rest) I
    rw [ih _ h2 I, aave_supBase_step h1 I, c10Ledger_append]; ring

/-- **the interleaved accrual formula**: starting without a supply of `tok`, after any admitted history the balance
    `get_supply(tok).amount = base × I_now` is `Σ_j a_j · I_now / I_j − Σ_k w_k · I_now / I_k` over the accepted supplies and
    withdrawals of `tok`, whatever the indices did in between. -/
theorem C10_supply_interleaved {tok : String} {s : St} (hnew : AList.get? s.supplies tok = none)
    (hist : List (Env × Op)) (hrun : C10SupLedgerRun tok s hist) (I : Rat) :
    c10SupBase tok (runHist aaveExact s hist) * I = c10Ledger (c10SupEvents tok s hist) I := by
  rw [C10_supply_interleaved_from hist s hrun I]
  unfold c10SupBase; rw [hnew]; simp

/-! ### the same for debts: `borrow(tok, a)` and cash `repay(tok, ·)` -/

/-- the ledger line a step contributes to `tok`'s debt: `+a` for an accepted `borrow(tok, a)`, `−p` for an accepted cash
    `repay(tok, p)` (`None`: the debt shown, `base × index`) -/
def c10BorEvent (tok : String) (env : Env) (s : St) (op : Op) : List (Rat × Rat) :=
  if c10Accepted (step aaveExact env s op).1 then
    match op with
    | .borrow t (some a) => if t = tok then [(a, c10VarIdx env tok)] else []
    | .repay t a? false _ => if t = tok then [(-(a?.getD (c10BorBase tok s * c10VarIdx env tok)), c10VarIdx env tok)] else []
    | _ => []
  else []

def c10BorEvents (tok : String) : St → List (Env × Op) → List (Rat × Rat)
  | _, [] => []
  | s, (env, op) :: rest => c10BorEvent tok env s op ++ c10BorEvents tok (step aaveExact env s op).2 rest

/-- the dust rule does not fire on an accepted cash repayment (this includes a payment inside the quantize slack above the
    debt, `C10_repay_payback_bound`: then the remainder is negative, the entry is deleted and the sum would be off by it) -/
def C10NoDebtDustSnap (tok : String) (env : Env) (s : St) (a? : Option Rat) (c : Option String) : Prop :=
  c10Accepted (step aaveExact env s (.repay tok a? false c)).1 = true →
    c10BorBase tok s - (a?.getD (c10BorBase tok s * c10VarIdx env tok)) / c10VarIdx env tok < Gen.aaveMinTokenValue →
    c10BorBase tok s - (a?.getD (c10BorBase tok s * c10VarIdx env tok)) / c10VarIdx env tok = 0

/-- the steps the debt ledger follows: anything not targeting `tok`'s debt, a quiet `update()`, `borrow(tok, some a)` (any state),
    cash `repay(tok, ·)` in a coherent state of a bar with positive indices.  Not covered: `borrow(tok, None)` (the amount is the
    helper's `get_max_borrow_amount`), `repay(tok, …, repay_with_collateral=True)` (amount capped, see
    `C10_repay_collateral_exact_pinned`), a liquidating `update()`. -/
def C10BorLedgerStep (tok : String) (env : Env) (s : St) (op : Op) : Prop :=
  ¬ TouchesBorrow tok op ∨ (op = .update ∧ C10QuietUpdate env s) ∨ (∃ a, op = .borrow tok (some a)) ∨
  (∃ a? c, op = .repay tok a? false c ∧ Good aaveExact env s ∧ AavePosIdx env ∧ C10NoDebtDustSnap tok env s a? c)

def C10BorLedgerRun (tok : String) : St → List (Env × Op) → Prop
  | _, [] => True
  | s, (env, op) :: rest => C10BorLedgerStep tok env s op ∧ C10BorLedgerRun tok (step aaveExact env s op).2 rest

theorem aave_borBase_step {tok : String} {env : Env} {s : St} {op : Op} (h : C10BorLedgerStep tok env s op) (I : Rat) :
    c10BorBase tok (step aaveExact env s op).2 * I = c10BorBase tok s * I + c10Ledger (c10BorEvent tok env s op) I := by
  rcases h with hn | ⟨rfl, hq⟩ | ⟨a, rfl⟩ | ⟨a?, c, rfl, hs, hI, hsnap⟩
  · have e1 : c10BorBase tok (step aaveExact env s op).2 = c10BorBase tok s := by
      unfold c10BorBase; rw [C10_debt_untouched op hn env s]
    have e2 : c10BorEvent tok env s op = [] := by
      unfold c10BorEvent
      split
      · cases op with
        | borrow t a =>
          have : t ≠ tok := fun e => hn e
          cases a <;> simp [this]
        | repay t a w c =>
          have : t ≠ tok := fun e => hn e
          cases w <;> simp [this]
        | _ => rfl
      · rfl
    rw [e1, e2, c10Ledger_nil, add_zero]
  · have e1 : c10BorBase tok (step aaveExact env s .update).2 = c10BorBase tok s := by
      unfold c10BorBase; rw [(aave_quietUpdate_positions hq).2]
    have e2 : c10BorEvent tok env s .update = [] := by
      unfold c10BorEvent; split <;> rfl
    rw [e1, e2, c10Ledger_nil, add_zero]
  · rcases hm : borrow aaveExact env tok (some a) s with ⟨r, s1⟩
    cases r with
    | error e =>
      have hstep : step aaveExact env s (.borrow tok (some a)) = (.error e, s1) := c10_unitM_err hm
      have hcore : s1.core = s.core := by
        have := ekp_borrow (cx := aaveExact) (env := env) s.core tok (some a) s rfl e (by rw [hm])
        rwa [hm] at this
      have e1 : c10BorBase tok s1 = c10BorBase tok s := by
        unfold c10BorBase; rw [show s1.borrows = s.borrows from congrArg Core.borrows hcore]
      have e2 : c10BorEvent tok env s (.borrow tok (some a)) = [] := by
        unfold c10BorEvent; rw [hstep]; rfl
      rw [hstep, e2, c10Ledger_nil, add_zero]
      show c10BorBase tok s1 * I = _
      rw [e1]
    | ok u =>
      cases u
      have hstep : step aaveExact env s (.borrow tok (some a)) = (.ok .unit, s1) := c10_unitM_ok hm
      obtain ⟨st, e, amount, hst, ha, _, he, hb, _, _, _, _⟩ := C10_borrow_exact hm
      obtain ⟨_, st', _, _, _, hst', hnz, _⟩ := borrow_inv hm
      rw [hst] at hst'; cases hst'
      have : amount = a := ha a rfl
      subst this
      have hidx : c10VarIdx env tok = st.varIdx := by unfold c10VarIdx; rw [hst]
      have e2 : c10BorEvent tok env s (.borrow tok (some amount)) = [(amount, st.varIdx)] := by
        unfold c10BorEvent; rw [hstep, hidx]; simp [c10Accepted]
      rw [hstep, e2, c10Ledger_single]
      show c10BorBase tok s1 * I = _
      have e1 : c10BorBase tok s1 = c10BorBase tok s + amount / st.varIdx := by
        unfold c10BorBase
        rw [he]
        show e.base = _
        field_simp
        linarith
      rw [e1]; ring
  · rcases hm : repay aaveExact env tok a? false c s with ⟨r, s1⟩
    cases r with
    | error e =>
      have hstep : step aaveExact env s (.repay tok a? false c) = (.error e, s1) := c10_unitM_err hm
      have hcore : s1.core = s.core := by
        have := ekp_repay (cx := aaveExact) (env := env) s.core tok a? false c s rfl e (by rw [hm])
        rwa [hm] at this
      have e1 : c10BorBase tok s1 = c10BorBase tok s := by
        unfold c10BorBase; rw [show s1.borrows = s.borrows from congrArg Core.borrows hcore]
      have e2 : c10BorEvent tok env s (.repay tok a? false c) = [] := by
        unfold c10BorEvent; rw [hstep]; rfl
      rw [hstep, e2, c10Ledger_nil, add_zero]
      show c10BorBase tok s1 * I = _
      rw [e1]
    | ok u =>
      cases u
      have hstep : step aaveExact env s (.repay tok a? false c) = (.ok .unit, s1) := c10_unitM_ok hm
      obtain ⟨st, info, payback, hst, hg, hp, _, hcase, _⟩ := C10_repay_exact hI hs hm
      have hnz : st.varIdx ≠ 0 := ne_of_gt (hI tok st hst).2
      have hidx : c10VarIdx env tok = st.varIdx := by unfold c10VarIdx; rw [hst]
      have hbase : c10BorBase tok s = info.base := by unfold c10BorBase; rw [hg]; rfl
      have e2 : c10BorEvent tok env s (.repay tok a? false c) = [(-payback, st.varIdx)] := by
        unfold c10BorEvent; rw [hstep, hidx, hbase]; simp [c10Accepted, hp]
      have hsn := hsnap (by rw [hstep]; rfl)
      rw [hidx, hbase, ← hp] at hsn
      rw [hstep, e2, c10Ledger_single]
      show c10BorBase tok s1 * I = _
      have e1 : c10BorBase tok s1 = info.base - payback / st.varIdx := by
        rcases hcase with ⟨hlt, hnone⟩ | ⟨_, e, he, hb⟩
        · unfold c10BorBase; rw [hnone]
          exact (hsn hlt).symm
        · unfold c10BorBase; rw [he]
          show e.base = _
          field_simp
          linarith
      rw [e1, hbase]; ring

theorem C10_debt_interleaved_from {tok : String} (hist : List (Env × Op)) :
    ∀ (s : St), C10BorLedgerRun tok s hist → ∀ I : Rat,
      c10BorBase tok (runHist aaveExact s hist) * I = c10BorBase tok s * I + c10Ledger (c10BorEvents tok s hist) I := by
  induction hist with
  | nil => intro s _ I; show _ = _ + c10Ledger [] I; rw [c10Ledger_nil, add_zero]; rfl
  | cons p rest ih =>
    intro s h I
    obtain ⟨env, op⟩ := p
    obtain ⟨h1, h2⟩ := h
    show c10BorBase tok (runHist aaveExact (step aaveExact env s op).2 rest) * I =
      _ + c10Ledger (c10BorEvent tok env s op ++ c10BorEvents tok (step aaveExact env s op).2 rest) I
    rw [ih _ h2 I, aave_borBase_step h1 I, c10Ledger_append]; ring

/-- **the interleaved formula for a debt**: `get_borrow(tok).amount = base × I_now = Σ_j b_j · I_now / I_j − Σ_k p_k · I_now / I_k`
    over the accepted borrows and cash repayments of `tok` (variable borrow index). -/
theorem C10_debt_interleaved {tok : String} {s : St} (hnew : AList.get? s.borrows tok = none)
    (hist : List (Env × Op)) (hrun : C10BorLedgerRun tok s hist) (I : Rat) :
    c10BorBase tok (runHist aaveExact s hist) * I = c10Ledger (c10BorEvents tok s hist) I := by
  rw [C10_debt_interleaved_from hist s hrun I]
  unfold c10BorBase; rw [hnew]; simp

/-! ### coherence comes from C13: histories made of whole bars -/

/-- bar discipline of a run seen from a state coherent for bar `env`: an operation belongs to the current bar, a bar change
    `(env', .newBar)` goes to a bar with complete non-zero data that lists the tokens held -/
def C10BarDiscipline (env env' : Env) (s : St) (op : Op) : Prop :=
  if op = .newBar then EnvOK env' ∧ EnvPos env' ∧ Covers env' s.supplies ∧ Covers env' s.borrows else env' = env

theorem aave_barDiscipline_next {env env' : Env} {s : St} {op : Op} (hE : EnvOK env) (hP : EnvPos env)
    (hs : Good aaveExact env s) (h : C10BarDiscipline env env' s op) :
    EnvOK env' ∧ EnvPos env' ∧ Good aaveExact env' (step aaveExact env' s op).2 ∧ (op = .newBar ∨ Good aaveExact env' s) := by
  unfold C10BarDiscipline at h
  by_cases hop : op = .newBar
  · subst hop
    simp only [if_true] at h
    exact ⟨h.1, h.2.1, C13_newBar_coherent s hs h.2.2.1 h.2.2.2, Or.inl rfl⟩
  · simp only [hop, if_false] at h
    subst h
    exact ⟨hE, hP, C13_step_coherent hE hP s hs op hop, Or.inr hs⟩

/-- a whole run for the supply ledger: bar discipline, and each step is a ledger step — where the `Good` that `withdraw` /
    `update()` steps ask for may be assumed (it is what C13 proves of the state reached) -/
def C10SupLedgerRunOK (tok : String) : Env → St → List (Env × Op) → Prop
  | _, _, [] => True
  | env, s, (env', op) :: rest =>
      C10BarDiscipline env env' s op ∧ ((op = .newBar ∨ Good aaveExact env' s) → C10SupLedgerStep tok env' s op) ∧
      C10SupLedgerRunOK tok env' (step aaveExact env' s op).2 rest

def C10BorLedgerRunOK (tok : String) : Env → St → List (Env × Op) → Prop
  | _, _, [] => True
  | env, s, (env', op) :: rest =>
      C10BarDiscipline env env' s op ∧ ((op = .newBar ∨ Good aaveExact env' s) → C10BorLedgerStep tok env' s op) ∧
      C10BorLedgerRunOK tok env' (step aaveExact env' s op).2 rest

theorem aave_ledgerRunOK {tok : String} (hist : List (Env × Op)) :
    ∀ (env : Env) (s : St), EnvOK env → EnvPos env → Good aaveExact env s →
      (C10SupLedgerRunOK tok env s hist → C10SupLedgerRun tok s hist) ∧
      (C10BorLedgerRunOK tok env s hist → C10BorLedgerRun tok s hist) := by
  induction hist with
  | nil => intro _ _ _ _ _; exact ⟨fun _ => trivial, fun _ => trivial⟩
  | cons p rest ih =>
    intro env s hE hP hs
    obtain ⟨env', op⟩ := p
    constructor
    · intro ⟨hd, hstep, hrest⟩
      obtain ⟨hE', hP', hs', hg⟩ := aave_barDiscipline_next hE hP hs hd
      exact ⟨hstep hg, (ih env' _ hE' hP' hs').1 hrest⟩
    · intro ⟨hd, hstep, hrest⟩
      obtain ⟨hE', hP', hs', hg⟩ := aave_barDiscipline_next hE hP hs hd
      exact ⟨hstep hg, (ih env' _ hE' hP' hs').2 hrest⟩

/-- **the interleaved accrual formula over a whole run**: start from a coherent state (e.g. the empty market) without a supply
    of `tok`; no coherence hypothesis inside the run. -/
theorem C10_supply_interleaved_run {env0 : Env} {tok : String} {s : St} (hE : EnvOK env0) (hP : EnvPos env0)
    (hs : Good aaveExact env0 s) (hnew : AList.get? s.supplies tok = none)
    (hist : List (Env × Op)) (hrun : C10SupLedgerRunOK tok env0 s hist) (I : Rat) :
    c10SupBase tok (runHist aaveExact s hist) * I = c10Ledger (c10SupEvents tok s hist) I :=
  C10_supply_interleaved hnew hist ((aave_ledgerRunOK hist env0 s hE hP hs).1 hrun) I

theorem C10_debt_interleaved_run {env0 : Env} {tok : String} {s : St} (hE : EnvOK env0) (hP : EnvPos env0)
    (hs : Good aaveExact env0 s) (hnew : AList.get? s.borrows tok = none)
    (hist : List (Env × Op)) (hrun : C10BorLedgerRunOK tok env0 s hist) (I : Rat) :
    c10BorBase tok (runHist aaveExact s hist) * I = c10Ledger (c10BorEvents tok s hist) I :=
  C10_debt_interleaved hnew hist ((aave_ledgerRunOK hist env0 s hE hP hs).2 hrun) I

/-! ### non-vacuity: 11 WETH supplied at index 1.1, a bar later (index 1.21) 12.1 more, then 6.05 withdrawn -/

def c10iSt : St := { St.init with wallet := [("WETH", 30), ("USDC", 0)] }
def c10iHist : List (Env × Op) :=
  [(c10bEnv0, .supply "WETH" 11 true), (c10bEnv0, .update), (c10bEnv1, .newBar), (c10bEnv1, .supply "WETH" (121/10) true),
   (c10bEnv1, .supply "WETH" 1000 true), (c10bEnv1, .read .healthFactor), (c10bEnv1, .withdraw "WETH" (some (605/100)))]

theorem c10i_good_init (env : Env) : Good aaveExact env c10iSt :=
  ⟨⟨List.nodup_nil, fun _ h => absurd h (by simp [c10iSt, St.init, keys]), CohC.fresh _, CohC.fresh _, CohC.fresh _⟩,
   ⟨List.nodup_nil, fun _ h => absurd h (by simp [c10iSt, St.init, keys]), CohC.fresh _, CohC.fresh _⟩⟩

/-- the ledger read off the run: two deposits and one withdrawal (the 1000 WETH supply is refused: the wallet holds 30) … -/
example : c10SupEvents "WETH" c10iSt c10iHist = [(11, 11/10), (121/10, 121/100), (-(605/100), 121/100)] := by decide +kernel
/-- … the run is admitted … -/
example : C10SupLedgerRun "WETH" c10iSt c10iHist := by
  have hE0 := c10b_envOK c10bEnv0 (Or.inl rfl)
  have hE1 := c10b_envOK c10bEnv1 (Or.inr rfl)
  have g0 := c10i_good_init c10bEnv0
  have g1 := C13_step_coherent hE0.1 hE0.2 _ g0 (.supply "WETH" 11 true) (by simp)
  have g2 := C13_step_coherent hE0.1 hE0.2 _ g1 .update (by simp)
  have hd : ∀ k, k = "WETH" ∨ k = "USDC" → HasData c10bEnv1 k := by
    intro k hk
    rcases hk with h | h <;> subst h <;> exact ⟨⟨_, rfl⟩, ⟨_, rfl⟩, ⟨_, rfl⟩⟩
  have g3 := C13_newBar_coherent (env' := c10bEnv1) _ g2
    (by intro k hk
        have : keys (step aaveExact c10bEnv0 (step aaveExact c10bEnv0 c10iSt (.supply "WETH" 11 true)).2 .update).2.supplies = ["WETH"] := by
          decide +kernel
        rw [this] at hk; simp at hk; exact hd k (Or.inl hk))
    (by intro k hk
        have : keys (step aaveExact c10bEnv0 (step aaveExact c10bEnv0 c10iSt (.supply "WETH" 11 true)).2 .update).2.borrows = [] := by
          decide +kernel
        rw [this] at hk; simp at hk)
  have g4 := C13_step_coherent hE1.1 hE1.2 _ g3 (.supply "WETH" (121/10) true) (by simp)
  have g5 := C13_step_coherent hE1.1 hE1.2 _ g4 (.supply "WETH" 1000 true) (by simp)
  have g6 := C13_step_coherent hE1.1 hE1.2 _ g5 (.read .healthFactor) (by simp)
  refine ⟨Or.inr (Or.inr (Or.inl ⟨_, _, rfl⟩)), Or.inr (Or.inl ⟨rfl, Or.inr ⟨g1, rfl, by unfold C10HfOutside; decide +kernel⟩⟩),
    Or.inl (by simp [TouchesSupply]), Or.inr (Or.inr (Or.inl ⟨_, _, rfl⟩)), Or.inr (Or.inr (Or.inl ⟨_, _, rfl⟩)),
    Or.inl (by simp [TouchesSupply]), Or.inr (Or.inr (Or.inr (Or.inl ⟨_, rfl, g6, ?_⟩))), trivial⟩
  intro _ hlt
  exact absurd hlt (by decide +kernel)
/-- the same run satisfies the hypothesis of `C10_supply_interleaved_run` (no `Good` to establish by hand) -/
example : C10SupLedgerRunOK "WETH" c10bEnv0 c10iSt c10iHist := by
  have hE1 := c10b_envOK c10bEnv1 (Or.inr rfl)
  have hd : ∀ k, k = "WETH" ∨ k = "USDC" → HasData c10bEnv1 k := by
    intro k hk
    rcases hk with h | h <;> subst h <;> exact ⟨⟨_, rfl⟩, ⟨_, rfl⟩, ⟨_, rfl⟩⟩
  refine ⟨rfl, fun _ => Or.inr (Or.inr (Or.inl ⟨_, _, rfl⟩)), rfl,
    fun hg => Or.inr (Or.inl ⟨rfl, Or.inr ⟨hg.resolve_left (by simp), rfl, by unfold C10HfOutside; decide +kernel⟩⟩),
    ⟨hE1.1, hE1.2, ?_, ?_⟩, fun _ => Or.inl (by simp [TouchesSupply]),
    rfl, fun _ => Or.inr (Or.inr (Or.inl ⟨_, _, rfl⟩)), rfl, fun _ => Or.inr (Or.inr (Or.inl ⟨_, _, rfl⟩)),
    rfl, fun _ => Or.inl (by simp [TouchesSupply]),
    rfl, fun hg => Or.inr (Or.inr (Or.inr (Or.inl ⟨_, rfl, hg.resolve_left (by simp), ?_⟩))), trivial⟩
  · intro k hk
    have : keys (step aaveExact c10bEnv0 (step aaveExact c10bEnv0 c10iSt (.supply "WETH" 11 true)).2 .update).2.supplies = ["WETH"] := by
      decide +kernel
    rw [this] at hk; simp at hk; exact hd k (Or.inl hk)
  · intro k hk
    have : keys (step aaveExact c10bEnv0 (step aaveExact c10bEnv0 c10iSt (.supply "WETH" 11 true)).2 .update).2.borrows = [] := by
      decide +kernel
    rw [this] at hk; simp at hk
  · intro _ hlt
    exact absurd hlt (by decide +kernel)
/-- … and the formula gives the balance: scaled 10 + 10 − 5 = 15, i.e. 18.15 WETH at index 1.21 -/
example : c10Ledger (c10SupEvents "WETH" c10iSt c10iHist) (121/100) = 1815/100 ∧
    c10SupBase "WETH" (runHist aaveExact c10iSt c10iHist) * (121/100) = 1815/100 := by decide +kernel

/-- `change_collateral` as a ledger step: the flag of the 11 WETH supply (scaled 10) is switched off, the scaled balance stays 10 -/
example : C10SupLedgerStep "WETH" c10bEnv0 c10bS1 (.changeCollateral "WETH" false) ∧
    (step aaveExact c10bEnv0 c10bS1 (.changeCollateral "WETH" false)).2.supplies = [("WETH", ⟨10, false, 11/10⟩)] ∧
    c10SupBase "WETH" (step aaveExact c10bEnv0 c10bS1 (.changeCollateral "WETH" false)).2 = 10 :=
  ⟨Or.inr (Or.inr (Or.inr (Or.inr ⟨_, rfl⟩))), by decide +kernel, by decide +kernel⟩

end Demeter
