/-
  C12 — Aave liquidation, the loop: theorems about `Demeter.AaveRisk.liquidate` (= `AaveV3Market.update()` →
  `_liquidate`, as repaired: the loop ends once no unvisited debt is left; debts of any size are candidates).

  * `∀ cx` (any rounding): the fuel `#debts + 1` of the model never runs out, every debt token is visited at most
    once, every recorded action belongs to a visited debt, the loop can only end with "not (0 < HF < 1)" or "every
    remaining debt visited" (or an exception), nothing happens unless `0 < HF < 1`.
  * exact context, well-formed portfolio: no exception leaves `update()`, the portfolio stays well formed, and the
    recorded actions are a chain of successful `_do_liquidate` steps each taken while `0 < HF < 1`, to which the step
    theorems of `Proofs/C12.lean` apply.
-/
import Proofs.C12
import Proofs.Lemmas.AaveRiskLoop
namespace Demeter
open AaveRisk

namespace AaveRisk

/-- the actions recorded by the loop as a chain of successful steps -/
inductive Trace : Portfolio → List LiqAction → Portfolio → Prop
  | nil (p : Portfolio) : Trace p [] p
  | step {p : Portfolio} {c : Supply} {d : Debt} {p' : Portfolio} {a : LiqAction} {as : List LiqAction} {p'' : Portfolio} :
      liqCond NumCtx.exact p = true → StepOk p c d (d.value NumCtx.exact) p' a → Trace p' as p'' → Trace p (a :: as) p''

theorem keys_debts_done {cx : NumCtx} {p : Portfolio} {c : Supply} {d : Debt} {v : Rat} {p' : Portfolio} {a : LiqAction}
    (h : doLiquidate cx p c d v = .done p' a) : (p'.debts.map (·.tok)).Sublist (p.debts.map (·.tok)) := by
  obtain ⟨_, ⟨y, hy⟩, _, _⟩ := doLiquidate_done_shape h
  rw [hy]; exact keys_putDebtBase_sublist _ _ _

/-- invariants of the loop that do not depend on the arithmetic -/
theorem liqLoop_inv (cx : NumCtx) : ∀ (fuel : Nat) (p : Portfolio) (vis : List String) (acts : List LiqAction),
    unv (p.debts.map (·.tok)) vis ≤ fuel → vis.Nodup → ((acts.map (·.debtTok)).Sublist vis) →
    (liqLoop cx fuel p vis acts).outOfFuel = false
    ∧ (liqLoop cx fuel p vis acts).visited.Nodup
    ∧ (((liqLoop cx fuel p vis acts).actions.map (·.debtTok)).Sublist (liqLoop cx fuel p vis acts).visited)
    ∧ (liqLoop cx fuel p vis acts).visited.length ≤ vis.length + unv (p.debts.map (·.tok)) vis
    ∧ ((liqLoop cx fuel p vis acts).err = none →
        liqCond cx (liqLoop cx fuel p vis acts).p = false
        ∨ ∀ d ∈ (liqLoop cx fuel p vis acts).p.debts, d.tok ∈ (liqLoop cx fuel p vis acts).visited) := by
  intro fuel
  induction fuel with
  | zero =>
    intro p vis acts hf hn hs
    by_cases hc : liqCond cx p = true
    · cases hpd : pickDebt cx p.debts vis with
      | none =>
        have key : liqLoop cx 0 p vis acts = ⟨p, acts, vis, none, false⟩ := by
          rw [liqLoop_eq]; simp [hc, hpd]
        rw [key]
        exact ⟨rfl, hn, hs, by simp, fun _ => Or.inr (pickDebt_none hpd)⟩
      | some x =>
        obtain ⟨d, v⟩ := x
        obtain ⟨hd, hv, _⟩ := pickDebt_some hpd
        have := unv_visit (List.mem_map_of_mem (f := (·.tok)) hd) hv
        omega
    · simp only [Bool.not_eq_true] at hc
      have key : liqLoop cx 0 p vis acts = ⟨p, acts, vis, none, false⟩ := by
        rw [liqLoop_eq]; simp [hc]
      rw [key]
      exact ⟨rfl, hn, hs, by simp, fun _ => Or.inl hc⟩
  | succ k ih =>
    intro p vis acts hf hn hs
    by_cases hc : liqCond cx p = true
    · cases hpd : pickDebt cx p.debts vis with
      | none =>
        have key : liqLoop cx (k + 1) p vis acts = ⟨p, acts, vis, none, false⟩ := by
          rw [liqLoop_eq]; simp [hc, hpd]
        rw [key]
        exact ⟨rfl, hn, hs, by simp, fun _ => Or.inr (pickDebt_none hpd)⟩
      | some x =>
        obtain ⟨d, v⟩ := x
        obtain ⟨hd, hv, _⟩ := pickDebt_some hpd
        have hvisit := unv_visit (List.mem_map_of_mem (f := (·.tok)) hd) hv
        have hn' : (vis ++ [d.tok]).Nodup := by
          rw [List.nodup_append]
          refine ⟨hn, by simp, ?_⟩
          intro a ha b hb e
          simp only [List.mem_singleton] at hb
          subst hb; subst e
          exact hv ha
        have hs' : ((acts.map (·.debtTok)).Sublist (vis ++ [d.tok])) := hs.trans (List.sublist_append_left _ _)
        cases hpc : (pickColl cx p.supplies).1 with
        | none =>
          have key : liqLoop cx (k + 1) p vis acts = ⟨p, acts, vis ++ [d.tok], some .attribute, false⟩ := by
            rw [liqLoop_eq]; simp [hc, hpd, hpc]
          rw [key]
          refine ⟨rfl, hn', hs', ?_, fun h => by cases h⟩
          simp only [List.length_append, List.length_singleton]; omega
        | some c =>
          cases hdo : doLiquidate cx p c d v with
          | done p' a =>
            have key : liqLoop cx (k + 1) p vis acts = liqLoop cx k p' (vis ++ [d.tok]) (acts ++ [a]) := by
              rw [liqLoop_eq]; simp [hc, hpd, hpc, hdo]
            rw [key]
            have hk := keys_debts_done hdo
            have hf' : unv (p'.debts.map (·.tok)) (vis ++ [d.tok]) ≤ k := by
              have := unv_sublist hk (vis ++ [d.tok]); omega
            have hs'' : (((acts ++ [a]).map (·.debtTok)).Sublist (vis ++ [d.tok])) := by
              rw [List.map_append]
              have : a.debtTok = d.tok := (doLiquidate_done_shape hdo).2.2.1
              simp only [List.map_cons, List.map_nil, this]
              exact hs.append (List.Sublist.refl _)
            obtain ⟨h1, h2, h3, h4, h5⟩ := ih p' (vis ++ [d.tok]) (acts ++ [a]) hf' hn' hs''
            refine ⟨h1, h2, h3, ?_, h5⟩
            have := unv_sublist hk (vis ++ [d.tok])
            simp only [List.length_append, List.length_singleton] at h4; omega
          | rejected =>
            have key : liqLoop cx (k + 1) p vis acts = liqLoop cx k p (vis ++ [d.tok]) acts := by
              rw [liqLoop_eq]; simp [hc, hpd, hpc, hdo]
            rw [key]
            have hf' : unv (p.debts.map (·.tok)) (vis ++ [d.tok]) ≤ k := by omega
            obtain ⟨h1, h2, h3, h4, h5⟩ := ih p (vis ++ [d.tok]) acts hf' hn' hs'
            refine ⟨h1, h2, h3, ?_, h5⟩
            simp only [List.length_append, List.length_singleton] at h4; omega
          | raised e q =>
            have key : liqLoop cx (k + 1) p vis acts = ⟨q, acts, vis ++ [d.tok], some e, false⟩ := by
              rw [liqLoop_eq]; simp [hc, hpd, hpc, hdo]
            rw [key]
            refine ⟨rfl, hn', hs', ?_, fun h => by cases h⟩
            simp only [List.length_append, List.length_singleton]; omega
    · simp only [Bool.not_eq_true] at hc
      have key : liqLoop cx (k + 1) p vis acts = ⟨p, acts, vis, none, false⟩ := by
        rw [liqLoop_eq]; simp [hc]
      rw [key]
      exact ⟨rfl, hn, hs, by simp, fun _ => Or.inl hc⟩

/-! ### exact context, well-formed portfolios -/

theorem liqCond_exact {p : Portfolio} (h : liqCond NumCtx.exact p = true) :
    ∃ x, healthFactor NumCtx.exact p = some x ∧ 0 < x ∧ x < 1 := by
  unfold liqCond at h
  cases hh : healthFactor NumCtx.exact p with
  | none => rw [hh] at h; simp [XRat.ltB] at h
  | some x =>
    rw [hh] at h
    simp only [XRat.gtB, XRat.ltB, Gen.arHfLiqThreshold, Bool.and_eq_true, decide_eq_true_eq] at h
    exact ⟨x, rfl, h.1, by simpa using h.2⟩

theorem weightedLt_exact (p : Portfolio) :
    weightedLt NumCtx.exact p = ((collaterals p).map (fun s => s.value NumCtx.exact * s.row.lt)).sum := by
  unfold weightedLt; rw [dsum_exact]; rfl

theorem totalDebt_exact (p : Portfolio) : totalDebt NumCtx.exact p = (p.debts.map (fun d => d.value NumCtx.exact)).sum := by
  unfold totalDebt; rw [dsum_exact]

/-- under the loop condition some collateral can be picked -/
theorem pickColl_ne_none {p : Portfolio} (hwf : p.WF) (h : liqCond NumCtx.exact p = true) :
    (pickColl NumCtx.exact p.supplies).1 ≠ none := by
  intro hn
  have hneg := pickColl_none hn
  have hnil : collaterals p = [] := by
    unfold collaterals
    rw [List.filter_eq_nil_iff]
    intro s hs hc
    have := hneg s hs hc
    have := hwf.supply_value_nonneg hs
    linarith
  obtain ⟨x, hx, hx0, _⟩ := liqCond_exact h
  unfold healthFactor safeDiv at hx
  rw [weightedLt_exact, hnil] at hx
  split at hx
  · cases hx
  · simp at hx; linarith

theorem doLiquidate_not_raised {p : Portfolio} {c : Supply} {d : Debt} {cover : Rat} (hwf : p.WF)
    (hc : c ∈ p.supplies) (hd : d ∈ p.debts) (hcover : 0 ≤ cover) (e : Exc) (q : Portfolio) :
    doLiquidate NumCtx.exact p c d cover ≠ .raised e q := by
  obtain ⟨hcb, hcr, _⟩ := hwf.sup c hc
  obtain ⟨hdb, hdr⟩ := hwf.deb d hd
  have hf := step_facts p hcb hcr hdb hdr hcover
  have hli := hcr.li_pos; have hpc := hcr.price_pos; have hb := hcr.bonus_nonneg
  have hbi := hdr.bi_pos; have hpd := hdr.price_pos
  obtain ⟨_, hcf1⟩ := stepCf_bounds p
  rw [doLiquidate_exact_eq]
  split; · intro h; cases h
  split; · intro h; cases h
  split; · rename_i h3; exact absurd h3 (ne_of_gt hpc)
  split
  · rename_i h4
    have : 0 < d.row.price * (1 + c.row.bonus) := by positivity
    exact absurd h4.2 (ne_of_gt this)
  split; · rename_i h5; exact absurd h5 (ne_of_gt hli)
  split
  · rename_i h6
    have h1 : stepRepaid p c d cover ≤ d.base * d.row.borIndex * stepCf p := le_trans hf.2.2.2.2.2.2.1 hf.2.1
    have h2 : d.base * d.row.borIndex * stepCf p ≤ d.base * d.row.borIndex := by
      have : 0 ≤ d.base * d.row.borIndex := by positivity
      nlinarith
    linarith
  split; · rename_i h7; exact absurd h7 (ne_of_gt hbi)
  intro h; cases h

theorem doLiquidate_not_rejected {p : Portfolio} {c : Supply} {d : Debt} {cover : Rat} (hwf : p.WF)
    (hc : c ∈ p.supplies) (hcc : c.coll = true) (hd : d ∈ p.debts) (hpos : 0 < d.base) :
    doLiquidate NumCtx.exact p c d cover ≠ .rejected := by
  obtain ⟨_, _, hlt⟩ := hwf.sup c hc
  have hbi := (hwf.deb d hd).2.bi_pos
  rw [doLiquidate_exact_eq]
  split
  · rename_i h1
    rcases h1 with h | h
    · exact absurd h (ne_of_gt (hlt hcc))
    · rw [hcc] at h; cases h
  split
  · rename_i h2
    have : 0 < d.base * d.row.borIndex := by positivity
    exact absurd h2 (ne_of_gt this)
  split; · intro h; cases h
  split; · intro h; cases h
  split; · intro h; cases h
  split; · intro h; cases h
  split; · intro h; cases h
  intro h; cases h

/-- the loop on a well-formed portfolio: no exception, still well formed, and the recorded actions are a chain of
    successful steps -/
theorem liqLoop_exact_inv : ∀ (fuel : Nat) (p : Portfolio) (vis : List String) (acts : List LiqAction), p.WF →
    (liqLoop NumCtx.exact fuel p vis acts).err = none ∧ (liqLoop NumCtx.exact fuel p vis acts).p.WF
    ∧ ∃ as, (liqLoop NumCtx.exact fuel p vis acts).actions = acts ++ as
        ∧ Trace p as (liqLoop NumCtx.exact fuel p vis acts).p := by
  intro fuel
  induction fuel with
  | zero =>
    intro p vis acts hwf
    have key : (liqLoop NumCtx.exact 0 p vis acts).err = none ∧ (liqLoop NumCtx.exact 0 p vis acts).p = p
        ∧ (liqLoop NumCtx.exact 0 p vis acts).actions = acts := by
      rw [liqLoop_eq]
      by_cases hc : liqCond NumCtx.exact p = true
      · cases hpd : pickDebt NumCtx.exact p.debts vis with
        | none => simp [hc]
        | some x => simp [hc]
      · simp only [Bool.not_eq_true] at hc; simp [hc]
    obtain ⟨k1, k2, k3⟩ := key
    rw [k2]
    exact ⟨k1, hwf, [], by rw [k3]; simp, Trace.nil p⟩
  | succ k ih =>
    intro p vis acts hwf
    by_cases hc : liqCond NumCtx.exact p = true
    · cases hpd : pickDebt NumCtx.exact p.debts vis with
      | none =>
        have key : liqLoop NumCtx.exact (k + 1) p vis acts = ⟨p, acts, vis, none, false⟩ := by
          rw [liqLoop_eq]; simp [hc, hpd]
        rw [key]
        exact ⟨rfl, hwf, [], by simp, Trace.nil p⟩
      | some x =>
        obtain ⟨d, v⟩ := x
        obtain ⟨hd, _, hv⟩ := pickDebt_some hpd
        have hv0 : 0 ≤ v := hv ▸ hwf.debt_value_nonneg hd
        cases hpc : (pickColl NumCtx.exact p.supplies).1 with
        | none => exact absurd hpc (pickColl_ne_none hwf hc)
        | some c =>
          obtain ⟨hcm, hcc⟩ := pickColl_some hpc
          cases hdo : doLiquidate NumCtx.exact p c d v with
          | done p' a =>
            have key : liqLoop NumCtx.exact (k + 1) p vis acts = liqLoop NumCtx.exact k p' (vis ++ [d.tok]) (acts ++ [a]) := by
              rw [liqLoop_eq]; simp [hc, hpd, hpc, hdo]
            rw [key]
            have hok : StepOk p c d (d.value NumCtx.exact) p' a := ⟨hwf, hcm, hd, hv ▸ hv0, hv ▸ hdo⟩
            have hwf' : p'.WF := (C12_amounts_nonneg hok).2.2.2.2
            obtain ⟨h1, h2, as, h3, h4⟩ := ih p' (vis ++ [d.tok]) (acts ++ [a]) hwf'
            exact ⟨h1, h2, a :: as, by rw [h3]; simp, Trace.step hc hok h4⟩
          | rejected =>
            have key : liqLoop NumCtx.exact (k + 1) p vis acts = liqLoop NumCtx.exact k p (vis ++ [d.tok]) acts := by
              rw [liqLoop_eq]; simp [hc, hpd, hpc, hdo]
            rw [key]
            exact ih p (vis ++ [d.tok]) acts hwf
          | raised e q => exact absurd hdo (doLiquidate_not_raised hwf hcm hd hv0 e q)
    · simp only [Bool.not_eq_true] at hc
      have key : liqLoop NumCtx.exact (k + 1) p vis acts = ⟨p, acts, vis, none, false⟩ := by
        rw [liqLoop_eq]; simp [hc]
      rw [key]
      exact ⟨rfl, hwf, [], by simp, Trace.nil p⟩

end AaveRisk
end Demeter
