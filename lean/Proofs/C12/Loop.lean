/-
  C12 — Aave liquidation, the loop: theorems about `Demeter.AaveRisk.liquidate` (= `AaveV3Market.update()` →
  `_liquidate`, as repaired: the loop ends once no unvisited debt is left; debts of any size are candidates).

  * `∀ cx` (any rounding): the fuel `#debts + 1` of the model never runs out, every debt token is visited at most
    once, every recorded action belongs to a visited debt, the loop can only end with "not (0 < HF < 1)" or "every
    remaining debt visited" (or an exception), nothing happens unless `0 < HF < 1`.
  * exact context, well-formed portfolio: no exception leaves `update()`, the portfolio stays well formed, and the
    recorded actions are a chain of successful `_do_liquidate` steps each taken while `0 < HF < 1`, to which the step
    theorems of `Proofs/C12.lean` apply.
-/
import Proofs.C12
import Proofs.Lemmas.AaveRiskLoop
namespace Demeter
open AaveRisk

namespace AaveRisk

/-- the actions recorded by the loop as a chain of successful steps -/
inductive Trace : Portfolio → List LiqAction → Portfolio → Prop
  | nil (p : Portfolio) : Trace p [] p
  | step {p : Portfolio} {c : Supply} {d : Debt} {p' : Portfolio} {a : LiqAction} {as : List LiqAction} {p'' : Portfolio} :
      liqCond NumCtx.exact p = true → StepOk p c d (d.value NumCtx.exact) p' a → Trace p' as p'' → Trace p (a :: as) p''

theorem keys_debts_done {cx : NumCtx} {p : Portfolio} {c : Supply} {d : Debt} {v : Rat} {p' : Portfolio} {a : LiqAction}
    (h : doLiquidate cx p c d v = .done p' a) : (p'.debts.map (·.tok)).Sublist (p.debts.map (·.tok)) := by
  obtain ⟨_, ⟨y, hy⟩, _, _⟩ := doLiquidate_done_shape h
  rw [hy]; exact keys_putDebtBase_sublist _ _ _

/-- invariants of the loop that do not depend on the arithmetic -/
theorem liqLoop_inv (cx : NumCtx) : ∀ (fuel : Nat) (p : Portfolio) (vis : List String) (acts : List LiqAction),
    unv (p.debts.map (·.tok)) vis ≤ fuel → vis.Nodup → ((acts.map (·.debtTok)).Sublist vis) →
    (liqLoop cx fuel p vis acts).outOfFuel = false
    ∧ (liqLoop cx fuel p vis acts).visited.Nodup
    ∧ (((liqLoop cx fuel p vis acts).actions.map (·.debtTok)).Sublist (liqLoop cx fuel p vis acts).visited)
    ∧ (liqLoop cx fuel p vis acts).visited.length ≤ vis.length + unv (p.debts.map (·.tok)) vis
    ∧ ((liqLoop cx fuel p vis acts).err = none →
        liqCond cx (liqLoop cx fuel p vis acts).p = false
        ∨ ∀ d ∈ (liqLoop cx fuel p vis acts).p.debts, d.tok ∈ (liqLoop cx fuel p vis acts).visited) := by
  intro fuel
  induction fuel with
  | zero =>
    intro p vis acts hf hn hs
    by_cases hc : liqCond cx p = true
    · cases hpd : pickDebt cx p.debts vis with
      | none =>
        have key : liqLoop cx 0 p vis acts = ⟨p, acts, vis, none, false⟩ := by
          rw [liqLoop_eq]; simp [hc, hpd]
        rw [key]
        exact ⟨rfl, hn, hs, by simp, fun _ => Or.inr (pickDebt_none hpd)⟩
      | some x =>
        obtain ⟨d, v⟩ := x
        obtain ⟨hd, hv, _⟩ := pickDebt_some hpd
        have := unv_visit (List.mem_map_of_mem (f := (·.tok)) hd) hv
        omega
    · simp only [Bool.not_eq_true] at hc
      have key : liqLoop cx 0 p vis acts = ⟨p, acts, vis, none, false⟩ := by
        rw [liqLoop_eq]; simp [hc]
      rw [key]
      exact ⟨rfl, hn, hs, by simp, fun _ => Or.inl hc⟩
  | succ k ih =>
    intro p vis acts hf hn hs
    by_cases hc : liqCond cx p = true
    · cases hpd : pickDebt cx p.debts vis with
      | none =>
        have key : liqLoop cx (k + 1) p vis acts = ⟨p, acts, vis, none, false⟩ := by
          rw [liqLoop_eq]; simp [hc, hpd]
        rw [key]
        exact ⟨rfl, hn, hs, by simp, fun _ => Or.inr (pickDebt_none hpd)⟩
      | some x =>
        obtain ⟨d, v⟩ := x
        obtain ⟨hd, hv, _⟩ := pickDebt_some hpd
        have hvisit := unv_visit (List.mem_map_of_mem (f := (·.tok)) hd) hv
        have hn' : (vis ++ [d.tok]).Nodup := by
          rw [List.nodup_append]
          refine ⟨hn, by simp, ?_⟩
          intro a ha b hb e
          simp only [List.mem_singleton] at hb
          subst hb; subst e
          exact hv ha
        have hs' : ((acts.map (·.debtTok)).Sublist (vis ++ [d.tok])) := hs.trans (List.sublist_append_left _ _)
        cases hpc : (pickColl cx p.supplies).1 with
        | none =>
          have key : liqLoop cx (k + 1) p vis acts = ⟨p, acts, vis ++ [d.tok], some .attribute, false⟩ := by
            rw [liqLoop_eq]; simp [hc, hpd, hpc]
          rw [key]
          refine ⟨rfl, hn', hs', ?_, fun h => by cases h⟩
          simp only [List.length_append, List.length_singleton]; omega
        | some c =>
          cases hdo : doLiquidate cx p c d v with
          | done p' a =>
            have key : liqLoop cx (k + 1) p vis acts = liqLoop cx k p' (vis ++ [d.tok]) (acts ++ [a]) := by
              rw [liqLoop_eq]; simp [hc, hpd, hpc, hdo]
            rw [key]
            have hk := keys_debts_done hdo
            have hf' : unv (p'.debts.map (·.tok)) (vis ++ [d.tok]) ≤ k := by
              have := unv_sublist hk (vis ++ [d.tok]); omega
            have hs'' : (((acts ++ [a]).map (·.debtTok)).Sublist (vis ++ [d.tok])) := by
              rw [List.map_append]
              have : a.debtTok = d.tok := (doLiquidate_done_shape hdo).2.2.1
              simp only [List.map_cons, List.map_nil, this]
              exact hs.append (List.Sublist.refl _)
            obtain ⟨h1, h2, h3, h4, h5⟩ := ih p' (vis ++ [d.tok]) (acts ++ [a]) hf' hn' hs''
            refine ⟨h1, h2, h3, ?_, h5⟩
            have := unv_sublist hk (vis ++ [d.tok])
            simp only [List.length_append, List.length_singleton] at h4; omega
          | rejected =>
            have key : liqLoop cx (k + 1) p vis acts = liqLoop cx k p (vis ++ [d.tok]) acts := by
              rw [liqLoop_eq]; simp [hc, hpd, hpc, hdo]
            rw [key]
            have hf' : unv (p.debts.map (·.tok)) (vis ++ [d.tok]) ≤ k := by omega
            obtain ⟨h1, h2, h3, h4, h5⟩ := ih p (vis ++ [d.tok]) acts hf' hn' hs'
            refine ⟨h1, h2, h3, ?_, h5⟩
            simp only [List.length_append, List.length_singleton] at h4; omega
          | raised e q =>
            have key : liqLoop cx (k + 1) p vis acts = ⟨q, acts, vis ++ [d.tok], some e, false⟩ := by
              rw [liqLoop_eq]; simp [hc, hpd, hpc, hdo]
            rw [key]
            refine ⟨rfl, hn', hs', ?_, fun h => by cases h⟩
            simp only [List.length_append, List.length_singleton]; omega
    · simp only [Bool.not_eq_true] at hc
      have key : liqLoop cx (k + 1) p vis acts = ⟨p, acts, vis, none, false⟩ := by
        rw [liqLoop_eq]; simp [hc]
      rw [key]
      exact ⟨rfl, hn, hs, by simp, fun _ => Or.inl hc⟩

/-! ### exact context, well-formed portfolios -/

theorem liqCond_exact {p : Portfolio} (h : liqCond NumCtx.exact p = true) :
    ∃ x, healthFactor NumCtx.exact p = some x ∧ 0 < x ∧ x < 1 := by
  unfold liqCond at h
  cases hh : healthFactor NumCtx.exact p with
  | none => rw [hh] at h; simp [XRat.ltB] at h
  | some x =>
    rw [hh] at h
    simp only [XRat.gtB, XRat.ltB, Gen.arHfLiqThreshold, Bool.and_eq_true, decide_eq_true_eq] at h
    exact ⟨x, rfl, h.1, of_decide_eq_true h.2⟩

theorem weightedLt_exact (p : Portfolio) :
    weightedLt NumCtx.exact p = ((collaterals p).map (fun s => s.value NumCtx.exact * s.row.lt)).sum := by
  unfold weightedLt; rw [dsum_exact]; rfl

theorem totalDebt_exact (p : Portfolio) : totalDebt NumCtx.exact p = (p.debts.map (fun d => d.value NumCtx.exact)).sum := by
  unfold totalDebt; rw [dsum_exact]

/-- under the loop condition some collateral can be picked -/
theorem pickColl_ne_none {p : Portfolio} (hwf : p.WF) (h : liqCond NumCtx.exact p = true) :
    (pickColl NumCtx.exact p.supplies).1 ≠ none := by
  intro hn
  have hneg := pickColl_none hn
  have hnil : collaterals p = [] := by
    unfold collaterals
    rw [List.filter_eq_nil_iff]
    intro s hs hc
    have := hneg s hs hc
    have := hwf.supply_value_nonneg hs
    linarith
  obtain ⟨x, hx, hx0, _⟩ := liqCond_exact h
  unfold healthFactor safeDiv at hx
  rw [weightedLt_exact, hnil] at hx
  split at hx
  · cases hx
  · simp at hx; linarith

theorem doLiquidate_not_raised {p : Portfolio} {c : Supply} {d : Debt} {cover : Rat} (hwf : p.WF)
    (hc : c ∈ p.supplies) (hd : d ∈ p.debts) (hcover : 0 ≤ cover) (e : Exc) (q : Portfolio) :
    doLiquidate NumCtx.exact p c d cover ≠ .raised e q := by
  obtain ⟨hcb, hcr, _⟩ := hwf.sup c hc
  obtain ⟨hdb, hdr⟩ := hwf.deb d hd
  have hf := step_facts p hcb hcr hdb hdr hcover
  have hli := hcr.li_pos; have hpc := hcr.price_pos; have hb := hcr.bonus_nonneg
  have hbi := hdr.bi_pos; have hpd := hdr.price_pos
  obtain ⟨_, hcf1⟩ := stepCf_bounds p
  rw [doLiquidate_exact_eq]
  split; · intro h; cases h
  split; · intro h; cases h
  split; · rename_i h3; exact absurd h3 (ne_of_gt hpc)
  split
  · rename_i h4
    have : 0 < d.row.price * (1 + c.row.bonus) := by positivity
    exact absurd h4.2 (ne_of_gt this)
  split
  · rename_i h6
    have h1 : stepRepaid p c d cover ≤ d.base * d.row.borIndex * stepCf p := le_trans hf.2.2.2.2.2.2.1 hf.2.1
    have h2 : d.base * d.row.borIndex * stepCf p ≤ d.base * d.row.borIndex := by
      have : 0 ≤ d.base * d.row.borIndex := by positivity
      nlinarith
    linarith
  split; · rename_i h5; exact absurd h5 (ne_of_gt hli)
  split; · rename_i h7; exact absurd h7 (ne_of_gt hbi)
  intro h; cases h

theorem doLiquidate_not_rejected {p : Portfolio} {c : Supply} {d : Debt} {cover : Rat} (hwf : p.WF)
    (hc : c ∈ p.supplies) (hcc : c.coll = true) (hd : d ∈ p.debts) (hpos : 0 < d.base) :
    doLiquidate NumCtx.exact p c d cover ≠ .rejected := by
  obtain ⟨_, _, hlt⟩ := hwf.sup c hc
  have hbi := (hwf.deb d hd).2.bi_pos
  rw [doLiquidate_exact_eq]
  split
  · rename_i h1
    rcases h1 with h | h
    · exact absurd h (ne_of_gt (hlt hcc))
    · rw [hcc] at h; cases h
  split
  · rename_i h2
    have : 0 < d.base * d.row.borIndex := by positivity
    exact absurd h2 (ne_of_gt this)
  split; · intro h; cases h
  split; · intro h; cases h
  split; · intro h; cases h
  split; · intro h; cases h
  split; · intro h; cases h
  intro h; cases h

/-- the loop on a well-formed portfolio: no exception, still well formed, and the recorded actions are a chain of
    successful steps -/
theorem liqLoop_exact_inv : ∀ (fuel : Nat) (p : Portfolio) (vis : List String) (acts : List LiqAction), p.WF →
    (liqLoop NumCtx.exact fuel p vis acts).err = none ∧ (liqLoop NumCtx.exact fuel p vis acts).p.WF
    ∧ ∃ as, (liqLoop NumCtx.exact fuel p vis acts).actions = acts ++ as
        ∧ Trace p as (liqLoop NumCtx.exact fuel p vis acts).p := by
  intro fuel
  induction fuel with
  | zero =>
    intro p vis acts hwf
    have key : (liqLoop NumCtx.exact 0 p vis acts).err = none ∧ (liqLoop NumCtx.exact 0 p vis acts).p = p
        ∧ (liqLoop NumCtx.exact 0 p vis acts).actions = acts := by
      rw [liqLoop_eq]
      by_cases hc : liqCond NumCtx.exact p = true
      · cases hpd : pickDebt NumCtx.exact p.debts vis with
        | none => simp [hc]
        | some x => simp [hc]
      · simp only [Bool.not_eq_true] at hc; simp [hc]
    obtain ⟨k1, k2, k3⟩ := key
    rw [k2]
    exact ⟨k1, hwf, [], by rw [k3]; simp, Trace.nil p⟩
  | succ k ih =>
    intro p vis acts hwf
    by_cases hc : liqCond NumCtx.exact p = true
    · cases hpd : pickDebt NumCtx.exact p.debts vis with
      | none =>
        have key : liqLoop NumCtx.exact (k + 1) p vis acts = ⟨p, acts, vis, none, false⟩ := by
          rw [liqLoop_eq]; simp [hc, hpd]
        rw [key]
        exact ⟨rfl, hwf, [], by simp, Trace.nil p⟩
      | some x =>
        obtain ⟨d, v⟩ := x
        obtain ⟨hd, _, hv⟩ := pickDebt_some hpd
        have hv0 : 0 ≤ v := hv ▸ hwf.debt_value_nonneg hd
        cases hpc : (pickColl NumCtx.exact p.supplies).1 with
        | none => exact absurd hpc (pickColl_ne_none hwf hc)
        | some c =>
          obtain ⟨hcm, hcc⟩ := pickColl_some hpc
          cases hdo : doLiquidate NumCtx.exact p c d v with
          | done p' a =>
            have key : liqLoop NumCtx.exact (k + 1) p vis acts = liqLoop NumCtx.exact k p' (vis ++ [d.tok]) (acts ++ [a]) := by
              rw [liqLoop_eq]; simp [hc, hpd, hpc, hdo]
            rw [key]
            have hok : StepOk p c d (d.value NumCtx.exact) p' a := ⟨hwf, hcm, hd, hv ▸ hv0, hv ▸ hdo⟩
            have hwf' : p'.WF := (C12_amounts_nonneg hok).2.2.2.2
            obtain ⟨h1, h2, as, h3, h4⟩ := ih p' (vis ++ [d.tok]) (acts ++ [a]) hwf'
            exact ⟨h1, h2, a :: as, by rw [h3]; simp, Trace.step hc hok h4⟩
          | rejected =>
            have key : liqLoop NumCtx.exact (k + 1) p vis acts = liqLoop NumCtx.exact k p (vis ++ [d.tok]) acts := by
              rw [liqLoop_eq]; simp [hc, hpd, hpc, hdo]
            rw [key]
            exact ih p (vis ++ [d.tok]) acts hwf
          | raised e q => exact absurd hdo (doLiquidate_not_raised hwf hcm hd hv0 e q)
    · simp only [Bool.not_eq_true] at hc
      have key : liqLoop NumCtx.exact (k + 1) p vis acts = ⟨p, acts, vis, none, false⟩ := by
        rw [liqLoop_eq]; simp [hc]
      rw [key]
      exact ⟨rfl, hwf, [], by simp, Trace.nil p⟩

theorem unv_nil (ks : List String) : unv ks [] = ks.length := by
  unfold unv; simp

theorem liqCond_of_hf {p : Portfolio} {x : Rat} (h : healthFactor NumCtx.exact p = some x) (h0 : 0 < x) (h1 : x < 1) :
    liqCond NumCtx.exact p = true := by
  unfold liqCond; rw [h]
  simp [XRat.gtB, XRat.ltB, Gen.arHfLiqThreshold, h0, h1]

theorem liqCond_false_exact {p : Portfolio} (h : liqCond NumCtx.exact p = false) :
    healthFactor NumCtx.exact p = none ∨ ∃ x, healthFactor NumCtx.exact p = some x ∧ (x ≤ 0 ∨ 1 ≤ x) := by
  cases hh : healthFactor NumCtx.exact p with
  | none => exact Or.inl rfl
  | some x =>
    right
    refine ⟨x, rfl, ?_⟩
    by_contra hcon
    rw [not_or, not_le, not_le] at hcon
    rw [liqCond_of_hf hh hcon.1 hcon.2] at h; cases h

/-- a finite health factor that is not positive means that no collateral is left -/
theorem no_collateral_of_hf_nonpos {p : Portfolio} (hwf : p.WF) {x : Rat} (h : healthFactor NumCtx.exact p = some x)
    (hx : x ≤ 0) : ∀ s ∈ collaterals p, s.base = 0 := by
  unfold healthFactor safeDiv at h
  split at h
  · cases h
  · rename_i htd
    simp only [Option.some.injEq, NumCtx.exact_div] at h
    have htd0 : 0 ≤ totalDebt NumCtx.exact p := by
      rw [totalDebt_exact]; exact sum_map_nonneg _ _ (fun d hd => hwf.debt_value_nonneg hd)
    have htdpos : 0 < totalDebt NumCtx.exact p := lt_of_le_of_ne htd0 (Ne.symm htd)
    have hw : weightedLt NumCtx.exact p ≤ 0 := by
      have : weightedLt NumCtx.exact p = x * totalDebt NumCtx.exact p := by
        rw [← h]; field_simp
      rw [this]; exact mul_nonpos_of_nonpos_of_nonneg hx htd0
    rw [weightedLt_exact] at hw
    have hterm : ∀ s ∈ collaterals p, 0 ≤ s.value NumCtx.exact * s.row.lt := by
      intro s hs
      have hs' : s ∈ p.supplies := (List.mem_filter.mp hs).1
      have := hwf.supply_value_nonneg hs'
      have := (hwf.sup s hs').2.1.lt_nonneg
      positivity
    intro s hs
    have hz := sum_map_eq_zero_of_nonneg _ _ hterm hw s hs
    have hs' : s ∈ p.supplies := (List.mem_filter.mp hs).1
    obtain ⟨_, hr, hlt⟩ := hwf.sup s hs'
    have hcoll : s.coll = true := by simpa using (List.mem_filter.mp hs).2
    have hltpos := hlt hcoll
    have hli := hr.li_pos; have hpr := hr.price_pos
    rw [Supply.value_exact] at hz
    have : s.base * (s.row.liqIndex * s.row.price * s.row.lt) = 0 := by rw [← hz]; ring
    rcases mul_eq_zero.mp this with h0 | h0
    · exact h0
    · exact absurd h0 (ne_of_gt (by positivity))

end AaveRisk

/-! ## the property theorems about the loop -/

/-- **Only below 1.**  Unless `0 < HF < 1` (with `HEALTH_FACTOR_LIQUIDATION_THRESHOLD = 1`) `update()` changes nothing
    and records nothing — in every arithmetic context. -/
theorem C12_no_liquidation_unless_below_one (cx : NumCtx) (p : Portfolio) (h : liqCond cx p = false) :
    liquidate cx p = ⟨p, [], [], none, false⟩ ∧ Gen.arHfLiqThreshold = 1 := by
  refine ⟨?_, rfl⟩
  unfold liquidate; rw [liqLoop_eq]; simp [h]

/-- **Liquidated iff HF < 1.**  For a well-formed portfolio whose debt entries are positive, `update()` records at
    least one liquidation if and only if the health factor at the end of the bar is finite and in (0, 1).
    (HF = 0 with debt means there is no collateral to seize, `no_collateral_of_hf_nonpos`.) -/
theorem C12_liquidates_iff (p : Portfolio) (hwf : p.WF) (hpos : ∀ d ∈ p.debts, 0 < d.base) :
    (liquidate NumCtx.exact p).actions ≠ [] ↔ ∃ x, healthFactor NumCtx.exact p = some x ∧ 0 < x ∧ x < 1 := by
  constructor
  · intro h
    by_contra hcon
    have hc : liqCond NumCtx.exact p = false := by
      cases hh : liqCond NumCtx.exact p with
      | false => rfl
      | true => exact absurd (liqCond_exact hh) hcon
    rw [(C12_no_liquidation_unless_below_one _ p hc).1] at h
    exact h rfl
  · rintro ⟨x, hx, h0, h1⟩
    have hc := liqCond_of_hf hx h0 h1
    unfold liquidate
    cases hpd : pickDebt NumCtx.exact p.debts [] with
    | none =>
      -- no debt at all: the health factor would be infinite
      have hall := pickDebt_none hpd
      have hnil : p.debts = [] := by
        cases hds : p.debts with
        | nil => rfl
        | cons d r => have := hall d (by rw [hds]; simp); simp at this
      unfold healthFactor safeDiv at hx
      rw [totalDebt_exact, hnil] at hx
      simp at hx
    | some y =>
      obtain ⟨d, v⟩ := y
      obtain ⟨hd, _, hv⟩ := pickDebt_some hpd
      have hv0 : 0 ≤ v := hv ▸ hwf.debt_value_nonneg hd
      cases hpc : (pickColl NumCtx.exact p.supplies).1 with
      | none => exact absurd hpc (pickColl_ne_none hwf hc)
      | some c =>
        obtain ⟨hcm, hcc⟩ := pickColl_some hpc
        cases hdo : doLiquidate NumCtx.exact p c d v with
        | rejected => exact absurd hdo (doLiquidate_not_rejected hwf hcm hcc hd (hpos d hd))
        | raised e q => exact absurd hdo (doLiquidate_not_raised hwf hcm hd hv0 e q)
        | done p' a =>
          have key : liqLoop NumCtx.exact (p.debts.length + 1) p [] []
              = liqLoop NumCtx.exact p.debts.length p' ([] ++ [d.tok]) ([] ++ [a]) := by
            rw [liqLoop_eq]; simp [hc, hpd, hpc, hdo]
          rw [key]
          have hok : StepOk p c d (d.value NumCtx.exact) p' a := ⟨hwf, hcm, hd, hv ▸ hv0, hv ▸ hdo⟩
          obtain ⟨_, _, as, h3, _⟩ := liqLoop_exact_inv p.debts.length p' ([] ++ [d.tok]) ([] ++ [a])
            (C12_amounts_nonneg hok).2.2.2.2
          rw [h3]; simp

/-- **The model's fuel is enough**: the loop runs at most once per debt, in every arithmetic context (so the
    `while` loop of `_liquidate` terminates). -/
theorem C12_fuel_suffices (cx : NumCtx) (p : Portfolio) : (liquidate cx p).outOfFuel = false := by
  unfold liquidate
  exact (liqLoop_inv cx _ p [] [] (by rw [unv_nil]; simp) List.nodup_nil (by simp)).1

/-- **Every debt visited at most once**, in every arithmetic context: `has_liquidated` has no duplicates, the debt
    tokens of the recorded actions are distinct and form a subsequence of it, and there are at most `#debts` attempts. -/
theorem C12_each_debt_once (cx : NumCtx) (p : Portfolio) :
    (liquidate cx p).visited.Nodup
    ∧ ((liquidate cx p).actions.map (·.debtTok)).Sublist (liquidate cx p).visited
    ∧ ((liquidate cx p).actions.map (·.debtTok)).Nodup
    ∧ (liquidate cx p).visited.length ≤ p.debts.length
    ∧ (liquidate cx p).actions.length ≤ p.debts.length := by
  unfold liquidate
  obtain ⟨_, h2, h3, h4, _⟩ := liqLoop_inv cx (p.debts.length + 1) p [] [] (by rw [unv_nil]; simp) List.nodup_nil (by simp)
  rw [unv_nil] at h4
  simp only [List.length_nil, List.length_map, Nat.zero_add] at h4
  refine ⟨h2, h3, h3.nodup h2, h4, ?_⟩
  have := h3.length_le
  simp only [List.length_map] at this
  omega

/-- **How the loop can end**, in every arithmetic context: if no exception leaves `update()`, then either the loop
    condition `0 < HF < 1` is false at the end, or every remaining debt has been visited. -/
theorem C12_ends (cx : NumCtx) (p : Portfolio) (h : (liquidate cx p).err = none) :
    liqCond cx (liquidate cx p).p = false ∨ ∀ d ∈ (liquidate cx p).p.debts, d.tok ∈ (liquidate cx p).visited := by
  unfold liquidate at h ⊢
  exact (liqLoop_inv cx (p.debts.length + 1) p [] [] (by rw [unv_nil]; simp) List.nodup_nil (by simp)).2.2.2.2 h

/-- **Termination without error.**  On a well-formed portfolio (exact context) `update()` raises nothing, leaves a
    well-formed portfolio and ends with: no debt (HF infinite), HF ≥ 1, no collateral left, or every remaining debt
    visited (once, `C12_each_debt_once`). -/
theorem C12_terminates (p : Portfolio) (hwf : p.WF) :
    (liquidate NumCtx.exact p).err = none ∧ (liquidate NumCtx.exact p).outOfFuel = false
    ∧ (liquidate NumCtx.exact p).p.WF
    ∧ (healthFactor NumCtx.exact (liquidate NumCtx.exact p).p = none
       ∨ (∃ x, healthFactor NumCtx.exact (liquidate NumCtx.exact p).p = some x ∧ 1 ≤ x)
       ∨ (∀ s ∈ collaterals (liquidate NumCtx.exact p).p, s.base = 0)
       ∨ (∀ d ∈ (liquidate NumCtx.exact p).p.debts, d.tok ∈ (liquidate NumCtx.exact p).visited)) := by
  have hinv : (liquidate NumCtx.exact p).err = none ∧ (liquidate NumCtx.exact p).p.WF := by
    unfold liquidate
    obtain ⟨h1, h2, _⟩ := liqLoop_exact_inv (p.debts.length + 1) p [] [] hwf
    exact ⟨h1, h2⟩
  refine ⟨hinv.1, C12_fuel_suffices _ p, hinv.2, ?_⟩
  rcases C12_ends NumCtx.exact p hinv.1 with hc | hall
  · rcases liqCond_false_exact hc with hn | ⟨x, hx, hle | hge⟩
    · exact Or.inl hn
    · exact Or.inr (Or.inr (Or.inl (no_collateral_of_hf_nonpos hinv.2 hx hle)))
    · exact Or.inr (Or.inl ⟨x, hx, hge⟩)
  · exact Or.inr (Or.inr (Or.inr hall))

/-- **Every recorded liquidation is a proper step**: on a well-formed portfolio the actions recorded by `update()` are a
    chain `p = p₀ →a₁ p₁ →a₂ … →aₙ pₙ = final`, each `aᵢ` the result of a successful `_do_liquidate` on entries of
    `pᵢ₋₁` (well formed, `0 < HF(pᵢ₋₁) < 1`, value to cover = the debt's value), so `C12_close_factor`,
    `C12_seized_value`, `C12_amounts_nonneg`, `C12_state_change`, `C12_record_matches`, `C12_net_value` hold for
    each of them. -/
theorem C12_every_step (p : Portfolio) (hwf : p.WF) :
    Trace p (liquidate NumCtx.exact p).actions (liquidate NumCtx.exact p).p := by
  unfold liquidate
  obtain ⟨_, _, as, h3, h4⟩ := liqLoop_exact_inv (p.debts.length + 1) p [] [] hwf
  rw [h3]; simpa using h4

/-! ### non-vacuity -/
namespace AaveRisk

/-- 10 WETH (index 2) against 8400 USDC, WETH at 1000 USD: HF 0.98 → one 50 % step, HF 1.098 afterwards -/
def exLoopCheck : Bool :=
  let r := liquidate NumCtx.exact exP
  r.actions.length == 1 && r.err.isNone && !r.outOfFuel && r.visited == ["USDC"]
    && (healthFactor NumCtx.exact exP).ltB 1 && (healthFactor NumCtx.exact r.p).gtB 1

example : exLoopCheck = true := by decide +kernel
example : Trace exP (liquidate NumCtx.exact exP).actions (liquidate NumCtx.exact exP).p := C12_every_step exP exP_wf

/-- two debts, one of them cheap (price 1/2, so the value handed in as "amount to cover" is only half of the amount):
    both debts are visited, the health factor stays below 1 and the loop ends because every debt has been visited -/
def exRowM : Row := { liqIndex := 1, borIndex := 1, price := 1 / 2, ltv := 6 / 10, lt := 7 / 10, bonus := 1 / 10, canColl := true, canBorrow := true }
def exP2 : Portfolio :=
  { supplies := [{ tok := "WETH", base := 5, coll := true, row := exRowW }],
    debts := [{ tok := "MATIC", base := 18000, row := exRowM }, { tok := "USDC", base := 100, row := exRowU }] }

def exLoopCheck2 : Bool :=
  let r := liquidate NumCtx.exact exP2
  r.actions.length == 2 && r.err.isNone && !r.outOfFuel && r.visited == ["USDC", "MATIC"]
    && (healthFactor NumCtx.exact r.p).ltB 1 && (healthFactor NumCtx.exact r.p).gtB 0 && r.p.debts.length == 1

example : exLoopCheck2 = true := by decide +kernel

end AaveRisk
end Demeter
