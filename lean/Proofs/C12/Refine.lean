/-
  C12 — refinement of the liquidation *trigger* and *pair selection*: the cache-carrying state machine `Demeter.Aave`
  (what C13's harness ties to `AaveV3Market.update()` step by step) decides **whether** to liquidate and **which**
  (collateral, debt) pair to hand to `_do_liquidate` exactly as the pure risk model `Demeter.AaveRisk` (the model of the
  C12 theorems) does on the projected portfolio `proj env s` — in every coherent state, for every arithmetic context,
  whatever mixture of warm and cold caches `update()` meets.

    * `C12_sm_no_liquidation_unless_below_one` : health factor of the projected portfolio not in (0, 1) ⇒ `update()` of the
      state machine changes nothing but `has_update` (the "only if" half of "liquidated iff HF below 1");
    * `C12_sm_loop_head_refines` : with the health factor in (0, 1) one round of the loop reads the listings, picks
      `AaveRisk.pickDebt` / `AaveRisk.pickColl` of the projected portfolio (same tie-breaks, same visited list) and goes on
      with `_do_liquidate` on that pair, or ends when every debt has been visited.

  The simulation of `_do_liquidate` itself (amounts, order of the raises, post-state, record) is
  `C12_sm_doLiquidate_refines` in `Proofs/C12/RefineStep.lean`.
-/
import Proofs.C11.Refine
import Proofs.C12
namespace Demeter
open Aave M

variable {cx : ACtx} {env : Env}

/-- the loop guard `0 < health_factor < 1` on the two representations of a possibly infinite figure -/
theorem Aave.guard_toX (h : AaveRisk.XRat) :
    ((toX h).gtR 0 && (toX h).ltR Gen.aaveHfThreshold) = (h.gtB 0 && h.ltB Gen.arHfLiqThreshold) := by
  rw [toX_gtR, toX_ltR, consts_agree.1]

/-- **no liquidation unless the health factor is below 1** (and above 0), on the state machine: when the risk model's
    health factor of the projected portfolio is not in (0, 1), `update()` leaves positions, wallet and log untouched and
    only sets `has_update`; the state stays coherent. -/
theorem C12_sm_no_liquidation_unless_below_one {s : St} (hs : Good cx env s) (hopen : env.isOpen = true)
    (hout : ((AaveRisk.healthFactor cx.toNumCtx (proj env s)).gtB 0 &&
             (AaveRisk.healthFactor cx.toNumCtx (proj env s)).ltB Gen.arHfLiqThreshold) = false) :
    ∃ s', liquidate cx env s = (.ok (), s') ∧ s'.supplies = s.supplies ∧ s'.borrows = s.borrows ∧
      s'.wallet = s.wallet ∧ s'.actions = s.actions ∧ s'.hasUpdate = true := by
  have hat : At cx env s.frame s := ⟨hs, rfl⟩
  obtain ⟨s1, e1, hat1⟩ := run_healthFactor hat
  unfold liquidate guardOpen
  rw [run_bind_require_true hopen, run_bind_ok e1, run_bind_queryPos_ok (a := s1.borrows.length) rfl]
  have hloop : liquidateLoop cx env (s1.borrows.length + 1) []
      (toX (AaveRisk.healthFactor cx.toNumCtx (projPos env s.frame.supplies s.frame.borrows))) = pure () := by
    unfold liquidateLoop
    rw [guard_toX]
    have : projPos env s.frame.supplies s.frame.borrows = proj env s := rfl
    rw [this, hout]
    rfl
  rw [hloop, run_bind_pure]
  exact ⟨_, rfl, hat1.sup, hat1.bor, congrArg Frame.wallet hat1.2, congrArg Frame.actions hat1.2, rfl⟩

/-- **one round of the loop picks the risk model's pair.**  In a coherent state whose health factor (of the projected
    portfolio) lies in (0, 1), the state machine lists borrows and supplies — filling or re-using the two listing caches —
    and then either stops because `AaveRisk.pickDebt` finds every debt visited, or continues with `_do_liquidate` on
    exactly the debt `AaveRisk.pickDebt` and the collateral `AaveRisk.pickColl` choose on the projected portfolio (same
    `>=` / `<=` tie-breaks in dict order), covering that debt's value. -/
theorem C12_sm_loop_head_refines {s : St} (hs : Good cx env s) (fuel : Nat) (done : List String)
    (hin : ((AaveRisk.healthFactor cx.toNumCtx (proj env s)).gtB 0 &&
            (AaveRisk.healthFactor cx.toNumCtx (proj env s)).ltB Gen.arHfLiqThreshold) = true) :
    ∃ s2, Good cx env s2 ∧ s2.frame = s.frame ∧
      liquidateLoop cx env (fuel + 1) done (toX (AaveRisk.healthFactor cx.toNumCtx (proj env s))) s =
        match AaveRisk.pickDebt cx.toNumCtx (proj env s).debts done with
        | none => (.ok (), s2)
        | some (d, v) =>
          (do
            catchAssertion (doLiquidate cx env ((AaveRisk.pickColl cx.toNumCtx (proj env s).supplies).1.map AaveRisk.Supply.tok)
              (some d.tok) v)
            let hf' ← healthFactor cx env
            liquidateLoop cx env fuel (done ++ [d.tok]) hf') s2 := by
  have hat : At cx env s.frame s := ⟨hs, rfl⟩
  obtain ⟨s1, e1, hat1⟩ := run_borrowsView hat
  obtain ⟨s2, e2, hat2⟩ := run_suppliesView hat1
  refine ⟨s2, hat2.1, hat2.2, ?_⟩
  rw [liquidateLoop, guard_toX, hin]
  simp only [if_true]
  rw [run_bind_ok e1, run_bind_ok e2, pickDebt_proj, pickColl_proj]
  have hd : (s.frame.borrows.map (projBor env)) = (proj env s).debts := rfl
  have hsup : (s.frame.supplies.map (projSup env)) = (proj env s).supplies := rfl
  rw [hd, hsup]
  cases hp : AaveRisk.pickDebt cx.toNumCtx (proj env s).debts done with
  | none => rfl
  | some dv =>
    obtain ⟨d, v⟩ := dv
    rfl

/-! ### non-vacuity -/

/-- 10 WETH (11 000 USD, LT 0.825) against 10 000 USDC of debt: HF = 0.9075, inside (0, 1) -/
def c12rSt : St := { St.init with supplies := [("WETH", ⟨10, true, 1⟩)], borrows := [("USDC", ⟨10000, 1⟩)] }

example : ((AaveRisk.healthFactor NumCtx.exact (proj c11rEnv c12rSt)).gtB 0 &&
    (AaveRisk.healthFactor NumCtx.exact (proj c11rEnv c12rSt)).ltB Gen.arHfLiqThreshold) = true := by decide +kernel
/-- … and the healthy account of `C11.Refine` (100 USDC of debt) is outside it -/
example : ((AaveRisk.healthFactor NumCtx.exact (proj c11rEnv c11rSt)).gtB 0 &&
    (AaveRisk.healthFactor NumCtx.exact (proj c11rEnv c11rSt)).ltB Gen.arHfLiqThreshold) = false := by decide +kernel
/-- the pair the risk model picks on the unhealthy account -/
example : (AaveRisk.pickDebt NumCtx.exact (proj c11rEnv c12rSt).debts []).map (·.1.tok) = some "USDC" ∧
    (AaveRisk.pickColl NumCtx.exact (proj c11rEnv c12rSt).supplies).1.map (·.tok) = some "WETH" := by decide +kernel

end Demeter
