/-
  C12 — refinement of the whole end-of-bar liquidation: `update()` of the cache-carrying state machine (`Aave.liquidate`)
  simulates `update()` of the pure risk model (`AaveRisk.liquidate`) on the projected portfolio: the same sequence of
  (collateral, debt) pairs, the same amounts, the same recorded actions, the same final positions, the same exception
  class if `update()` raises — in every coherent state, for every arithmetic context, whatever caches were warm.
  Assembled from `C12_sm_loop_head_refines` (trigger, pair selection) and `C12_sm_doLiquidate_refines` (one step) by
  induction on the loop's fuel.  Every C12 theorem about `AaveRisk.liquidate` (close factor, bonus, wallet untouched, net
  value, termination, "ends with HF ≥ 1 / no collateral / every debt visited") thereby speaks about the state machine
  that C13's harness compares with `AaveV3Market` step by step; two are transferred explicitly at the end.
-/
import Proofs.C12.RefineStep
import Proofs.C12.Loop
namespace Demeter
open Aave M

variable {cx : ACtx} {env : Env}

namespace Aave

theorem catch_ok {m : M Unit} {s s' : St} (h : m s = (.ok (), s')) : catchAssertion m s = (.ok (), s') := by
  unfold catchAssertion; rw [h]

theorem catch_assert {m : M Unit} {s s' : St} {e : Err} (h : m s = (.error e, s')) (ha : e.isAssertion = true) :
    catchAssertion m s = (.ok (), s') := by
  unfold catchAssertion; rw [h]; simp only [ha, if_true]

theorem catch_other {m : M Unit} {s s' : St} {e : Err} (h : m s = (.error e, s')) (ha : e.isAssertion = false) :
    catchAssertion m s = (.error e, s') := by
  unfold catchAssertion; rw [h]; simp only [ha, Bool.false_eq_true, if_false]

/-- an entry of the projected debts is the projection of an entry of `_borrows`, retrievable by its key -/
theorem mem_debts_proj {s : St} (nd : (keys s.borrows).Nodup) {d : AaveRisk.Debt} (h : d ∈ (proj env s).debts) :
    ∃ dinfo, AList.get? s.borrows d.tok = some dinfo ∧ d = projBor env (d.tok, dinfo) := by
  obtain ⟨⟨k, i⟩, hm, rfl⟩ := List.mem_map.mp (show d ∈ s.borrows.map (projBor env) from h)
  exact ⟨i, aget_of_mem nd hm, rfl⟩

theorem mem_supplies_proj {s : St} (nd : (keys s.supplies).Nodup) {c : AaveRisk.Supply} (h : c ∈ (proj env s).supplies) :
    ∃ cinfo, AList.get? s.supplies c.tok = some cinfo ∧ c = projSup env (c.tok, cinfo) := by
  obtain ⟨⟨k, i⟩, hm, rfl⟩ := List.mem_map.mp (show c ∈ s.supplies.map (projSup env) from h)
  exact ⟨i, aget_of_mem nd hm, rfl⟩

/-- `_do_liquidate(None, debt, …)`: `collateral_token.name` on `None` raises `AttributeError` after the health-factor read -/
theorem doLiquidate_noColl {s : St} (hs : Good cx env s) {dtok : String} {dinfo : BorrowInfo}
    (hd : AList.get? s.borrows dtok = some dinfo) (v : Rat) :
    ∃ s', doLiquidate cx env none (some dtok) v s = (.error .noneToken, s') ∧ s'.frame = s.frame := by
  obtain ⟨⟨dst, hdst⟩, _, _⟩ := hs.2.cv dtok (aget_mem_keys hd)
  obtain ⟨s1, e1, hat1⟩ := run_healthFactor (⟨hs, rfl⟩ : At cx env s.frame s)
  refine ⟨s1, ?_, hat1.2⟩
  unfold doLiquidate
  rw [run_bind_ok e1]
  simp only [optRes]
  rw [run_bind_ofRes_ok, hdst, run_bind_ofRes_ok]
  rfl

end Aave

/-- what the state machine's `update()` loop does, in terms of the risk model's loop on the projected portfolio -/
theorem Aave.liquidateLoop_sim (hE : EnvOK env) (hP : EnvPos env) : ∀ (fuel : Nat) (s : St) (vis : List String)
    (acts : List AaveRisk.LiqAction) (base : List Action), Good cx env s → s.actions = base ++ acts.map actionOf →
    (AaveRisk.liqLoop cx.toNumCtx fuel (proj env s) vis acts).outOfFuel = false →
    ∃ s', (liquidateLoop cx env fuel vis (toX (AaveRisk.healthFactor cx.toNumCtx (proj env s))) s).2 = s' ∧
      proj env s' = (AaveRisk.liqLoop cx.toNumCtx fuel (proj env s) vis acts).p ∧ s'.wallet = s.wallet ∧
      s'.actions = base ++ (AaveRisk.liqLoop cx.toNumCtx fuel (proj env s) vis acts).actions.map actionOf ∧
      Good cx env s' ∧
      (match (AaveRisk.liqLoop cx.toNumCtx fuel (proj env s) vis acts).err with
        | none => (liquidateLoop cx env fuel vis (toX (AaveRisk.healthFactor cx.toNumCtx (proj env s))) s).1 = .ok ()
        | some x => ∃ e, (liquidateLoop cx env fuel vis (toX (AaveRisk.healthFactor cx.toNumCtx (proj env s))) s).1 = .error e ∧
            e.cls = x.name) := by
  intro fuel
  induction fuel with
  | zero =>
    intro s vis acts base hs hact hfuel
    rw [AaveRisk.liqLoop_eq] at hfuel ⊢
    have hl : liquidateLoop cx env 0 vis (toX (AaveRisk.healthFactor cx.toNumCtx (proj env s))) s = (.ok (), s) := by
      unfold liquidateLoop; rfl
    rw [hl]
    by_cases hc : AaveRisk.liqCond cx.toNumCtx (proj env s) = true
    · rw [if_neg (by simp [hc])] at hfuel ⊢
      cases hp : AaveRisk.pickDebt cx.toNumCtx (proj env s).debts vis with
      | none => exact ⟨s, rfl, rfl, rfl, hact, hs, rfl⟩
      | some dv => rw [hp] at hfuel; cases hfuel
    · rw [if_pos (by simpa using hc)]
      exact ⟨s, rfl, rfl, rfl, hact, hs, rfl⟩
  | succ fuel ih =>
    intro s vis acts base hs hact hfuel
    rw [AaveRisk.liqLoop_eq] at hfuel ⊢
    by_cases hc : AaveRisk.liqCond cx.toNumCtx (proj env s) = true
    swap
    · -- health factor not in (0, 1): nothing happens
      have hcf : AaveRisk.liqCond cx.toNumCtx (proj env s) = false := by simpa using hc
      rw [if_pos (by simp [hcf])]
      have hl : liquidateLoop cx env (fuel + 1) vis (toX (AaveRisk.healthFactor cx.toNumCtx (proj env s))) s = (.ok (), s) := by
        rw [liquidateLoop, guard_toX]
        have : ((AaveRisk.healthFactor cx.toNumCtx (proj env s)).gtB 0 &&
            (AaveRisk.healthFactor cx.toNumCtx (proj env s)).ltB Gen.arHfLiqThreshold) = false := hcf
        rw [this]
        rfl
      rw [hl]
      exact ⟨s, rfl, rfl, rfl, hact, hs, rfl⟩
    rw [if_neg (by simp [hc])] at hfuel ⊢
    obtain ⟨s2, hs2, hfr2, hhead⟩ := C12_sm_loop_head_refines hs fuel vis hc
    have hp2 : proj env s2 = proj env s := by
      unfold proj; rw [show s2.supplies = s.supplies from congrArg Frame.supplies hfr2,
        show s2.borrows = s.borrows from congrArg Frame.borrows hfr2]
    have hw2 : s2.wallet = s.wallet := congrArg Frame.wallet hfr2
    have ha2 : s2.actions = s.actions := congrArg Frame.actions hfr2
    rw [hhead]
    cases hp : AaveRisk.pickDebt cx.toNumCtx (proj env s).debts vis with
    | none =>
      exact ⟨s2, rfl, hp2, hw2, by rw [ha2]; exact hact, hs2, rfl⟩
    | some dv =>
      obtain ⟨d, v⟩ := dv
      rw [hp] at hfuel
      simp only [] at hfuel ⊢
      obtain ⟨hdm, _, _⟩ := AaveRisk.pickDebt_some hp
      obtain ⟨dinfo, hdg, hdeq⟩ := mem_debts_proj hs.2.nd hdm
      have hdg2 : AList.get? s2.borrows d.tok = some dinfo := by
        rw [show s2.borrows = s.borrows from congrArg Frame.borrows hfr2]; exact hdg
      cases hpc : (AaveRisk.pickColl cx.toNumCtx (proj env s).supplies).1 with
      | none =>
        -- no collateral entry: `collateral_token.name` on None
        rw [hpc] at hfuel
        obtain ⟨s3, e3, hfr3⟩ := doLiquidate_noColl hs2 hdg2 v
        simp only [Option.map_none]
        rw [run_bind_err (catch_other e3 rfl)]
        refine ⟨s3, rfl, ?_, ?_, ?_, ?_, .noneToken, rfl, rfl⟩
        · unfold proj; rw [show s3.supplies = s.supplies from (congrArg Frame.supplies hfr3).trans (congrArg Frame.supplies hfr2),
            show s3.borrows = s.borrows from (congrArg Frame.borrows hfr3).trans (congrArg Frame.borrows hfr2)]
        · exact (congrArg Frame.wallet hfr3).trans hw2
        · rw [show s3.actions = s2.actions from congrArg Frame.actions hfr3, ha2]; exact hact
        · exact (invE_doLiquidate (cx := cx) hE hP none (some d.tok) v).toInv s2 hs2 |> fun h => by rw [e3] at h; exact h
      | some c =>
        rw [hpc] at hfuel
        simp only [Option.map_some] at hfuel ⊢
        obtain ⟨hcm, _⟩ := AaveRisk.pickColl_some hpc
        obtain ⟨cinfo, hcg, hceq⟩ := mem_supplies_proj hs.1.nd hcm
        have hcg2 : AList.get? s2.supplies c.tok = some cinfo := by
          rw [show s2.supplies = s.supplies from congrArg Frame.supplies hfr2]; exact hcg
        have hstep := C12_sm_doLiquidate_refines (cx := cx) hE hs2 hcg2 hdg2 v
        rw [hp2, ← hceq, ← hdeq] at hstep
        have hgood3 : ∀ r s3, doLiquidate cx env (some c.tok) (some d.tok) v s2 = (r, s3) → Good cx env s3 := by
          intro r s3 h
          have := (invE_doLiquidate (cx := cx) hE hP (some c.tok) (some d.tok) v).toInv s2 hs2
          rw [h] at this; exact this
        cases hst : AaveRisk.doLiquidate cx.toNumCtx (proj env s) c d v with
        | done p' a =>
          rw [hst] at hstep hfuel
          simp only [] at hstep hfuel ⊢
          obtain ⟨s3, e3, hp3, hw3, ha3, hg3⟩ := hstep
          rw [run_bind_ok (catch_ok e3)]
          obtain ⟨s4, e4, hat4⟩ := run_healthFactor (⟨hg3, rfl⟩ : At cx env s3.frame s3)
          rw [run_bind_ok e4]
          have hp4 : proj env s4 = p' := by
            rw [← hp3]; unfold proj; rw [hat4.sup, hat4.bor]; rfl
          have hact4 : s4.actions = base ++ (acts ++ [a]).map actionOf := by
            rw [show s4.actions = s3.actions from congrArg Frame.actions hat4.2, ha3, ha2, hact]
            simp
          have hhf : projPos env s3.frame.supplies s3.frame.borrows = proj env s4 := by rw [hp4, ← hp3]; rfl
          rw [hhf]
          rw [← hp4] at hfuel ⊢
          obtain ⟨s', e', q1, q2, q3, q4, q5⟩ := ih s4 (vis ++ [d.tok]) (acts ++ [a]) base hat4.1 hact4 hfuel
          exact ⟨s', e', q1, by rw [q2, show s4.wallet = s3.wallet from congrArg Frame.wallet hat4.2, hw3, hw2], q3, q4, q5⟩
        | rejected =>
          rw [hst] at hstep hfuel
          simp only [] at hstep hfuel ⊢
          obtain ⟨e, s3, e3, hassert, hfr3⟩ := hstep
          have hg3 := hgood3 _ _ e3
          rw [run_bind_ok (catch_assert e3 hassert)]
          obtain ⟨s4, e4, hat4⟩ := run_healthFactor (⟨hg3, rfl⟩ : At cx env s3.frame s3)
          rw [run_bind_ok e4]
          have hp3 : proj env s3 = proj env s := by
            rw [← hp2]; unfold proj
            rw [show s3.supplies = s2.supplies from congrArg Frame.supplies hfr3,
              show s3.borrows = s2.borrows from congrArg Frame.borrows hfr3]
          have hp4 : proj env s4 = proj env s := by
            rw [← hp3]; unfold proj; rw [hat4.sup, hat4.bor]; rfl
          have hact4 : s4.actions = base ++ acts.map actionOf := by
            rw [show s4.actions = s3.actions from congrArg Frame.actions hat4.2,
              show s3.actions = s2.actions from congrArg Frame.actions hfr3, ha2, hact]
          have hhf : projPos env s3.frame.supplies s3.frame.borrows = proj env s4 := by rw [hp4, ← hp3]; rfl
          rw [hhf]
          rw [← hp4] at hfuel ⊢
          obtain ⟨s', e', q1, q2, q3, q4, q5⟩ := ih s4 (vis ++ [d.tok]) acts base hat4.1 hact4 hfuel
          refine ⟨s', e', q1, ?_, q3, q4, q5⟩
          rw [q2, show s4.wallet = s3.wallet from congrArg Frame.wallet hat4.2,
            show s3.wallet = s2.wallet from congrArg Frame.wallet hfr3, hw2]
        | raised x p' =>
          rw [hst] at hstep
          simp only [] at hstep ⊢
          obtain ⟨e, s3, e3, hcls, hna, hp3, hw3, ha3⟩ := hstep
          rw [run_bind_err (catch_other e3 hna)]
          exact ⟨s3, rfl, hp3, hw3.trans hw2, by rw [ha3, ha2]; exact hact, hgood3 _ _ e3, e, rfl, hcls⟩

/-- **`update()` of the state machine simulates `update()` of the risk model** (open market, coherent state, any
    arithmetic context): the final positions project to the risk model's final portfolio, the wallet is untouched, the
    `LiquidationAction`s appended to the log are exactly the risk model's actions, the state is coherent again, and
    `update()` raises iff the risk model says so, with the same exception class. -/
theorem C12_sm_update_refines (hE : EnvOK env) (hP : EnvPos env) {s : St} (hs : Good cx env s) (hopen : env.isOpen = true) :
    ∃ s', (liquidate cx env s).2 = s' ∧
      proj env s' = (AaveRisk.liquidate cx.toNumCtx (proj env s)).p ∧ s'.wallet = s.wallet ∧
      s'.actions = s.actions ++ (AaveRisk.liquidate cx.toNumCtx (proj env s)).actions.map actionOf ∧ Good cx env s' ∧
      (match (AaveRisk.liquidate cx.toNumCtx (proj env s)).err with
        | none => (liquidate cx env s).1 = .ok () ∧ s'.hasUpdate = true
        | some x => ∃ e, (liquidate cx env s).1 = .error e ∧ e.cls = x.name) := by
  obtain ⟨s1, e1, hat1⟩ := run_healthFactor (⟨hs, rfl⟩ : At cx env s.frame s)
  have hp1 : proj env s1 = proj env s := by unfold proj; rw [hat1.sup, hat1.bor]; rfl
  rw [show projPos env s.frame.supplies s.frame.borrows = proj env s from rfl] at e1
  have hlen : s1.borrows.length = (proj env s).debts.length := by
    rw [hat1.bor]; show _ = (s.borrows.map (projBor env)).length; rw [List.length_map]; rfl
  have hfuel := C12_fuel_suffices cx.toNumCtx (proj env s)
  unfold AaveRisk.liquidate at hfuel ⊢
  have hsim := liquidateLoop_sim (cx := cx) hE hP (s1.borrows.length + 1) s1 [] [] s1.actions hat1.1 (by simp)
    (by rw [hp1, hlen]; exact hfuel)
  rw [hp1, hlen] at hsim
  obtain ⟨s', e', q1, q2, q3, q4, q5⟩ := hsim
  have hrun : liquidate cx env s = (match liquidateLoop cx env ((proj env s).debts.length + 1) []
      (toX (AaveRisk.healthFactor cx.toNumCtx (proj env s))) s1 with
      | (.ok (), t) => (.ok (), { t with hasUpdate := true })
      | (.error e, t) => (.error e, t)) := by
    unfold liquidate guardOpen
    rw [run_bind_require_true hopen, run_bind_ok e1, run_bind_queryPos_ok (a := s1.borrows.length) rfl, hlen, run_bind]
    rcases liquidateLoop cx env ((proj env s).debts.length + 1) []
      (toX (AaveRisk.healthFactor cx.toNumCtx (proj env s))) s1 with ⟨r, t⟩
    cases r <;> rfl
  have hw1 : s1.wallet = s.wallet := congrArg Frame.wallet hat1.2
  have ha1 : s1.actions = s.actions := congrArg Frame.actions hat1.2
  rcases hloop : liquidateLoop cx env ((proj env s).debts.length + 1) []
      (toX (AaveRisk.healthFactor cx.toNumCtx (proj env s))) s1 with ⟨r, t⟩
  rw [hloop] at e' q5 hrun
  simp only at e'
  subst e'
  cases r with
  | ok u =>
    rw [hrun]
    refine ⟨{ t with hasUpdate := true }, rfl, q1, by rw [← hw1]; exact q2, by rw [← ha1]; exact q3,
      ⟨q4.1.congr rfl rfl rfl rfl, q4.2.congr rfl rfl rfl⟩, ?_⟩
    cases herr : (AaveRisk.liqLoop cx.toNumCtx ((proj env s).debts.length + 1) (proj env s) [] []).err with
    | none => exact ⟨rfl, rfl⟩
    | some x =>
      rw [herr] at q5
      obtain ⟨e, he, _⟩ := q5
      cases he
  | error e =>
    rw [hrun]
    refine ⟨t, rfl, q1, by rw [← hw1]; exact q2, by rw [← ha1]; exact q3, q4, ?_⟩
    cases herr : (AaveRisk.liqLoop cx.toNumCtx ((proj env s).debts.length + 1) (proj env s) [] []).err with
    | none => rw [herr] at q5; cases q5
    | some x =>
      rw [herr] at q5
      obtain ⟨e2, he, hc⟩ := q5
      cases he
      exact ⟨e, rfl, hc⟩

/-- **how `update()` ends, on the state machine**: if it returns without raising, then at the end the health factor of the
    positions is not in (0, 1), or every debt still held has been visited by the loop — `C12_ends` transferred. -/
theorem C12_sm_update_ends (hE : EnvOK env) (hP : EnvPos env) {s s' : St} (hs : Good cx env s) (hopen : env.isOpen = true)
    (h : liquidate cx env s = (.ok (), s')) :
    AaveRisk.liqCond cx.toNumCtx (proj env s') = false ∨
      ∀ d ∈ (proj env s').debts, d.tok ∈ (AaveRisk.liquidate cx.toNumCtx (proj env s)).visited := by
  obtain ⟨t, e, hp, _, _, _, hm⟩ := C12_sm_update_refines hE hP hs hopen
  rw [h] at e hm
  simp only at e
  subst e
  cases herr : (AaveRisk.liquidate cx.toNumCtx (proj env s)).err with
  | some x =>
    rw [herr] at hm
    obtain ⟨e, he, _⟩ := hm
    cases he
  | none =>
    rw [hp]
    exact C12_ends cx.toNumCtx (proj env s) herr

/-- **the wallet is never touched by `update()`**, on the state machine, whatever happens (returns or raises). -/
theorem C12_sm_update_wallet (hE : EnvOK env) (hP : EnvPos env) {s : St} (hs : Good cx env s) (hopen : env.isOpen = true) :
    (liquidate cx env s).2.wallet = s.wallet := by
  obtain ⟨t, e, _, hw, _⟩ := C12_sm_update_refines hE hP hs hopen
  rw [e]; exact hw

/-! ### non-vacuity: the unhealthy account of `C12.Refine` in a coherent state of a well-formed bar -/

example : EnvPos c11rEnv := by
  intro k st h
  unfold Env.statusOf c11rEnv at h
  by_cases h1 : k = "WETH"
  · subst h1; simp [aget_cons, optRes] at h; subst h; constructor <;> norm_num
  · by_cases h2 : k = "USDC"
    · subst h2; simp [aget_cons, optRes] at h; subst h; constructor <;> norm_num
    · exfalso; simp [aget_cons, optRes, Ne.symm h1, Ne.symm h2] at h

example : Good aaveExact c11rEnv c12rSt := by
  have hd : ∀ k, k = "WETH" ∨ k = "USDC" → HasData c11rEnv k := by
    intro k hk
    rcases hk with h | h <;> subst h <;> exact ⟨⟨_, rfl⟩, ⟨_, rfl⟩, ⟨_, rfl⟩⟩
  refine ⟨⟨by simp [keys, c12rSt], ?_, CohC.fresh _, CohC.fresh _, CohC.fresh _⟩,
    ⟨by simp [keys, c12rSt], ?_, CohC.fresh _, CohC.fresh _⟩⟩
  · intro k hk; simp [keys, c12rSt] at hk; exact hd k (Or.inl hk)
  · intro k hk; simp [keys, c12rSt] at hk; exact hd k (Or.inr hk)

/-- the risk model liquidates it in one step (HF 0.9075 ≤ 0.95: close factor 1 on the only debt), without raising -/
example : (AaveRisk.liquidate NumCtx.exact (proj c11rEnv c12rSt)).actions.length = 1 ∧
    (AaveRisk.liquidate NumCtx.exact (proj c11rEnv c12rSt)).err = none := by decide +kernel

end Demeter
