/-
  C12 — `update()` never raises `DemeterError` under the 35-digit rounding (review finding B-9).

  `C12_update_never_raises_demeter_error` (Proofs/C12/DebtCheck.lean) asks for `RndMono cx`: rounding monotone, idempotent,
  `rnd 0 = 0`, and was instantiated for exact arithmetic only.  For the guarded 35-digit context `NumCtx.pyG`
  (`rnd x = if InRange x then round35 x else x`, Proofs/Lemmas/Round35Ctx.lean: CPython's rounding on every number whose
  numerator and denominator are below 2^150000, the identity outside) GLOBAL monotonicity is not available and is not claimed
  here: for `x` in range and an out-of-range `y` with `x < y < round35 x` (a `y` with a huge denominator strictly between `x`
  and its rounded-up value) one has `x ≤ y` but `rnd x = round35 x > y = rnd y`; `round35_mono` needs both arguments in range.

  What the proof of the theorem really uses is less than monotonicity (`RndShrink` below): rounding keeps non-negative numbers
  non-negative, is idempotent, and halving an already rounded non-negative number and rounding again does not exceed it.
  `RndMono` implies `RndShrink`, and `NumCtx.pyG` satisfies `RndShrink` for ALL rationals, without any range hypothesis:
    * in range, `round35 (m/2) ≤ (m/2)(1 + 5·10⁻³⁵) ≤ m` (`round35_bounds`), `round35` is idempotent (`round35_idem`) and keeps
      the sign (`round35_nonneg`);
    * out of range the guarded context does not round at all.
  Hence `C12_update_never_raises_demeter_error_round35`: no `DemeterError` leaves `update()` under `NumCtx.pyG`, for every
  portfolio without negative debt entries, the whole loop.

  Not covered: the unguarded `NumCtx.py` (= `round35` on all rationals) outside `InRange`, i.e. on numbers with more than
  45 154 digits — the error bound of `round35` is proved from `Nat.log2` estimates that hold in range only.  `pyG` and `py`
  agree on every number in range (`NumCtx.pyG_rnd_eq`).
-/
import Proofs.C12.DebtCheck
import Proofs.Lemmas.Round35Ctx
namespace Demeter
open AaveRisk Demeter.Numerics

/-- what `C12_update_never_raises_demeter_error` needs of the rounding — weaker than `RndMono` -/
structure AaveRisk.RndShrink (cx : NumCtx) : Prop where
  /-- rounding keeps non-negative numbers non-negative -/
  nonneg : ∀ x : Rat, 0 ≤ x → 0 ≤ cx.rnd x
  /-- a rounded number is a fixed point -/
  idem : ∀ x : Rat, cx.rnd (cx.rnd x) = cx.rnd x
  /-- half of a rounded non-negative number, rounded, is not above it (`DEFAULT_LIQUIDATION_CLOSE_FACTOR = 1/2`) -/
  half : ∀ x : Rat, 0 ≤ x → cx.rnd (cx.rnd x * (1 / 2)) ≤ cx.rnd x

namespace AaveRisk

theorem RndMono.shrink {cx : NumCtx} (h : RndMono cx) : RndShrink cx := by
  have hn : ∀ x : Rat, 0 ≤ x → 0 ≤ cx.rnd x := fun x hx => by
    have := h.mono 0 x hx; rwa [h.zero] at this
  refine ⟨hn, h.idem, fun x hx => ?_⟩
  calc cx.rnd (cx.rnd x * (1 / 2)) ≤ cx.rnd (cx.rnd x) := h.mono _ _ (by linarith [hn x hx])
    _ = cx.rnd x := h.idem x

/-- the guarded 35-digit context: idempotent on all rationals (a rounded number that left the range is not rounded again) -/
theorem pyG_rnd_idem (x : Rat) : NumCtx.pyG.rnd (NumCtx.pyG.rnd x) = NumCtx.pyG.rnd x := by
  show (if InRange (if InRange x then round35 x else x) then round35 (if InRange x then round35 x else x)
        else (if InRange x then round35 x else x)) = (if InRange x then round35 x else x)
  by_cases hx : InRange x
  · simp only [if_pos hx]
    by_cases hr : InRange (round35 x)
    · rw [if_pos hr]; exact round35_idem x hx hr
    · rw [if_neg hr]
  · simp only [if_neg hx]

theorem pyG_rnd_nonneg (x : Rat) (hx : 0 ≤ x) : 0 ≤ NumCtx.pyG.rnd x := by
  show 0 ≤ (if InRange x then round35 x else x)
  split
  · exact round35_nonneg hx
  · exact hx

/-- for a non-negative `m`, `rnd (m/2) ≤ m` — in range by the relative error bound of `round35`, out of range trivially -/
theorem pyG_rnd_half_le (m : Rat) (hm : 0 ≤ m) : NumCtx.pyG.rnd (m * (1 / 2)) ≤ m := by
  show (if InRange (m * (1 / 2)) then round35 (m * (1 / 2)) else m * (1 / 2)) ≤ m
  split
  · rename_i hr
    have hb := (round35_bounds (by linarith : (0 : Rat) ≤ m * (1 / 2)) hr).2
    have he : EPS35 ≤ 1 := le_trans EPS35_small (by norm_num)
    nlinarith
  · linarith

theorem rndShrink_pyG : RndShrink NumCtx.pyG :=
  ⟨pyG_rnd_nonneg, pyG_rnd_idem, fun x hx => pyG_rnd_half_le _ (pyG_rnd_nonneg x hx)⟩

theorem rndShrink_exact : RndShrink NumCtx.exact := rndMono_exact.shrink

/-- `debt × close factor`, rounded, is not above the (already rounded) debt — for the two close factors of the code -/
theorem maxLiq_le_shrink {cx : NumCtx} (h : RndShrink cx) {base idx : Rat} (hb : 0 ≤ base) (hi : 0 ≤ idx) (b : Bool) :
    cx.mul (cx.mul base idx) (if b then Gen.arDefaultCloseFactor else Gen.arMaxCloseFactor) ≤ cx.mul base idx := by
  cases b
  · -- close factor 1
    show cx.rnd (cx.rnd (base * idx) * (if false = true then Gen.arDefaultCloseFactor else Gen.arMaxCloseFactor)) ≤ cx.rnd (base * idx)
    rw [if_neg (by decide), show Gen.arMaxCloseFactor = 1 from rfl, mul_one, h.idem]
  · -- close factor 1/2
    show cx.rnd (cx.rnd (base * idx) * (if true = true then Gen.arDefaultCloseFactor else Gen.arMaxCloseFactor)) ≤ cx.rnd (base * idx)
    rw [if_pos rfl, show Gen.arDefaultCloseFactor = 1 / 2 from rfl]
    exact h.half _ (mul_nonneg hb hi)

/-- one step never raises `DemeterError` -/
theorem doLiquidate_no_demeter_shrink {cx : NumCtx} (h : RndShrink cx) (p : Portfolio) (c : Supply) (d : Debt) (cover : Rat)
    (hb : 0 ≤ d.base) (hi : 0 ≤ d.row.borIndex) (q : Portfolio) :
    doLiquidate cx p c d cover ≠ .raised .demeter q := by
  have hmax : cx.mul (gDebt cx d) (gCf cx p) ≤ gDebt cx d :=
    maxLiq_le_shrink h hb hi ((healthFactor cx p).gtB Gen.arCloseFactorHfThreshold)
  have hle : gRepaid cx p c d cover ≤ gDebt cx d :=
    le_trans (gRepaid_le_toLiq cx p c d cover) (le_trans (gToLiq_le_maxLiq cx p d cover) hmax)
  rw [doLiquidate_gen_eq]
  split; · intro hc; cases hc
  split; · intro hc; cases hc
  split; · intro hc; cases hc
  split; · intro hc; cases hc
  split
  · rename_i hlt; exact absurd hlt (not_lt.mpr hle)
  split; · intro hc; cases hc
  split; · intro hc; cases hc
  intro hc; cases hc

theorem liqLoop_no_demeter_shrink {cx : NumCtx} (h : RndShrink cx) : ∀ (fuel : Nat) (p : Portfolio) (vis : List String)
    (acts : List LiqAction), DebtsNonneg p → (liqLoop cx fuel p vis acts).err ≠ some .demeter := by
  intro fuel
  induction fuel with
  | zero =>
    intro p vis acts _
    rw [liqLoop_eq]
    split; · simp
    split <;> simp
  | succ n ih =>
    intro p vis acts hp
    rw [liqLoop_eq]
    split; · simp
    split; · simp
    rename_i d v hpd
    dsimp only
    split; · simp
    rename_i c _
    obtain ⟨hdm, _, _⟩ := pickDebt_some hpd
    split
    · rename_i p' a hdo
      exact ih p' _ _ (doLiquidate_debtsNonneg hp hdo)
    · exact ih p _ _ hp
    · rename_i e p' hdo
      intro hcon
      simp only [Option.some.injEq] at hcon
      subst hcon
      exact doLiquidate_no_demeter_shrink h p c d v (hp d hdm).1 (hp d hdm).2 p' hdo

end AaveRisk

/-- **`update()` never raises `DemeterError`, weaker hypothesis on the rounding**: sign-preserving, idempotent, and
    `rnd (rnd x / 2) ≤ rnd x` for `x ≥ 0` (implied by `RndMono`, `RndMono.shrink`).  `C12_update_never_raises_demeter_error` is
    the special case. -/
theorem C12_update_never_raises_demeter_error_shrink {cx : NumCtx} (h : RndShrink cx) (p : Portfolio) (hp : DebtsNonneg p) :
    (liquidate cx p).err ≠ some .demeter ∧ Gen.arDefaultCloseFactor = 1 / 2 ∧ Gen.arMaxCloseFactor = 1 := by
  refine ⟨?_, rfl, rfl⟩
  unfold liquidate
  exact liqLoop_no_demeter_shrink h _ p [] [] hp

/-- **`update()` never raises `DemeterError` under the 35-digit Decimal rounding** (the guarded context `NumCtx.pyG`:
    CPython's round-half-even to 35 significant digits on every rational whose numerator and denominator are below 2^150000,
    no rounding outside): the check `variable_delt < actual_debt_to_liquidate` of `_do_liquidate` never fires, on any step of the
    loop, for every portfolio without negative debt entries.  No range hypothesis on the portfolio is needed. -/
theorem C12_update_never_raises_demeter_error_round35 (p : Portfolio) (hp : DebtsNonneg p) :
    (liquidate NumCtx.pyG p).err ≠ some .demeter
    ∧ (∀ x : Rat, InRange x → NumCtx.pyG.rnd x = NumCtx.py.rnd x)
    ∧ Gen.arDefaultCloseFactor = 1 / 2 ∧ Gen.arMaxCloseFactor = 1 :=
  ⟨(C12_update_never_raises_demeter_error_shrink rndShrink_pyG p hp).1, fun _ h => NumCtx.pyG_rnd_eq h, rfl, rfl⟩

/-- the rounding really happens in this statement: under `pyG` a product with more than 35 digits is rounded
    (`1.00000000000000000000000000000000001² → 1.0000000000000000000000000000000000`, the 35-digit round-half-even of
    `1.0000000000000000000000000000000000200…01`), so `pyG` is not the exact context -/
theorem C12_round35_context_rounds :
    NumCtx.pyG.mul (1 + 1 / 10 ^ 35) (1 + 1 / 10 ^ 35) ≠ NumCtx.exact.mul (1 + 1 / 10 ^ 35) (1 + 1 / 10 ^ 35) := by
  decide +kernel

/-! ### non-vacuity -/

example : RndShrink NumCtx.pyG := rndShrink_pyG
example : RndShrink NumCtx.exact := rndShrink_exact
example : DebtsNonneg exP ∧ (liquidate NumCtx.pyG exP).err ≠ some .demeter := by
  have hp : DebtsNonneg exP := by
    intro d hd
    simp only [exP, List.mem_singleton] at hd
    subst hd
    constructor <;> simp [exD, exRowU]
  exact ⟨hp, (C12_update_never_raises_demeter_error_round35 exP hp).1⟩

end Demeter
