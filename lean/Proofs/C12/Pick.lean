/-
  C12 — which pair `_liquidate` hands to `_do_liquidate`, in every arithmetic context: the unvisited debt of the
  smallest value and the collateral supply of the largest value, the *last* one in dict order on ties (the code
  compares with `>=` / `<=` while iterating the dicts).
-/
import Proofs.Lemmas.AaveRiskLoop
namespace Demeter
open AaveRisk

namespace AaveRisk

theorem pickDebtStep_visited (cx : NumCtx) (vis : List String) (acc : Option (Debt × Rat)) (x : Debt)
    (h : x.tok ∈ vis) : pickDebtStep cx vis acc x = acc := by
  unfold pickDebtStep; simp [h]

theorem pickDebtStep_none (cx : NumCtx) (vis : List String) (x : Debt) (h : x.tok ∉ vis) :
    pickDebtStep cx vis none x = some (x, x.value cx) := by
  unfold pickDebtStep; simp [h]

theorem pickDebtStep_le (cx : NumCtx) (vis : List String) (e : Debt) (m : Rat) (x : Debt) (h : x.tok ∉ vis)
    (hle : x.value cx ≤ m) : pickDebtStep cx vis (some (e, m)) x = some (x, x.value cx) := by
  unfold pickDebtStep; simp [h, hle]

theorem pickDebtStep_gt (cx : NumCtx) (vis : List String) (e : Debt) (m : Rat) (x : Debt)
    (hgt : m < x.value cx) : pickDebtStep cx vis (some (e, m)) x = some (e, m) := by
  unfold pickDebtStep; simp [not_le.mpr hgt]

/-- the fold either keeps its accumulator (every unvisited element is strictly more valuable) or ends on an element
    that splits the list as described -/
theorem pickDebt_fold_spec (cx : NumCtx) (vis : List String) (l : List Debt) (acc : Option (Debt × Rat)) :
    (l.foldl (pickDebtStep cx vis) acc = acc
        ∧ ∀ x ∈ l, x.tok ∉ vis → ∃ e m, acc = some (e, m) ∧ m < x.value cx)
    ∨ (∃ d l1 l2, l.foldl (pickDebtStep cx vis) acc = some (d, d.value cx) ∧ d.tok ∉ vis ∧ l = l1 ++ d :: l2
        ∧ (∀ x ∈ l1, x.tok ∉ vis → d.value cx ≤ x.value cx) ∧ (∀ x ∈ l2, x.tok ∉ vis → d.value cx < x.value cx)
        ∧ (∀ e m, acc = some (e, m) → d.value cx ≤ m)) := by
  induction l generalizing acc with
  | nil => left; exact ⟨rfl, by simp⟩
  | cons x r ih =>
    rw [List.foldl_cons]
    by_cases hv : x.tok ∈ vis
    · -- visited: skipped
      rw [pickDebtStep_visited cx vis acc x hv]
      rcases ih acc with ⟨h1, h2⟩ | ⟨d, l1, l2, h1, h2, h3, h4, h5, h6⟩
      · left
        refine ⟨h1, ?_⟩
        intro y hy hyv
        rcases List.mem_cons.mp hy with rfl | hr
        · exact absurd hv hyv
        · exact h2 y hr hyv
      · right
        refine ⟨d, x :: l1, l2, h1, h2, by rw [h3]; rfl, ?_, h5, h6⟩
        intro y hy hyv
        rcases List.mem_cons.mp hy with rfl | hr
        · exact absurd hv hyv
        · exact h4 y hr hyv
    · -- unvisited
      have hnew : ∀ (acc' : Option (Debt × Rat)), acc' = some (x, x.value cx) →
          (∀ e m, acc = some (e, m) → x.value cx ≤ m) →
          ∃ d l1 l2, r.foldl (pickDebtStep cx vis) acc' = some (d, d.value cx) ∧ d.tok ∉ vis ∧ x :: r = l1 ++ d :: l2
            ∧ (∀ y ∈ l1, y.tok ∉ vis → d.value cx ≤ y.value cx) ∧ (∀ y ∈ l2, y.tok ∉ vis → d.value cx < y.value cx)
            ∧ (∀ e m, acc = some (e, m) → d.value cx ≤ m) := by
        intro acc' hacc' hle
        rcases ih acc' with ⟨h1, h2⟩ | ⟨d, l1, l2, h1, h2, h3, h4, h5, h6⟩
        · refine ⟨x, [], r, by rw [h1, hacc'], hv, rfl, by simp, ?_, hle⟩
          intro y hy hyv
          obtain ⟨e, m, he, hm⟩ := h2 y hy hyv
          rw [hacc'] at he
          simp only [Option.some.injEq, Prod.mk.injEq] at he
          rw [he.2]; exact hm
        · have hdx : d.value cx ≤ x.value cx := h6 x (x.value cx) hacc'
          refine ⟨d, x :: l1, l2, h1, h2, by rw [h3]; rfl, ?_, h5, ?_⟩
          · intro y hy hyv
            rcases List.mem_cons.mp hy with rfl | hr
            · exact hdx
            · exact h4 y hr hyv
          · intro e m he; exact le_trans hdx (hle e m he)
      cases hacc : acc with
      | none =>
        rw [pickDebtStep_none cx vis x hv]
        right
        have := hnew (some (x, x.value cx)) rfl (by intro e m he; rw [hacc] at he; cases he)
        simpa [hacc] using this
      | some em =>
        obtain ⟨e, m⟩ := em
        by_cases hle : x.value cx ≤ m
        · rw [pickDebtStep_le cx vis e m x hv hle]
          right
          have := hnew (some (x, x.value cx)) rfl (by
            intro e' m' he; rw [hacc] at he
            simp only [Option.some.injEq, Prod.mk.injEq] at he; rw [← he.2]; exact hle)
          obtain ⟨d, l1, l2, h1, h2, h3, h4, h5, h6⟩ := this
          exact ⟨d, l1, l2, h1, h2, h3, h4, h5, by intro e' m' he; exact h6 e' m' (by rw [hacc]; exact he)⟩
        · have hgt : m < x.value cx := not_le.mp hle
          rw [pickDebtStep_gt cx vis e m x hgt]
          rcases ih (some (e, m)) with ⟨h1, h2⟩ | ⟨d, l1, l2, h1, h2, h3, h4, h5, h6⟩
          · left
            refine ⟨h1, ?_⟩
            intro y hy hyv
            rcases List.mem_cons.mp hy with rfl | hr
            · exact ⟨e, m, rfl, hgt⟩
            · exact h2 y hr hyv
          · right
            have hdm : d.value cx ≤ m := h6 e m rfl
            refine ⟨d, x :: l1, l2, h1, h2, by rw [h3]; rfl, ?_, h5, h6⟩
            intro y hy hyv
            rcases List.mem_cons.mp hy with rfl | hr
            · exact le_of_lt (lt_of_le_of_lt hdm hgt)
            · exact h4 y hr hyv

theorem pickCollStep_skip (cx : NumCtx) (acc : Option Supply × Rat) (x : Supply)
    (h : x.coll = false ∨ x.value cx < acc.2) : pickCollStep cx acc x = acc := by
  unfold pickCollStep
  rcases h with h | h
  · simp [h]
  · simp [not_le.mpr h]

theorem pickCollStep_take (cx : NumCtx) (acc : Option Supply × Rat) (x : Supply)
    (hc : x.coll = true) (h : acc.2 ≤ x.value cx) : pickCollStep cx acc x = (some x, x.value cx) := by
  unfold pickCollStep; simp [hc, h]

theorem pickColl_fold_spec (cx : NumCtx) (l : List Supply) (acc : Option Supply × Rat) :
    (l.foldl (pickCollStep cx) acc = acc ∧ ∀ x ∈ l, x.coll = true → x.value cx < acc.2)
    ∨ (∃ c l1 l2, l.foldl (pickCollStep cx) acc = (some c, c.value cx) ∧ c.coll = true ∧ l = l1 ++ c :: l2
        ∧ (∀ x ∈ l1, x.coll = true → x.value cx ≤ c.value cx) ∧ (∀ x ∈ l2, x.coll = true → x.value cx < c.value cx)
        ∧ acc.2 ≤ c.value cx) := by
  induction l generalizing acc with
  | nil => left; exact ⟨rfl, by simp⟩
  | cons x r ih =>
    rw [List.foldl_cons]
    by_cases htake : x.coll = true ∧ acc.2 ≤ x.value cx
    · rw [pickCollStep_take cx acc x htake.1 htake.2]
      right
      rcases ih (some x, x.value cx) with ⟨h1, h2⟩ | ⟨c, l1, l2, h1, h2, h3, h4, h5, h6⟩
      · exact ⟨x, [], r, h1, htake.1, rfl, by simp, h2, htake.2⟩
      · refine ⟨c, x :: l1, l2, h1, h2, by rw [h3]; rfl, ?_, h5, le_trans htake.2 h6⟩
        intro y hy hyc
        rcases List.mem_cons.mp hy with rfl | hr
        · exact h6
        · exact h4 y hr hyc
    · have hskip : x.coll = false ∨ x.value cx < acc.2 := by
        by_cases hc : x.coll = true
        · right; exact not_le.mp (fun h => htake ⟨hc, h⟩)
        · left; simpa using hc
      rw [pickCollStep_skip cx acc x hskip]
      rcases ih acc with ⟨h1, h2⟩ | ⟨c, l1, l2, h1, h2, h3, h4, h5, h6⟩
      · left
        refine ⟨h1, ?_⟩
        intro y hy hyc
        rcases List.mem_cons.mp hy with rfl | hr
        · rcases hskip with h | h
          · rw [h] at hyc; cases hyc
          · exact h
        · exact h2 y hr hyc
      · right
        refine ⟨c, x :: l1, l2, h1, h2, by rw [h3]; rfl, ?_, h5, h6⟩
        intro y hy hyc
        rcases List.mem_cons.mp hy with rfl | hr
        · rcases hskip with h | h
          · rw [h] at hyc; cases hyc
          · exact le_of_lt (lt_of_lt_of_le h h6)
        · exact h4 y hr hyc

end AaveRisk

/-- **The debt handed to `_do_liquidate`**: an unvisited entry of `_borrows` of minimal value among the unvisited
    ones — the last such entry in dict order — together with its value as "amount to cover". -/
theorem C12_debt_pick (cx : NumCtx) (ds : List Debt) (vis : List String) (d : Debt) (v : Rat)
    (h : pickDebt cx ds vis = some (d, v)) :
    v = d.value cx ∧ d.tok ∉ vis ∧ ∃ l1 l2, ds = l1 ++ d :: l2
      ∧ (∀ x ∈ l1, x.tok ∉ vis → d.value cx ≤ x.value cx) ∧ (∀ x ∈ l2, x.tok ∉ vis → d.value cx < x.value cx) := by
  rw [pickDebt_eq] at h
  rcases pickDebt_fold_spec cx vis ds none with ⟨h1, _⟩ | ⟨d', l1, l2, h1, h2, h3, h4, h5, _⟩
  · rw [h1] at h; cases h
  · rw [h1] at h
    simp only [Option.some.injEq, Prod.mk.injEq] at h
    obtain ⟨rfl, rfl⟩ := h
    exact ⟨rfl, h2, l1, l2, h3, h4, h5⟩

/-- **The collateral handed to `_do_liquidate`**: a supply flagged as collateral of maximal (non-negative) value — the
    last such entry of `_supplies` in dict order. -/
theorem C12_collateral_pick (cx : NumCtx) (ss : List Supply) (c : Supply) (h : (pickColl cx ss).1 = some c) :
    c.coll = true ∧ 0 ≤ c.value cx ∧ (pickColl cx ss).2 = c.value cx ∧ ∃ l1 l2, ss = l1 ++ c :: l2
      ∧ (∀ x ∈ l1, x.coll = true → x.value cx ≤ c.value cx) ∧ (∀ x ∈ l2, x.coll = true → x.value cx < c.value cx) := by
  rw [pickColl_eq] at h ⊢
  rcases pickColl_fold_spec cx ss (none, Gen.arLiqCollStart) with ⟨h1, _⟩ | ⟨c', l1, l2, h1, h2, h3, h4, h5, h6⟩
  · rw [h1] at h; cases h
  · rw [h1] at h ⊢
    simp only [Option.some.injEq] at h
    subst h
    exact ⟨h2, by simpa [Gen.arLiqCollStart] using h6, rfl, l1, l2, h3, h4, h5⟩

/-! ### non-vacuity: ties go to the last entry -/
namespace AaveRisk
def pkRow : Row := { liqIndex := 1, borIndex := 1, price := 1, ltv := 1/2, lt := 3/4, bonus := 1/20, canColl := true, canBorrow := true }
example : (pickDebt NumCtx.exact [{ tok := "A", base := 5, row := pkRow }, { tok := "B", base := 3, row := pkRow },
    { tok := "C", base := 3, row := pkRow }, { tok := "D", base := 1, row := pkRow }] ["D"]).map (·.1.tok) = some "C" := by
  decide +kernel
example : ((pickColl NumCtx.exact [{ tok := "A", base := 5, coll := true, row := pkRow }, { tok := "B", base := 7, coll := false, row := pkRow },
    { tok := "C", base := 5, coll := true, row := pkRow }]).1).map (·.tok) = some "C" := by
  decide +kernel
end AaveRisk

end Demeter
