/-
  C12 / C11 — "a supply flagged as collateral has a positive liquidation threshold" is no longer an assumption on the state: it
  follows from an invariant the code itself maintains since repair 500c37d,

      Admitted p  :=  every supply flagged as collateral belongs to a token whose `usageAsCollateralEnabled` is true,

  and a property of the risk table alone (`TableSane`: an admitted token has a positive threshold — checked by the harness on every
  CSV under tests/aave_risk_parameters).  `Admitted` is kept by every accepted `borrow` / `withdraw` / `change_collateral`
  (`change_collateral(…, True)` now refuses a token that is not admitted, as `supply(…, collateral=True)` always did) and by
  `update()` — in every arithmetic context, whatever `update()` does or raises.  Before the repair it was not:
  `C12_fails_flag_on_non_collateralisable_pre_fix`.
-/
import Proofs.C12.Loop
import Proofs.C11
namespace Demeter
open AaveRisk

namespace AaveRisk

/-- every supply flagged as collateral belongs to a token the risk table admits as collateral -/
def Admitted (p : Portfolio) : Prop := ∀ s ∈ p.supplies, s.coll = true → s.row.canColl = true

/-- the risk table gives every token it admits as collateral a positive liquidation threshold (a property of the CSV) -/
def TableSane (p : Portfolio) : Prop := ∀ s ∈ p.supplies, s.row.canColl = true → 0 < s.row.lt

/-- `Portfolio.WF` without its clause "flagged ⇒ positive threshold" -/
structure Portfolio.WF0 (p : Portfolio) : Prop where
  sup : ∀ s ∈ p.supplies, 0 ≤ s.base ∧ s.row.WF
  deb : ∀ d ∈ p.debts, 0 ≤ d.base ∧ d.row.WF
  supKeys : (p.supplies.map (·.tok)).Nodup
  debKeys : (p.debts.map (·.tok)).Nodup

theorem Portfolio.WF0.wf {p : Portfolio} (h : p.WF0) (ha : Admitted p) (ht : TableSane p) : p.WF :=
  ⟨fun s hs => ⟨(h.sup s hs).1, (h.sup s hs).2, fun hc => ht s hs (ha s hs hc)⟩, h.deb, h.supKeys, h.debKeys⟩

theorem admitted_of_supplies_put {p q : Portfolio} {t : String} {b : Rat} (h : Admitted p)
    (hq : q.supplies = putSupplyBase p.supplies t b) : Admitted q := by
  intro s hs hc
  rw [hq] at hs
  rcases mem_putSupplyBase hs with h1 | ⟨s0, hs0, _, rfl⟩
  · exact h s h1 hc
  · exact h s0 hs0 hc

theorem admitted_of_supplies_eq {p q : Portfolio} (h : Admitted p) (hq : q.supplies = p.supplies) : Admitted q := by
  intro s hs hc; rw [hq] at hs; exact h s hs hc

/-- what a step that raises leaves in `_supplies`: nothing changed, or the collateral's balance reduced -/
theorem doLiquidate_raised_shape {cx : NumCtx} {p : Portfolio} {c : Supply} {d : Debt} {cover : Rat} {e : Exc} {q : Portfolio}
    (h : doLiquidate cx p c d cover = .raised e q) :
    q.supplies = p.supplies ∨ ∃ x, q.supplies = putSupplyBase p.supplies c.tok x := by
  unfold doLiquidate at h
  extract_lets _ _ _ _ _ _ at h
  split at h; · cases h
  split at h; · cases h
  split at h; · (cases h; exact Or.inl rfl)
  split at h; · (cases h; exact Or.inl rfl)
  split at h; · (cases h; exact Or.inl rfl)
  split at h; · (cases h; exact Or.inl rfl)
  split at h
  · simp only [StepOut.raised.injEq] at h
    obtain ⟨_, hq⟩ := h
    rw [← hq]
    exact Or.inr ⟨_, rfl⟩
  · cases h

theorem liqLoop_admitted (cx : NumCtx) : ∀ (fuel : Nat) (p : Portfolio) (vis : List String) (acts : List LiqAction),
    Admitted p → Admitted (liqLoop cx fuel p vis acts).p := by
  intro fuel
  induction fuel with
  | zero =>
    intro p vis acts h
    rw [liqLoop_eq]
    split
    · exact h
    · split
      · exact h
      · exact h
  | succ k ih =>
    intro p vis acts h
    rw [liqLoop_eq]
    split
    · exact h
    · split
      · exact h
      · rename_i d v _
        dsimp only
        cases hpc : (pickColl cx p.supplies).1 with
        | none => exact h
        | some c =>
          dsimp only
          cases hdo : doLiquidate cx p c d v with
          | done p' a =>
            obtain ⟨⟨x, hx⟩, _⟩ := doLiquidate_done_shape hdo
            exact ih p' _ _ (admitted_of_supplies_put h hx)
          | rejected => exact ih p _ _ h
          | raised e q =>
            rcases doLiquidate_raised_shape hdo with hq | ⟨x, hx⟩
            · exact admitted_of_supplies_eq h hq
            · exact admitted_of_supplies_put h hx

end AaveRisk

/-- **`update()` keeps the collateral flags admitted** — every arithmetic context, whatever it liquidates or raises. -/
theorem C12_update_keeps_flags_admitted (cx : NumCtx) (p : Portfolio) (h : Admitted p) : Admitted (liquidate cx p).p :=
  liqLoop_admitted cx _ p [] [] h

/-- **accepted `borrow` keeps the flags admitted** (it does not touch `_supplies`) -/
theorem C11_borrow_keeps_flags_admitted {p p' : Portfolio} {tok : String} {row : Row} {a x : Rat}
    (hb : AaveRisk.borrow NumCtx.exact p tok row (some a) = .ok (p', x)) (h : Admitted p) : Admitted p' := by
  refine admitted_of_supplies_eq h ?_
  rw [borrow_exact_eq] at hb
  split_ifs at hb
  simp only [Except.ok.injEq, Prod.mk.injEq] at hb
  rw [← hb.1]

/-- **accepted `withdraw` keeps the flags admitted** (a balance is reduced or an entry removed) -/
theorem C11_withdraw_keeps_flags_admitted {p p' : Portfolio} {tok : String} {a x : Rat}
    (hw : AaveRisk.withdraw NumCtx.exact p tok (some a) = .ok (p', x)) (h : Admitted p) : Admitted p' := by
  rw [withdraw_exact_eq] at hw
  cases hf : findSupply? p.supplies tok with
  | none => rw [hf] at hw; cases hw
  | some s =>
    rw [hf] at hw
    simp only [] at hw
    split_ifs at hw
    simp only [Except.ok.injEq, Prod.mk.injEq] at hw
    exact admitted_of_supplies_put h (by rw [← hw.1])

/-- **accepted `change_collateral` keeps the flags admitted**: switching on is accepted only for an admitted token
    (repair 500c37d; `C11_change_collateral`) -/
theorem C11_change_collateral_keeps_flags_admitted {p p' : Portfolio} {tok : String} {flag : Bool}
    (hc : changeCollateral NumCtx.exact p tok flag = .ok p') (hk : (p.supplies.map (·.tok)).Nodup) (h : Admitted p) :
    Admitted p' := by
  obtain ⟨hcases, _, hcan⟩ := (C11_change_collateral p tok flag).2 p' hc
  rcases hcases with rfl | hq
  · exact h
  · obtain ⟨s0, hf, _⟩ := ((C11_change_collateral p tok flag).1).mp ⟨p', hc⟩
    obtain ⟨hsm, hst⟩ := mem_of_findSupply hf
    intro y hy hyc
    rw [hq] at hy
    simp only [] at hy
    unfold setSupplyColl at hy
    rcases mem_updFirst _ _ hy with h1 | ⟨s1, hs1, hq1, rfl⟩
    · exact h y h1 hyc
    · have hk1 : s1.tok = tok := by simpa using hq1
      have e : s1 = s0 := eq_of_mem_of_key_eq Supply.tok hk hs1 hsm (by rw [hk1, hst])
      subst e
      have hfl : flag = true := hyc
      cases hcs : s1.coll with
      | true => exact h s1 hs1 hcs
      | false => exact hcan s1 hf hcs hfl

/-- **liquidated iff 0 < HF < 1, without assuming anything about flags**: for a portfolio whose balances, indices and prices are
    well formed (`WF0`), whose flags are admitted (an invariant of the code, theorems above) and whose risk table is sane. -/
theorem C12_liquidates_iff_admitted (p : Portfolio) (hwf : p.WF0) (ha : Admitted p) (ht : TableSane p)
    (hpos : ∀ d ∈ p.debts, 0 < d.base) :
    ((liquidate NumCtx.exact p).actions ≠ [] ↔ ∃ x, healthFactor NumCtx.exact p = some x ∧ 0 < x ∧ x < 1) :=
  C12_liquidates_iff p (hwf.wf ha ht) hpos

/-! ### the pre-fix behaviour: a flag on a token that is not admitted blocks the liquidation -/
namespace AaveRisk

/-- `change_collateral` as it was before 500c37d: no look at `usageAsCollateralEnabled` -/
def changeCollateralPreFix (cx : NumCtx) (p : Portfolio) (tok : String) (flag : Bool) : Except Cause Portfolio :=
  match findSupply? p.supplies tok with
  | none => .error .notSupplied
  | some s =>
    if s.coll = flag then .ok p else
    let p' : Portfolio := { p with supplies := setSupplyColl p.supplies tok flag }
    if flag = false ∧ (healthFactor cx p').ltB Gen.arHfLiqThreshold = true then .error .hfLowAfter
    else .ok p'

def admRowW : Row := { liqIndex := 1, borIndex := 1, price := 800, ltv := 8/10, lt := 825/1000, bonus := 5/100, canColl := true, canBorrow := true }
/-- GHO in the ethereum table: not usable as collateral, threshold 0 -/
def admRowG : Row := { liqIndex := 1, borIndex := 1, price := 1, ltv := 0, lt := 0, bonus := 0, canColl := false, canBorrow := true }
def admRowU : Row := { liqIndex := 1, borIndex := 1, price := 1, ltv := 77/100, lt := 8/10, bonus := 45/1000, canColl := true, canBorrow := true }
/-- 10 WETH (now 800 USD) as collateral, 20000 GHO supplied with collateral=False, 7000 USDC borrowed: HF = 6600/7000 -/
def admP : Portfolio :=
  { supplies := [{ tok := "WETH", base := 10, coll := true, row := admRowW }, { tok := "GHO", base := 20000, coll := false, row := admRowG }],
    debts := [{ tok := "USDC", base := 7000, row := admRowU }] }

def admIsOk (r : Except Cause Portfolio) : Bool := match r with | .ok _ => true | .error _ => false
def admPre : Portfolio := match changeCollateralPreFix NumCtx.exact admP "GHO" true with | .ok q => q | .error _ => admP

end AaveRisk

/-- **witness (pre-fix)**: `change_collateral(GHO, True)` was accepted; afterwards the health factor is 0.943 < 1 and `update()`
    liquidates nothing and changes nothing (the GHO supply is the most valuable flagged one, `_do_liquidate` refuses it for every
    debt) — "liquidated iff 0 < HF < 1" fails.  The repaired call refuses the switch, the flags stay admitted, and the same bar
    liquidates. -/
theorem C12_fails_flag_on_non_collateralisable_pre_fix :
    admIsOk (changeCollateralPreFix NumCtx.exact admP "GHO" true) = true ∧
    liqCond NumCtx.exact admPre = true ∧ (liquidate NumCtx.exact admPre).actions = [] ∧ (liquidate NumCtx.exact admPre).p = admPre ∧
    ¬ Admitted admPre ∧
    changeCollateral NumCtx.exact admP "GHO" true = .error .cannotCollateral ∧
    (liquidate NumCtx.exact admP).actions ≠ [] := by
  refine ⟨by decide +kernel, by decide +kernel, by decide +kernel, by decide +kernel, ?_, by decide +kernel, by decide +kernel⟩
  intro h
  have := h { tok := "GHO", base := 20000, coll := true, row := admRowG } (by decide +kernel) rfl
  cases this

/-! ### non-vacuity -/
example : Admitted admP ∧ TableSane admP ∧ admP.WF0 := by
  refine ⟨?_, ?_, ?_⟩
  · intro s hs hc
    simp only [admP, List.mem_cons, List.mem_singleton, List.not_mem_nil, or_false] at hs
    rcases hs with rfl | rfl
    · rfl
    · cases hc
  · intro s hs hc
    simp only [admP, List.mem_cons, List.mem_singleton, List.not_mem_nil, or_false] at hs
    rcases hs with rfl | rfl
    · show (0 : Rat) < 825 / 1000; norm_num
    · cases hc
  · refine ⟨?_, ?_, by decide, by decide⟩
    · intro s hs
      simp only [admP, List.mem_cons, List.mem_singleton, List.not_mem_nil, or_false] at hs
      rcases hs with rfl | rfl <;> refine ⟨by decide +kernel, ⟨?_, ?_, ?_, ?_, ?_, ?_⟩⟩ <;> decide +kernel
    · intro d hd
      simp only [admP, List.mem_singleton] at hd
      subst hd
      refine ⟨by decide +kernel, ⟨?_, ?_, ?_, ?_, ?_, ?_⟩⟩ <;> decide +kernel

end Demeter
