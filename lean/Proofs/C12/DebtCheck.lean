/-
  C12 — the last `raise` of `_do_liquidate`, `DemeterError("variable_delt < actual_debt_to_liquidate")`, is unreachable from
  portfolios without negative debts, for EVERY arithmetic context whose rounding is monotone, idempotent and fixes 0 (CPython's
  round-half-even to 35 digits is; so is exact arithmetic): the repayment is `min`-ed down from `debt × close factor`, the
  close factors are `DEFAULT_LIQUIDATION_CLOSE_FACTOR = 0.5` and `MAX_LIQUIDATION_CLOSE_FACTOR = 1`, and
  `rnd(rnd(x)·cf) ≤ rnd(rnd(x)) = rnd(x)`.  Hence `update()` never raises `DemeterError` — the whole loop, any number of
  debts, because a liquidation step leaves no negative debt behind (`sub_base_amount` snaps to 0).
  With the health-factor read that precedes the loop this is what used to be excluded from C13 ("one raise inside
  `_do_liquidate`"): `Proofs/C13/Update.lean` transfers it to the cache-carrying state machine.
-/
import Proofs.C12.Loop
namespace Demeter
open AaveRisk

/-- what the theorem needs of the rounding: monotone, idempotent, `rnd 0 = 0` -/
structure AaveRisk.RndMono (cx : NumCtx) : Prop where
  mono : ∀ x y : Rat, x ≤ y → cx.rnd x ≤ cx.rnd y
  idem : ∀ x : Rat, cx.rnd (cx.rnd x) = cx.rnd x
  zero : cx.rnd 0 = 0

theorem AaveRisk.rndMono_exact : RndMono NumCtx.exact :=
  ⟨fun _ _ h => h, fun _ => rfl, rfl⟩

namespace AaveRisk

/-- no debt entry is negative, no borrow index is negative -/
def DebtsNonneg (p : Portfolio) : Prop := ∀ d ∈ p.debts, 0 ≤ d.base ∧ 0 ≤ d.row.borIndex

theorem closeFactor_le_one (b : Bool) :
    0 ≤ (if b then Gen.arDefaultCloseFactor else Gen.arMaxCloseFactor) ∧
    (if b then Gen.arDefaultCloseFactor else Gen.arMaxCloseFactor) ≤ 1 := by
  cases b
  · simp [Gen.arMaxCloseFactor]
  · simp only [Gen.arDefaultCloseFactor, if_true]; constructor <;> norm_num

/-- `debt × close factor`, rounded, is not above the (already rounded) debt -/
theorem maxLiq_le {cx : NumCtx} (h : RndMono cx) {base idx cf : Rat} (hb : 0 ≤ base) (hi : 0 ≤ idx) (h1 : cf ≤ 1) :
    cx.mul (cx.mul base idx) cf ≤ cx.mul base idx := by
  have hv : 0 ≤ cx.mul base idx := by
    have := h.mono 0 (base * idx) (mul_nonneg hb hi)
    rw [h.zero] at this; exact this
  calc cx.mul (cx.mul base idx) cf = cx.rnd (cx.mul base idx * cf) := rfl
    _ ≤ cx.rnd (cx.mul base idx) := h.mono _ _ (by nlinarith)
    _ = cx.mul base idx := h.idem _

/-! the quantities of one step, any arithmetic context (the exact-context versions are `stepRepaid` … in `AaveRiskStep`) -/

def gDebt (cx : NumCtx) (d : Debt) : Rat := cx.mul d.base d.row.borIndex
def gCf (cx : NumCtx) (p : Portfolio) : Rat :=
  if (healthFactor cx p).gtB Gen.arCloseFactorHfThreshold then Gen.arDefaultCloseFactor else Gen.arMaxCloseFactor
def gToLiq (cx : NumCtx) (p : Portfolio) (d : Debt) (cover : Rat) : Rat :=
  if cover > cx.mul (gDebt cx d) (gCf cx p) then cx.mul (gDebt cx d) (gCf cx p) else cover
def gBal (cx : NumCtx) (c : Supply) : Rat := cx.mul c.base c.row.liqIndex
def gMaxColl (cx : NumCtx) (p : Portfolio) (c : Supply) (d : Debt) (cover : Rat) : Rat :=
  cx.mul (cx.div (cx.mul d.row.price (gToLiq cx p d cover)) c.row.price) (cx.add 1 c.row.bonus)
def gCapped (cx : NumCtx) (p : Portfolio) (c : Supply) (d : Debt) (cover : Rat) : Bool :=
  decide (gMaxColl cx p c d cover > gBal cx c)
def gCollUsed (cx : NumCtx) (p : Portfolio) (c : Supply) (d : Debt) (cover : Rat) : Rat :=
  if gCapped cx p c d cover then gBal cx c else gMaxColl cx p c d cover
def gScaled (cx : NumCtx) (c : Supply) (d : Debt) : Rat :=
  cx.div (cx.mul c.row.price (gBal cx c)) (cx.mul d.row.price (cx.add 1 c.row.bonus))
def gRepaid (cx : NumCtx) (p : Portfolio) (c : Supply) (d : Debt) (cover : Rat) : Rat :=
  if gCapped cx p c d cover then (if gScaled cx c d < gToLiq cx p d cover then gScaled cx c d else gToLiq cx p d cover)
  else gToLiq cx p d cover
def gCollBase (cx : NumCtx) (p : Portfolio) (c : Supply) (d : Debt) (cover : Rat) : Rat :=
  subBase cx c.base (cx.div (gCollUsed cx p c d cover) c.row.liqIndex)
def gDebtBase (cx : NumCtx) (p : Portfolio) (c : Supply) (d : Debt) (cover : Rat) : Rat :=
  subBase cx d.base (cx.div (gRepaid cx p c d cover) d.row.borIndex)

/-- `_do_liquidate` as a chain of tests over these quantities -/
theorem doLiquidate_gen_eq (cx : NumCtx) (p : Portfolio) (c : Supply) (d : Debt) (cover : Rat) :
    doLiquidate cx p c d cover =
      if c.row.lt = 0 ∨ c.coll = false then .rejected
      else if gDebt cx d = 0 then .rejected
      else if c.row.price = 0 then .raised .arith p
      else if gCapped cx p c d cover = true ∧ cx.mul d.row.price (cx.add 1 c.row.bonus) = 0 then .raised .arith p
      else if gDebt cx d < gRepaid cx p c d cover then .raised .demeter p
      else if c.row.liqIndex = 0 then .raised .arith p
      else if d.row.borIndex = 0 then
        .raised .arith { p with supplies := putSupplyBase p.supplies c.tok (gCollBase cx p c d cover) }
      else .done { supplies := putSupplyBase p.supplies c.tok (gCollBase cx p c d cover),
                   debts := putDebtBase p.debts d.tok (gDebtBase cx p c d cover) }
            { collTok := c.tok, debtTok := d.tok, toCover := cover, collUsed := gCollUsed cx p c d cover,
              debtRepaid := gRepaid cx p c d cover, hfBefore := healthFactor cx p,
              hfAfter := healthFactor cx
                { supplies := putSupplyBase p.supplies c.tok (gCollBase cx p c d cover),
                  debts := putDebtBase p.debts d.tok (gDebtBase cx p c d cover) },
              collAfter := cx.mul (gCollBase cx p c d cover) c.row.liqIndex,
              debtAfter := cx.mul (gDebtBase cx p c d cover) d.row.borIndex,
              half := (healthFactor cx p).gtB Gen.arCloseFactorHfThreshold, capped := gCapped cx p c d cover } := by
  rfl

theorem gRepaid_le_toLiq (cx : NumCtx) (p : Portfolio) (c : Supply) (d : Debt) (cover : Rat) :
    gRepaid cx p c d cover ≤ gToLiq cx p d cover := by
  unfold gRepaid
  split
  · split
    · rename_i h; exact le_of_lt h
    · exact le_refl _
  · exact le_refl _

theorem gToLiq_le_maxLiq (cx : NumCtx) (p : Portfolio) (d : Debt) (cover : Rat) :
    gToLiq cx p d cover ≤ cx.mul (gDebt cx d) (gCf cx p) := by
  unfold gToLiq
  split
  · exact le_refl _
  · rename_i hn; exact not_lt.mp hn

/-- one step never raises `DemeterError` -/
theorem doLiquidate_no_demeter {cx : NumCtx} (h : RndMono cx) (p : Portfolio) (c : Supply) (d : Debt) (cover : Rat)
    (hb : 0 ≤ d.base) (hi : 0 ≤ d.row.borIndex) (q : Portfolio) :
    doLiquidate cx p c d cover ≠ .raised .demeter q := by
  obtain ⟨c0, c1⟩ := closeFactor_le_one ((healthFactor cx p).gtB Gen.arCloseFactorHfThreshold)
  have hmax : cx.mul (gDebt cx d) (gCf cx p) ≤ gDebt cx d := maxLiq_le h hb hi c1
  have hle : gRepaid cx p c d cover ≤ gDebt cx d :=
    le_trans (gRepaid_le_toLiq cx p c d cover) (le_trans (gToLiq_le_maxLiq cx p d cover) hmax)
  rw [doLiquidate_gen_eq]
  split; · intro hc; cases hc
  split; · intro hc; cases hc
  split; · intro hc; cases hc
  split; · intro hc; cases hc
  split
  · rename_i hlt; exact absurd hlt (not_lt.mpr hle)
  split; · intro hc; cases hc
  split; · intro hc; cases hc
  intro hc; cases hc

/-- a step keeps "no negative debt" (`sub_base_amount` never leaves a negative balance) -/
theorem doLiquidate_debtsNonneg {cx : NumCtx} {p : Portfolio} {c : Supply} {d : Debt} {cover : Rat} {p' : Portfolio} {a : LiqAction}
    (hp : DebtsNonneg p) (h : doLiquidate cx p c d cover = .done p' a) : DebtsNonneg p' := by
  rw [doLiquidate_gen_eq] at h
  split at h; · cases h
  split at h; · cases h
  split at h; · cases h
  split at h; · cases h
  split at h; · cases h
  split at h; · cases h
  split at h; · cases h
  cases h
  intro x hx
  rcases mem_putDebtBase hx with hm | ⟨y, hy, _, rfl⟩
  · exact hp x hm
  · refine ⟨?_, (hp y hy).2⟩
    show 0 ≤ gDebtBase cx p c d cover
    unfold gDebtBase subBase
    dsimp only
    split
    · exact le_refl _
    · rename_i hge
      have : (0 : Rat) < Gen.arMinTokenValue := by unfold Gen.arMinTokenValue; norm_num
      linarith [not_lt.mp hge]

theorem liqLoop_no_demeter {cx : NumCtx} (h : RndMono cx) : ∀ (fuel : Nat) (p : Portfolio) (vis : List String)
    (acts : List LiqAction), DebtsNonneg p → (liqLoop cx fuel p vis acts).err ≠ some .demeter := by
  intro fuel
  induction fuel with
  | zero =>
    intro p vis acts _
    rw [liqLoop_eq]
    split; · simp
    split <;> simp
  | succ n ih =>
    intro p vis acts hp
    rw [liqLoop_eq]
    split; · simp
    split; · simp
    rename_i d v hpd
    dsimp only
    split; · simp
    rename_i c _
    obtain ⟨hdm, _, _⟩ := pickDebt_some hpd
    split
    · rename_i p' a hdo
      exact ih p' _ _ (doLiquidate_debtsNonneg hp hdo)
    · exact ih p _ _ hp
    · rename_i e p' hdo
      intro hcon
      simp only [Option.some.injEq] at hcon
      subst hcon
      exact doLiquidate_no_demeter h p c d v (hp d hdm).1 (hp d hdm).2 p' hdo

end AaveRisk

/-- **`update()` never raises `DemeterError`** — the check `variable_delt < actual_debt_to_liquidate` of `_do_liquidate` never
    fires, on any step of the loop — for every portfolio without negative debt entries and every arithmetic context with
    monotone, idempotent rounding; with the close factors `DEFAULT_LIQUIDATION_CLOSE_FACTOR = 1/2`,
    `MAX_LIQUIDATION_CLOSE_FACTOR = 1` read from the source. -/
theorem C12_update_never_raises_demeter_error {cx : NumCtx} (h : RndMono cx) (p : Portfolio) (hp : DebtsNonneg p) :
    (liquidate cx p).err ≠ some .demeter ∧ Gen.arDefaultCloseFactor = 1 / 2 ∧ Gen.arMaxCloseFactor = 1 := by
  refine ⟨?_, rfl, rfl⟩
  unfold liquidate
  exact liqLoop_no_demeter h _ p [] [] hp

/-- the hypothesis on the debts is needed: a negative debt entry makes the check fire (`debt × 1/2 > debt`) -/
theorem C12_negative_debt_raises_demeter_error :
    ((liquidate NumCtx.exact
      { supplies := [{ tok := "WETH", base := 1, coll := true, row := exRowW }],
        debts := [{ tok := "MATIC", base := -10, row := exRowM }, { tok := "USDC", base := 1705, row := exRowU }] }).err
      == some .demeter) = true := by decide +kernel

/-! ### non-vacuity -/

example : RndMono NumCtx.exact := rndMono_exact
example : DebtsNonneg exP := by
  intro d hd
  simp only [exP, List.mem_singleton] at hd
  subst hd
  constructor <;> simp [exD, exRowU]

end Demeter
