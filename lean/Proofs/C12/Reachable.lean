/-
  C12 / C11 — the collateral flags of every REACHABLE account are admitted by the risk table: starting from an account without
  positions, through any sequence of accepted user operations (supply — new or top-up —, withdraw, borrow, repay, repay with
  collateral, change_collateral), `update()` calls in any arithmetic context (whatever they liquidate or raise), and bar changes (new
  indices, prices — anything that keeps `usageAsCollateralEnabled`, which belongs to the chain's risk table, not to the bar).
  With the CSV property `TableSane` this gives the clause "flagged ⇒ positive liquidation threshold" of `Portfolio.WF` for every
  reachable account: it is a theorem about the code as repaired (500c37d), no longer a hypothesis on the state.
-/
import Proofs.C12.Admitted
import Proofs.C11.AllOps
namespace Demeter
open AaveRisk

namespace AaveRisk

theorem mem_updFirst_find {α : Type} (q : α → Bool) (f : α → α) :
    ∀ (l : List α) (y : α), y ∈ updFirst q f l → y ∈ l ∨ ∃ s, l.find? q = some s ∧ y = f s
  | [], y, h => by simp [updFirst] at h
  | x :: r, y, h => by
    unfold updFirst at h
    by_cases hq : q x = true
    · rw [if_pos hq] at h
      rcases List.mem_cons.mp h with rfl | h'
      · right; exact ⟨x, by simp [List.find?, hq], rfl⟩
      · left; exact List.mem_cons_of_mem _ h'
    · rw [if_neg hq] at h
      rcases List.mem_cons.mp h with rfl | h'
      · left; exact List.mem_cons_self ..
      · rcases mem_updFirst_find q f r y h' with h1 | ⟨s, hs, rfl⟩
        · left; exact List.mem_cons_of_mem _ h1
        · right; exact ⟨s, by simp [List.find?, hq, hs], rfl⟩

/-- accepted `change_collateral` keeps the flags admitted — no uniqueness of keys needed: the entry whose flag is written is the
    one the acceptance test looked at (both are "the first entry with that key") -/
theorem changeCollateral_admitted {p p' : Portfolio} {tok : String} {flag : Bool}
    (hc : changeCollateral NumCtx.exact p tok flag = .ok p') (h : Admitted p) : Admitted p' := by
  obtain ⟨hcases, _, hcan⟩ := (C11_change_collateral p tok flag).2 p' hc
  rcases hcases with rfl | hq
  · exact h
  · intro y hy hyc
    rw [hq] at hy
    simp only [] at hy
    unfold setSupplyColl at hy
    rcases mem_updFirst_find _ _ _ _ hy with h1 | ⟨s1, hs1, rfl⟩
    · exact h y h1 hyc
    · have hf : findSupply? p.supplies tok = some s1 := by
        unfold findSupply?
        rw [← hs1]
      have hfl : flag = true := hyc
      cases hcs : s1.coll with
      | true => exact h s1 (mem_of_findSupply hf).1 hcs
      | false => exact hcan s1 hf hcs hfl

theorem userStep_admitted {p q : Portfolio} (hu : UserStep p q) (h : Admitted p) : Admitted q := by
  cases hu with
  | borrow tok row a _ x _ _ hb => exact C11_borrow_keeps_flags_admitted hb h
  | withdraw tok a _ x hw _ => exact C11_withdraw_keeps_flags_admitted hw h
  | changeCollateral tok flag _ hc _ => exact changeCollateral_admitted hc h

theorem userStepAll_admitted {p q : Portfolio} (hu : UserStepAll p q) (h : Admitted p) : Admitted q := by
  cases hu with
  | risk hr => exact userStep_admitted hr h
  | supplyMore tok s x _ _ =>
    intro y hy hyc
    simp only [] at hy
    unfold setSupplyBase at hy
    rcases mem_updFirst _ _ hy with h1 | ⟨s0, hs0, _, rfl⟩
    · exact h y h1 hyc
    · exact h s0 hs0 hyc
  | supplyNew tok row coll x _ _ _ _ hcan _ =>
    intro y hy hyc
    simp only [List.mem_append, List.mem_singleton] at hy
    rcases hy with h1 | rfl
    · exact h y h1 hyc
    · exact hcan hyc
  | repay tok d x _ _ => exact admitted_of_supplies_eq h rfl
  | repayCollateral tok ctok d c x y _ _ _ _ _ _ _ _ _ _ => exact admitted_of_supplies_put h rfl

/-- a new bar: every entry gets the new bar's row for its token; `usageAsCollateralEnabled` is not bar data -/
def rebar (f : String → Row → Row) (p : Portfolio) : Portfolio :=
  { supplies := p.supplies.map (fun s => { s with row := f s.tok s.row }),
    debts := p.debts.map (fun d => { d with row := f d.tok d.row }) }

/-- accounts the code can get to -/
inductive Reach : Portfolio → Prop
  | empty : Reach { supplies := [], debts := [] }
  | user {p q : Portfolio} : Reach p → UserStepAll p q → Reach q
  | update (cx : NumCtx) {p : Portfolio} : Reach p → Reach (liquidate cx p).p
  | newBar (f : String → Row → Row) {p : Portfolio} : Reach p → (∀ t r, (f t r).canColl = r.canColl) → Reach (rebar f p)

end AaveRisk

/-- **every reachable account has admitted collateral flags** -/
theorem C12_reachable_flags_admitted {p : Portfolio} (h : Reach p) : Admitted p := by
  induction h with
  | empty => intro s hs; cases hs
  | user _ hu ih => exact userStepAll_admitted hu ih
  | update cx _ ih => exact C12_update_keeps_flags_admitted cx _ ih
  | newBar f _ hf ih =>
    intro s hs hc
    simp only [rebar, List.mem_map] at hs
    obtain ⟨s0, hs0, rfl⟩ := hs
    show (f s0.tok s0.row).canColl = true
    rw [hf]
    exact ih s0 hs0 hc

/-- … hence, with a sane risk table, a reachable account that is well formed in the elementary sense (`WF0`: balances, indices,
    prices) is well formed in the sense all C11/C12 theorems use, and is liquidated by `update()` iff 0 < HF < 1. -/
theorem C12_reachable_liquidates_iff {p : Portfolio} (h : Reach p) (hwf : p.WF0) (ht : TableSane p)
    (hpos : ∀ d ∈ p.debts, 0 < d.base) :
    p.WF ∧ ((liquidate NumCtx.exact p).actions ≠ [] ↔ ∃ x, healthFactor NumCtx.exact p = some x ∧ 0 < x ∧ x < 1) :=
  ⟨hwf.wf (C12_reachable_flags_admitted h) ht, C12_liquidates_iff_admitted p hwf (C12_reachable_flags_admitted h) ht hpos⟩

/-! ### non-vacuity: `c11P` after one more WETH is reachable-shaped; the empty account is reachable and a supply leads on -/
example : Reach { supplies := [{ tok := "WETH", base := 0 + 10, coll := true, row := c11RowW }], debts := [] } :=
  Reach.user Reach.empty (UserStepAll.supplyNew _ "WETH" c11RowW true 10 rfl (by norm_num)
    ⟨by decide +kernel, by decide +kernel, by decide +kernel, by decide +kernel, by decide +kernel, by decide +kernel⟩
    (by decide +kernel) (fun _ => rfl) (fun _ => by decide +kernel))

end Demeter
