/-
  C12 — refinement of one liquidation step: `_do_liquidate` of the cache-carrying state machine (`Aave.doLiquidate`)
  simulates `_do_liquidate` of the pure risk model (`AaveRisk.doLiquidate`) on the projected portfolio — amounts, the
  order of the refusals and raises, the post-state and the recorded action — in every coherent state, for every arithmetic
  context.  With `C12_sm_loop_head_refines` (trigger and pair selection) this carries the per-step C12 theorems
  (close factor, bonus, capped seizure, net value, non-negativity: all stated over `AaveRisk.doLiquidate`) over to the
  state machine that C13's harness ties to `AaveV3Market.update()`.
-/
import Proofs.C12.Refine
import Proofs.C11.RefineWithdraw
namespace Demeter
open Aave M

variable {cx : ACtx} {env : Env}

namespace Aave

/-- `liqAmounts` as the chain of its raises -/
theorem liqAmounts_eq (pd pc actual bal bonus : Rat) :
    liqAmounts cx pd pc actual bal bonus =
      if pc = 0 then .error .divZero else
      if cx.mul (cx.div (cx.mul pd actual) pc) (cx.add 1 bonus) > bal then
        (if cx.mul pd (cx.add 1 bonus) = 0 then .error .divZero else
          .ok (bal, if cx.div (cx.mul pc bal) (cx.mul pd (cx.add 1 bonus)) < actual
                    then cx.div (cx.mul pc bal) (cx.mul pd (cx.add 1 bonus)) else actual))
      else .ok (cx.mul (cx.div (cx.mul pd actual) pc) (cx.add 1 bonus), actual) := by
  unfold liqAmounts divE
  by_cases h0 : pc = 0
  · simp only [h0, if_true]; rfl
  · simp only [h0, if_false]
    show (if cx.mul (cx.div (cx.mul pd actual) pc) (cx.add 1 bonus) > bal then _ else _) = _
    by_cases hcap : cx.mul (cx.div (cx.mul pd actual) pc) (cx.add 1 bonus) > bal
    · rw [if_pos hcap, if_pos hcap]
      by_cases h1 : cx.mul pd (cx.add 1 bonus) = 0
      · simp only [h1, if_true]; rfl
      · simp only [h1, if_false]; rfl
    · rw [if_neg hcap, if_neg hcap]; rfl

theorem liqDebtOf_run {s : St} {x : Frame} (h : At cx env x s) {dtok : String} {dinfo : BorrowInfo}
    (hd : AList.get? x.borrows dtok = some dinfo) :
    ∃ s', liqDebtOf cx env dtok s = (.ok ((projBor env (dtok, dinfo)).amount cx.toNumCtx), s') ∧ At cx env x s' := by
  obtain ⟨s', e, h'⟩ := run_getBorrow h hd
  refine ⟨s', ?_, h'⟩
  unfold liqDebtOf
  have hc : AList.contains s.borrows dtok = true := by
    rw [h.bor]
    unfold AList.contains
    have := mem_of_aget hd
    exact List.any_eq_true.mpr ⟨(dtok, dinfo), this, by simp⟩
  rw [run_bind_queryPos_ok (a := true) (by rw [hc])]
  simp only [if_true]
  rw [run_bind_ok e]
  rfl

end Aave

/-- the record the state machine appends for the risk model's `LiqAction` -/
def Aave.actionOf (a : AaveRisk.LiqAction) : Action :=
  .liquidation a.collTok a.debtTok a.toCover a.collUsed a.debtRepaid (toX a.hfBefore) (toX a.hfAfter) a.collAfter a.debtAfter

/-- what `_do_liquidate` leaves of `_supplies` after seizing: scaled balance `nb`, entry deleted at 0 -/
theorem Aave.collBaseAfter_eq (sup : AList String SupplyInfo) (ctok : String) (cinfo : SupplyInfo) (nb : Rat) :
    (match AList.get? (if nb = 0 then AList.erase sup ctok else AList.set sup ctok { cinfo with base := nb }) ctok with
      | some i => i.base
      | none => 0) = nb := by
  by_cases h : nb = 0
  · rw [if_pos h, aget_erase_self', h]
  · rw [if_neg h, aget_set_self]

/-- the second half of `_do_liquidate` (from the `variable_delt < actual_debt_to_liquidate` check on), for whatever amounts
    `cu` (collateral used) and `rp` (debt repaid) the first half computed -/
theorem Aave.liq_tail (hE : EnvOK env) {s s2 : St} (hs : Good cx env s) (hat2 : At cx env s.frame s2) {ctok dtok : String}
    {cinfo : SupplyInfo} {dinfo : BorrowInfo} (hc : AList.get? s.supplies ctok = some cinfo)
    (hd : AList.get? s.borrows dtok = some dinfo) {cst dst : TokStatus} (hcst : env.statusOf ctok = .ok cst)
    (hdst : env.statusOf dtok = .ok dst) (cover cu rp vd : Rat) (hfB : AaveRisk.XRat) (half capped : Bool) :
    match (if vd < rp then AaveRisk.StepOut.raised .demeter (proj env s) else
        if cst.liqIdx = 0 then AaveRisk.StepOut.raised .arith (proj env s) else
        if dst.varIdx = 0 then AaveRisk.StepOut.raised .arith
          { supplies := AaveRisk.putSupplyBase (proj env s).supplies ctok
              (AaveRisk.subBase cx.toNumCtx cinfo.base (cx.div cu cst.liqIdx)), debts := (proj env s).debts } else
        AaveRisk.StepOut.done
          { supplies := AaveRisk.putSupplyBase (proj env s).supplies ctok
              (AaveRisk.subBase cx.toNumCtx cinfo.base (cx.div cu cst.liqIdx)),
            debts := AaveRisk.putDebtBase (proj env s).debts dtok
              (AaveRisk.subBase cx.toNumCtx dinfo.base (cx.div rp dst.varIdx)) }
          { collTok := ctok, debtTok := dtok, toCover := cover, collUsed := cu, debtRepaid := rp, hfBefore := hfB,
            hfAfter := AaveRisk.healthFactor cx.toNumCtx
              { supplies := AaveRisk.putSupplyBase (proj env s).supplies ctok
                  (AaveRisk.subBase cx.toNumCtx cinfo.base (cx.div cu cst.liqIdx)),
                debts := AaveRisk.putDebtBase (proj env s).debts dtok
                  (AaveRisk.subBase cx.toNumCtx dinfo.base (cx.div rp dst.varIdx)) },
            collAfter := cx.mul (AaveRisk.subBase cx.toNumCtx cinfo.base (cx.div cu cst.liqIdx)) cst.liqIdx,
            debtAfter := cx.mul (AaveRisk.subBase cx.toNumCtx dinfo.base (cx.div rp dst.varIdx)) dst.varIdx,
            half := half, capped := capped }) with
    | .done p' a => ∃ s', (do
          require (decide (vd ≥ rp)) Err.liqDebtExceeds
          let dBase ← ofRes (divE cx cu cst.liqIdx)
          let remaining ← liqCommit cx env ctok cinfo (subBase cx cinfo.base dBase) dtok rp
          let hfAfter ← healthFactor cx env
          let collBaseAfter ← queryPos fun sup _ => Except.ok (match AList.get? sup ctok with
            | some i => i.base
            | none => 0)
          record (Action.liquidation ctok dtok cover cu rp (toX hfB) hfAfter (cx.mul collBaseAfter cst.liqIdx)
            (cx.mul remaining dst.varIdx))) s2 = (.ok (), s') ∧ proj env s' = p' ∧
        s'.wallet = s.wallet ∧ s'.actions = s.actions ++ [actionOf a] ∧ Good cx env s'
    | .rejected => ∃ e s', (do
          require (decide (vd ≥ rp)) Err.liqDebtExceeds
          let dBase ← ofRes (divE cx cu cst.liqIdx)
          let remaining ← liqCommit cx env ctok cinfo (subBase cx cinfo.base dBase) dtok rp
          let hfAfter ← healthFactor cx env
          let collBaseAfter ← queryPos fun sup _ => Except.ok (match AList.get? sup ctok with
            | some i => i.base
            | none => 0)
          record (Action.liquidation ctok dtok cover cu rp (toX hfB) hfAfter (cx.mul collBaseAfter cst.liqIdx)
            (cx.mul remaining dst.varIdx))) s2 = (.error e, s') ∧ e.isAssertion = true ∧ s'.frame = s.frame
    | .raised x p' => ∃ e s', (do
          require (decide (vd ≥ rp)) Err.liqDebtExceeds
          let dBase ← ofRes (divE cx cu cst.liqIdx)
          let remaining ← liqCommit cx env ctok cinfo (subBase cx cinfo.base dBase) dtok rp
          let hfAfter ← healthFactor cx env
          let collBaseAfter ← queryPos fun sup _ => Except.ok (match AList.get? sup ctok with
            | some i => i.base
            | none => 0)
          record (Action.liquidation ctok dtok cover cu rp (toX hfB) hfAfter (cx.mul collBaseAfter cst.liqIdx)
            (cx.mul remaining dst.varIdx))) s2 = (.error e, s') ∧ e.cls = x.name ∧ e.isAssertion = false ∧
        proj env s' = p' ∧ s'.wallet = s.wallet ∧ s'.actions = s.actions := by
  have hs2sup : s2.supplies = s.supplies := hat2.sup
  have hs2bor : s2.borrows = s.borrows := hat2.bor
  have hs2w : s2.wallet = s.wallet := congrArg Frame.wallet hat2.2
  have hs2a : s2.actions = s.actions := congrArg Frame.actions hat2.2
  have hp2 : proj env s2 = proj env s := by unfold proj; rw [hs2sup, hs2bor]
  by_cases hlt : vd < rp
  · rw [if_pos hlt]
    exact ⟨.liqDebtExceeds, s2, by rw [run_bind_require_false (by simpa using hlt)], rfl, rfl, hp2, hs2w, hs2a⟩
  rw [if_neg hlt, run_bind_require_true (by simpa using hlt)]
  by_cases hli : cst.liqIdx = 0
  · rw [if_pos hli]
    refine ⟨.divZero, s2, ?_, rfl, rfl, hp2, hs2w, hs2a⟩
    simp only [divE, if_pos hli]
    rfl
  rw [if_neg hli]
  simp only [divE, if_neg hli]
  rw [run_bind_ofRes_ok]
  -- the seizure
  have hseize : ∀ (β : Type) (f : Unit → M β) (nb : Rat), (liqSeize ctok cinfo nb >>= f) s2 =
      f () { s2 with supplies := if nb = 0 then AList.erase s2.supplies ctok else AList.set s2.supplies ctok { cinfo with base := nb } } :=
    fun _ _ _ => rfl
  have hp3 : ∀ nb, projPos env (if nb = 0 then AList.erase s2.supplies ctok else AList.set s2.supplies ctok { cinfo with base := nb })
      s2.borrows = { supplies := AaveRisk.putSupplyBase (proj env s).supplies ctok nb, debts := (proj env s).debts } := by
    intro nb
    unfold projPos proj projPos
    rw [hs2sup, hs2bor, put_proj_supply _ _ _ _ hc hs.1.nd]
  by_cases hvi : dst.varIdx = 0
  · rw [if_pos hvi]
    refine ⟨.divZero, (liqSeize ctok cinfo (subBase cx cinfo.base (cx.div cu cst.liqIdx)) s2).2, ?_, rfl, rfl, ?_, ?_, ?_⟩
    · unfold liqCommit
      rw [run_bind_assoc, hseize, run_bind_assoc]
      unfold subBorrowAmount
      rw [run_bind_assoc, run_bind_queryPos_ok (a := some dinfo) (by show Except.ok (AList.get? s2.borrows dtok) = _; rw [hs2bor, hd])]
      simp only [hdst]
      rw [run_bind_assoc, run_bind_ofRes_ok]
      simp only [divE, if_pos hvi]
      rfl
    · have := hp3 (subBase cx cinfo.base (cx.div cu cst.liqIdx))
      rw [subBase_eq] at this
      exact this
    · exact hs2w
    · exact hs2a
  rw [if_neg hvi]
  -- the commit
  have hcont : AList.contains s.borrows dtok = true := by
    unfold AList.contains
    exact List.any_eq_true.mpr ⟨(dtok, dinfo), mem_of_aget hd, by simp⟩
  have hpin : Pin cx env s.supplies s.borrows s2 := ⟨hat2.1, hs2sup, hs2bor⟩
  have hgood := good_liqCommit (cx := cx) hE hpin (ctok := ctok) (info := cinfo) hcst hdst hvi hcont
    (subBase cx cinfo.base (cx.div cu cst.liqIdx)) rp
  have hcommit : liqCommit cx env ctok cinfo (subBase cx cinfo.base (cx.div cu cst.liqIdx)) dtok rp s2 =
      (.ok (subBase cx dinfo.base (cx.div rp dst.varIdx)),
        (liqCommit cx env ctok cinfo (subBase cx cinfo.base (cx.div cu cst.liqIdx)) dtok rp s2).2) ∧
      (liqCommit cx env ctok cinfo (subBase cx cinfo.base (cx.div cu cst.liqIdx)) dtok rp s2).2.supplies =
        (if subBase cx cinfo.base (cx.div cu cst.liqIdx) = 0 then AList.erase s2.supplies ctok
          else AList.set s2.supplies ctok { cinfo with base := subBase cx cinfo.base (cx.div cu cst.liqIdx) }) ∧
      (liqCommit cx env ctok cinfo (subBase cx cinfo.base (cx.div cu cst.liqIdx)) dtok rp s2).2.borrows =
        (if subBase cx dinfo.base (cx.div rp dst.varIdx) = 0 then AList.erase s2.borrows dtok
          else AList.set s2.borrows dtok { dinfo with base := subBase cx dinfo.base (cx.div rp dst.varIdx) }) ∧
      (liqCommit cx env ctok cinfo (subBase cx cinfo.base (cx.div cu cst.liqIdx)) dtok rp s2).2.wallet = s2.wallet ∧
      (liqCommit cx env ctok cinfo (subBase cx cinfo.base (cx.div cu cst.liqIdx)) dtok rp s2).2.actions = s2.actions := by
    unfold liqCommit
    rw [hseize, run_bind_ok (subBorrowAmount_run rp (by show AList.get? s2.borrows dtok = some dinfo; rw [hs2bor, hd]) hdst hvi)]
    exact ⟨rfl, rfl, rfl, rfl, rfl⟩
  obtain ⟨hcm, hcs, hcb, hcw, hca⟩ := hcommit
  generalize (liqCommit cx env ctok cinfo (subBase cx cinfo.base (cx.div cu cst.liqIdx)) dtok rp s2).2 = s4 at hgood hcm hcs hcb hcw hca
  rw [run_bind_ok hcm]
  obtain ⟨s5, e5, hat5⟩ := run_healthFactor (⟨hgood, rfl⟩ : At cx env s4.frame s4)
  have hp4 : projPos env s4.frame.supplies s4.frame.borrows =
      { supplies := AaveRisk.putSupplyBase (proj env s).supplies ctok
          (AaveRisk.subBase cx.toNumCtx cinfo.base (cx.div cu cst.liqIdx)),
        debts := AaveRisk.putDebtBase (proj env s).debts dtok
          (AaveRisk.subBase cx.toNumCtx dinfo.base (cx.div rp dst.varIdx)) } := by
    show projPos env s4.supplies s4.borrows = _
    unfold projPos proj projPos
    rw [hcs, hcb, hs2sup, hs2bor, put_proj_supply _ _ _ _ hc hs.1.nd, put_proj_debt _ _ _ _ hd hs.2.nd, subBase_eq, subBase_eq]
  rw [hp4] at e5
  rw [run_bind_ok e5]
  have hs5sup : s5.supplies = s4.supplies := hat5.sup
  rw [run_bind_queryPos_ok (a := subBase cx cinfo.base (cx.div cu cst.liqIdx))
    (by rw [hs5sup, hcs, collBaseAfter_eq])]
  refine ⟨_, rfl, ?_, ?_, ?_, ?_⟩
  · show projPos env s5.supplies s5.borrows = _
    rw [hat5.sup, hat5.bor]; exact hp4
  · show s5.wallet = s.wallet
    rw [show s5.wallet = s4.wallet from congrArg Frame.wallet hat5.2, hcw, hs2w]
  · show s5.actions ++ _ = s.actions ++ _
    rw [show s5.actions = s4.actions from congrArg Frame.actions hat5.2, hca, hs2a]
    unfold actionOf
    simp only [subBase_eq]
  · exact inv_record _ s5 hat5.1

/-- **one liquidation step of the state machine simulates the risk model's** (`ctok` a supplied token, `dtok` a borrowed
    one — what the pair selection hands over): the same outcome class, and
    * done: positions project to the risk model's new portfolio, the wallet is untouched, the appended record is the risk
      model's `LiqAction`, the state is coherent again (all five caches reset);
    * rejected (`AssertionError`, caught by `_liquidate`): positions, wallet, log intact;
    * raised (propagates out of `update()`): the same exception class, positions project to what the risk model says the
      code leaves behind, wallet and log intact. -/
theorem C12_sm_doLiquidate_refines (hE : EnvOK env) {s : St} (hs : Good cx env s) {ctok dtok : String}
    {cinfo : SupplyInfo} {dinfo : BorrowInfo} (hc : AList.get? s.supplies ctok = some cinfo)
    (hd : AList.get? s.borrows dtok = some dinfo) (cover : Rat) :
    match AaveRisk.doLiquidate cx.toNumCtx (proj env s) (projSup env (ctok, cinfo)) (projBor env (dtok, dinfo)) cover with
    | .done p' a => ∃ s', doLiquidate cx env (some ctok) (some dtok) cover s = (.ok (), s') ∧ proj env s' = p' ∧
        s'.wallet = s.wallet ∧ s'.actions = s.actions ++ [actionOf a] ∧ Good cx env s'
    | .rejected => ∃ e s', doLiquidate cx env (some ctok) (some dtok) cover s = (.error e, s') ∧ e.isAssertion = true ∧
        s'.frame = s.frame
    | .raised x p' => ∃ e s', doLiquidate cx env (some ctok) (some dtok) cover s = (.error e, s') ∧ e.cls = x.name ∧
        e.isAssertion = false ∧ proj env s' = p' ∧ s'.wallet = s.wallet ∧ s'.actions = s.actions := by
  obtain ⟨⟨cst, hcst⟩, ⟨pc, hpc⟩, ⟨cr, hcr⟩⟩ := hs.1.cv ctok (aget_mem_keys hc)
  obtain ⟨⟨dst, hdst⟩, ⟨pd, hpd⟩, ⟨dr, hdr⟩⟩ := hs.2.cv dtok (aget_mem_keys hd)
  have hrowc := rowOf_eq hcst hpc hcr
  have hrowd := rowOf_eq hdst hpd hdr
  have hat : At cx env s.frame s := ⟨hs, rfl⟩
  obtain ⟨s1, e1, hat1⟩ := run_healthFactor hat
  obtain ⟨s2, e2, hat2⟩ := liqDebtOf_run hat1 (show AList.get? s.frame.borrows dtok = some dinfo from hd)
  have hP : projPos env s.frame.supplies s.frame.borrows = proj env s := rfl
  rw [hP] at e1
  have hs2sup : s2.supplies = s.supplies := hat2.sup
  have hs2bor : s2.borrows = s.borrows := hat2.bor
  have hlk : ∀ (β : Type) (f : SupplyInfo → M β), (lookupSupply ctok >>= f) s2 = f cinfo s2 := by
    intro β f
    unfold lookupSupply
    rw [run_bind_queryPos_ok (a := cinfo) (by rw [hs2sup, hc]; rfl)]
  -- the risk model's side, in the state machine's vocabulary
  unfold AaveRisk.doLiquidate
  simp only [projSup, projBor, AaveRisk.Debt.amount, hrowc, hrowd]
  -- the state machine's side up to the first refusal
  unfold doLiquidate
  rw [run_bind_ok e1]
  simp only [optRes]
  rw [run_bind_ofRes_ok, hdst, run_bind_ofRes_ok, run_bind_ofRes_ok, hcst, run_bind_ofRes_ok, hcr, run_bind_ofRes_ok,
    run_bind_ok e2]
  simp only [projBor, AaveRisk.Debt.amount, hrowd, toX_gtR, consts_agree.2.1, consts_agree.2.2.1, consts_agree.2.2.2.1]
  generalize cx.mul dinfo.base dst.varIdx = vd
  generalize (if (AaveRisk.healthFactor cx.toNumCtx (proj env s)).gtB Gen.arCloseFactorHfThreshold = true
    then Gen.arDefaultCloseFactor else Gen.arMaxCloseFactor) = cf
  generalize (if cover > cx.mul vd cf then cx.mul vd cf else cover) = toLiq
  -- "collateral cannot be liquidated"
  by_cases hlt0 : cr.lt = 0
  · rw [if_pos (Or.inl hlt0)]
    refine ⟨.liqNotEnabled, s2, ?_, rfl, hat2.2⟩
    unfold liqEnabled
    rw [if_neg (not_not.mpr hlt0), run_bind_pure, run_bind_require_false rfl]
  have hen : ∀ (β : Type) (f : Bool → M β), (liqEnabled ctok cr >>= f) s2 = f cinfo.coll s2 := by
    intro β f
    unfold liqEnabled
    rw [if_pos hlt0, run_bind_assoc, hlk, run_bind_pure]
  rw [hen]
  cases hcoll : cinfo.coll
  · rw [if_pos (Or.inr rfl)]
    exact ⟨.liqNotEnabled, s2, by rw [run_bind_require_false rfl], rfl, hat2.2⟩
  rw [if_neg (by simp [hlt0]), run_bind_require_true rfl]
  -- "specified currency not borrowed by user"
  by_cases hvd0 : vd = 0
  · rw [if_pos hvd0]
    exact ⟨.liqNoDebt, s2, by rw [run_bind_require_false (by simp [hvd0])], rfl, hat2.2⟩
  rw [if_neg hvd0, run_bind_require_true (by simp [hvd0]), hlk, hpd, run_bind_ofRes_ok, hpc, run_bind_ofRes_ok, liqAmounts_eq]
  have hs2w : s2.wallet = s.wallet := congrArg Frame.wallet hat2.2
  have hs2a : s2.actions = s.actions := congrArg Frame.actions hat2.2
  have hp2 : proj env s2 = proj env s := by unfold proj; rw [hs2sup, hs2bor]
  -- the amounts
  by_cases hpc0 : pc = 0
  · rw [if_pos hpc0, if_pos hpc0]
    exact ⟨.divZero, s2, rfl, rfl, rfl, hp2, hs2w, hs2a⟩
  rw [if_neg hpc0, if_neg hpc0]
  by_cases hcap : cx.mul (cx.div (cx.mul pd toLiq) pc) (cx.add 1 cr.bonus) > cx.mul cinfo.base cst.liqIdx
  · simp only [hcap, decide_true, true_and, if_true]
    by_cases h0 : cx.mul pd (cx.add 1 cr.bonus) = 0
    · rw [if_pos h0, if_pos h0]
      exact ⟨.divZero, s2, rfl, rfl, rfl, hp2, hs2w, hs2a⟩
    rw [if_neg h0, if_neg h0, run_bind_ofRes_ok]
    exact liq_tail hE hs hat2 hc hd hcst hdst cover _ _ vd _ _ _
  · simp only [hcap, decide_false, false_and, if_false, Bool.false_eq_true]
    rw [run_bind_ofRes_ok]
    exact liq_tail hE hs hat2 hc hd hcst hdst cover _ _ vd _ _ _

end Demeter
