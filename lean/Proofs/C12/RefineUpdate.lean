/-
  C12 — the state machine's `update()` refines the risk model's, and what that transfers.

  `C12_state_machine_refines_risk_model_update` is the whole-loop simulation (any number of debts, any arithmetic context,
  any mixture of warm and cold caches) under the name the other components refer to; it is `C12_sm_update_refines`
  (`Proofs/C12/RefineLoop.lean`, by induction on the loop's fuel from the one-step simulation `C12_sm_doLiquidate_refines` and
  the loop-head simulation `C12_sm_loop_head_refines`).  Below it, the C12 theorems about `AaveRisk.liquidate` restated for the
  cache-carrying state machine `Aave.liquidate` that C10 / C13 / C04 / C03 / C01 use and that the harnesses tie to
  `AaveV3Market.update()` step by step:

    * every arithmetic context: each debt is visited at most once, at most `#debts` liquidations are recorded;
    * exact arithmetic, well-formed bar and state (`Aave.updWF`): no exception; the recorded actions are a chain of proper
      `_do_liquidate` steps (so close factor, bonus, state change, net value hold for each: `C12_close_factor`, …); at the end
      no debt / HF ≥ 1 / no collateral / every debt visited; a liquidation is recorded iff the health factor is in (0, 1).
-/
import Proofs.C12.RefineLoop
import Proofs.Lemmas.AaveWF
namespace Demeter
open Aave

variable {cx : ACtx} {env : Env}

/-- **`update()` of the state machine refines `update()` of the risk model** — the whole liquidation loop over any number of
    debts: same final positions (projected), wallet untouched, the appended records are the risk model's actions, coherent
    afterwards, and it raises iff the risk model does, with the same exception class. -/
theorem C12_state_machine_refines_risk_model_update (hE : EnvOK env) (hP : EnvPos env) {s : St} (hs : Good cx env s)
    (hopen : env.isOpen = true) :
    ∃ s', (liquidate cx env s).2 = s' ∧
      proj env s' = (AaveRisk.liquidate cx.toNumCtx (proj env s)).p ∧ s'.wallet = s.wallet ∧
      s'.actions = s.actions ++ (AaveRisk.liquidate cx.toNumCtx (proj env s)).actions.map actionOf ∧ Good cx env s' ∧
      (match (AaveRisk.liquidate cx.toNumCtx (proj env s)).err with
        | none => (liquidate cx env s).1 = .ok () ∧ s'.hasUpdate = true
        | some x => ∃ e, (liquidate cx env s).1 = .error e ∧ e.cls = x.name) :=
  C12_sm_update_refines hE hP hs hopen

/-- **each debt at most once, on the state machine** (every arithmetic context): the records `update()` appends name
    pairwise different debt tokens, and there are at most as many as there are debts. -/
theorem C12_sm_each_debt_once (hE : EnvOK env) (hP : EnvPos env) {s : St} (hs : Good cx env s) (hopen : env.isOpen = true) :
    ∃ acts : List AaveRisk.LiqAction, (liquidate cx env s).2.actions = s.actions ++ acts.map actionOf ∧
      (acts.map (·.debtTok)).Nodup ∧ acts.length ≤ s.borrows.length := by
  obtain ⟨s', e, _, _, ha, _⟩ := C12_sm_update_refines hE hP hs hopen
  obtain ⟨_, _, h3, _, h5⟩ := C12_each_debt_once cx.toNumCtx (proj env s)
  refine ⟨_, by rw [e]; exact ha, h3, ?_⟩
  have : (proj env s).debts.length = s.borrows.length := by
    show (s.borrows.map (projBor env)).length = _
    rw [List.length_map]
  rw [← this]; exact h5

/-- **no exception, proper steps, and how it ends — on the state machine** (exact arithmetic, well-formed bar and state):
    `update()` returns normally; the appended records are a chain of successful `_do_liquidate` steps from the projected
    portfolio to the final one (`AaveRisk.Trace`: each step starts with `0 < HF < 1`, covers the picked debt's value, and
    satisfies `C12_close_factor`, `C12_seized_value`, `C12_state_change`, `C12_net_value`, …); and at the end there is no
    debt (HF infinite), or HF ≥ 1, or no collateral is left, or every remaining debt has been visited. -/
theorem C12_sm_update_terminates {env : Env} {s : St} (hs : Good aaveExact env s) (hwf : updWF env s = true)
    (hopen : env.isOpen = true) :
    ∃ s' acts, liquidate aaveExact env s = (.ok (), s') ∧ s'.actions = s.actions ++ acts.map actionOf ∧
      AaveRisk.Trace (proj env s) acts (proj env s') ∧ (proj env s').WF ∧ s'.wallet = s.wallet ∧
      (AaveRisk.healthFactor NumCtx.exact (proj env s') = none
       ∨ (∃ x, AaveRisk.healthFactor NumCtx.exact (proj env s') = some x ∧ 1 ≤ x)
       ∨ (∀ c ∈ AaveRisk.collaterals (proj env s'), c.base = 0)
       ∨ (∀ d ∈ (proj env s').debts, d.tok ∈ (AaveRisk.liquidate NumCtx.exact (proj env s)).visited)) := by
  obtain ⟨hE, hP, hpwf⟩ := updWF_sound (cx := aaveExact) hwf hs
  obtain ⟨s', e', hp, hw, ha, _, hm⟩ := C12_sm_update_refines (cx := aaveExact) hE hP hs hopen
  obtain ⟨herr, _, hwf', hend⟩ := C12_terminates (proj env s) hpwf
  have herr' : (AaveRisk.liquidate aaveExact.toNumCtx (proj env s)).err = none := herr
  rw [herr'] at hm
  have htr := C12_every_step (proj env s) hpwf
  have hp' : proj env s' = (AaveRisk.liquidate NumCtx.exact (proj env s)).p := hp
  refine ⟨s', _, ?_, ha, by rw [hp']; exact htr, by rw [hp']; exact hwf', hw, by rw [hp']; exact hend⟩
  rcases hl : liquidate aaveExact env s with ⟨r, t⟩
  rw [hl] at e' hm
  dsimp only at e' hm
  subst e'
  rw [hm.1]

/-- **liquidated iff the health factor is below 1 — on the state machine** (exact arithmetic, well-formed bar and state,
    positive debt entries): `update()` appends at least one `LiquidationAction` iff the health factor of the positions is
    finite and in (0, 1). -/
theorem C12_sm_liquidates_iff {env : Env} {s : St} (hs : Good aaveExact env s) (hwf : updWF env s = true)
    (hopen : env.isOpen = true) (hpos : ∀ p ∈ s.borrows, 0 < p.2.base) :
    (liquidate aaveExact env s).2.actions ≠ s.actions ↔
      ∃ x, AaveRisk.healthFactor NumCtx.exact (proj env s) = some x ∧ 0 < x ∧ x < 1 := by
  obtain ⟨hE, hP, hpwf⟩ := updWF_sound (cx := aaveExact) hwf hs
  obtain ⟨s', e', _, _, ha, _, _⟩ := C12_sm_update_refines (cx := aaveExact) hE hP hs hopen
  have hpos' : ∀ d ∈ (proj env s).debts, 0 < d.base := by
    intro d hd
    obtain ⟨p, hp, rfl⟩ := List.mem_map.mp (show d ∈ s.borrows.map (projBor env) from hd)
    exact hpos p hp
  rw [← C12_liquidates_iff (proj env s) hpwf hpos', e', ha]
  have hA : (AaveRisk.liquidate aaveExact.toNumCtx (proj env s)).actions = (AaveRisk.liquidate NumCtx.exact (proj env s)).actions := rfl
  rw [hA]
  constructor
  · intro h hnil
    apply h
    rw [hnil]; simp
  · intro h heq
    apply h
    have := congrArg List.length heq
    simp only [List.length_append, List.length_map] at this
    exact List.eq_nil_of_length_eq_zero (by omega)

/-! ### non-vacuity: the unhealthy account of `C12.Refine` -/

example : updWF c11rEnv c12rSt = true := by decide +kernel
example : ∀ p ∈ c12rSt.borrows, 0 < p.2.base := by
  intro p hp
  simp only [c12rSt, St.init, List.mem_singleton] at hp
  subst hp; norm_num

end Demeter
