/-
  C12 — units of the "amount to cover" (review finding B-8).

  `_liquidate` hands `min_borrow_value` — the USD *value* of the chosen debt, amount × price — to `_do_liquidate` as
  `delt_value_to_cover`, and `_do_liquidate` compares it with `max_liquidateble_debt = total_debt * close_factor`, a
  *token amount*, and then uses the smaller of the two as the token amount to repay.  `C12_close_factor` and
  `C12_seized_value` (Proofs/C12.lean) state what the code does with `cover` as an opaque number; here the unit mix is
  made explicit for a step as the loop makes it (`cover = d.value = d.amount × d.price`, see `C12_debt_pick` / `Trace`):

      repaid tokens  =  min(price_d, close factor) × debt amount        (uncapped step)
      repaid tokens  ≤  min(price_d, close factor) × debt amount        (every step)

  so a debt token priced at or above the close factor (1/2 or 1 USD) is repaid up to the close factor, exactly as the
  property says, while a debt token priced *below* the close factor is repaid only `price × amount` tokens — a number
  of tokens equal to the debt's USD value — which is LESS than the close factor allows.  The property text
  (`repaid ≤ close factor × debt`) still holds in that case; it is recorded as an observation, not as a violation
  (`C12_low_priced_debt_witness`, and the harness counts `low_priced_debt_repaid_value_units`).
-/
import Proofs.C12.Loop
namespace Demeter
open AaveRisk

namespace AaveRisk

/-- the close factor of a recorded step: 1/2 if the health factor before the step was above 0.95, otherwise 1 -/
def LiqAction.cf (a : LiqAction) : Rat := if a.half then 1 / 2 else 1

theorem LiqAction.cf_pos (a : LiqAction) : 0 < a.cf := by
  unfold LiqAction.cf; split <;> norm_num

theorem min_mul_amount {x y m : Rat} (hm : 0 ≤ m) : min (m * x) (y * m) = min x y * m := by
  rcases le_total x y with h | h
  · rw [min_eq_left h, min_eq_left (by nlinarith)]; ring
  · rw [min_eq_right h, min_eq_right (by nlinarith)]

end AaveRisk

/-- **Token units of a step of the loop.**  When the value to cover is the debt's own value (amount × price, which is
    what `_liquidate` passes), the number of debt tokens repaid is at most `min(price, close factor) × amount`, with
    equality unless the collateral balance caps the seizure; and the value recorded as `delt_to_cover` is amount × price. -/
theorem C12_repaid_token_units {p : Portfolio} {c : Supply} {d : Debt} {p' : Portfolio} {a : LiqAction}
    (h : StepOk p c d (d.value NumCtx.exact) p' a) :
    a.toCover = d.amount NumCtx.exact * d.row.price
    ∧ a.cf = (if (healthFactor NumCtx.exact p).gtB (95 / 100) then (1 / 2 : Rat) else 1)
    ∧ a.debtRepaid ≤ min d.row.price a.cf * d.amount NumCtx.exact
    ∧ (a.capped = false → a.debtRepaid = min d.row.price a.cf * d.amount NumCtx.exact) := by
  obtain ⟨_, _, _, hhalf, hle1, hle2⟩ := C12_close_factor h
  have hsv := (C12_seized_value h).2.2.2
  have hm : 0 ≤ d.amount NumCtx.exact := by
    rw [Debt.amount_exact]
    have := (h.wf.deb d h.hd).2.bi_pos
    have := (h.wf.deb d h.hd).1
    positivity
  have hcov : d.value NumCtx.exact = d.amount NumCtx.exact * d.row.price := rfl
  have hcf : (if a.half then (50 / 100 : Rat) else 100 / 100) = a.cf := by
    unfold LiqAction.cf; split <;> norm_num
  have hcf' : (if a.half then (1 / 2 : Rat) else 1) = a.cf := rfl
  rw [hcf] at hle1
  rw [hcov] at hle2 hsv
  rw [hcf'] at hsv
  refine ⟨(C12_record_matches h).2.2.1, ?_, ?_, ?_⟩
  · unfold LiqAction.cf; rw [hhalf]
  · rw [← min_mul_amount hm]; exact le_min hle2 hle1
  · intro hc; rw [hsv hc, min_mul_amount hm]

/-- **Close factor in token units.**  A step of the loop on a debt token priced at or above the close factor
    (≥ 1/2 USD when HF > 0.95, ≥ 1 USD otherwise) whose seizure is not capped by the collateral balance repays exactly
    close factor × debt amount tokens. -/
theorem C12_close_factor_token_units {p : Portfolio} {c : Supply} {d : Debt} {p' : Portfolio} {a : LiqAction}
    (h : StepOk p c d (d.value NumCtx.exact) p' a) (hprice : a.cf ≤ d.row.price) (hcap : a.capped = false) :
    a.debtRepaid = a.cf * d.amount NumCtx.exact := by
  rw [(C12_repaid_token_units h).2.2.2 hcap, min_eq_right hprice]

/-- **A debt token priced below the close factor is repaid in "value units".**  A step of the loop on a debt token
    priced below the close factor (price < 1/2 USD when HF > 0.95, < 1 USD otherwise), not capped by the collateral
    balance, repays `price × amount` tokens — numerically the debt's USD value — which is strictly less than the
    close factor × amount the protocol rule allows; the remaining debt is `(1 − price) × amount` (up to snapped dust, see
    `C12_state_change`). -/
theorem C12_low_priced_debt_repays_price_times_amount {p : Portfolio} {c : Supply} {d : Debt} {p' : Portfolio} {a : LiqAction}
    (h : StepOk p c d (d.value NumCtx.exact) p' a) (hprice : d.row.price < a.cf) (hcap : a.capped = false) :
    a.debtRepaid = d.row.price * d.amount NumCtx.exact
    ∧ a.debtRepaid = a.toCover
    ∧ a.debtRepaid < a.cf * d.amount NumCtx.exact := by
  have hu := C12_repaid_token_units h
  have hrep : a.debtRepaid = d.row.price * d.amount NumCtx.exact := by
    rw [hu.2.2.2 hcap, min_eq_left (le_of_lt hprice)]
  have hpos : 0 < d.amount NumCtx.exact := by
    rw [Debt.amount_exact]
    have hne := h.inv.2.2.1
    have := (h.wf.deb d h.hd).2.bi_pos
    have := (h.wf.deb d h.hd).1
    exact lt_of_le_of_ne (by positivity) (Ne.symm hne)
  refine ⟨hrep, ?_, ?_⟩
  · rw [hrep, hu.1]; ring
  · rw [hrep]; exact mul_lt_mul_of_pos_right hprice hpos

/-- capped or not, a low-priced debt is never repaid up to the close factor: at most `price × amount` tokens -/
theorem C12_low_priced_debt_repaid_le {p : Portfolio} {c : Supply} {d : Debt} {p' : Portfolio} {a : LiqAction}
    (h : StepOk p c d (d.value NumCtx.exact) p' a) (hprice : d.row.price < a.cf) :
    a.debtRepaid ≤ d.row.price * d.amount NumCtx.exact := by
  have := (C12_repaid_token_units h).2.2.1
  rwa [min_eq_left (le_of_lt hprice)] at this

/-- **Loop level.**  Every action recorded by `update()` on a well-formed portfolio was made on a debt entry `d` of
    the portfolio at that moment (positive price), with `delt_to_cover` = that debt's amount × price, and repays at
    most — exactly, unless capped — `min(price, close factor) × amount` tokens of it. -/
theorem C12_every_step_token_units (p : Portfolio) (hwf : p.WF) :
    ∀ a ∈ (liquidate NumCtx.exact p).actions, ∃ d : Debt,
      d.tok = a.debtTok ∧ 0 < d.row.price ∧ 0 < d.amount NumCtx.exact
      ∧ a.toCover = d.amount NumCtx.exact * d.row.price
      ∧ a.debtRepaid ≤ min d.row.price a.cf * d.amount NumCtx.exact
      ∧ (a.capped = false → a.debtRepaid = min d.row.price a.cf * d.amount NumCtx.exact) := by
  have ht := C12_every_step p hwf
  generalize (liquidate NumCtx.exact p).actions = as at ht
  generalize (liquidate NumCtx.exact p).p = q at ht
  clear hwf
  induction ht with
  | nil p => intro a ha; cases ha
  | @step p0 c d p1 a0 as0 p2 hc hs _ ih =>
    intro a ha
    rcases List.mem_cons.mp ha with rfl | ha
    · have hu := C12_repaid_token_units hs
      refine ⟨d, (C12_record_matches hs).2.1.symm, (hs.wf.deb d hs.hd).2.price_pos, ?_, hu.1, hu.2.2.1, hu.2.2.2⟩
      rw [Debt.amount_exact]
      have hne := hs.inv.2.2.1
      have := (hs.wf.deb d hs.hd).2.bi_pos
      have := (hs.wf.deb d hs.hd).1
      exact lt_of_le_of_ne (by positivity) (Ne.symm hne)
    · exact ih a ha

/-! ### the witness: 10000 TOK priced 0.3 USD against 3.6 WETH at 1000 USD (LT 0.8, bonus 5 %): HF = 0.96 -/
namespace AaveRisk

def lpRowW : Row := { liqIndex := 1, borIndex := 1, price := 1000, ltv := 75 / 100, lt := 8 / 10, bonus := 5 / 100, canColl := true, canBorrow := true }
def lpRowT : Row := { liqIndex := 1, borIndex := 1, price := 3 / 10, ltv := 0, lt := 0, bonus := 0, canColl := false, canBorrow := true }
def lpC : Supply := { tok := "WETH", base := 36 / 10, coll := true, row := lpRowW }
def lpD : Debt := { tok := "TOK", base := 10000, row := lpRowT }
def lpP : Portfolio := { supplies := [lpC], debts := [lpD] }

/-- what `update()` does with it: one step, close factor 1/2, not capped, value to cover 3000 (USD), repaid 3000 TOK
    (= 0.3 × 10000, not 0.5 × 10000 = 5000), 0.945 WETH seized (900 USD × 1.05), 7000 TOK still owed, HF 0.96 → 2124/2100 -/
def lpCheck : Bool :=
  let r := liquidate NumCtx.exact lpP
  decide (healthFactor NumCtx.exact lpP = some (96 / 100)) && r.err.isNone && r.visited == ["TOK"]
    && match r.actions with
       | [a] => a.half && !a.capped && decide (a.toCover = 3000) && decide (a.debtRepaid = 3000) && decide (a.collUsed = 945 / 1000)
                && decide (a.debtAfter = 7000) && decide (a.hfAfter = some (2124 / 2100))
       | _ => false

end AaveRisk

/-- **Witness (kernel-checked).**  A 10000 TOK debt priced 0.3 USD, HF 0.96 (close factor 1/2): the single liquidation
    step of `update()` repays 3000 TOK = price × amount, strictly less than the 5000 TOK = close factor × amount, although
    the collateral (3.6 WETH; 0.945 seized) would have covered it (5000 TOK × 0.3 × 1.05 / 1000 = 1.575 WETH). -/
theorem C12_low_priced_debt_witness :
    lpCheck = true
    ∧ (3000 : Rat) = lpD.row.price * lpD.amount NumCtx.exact
    ∧ lpD.row.price * lpD.amount NumCtx.exact < 1 / 2 * lpD.amount NumCtx.exact := by
  refine ⟨by decide +kernel, by decide +kernel, by decide +kernel⟩

/-! ### non-vacuity -/
namespace AaveRisk

theorem lpP_wf : lpP.WF := by
  refine ⟨?_, ?_, by decide, by decide⟩
  · intro s hs
    simp only [lpP, List.mem_singleton] at hs
    subst hs
    refine ⟨by decide +kernel, ⟨?_, ?_, ?_, ?_, ?_, ?_⟩, fun _ => ?_⟩ <;> decide +kernel
  · intro s hs
    simp only [lpP, List.mem_singleton] at hs
    subst hs
    refine ⟨by decide +kernel, ⟨?_, ?_, ?_, ?_, ?_, ?_⟩⟩ <;> decide +kernel

/-- the low-priced case of the step theorem is inhabited: a successful, uncapped step with `price < cf` -/
example : ∃ p' a, StepOk lpP lpC lpD (lpD.value NumCtx.exact) p' a ∧ lpD.row.price < a.cf ∧ a.capped = false := by
  have hv : lpD.value NumCtx.exact = 3000 := by decide +kernel
  rw [hv]
  cases h : doLiquidate NumCtx.exact lpP lpC lpD 3000 with
  | done p' a =>
    refine ⟨p', a, ⟨lpP_wf, by simp [lpP], by simp [lpP], by norm_num, h⟩, ?_, ?_⟩
    · have : (decide (lpD.row.price < a.cf)) = true := by
        have h2 : (match doLiquidate NumCtx.exact lpP lpC lpD 3000 with
          | .done _ a => decide (lpD.row.price < a.cf) | _ => false) = true := by decide +kernel
        rw [h] at h2; exact h2
      exact of_decide_eq_true this
    · have h2 : (match doLiquidate NumCtx.exact lpP lpC lpD 3000 with
          | .done _ a => !a.capped | _ => false) = true := by decide +kernel
      rw [h] at h2; simpa using h2
  | rejected =>
    have h2 : (match doLiquidate NumCtx.exact lpP lpC lpD 3000 with | .done _ _ => true | _ => false) = true := by decide +kernel
    rw [h] at h2; cases h2
  | raised e q =>
    have h2 : (match doLiquidate NumCtx.exact lpP lpC lpD 3000 with | .done _ _ => true | _ => false) = true := by decide +kernel
    rw [h] at h2; cases h2

/-- … and the other case (price ≥ cf): the step of `Proofs/C12.lean`, USDC at 1 USD, repays cf × amount = 4200 -/
example : ∃ p' a, StepOk exP exC exD (exD.value NumCtx.exact) p' a ∧ a.cf ≤ exD.row.price ∧ a.capped = false
    ∧ a.debtRepaid = 1 / 2 * exD.amount NumCtx.exact := by
  have hv : exD.value NumCtx.exact = 8400 := by decide +kernel
  have hchk : exStepCheck = true := by decide +kernel
  rw [hv]
  cases h : doLiquidate NumCtx.exact exP exC exD 8400 with
  | done p' a =>
    unfold exStepCheck at hchk; rw [h] at hchk
    simp only [Bool.and_eq_true, decide_eq_true_eq, Bool.not_eq_eq_eq_not, Bool.not_true] at hchk
    obtain ⟨⟨⟨⟨⟨_, hr⟩, hh⟩, hcp⟩, _⟩, _⟩ := hchk
    refine ⟨p', a, ⟨exP_wf, by simp [exP], by simp [exP], by norm_num, h⟩, ?_, hcp, ?_⟩
    · unfold LiqAction.cf; rw [hh]; simp [exD, exRowU]; norm_num
    · rw [hr]; simp [Debt.amount_exact, exD, exRowU]; norm_num
  | rejected => unfold exStepCheck at hchk; rw [h] at hchk; cases hchk
  | raised e q => unfold exStepCheck at hchk; rw [h] at hchk; cases hchk

end AaveRisk
end Demeter
