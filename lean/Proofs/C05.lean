/-
  C05 — each bar runs once, in order, with a fixed phase order; logs align with bars.

  Model: Demeter/Actuator.lean (`run`): the bar loop of demeter/core/actuator.py over abstract markets (time index, is_open,
  has_update, open callback; operations and update() effects uninterpreted), real trigger objects (Demeter/Trigger.lean), a
  scripted strategy (what every hook does on every bar, for all scripts).  The theorems are about the call trace, the
  account rows and the action list of every run that ends normally (`err = none`: the price frame has a row for every bar,
  the triggers can be evaluated); what ends a run abnormally is part of the model and of the correspondence check.
-/
import Proofs.Lemmas.CoreActuator11
import Mathlib.Tactic.Ring
namespace Demeter
open Core

/-! ### projections used in the statements -/

/-- `(timestamp, row id)` of a `before_bar` / `on_bar` / `after_bar` call, timestamp of an account row -/
def Core.beforeOf : Ev → Option (Int × Nat) | .before ts row _ => some (ts, row) | _ => none
def Core.onOf : Ev → Option (Int × Nat) | .on ts row _ => some (ts, row) | _ => none
def Core.afterOf : Ev → Option (Int × Nat) | .after ts row _ => some (ts, row) | _ => none
def Core.rowOf : Ev → Option (Int × Option Int) | .row ts p => some (ts, p) | _ => none

theorem core_beforeOf_phase (e : Ev) (h : (beforeOf e).isSome) : e.phase = 4 := by
  cases e <;> simp [beforeOf] at h
  rfl
theorem core_onOf_phase (e : Ev) (h : (onOf e).isSome) : e.phase = 8 := by
  cases e <;> simp [onOf] at h
  rfl
theorem core_afterOf_phase (e : Ev) (h : (afterOf e).isSome) : e.phase = 12 := by
  cases e <;> simp [afterOf] at h
  rfl
theorem core_rowOf_phase (e : Ev) (h : (rowOf e).isSome) : e.phase = 14 := by
  cases e <;> simp [rowOf] at h
  rfl

theorem core_flatMap_single {α β : Type} (f : α → β) : ∀ l : List α, l.flatMap (fun x => [f x]) = l.map f
  | [] => rfl
  | a :: l => by simp [List.flatMap_cons, core_flatMap_single f l]

/-- projections of phase 4/8/12/14 over the whole trace of a run that ended normally -/
theorem core_run_fm_hook {α : Type} (P : Ev → Option α) (c : Nat) (hP : ∀ e, (P e).isSome → e.phase = c)
    (hc : c = 4 ∨ c = 8 ∨ c = 12 ∨ c = 14) (cfg : Cfg) (trigs : List Trig) (sc : Script)
    (h : (run cfg trigs sc).err = none) :
    (run cfg trigs sc).trace.filterMap P = ((barIndex cfg).zipIdx).flatMap (fun x => (hookEvs cfg x.1 x.2).filterMap P) := by
  obtain ⟨ts0, bars, hb, _, _, hl, htr, _, _, _⟩ := run_ok h
  rw [htr, hb]
  have k0 := fm_nil_of_allAt hP (setAllFrom_at cfg ts0 0 0 cfg.markets) (c' := stagePhase 0) (by simp [stagePhase]; omega)
  have k2 := fm_nil_of_allAt hP (runOps_at ts0 .init sc.init (initSt cfg trigs ts0)) (by simp [Hook.phase]; omega)
  have k1 : P (Ev.initialize ts0) = none := by
    cases hq : P (Ev.initialize ts0) with
    | none => rfl
    | some x => have := hP _ (by rw [hq]; rfl); simp [Ev.phase] at this; omega
  have k3 : P (Ev.finalize ((ts0 :: bars).getLast?.getD ts0)) = none := by
    cases hq : P (Ev.finalize ((ts0 :: bars).getLast?.getD ts0)) with
    | none => rfl
    | some x => have := hP _ (by rw [hq]; rfl); simp [Ev.phase] at this; omega
  have kl := runBars_fm_hook P c hP hc cfg sc (ts0 :: bars) 0 _ hl
  simp only [List.filterMap_append, List.filterMap_cons, k0, k1, k3, List.nil_append, List.filterMap_nil, List.append_nil]
  have k2' : List.filterMap P (initRun cfg trigs sc ts0).1 = [] := k2
  rw [k2', List.nil_append]
  exact kl

/-- **C05 — each bar once, in increasing order.**  The `before_bar` calls of a run are, in order, exactly the bars of the
    (resampled) index with row ids 0, 1, 2, …; so are the `on_bar` and `after_bar` calls and the account rows. -/
theorem C05_each_bar_once_in_order (cfg : Cfg) (trigs : List Trig) (sc : Script) (h : (run cfg trigs sc).err = none) :
    (run cfg trigs sc).trace.filterMap beforeOf = (barIndex cfg).zipIdx ∧
    (run cfg trigs sc).trace.filterMap onOf = (barIndex cfg).zipIdx ∧
    (run cfg trigs sc).trace.filterMap afterOf = (barIndex cfg).zipIdx ∧
    (run cfg trigs sc).trace.filterMap rowOf = (barIndex cfg).map (fun ts => (ts, priceRow cfg ts)) := by
  have e1 : (fun x : Int × Nat => (hookEvs cfg x.1 x.2).filterMap beforeOf) = fun x => [x] := by funext x; rfl
  have e2 : (fun x : Int × Nat => (hookEvs cfg x.1 x.2).filterMap onOf) = fun x => [x] := by funext x; rfl
  have e3 : (fun x : Int × Nat => (hookEvs cfg x.1 x.2).filterMap afterOf) = fun x => [x] := by funext x; rfl
  have e4 : (fun x : Int × Nat => (hookEvs cfg x.1 x.2).filterMap rowOf) = fun x => [(x.1, priceRow cfg x.1)] := by funext x; rfl
  refine ⟨?_, ?_, ?_, ?_⟩
  · rw [core_run_fm_hook beforeOf 4 core_beforeOf_phase (by omega) cfg trigs sc h, e1, core_flatMap_single]; simp
  · rw [core_run_fm_hook onOf 8 core_onOf_phase (by omega) cfg trigs sc h, e2, core_flatMap_single]; simp
  · rw [core_run_fm_hook afterOf 12 core_afterOf_phase (by omega) cfg trigs sc h, e3, core_flatMap_single]; simp
  · rw [core_run_fm_hook rowOf 14 core_rowOf_phase (by omega) cfg trigs sc h, e4, core_flatMap_single]
    have : (fun x : Int × Nat => (x.1, priceRow cfg x.1)) = (fun ts => (ts, priceRow cfg ts)) ∘ Prod.fst := rfl
    rw [this, ← List.map_map, List.zipIdx_map_fst]

/-! ### the bar index -/

theorem core_distinctTimes_mem : ∀ (l : List Int) (x : Int), x ∈ distinctTimes l → x ∈ l
  | [], _, h => h
  | [_], _, h => h
  | a :: b :: l, x, h => by
    unfold distinctTimes at h
    split at h
    · exact List.mem_cons_of_mem _ (core_distinctTimes_mem (b :: l) x h)
    · rcases List.mem_cons.mp h with rfl | h'
      · exact List.mem_cons_self ..
      · exact List.mem_cons_of_mem _ (core_distinctTimes_mem (b :: l) x h')

/-- the distinct timestamps of a frame with a non-decreasing time index are strictly increasing -/
theorem core_distinctTimes_pairwise : ∀ l : List Int, l.Pairwise (· ≤ ·) → (distinctTimes l).Pairwise (· < ·)
  | [], _ => List.Pairwise.nil
  | [_], _ => List.pairwise_singleton _ _
  | a :: b :: l, h => by
    have h' := List.pairwise_cons.mp h
    unfold distinctTimes
    split
    · exact core_distinctTimes_pairwise (b :: l) h'.2
    · rename_i hne
      refine List.pairwise_cons.mpr ⟨?_, core_distinctTimes_pairwise (b :: l) h'.2⟩
      intro x hx
      have hxm := core_distinctTimes_mem (b :: l) x hx
      have hab : a ≤ b := h'.1 b (List.mem_cons_self ..)
      have hbx : b ≤ x := by
        rcases List.mem_cons.mp hxm with rfl | hx'
        · exact le_refl _
        · exact (List.pairwise_cons.mp h'.2).1 x hx'
      omega

/-- a frame with one row per timestamp: its distinct timestamps are its index -/
theorem core_distinctTimes_of_strict : ∀ l : List Int, l.Pairwise (· < ·) → distinctTimes l = l
  | [], _ => rfl
  | [_], _ => rfl
  | a :: b :: l, h => by
    have h' := List.pairwise_cons.mp h
    have hab : a < b := h'.1 b (List.mem_cons_self ..)
    unfold distinctTimes
    rw [if_neg (by omega), core_distinctTimes_of_strict (b :: l) h'.2]

theorem core_longestIdx_mem : ∀ ms : List MarketCfg, longestIdx ms = [] ∨ ∃ mc ∈ ms, longestIdx ms = distinctTimes mc.idx
  | [] => Or.inl rfl
  | mc :: rest => by
    unfold longestIdx
    split
    · rcases core_longestIdx_mem rest with h | ⟨m, hm, he⟩
      · exact Or.inl h
      · exact Or.inr ⟨m, List.mem_cons_of_mem _ hm, he⟩
    · exact Or.inr ⟨mc, List.mem_cons_self .., rfl⟩

/-- **C05 — the bar index is that of the market with the most DISTINCT TIMESTAMPS** (`get_test_range`), however many rows the frames hold
    per timestamp: no market has more distinct timestamps than the chosen index -/
theorem C05_bar_index_market_has_most_timestamps : ∀ ms : List MarketCfg, ∀ mc ∈ ms, (distinctTimes mc.idx).length ≤ (longestIdx ms).length
  | [], _, h => nomatch h
  | m :: rest, mc, h => by
    unfold longestIdx
    rcases List.mem_cons.mp h with rfl | h'
    · split <;> omega
    · have := C05_bar_index_market_has_most_timestamps rest mc h'
      split <;> omega

theorem core_grid_pairwise' (start Δ : Int) (hΔ : 0 < Δ) (n : Nat) : (grid start Δ n).Pairwise (· < ·) := by
  unfold grid
  rw [List.pairwise_map]
  apply List.Pairwise.imp _ (List.pairwise_lt_range)
  intro a b hab
  have : (a : Int) * Δ < (b : Int) * Δ := Int.mul_lt_mul_of_pos_right (by exact_mod_cast hab) hΔ
  omega

/-- the bars of a run are strictly increasing in time: the resampled index is an arithmetic grid, the raw index is the distinct
    timestamps of the data's own (non-decreasing) time index -/
theorem C05_bar_index_increasing (cfg : Cfg) (hΔ : 0 < cfg.Δ) (hraw : ∀ mc ∈ cfg.markets, mc.idx.Pairwise (· ≤ ·)) :
    (barIndex cfg).Pairwise (· < ·) := by
  unfold barIndex frameIdx
  split
  · unfold resampleIdx
    split
    · exact core_grid_pairwise' _ _ hΔ _
    · exact List.Pairwise.nil
  · rcases core_longestIdx_mem cfg.markets with h | ⟨m, hm, he⟩
    · rw [h]; exact List.Pairwise.nil
    · rw [he]; exact core_distinctTimes_pairwise _ (hraw m hm)

/-- **C05 — fixed phase order.**  Along the whole call trace the pair (bar timestamp, phase) never decreases, where the
    phases of a bar are: first refresh of every market, `before_bar`, what it does, trigger actions, open callbacks, `on_bar`,
    what it does, second refresh, `market.update()`, `after_bar`, what it does, account row, `notify`; in particular the
    market update comes after `on_bar` and before `after_bar`, and `notify` is last. -/
theorem C05_phase_order (cfg : Cfg) (trigs : List Trig) (sc : Script) (h : (run cfg trigs sc).err = none)
    (hidx : (barIndex cfg).Pairwise (· < ·)) : (run cfg trigs sc).trace.Pairwise KeyLe := by
  obtain ⟨ts0, bars, hb, _, _, hl, htr, _, _, _⟩ := run_ok h
  rw [htr]
  rw [hb] at hidx
  exact runTrace_sorted cfg trigs sc ts0 bars hidx hl

/-- every event of the trace of a normal run carries the timestamp of a bar of the index -/
theorem C05_events_on_bars (cfg : Cfg) (trigs : List Trig) (sc : Script) (h : (run cfg trigs sc).err = none)
    (hidx : (barIndex cfg).Pairwise (· < ·)) : ∀ e ∈ (run cfg trigs sc).trace, ∃ t ∈ barIndex cfg, e.ts = some t := by
  obtain ⟨ts0, bars, hb, _, _, hl, htr, _, _, _⟩ := run_ok h
  rw [htr, hb]
  rw [hb] at hidx
  intro e he
  obtain ⟨_, hm⟩ := runBars_sorted cfg sc (ts0 :: bars) 0 _ hidx hl
  simp only [List.mem_append, List.mem_cons, List.not_mem_nil, or_false] at he
  rcases he with ((h' | h' | h') | h') | h'
  · exact ⟨ts0, List.mem_cons_self .., (setAllFrom_at cfg ts0 0 0 _ e h').1⟩
  · exact ⟨ts0, List.mem_cons_self .., by rw [h']; rfl⟩
  · exact ⟨ts0, List.mem_cons_self .., (runOps_at ts0 .init _ _ e h').1⟩
  · obtain ⟨t, ht, h1, _⟩ := hm e h'
    exact ⟨t, ht, h1⟩
  · refine ⟨(ts0 :: bars).getLast?.getD ts0, ?_, by rw [h']; rfl⟩
    cases hq : (ts0 :: bars).getLast? with
    | none => simp at hq
    | some x => simpa using List.mem_of_getLast? hq

/-- **C05 — one account-history row per bar, carrying that bar's timestamp and token prices.** -/
theorem C05_account_rows (cfg : Cfg) (trigs : List Trig) (sc : Script) (h : (run cfg trigs sc).err = none) :
    (run cfg trigs sc).rows = (barIndex cfg).map (fun ts => (ts, priceRow cfg ts)) ∧
    (run cfg trigs sc).rows.length = (barIndex cfg).length := by
  obtain ⟨ts0, bars, hb, _, _, hl, _, hrows, _, _⟩ := run_ok h
  obtain ⟨b1, _, _, _⟩ := runBars_book cfg sc (ts0 :: bars) 0 _ hl
  have hi : (initRun cfg trigs sc ts0).2.rows = [] := (runOps_frame ts0 .init sc.init (initSt cfg trigs ts0)).1
  have : (run cfg trigs sc).rows = (barIndex cfg).map (fun ts => (ts, priceRow cfg ts)) := by
    rw [hrows, hb]
    show (runBars cfg sc 0 (ts0 :: bars) (initRun cfg trigs sc ts0).2).2.1.rows = _
    rw [b1, hi, List.nil_append]
  exact ⟨this, by rw [this, List.length_map]⟩

theorem core_run_rec (cfg : Cfg) (trigs : List Trig) (sc : Script) (h : (run cfg trigs sc).err = none) :
    (run cfg trigs sc).actions = recOf (run cfg trigs sc).trace ∧
    (run cfg trigs sc).trace.filterMap notifyAct = recOf (run cfg trigs sc).trace ∧
    ∀ e ∈ (run cfg trigs sc).trace, NotifyOnTime e := by
  obtain ⟨ts0, bars, hb, _, _, hl, htr, _, hact, _⟩ := run_ok h
  obtain ⟨_, b2, b3, b4⟩ := runBars_book cfg sc (ts0 :: bars) 0 _ hl
  have fi := runOps_frame ts0 .init sc.init (initSt cfg trigs ts0)
  have hcur : (initRun cfg trigs sc ts0).2.cur = recOf (initRun cfg trigs sc ts0).1 := by
    have := fi.2.2.1; simp only [initSt, List.nil_append] at this; exact this
  have hall : (initRun cfg trigs sc ts0).2.all = recOf (initRun cfg trigs sc ts0).1 := by
    have := fi.2.2.2; simp only [initSt, List.nil_append] at this; exact this
  have hrec : recOf (run cfg trigs sc).trace = recOf (initRun cfg trigs sc ts0).1 ++ recOf (loopRun cfg trigs sc ts0 bars).1 := by
    rw [htr]
    simp only [recOf_append, recOf_setAllFrom, List.nil_append]
    simp only [recOf, List.filterMap_cons, recordedAct, List.filterMap_nil, List.append_nil]
  have k0 := fm_nil_of_allAt notifyAct_phase (setAllFrom_at cfg ts0 0 0 cfg.markets) (c' := stagePhase 0) (by simp [stagePhase])
  have k2 := fm_nil_of_allAt notifyAct_phase (runOps_at ts0 .init sc.init (initSt cfg trigs ts0)) (by simp [Hook.phase])
  refine ⟨?_, ?_, ?_⟩
  · rw [hact, hrec]
    show (runBars cfg sc 0 (ts0 :: bars) (initRun cfg trigs sc ts0).2).2.1.all = _
    rw [b2, hall]; rfl
  · rw [hrec, htr]
    simp only [List.filterMap_append, List.filterMap_cons, k0, notifyAct, List.nil_append, List.filterMap_nil, List.append_nil]
    have k2' : List.filterMap notifyAct (initRun cfg trigs sc ts0).1 = [] := k2
    rw [k2', List.nil_append]
    show List.filterMap notifyAct (runBars cfg sc 0 (ts0 :: bars) (initRun cfg trigs sc ts0).2).1 = _
    rw [b3, hcur]; rfl
  · rw [htr]
    intro e he
    simp only [List.mem_append, List.mem_cons, List.not_mem_nil, or_false] at he
    rcases he with ((h' | h' | h') | h') | h'
    · have := (setAllFrom_at cfg ts0 0 0 _ e h').2
      cases e <;> simp [NotifyOnTime] <;> simp [Ev.phase, stagePhase] at this
    · rw [h']; trivial
    · have := (runOps_at ts0 .init _ _ e h').2
      cases e <;> simp [NotifyOnTime] <;> simp [Ev.phase, Hook.phase] at this
    · apply b4 _ e h'
      intro a ha t ht
      simp only [List.head?_cons, Option.mem_def, Option.some.injEq] at ht
      rw [hcur] at ha
      rw [← ht]
      exact recOf_stamp (fun e he => (runOps_at ts0 .init _ _ e he).1) a ha
    · rw [h']; trivial

/-- **C05 — every accepted operation yields one action record** (and so does everything `market.update()` records):
    `Actuator.actions` is, in order, exactly what the trace shows as recorded; each record is stamped with the timestamp of
    the event that recorded it, i.e. with the bar in which it ran. -/
theorem C05_actions_recorded (cfg : Cfg) (trigs : List Trig) (sc : Script) (h : (run cfg trigs sc).err = none) :
    (run cfg trigs sc).actions = (run cfg trigs sc).trace.filterMap recordedAct ∧
    ∀ e ∈ (run cfg trigs sc).trace, ∀ a, recordedAct e = some a → e.ts = some a.stamp :=
  ⟨(core_run_rec cfg trigs sc h).1, fun _ _ _ ha => recordedAct_stamp ha⟩

/-- **C05 — delivered to `notify` exactly once, at the end of its bar.**  The actions handed to `Strategy.notify` during
    the run are, in order and with multiplicity, exactly the recorded actions (= `Actuator.actions`); every `notify` call
    happens in the bar its action is stamped with, and (phase order) after everything else of that bar.  "Recorded" covers the
    operations of every phase: `initialize`, `before_bar`, trigger actions, open callbacks, `on_bar`, `market.update()`, `after_bar` AND
    operations issued from inside `notify` itself — the loop runs over the live list, so such an action is delivered later in the same
    loop, in the same bar (also on the last bar), never in the next one. -/
theorem C05_notify_exactly_once (cfg : Cfg) (trigs : List Trig) (sc : Script) (h : (run cfg trigs sc).err = none) :
    (run cfg trigs sc).trace.filterMap notifyAct = (run cfg trigs sc).actions ∧
    (∀ e ∈ (run cfg trigs sc).trace, NotifyOnTime e) ∧
    (∀ e ∈ (run cfg trigs sc).trace, (notifyAct e).isSome → e.phase = 15) := by
  obtain ⟨h1, h2, h3⟩ := core_run_rec cfg trigs sc h
  exact ⟨by rw [h2, h1], h3, fun e _ he => notifyAct_phase e he⟩

/-- **C05 — the market update and the first refresh touch every market exactly once per bar, in broker order.** -/
theorem C05_update_once_per_market_per_bar (cfg : Cfg) (trigs : List Trig) (sc : Script) (h : (run cfg trigs sc).err = none) :
    (run cfg trigs sc).trace.filterMap updateOf =
      (barIndex cfg).flatMap (fun ts => (List.range cfg.markets.length).map (fun m => (ts, m))) ∧
    (run cfg trigs sc).trace.filterMap set1Of =
      (barIndex cfg).flatMap (fun ts => (List.range cfg.markets.length).map (fun m => (ts, m))) := by
  have flat : ∀ (l : List Int) (n : Nat), (l.zipIdx n).flatMap (fun x => (List.range cfg.markets.length).map (fun m => (x.1, m))) =
      l.flatMap (fun ts => (List.range cfg.markets.length).map (fun m => (ts, m))) := by
    intro l
    induction l with
    | nil => intro _; rfl
    | cons a l ih => intro n; simp only [List.zipIdx_cons, List.flatMap_cons, ih]
  constructor
  · obtain ⟨ts0, bars, hb, hl, htr, _⟩ := core_run_fm_loop updateOf 11 updateOf_phase (by omega) cfg trigs sc h
    rw [htr, hb]
    have := runBars_fm_of_bar updateOf cfg sc (fun ts _ => (List.range cfg.markets.length).map (fun m => (ts, m)))
      (fun row ts st price => barTrace_updates cfg sc row ts st price) (ts0 :: bars) 0 _ hl
    rw [show (loopRun cfg trigs sc ts0 bars).1 = (runBars cfg sc 0 (ts0 :: bars) (initRun cfg trigs sc ts0).2).1 from rfl, this, flat]
  · obtain ⟨ts0, bars, hb, hl, htr, _⟩ := core_run_fm_loop set1Of 3 set1Of_phase (by omega) cfg trigs sc h
    rw [htr, hb]
    have := runBars_fm_of_bar set1Of cfg sc (fun ts _ => (List.range cfg.markets.length).map (fun m => (ts, m)))
      (fun row ts st price => barTrace_sets cfg sc row ts st price) (ts0 :: bars) 0 _ hl
    rw [show (loopRun cfg trigs sc ts0 bars).1 = (runBars cfg sc 0 (ts0 :: bars) (initRun cfg trigs sc ts0).2).1 from rfl, this, flat]

/-- **C05/C18 — the trigger part of the bar loop.**  The trigger actions called during a run are, in order, exactly the calls
    of `trigRun` over the bar index (Demeter/Trigger.lean, the subject of C18), and the triggers left installed are the ones it
    retains: hooks, operations, refreshes and updates do not interfere with trigger evaluation and retirement. -/
theorem C05_trigger_calls_are_trigRun (cfg : Cfg) (trigs : List Trig) (sc : Script) (h : (run cfg trigs sc).err = none) :
    (run cfg trigs sc).trace.filterMap fireOfEv = (trigRun (barIndex cfg) trigs).1 ∧
    (run cfg trigs sc).trigsLeft = (trigRun (barIndex cfg) trigs).2.1 ∧
    (trigRun (barIndex cfg) trigs).2.2 = none :=
  core_run_trig cfg trigs sc h

/-! ### is_open -/

/-- **C05 — `is_open` is true exactly on the market's own timestamps** (its data index, resampled like every frame when the
    interval is not one minute): the flag every refresh reports, and the flag that gates operations and open callbacks. -/
theorem C05_is_open_iff_own_timestamp (cfg : Cfg) (mc : MarketCfg) (ts : Int) :
    marketOpen cfg mc ts = true ↔ ts ∈ marketIdx cfg.resample mc.sparse cfg.Δ mc.idx := by
  simp [marketOpen]

/-- a market whose `_resample` keeps every bin (every market but the option book) is open on every bar from its first to its last row -/
theorem C05_is_open_dense (cfg : Cfg) (mc : MarketCfg) (ts : Int) (hd : mc.sparse = false) :
    marketOpen cfg mc ts = true ↔ ts ∈ frameIdx cfg.resample cfg.Δ mc.idx := by
  simp [marketOpen, marketIdx, hd]

/-- a market whose `_resample` drops the empty bins (the option book) is open on a bar of a resampled run exactly when the bar is a bin
    label of its frame and one of its rows falls into `[ts, ts + Δ)`: a hole covering a whole bar leaves the market closed there — the bar
    itself is still a bar of the run (`C05_each_bar_once…` do not depend on any market being open) -/
theorem C05_is_open_sparse (cfg : Cfg) (mc : MarketCfg) (ts : Int) (hs : mc.sparse = true) (hr : cfg.resample = true) :
    marketOpen cfg mc ts = true ↔
      ts ∈ resampleIdx cfg.Δ mc.idx ∧ ∃ t ∈ mc.idx, ts ≤ t ∧ t < ts + cfg.Δ := by
  simp [marketOpen, marketIdx, sparseIdx, hs, hr]

/-- an hourly market in a minutely run is open exactly on the whole hours it has data for -/
theorem C05_hourly_market_open_on_whole_hours (cfg : Cfg) (mc : MarketCfg) (ts : Int) (hraw : cfg.resample = false)
    (hhour : ∀ t ∈ mc.idx, t % 3600 = 0) :
    (marketOpen cfg mc ts = true ↔ ts ∈ mc.idx) ∧ (marketOpen cfg mc ts = true → ts % 3600 = 0) := by
  have e : marketOpen cfg mc ts = true ↔ ts ∈ mc.idx := by simp [marketOpen, marketIdx, frameIdx, hraw]
  exact ⟨e, fun h => hhour ts (e.mp h)⟩

/-- **C05 — operations are gated by `is_open`.**  In every run that ends normally, for every event of the trace at a bar
    `t`: an accepted operation and an open callback happen only on a market whose index contains `t`; an operation refused as
    "not open" happens only on a market whose index does not contain `t` (and vice versa: on an open market a refusal is the
    market's own); every refresh reports `is_open = (t ∈ index)`. -/
theorem C05_operations_gated_by_is_open (cfg : Cfg) (trigs : List Trig) (sc : Script) (h : (run cfg trigs sc).err = none)
    (hidx : (barIndex cfg).Pairwise (· < ·)) :
    ∀ e ∈ (run cfg trigs sc).trace, ∀ t, e.ts = some t → OpGate cfg t e := by
  obtain ⟨ts0, bars, hb, _, _, hl, htr, _, _, _⟩ := run_ok h
  rw [hb] at hidx
  rw [htr]
  have g0 := setAllFrom_gate cfg ts0 0 0 cfg.markets List.drop_zero
  obtain ⟨gi, _⟩ := runOps_gate cfg ts0 .init sc.init (initSt cfg trigs ts0) g0.2
  have gl := runBars_gate cfg sc (ts0 :: bars) 0 _ hidx hl
  intro e he t het
  simp only [List.mem_append, List.mem_cons, List.not_mem_nil, or_false] at he
  rcases he with ((h' | rfl | h') | h') | rfl
  · have := (setAllFrom_at cfg ts0 0 0 _ e h').1
    rw [this] at het; cases het
    exact g0.1 e h'
  · trivial
  · have := (runOps_at ts0 .init _ _ e h').1
    rw [this] at het; cases het
    exact gi e h'
  · exact gl e h' t het
  · trivial

/-- a gated operation on a closed market is refused with "… is not open", records nothing and changes nothing -/
theorem C05_closed_market_refuses (ts : Int) (hk : Hook) (op : OpSpec) (st : St) (s : MSt)
    (hs : st.ms[op.m]? = some s) (hclosed : s.isOpen = false) (hg : op.gated = true) :
    doOp ts hk op st = ([.opRej ts hk op.m op.tag true], st) ∧ recordedAct (.opRej ts hk op.m op.tag true) = none := by
  constructor
  · unfold doOp
    rw [hs]
    simp [hclosed, hg]
  · rfl

/-! ### the resampled index -/

theorem core_binLabel_floor (Δ o t : Int) (hΔ : 0 < Δ) : binLabel Δ o t ≤ t ∧ t < binLabel Δ o t + Δ := by
  unfold binLabel
  have h1 := Int.ediv_mul_le (t - o) (ne_of_gt hΔ)
  have h2 := Int.lt_ediv_add_one_mul_self (t - o) hΔ
  constructor
  · omega
  · have : ((t - o) / Δ + 1) * Δ = (t - o) / Δ * Δ + Δ := by ring
    omega

theorem core_mem_grid (start Δ : Int) (n : Nat) (x : Int) : x ∈ grid start Δ n ↔ ∃ i : Nat, i < n ∧ x = start + (i : Int) * Δ := by
  simp only [grid, List.mem_map, List.mem_range]
  constructor
  · rintro ⟨i, hi, rfl⟩; exact ⟨i, hi, rfl⟩
  · rintro ⟨i, hi, rfl⟩; exact ⟨i, hi, rfl⟩

/-- **C05 — the resampled index.**  For a positive interval `Δ` the index of a frame resampled with `first()` is the
    arithmetic grid of bin labels (anchored at midnight of the first day) from the bin of the first row to the bin of the last;
    every raw row between them falls into exactly the bin `[label, label + Δ)` of a member of the index. -/
theorem C05_resampled_index (Δ : Int) (hΔ : 0 < Δ) (a b : Int) (mid : List Int) (hab : a ≤ b) :
    let idx := a :: (mid ++ [b])
    let o := dayStart a
    (resampleIdx Δ idx).Pairwise (· < ·) ∧
    (resampleIdx Δ idx).head? = some (binLabel Δ o a) ∧
    (∀ t, a ≤ t → t ≤ b → binLabel Δ o t ∈ resampleIdx Δ idx ∧ binLabel Δ o t ≤ t ∧ t < binLabel Δ o t + Δ) ∧
    (∀ x ∈ resampleIdx Δ idx, ∃ i : Nat, x = binLabel Δ o a + (i : Int) * Δ ∧ x ≤ b) := by
  intro idx o
  have hidx : resampleIdx Δ idx = grid (binLabel Δ o a) Δ (((binLabel Δ o b - binLabel Δ o a) / Δ).toNat + 1) := by
    have hl : (a :: (mid ++ [b])).getLast? = some b := by
      rw [show a :: (mid ++ [b]) = (a :: mid) ++ [b] from rfl, List.getLast?_append]; rfl
    simp only [resampleIdx, idx, List.head?_cons, hl, o]
  rw [hidx]
  have mono : ∀ t, a ≤ t → (a - o) / Δ ≤ (t - o) / Δ := fun t ht => Int.ediv_le_ediv hΔ (by omega)
  have diff : ∀ t, binLabel Δ o t - binLabel Δ o a = ((t - o) / Δ - (a - o) / Δ) * Δ := by
    intro t; unfold binLabel; ring
  have quot : ∀ t, (binLabel Δ o t - binLabel Δ o a) / Δ = (t - o) / Δ - (a - o) / Δ := by
    intro t; rw [diff]; exact Int.mul_ediv_cancel _ (ne_of_gt hΔ)
  refine ⟨core_grid_pairwise' _ _ hΔ _, ?_, ?_, ?_⟩
  · simp [grid, List.range_succ_eq_map]
  · intro t h1 h2
    refine ⟨?_, core_binLabel_floor Δ o t hΔ⟩
    rw [core_mem_grid]
    have hk : 0 ≤ (t - o) / Δ - (a - o) / Δ := by have := mono t h1; omega
    have hk2 : (t - o) / Δ ≤ (b - o) / Δ := Int.ediv_le_ediv hΔ (by omega)
    refine ⟨((t - o) / Δ - (a - o) / Δ).toNat, ?_, ?_⟩
    · rw [quot b]
      have hb' : 0 ≤ (b - o) / Δ - (a - o) / Δ := by have := mono b hab; omega
      omega
    · rw [Int.toNat_of_nonneg hk]
      have := diff t
      omega
  · intro x hx
    obtain ⟨i, hi, rfl⟩ := (core_mem_grid _ _ _ _).mp hx
    refine ⟨i, rfl, ?_⟩
    rw [quot b] at hi
    have hb' : 0 ≤ (b - o) / Δ - (a - o) / Δ := by have := mono b hab; omega
    have hi' : (i : Int) ≤ (b - o) / Δ - (a - o) / Δ := by omega
    have hmul : (i : Int) * Δ ≤ ((b - o) / Δ - (a - o) / Δ) * Δ := Int.mul_le_mul_of_nonneg_right hi' (le_of_lt hΔ)
    have := diff b
    have := (core_binLabel_floor Δ o b hΔ).1
    omega

/-! ### the trace is made of bars; the second refresh -/

theorem core_runBars_segs (cfg : Cfg) (sc : Script) : ∀ (bars : List Int) (row : Nat) (st : St),
    (runBars cfg sc row bars st).2.2 = none →
    ∃ segs : List (List Ev), (runBars cfg sc row bars st).1 = segs.flatten ∧ segs.length = bars.length ∧
      ∀ (k : Nat) (hk : k < bars.length), ∃ st' price, segs[k]? = some ((barParts cfg sc (row + k) bars[k] st' price).trace (row + k) bars[k])
  | [], _, _, _ => ⟨[], rfl, rfl, fun k hk => absurd hk (by simp)⟩
  | ts :: bars, row, st, h => by
    obtain ⟨h1, h2, h3⟩ := runBars_cons_ok h
    obtain ⟨price, _, _, hstep⟩ := barStep_ok h1
    obtain ⟨segs, e1, e2, e3⟩ := core_runBars_segs cfg sc bars (row + 1) _ h2
    refine ⟨((barParts cfg sc row ts st price).trace row ts) :: segs, ?_, by simp [e2], ?_⟩
    · rw [h3]; simp only [List.flatten_cons, e1]; rw [hstep]
    · intro k hk
      cases k with
      | zero => exact ⟨st, price, by simp⟩
      | succ j =>
        obtain ⟨st', price', hj⟩ := e3 j (by simpa using hk)
        refine ⟨st', price', ?_⟩
        simp only [List.getElem?_cons_succ, List.getElem_cons_succ]
        rw [hj]
        have : row + 1 + j = row + (j + 1) := by omega
        rw [this]

/-- the call trace of a normal run is: the refresh before `initialize`, `initialize` and what it does, then one stretch per bar of
    the index — each the trace of `barParts` (one iteration of the loop) from some state —, then `finalize` -/
theorem C05_trace_is_made_of_bars (cfg : Cfg) (trigs : List Trig) (sc : Script) (h : (run cfg trigs sc).err = none) :
    ∃ (pre : List Ev) (segs : List (List Ev)) (fin : Ev),
      (run cfg trigs sc).trace = pre ++ segs.flatten ++ [fin] ∧ segs.length = (barIndex cfg).length ∧
      (∀ e ∈ pre, e.phase ≤ 2) ∧ fin.phase = 16 ∧
      ∀ (k : Nat) (hk : k < (barIndex cfg).length), ∃ st price,
        segs[k]? = some ((barParts cfg sc k (barIndex cfg)[k] st price).trace k (barIndex cfg)[k]) := by
  obtain ⟨ts0, bars, hb, _, _, hl, htr, _, _, _⟩ := run_ok h
  obtain ⟨segs, e1, e2, e3⟩ := core_runBars_segs cfg sc (ts0 :: bars) 0 _ hl
  refine ⟨(setAllFrom cfg ts0 0 0 cfg.markets).1 ++ Ev.initialize ts0 :: (initRun cfg trigs sc ts0).1, segs,
    Ev.finalize ((ts0 :: bars).getLast?.getD ts0), ?_, by rw [hb]; exact e2, ?_, rfl, ?_⟩
  · rw [htr]
    show _ ++ (runBars cfg sc 0 (ts0 :: bars) (initRun cfg trigs sc ts0).2).1 ++ _ = _
    rw [e1]
  · intro e he
    simp only [List.mem_append, List.mem_cons] at he
    rcases he with h' | rfl | h'
    · have := (setAllFrom_at cfg ts0 0 0 _ e h').2; simp [stagePhase] at this; omega
    · simp [Ev.phase]
    · have := (runOps_at ts0 .init _ _ e h').2; simp [Hook.phase] at this; omega
  · intro k hk
    have hk' : k < (ts0 :: bars).length := by rw [← hb]; exact hk
    obtain ⟨st', price, hs⟩ := e3 k hk'
    refine ⟨st', price, ?_⟩
    simp only [Nat.zero_add] at hs
    simp only [hb]
    exact hs

/-- **C05 — the second refresh touches exactly the markets with `has_update`.**  In every iteration of the loop, from every
    state: the second `set_market_status` round of the bar touches, once each and in broker order, exactly the markets on which
    an operation was accepted earlier in that bar (in `before_bar`, a trigger action, an open callback or `on_bar`; the first
    refresh cleared the flags, so operations of earlier bars, of `initialize` or of `after_bar` do not count). -/
theorem C05_second_refresh_iff_has_update (cfg : Cfg) (sc : Script) (row : Nat) (ts : Int) (st : St) (price : Option Int) :
    ((barParts cfg sc row ts st price).trace row ts).filterMap set2Of =
      ((List.range cfg.markets.length).filter
        (fun m => ((barParts cfg sc row ts st price).trace row ts).any (okEarly m))).map (fun m => (ts, m)) :=
  barTrace_second_refresh cfg sc row ts st price

/-! ### when a run ends normally -/

/-- **which runs the theorems above are about (necessary conditions, every script).**  A run that ends normally passed `_check_backtest`
    (interval ≥ 1 minute, a market, price range covering the default market's data), had at least one bar, found a price row for every bar
    of the index and could evaluate every installed trigger. -/
theorem C05_run_ends_normally_only_if (cfg : Cfg) (trigs : List Trig) (sc : Script) (hn : (trigs.map (·.id)).Nodup)
    (h : (run cfg trigs sc).err = none) :
    checkBacktest cfg = none ∧ barIndex cfg ≠ [] ∧ (∀ t ∈ barIndex cfg, (priceAt cfg t).isSome) ∧ (∀ x ∈ trigs, WF x.k) := by
  obtain ⟨ts0, bars, hb, hc, _, hl, _, _, _, _⟩ := run_ok h
  refine ⟨hc, by rw [hb]; simp, ?_, ?_⟩
  · rw [hb]; exact runBars_prices cfg sc (ts0 :: bars) 0 _ hl
  · have h3 := (core_run_trig cfg trigs sc h).2.2
    rw [hb] at h3
    by_contra hc'
    have : ∃ x ∈ trigs, ¬ WF x.k := by
      by_contra hcc
      apply hc'
      intro x hx
      by_contra hne
      exact hcc ⟨x, hx, hne⟩
    exact (raises_iff_malformed ts0 bars trigs hn).mpr this h3

/-- **… and for a strategy that does not act from inside `notify` these conditions are sufficient**: nothing else can end the run (the scripted
    hooks catch the refusals of their own operations).  A hook that does act from inside `notify` adds one condition: its loop over the live
    action list has to come to an end in every bar (`runNotify`); when it does, every theorem above applies. -/
theorem C05_run_ends_normally_iff (cfg : Cfg) (trigs : List Trig) (sc : Script) (hn : (trigs.map (·.id)).Nodup)
    (hq : ∀ r t, sc.notify r t = []) :
    (run cfg trigs sc).err = none ↔
      checkBacktest cfg = none ∧ barIndex cfg ≠ [] ∧ (∀ t ∈ barIndex cfg, (priceAt cfg t).isSome) ∧ (∀ x ∈ trigs, WF x.k) := by
  constructor
  · exact C05_run_ends_normally_only_if cfg trigs sc hn
  · rintro ⟨hc, hne, hp, hwf⟩
    unfold run
    rw [hc]
    simp only []
    cases hb : barIndex cfg with
    | nil => exact absurd hb hne
    | cons ts0 bars =>
      simp only []
      rw [hb] at hp
      have hp0 := hp ts0 (List.mem_cons_self ..)
      cases hpr : priceAt cfg ts0 with
      | none => rw [hpr] at hp0; cases hp0
      | some pr =>
        simp only []
        have ht : (runOps ts0 Hook.init sc.init ⟨(setAllFrom cfg ts0 0 0 cfg.markets).2, trigs, [], [], []⟩).2.trigs = trigs :=
          (runOps_frame ts0 .init sc.init _).2.1
        exact runBars_none cfg sc hq (ts0 :: bars) 0 _ hp (by rw [ht]; exact hwf)

/-! ### non-vacuity: a concrete run (a minutely and an hourly market, raw 1-minute bars from 08:58) -/

def Core.exCfg : Cfg :=
  { markets := [{ idx := [32280, 32340, 32400, 32460], openCb := true }, { idx := [32400], openCb := false }], priceIdx := [32280, 32340, 32400, 32460], Δ := 60, resample := false }

def Core.exScript : Script :=
  { init := [⟨0, true, "i", true⟩], before := fun _ => [], fire := fun _ _ => [⟨1, true, "f", true⟩], openCb := fun _ _ => [],
    on := fun r => if r = 2 then [⟨1, true, "a", true⟩, ⟨0, false, "b", true⟩] else [⟨1, true, "c", true⟩, ⟨1, true, "free", false⟩],
    after := fun _ => [],
    upd := fun r m => if r = 3 ∧ m = 0 then ["liq"] else [] }

example : (run Core.exCfg (install [("", .atTime 32400)]) Core.exScript).err = none := by decide

example : (run Core.exCfg (install [("", .atTime 32400)]) Core.exScript).actions =
    [⟨"i", 32280, 0⟩, ⟨"free", 32280, 1⟩, ⟨"free", 32340, 1⟩, ⟨"f", 32400, 1⟩, ⟨"a", 32400, 1⟩, ⟨"free", 32460, 1⟩,
     ⟨"liq", 32460, 0⟩] := by decide

example : (barIndex Core.exCfg).Pairwise (· < ·) := by decide

/-! ### non-vacuity: a hook that acts from inside `notify` (on the last bar too), and an option book with more rows than minutes -/

def Core.exNotifyScript (fuel : Nat) : Script :=
  { init := [], before := fun _ => [], fire := fun _ _ => [], openCb := fun _ _ => [],
    on := fun r => if r = 1 ∨ r = 3 then [⟨0, true, "a", true⟩] else [], after := fun _ => [], upd := fun _ _ => [],
    notify := fun _ t => if t == "a" then [⟨0, true, "b", false⟩, ⟨1, true, "x", true⟩] else if t == "b" then [⟨0, true, "c", true⟩] else [],
    fuel := fuel }

/-- the answers `b` (to `a`) and `c` (to `b`) are recorded and delivered in the bar of `a` — 32340 and the last bar 32460 —; `x` goes to
    the hourly market, closed on both bars, and is refused -/
example : (run Core.exCfg [] (Core.exNotifyScript 2)).err = none ∧
    (run Core.exCfg [] (Core.exNotifyScript 2)).actions =
      [⟨"a", 32340, 0⟩, ⟨"b", 32340, 0⟩, ⟨"c", 32340, 0⟩, ⟨"a", 32460, 0⟩, ⟨"b", 32460, 0⟩, ⟨"c", 32460, 0⟩] ∧
    (run Core.exCfg [] (Core.exNotifyScript 2)).trace.filterMap notifyAct = (run Core.exCfg [] (Core.exNotifyScript 2)).actions := by decide

/-- with less fuel than the hook's answers need, the model says so instead of dropping a delivery -/
example : (run Core.exCfg [] (Core.exNotifyScript 1)).err = some .diverges := by decide

/-- two hours of an option book with five rows per hour and three minutes of a minutely market: ten rows against three, yet the bars are
    the three minutes (a choice by row count would run two hourly bars) -/
example : barIndex { markets := [{ idx := [0, 0, 0, 0, 0, 3600, 3600, 3600, 3600, 3600], openCb := false }, { idx := [0, 60, 120], openCb := false }], priceIdx := [0, 60, 120],
                     Δ := 60, resample := false } = [0, 60, 120] := by decide

end Demeter
