/-
  C17 — GMX mint/redeem, v1 (GLP) part.  Theorems about Demeter.GmxV1 under the exact context (rational semantics of
  the Decimal code); the v1 fee vs the Vault's integer rule is in Proofs/C17/V1Fee.lean, GMX v2 in Proofs/C17/V2.lean.
-/
import Proofs.Lemmas.GmxV1Spec
import Proofs.Lemmas.GmxV1Reject
namespace Demeter
open Demeter.GmxV1 Demeter.Gmx

/-- inversion of an accepted `buy_glp` -/
theorem Gmx.buyGlp_ok {env : Env} {s s' : State} {tok : String} {dec : Nat} {a g : Rat}
    (h : buyGlp NumCtx.exact env s tok dec a = (.ok g, s')) :
    0 ≤ a ∧ ∃ mint fee br w, addLiquidity NumCtx.exact env tok dec a = .ok (mint, fee, br) ∧
      Wallet.debit NumCtx.exact s.wallet (walletKey tok) a false = .ok w ∧
      g = mint / 10 ^ 18 ∧
      s' = { s with wallet := w, glp := s.glp + g, actions := s.actions ++ [.buy (walletKey tok) a mint] } := by
  unfold buyGlp at h
  split at h
  · cases h
  · rename_i hneg
    split at h
    · cases h
    · rename_i mint fee br hadd
      split at h
      · cases h
      · cases h
      · rename_i w hw
        simp only [Prod.mk.injEq, Except.ok.injEq] at h
        obtain ⟨hg, hs⟩ := h
        refine ⟨not_lt.mp hneg, mint, fee, br, w, hadd, hw, ?_, ?_⟩
        · rw [← hg]; simp [Gen.gmxGlpDecimals]
        · rw [← hs, ← hg]; simp [Gen.gmxGlpDecimals]

/-- inversion of an accepted `sell_glp` -/
theorem Gmx.sellGlp_ok {env : Env} {s s' : State} {tok : String} {dec : Nat} {ga out g : Rat}
    (hg : g = if ga = 0 then s.glp else ga)
    (h : sellGlp NumCtx.exact env s tok dec ga = (.ok out, s')) :
    0 ≤ g ∧ g ≤ s.glp ∧ ∃ fee br, removeLiquidity NumCtx.exact env tok dec g = .ok (out, fee, br) ∧
      s' = { s with glp := s.glp - g, wallet := Wallet.credit NumCtx.exact s.wallet (walletKey tok) out,
                    actions := s.actions ++ [.sell (walletKey tok) g out] } := by
  unfold sellGlp at h
  simp only [] at h
  rw [← hg] at h
  split at h
  · cases h
  · rename_i h1
    split at h
    · cases h
    · rename_i h2
      split at h
      · cases h
      · rename_i o fee br hrem
        simp only [Prod.mk.injEq, Except.ok.injEq] at h
        obtain ⟨ho, hs⟩ := h
        subst ho
        exact ⟨not_lt.mp h1, not_lt.mp h2, fee, br, hrem, by rw [← hs]; simp⟩

theorem Gmx.aumU_nonneg {env : Env} (he : EnvPos env) : 0 ≤ aumU env := by
  unfold aumU
  exact quantDown0_nonneg (div_nonneg he.aum (by positivity))

/-! ### fee bounds -/

/-- **the v1 fee lies between 0 and base (25 bp) + tax (60 bp)**, for every token, USDG delta, direction and row with
    non-negative weights and USDG supply. -/
theorem C17_v1_fee_bounds {env : Env} (he : EnvNonneg env) {tok : String} {u f : Rat} {inc : Bool} {br : FeeBranch}
    (h : feeBps NumCtx.exact env tok u inc = .ok (f, br)) :
    0 ≤ f ∧ f ≤ ((Gen.gmxMintBurnFeeBps + Gen.gmxTaxBps : Nat) : Rat) ∧
      Gen.gmxMintBurnFeeBps = 25 ∧ Gen.gmxTaxBps = 60 ∧ Gen.gmxBpsDivisor = 10000 := by
  obtain ⟨h0, h1⟩ := feeBps_bounds he h
  refine ⟨h0, ?_, rfl, rfl, rfl⟩
  have : ((Gen.gmxMintBurnFeeBps + Gen.gmxTaxBps : Nat) : Rat) = 85 := by norm_num [Gen.gmxMintBurnFeeBps, Gen.gmxTaxBps]
  rw [this]; exact h1

/-! ### mint / redeem formulas with the contract's round-down steps -/

/-- **minted GLP = price × amount after fee / value per share, with the contract's round-down steps**: with
    `usdg x = ⌊⌊x·10^dec·P/10³⁰⌋·10¹⁸/10^dec⌋` (token wei × price rounded down, adjusted to USDG's 18 decimals, rounded down),
    the result is `⌊ usdg(a − a·fee/10⁴) · supply / ⌊aum/10¹²⌋ ⌋ / 10¹⁸`, where the fee is the fee rule evaluated at `usdg a`;
    the wallet is debited `a` and the holding grows by exactly the result. -/
theorem C17_v1_mint_round_down {env : Env} (he : EnvPos env) {s s' : State} {tok : String} {dec : Nat} {a g : Rat}
    (h : buyGlp NumCtx.exact env s tok dec a = (.ok g, s')) :
    ∃ r fee br, env.row? tok = some r ∧
      let usdg : Rat → Rat := fun x => ((⌊((⌊x * 10 ^ dec * r.price / 10 ^ 30⌋ : Int) : Rat) * 10 ^ 18 / 10 ^ dec⌋ : Int) : Rat)
      feeBps NumCtx.exact env tok (usdg a) true = .ok (fee, br) ∧
      g = ((⌊usdg (a - a * fee / 10000) * env.glpSupply / ((⌊env.aum / 10 ^ 12⌋ : Int) : Rat)⌋ : Int) : Rat) / 10 ^ 18 ∧
      s'.glp = s.glp + g ∧
      Wallet.debit NumCtx.exact s.wallet (walletKey tok) a false = .ok s'.wallet := by
  obtain ⟨ha, mint, fee, br, w, hadd, hw, hg, hs⟩ := Gmx.buyGlp_ok h
  obtain ⟨r, hr, hfee, haum, hmint⟩ := addLiquidity_ok hadd
  have hP : 0 < r.price := he.price r (row_mem hr)
  obtain ⟨hf0, hf1⟩ := feeBps_bounds he.toEnvNonneg hfee
  obtain ⟨haf0, _⟩ := afterFee_bounds ha hf0 hf1
  have hA : 0 < aumU env := lt_of_le_of_ne (Gmx.aumU_nonneg he) (Ne.symm haum)
  -- `usdgOf` is the double floor for non-negative amounts
  have husdg : ∀ x : Rat, 0 ≤ x → usdgOf x dec r.price
      = ((⌊((⌊x * 10 ^ dec * r.price / 10 ^ 30⌋ : Int) : Rat) * 10 ^ 18 / 10 ^ dec⌋ : Int) : Rat) := by
    intro x hx
    have h1 : 0 ≤ x * 10 ^ dec * r.price / 10 ^ 30 := by positivity
    unfold usdgOf
    have h2 := quantDown0_nonneg h1
    rw [quantDown0_eq_floor (by positivity), quantDown0_eq_floor h1]
  have hz : 0 ≤ usdgOf (afterFee NumCtx.exact a fee) dec r.price * env.glpSupply / aumU env := by
    have := usdgOf_nonneg (dec := dec) haf0 (le_of_lt hP)
    have := he.glpSupply
    positivity
  refine ⟨r, fee, br, hr, ?_, ?_, by rw [hs], by rw [hs]; exact hw⟩
  · simp only []; rw [← husdg a ha]; exact hfee
  · simp only []
    rw [hg, hmint, quantDown0_eq_floor hz, ← afterFee_eq, ← husdg _ haf0]
    unfold aumU
    rw [quantDown0_eq_floor (div_nonneg he.aum (by positivity))]

/-- **redeemed tokens = USDG value of the GLP (rounded down to USDG wei) / price, adjusted to the token's decimals, minus
    the fee**: `R · (1 − fee/10⁴) / 10^dec` with `R = U / (P/10³⁰) · 10^dec / 10¹⁸` and `U = ⌊g·10¹⁸/supply · ⌊aum/10¹²⌋⌋`; the holding
    shrinks by `g`, the wallet is credited the result. -/
theorem C17_v1_redeem_round_down {env : Env} (he : EnvPos env) {s s' : State} {tok : String} {dec : Nat} {ga out : Rat}
    (h : sellGlp NumCtx.exact env s tok dec ga = (.ok out, s')) :
    let g := if ga = 0 then s.glp else ga
    let U : Rat := ((⌊g * 10 ^ 18 / env.glpSupply * ((⌊env.aum / 10 ^ 12⌋ : Int) : Rat)⌋ : Int) : Rat)
    ∃ r fee br, env.row? tok = some r ∧ feeBps NumCtx.exact env tok U false = .ok (fee, br) ∧
      (let R := U / (r.price / 10 ^ 30) * 10 ^ dec / 10 ^ 18
       out = (R - R * fee / 10000) / 10 ^ dec) ∧
      0 ≤ g ∧ g ≤ s.glp ∧ s'.glp = s.glp - g ∧
      s'.wallet = Wallet.credit NumCtx.exact s.wallet (walletKey tok) out := by
  intro g U
  obtain ⟨hg0, hgle, fee, br, hrem, hs⟩ := Gmx.sellGlp_ok (g := g) rfl h
  obtain ⟨r, hr, hsup, hpne, hfee, hout⟩ := removeLiquidity_ok hrem
  have hA := Gmx.aumU_nonneg he
  have hS := he.glpSupply
  have hy : 0 ≤ g * 10 ^ 18 / env.glpSupply * aumU env := by positivity
  have hU : quantDown 0 (g * 10 ^ 18 / env.glpSupply * aumU env) = U := by
    rw [quantDown0_eq_floor hy]
    show _ = ((⌊g * 10 ^ 18 / env.glpSupply * ((⌊env.aum / 10 ^ 12⌋ : Int) : Rat)⌋ : Int) : Rat)
    unfold aumU
    rw [quantDown0_eq_floor (div_nonneg he.aum (by positivity))]
  rw [hU] at hfee hout
  refine ⟨r, fee, br, hr, hfee, ?_, hg0, hgle, by rw [hs], by rw [hs]⟩
  simp only []
  rw [hout, afterFee_eq]

/-- **minted GLP follows price × amount / value per share up to the round-down steps, and only downwards**: with
    `p = P/10³⁰` (USD per token), `ideal = (a − a·fee/10⁴)·p·10¹⁸` USDG wei and value per share `⌊aum/10¹²⌋ / supply`,
    the USDG credited is in `(ideal − 10¹⁸/10^dec − 1, ideal]` and the GLP wei minted is in `(usdg·supply/⌊aum/10¹²⌋ − 1, usdg·supply/⌊aum/10¹²⌋]`. -/
theorem C17_v1_mint_value_per_share {env : Env} (he : EnvPos env) {s s' : State} {tok : String} {dec : Nat} {a g : Rat}
    (h : buyGlp NumCtx.exact env s tok dec a = (.ok g, s')) :
    ∃ r fee br usdg, env.row? tok = some r ∧ feeBps NumCtx.exact env tok (usdgOf a dec r.price) true = .ok (fee, br) ∧
      0 ≤ fee ∧ fee ≤ 85 ∧
      (let ideal := (a - a * fee / 10000) * (r.price / 10 ^ 30) * 10 ^ 18
       usdg ≤ ideal ∧ ideal < usdg + 10 ^ 18 / 10 ^ dec + 1) ∧
      g * 10 ^ 18 ≤ usdg * env.glpSupply / aumU env ∧ usdg * env.glpSupply / aumU env < g * 10 ^ 18 + 1 := by
  obtain ⟨ha, mint, fee, br, w, hadd, _, hg, _⟩ := Gmx.buyGlp_ok h
  obtain ⟨r, hr, hfee, haum, hmint⟩ := addLiquidity_ok hadd
  have hP : 0 < r.price := he.price r (row_mem hr)
  obtain ⟨hf0, hf1⟩ := feeBps_bounds he.toEnvNonneg hfee
  obtain ⟨haf0, _⟩ := afterFee_bounds ha hf0 hf1
  have hA : 0 < aumU env := lt_of_le_of_ne (Gmx.aumU_nonneg he) (Ne.symm haum)
  have hS := he.glpSupply
  set af := afterFee NumCtx.exact a fee with haf
  have hafeq : af = a - a * fee / 10000 := afterFee_eq a fee
  have hd : (0 : Rat) < 10 ^ dec := by positivity
  refine ⟨r, fee, br, usdgOf af dec r.price, hr, hfee, hf0, hf1, ?_, ?_, ?_⟩
  · simp only []
    rw [← hafeq]
    refine ⟨usdgOf_le haf0 (le_of_lt hP), ?_⟩
    -- two round-downs lose less than 10¹⁸/10^dec + 1 USDG wei
    unfold usdgOf
    have hx : 0 ≤ af * 10 ^ dec * r.price / 10 ^ 30 := by positivity
    have h1 := quantDown0_gt hx
    have h0 := quantDown0_nonneg hx
    have hy : 0 ≤ quantDown 0 (af * 10 ^ dec * r.price / 10 ^ 30) * 10 ^ 18 / 10 ^ dec := by positivity
    have h2 := quantDown0_gt hy
    have e : af * (r.price / 10 ^ 30) * 10 ^ 18 = (af * 10 ^ dec * r.price / 10 ^ 30) * 10 ^ 18 / 10 ^ dec := by field_simp
    rw [e]
    have h3 : (af * 10 ^ dec * r.price / 10 ^ 30) * 10 ^ 18 / 10 ^ dec
        < (quantDown 0 (af * 10 ^ dec * r.price / 10 ^ 30) + 1) * 10 ^ 18 / 10 ^ dec := by
      apply div_lt_div_of_pos_right _ hd
      exact mul_lt_mul_of_pos_right h1 (by positivity)
    have e2 : (quantDown 0 (af * 10 ^ dec * r.price / 10 ^ 30) + 1) * 10 ^ 18 / 10 ^ dec
        = quantDown 0 (af * 10 ^ dec * r.price / 10 ^ 30) * 10 ^ 18 / 10 ^ dec + 10 ^ 18 / 10 ^ dec := by ring
    linarith
  · have hz : 0 ≤ usdgOf af dec r.price * env.glpSupply / aumU env := by
      have := usdgOf_nonneg (dec := dec) haf0 (le_of_lt hP); positivity
    have : g * 10 ^ 18 = mint := by rw [hg]; field_simp
    rw [this, hmint]; exact quantDown0_le hz
  · have hz : 0 ≤ usdgOf af dec r.price * env.glpSupply / aumU env := by
      have := usdgOf_nonneg (dec := dec) haf0 (le_of_lt hP); positivity
    have : g * 10 ^ 18 = mint := by rw [hg]; field_simp
    rw [this, hmint]; exact quantDown0_gt hz

/-- **redeemed tokens follow GLP × value per share / price, net of the fee, up to one USDG wei, and only downwards** -/
theorem C17_v1_redeem_value_per_share {env : Env} (he : EnvPos env) {s s' : State} {tok : String} {dec : Nat} {ga out : Rat}
    (h : sellGlp NumCtx.exact env s tok dec ga = (.ok out, s')) :
    let g := if ga = 0 then s.glp else ga
    ∃ r fee br U, env.row? tok = some r ∧ feeBps NumCtx.exact env tok U false = .ok (fee, br) ∧ 0 ≤ fee ∧ fee ≤ 85 ∧
      U ≤ g * 10 ^ 18 * (aumU env / env.glpSupply) ∧ g * 10 ^ 18 * (aumU env / env.glpSupply) < U + 1 ∧
      out = U / 10 ^ 18 / (r.price / 10 ^ 30) * (1 - fee / 10000) := by
  intro g
  obtain ⟨hg0, _, fee, br, hrem, _⟩ := Gmx.sellGlp_ok (g := g) rfl h
  obtain ⟨r, hr, hsup, hpne, hfee, hout⟩ := removeLiquidity_ok hrem
  have hA := Gmx.aumU_nonneg he
  have hS := he.glpSupply
  obtain ⟨hf0, hf1⟩ := feeBps_bounds he.toEnvNonneg hfee
  have hy : 0 ≤ g * 10 ^ 18 / env.glpSupply * aumU env := by positivity
  have e : g * 10 ^ 18 * (aumU env / env.glpSupply) = g * 10 ^ 18 / env.glpSupply * aumU env := by ring
  refine ⟨r, fee, br, quantDown 0 (g * 10 ^ 18 / env.glpSupply * aumU env), hr, hfee, hf0, hf1, ?_, ?_, ?_⟩
  · rw [e]; exact quantDown0_le hy
  · rw [e]; exact quantDown0_gt hy
  · rw [hout, afterFee_eq]
    have hd : (10 : Rat) ^ dec ≠ 0 := by positivity
    field_simp
/-- **same-bar round trip**: buying GLP with `a` tokens and selling any part `g' ≤ g` of the minted GLP for the same
    token in the same bar returns at most `a`. -/
theorem C17_v1_roundtrip_no_profit {env : Env} (he : EnvPos env) {s s1 s2 : State} {tok : String} {dec : Nat}
    {a g g' out : Rat}
    (hbuy : buyGlp NumCtx.exact env s tok dec a = (.ok g, s1))
    (hg' : 0 < g') (hle : g' ≤ g)
    (hsell : sellGlp NumCtx.exact env s1 tok dec g' = (.ok out, s2)) :
    out ≤ a := by
  obtain ⟨ha, mint, fee, br, w, hadd, _, hg, _⟩ := Gmx.buyGlp_ok hbuy
  obtain ⟨r, hr, hfee, haum, hmint⟩ := addLiquidity_ok hadd
  have hgne : g' ≠ 0 := ne_of_gt hg'
  obtain ⟨_, _, fee', br', hrem, _⟩ := Gmx.sellGlp_ok (g := g') (by simp [hgne]) hsell
  obtain ⟨r', hr', hsup, hpne, hfee', hout⟩ := removeLiquidity_ok hrem
  rw [hr] at hr'; cases hr'
  have hP : 0 < r.price := he.price r (row_mem hr)
  have hS : 0 < env.glpSupply := he.glpSupply
  have hA : 0 < aumU env := lt_of_le_of_ne (Gmx.aumU_nonneg he) (Ne.symm haum)
  obtain ⟨hf0, hf1⟩ := feeBps_bounds he.toEnvNonneg hfee
  obtain ⟨hf0', hf1'⟩ := feeBps_bounds he.toEnvNonneg hfee'
  obtain ⟨haf0, haf1⟩ := afterFee_bounds ha hf0 hf1
  set af := afterFee NumCtx.exact a fee with haf
  have hd : (0 : Rat) < 10 ^ dec := by positivity
  -- USDG minted
  have hU : usdgOf af dec r.price ≤ af * (r.price / 10 ^ 30) * 10 ^ 18 := usdgOf_le haf0 (le_of_lt hP)
  have hU0 : 0 ≤ usdgOf af dec r.price := usdgOf_nonneg haf0 (le_of_lt hP)
  -- GLP minted (wei)
  have hm0 : 0 ≤ usdgOf af dec r.price * env.glpSupply / aumU env := by positivity
  have hM : mint ≤ usdgOf af dec r.price * env.glpSupply / aumU env := by rw [hmint]; exact quantDown0_le hm0
  -- USDG redeemed
  set U' := quantDown 0 (g' * 10 ^ 18 / env.glpSupply * aumU env) with hU'
  have hy0 : 0 ≤ g' * 10 ^ 18 / env.glpSupply * aumU env := by positivity
  have hU'le : U' ≤ g' * 10 ^ 18 / env.glpSupply * aumU env := quantDown0_le hy0
  have hU'0 : 0 ≤ U' := quantDown0_nonneg hy0
  have hchain : U' ≤ usdgOf af dec r.price := by
    have h1 : g' * 10 ^ 18 ≤ mint := by
      have : g * 10 ^ 18 = mint := by rw [hg]; field_simp
      nlinarith
    calc U' ≤ g' * 10 ^ 18 / env.glpSupply * aumU env := hU'le
      _ ≤ mint / env.glpSupply * aumU env := by
          apply mul_le_mul_of_nonneg_right _ (le_of_lt hA)
          exact div_le_div_of_nonneg_right h1 (le_of_lt hS)
      _ ≤ (usdgOf af dec r.price * env.glpSupply / aumU env) / env.glpSupply * aumU env := by
          apply mul_le_mul_of_nonneg_right _ (le_of_lt hA)
          exact div_le_div_of_nonneg_right hM (le_of_lt hS)
      _ = usdgOf af dec r.price := by field_simp
  -- tokens paid out (token wei)
  have hpp : (0 : Rat) < r.price / 10 ^ 30 := by positivity
  set R := U' / (r.price / 10 ^ 30) * 10 ^ dec / 10 ^ 18 with hR
  have hred0 : 0 ≤ R := by positivity
  obtain ⟨_, hout1⟩ := afterFee_bounds hred0 hf0' hf1'
  have hred : R ≤ af * 10 ^ dec := by
    have h2 : U' / (r.price / 10 ^ 30) ≤ af * 10 ^ 18 := by
      rw [div_le_iff₀ hpp]
      calc U' ≤ usdgOf af dec r.price := hchain
        _ ≤ af * (r.price / 10 ^ 30) * 10 ^ 18 := hU
        _ = af * 10 ^ 18 * (r.price / 10 ^ 30) := by ring
    calc R = U' / (r.price / 10 ^ 30) * 10 ^ dec / 10 ^ 18 := hR
      _ ≤ af * 10 ^ 18 * 10 ^ dec / 10 ^ 18 := by
          apply div_le_div_of_nonneg_right _ (by positivity)
          exact mul_le_mul_of_nonneg_right h2 (le_of_lt hd)
      _ = af * 10 ^ dec := by field_simp
  calc out = afterFee NumCtx.exact R fee' / 10 ^ dec := hout
    _ ≤ R / 10 ^ dec := div_le_div_of_nonneg_right hout1 (le_of_lt hd)
    _ ≤ (af * 10 ^ dec) / 10 ^ dec := div_le_div_of_nonneg_right hred (le_of_lt hd)
    _ = af := by field_simp
    _ ≤ a := haf1

/-! ### round trip with the sale split into pieces -/

/-- what buying costs per share: the GLP minted, at value per share, is worth at most the tokens paid -/
theorem Gmx.buy_ge_value {env : Env} (he : EnvPos env) {s s' : State} {tok : String} {dec : Nat} {a g : Rat}
    (h : buyGlp NumCtx.exact env s tok dec a = (.ok g, s')) :
    ∃ r, env.row? tok = some r ∧ g * (aumU env / env.glpSupply) ≤ a * (r.price / 10 ^ 30) := by
  obtain ⟨ha, _⟩ := Gmx.buyGlp_ok h
  obtain ⟨r, fee, br, usdg, hr, _, hf0, _, ⟨hu, _⟩, hg, _⟩ := C17_v1_mint_value_per_share he h
  refine ⟨r, hr, ?_⟩
  have hP : 0 < r.price := he.price r (row_mem hr)
  have hS := he.glpSupply
  have hp : 0 < r.price / 10 ^ 30 := by positivity
  rcases (Gmx.aumU_nonneg he).lt_or_eq with hA | hA
  · -- g·10¹⁸·A/S ≤ usdg ≤ (a − a·fee/10⁴)·p·10¹⁸ ≤ a·p·10¹⁸
    have h1 : g * 10 ^ 18 * (aumU env / env.glpSupply) ≤ usdg := by
      have : g * 10 ^ 18 * (aumU env / env.glpSupply) ≤ usdg * env.glpSupply / aumU env * (aumU env / env.glpSupply) :=
        mul_le_mul_of_nonneg_right hg (by positivity)
      calc g * 10 ^ 18 * (aumU env / env.glpSupply) ≤ usdg * env.glpSupply / aumU env * (aumU env / env.glpSupply) := this
        _ = usdg := by field_simp
    have h2 : (a - a * fee / 10000) * (r.price / 10 ^ 30) * 10 ^ 18 ≤ a * (r.price / 10 ^ 30) * 10 ^ 18 := by
      have : a - a * fee / 10000 ≤ a := by
        have : 0 ≤ a * fee / 10000 := by positivity
        linarith
      exact mul_le_mul_of_nonneg_right (mul_le_mul_of_nonneg_right this (le_of_lt hp)) (by positivity)
    have h3 : g * (aumU env / env.glpSupply) * 10 ^ 18 ≤ a * (r.price / 10 ^ 30) * 10 ^ 18 := by
      calc g * (aumU env / env.glpSupply) * 10 ^ 18 = g * 10 ^ 18 * (aumU env / env.glpSupply) := by ring
        _ ≤ usdg := h1
        _ ≤ _ := hu
        _ ≤ _ := h2
    exact le_of_mul_le_mul_right h3 (by positivity)
  · rw [← hA]; simp only [zero_div, mul_zero]; positivity

/-- what selling pays per share: redeeming `g'` GLP pays at most `g' × value per share / price`, whatever the holding,
    the fee branch and the state -/
theorem Gmx.sell_le_value {env : Env} (he : EnvPos env) {s s' : State} {tok : String} {dec : Nat} {g' out : Rat} (hg' : 0 < g')
    (h : sellGlp NumCtx.exact env s tok dec g' = (.ok out, s')) :
    ∃ r, env.row? tok = some r ∧ out * (r.price / 10 ^ 30) ≤ g' * (aumU env / env.glpSupply) := by
  have hne : g' ≠ 0 := ne_of_gt hg'
  have := C17_v1_redeem_value_per_share he h
  simp only [hne, if_false] at this
  obtain ⟨r, fee, br, U, hr, _, hf0, hf1, hU, _, hout⟩ := this
  refine ⟨r, hr, ?_⟩
  have hP : 0 < r.price := he.price r (row_mem hr)
  have hp : 0 < r.price / 10 ^ 30 := by positivity
  have hV : 0 ≤ aumU env / env.glpSupply := div_nonneg (Gmx.aumU_nonneg he) (le_of_lt he.glpSupply)
  have hk0 : 0 ≤ 1 - fee / 10000 := by linarith
  have hk1 : 1 - fee / 10000 ≤ 1 := by linarith
  have e : out * (r.price / 10 ^ 30) = U / 10 ^ 18 * (1 - fee / 10000) := by
    rw [hout]; field_simp
  rw [e]
  by_cases hU0 : 0 ≤ U
  · calc U / 10 ^ 18 * (1 - fee / 10000) ≤ U / 10 ^ 18 * 1 := mul_le_mul_of_nonneg_left hk1 (by positivity)
      _ = U / 10 ^ 18 := mul_one _
      _ ≤ g' * 10 ^ 18 * (aumU env / env.glpSupply) / 10 ^ 18 := div_le_div_of_nonneg_right hU (by positivity)
      _ = g' * (aumU env / env.glpSupply) := by field_simp
  · have : U / 10 ^ 18 * (1 - fee / 10000) ≤ 0 := by
      apply mul_nonpos_of_nonpos_of_nonneg _ hk0
      apply div_nonpos_of_nonpos_of_nonneg (le_of_lt (not_le.mp hU0)) (by positivity)
    have : 0 ≤ g' * (aumU env / env.glpSupply) := by positivity
    linarith

/-- sell the pieces one after the other in the same bar; `none` if one of the sales is rejected -/
def Gmx.sellPieces (env : Env) (tok : String) (dec : Nat) : State → List Rat → Option (Rat × State)
  | s, [] => some (0, s)
  | s, p :: ps =>
    match sellGlp NumCtx.exact env s tok dec p with
    | (.ok out, s') => (Gmx.sellPieces env tok dec s' ps).map (fun x => (out + x.1, x.2))
    | (.error _, _) => none

theorem Gmx.sellPieces_le_value {env : Env} (he : EnvPos env) {tok : String} {dec : Nat} {r : TokenRow} (hr : env.row? tok = some r)
    (pieces : List Rat) (hpos : ∀ p ∈ pieces, 0 < p) (s s2 : State) (total : Rat)
    (h : Gmx.sellPieces env tok dec s pieces = some (total, s2)) :
    total * (r.price / 10 ^ 30) ≤ pieces.sum * (aumU env / env.glpSupply) := by
  induction pieces generalizing s total with
  | nil => simp only [Gmx.sellPieces, Option.some.injEq, Prod.mk.injEq] at h; rw [← h.1]; simp
  | cons p ps ih =>
    unfold Gmx.sellPieces at h
    cases hs : sellGlp NumCtx.exact env s tok dec p with
    | mk res s' =>
      rw [hs] at h
      cases res with
      | error e => simp at h
      | ok out =>
        simp only [] at h
        cases hrest : Gmx.sellPieces env tok dec s' ps with
        | none => rw [hrest] at h; simp at h
        | some x =>
          rw [hrest] at h
          simp only [Option.map_some, Option.some.injEq, Prod.mk.injEq] at h
          obtain ⟨rfl, rfl⟩ := h
          obtain ⟨r', hr', h1⟩ := Gmx.sell_le_value he (hpos p (List.mem_cons_self ..)) hs
          rw [hr] at hr'; cases hr'
          have h2 := ih (fun q m => hpos q (List.mem_cons_of_mem _ m)) s' x.1 (by rw [hrest])
          rw [List.sum_cons]
          calc (out + x.1) * (r.price / 10 ^ 30) = out * (r.price / 10 ^ 30) + x.1 * (r.price / 10 ^ 30) := by ring
            _ ≤ p * (aumU env / env.glpSupply) + ps.sum * (aumU env / env.glpSupply) := add_le_add h1 h2
            _ = (p + ps.sum) * (aumU env / env.glpSupply) := by ring

/-- **same-bar round trip, sold in pieces**: buy GLP with `a` tokens, then redeem it for the same token in ANY number of
    partial sales of any positive sizes adding up to at most the minted amount (other holdings may be in the account:
    the bound does not depend on the state): the tokens received in total never exceed `a`. -/
theorem C17_v1_roundtrip_in_pieces_no_profit {env : Env} (he : EnvPos env) {s s1 s2 : State} {tok : String} {dec : Nat}
    {a g total : Rat} (pieces : List Rat)
    (hbuy : buyGlp NumCtx.exact env s tok dec a = (.ok g, s1))
    (hpos : ∀ p ∈ pieces, 0 < p) (hsum : pieces.sum ≤ g)
    (hsell : Gmx.sellPieces env tok dec s1 pieces = some (total, s2)) :
    total ≤ a := by
  obtain ⟨r, hr, hb⟩ := Gmx.buy_ge_value he hbuy
  have hs := Gmx.sellPieces_le_value he hr pieces hpos s1 s2 total hsell
  have hP : 0 < r.price := he.price r (row_mem hr)
  have hp : 0 < r.price / 10 ^ 30 := by positivity
  have hV : 0 ≤ aumU env / env.glpSupply := div_nonneg (Gmx.aumU_nonneg he) (le_of_lt he.glpSupply)
  have : total * (r.price / 10 ^ 30) ≤ a * (r.price / 10 ^ 30) :=
    calc total * (r.price / 10 ^ 30) ≤ pieces.sum * (aumU env / env.glpSupply) := hs
      _ ≤ g * (aumU env / env.glpSupply) := mul_le_mul_of_nonneg_right hsum hV
      _ ≤ a * (r.price / 10 ^ 30) := hb
  exact le_of_mul_le_mul_right this hp

/-! ### rewards accrue pro rata to the share of supply -/

/-- **reward accrual**: one bar adds `interval × 60 × held / supply` to the pending reward (and nothing else changes);
    it is linear in the holding, i.e. pro rata to the share of the GLP supply. -/
theorem C17_v1_reward_pro_rata {env : Env} {s s' : State} {r : Rat}
    (h : update NumCtx.exact env s = (.ok r, s')) :
    r = env.interval * 60 * (s.glp / env.glpSupply) ∧ s'.reward = s.reward + r ∧ Gen.gmxRewardSeconds = 60 ∧
      s'.glp = s.glp ∧ s'.wallet = s.wallet ∧ s'.actions = s.actions := by
  unfold update at h
  simp only [] at h
  split at h
  · cases h
  · rename_i q hq
    obtain ⟨_, rfl⟩ := ddiv_ok hq
    simp only [Prod.mk.injEq, Except.ok.injEq] at h
    obtain ⟨rfl, rfl⟩ := h
    refine ⟨?_, rfl, rfl, rfl, rfl, rfl⟩
    simp only [NumCtx.exact_mul, Gen.gmxRewardSeconds]
    push_cast; ring

/-! ### no more shares can be redeemed than are held; holdings never negative -/

/-- **over-redemption is rejected and changes nothing** — for every arithmetic context. -/
theorem C17_v1_no_over_redeem (cx : NumCtx) (env : Env) (s : State) (tok : String) (dec : Nat) (g : Rat)
    (hg : s.glp < g) : sellGlp cx env s tok dec g = (.error .demeter, s) := by
  unfold sellGlp
  simp only []
  by_cases h0 : g = 0
  · subst h0
    simp only [if_true]
    rw [if_pos hg]
  · simp only [h0, if_false]
    by_cases hn : g < 0
    · rw [if_pos hn]
    · rw [if_neg hn, if_pos hg]

/-- an accepted sale pays out for at most the holding -/
theorem C17_v1_redeem_le_held {cx : NumCtx} {env : Env} {s s' : State} {tok : String} {dec : Nat} {ga out : Rat}
    (h : sellGlp cx env s tok dec ga = (.ok out, s')) :
    0 ≤ (if ga = 0 then s.glp else ga) ∧ (if ga = 0 then s.glp else ga) ≤ s.glp := by
  unfold sellGlp at h
  simp only [] at h
  generalize (if ga = 0 then s.glp else ga) = g at h ⊢
  split at h
  · cases h
  · rename_i h1
    split at h
    · cases h
    · rename_i h2
      exact ⟨not_lt.mp h1, not_lt.mp h2⟩

/-- **the GLP holding never becomes negative**, whatever single operation is applied (accepted or rejected). -/
theorem C17_v1_holding_nonneg {env : Env} (he : EnvPos env) (s : State) (op : Op) (hs : 0 ≤ s.glp) :
    0 ≤ (step NumCtx.exact env s op).2.glp := by
  cases op with
  | buy tok dec a =>
    show 0 ≤ (buyGlp NumCtx.exact env s tok dec a).2.glp
    cases hb : buyGlp NumCtx.exact env s tok dec a with
    | mk res s' =>
      cases res with
      | error e =>
        have : s' = s := buyGlp_reject hb
        rw [this]; exact hs
      | ok g =>
        obtain ⟨ha, mint, fee, br, w, hadd, _, hg, hs'⟩ := Gmx.buyGlp_ok hb
        obtain ⟨r, hr, hfee, haum, hmint⟩ := addLiquidity_ok hadd
        have hP : 0 < r.price := he.price r (row_mem hr)
        obtain ⟨hf0, hf1⟩ := feeBps_bounds he.toEnvNonneg hfee
        obtain ⟨haf0, _⟩ := afterFee_bounds ha hf0 hf1
        have hA : 0 < aumU env := lt_of_le_of_ne (Gmx.aumU_nonneg he) (Ne.symm haum)
        have hU := usdgOf_nonneg (dec := dec) haf0 (le_of_lt hP)
        have hz : 0 ≤ usdgOf (afterFee NumCtx.exact a fee) dec r.price * env.glpSupply / aumU env := by
          have := he.glpSupply
          positivity
        have hm : 0 ≤ mint := by rw [hmint]; exact quantDown0_nonneg hz
        have : 0 ≤ g := by rw [hg]; positivity
        rw [hs']; simp only []; linarith
  | sell tok dec ga =>
    show 0 ≤ (sellGlp NumCtx.exact env s tok dec ga).2.glp
    cases hb : sellGlp NumCtx.exact env s tok dec ga with
    | mk res s' =>
      cases res with
      | error e =>
        have : s' = s := sellGlp_reject hb
        rw [this]; exact hs
      | ok out =>
        obtain ⟨_, hle, _, _, _, hs'⟩ := Gmx.sellGlp_ok (g := if ga = 0 then s.glp else ga) rfl hb
        rw [hs']; simp only []; linarith
  | update =>
    show 0 ≤ (update NumCtx.exact env s).2.glp
    unfold update
    simp only []
    split <;> exact hs

/-- … and hence along every operation sequence on a frozen row. -/
theorem C17_v1_holding_nonneg_seq {env : Env} (he : EnvPos env) (ops : List Op) (s : State) (hs : 0 ≤ s.glp) :
    0 ≤ (ops.foldl (fun st op => (step NumCtx.exact env st op).2) s).glp := by
  induction ops generalizing s with
  | nil => exact hs
  | cons op ops ih => exact ih _ (C17_v1_holding_nonneg he s op hs)

/-! ### non-vacuity: a concrete row and state meeting every hypothesis above -/

/-- two tokens, WETH 20 % under its target weight; AUM 10⁷ USD, GLP supply 8·10⁶ -/
def Gmx.demoEnv : Env :=
  { rows := [{ name := "weth", price := 2000 * 10 ^ 30, usdg := 4 * 10 ^ 24, weight := 1 },
             { name := "usdc", price := 10 ^ 30, usdg := 5 * 10 ^ 24, weight := 1 }],
    tokenSet := ["weth", "usdc"], glpSupply := 8 * 10 ^ 24, aum := 10 ^ 37, usdgSupply := 10 ^ 25,
    interval := 10 ^ 15, glpPrice := 5 / 4, wavaxPrice := 30 * 10 ^ 30 }

def Gmx.demoState : State := { glp := 0, reward := 0, wallet := [("WETH", 3)], actions := [] }

theorem Gmx.demoEnv_pos : EnvPos Gmx.demoEnv where
  weight := by intro r hr; simp [Gmx.demoEnv] at hr; rcases hr with rfl | rfl <;> norm_num
  usdgSupply := by norm_num [Gmx.demoEnv]
  price := by intro r hr; simp [Gmx.demoEnv] at hr; rcases hr with rfl | rfl <;> norm_num
  glpSupply := by norm_num [Gmx.demoEnv]
  aum := by norm_num [Gmx.demoEnv]

/-- buying with 1 WETH is accepted (rebate branch: fee 13 bp), mints 1597.92 GLP … -/
example : ∃ s1, buyGlp NumCtx.exact Gmx.demoEnv Gmx.demoState "weth" 18 1 = (.ok (39948 / 25), s1) :=
  ⟨(buyGlp NumCtx.exact Gmx.demoEnv Gmx.demoState "weth" 18 1).2, Prod.ext (by decide +kernel) rfl⟩

/-- … and selling it back in the same bar is accepted (tax branch) and returns 0.99500481 WETH < 1 -/
example : (sellGlp NumCtx.exact Gmx.demoEnv (buyGlp NumCtx.exact Gmx.demoEnv Gmx.demoState "weth" 18 1).2 "weth" 18 (39948 / 25)).1
    = .ok (99500481 / 100000000) := by decide +kernel

example : feeBps NumCtx.exact Gmx.demoEnv "weth" (10 ^ 21) true = .ok (13, .rebate) := by decide +kernel
example : feeBps NumCtx.exact Gmx.demoEnv "weth" (10 ^ 21) false = .ok (37, .tax) := by decide +kernel

/-- the bar update accrues a non-zero reward on a non-zero holding -/
example : (update NumCtx.exact Gmx.demoEnv { Gmx.demoState with glp := 8 }).1 = .ok (3 / 50000000) := by decide +kernel

/-- selling more than held is rejected -/
example : (sellGlp NumCtx.exact Gmx.demoEnv { Gmx.demoState with glp := 8 } "weth" 18 80).1 = .error .demeter := by decide +kernel

/-- the demo round trip sold in two pieces (1000 + 597.92 GLP): both sales accepted, 0.99500…WETH in total < 1 paid -/
example : ((Gmx.sellPieces Gmx.demoEnv "weth" 18 (buyGlp NumCtx.exact Gmx.demoEnv Gmx.demoState "weth" 18 1).2 [1000, 14948 / 25]).map (·.1)).isSome = true := by
  decide +kernel

end Demeter
