/-
  C19 — strategies run by BacktestManager do not influence one another.

  `Manager.runSeq` / `runPool` / `runPoolArgs` / `managerRun` mirror the data flow of demeter/core/backtest.py; a
  strategy is an arbitrary transformer `Strat M C V N P O` of everything it is handed — the market objects, and the
  data layer by layer: frame columns, frame values, the Python objects nested inside cells (order-book lists, which no
  DataFrame copy duplicates), the price frame — including strategies that write into all of them.  The theorems hold
  for every list of such strategies, every number of threads and every assignment of tasks to worker processes.

  `C19_manager_isolated_of_safe` states, per layer, which copy the code must make (or else what strategies must not
  do); the source flags regenerated on every run (`Mode.current`) satisfy all of them under pandas copy-on-write
  (always on from pandas 3, the installed version): `C19_manager_isolated_stateless` is the full statement for backtests
  that neither read nor write process-wide state (the `Strat` layer has no slot for it); `C19_manager_isolated` in
  `Proofs/C19/Process.lean` is the statement with the process state `G` threaded through the process / the workers and
  the explicit hypothesis `GIntact`, of which this one is the corollary `C19_stateless_backtests_isolated`.  For pandas 2
  without copy-on-write the statement needs the hypothesis that no strategy overwrites frame values in place
  (`C19_manager_isolated_no_cow_partial`), and `C19_fails_without_cow_when_data_is_overwritten` is the witness that it
  is needed.  Each copy is shown to be needed by a witness (`C19_fails_when_…`): the four repaired defects (markets
  shared; markets copied one by one; frame shared; nested cells shared) and the two seeded regressions
  (`get_new_order_list` without deep copy; `set_price` adopting all-Decimal frames).

  Scope of the layer `N` under `cellsCopied = true`: objects nested in cells of columns that hold at least one list, dict
  or set cell (what `_own_frame` deep-copies; see `Mode.cellsCopied`).  Frames with mutable cells of other classes only
  are the case `cellsCopied = false`: `C19_order_list_copy_partial` (needs `CellsIntact`) and the witness
  `C19_fails_when_nested_cells_are_shared`.

  Strategies whose backtest ends in an exception: `Proofs/C19/Failure.lean` (the theorems here are its special case
  "nobody fails", `C19_without_failures_same_as_plain_manager`).
-/
import Demeter.Manager
namespace Demeter
open Manager

variable {M C V N P O : Type}

/-! ### what a strategy list may do to each layer when that layer is *not* a private copy -/

/-- no strategy leaves anything in the market objects -/
def Manager.MktsIntact (strats : List (Strat M C V N P O)) : Prop := ∀ s ∈ strats, ∀ m d, (s.run m d).1 = m
/-- no strategy adds a column to a frame -/
def Manager.ColsIntact (strats : List (Strat M C V N P O)) : Prop := ∀ s ∈ strats, ∀ m d, (s.run m d).2.1.cols = d.cols
/-- no strategy overwrites frame values in place -/
def Manager.ValsIntact (strats : List (Strat M C V N P O)) : Prop := ∀ s ∈ strats, ∀ m d, (s.run m d).2.1.vals = d.vals
/-- no strategy writes into the objects nested in cells itself -/
def Manager.CellsIntact (strats : List (Strat M C V N P O)) : Prop := ∀ s ∈ strats, ∀ m d, (s.run m d).2.1.cells = d.cells
/-- no strategy trades against an order book -/
def Manager.FillsNone (strats : List (Strat M C V N P O)) : Prop := ∀ s ∈ strats, ∀ m d n, s.fills m d n = n
/-- no strategy (nor its Actuator) writes into the price frame it holds -/
def Manager.PricesIntact (strats : List (Strat M C V N P O)) : Prop := ∀ s ∈ strats, ∀ m d, (s.run m d).2.1.prices = d.prices

/-- the shared data `d` survives every backtest of the list: layer by layer, either the code hands out a private copy
    of that layer or no strategy writes into it -/
structure Manager.DataSafe (env : Env M P) (md : Mode) (d : Data C V N P) (strats : List (Strat M C V N P O)) : Prop where
  cols : md.dataView = true ∨ ColsIntact strats
  vals : (md.dataView = true ∧ md.cow = true) ∨ ValsIntact strats
  cells : md.cellsCopied = true ∨ (CellsIntact strats ∧ (md.orderListCopied = true ∨ FillsNone strats))
  prices : md.prices.adopts (env.isDec d.prices) = false ∨ PricesIntact strats

/-- the configured markets survive every backtest and every backtest is attached to markets equal to the configured
    ones: copied as a whole; or copied one by one when no market refers to another; or not copied when no strategy
    leaves anything in them -/
def Manager.MarketsSafe (env : Env M P) (md : Mode) (cfg : M) (strats : List (Strat M C V N P O)) : Prop :=
  md.markets = .whole ∨ (md.markets = .each ∧ env.sever cfg = cfg) ∨ (md.markets = .none ∧ MktsIntact strats)

/-- every backtest is attached to markets equal to the configured ones (enough when the configuration is pickled per task) -/
def Manager.AttachSafe (env : Env M P) (md : Mode) (cfg : M) : Prop := md.markets ≠ .each ∨ env.sever cfg = cfg

section tails
variable {env : Env M P} {md : Mode} {d : Data C V N P} {cfg : M} {s : Strat M C V N P O} {rest : List (Strat M C V N P O)}

theorem Manager.DataSafe.tail (h : DataSafe env md d (s :: rest)) : DataSafe env md d rest where
  cols := h.cols.imp id (fun g t ht => g t (List.mem_cons_of_mem _ ht))
  vals := h.vals.imp id (fun g t ht => g t (List.mem_cons_of_mem _ ht))
  cells := h.cells.imp id (fun g => ⟨fun t ht => g.1 t (List.mem_cons_of_mem _ ht),
    g.2.imp id (fun g2 t ht => g2 t (List.mem_cons_of_mem _ ht))⟩)
  prices := h.prices.imp id (fun g t ht => g t (List.mem_cons_of_mem _ ht))

theorem Manager.MarketsSafe.tail (h : MarketsSafe env md cfg (s :: rest)) : MarketsSafe env md cfg rest := by
  rcases h with h | h | ⟨h1, h2⟩
  · exact Or.inl h
  · exact Or.inr (Or.inl h)
  · exact Or.inr (Or.inr ⟨h1, fun t ht => h2 t (List.mem_cons_of_mem _ ht)⟩)

theorem Manager.MarketsSafe.attach (h : MarketsSafe env md cfg (s :: rest)) : AttachSafe env md cfg := by
  rcases h with h | ⟨_, h⟩ | ⟨h, _⟩
  · left; rw [h]; decide
  · right; exact h
  · left; rw [h]; decide

theorem Manager.attached_eq (h : AttachSafe env md cfg) : attached env md cfg = cfg := by
  unfold attached
  rcases h with h | h
  · cases hm : md.markets <;> simp_all
  · cases hm : md.markets <;> simp [h]

/-- a backtest leaves the shared data as it found it -/
theorem Manager.start_data (h : DataSafe env md d (s :: rest)) (cfg : M) : (start env md s cfg d).2.1 = d := by
  have hs : s ∈ s :: rest := List.mem_cons_self
  obtain ⟨c, v, n, p⟩ := d
  simp only [start, Data.mk.injEq]
  refine ⟨?_, ?_, ?_, ?_⟩
  · rcases h.cols with g | g
    · simp [g]
    · have := g s hs (attached env md cfg) ⟨c, v, n, p⟩
      split <;> simp_all
  · rcases h.vals with ⟨g1, g2⟩ | g
    · simp [g1, g2]
    · have := g s hs (attached env md cfg) ⟨c, v, n, p⟩
      split <;> simp_all
  · rcases h.cells with g | ⟨g1, g2⟩
    · simp [g]
    · have e1 := g1 s hs (attached env md cfg) ⟨c, v, n, p⟩
      split
      · rfl
      · rcases g2 with g2 | g2
        · simp [g2]; exact e1
        · split
          · exact e1
          · rw [g2 s hs]; exact e1
  · rcases h.prices with g | g
    · simp only at g; simp [g]
    · have := g s hs (attached env md cfg) ⟨c, v, n, p⟩
      split <;> simp_all

/-- a backtest leaves the configured markets as it found them -/
theorem Manager.start_markets (h : MarketsSafe env md cfg (s :: rest)) (d : Data C V N P) : (start env md s cfg d).1 = cfg := by
  rcases h with h | ⟨h, _⟩ | ⟨h1, h2⟩
  · simp [start, h]
  · simp [start, h]
  · have := h2 s List.mem_cons_self cfg d
    simp [start, h1, attached, this]

/-- its observation is the one of a plain run on the configured markets -/
theorem Manager.start_obs (h : AttachSafe env md cfg) (d : Data C V N P) : (start env md s cfg d).2.2 = (s.run cfg d).2.2 := by
  simp only [start, attached_eq h]

end tails

/-- what the source says on this run: `_start` attaches the markets of `copy.deepcopy(config.markets)` (2), hands out a
    `.copy` of each data frame and deep-copies the objects nested in its cells; `get_new_order_list` decrements a deep
    copy; `Actuator.set_price` always keeps a frame of its own (0); and `run()` takes the in-process path iff there is
    one strategy or one thread (the dispatch `managerRun` models) -/
theorem C19_current_code_pinned :
    (∀ cow, Mode.current cow = ⟨.whole, true, cow, true, true, .always⟩) ∧
    Gen.managerMarketsCopy = 2 ∧ Gen.managerDataView = true ∧ Gen.managerCellsCopied = true ∧
    Gen.deribitOrderListDeepCopied = true ∧ Gen.actuatorPriceCopy = 0 ∧
    Gen.managerSeqIfOneStrategyOrOneThread = true := by
  decide

/-- **sequential path (threads = 1 or a single strategy)**: with the markets safe and the shared data safe, every
    strategy's observation is the one it produces alone on the fresh configuration -/
theorem C19_sequential_isolated (env : Env M P) (md : Mode) (cfg : M) (d : Data C V N P)
    (strats : List (Strat M C V N P O)) (hm : MarketsSafe env md cfg strats) (hd : DataSafe env md d strats) :
    runSeq env md cfg d strats = spec cfg d strats := by
  induction strats with
  | nil => rfl
  | cons s rest ih =>
    simp only [runSeq, spec, List.map_cons, start_data hd cfg, start_markets hm d, start_obs hm.attach d]
    congr 1
    exact ih hm.tail hd.tail

/-- **pooled path (threads > 1, fork)**: for *every* assignment of tasks to worker processes — and whether or not
    `_start` copies the markets, since each task unpickles its own configuration — every observation is the solo one -/
theorem C19_pooled_isolated (env : Env M P) (md : Mode) (cfg : M) (d : Data C V N P) (assign : Nat → Nat)
    (strats : List (Strat M C V N P O)) (hm : AttachSafe env md cfg) (hd : DataSafe env md d strats)
    (i0 : Nat) (w : Nat → Data C V N P) (hw : ∀ k, w k = d) :
    runPool env md cfg assign w i0 strats = spec cfg d strats := by
  induction strats generalizing w i0 with
  | nil => rfl
  | cons s rest ih =>
    simp only [runPool, spec, List.map_cons, hw, start_obs hm d]
    congr 1
    apply ih hd.tail
    intro k
    split
    · exact start_data hd cfg
    · rfl

/-- **pooled path on Windows** (data pickled per task): isolated whatever the strategies do to their data -/
theorem C19_windows_pool_isolated (env : Env M P) (md : Mode) (cfg : M) (d : Data C V N P)
    (strats : List (Strat M C V N P O)) (hm : AttachSafe env md cfg) :
    runPoolArgs env md cfg d strats = spec cfg d strats := by
  simp only [runPoolArgs, spec, start_obs hm d]

/-- the branches of `run()` that complete -/
theorem Manager.managerRun_done {env : Env M P} {md : Mode} {threads cpu : Nat} {windows ctxSet : Bool} {assign : Nat → Nat}
    {cfg : M} {d : Data C V N P} {strats : List (Strat M C V N P O)} {obs : List O}
    (h : managerRun env md threads cpu windows ctxSet assign (some cfg) (some d) strats = .done obs) :
    (strats = [] ∧ obs = []) ∨ obs = runSeq env md cfg d strats ∨ obs = runPoolArgs env md cfg d strats ∨
    obs = runPool env md cfg assign (fun _ => d) 0 strats := by
  unfold managerRun at h
  simp only at h
  split at h
  · rename_i hlen
    have : strats = [] := List.length_eq_zero_iff.mp (by omega)
    simp only [Outcome.done.injEq] at h
    exact Or.inl ⟨this, h.symm⟩
  · split at h
    · simp only [Outcome.done.injEq] at h
      exact Or.inr (Or.inl h.symm)
    · split at h
      · exact absurd h (by simp)
      · split at h
        · split at h
          · exact absurd h (by simp)
          · simp only [Outcome.done.injEq] at h
            exact Or.inr (Or.inr (Or.inl h.symm))
        · split at h
          · exact absurd h (by simp)
          · split at h
            · exact absurd h (by simp)
            · simp only [Outcome.done.injEq] at h
              exact Or.inr (Or.inr (Or.inr h.symm))

/-- **`BacktestManager.run()` for any combination of copies**: the hypotheses say exactly which copies are needed —
    per layer, a private copy or strategies that do not write into that layer.  Every thread count, cpu count,
    platform and scheduling. -/
theorem C19_manager_isolated_of_safe (env : Env M P) (md : Mode) (threads cpu : Nat) (windows ctxSet : Bool)
    (assign : Nat → Nat) (cfg : M) (d : Data C V N P) (strats : List (Strat M C V N P O))
    (hm : MarketsSafe env md cfg strats) (hd : DataSafe env md d strats) (obs : List O)
    (h : managerRun env md threads cpu windows ctxSet assign (some cfg) (some d) strats = .done obs) :
    obs = spec cfg d strats := by
  have ha : strats ≠ [] → AttachSafe env md cfg := by
    intro hne
    cases strats with
    | nil => exact absurd rfl hne
    | cons s rest => exact hm.attach
  rcases managerRun_done h with ⟨h1, h2⟩ | h1 | h1 | h1
  · subst h1; subst h2; rfl
  · rw [h1]; exact C19_sequential_isolated env md cfg d strats hm hd
  · rw [h1]
    cases strats with
    | nil => rfl
    | cons s rest => exact C19_windows_pool_isolated env md cfg d _ (ha (by simp))
  · rw [h1]
    cases strats with
    | nil => rfl
    | cons s rest => exact C19_pooled_isolated env md cfg d assign _ (ha (by simp)) hd 0 _ (fun _ => rfl)

/-- **`BacktestManager.run()`, backtests without process-wide state** (pandas copy-on-write; with process state:
    `C19_manager_isolated`, `Proofs/C19/Process.lean`): whatever the strategies do — to the markets, to
    the columns, values and nested lists of the data frames, to the price frame — whatever references the markets hold
    to each other, whatever the price frame's cell type, the number of threads, the cpu count, the platform and the
    scheduling: if the call completes, its observations are those of the strategies run alone, in the order of the
    strategy list -/
theorem C19_manager_isolated_stateless (env : Env M P) (threads cpu : Nat) (windows ctxSet : Bool) (assign : Nat → Nat) (cfg : M)
    (d : Data C V N P) (strats : List (Strat M C V N P O)) (obs : List O)
    (h : managerRun env (Mode.current true) threads cpu windows ctxSet assign (some cfg) (some d) strats = .done obs) :
    obs = spec cfg d strats := by
  rw [C19_current_code_pinned.1] at h
  exact C19_manager_isolated_of_safe env _ threads cpu windows ctxSet assign cfg d strats (Or.inl rfl)
    ⟨Or.inl rfl, Or.inl ⟨rfl, rfl⟩, Or.inl rfl, Or.inl rfl⟩ obs h

/-- the same without copy-on-write (pandas 2 default): holds for strategies that do not overwrite the frames' values
    in place.  Partial: the unrestricted statement is false there, see `C19_fails_without_cow_when_data_is_overwritten`. -/
theorem C19_manager_isolated_no_cow_partial (env : Env M P) (threads cpu : Nat) (windows ctxSet : Bool) (assign : Nat → Nat)
    (cfg : M) (d : Data C V N P) (strats : List (Strat M C V N P O)) (hv : ValsIntact strats) (obs : List O)
    (h : managerRun env (Mode.current false) threads cpu windows ctxSet assign (some cfg) (some d) strats = .done obs) :
    obs = spec cfg d strats := by
  rw [C19_current_code_pinned.1] at h
  exact C19_manager_isolated_of_safe env _ threads cpu windows ctxSet assign cfg d strats (Or.inl rfl)
    ⟨Or.inl rfl, Or.inr hv, Or.inl rfl, Or.inl rfl⟩ obs h

/-- the run does complete in the supported configurations: at least one thread, not more threads than cpus, no start
    method fixed earlier in the process -/
theorem C19_manager_completes (env : Env M P) (md : Mode) (threads cpu : Nat) (windows : Bool) (assign : Nat → Nat) (cfg : M)
    (d : Data C V N P) (strats : List (Strat M C V N P O)) (ht : 1 ≤ threads) (hc : threads ≤ cpu) :
    ∃ obs, managerRun env md threads cpu windows false assign (some cfg) (some d) strats = .done obs := by
  unfold managerRun
  simp only
  split
  · exact ⟨_, rfl⟩
  · split
    · exact ⟨_, rfl⟩
    · rw [if_neg (by omega)]
      split
      · rw [if_neg (by omega)]; exact ⟨_, rfl⟩
      · simp only [Bool.false_eq_true, if_false]
        rw [if_neg (by omega)]
        exact ⟨_, rfl⟩

/-- **each strategy separately**: the `i`-th observation depends on the `i`-th strategy only — not on the other
    strategies, their number, their order, the thread count, the platform or the scheduling -/
theorem C19_each_strategy_as_alone (env : Env M P) (threads cpu : Nat) (windows ctxSet : Bool) (assign : Nat → Nat) (cfg : M)
    (d : Data C V N P) (strats : List (Strat M C V N P O)) (obs : List O)
    (h : managerRun env (Mode.current true) threads cpu windows ctxSet assign (some cfg) (some d) strats = .done obs)
    (i : Nat) (hi : i < strats.length) :
    obs[i]? = some ((strats[i].run cfg d).2.2) := by
  rw [C19_manager_isolated_stateless env threads cpu windows ctxSet assign cfg d strats obs h]
  simp [spec, hi]

/-- **order and thread count are immaterial**: two runs of the same strategies in different orders, with different
    thread counts, platforms and schedules, report the same observations up to that reordering -/
theorem C19_order_and_threads_immaterial (env : Env M P) (t1 t2 cpu1 cpu2 : Nat) (w1 w2 c1 c2 : Bool) (as1 as2 : Nat → Nat)
    (cfg : M) (d : Data C V N P) (s1 s2 : List (Strat M C V N P O)) (hperm : s1.Perm s2) (o1 o2 : List O)
    (h1 : managerRun env (Mode.current true) t1 cpu1 w1 c1 as1 (some cfg) (some d) s1 = .done o1)
    (h2 : managerRun env (Mode.current true) t2 cpu2 w2 c2 as2 (some cfg) (some d) s2 = .done o2) :
    o1.Perm o2 := by
  rw [C19_manager_isolated_stateless env t1 cpu1 w1 c1 as1 cfg d s1 o1 h1, C19_manager_isolated_stateless env t2 cpu2 w2 c2 as2 cfg d s2 o2 h2]
  exact hperm.map _

/-- **which copies carry which layer** (the current code makes more than one of them): once `_start` deep-copies the
    objects nested in cells, isolation no longer depends on `get_new_order_list` copying its argument; and a
    `set_price` that skips the conversion for Decimal frames is harmless for frames that are not all-Decimal -/
theorem C19_cells_copy_covers_order_lists (env : Env M P) (olc : Bool) (pc : PriceCopy) (threads cpu : Nat)
    (windows ctxSet : Bool) (assign : Nat → Nat) (cfg : M) (d : Data C V N P) (strats : List (Strat M C V N P O))
    (hp : pc.adopts (env.isDec d.prices) = false) (obs : List O)
    (h : managerRun env ⟨.whole, true, true, true, olc, pc⟩ threads cpu windows ctxSet assign (some cfg) (some d) strats = .done obs) :
    obs = spec cfg d strats :=
  C19_manager_isolated_of_safe env _ threads cpu windows ctxSet assign cfg d strats (Or.inl rfl)
    ⟨Or.inl rfl, Or.inl ⟨rfl, rfl⟩, Or.inl rfl, Or.inl hp⟩ obs h

/-- before the cells were copied in `_start`, isolation of the order books rested on `get_new_order_list` **and** on
    strategies not writing into the nested lists themselves (the hypothesis that was violated, see
    `C19_fails_when_nested_cells_are_shared`) -/
theorem C19_order_list_copy_partial (env : Env M P) (threads cpu : Nat) (windows ctxSet : Bool) (assign : Nat → Nat) (cfg : M)
    (d : Data C V N P) (strats : List (Strat M C V N P O)) (hc : CellsIntact strats) (obs : List O)
    (h : managerRun env ⟨.whole, true, true, false, true, .always⟩ threads cpu windows ctxSet assign (some cfg) (some d) strats = .done obs) :
    obs = spec cfg d strats :=
  C19_manager_isolated_of_safe env _ threads cpu windows ctxSet assign cfg d strats (Or.inl rfl)
    ⟨Or.inl rfl, Or.inl ⟨rfl, rfl⟩, Or.inr ⟨hc, Or.inl rfl⟩, Or.inl rfl⟩ obs h

/-! ### the defects that were repaired and the seeded regressions, on their witnesses

Projection: a strategy observes what it *found*: (positions on market 1, on market 2, references between markets
intact), and per data layer a counter (columns added, values overwritten, depth missing from the order books, price
cells overwritten + "the `USD` column is there"). -/

def Manager.eff0 : Effect := ⟨0, 0, 0, 0, 0, 0, 0⟩
def Manager.pd0 : PData := ⟨0, 0, 0, (0, false)⟩
abbrev Manager.PStrat := Strat PM Nat Nat Nat (Nat × Bool) (PM × PData)

/-- with the configuration's market objects attached directly (the code before the first repair), an idle strategy
    run after one that opens a position finds that position -/
theorem C19_fails_when_markets_are_shared :
    ¬ (∀ (strats : List PStrat),
        runSeq (probeEnv false false) ⟨.none, true, true, true, true, .always⟩ (0, 0, true) pd0 strats = spec (0, 0, true) pd0 strats) := by
  intro h
  have := h [probeStrat { eff0 with posA := 1 }, probeStrat eff0]
  revert this
  decide

/-- with every market copied on its own (the code before the repair of this round), a market that refers to another
    configured market — a SqueethMarket and its oSQTH pool — is attached to a private copy of it: already a single
    strategy differs from the plain Actuator run; without such references the per-market copy is enough -/
theorem C19_fails_when_markets_are_copied_one_by_one :
    (¬ (∀ (strats : List PStrat),
        runSeq (probeEnv false true) ⟨.each, true, true, true, true, .always⟩ (0, 0, true) pd0 strats = spec (0, 0, true) pd0 strats)) ∧
    (∀ (strats : List PStrat) (cfg : PM) (d : PData),
        runSeq (probeEnv false false) ⟨.each, true, true, true, true, .always⟩ cfg d strats = spec cfg d strats) := by
  constructor
  · intro h
    have := h [probeStrat eff0]
    revert this
    decide
  · intro strats cfg d
    refine C19_sequential_isolated _ _ cfg d strats (Or.inr (Or.inl ⟨rfl, ?_⟩)) ⟨Or.inl rfl, Or.inl ⟨rfl, rfl⟩, Or.inl rfl, Or.inl rfl⟩
    obtain ⟨a, b, c⟩ := cfg
    simp [probeEnv]

/-- with the shared data frame assigned itself (the code before the second repair), a strategy run after one that adds
    an indicator column sees that column — on the sequential path, and on the forked path when the scheduler gives both
    tasks to the same worker -/
theorem C19_fails_when_data_frame_is_shared :
    (¬ (∀ (strats : List PStrat),
        runSeq (probeEnv false false) ⟨.whole, false, true, true, true, .always⟩ (0, 0, true) pd0 strats = spec (0, 0, true) pd0 strats)) ∧
    (¬ (∀ (assign : Nat → Nat) (strats : List PStrat),
        runPool (probeEnv false false) ⟨.whole, false, true, true, true, .always⟩ (0, 0, true) assign (fun _ => pd0) 0 strats
          = spec (0, 0, true) pd0 strats)) := by
  constructor
  · intro h
    have := h [probeStrat { eff0 with cols := 1 }, probeStrat eff0]
    revert this
    decide
  · intro h
    have := h (fun _ => 0) [probeStrat { eff0 with cols := 1 }, probeStrat eff0]
    revert this
    decide

/-- without copy-on-write the view does not protect values overwritten in place: the unrestricted statement fails -/
theorem C19_fails_without_cow_when_data_is_overwritten :
    ¬ (∀ (strats : List PStrat) (obs : List (PM × PData)),
        managerRun (probeEnv false false) (Mode.current false) 1 1 false false id (some (0, 0, true)) (some pd0) strats = .done obs →
        obs = spec (0, 0, true) pd0 strats) := by
  intro h
  have := h [probeStrat { eff0 with vals := 1 }, probeStrat eff0] _ rfl
  revert this
  decide

/-- with the frame copied but not the objects nested in its cells (the code before the repair of this round): a
    strategy that writes into an order-book list — `get_new_order_list` copying or not — takes that depth away from the
    next strategy, on the sequential path and on the forked path when both tasks run on the same worker -/
theorem C19_fails_when_nested_cells_are_shared :
    (¬ (∀ (strats : List PStrat),
        runSeq (probeEnv false false) ⟨.whole, true, true, false, true, .always⟩ (0, 0, true) pd0 strats = spec (0, 0, true) pd0 strats)) ∧
    (¬ (∀ (assign : Nat → Nat) (strats : List PStrat),
        runPool (probeEnv false false) ⟨.whole, true, true, false, true, .always⟩ (0, 0, true) assign (fun _ => pd0) 0 strats
          = spec (0, 0, true) pd0 strats)) := by
  constructor
  · intro h
    have := h [probeStrat { eff0 with cellsUser := 1 }, probeStrat eff0]
    revert this
    decide
  · intro h
    have := h (fun _ => 0) [probeStrat { eff0 with cellsUser := 1 }, probeStrat eff0]
    revert this
    decide

/-- seeded regression (a): `get_new_order_list` decrementing the lists it is given (`list(old)` instead of
    `copy.deepcopy(old)`) while the cells are shared: two strategies that only *trade* the same option — the second
    finds the depth the first one bought gone.  (With the cells copied by `_start` the same change is harmless:
    `C19_cells_copy_covers_order_lists`.) -/
theorem C19_fails_when_order_list_is_not_deep_copied :
    ¬ (∀ (strats : List PStrat), CellsIntact strats →
        runSeq (probeEnv false false) ⟨.whole, true, true, false, false, .always⟩ (0, 0, true) pd0 strats = spec (0, 0, true) pd0 strats) := by
  intro h
  have := h [probeStrat { eff0 with cellsFill := 5 }, probeStrat { eff0 with cellsFill := 3 }] (by
    intro s hs m d
    simp only [List.mem_cons, List.not_mem_nil, or_false] at hs
    rcases hs with rfl | rfl <;> rfl)
  revert this
  decide

/-- seeded regression (b): `Actuator.set_price` adopting the caller's frame when its cells are Decimal already: a
    strategy that writes into `self.prices` changes the next strategy's prices; with a float frame the conversion still
    makes a private frame and nothing leaks -/
theorem C19_fails_when_price_frame_is_adopted :
    (¬ (∀ (strats : List PStrat),
        runSeq (probeEnv true false) ⟨.whole, true, true, true, true, .unlessDecimal⟩ (0, 0, true) pd0 strats = spec (0, 0, true) pd0 strats)) ∧
    (∀ (strats : List PStrat),
        runSeq (probeEnv false false) ⟨.whole, true, true, true, true, .unlessDecimal⟩ (0, 0, true) pd0 strats = spec (0, 0, true) pd0 strats) := by
  constructor
  · intro h
    have := h [probeStrat { eff0 with prices := 1 }, probeStrat eff0]
    revert this
    decide
  · intro strats
    exact C19_sequential_isolated _ _ _ _ strats (Or.inl rfl) ⟨Or.inl rfl, Or.inl ⟨rfl, rfl⟩, Or.inl rfl, Or.inl rfl⟩

/-! ### non-vacuity -/
example : ValsIntact [probeStrat { eff0 with posA := 1, cols := 1, cellsUser := 2, prices := 1 }, probeStrat eff0] := by
  intro s hs m d
  simp only [List.mem_cons, List.not_mem_nil, or_false] at hs
  rcases hs with rfl | rfl <;> rfl
example : MarketsSafe (probeEnv true true) (Mode.current true) ((0, 0, true) : PM) [probeStrat eff0] := Or.inl (by decide)
example : DataSafe (probeEnv true true) (Mode.current true) pd0 [probeStrat { eff0 with vals := 3, cellsUser := 1, prices := 2 }] :=
  ⟨Or.inl (by decide), Or.inl (by decide), Or.inl (by decide), Or.inl (by decide)⟩
/-- the current code: everybody finds the pristine objects, whatever the others wrote -/
example : runSeq (probeEnv true true) (Mode.current true) (0, 0, true) pd0
    [probeStrat ⟨1, 0, 1, 1, 2, 5, 1⟩, probeStrat eff0, probeStrat ⟨0, 1, 0, 0, 0, 3, 0⟩]
    = [((0, 0, true), pd0), ((0, 0, true), pd0), ((0, 0, true), pd0)] := by decide
/-- the original code: the second and third strategy find what the earlier ones left -/
example : runSeq (probeEnv false false) (Mode.original true) (0, 0, true) pd0
    [probeStrat ⟨1, 0, 1, 1, 2, 5, 1⟩, probeStrat eff0, probeStrat ⟨0, 1, 0, 0, 0, 3, 0⟩]
    = [((0, 0, true), pd0), ((1, 0, true), ⟨1, 1, 2, (0, false)⟩), ((1, 0, true), ⟨1, 1, 2, (0, false)⟩)] := by decide
example : runPool (probeEnv false false) (Mode.original true) (0, 0, true) (fun i => i % 2) (fun _ => pd0) 0
    [probeStrat ⟨1, 0, 1, 1, 2, 5, 1⟩, probeStrat eff0, probeStrat ⟨0, 1, 0, 0, 0, 3, 0⟩]
    = [((0, 0, true), pd0), ((0, 0, true), pd0), ((0, 0, true), ⟨1, 1, 2, (0, false)⟩)] := by decide

end Demeter
