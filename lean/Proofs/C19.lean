/-
  C19 — strategies run by BacktestManager do not influence one another.

  `Manager.runSeq` / `runPool` / `runPoolArgs` / `managerRun` mirror the data flow of demeter/core/backtest.py; a
  strategy is an arbitrary transformer `Strat M D O` of the market objects and the data frames it is handed — including
  strategies that write into those frames.  The theorems hold for every list of such strategies, every number of threads
  and every assignment of tasks to worker processes.

  The code now (a) deep-copies the configured markets and (b) hands each backtest a shallow copy of the shared frames.
  Under pandas copy-on-write (always on from pandas 3, the installed version) nothing a strategy does reaches another
  one: `C19_manager_isolated` is the full statement.  For pandas 2 without copy-on-write the statement needs the
  hypothesis that no strategy overwrites frame values in place (`C19_manager_isolated_no_cow_partial`), and
  `C19_fails_without_cow_when_data_is_overwritten` is the witness that it is needed.
-/
import Demeter.Manager
import Mathlib.Tactic.Linarith
namespace Demeter
open Manager

variable {M D O : Type}

/-- every strategy of the list leaves the data frames it is handed unchanged -/
def Manager.DataIntact (strats : List (Strat M D O)) : Prop :=
  ∀ s ∈ strats, ∀ m d, (s.run m d).2.1 = d

theorem Manager.DataIntact.tail {s : Strat M D O} {rest : List (Strat M D O)} (h : DataIntact (s :: rest)) :
    DataIntact rest := fun t ht => h t (List.mem_cons_of_mem _ ht)

/-- the shared frames survive a backtest: by copy-on-write through the view, or because the strategy does not write -/
def Manager.DataSafe (md : Mode) (strats : List (Strat M D O)) : Prop :=
  (md.dataView = true ∧ md.cow = true) ∨ DataIntact strats

theorem Manager.DataSafe.tail {md : Mode} {s : Strat M D O} {rest : List (Strat M D O)} (h : DataSafe md (s :: rest)) :
    DataSafe md rest := by
  rcases h with h | h
  · exact Or.inl h
  · exact Or.inr h.tail

theorem Manager.start_data {md : Mode} {s : Strat M D O} {rest : List (Strat M D O)} (h : DataSafe md (s :: rest))
    (cfg : M) (d : D) : (start md s cfg d).2.1 = d := by
  rcases h with ⟨h1, h2⟩ | h
  · simp [start, h1, h2]
  · have := h s List.mem_cons_self cfg d
    simp only [start]
    split
    · rfl
    · exact this

/-- what the source says on this run: `_start` attaches `copy.deepcopy(market)` and a `.copy(…)` of the data frame, and
    `run()` takes the in-process path iff there is one strategy or one thread (the dispatch `managerRun` models) -/
theorem C19_current_code_pinned :
    Mode.current true = ⟨true, true, true⟩ ∧ Gen.managerCopiesMarkets = true ∧ Gen.managerDataView = true ∧
    Gen.managerSeqIfOneStrategyOrOneThread = true := by
  decide

/-- **sequential path (threads = 1 or a single strategy)**: with the markets copied and the shared frames safe, every
    strategy's observation is the one it produces alone on the fresh configuration -/
theorem C19_sequential_isolated (md : Mode) (hm : md.marketsCopied = true) (cfg : M) (d : D)
    (strats : List (Strat M D O)) (hd : DataSafe md strats) :
    runSeq md cfg d strats = spec cfg d strats := by
  induction strats with
  | nil => rfl
  | cons s rest ih =>
    have h1 := start_data hd cfg d
    have h2 : (start md s cfg d).1 = cfg := by simp [start, hm]
    have h3 : (start md s cfg d).2.2 = (s.run cfg d).2.2 := rfl
    simp only [runSeq, spec, List.map_cons, h1, h2, h3]
    congr 1
    exact ih hd.tail

/-- **pooled path (threads > 1, fork)**: for *every* assignment of tasks to worker processes — and whether or not
    `_start` copies the markets, since each task unpickles its own configuration — every observation is the solo one -/
theorem C19_pooled_isolated (md : Mode) (cfg : M) (d : D) (assign : Nat → Nat) (strats : List (Strat M D O))
    (hd : DataSafe md strats) (i0 : Nat) (w : Nat → D) (hw : ∀ k, w k = d) :
    runPool md cfg assign w i0 strats = spec cfg d strats := by
  induction strats generalizing w i0 with
  | nil => rfl
  | cons s rest ih =>
    have h1 := start_data hd cfg d
    have h3 : (start md s cfg d).2.2 = (s.run cfg d).2.2 := rfl
    simp only [runPool, spec, List.map_cons, hw]
    congr 1
    apply ih hd.tail
    intro k
    split
    · exact h1
    · rfl

/-- **pooled path on Windows** (data pickled per task): isolated whatever the strategies do to their data, in every mode -/
theorem C19_windows_pool_isolated (md : Mode) (cfg : M) (d : D) (strats : List (Strat M D O)) :
    runPoolArgs md cfg d strats = spec cfg d strats := rfl

/-- **`BacktestManager.run()`, full statement** (pandas copy-on-write): whatever the strategies do — to the markets and
    to the data frames — whatever the number of threads, the cpu count, the platform and the scheduling, if the call
    completes its observations are those of the strategies run alone, in the order of the strategy list -/
theorem C19_manager_isolated (threads cpu : Nat) (windows ctxSet : Bool) (assign : Nat → Nat) (cfg : M) (d : D)
    (strats : List (Strat M D O)) (obs : List O)
    (h : managerRun (Mode.current true) threads cpu windows ctxSet assign (some cfg) (some d) strats = .done obs) :
    obs = spec cfg d strats := by
  rw [C19_current_code_pinned.1] at h
  have hd : DataSafe (⟨true, true, true⟩ : Mode) strats := Or.inl ⟨rfl, rfl⟩
  unfold managerRun at h
  simp only at h
  split at h
  · rename_i hlen
    have : strats = [] := List.length_eq_zero_iff.mp (by omega)
    subst this
    simp only [Outcome.done.injEq] at h
    rw [← h]; rfl
  · split at h
    · simp only [Outcome.done.injEq] at h
      rw [← h]; exact C19_sequential_isolated _ rfl cfg d strats hd
    · split at h
      · exact absurd h (by simp)
      · split at h
        · split at h
          · exact absurd h (by simp)
          · simp only [Outcome.done.injEq] at h
            rw [← h]; rfl
        · split at h
          · exact absurd h (by simp)
          · split at h
            · exact absurd h (by simp)
            · simp only [Outcome.done.injEq] at h
              rw [← h]; exact C19_pooled_isolated _ cfg d assign strats hd 0 _ (fun _ => rfl)

/-- the same without copy-on-write (pandas 2 default): holds for strategies that do not overwrite the frames' values
    in place.  Partial: the unrestricted statement is false there, see `C19_fails_without_cow_when_data_is_overwritten`. -/
theorem C19_manager_isolated_no_cow_partial (threads cpu : Nat) (windows ctxSet : Bool) (assign : Nat → Nat) (cfg : M) (d : D)
    (strats : List (Strat M D O)) (hd : DataIntact strats) (obs : List O)
    (h : managerRun (Mode.current false) threads cpu windows ctxSet assign (some cfg) (some d) strats = .done obs) :
    obs = spec cfg d strats := by
  have hcur : Mode.current false = ⟨true, true, false⟩ := by decide
  rw [hcur] at h
  have hd' : DataSafe (⟨true, true, false⟩ : Mode) strats := Or.inr hd
  unfold managerRun at h
  simp only at h
  split at h
  · rename_i hlen
    have : strats = [] := List.length_eq_zero_iff.mp (by omega)
    subst this
    simp only [Outcome.done.injEq] at h
    rw [← h]; rfl
  · split at h
    · simp only [Outcome.done.injEq] at h
      rw [← h]; exact C19_sequential_isolated _ rfl cfg d strats hd'
    · split at h
      · exact absurd h (by simp)
      · split at h
        · split at h
          · exact absurd h (by simp)
          · simp only [Outcome.done.injEq] at h
            rw [← h]; rfl
        · split at h
          · exact absurd h (by simp)
          · split at h
            · exact absurd h (by simp)
            · simp only [Outcome.done.injEq] at h
              rw [← h]; exact C19_pooled_isolated _ cfg d assign strats hd' 0 _ (fun _ => rfl)

/-- the run does complete in the supported configurations: at least one thread, not more threads than cpus, no start
    method fixed earlier in the process -/
theorem C19_manager_completes (md : Mode) (threads cpu : Nat) (windows : Bool) (assign : Nat → Nat) (cfg : M) (d : D)
    (strats : List (Strat M D O)) (ht : 1 ≤ threads) (hc : threads ≤ cpu) :
    ∃ obs, managerRun md threads cpu windows false assign (some cfg) (some d) strats = .done obs := by
  unfold managerRun
  simp only
  split
  · exact ⟨_, rfl⟩
  · split
    · exact ⟨_, rfl⟩
    · rw [if_neg (by omega)]
      split
      · rw [if_neg (by omega)]; exact ⟨_, rfl⟩
      · simp only [Bool.false_eq_true, if_false]
        rw [if_neg (by omega)]
        exact ⟨_, rfl⟩

/-- **each strategy separately**: the `i`-th observation depends on the `i`-th strategy only — not on the other
    strategies, their number, their order, the thread count, the platform or the scheduling -/
theorem C19_each_strategy_as_alone (threads cpu : Nat) (windows ctxSet : Bool) (assign : Nat → Nat) (cfg : M) (d : D)
    (strats : List (Strat M D O)) (obs : List O)
    (h : managerRun (Mode.current true) threads cpu windows ctxSet assign (some cfg) (some d) strats = .done obs)
    (i : Nat) (hi : i < strats.length) :
    obs[i]? = some ((strats[i].run cfg d).2.2) := by
  rw [C19_manager_isolated threads cpu windows ctxSet assign cfg d strats obs h]
  simp [spec, hi]

/-- **order and thread count are immaterial**: two runs of the same strategies in different orders, with different
    thread counts, platforms and schedules, report the same observations up to that reordering -/
theorem C19_order_and_threads_immaterial (t1 t2 cpu1 cpu2 : Nat) (w1 w2 c1 c2 : Bool) (as1 as2 : Nat → Nat) (cfg : M) (d : D)
    (s1 s2 : List (Strat M D O)) (hperm : s1.Perm s2) (o1 o2 : List O)
    (h1 : managerRun (Mode.current true) t1 cpu1 w1 c1 as1 (some cfg) (some d) s1 = .done o1)
    (h2 : managerRun (Mode.current true) t2 cpu2 w2 c2 as2 (some cfg) (some d) s2 = .done o2) :
    o1.Perm o2 := by
  rw [C19_manager_isolated t1 cpu1 w1 c1 as1 cfg d s1 o1 h1, C19_manager_isolated t2 cpu2 w2 c2 as2 cfg d s2 o2 h2]
  exact hperm.map _

/-! ### the defects that were repaired, on their witnesses -/

/-- with the configuration's market objects attached directly (the code before the first repair), an idle strategy
    run after one that opens a position observes that position -/
theorem C19_fails_when_markets_are_shared :
    ¬ (∀ (strats : List (Strat (Nat × Nat) Nat (Nat × Nat × Nat))),
        runSeq ⟨false, true, true⟩ (0, 0) 0 strats = spec (0, 0) 0 strats) := by
  intro h
  have := h [countStrat 1 0 0, countStrat 0 0 0]
  revert this
  decide

/-- with the shared data frame assigned itself (the code before the second repair), a strategy run after one that adds
    an indicator column sees that column — on the sequential path, and on the forked path when the scheduler gives both
    tasks to the same worker -/
theorem C19_fails_when_data_frame_is_shared :
    (¬ (∀ (strats : List (Strat (Nat × Nat) Nat (Nat × Nat × Nat))),
        runSeq ⟨true, false, true⟩ (0, 0) 0 strats = spec (0, 0) 0 strats)) ∧
    (¬ (∀ (assign : Nat → Nat) (strats : List (Strat (Nat × Nat) Nat (Nat × Nat × Nat))),
        runPool ⟨true, false, true⟩ (0, 0) assign (fun _ => 0) 0 strats = spec (0, 0) 0 strats)) := by
  constructor
  · intro h
    have := h [countStrat 0 0 1, countStrat 0 0 0]
    revert this
    decide
  · intro h
    have := h (fun _ => 0) [countStrat 0 0 1, countStrat 0 0 0]
    revert this
    decide

/-- without copy-on-write the view does not protect values overwritten in place: the unrestricted statement fails -/
theorem C19_fails_without_cow_when_data_is_overwritten :
    ¬ (∀ (strats : List (Strat (Nat × Nat) Nat (Nat × Nat × Nat))) (obs : List (Nat × Nat × Nat)),
        managerRun (Mode.current false) 1 1 false false id (some (0, 0)) (some 0) strats = .done obs →
        obs = spec (0, 0) 0 strats) := by
  intro h
  have := h [countStrat 0 0 1, countStrat 0 0 0] _ rfl
  revert this
  decide

/-! ### non-vacuity -/
example : DataIntact [countStrat 1 0 0, countStrat 0 0 0, countStrat 0 1 0] := by
  intro s hs m d
  simp only [List.mem_cons, List.not_mem_nil, or_false] at hs
  rcases hs with rfl | rfl | rfl <;> rfl
example : runSeq (Mode.current true) ((0, 0) : Nat × Nat) 0 [countStrat 1 0 1, countStrat 0 0 0, countStrat 0 1 0]
    = [(1, 0, 1), (0, 0, 0), (0, 1, 0)] := by decide
example : runSeq (Mode.original true) ((0, 0) : Nat × Nat) 0 [countStrat 1 0 1, countStrat 0 0 0, countStrat 0 1 0]
    = [(1, 0, 1), (1, 0, 1), (1, 1, 1)] := by decide
example : runPool (Mode.original true) ((0, 0) : Nat × Nat) (fun i => i % 2) (fun _ => 0) 0
    [countStrat 1 0 1, countStrat 0 0 0, countStrat 0 1 0] = [(1, 0, 1), (0, 0, 0), (0, 1, 1)] := by decide

end Demeter
