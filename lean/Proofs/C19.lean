/-
  C19 — strategies run by BacktestManager do not influence one another.

  `Manager.runSeq` / `runPool` / `managerRun` mirror the data flow of demeter/core/backtest.py; a strategy is an
  arbitrary transformer `Strat M D O` of the market objects and the data object it is handed.  The theorems hold for
  every such list of strategies, every number of threads and every assignment of tasks to worker processes.

  Assumption made explicit: `DataIntact` — a backtest leaves the `BacktestData` object as it found it (that is
  property C02; harness/c19.py checks the frames' hash on every run).  `C19_data_must_stay_intact` shows the
  assumption is needed: the data object *is* shared by the strategies of the sequential path and by the tasks of one
  worker process.
-/
import Demeter.Manager
import Mathlib.Tactic.Linarith
namespace Demeter
open Manager

variable {M D O : Type}

/-- every strategy of the list leaves the data object unchanged -/
def Manager.DataIntact (strats : List (Strat M D O)) : Prop :=
  ∀ s ∈ strats, ∀ m d, (s.run m d).2.1 = d

theorem Manager.DataIntact.tail {s : Strat M D O} {rest : List (Strat M D O)} (h : DataIntact (s :: rest)) :
    DataIntact rest := fun t ht => h t (List.mem_cons_of_mem _ ht)

/-- what the source says on this run: `_start` attaches `copy.deepcopy(market)`, and `run()` takes the in-process
    path iff there is one strategy or one thread (the dispatch `managerRun` models) -/
theorem C19_current_code_pinned :
    Attach.current = .copied ∧ Gen.managerCopiesMarkets = true ∧ Gen.managerSeqIfOneStrategyOrOneThread = true := by
  decide

/-- **sequential path (threads = 1 or a single strategy)**: with the markets copied in `_start`, every strategy's
    observation is the one it produces alone on the fresh configuration -/
theorem C19_sequential_isolated (cfg : M) (d : D) (strats : List (Strat M D O)) (hd : DataIntact strats) :
    runSeq .copied cfg d strats = spec cfg d strats := by
  induction strats with
  | nil => rfl
  | cons s rest ih =>
    have h1 : (s.run cfg d).2.1 = d := hd s List.mem_cons_self cfg d
    simp only [runSeq, start, spec, List.map_cons, h1]
    congr 1
    exact ih hd.tail

/-- **pooled path (threads > 1, fork)**: for *every* assignment of tasks to worker processes — and whether or not
    `_start` copies the markets, since each task unpickles its own configuration — every observation is the solo one -/
theorem C19_pooled_isolated (a : Attach) (cfg : M) (d : D) (assign : Nat → Nat) (strats : List (Strat M D O))
    (hd : DataIntact strats) (i0 : Nat) (w : Nat → D) (hw : ∀ k, w k = d) :
    runPool a cfg assign w i0 strats = spec cfg d strats := by
  induction strats generalizing w i0 with
  | nil => rfl
  | cons s rest ih =>
    have h1 : (s.run cfg d).2.1 = d := hd s List.mem_cons_self cfg d
    have hstart : (start a s cfg d).2.2 = (s.run cfg d).2.2 ∧ (start a s cfg d).2.1 = d := by
      cases a <;> simp [start, h1]
    simp only [runPool, spec, List.map_cons, hw]
    congr 1
    · exact hstart.1
    · apply ih hd.tail
      intro k
      split
      · exact hstart.2
      · rfl

/-- **`BacktestManager.run()`**: whatever the number of threads, the machine's cpu count and the scheduling, if the
    call completes its observations are those of the strategies run alone, in the order of the strategy list -/
theorem C19_manager_isolated (threads cpu : Nat) (ctxSet : Bool) (assign : Nat → Nat) (cfg : M) (d : D)
    (strats : List (Strat M D O)) (hd : DataIntact strats) (obs : List O)
    (h : managerRun Attach.current threads cpu ctxSet assign (some cfg) (some d) strats = .done obs) :
    obs = spec cfg d strats := by
  rw [C19_current_code_pinned.1] at h
  unfold managerRun at h
  simp only at h
  split at h
  · rename_i hlen
    have : strats = [] := List.length_eq_zero_iff.mp (by omega)
    subst this
    simp only [Outcome.done.injEq] at h
    rw [← h]; rfl
  · split at h
    · simp only [Outcome.done.injEq] at h
      rw [← h]; exact C19_sequential_isolated cfg d strats hd
    · split at h
      · exact absurd h (by simp)
      · split at h
        · exact absurd h (by simp)
        · split at h
          · exact absurd h (by simp)
          · simp only [Outcome.done.injEq] at h
            rw [← h]; exact C19_pooled_isolated .copied cfg d assign strats hd 0 _ (fun _ => rfl)

/-- the run does complete in the supported configurations: at least one thread, not more threads than cpus, no start
    method fixed earlier in the process (or a sequential run) -/
theorem C19_manager_completes (threads cpu : Nat) (assign : Nat → Nat) (cfg : M) (d : D)
    (strats : List (Strat M D O)) (ht : 1 ≤ threads) (hc : threads ≤ cpu) :
    ∃ obs, managerRun Attach.current threads cpu false assign (some cfg) (some d) strats = .done obs := by
  unfold managerRun
  simp only
  split
  · exact ⟨_, rfl⟩
  · split
    · exact ⟨_, rfl⟩
    · rw [if_neg (by omega)]
      simp only [Bool.false_eq_true, if_false]
      rw [if_neg (by omega)]
      exact ⟨_, rfl⟩

/-- **each strategy separately**: the `i`-th observation depends on the `i`-th strategy only — not on the other
    strategies, their number, their order, the thread count or the scheduling -/
theorem C19_each_strategy_as_alone (threads cpu : Nat) (ctxSet : Bool) (assign : Nat → Nat) (cfg : M) (d : D)
    (strats : List (Strat M D O)) (hd : DataIntact strats) (obs : List O)
    (h : managerRun Attach.current threads cpu ctxSet assign (some cfg) (some d) strats = .done obs)
    (i : Nat) (hi : i < strats.length) :
    obs[i]? = some ((strats[i].run cfg d).2.2) := by
  rw [C19_manager_isolated threads cpu ctxSet assign cfg d strats hd obs h]
  simp [spec, hi]

/-- **order and thread count are immaterial**: two runs of the same strategies in different orders, with different
    thread counts and schedules, report the same observations up to that reordering -/
theorem C19_order_and_threads_immaterial (t1 t2 cpu1 cpu2 : Nat) (c1 c2 : Bool) (as1 as2 : Nat → Nat) (cfg : M) (d : D)
    (s1 s2 : List (Strat M D O)) (hperm : s1.Perm s2) (hd : DataIntact s1) (o1 o2 : List O)
    (h1 : managerRun Attach.current t1 cpu1 c1 as1 (some cfg) (some d) s1 = .done o1)
    (h2 : managerRun Attach.current t2 cpu2 c2 as2 (some cfg) (some d) s2 = .done o2) :
    o1.Perm o2 := by
  have hd2 : DataIntact s2 := fun s hs => hd s (hperm.mem_iff.mpr hs)
  rw [C19_manager_isolated t1 cpu1 c1 as1 cfg d s1 hd o1 h1, C19_manager_isolated t2 cpu2 c2 as2 cfg d s2 hd2 o2 h2]
  exact hperm.map _

/-! ### the defect that was repaired: sharing the market objects leaks state on the sequential path -/

/-- with the configuration's market objects attached directly (`Attach.shared`, the code before the repair), an idle
    strategy run after one that opens a position observes that position: the isolation statement fails -/
theorem C19_shared_markets_leak :
    ¬ (∀ (cfg : Nat × Nat) (d : Unit) (strats : List (Strat (Nat × Nat) Unit (Nat × Nat))), DataIntact strats →
        runSeq .shared cfg d strats = spec cfg d strats) := by
  intro h
  have := h (0, 0) () [countStrat 1 0, countStrat 0 0] (by intro s _ m d; rfl)
  revert this
  decide

/-- the assumption is needed: the data object is shared along the sequential path, so a strategy that modifies it
    is seen by the next one even with copied markets -/
theorem C19_data_must_stay_intact :
    ∃ (strats : List (Strat Unit Nat Nat)), runSeq .copied () 0 strats ≠ spec () 0 strats := by
  refine ⟨[⟨fun m d => (m, d + 1, d)⟩, ⟨fun m d => (m, d, d)⟩], ?_⟩
  decide

/-! ### non-vacuity -/
example : DataIntact [countStrat 1 0, countStrat 0 0, countStrat 0 1] := by intro s _ m d; rfl
example : runSeq .copied ((0, 0) : Nat × Nat) () [countStrat 1 0, countStrat 0 0, countStrat 0 1] = [(1, 0), (0, 0), (0, 1)] := by decide
example : runSeq .shared ((0, 0) : Nat × Nat) () [countStrat 1 0, countStrat 0 0, countStrat 0 1] = [(1, 0), (1, 0), (1, 1)] := by decide
example : runPool .shared ((0, 0) : Nat × Nat) (fun i => i % 2) (fun _ => ()) 0 [countStrat 1 0, countStrat 0 0, countStrat 0 1]
    = [(1, 0), (0, 0), (0, 1)] := by decide

end Demeter
