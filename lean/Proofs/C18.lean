/-
  C18 — time triggers fire on exactly the bars their specification denotes.

  Model: Demeter/Trigger.lean (every class of demeter/strategy/trigger.py, as repaired by the three `fix:` commits listed
  in /verif/known_findings.jsonl, and the evaluation + retirement part of Actuator.run).  Times are seconds; a bar grid
  is any strictly increasing list of times (the arithmetic grids of the real loop are the instance `grid start Δ n`).
  `trigRun bars trigs` returns the calls of the actions in order, the triggers still installed, and the exception
  that ended the run, if any.
-/
import Proofs.Lemmas.CoreTrigger3
import Proofs.Lemmas.CoreActuator6
namespace Demeter
open Core

/-! ### what the specifications denote, in the words of the property -/

theorem C18_denotes_atTime (t0 s t : Int) : denotes t0 (.atTime s) t = true ↔ t = toMinute s := by
  simp [denotes]

theorem C18_denotes_atTimes (t0 : Int) (ss : List Int) (t : Int) :
    denotes t0 (.atTimes ss) t = true ↔ ∃ s ∈ ss, t = toMinute s := by
  simp only [denotes, List.contains_iff_mem, List.mem_map]
  constructor
  · rintro ⟨s, hs, rfl⟩; exact ⟨s, hs, rfl⟩
  · rintro ⟨s, hs, rfl⟩; exact ⟨s, hs, rfl⟩

theorem C18_denotes_range (t0 s e t : Int) :
    denotes t0 (.range s e) t = true ↔ toMinute s ≤ t ∧ t < toMinute e := by
  simp [denotes]

theorem C18_denotes_ranges (t0 : Int) (rs : List (Int × Int)) (t : Int) :
    denotes t0 (.ranges rs) t = true ↔ ∃ r ∈ rs, toMinute r.1 ≤ t ∧ t < toMinute r.2 := by
  simp [denotes]

/-- every period after the delay: `t0 + pending + k·δ`, `k ≥ 1` (and `t0` itself if immediate).  For a
    non-negative delay the side condition `t0 < t` is implied. -/
theorem C18_denotes_period (t0 δ : Int) (imm : Bool) (pend t : Int) (hδ : 0 < δ) :
    denotes t0 (.period δ imm pend) t = true ↔
      (imm = true ∧ t = t0) ∨ (t0 < t ∧ ∃ k : Nat, 1 ≤ k ∧ t = t0 + pend + (k : Int) * δ) := by
  simp only [denotes, Bool.or_eq_true, Bool.and_eq_true, beq_iff_eq, decide_eq_true_eq, onLat_iff hδ, OnLat]
  constructor
  · rintro (h | ⟨h1, k, hk⟩)
    · exact Or.inl h
    · exact Or.inr ⟨h1, k + 1, by omega, by rw [hk]; push_cast; ring⟩
  · rintro (h | ⟨h1, k, hk1, hk⟩)
    · exact Or.inl h
    · refine Or.inr ⟨h1, k - 1, ?_⟩
      have : ((k - 1 : Nat) : Int) + 1 = k := by omega
      rw [this]; exact hk

theorem C18_denotes_period_nonneg_delay (t0 δ : Int) (imm : Bool) (pend t : Int) (hδ : 0 < δ) (hp : 0 ≤ pend) :
    denotes t0 (.period δ imm pend) t = true ↔
      (imm = true ∧ t = t0) ∨ (∃ k : Nat, 1 ≤ k ∧ t = t0 + pend + (k : Int) * δ) := by
  rw [C18_denotes_period t0 δ imm pend t hδ]
  constructor
  · rintro (h | ⟨_, h⟩)
    · exact Or.inl h
    · exact Or.inr h
  · rintro (h | ⟨k, hk1, hk⟩)
    · exact Or.inl h
    · refine Or.inr ⟨?_, k, hk1, hk⟩
      have : (1 : Int) * δ ≤ (k : Int) * δ := Int.mul_le_mul_of_nonneg_right (by omega) (le_of_lt hδ)
      omega

/-- several periods: the union of the single periods, independently of one another -/
theorem C18_denotes_periods (t0 : Int) (δs : List Int) (imm : Bool) (pend t : Int) :
    denotes t0 (.periods δs imm pend) t = true ↔
      (imm = true ∧ t = t0) ∨ ∃ δ ∈ δs, denotes t0 (.period δ false pend) t = true := by
  simp only [denotes, Bool.or_eq_true, Bool.and_eq_true, beq_iff_eq, decide_eq_true_eq, List.any_eq_true,
    Bool.false_and, Bool.false_eq_true, false_or]
  constructor
  · rintro (h | ⟨h1, δ, hδ, h2⟩)
    · exact Or.inl h
    · exact Or.inr ⟨δ, hδ, h1, h2⟩
  · rintro (h | ⟨δ, hδ, h1, h2⟩)
    · exact Or.inl h
    · exact Or.inr ⟨h1, δ, hδ, h2⟩

/-! ### the constructors -/

/-- a period is refused exactly when it is not a positive whole number of minutes -/
theorem C18_period_constructor (δ : Int) (imm : Bool) (pend : Int) :
    (∃ k, (TrigSpec.period δ imm pend).make = .ok k) ↔ 0 < δ ∧ δ % 60 = 0 := by
  simp only [TrigSpec.make]
  constructor
  · rintro ⟨k, hk⟩
    split at hk
    · cases hk
    · rename_i hb; exact badDelta_false (by simpa using hb)
  · intro h
    have : badDelta δ = false := badDelta_of h
    simp [this]

theorem C18_periods_constructor (δs : List Int) (imm : Bool) (pend : Int) :
    (∃ k, (TrigSpec.periods δs imm pend).make = .ok k) ↔ ∀ δ ∈ δs, 0 < δ ∧ δ % 60 = 0 := by
  simp only [TrigSpec.make]
  constructor
  · rintro ⟨k, hk⟩ δ hδ
    split at hk
    · cases hk
    · rename_i hb
      have := List.any_eq_false.mp (by simpa using hb) δ hδ
      exact badDelta_false (by simpa using this)
  · intro h
    have : δs.any badDelta = false := by
      apply List.any_eq_false.mpr
      intro δ hδ
      have := badDelta_of (h δ hδ)
      simp [this]
    simp [this]

/-! ### the main statement -/

/-- the strategy's triggers: (keyword arguments, specification, constructed object) in installation order -/
abbrev Core.Installed := List (String × TrigSpec × TrigKind)

def Core.Installed.trigs (l : Core.Installed) : List Trig := install (l.map fun p => (p.1, p.2.2))

theorem core_installed_wf (l : Core.Installed) (hmk : ∀ p ∈ l, p.2.1.make = .ok p.2.2) (hok : ∀ p ∈ l, SpecOK p.2.1) :
    ∀ t ∈ l.trigs, WF t.k := by
  intro t ht
  obtain ⟨q, hq, _, h2⟩ := installFrom_mem 0 _ t ht
  obtain ⟨p, hp, rfl⟩ := List.mem_map.mp hq
  rw [h2]
  exact WF_of_make (hmk p hp) (hok p hp)

/-- **C18.**  For every strictly increasing list of bar times, every list of installed time triggers (every class,
    every parameter choice the constructors accept and the code can evaluate), the run raises nothing and the calls of the
    action of trigger `i` are, in order, exactly one call per bar denoted by its specification, each with the keyword
    arguments supplied at construction — through evaluation *and* retirement. -/
theorem C18_fires_eq_denoted (bars : List Int) (hp : bars.Pairwise (· < ·)) (l : Core.Installed)
    (hmk : ∀ p ∈ l, p.2.1.make = .ok p.2.2) (hok : ∀ p ∈ l, SpecOK p.2.1) :
    (trigRun bars l.trigs).2.2 = none ∧
    ∀ (i : Nat) (hi : i < l.length),
      firesOf i (trigRun bars l.trigs).1 =
        (bars.filter (denotes (bars.headD 0) l[i].2.1)).map (fun t => ⟨t, i, l[i].1⟩) := by
  obtain ⟨h1, h2⟩ := trigRun_solo bars l.trigs (core_installed_wf l hmk hok) (install_nodup _)
  refine ⟨h1, fun i hi => ?_⟩
  have hlen : i < (l.map fun p => (p.1, p.2.2)).length := by simpa using hi
  have hf := findTrig_install (l.map fun p => (p.1, p.2.2)) i hlen
  rw [h2 i]
  simp only [Core.Installed.trigs, hf, List.getElem_map]
  rw [solo_eq_denotes (hmk l[i] (List.getElem_mem hi)) bars hp]

/-- no call is made on behalf of anything but an installed trigger -/
theorem C18_calls_belong_to_triggers (bars : List Int) (l : Core.Installed)
    (hmk : ∀ p ∈ l, p.2.1.make = .ok p.2.2) (hok : ∀ p ∈ l, SpecOK p.2.1) :
    ∀ f ∈ (trigRun bars l.trigs).1, f.id < l.length := by
  intro f hf
  by_contra hge
  obtain ⟨_, h2⟩ := trigRun_solo bars l.trigs (core_installed_wf l hmk hok) (install_nodup _)
  have hnone : findTrig f.id l.trigs = none := by
    apply List.find?_eq_none.mpr
    intro t ht
    have hid : t.id ∈ l.trigs.map (·.id) := List.mem_map_of_mem ht
    rw [Core.Installed.trigs, install, installFrom_ids] at hid
    have := List.mem_range'_1.mp hid
    simp only [List.length_map] at this
    simp only [beq_iff_eq]; omega
  have := h2 f.id
  rw [hnone] at this
  have hm : f ∈ firesOf f.id (trigRun bars l.trigs).1 := by
    simp [firesOf, hf]
  rw [this] at hm
  cases hm

theorem core_count_map_fire (i : Nat) (kw : String) (t : Int) : ∀ L : List Int,
    (L.map (fun t => (⟨t, i, kw⟩ : Fire))).count ⟨t, i, kw⟩ = L.count t
  | [] => rfl
  | a :: L => by
    simp only [List.map_cons, List.count_cons, core_count_map_fire i kw t L]
    by_cases h : a = t <;> simp [h]

/-- each firing calls the action exactly once with the supplied keyword arguments: on a bar `t` the call
    `(t, i, kwargs i)` occurs once if `t` is denoted and not at all otherwise -/
theorem C18_once_with_kwargs (bars : List Int) (hp : bars.Pairwise (· < ·)) (l : Core.Installed)
    (hmk : ∀ p ∈ l, p.2.1.make = .ok p.2.2) (hok : ∀ p ∈ l, SpecOK p.2.1)
    (i : Nat) (hi : i < l.length) (t : Int) (ht : t ∈ bars) :
    (trigRun bars l.trigs).1.count ⟨t, i, l[i].1⟩ = if denotes (bars.headD 0) l[i].2.1 t then 1 else 0 := by
  have hmain := (C18_fires_eq_denoted bars hp l hmk hok).2 i hi
  have hcount : (trigRun bars l.trigs).1.count ⟨t, i, l[i].1⟩ = (firesOf i (trigRun bars l.trigs).1).count ⟨t, i, l[i].1⟩ := by
    rw [firesOf, List.count_filter]; simp
  rw [hcount, hmain]
  rw [core_count_map_fire]
  have hnd : bars.Nodup := hp.imp (fun h => ne_of_lt h)
  by_cases hd : denotes (bars.headD 0) l[i].2.1 t = true
  · rw [if_pos hd, List.count_filter (by simpa using hd)]
    have h1 := List.nodup_iff_count.mp hnd t
    have h2 := List.count_pos_iff.mpr ht
    omega
  · rw [if_neg hd]
    apply List.count_eq_zero_of_not_mem
    intro hm
    exact hd (List.mem_filter.mp hm).2

/-- every call made for trigger `i` carries the keyword arguments supplied at construction and happens on a bar -/
theorem C18_kwargs_passed (bars : List Int) (hp : bars.Pairwise (· < ·)) (l : Core.Installed)
    (hmk : ∀ p ∈ l, p.2.1.make = .ok p.2.2) (hok : ∀ p ∈ l, SpecOK p.2.1) (i : Nat) (hi : i < l.length) :
    ∀ f ∈ (trigRun bars l.trigs).1, f.id = i → f.kw = l[i].1 ∧ f.ts ∈ bars := by
  intro f hf hid
  have hmain := (C18_fires_eq_denoted bars hp l hmk hok).2 i hi
  have hm : f ∈ firesOf i (trigRun bars l.trigs).1 := by simp [firesOf, hf, hid]
  rw [hmain] at hm
  obtain ⟨t, ht, rfl⟩ := List.mem_map.mp hm
  exact ⟨rfl, (List.mem_filter.mp ht).1⟩

/-- several triggers do not influence one another: the bars on which trigger `i` fires inside any list of triggers
    are the bars on which it fires when it is the only trigger of the strategy -/
theorem C18_independent (bars : List Int) (l : Core.Installed)
    (hmk : ∀ p ∈ l, p.2.1.make = .ok p.2.2) (hok : ∀ p ∈ l, SpecOK p.2.1) (i : Nat) (hi : i < l.length) :
    (firesOf i (trigRun bars l.trigs).1).map (·.ts) =
      (trigRun bars (Core.Installed.trigs [l[i]])).1.map (·.ts) := by
  obtain ⟨_, h2⟩ := trigRun_solo bars l.trigs (core_installed_wf l hmk hok) (install_nodup _)
  have hmem : l[i] ∈ l := List.getElem_mem hi
  have hwf1 : ∀ t ∈ Core.Installed.trigs [l[i]], WF t.k :=
    core_installed_wf [l[i]] (by intro p hp; rw [List.mem_singleton.mp hp]; exact hmk _ hmem)
      (by intro p hp; rw [List.mem_singleton.mp hp]; exact hok _ hmem)
  obtain ⟨_, h3⟩ := trigRun_solo bars (Core.Installed.trigs [l[i]]) hwf1 (install_nodup _)
  have hlen : i < (l.map fun p => (p.1, p.2.2)).length := by simpa using hi
  have hf := findTrig_install (l.map fun p => (p.1, p.2.2)) i hlen
  have hall : (trigRun bars (Core.Installed.trigs [l[i]])).1 = firesOf 0 (trigRun bars (Core.Installed.trigs [l[i]])).1 := by
    symm
    apply List.filter_eq_self.mpr
    intro f hf'
    have := C18_calls_belong_to_triggers bars [l[i]]
      (by intro p hp; rw [List.mem_singleton.mp hp]; exact hmk _ hmem)
      (by intro p hp; rw [List.mem_singleton.mp hp]; exact hok _ hmem) f hf'
    simp only [List.length_singleton] at this
    simp only [beq_iff_eq]; omega
  have e1 : findTrig i l.trigs = some ⟨i, l[i].1, l[i].2.2⟩ := by
    simpa [Core.Installed.trigs] using hf
  have e2 : findTrig 0 (Core.Installed.trigs [l[i]]) = some ⟨0, l[i].1, l[i].2.2⟩ := by
    simp [Core.Installed.trigs, install, installFrom, findTrig]
  rw [hall, h2 i, h3 0, e1, e2]
  simp [List.map_map, Function.comp_def]

/-! ### retirement -/

/-- the state of a trigger object after it has been evaluated on the bars `ts` -/
def Core.afterBars (ts : List Int) (k : TrigKind) : TrigKind := ts.foldl (fun k t => (whenT t k).2) k

theorem core_outOfDate_step (now t : Int) (k : TrigKind) : outOfDate now (whenT t k).2 = outOfDate now k := by
  cases k with
  | period δ imm pend next => cases next <;> rfl
  | periods δs imm pend nexts => cases nexts <;> rfl
  | _ => rfl

theorem core_outOfDate_after (now : Int) (ts : List Int) (k : TrigKind) :
    outOfDate now (Core.afterBars ts k) = outOfDate now k := by
  induction ts generalizing k with
  | nil => rfl
  | cons t ts ih => simp only [Core.afterBars, List.foldl_cons] at ih ⊢; rw [ih, core_outOfDate_step]

/-- `is_out_date` answers true only when no later time is denoted — whatever the object's history -/
theorem C18_out_of_date_sound (sp : TrigSpec) (k : TrigKind) (hm : sp.make = .ok k) (ts : List Int) (t0 now t' : Int)
    (hout : outOfDate now (Core.afterBars ts k) = true) (hlt : now < t') : denotes t0 sp t' = false := by
  rw [core_outOfDate_after] at hout
  cases sp with
  | base => rfl
  | atTime s => cases hm; exact out_sound_atTime _ _ _ hout hlt
  | atTimes ss => cases hm; exact out_sound_atTimes _ _ _ hout hlt
  | range s e => cases hm; exact out_sound_range _ _ _ _ hout hlt
  | ranges rs =>
    cases hm
    have := out_sound_ranges _ _ _ hout hlt
    simpa [whenT, denotes, List.any_map] using this
  | period δ imm pend =>
    simp only [TrigSpec.make] at hm
    split at hm
    · cases hm
    · cases hm; cases hout
  | periods δs imm pend =>
    simp only [TrigSpec.make] at hm
    split at hm
    · cases hm
    · cases hm; cases hout

/-- a trigger leaves `strategy.triggers` on a bar only if its `is_out_date` answered true on that bar, hence
    (previous theorem) only when it can never fire again; triggers that stay are evaluated on the next bar -/
theorem C18_retired_only_when_dead (now : Int) (trigs : List Trig) (hwf : ∀ t ∈ trigs, WF t.k)
    (hn : (trigs.map (·.id)).Nodup) (i : Nat) (x : Trig) (hx : findTrig i trigs = some x) :
    (findTrig i (trigPhase now trigs).2.1 = none ↔ outOfDate now (whenT now x.k).2 = true) ∧
    (outOfDate now (whenT now x.k).2 = false → findTrig i (trigPhase now trigs).2.1 = some (stepTrig now x)) := by
  rw [trigPhase_ok now trigs hwf]
  simp only [findTrig_phase now i trigs hn, hx]
  by_cases ho : outOfDate now (whenT now x.k).2 = true <;> simp [ho]

/-- period triggers are never retired -/
theorem C18_period_never_retired (now : Int) (ts : List Int) (sp : TrigSpec) (k : TrigKind) (hm : sp.make = .ok k)
    (hper : (∃ δ imm pend, sp = .period δ imm pend) ∨ (∃ δs imm pend, sp = .periods δs imm pend)) :
    outOfDate now (Core.afterBars ts k) = false := by
  rw [core_outOfDate_after]
  rcases hper with ⟨δ, imm, pend, rfl⟩ | ⟨δs, imm, pend, rfl⟩
  · simp only [TrigSpec.make] at hm
    split at hm
    · cases hm
    · cases hm; rfl
  · simp only [TrigSpec.make] at hm
    split at hm
    · cases hm
    · cases hm; rfl

/-! ### every arithmetic grid is covered -/

theorem core_grid_pairwise (start Δ : Int) (hΔ : 0 < Δ) (n : Nat) : (grid start Δ n).Pairwise (· < ·) := by
  unfold grid
  rw [List.pairwise_map]
  apply List.Pairwise.imp _ (List.pairwise_lt_range)
  intro a b hab
  have : (a : Int) * Δ < (b : Int) * Δ := Int.mul_lt_mul_of_pos_right (by exact_mod_cast hab) hΔ
  omega

/-- the statement for the grids of the real loop: any start, any positive interval, any length -/
theorem C18_on_every_grid (start Δ : Int) (hΔ : 0 < Δ) (n : Nat) (l : Core.Installed)
    (hmk : ∀ p ∈ l, p.2.1.make = .ok p.2.2) (hok : ∀ p ∈ l, SpecOK p.2.1) :
    (trigRun (grid start Δ n) l.trigs).2.2 = none ∧
    ∀ (i : Nat) (hi : i < l.length),
      firesOf i (trigRun (grid start Δ n) l.trigs).1 =
        ((grid start Δ n).filter (denotes start l[i].2.1)).map (fun t => ⟨t, i, l[i].1⟩) := by
  have h := C18_fires_eq_denoted (grid start Δ n) (core_grid_pairwise start Δ hΔ n) l hmk hok
  cases n with
  | zero => simpa [grid] using h
  | succ m =>
    have hh : (grid start Δ (m + 1)).headD 0 = start := by
      simp [grid, List.range_succ_eq_map]
    rw [hh] at h
    exact h

/-! ### through the bar loop -/

/-- **C18 through the bar loop** (`Demeter.Core.run`, the model of `Actuator.run` with markets, hooks, operations, refreshes,
    updates and notifications around the triggers): in every run that ends normally, whatever the strategy's hooks and the
    markets do, the calls of the action of trigger `i` are exactly one per bar of the (resampled) bar index that its
    specification denotes, with the keyword arguments supplied. -/
theorem C18_through_the_bar_loop (cfg : Cfg) (sc : Script) (l : Core.Installed)
    (hmk : ∀ p ∈ l, p.2.1.make = .ok p.2.2) (hok : ∀ p ∈ l, SpecOK p.2.1)
    (hidx : (barIndex cfg).Pairwise (· < ·)) (h : (run cfg l.trigs sc).err = none) :
    ∀ (i : Nat) (hi : i < l.length),
      firesOf i ((run cfg l.trigs sc).trace.filterMap fireOfEv) =
        ((barIndex cfg).filter (denotes ((barIndex cfg).headD 0) l[i].2.1)).map (fun t => ⟨t, i, l[i].1⟩) := by
  intro i hi
  rw [(core_run_trig cfg l.trigs sc h).1]
  exact (C18_fires_eq_denoted (barIndex cfg) hidx l hmk hok).2 i hi

/-! ### what still raises: parameter lists the code cannot evaluate (reported, not repaired) -/

theorem C18_empty_lists_raise (t : Int) (bars : List Int) (kw : String) :
    (trigRun (t :: bars) (install [(kw, .atTimes [])])).2.2 = some .valueError ∧
    (trigRun (t :: bars) (install [(kw, .ranges [])])).2.2 = some .valueError ∧
    (∀ imm pend, (trigRun (t :: bars) (install [(kw, .periods [] imm pend none)])).2.2 = some .indexError) := by
  refine ⟨rfl, rfl, fun _ _ => rfl⟩

/-- the run raises on its first bar **iff** an installed trigger cannot be evaluated (an `AtTimesTrigger` / `TimeRangesTrigger` /
    `PeriodsTrigger` built from an empty list): with the previous theorems, every other run goes through -/
theorem C18_raises_iff_malformed (t : Int) (bars : List Int) (trigs : List Trig) (hn : (trigs.map (·.id)).Nodup) :
    (trigRun (t :: bars) trigs).2.2 ≠ none ↔ ∃ x ∈ trigs, ¬ WF x.k :=
  raises_iff_malformed t bars trigs hn

/-! ### the behaviour before the repairs (kept as a regression witness) -/

/-- `PeriodsTrigger.when` as it was: return at the first period that is due -/
def Core.stepAllOld (now : Int) : List Int → List Int → Bool × List Int
  | δ :: δs, n :: ns =>
    if n = now then (true, (n + δ) :: ns)
    else ((Core.stepAllOld now δs ns).1, n :: (Core.stepAllOld now δs ns).2)
  | _, ns => (false, ns)

def Core.oldPeriodsFires : List Int → List Int → List Int → List Int
  | [], _, _ => []
  | t :: bars, δs, ns =>
    (if (Core.stepAllOld t δs ns).1 then [t] else []) ++ Core.oldPeriodsFires bars δs (Core.stepAllOld t δs ns).2

/-- periods of 2 and 3 minutes on a 1-minute grid: the unrepaired loop never fires at minute 9 or 15, the repaired
    model (and the specification) do -/
theorem C18_unrepaired_periods_starve :
    Core.oldPeriodsFires (grid 60 60 19) [120, 180] [120, 180] = [120, 180, 240, 360, 480, 600, 720, 840, 960, 1080] ∧
    (grid 0 60 20).filter (denotes 0 (.periods [120, 180] false 0)) =
      [120, 180, 240, 360, 480, 540, 600, 720, 840, 900, 960, 1080] := by
  decide

/-- `PeriodTrigger.when` as it was: the due time is compared by equality only -/
def Core.oldPeriodFires : List Int → Int → Int → List Int
  | [], _, _ => []
  | t :: bars, δ, next => if next = t then t :: Core.oldPeriodFires bars δ (next + δ) else Core.oldPeriodFires bars δ next

/-- a 3-minute period on 5-minute bars from 08:00: the unrepaired comparison never fires (the first due time 08:03 is not a
    bar and is never advanced); the specification — and the repaired model — fire where the two lattices meet -/
theorem C18_unrepaired_period_silent_off_grid :
    Core.oldPeriodFires (grid 29100 300 11) 180 (28800 + 180) = [] ∧
    (grid 28800 300 12).filter (denotes 28800 (.period 180 false 0)) = [29700, 30600, 31500] ∧
    (trigRun (grid 28800 300 12) (install [("", .period 180 false 0 none)])).1.map (·.ts) = [29700, 30600, 31500] := by
  decide

/-! ### non-vacuity: concrete runs through the model -/

/-- 2- and 3-minute periods with a 1-minute delay, an at-times trigger and a range on 1-minute bars from 08:03 -/
def Core.exampleInstalled : Core.Installed :=
  [("a", .periods [120, 180] true 60, .periods [120, 180] true 60 none),
   ("b", .atTimes [29100, 29225], .atTimes [29100, 29220]),
   ("c", .range 29040 29160, .range 29040 29160)]

example :
    (∀ p ∈ Core.exampleInstalled, p.2.1.make = .ok p.2.2) ∧ (∀ p ∈ Core.exampleInstalled, SpecOK p.2.1) ∧
    (trigRun (grid 28980 60 8) Core.exampleInstalled.trigs).1.map (fun f => (f.ts, f.id)) =
      [(28980, 0), (29040, 2), (29100, 1), (29100, 2), (29160, 0), (29220, 0), (29220, 1), (29280, 0), (29400, 0)] ∧
    (trigRun (grid 28980 60 8) Core.exampleInstalled.trigs).2.1.map (·.id) = [0] := by
  refine ⟨by decide, ?_, by decide, by decide⟩
  intro p hp
  simp only [Core.exampleInstalled, List.mem_cons, List.not_mem_nil, or_false] at hp
  rcases hp with rfl | rfl | rfl <;> simp [SpecOK]

/-- a 3-minute period on 5-minute bars fires where both lattices meet -/
example : (trigRun (grid 28800 300 12) (install [("", .period 180 false 0 none)])).1.map (·.ts) = [29700, 30600, 31500] := by
  decide

end Demeter
