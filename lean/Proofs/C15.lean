/-
  C15 — option orders (placeholder while the harness is brought up; real theorems follow).
-/
import Demeter.Deribit
import Proofs.Lemmas.Exact
namespace Demeter
open Demeter.Deribit

theorem C15_closed_market_rejects_buy (cx : DCtx) (c : TokenCfg) (s : DState) (r : Req) (h : s.flagOpen = false) :
    buy cx c s r = (.error (.demeter "market-closed"), s) := by
  unfold buy; simp [h]

end Demeter
