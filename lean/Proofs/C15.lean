/-
  C15 — option orders fill best-first at displayed sizes; cash, fee, position exact; fills shrink the
  visible book until refresh; equity; no short sale.

  Model: Demeter/Deribit.lean (the repaired code: /repo commits 763165f 4fb272a 1e18c04 53b904d a92046a).
  `∀ cx` theorems hold for every Decimal rounding and every float semantics; theorems about sums and
  cash are stated for `DCtx.exact` (Decimal arithmetic exact, book floats read as reals).
-/
import Proofs.Lemmas.DeribitNorm
import Mathlib.Tactic.FieldSimp
namespace Demeter
open Demeter.Deribit

/-- the levels a market order can take from, in book order -/
def Deribit.nonEmpty (ls : List Level) : List Level := ls.filter (fun l => l.size ≠ 0)

/-- all sizes of a side are non-negative -/
def Deribit.SizesNonneg (ls : List Level) : Prop := ∀ l ∈ ls, 0 ≤ l.size

/-- the constants the property names, as extracted from the source -/
theorem C15_constants :
    ethCfg.tradeFee = 3 / 10000 ∧ btcCfg.tradeFee = 3 / 10000 ∧ maxFeeRate = 125 / 1000 ∧
    ethCfg.tradeExp = 0 ∧ ethCfg.feeExp = -6 ∧ btcCfg.tradeExp = -1 ∧ btcCfg.feeExp = -8 ∧ matchErr = 1 / 1000 := by
  refine ⟨?_, ?_, ?_, rfl, rfl, rfl, rfl, ?_⟩ <;>
    simp only [ethCfg, btcCfg, maxFeeRate, matchErr, Gen.deribitEthTradeFeeRate, Gen.deribitBtcTradeFeeRate,
      Gen.deribitMaxFeeRate, Gen.deribitPriceMatchError] <;> norm_num
/-- **best-first at displayed sizes** (every arithmetic context): the fills of a market order sit, in
    order, on an initial segment of the non-empty levels in book order; each fill carries its level's
    printed price and takes no more than the level's printed size. -/
theorem C15_market_fills_prefix (cx : DCtx) (rem : Rat) (ls : List Level) :
    List.Forall₂ (fun (f : Fill) (l : Level) => f.price = cx.reprD l.price ∧ f.amount ≤ cx.reprD l.size)
      (deductMarket cx rem ls) ((Deribit.nonEmpty ls).take (deductMarket cx rem ls).length) := by
  induction ls generalizing rem with
  | nil => simp [deductMarket, Deribit.nonEmpty]
  | cons l ls ih =>
    unfold deductMarket
    by_cases h0 : l.size = 0
    · simp only [h0, if_true]
      have : Deribit.nonEmpty (l :: ls) = Deribit.nonEmpty ls := by simp [Deribit.nonEmpty, h0]
      rw [this]; exact ih rem
    · simp only [h0, if_false]
      have hne : Deribit.nonEmpty (l :: ls) = l :: Deribit.nonEmpty ls := by simp [Deribit.nonEmpty, h0]
      rw [hne]
      split
      · simp
      · simp only [List.length_cons, List.take_succ_cons]
        exact List.Forall₂.cons ⟨rfl, min_le_left _ _⟩ (ih _)

/-- a level is left before it is exhausted only by the last fill: every fill but the last takes the
    whole printed size of its level (contexts whose rounding maps 0 to 0). -/
theorem C15_market_consumes_level_before_next (cx : DCtx) (h0 : cx.num.rnd 0 = 0) (rem : Rat) (ls : List Level) :
    ∀ i, i + 1 < (deductMarket cx rem ls).length →
      ((deductMarket cx rem ls)[i]?).map (·.amount) = ((Deribit.nonEmpty ls)[i]?).map (fun l => cx.reprD l.size) := by
  induction ls generalizing rem with
  | nil => intro i hi; simp [deductMarket] at hi
  | cons l ls ih =>
    intro i hi
    unfold deductMarket at hi ⊢
    by_cases hz : l.size = 0
    · simp only [hz, if_true] at hi ⊢
      have : Deribit.nonEmpty (l :: ls) = Deribit.nonEmpty ls := by simp [Deribit.nonEmpty, hz]
      rw [this]; exact ih rem i hi
    · simp only [hz, if_false] at hi ⊢
      have hne : Deribit.nonEmpty (l :: ls) = l :: Deribit.nonEmpty ls := by simp [Deribit.nonEmpty, hz]
      rw [hne]
      split at hi
      · simp at hi
      · rename_i hc
        split
        · rename_i hc'; exact absurd hc' hc
        · cases i with
          | zero =>
            simp only [List.getElem?_cons_zero, Option.map_some, Option.some.injEq]
            have hr : cx.num.sub rem (min (cx.reprD l.size) rem) ≠ 0 := fun h => hc (Or.inr h)
            rcases min_choice (cx.reprD l.size) rem with h | h
            · exact h
            · exfalso; apply hr; rw [h]; simp [NumCtx.sub, h0]
          | succ j =>
            simp only [List.length_cons, Nat.add_lt_add_iff_right] at hi
            simpa using ih _ j hi

/-- **fills exactly the requested amount** (exact arithmetic): with non-negative displayed sizes and
    `0 ≤ amount ≤ Σ sizes` (what `check_transaction` guarantees) the fills add up to the amount. -/
theorem C15_market_fill_total (ls : List Level) (amount : Rat) (hs : Deribit.SizesNonneg ls)
    (h0 : 0 ≤ amount) (hle : amount ≤ sizeSum ls) :
    fillSum (deductMarket DCtx.exact amount ls) = amount := by
  induction ls generalizing amount with
  | nil =>
    simp [sizeSum] at hle
    simp [deductMarket, fillSum]; linarith
  | cons l ls ih =>
    have hl : 0 ≤ l.size := hs l List.mem_cons_self
    have hs' : Deribit.SizesNonneg ls := fun x hx => hs x (List.mem_cons_of_mem _ hx)
    have hsum : sizeSum (l :: ls) = l.size + sizeSum ls := by simp [sizeSum]
    unfold deductMarket
    by_cases hz : l.size = 0
    · simp only [hz, if_true]
      apply ih _ hs' h0; rw [hsum, hz] at hle; linarith
    · simp only [hz, if_false]
      split
      · rename_i hc
        simp only [exact_reprD, exact_num, NumCtx.exact_sub, exact_fsub, exact_toF] at hc ⊢
        simp only [fillSum, List.map_cons, List.map_nil, List.sum_cons, List.sum_nil, add_zero]
        rcases hc with hc | hc
        · rcases min_choice l.size amount with h | h
          · rw [h] at hc; linarith
          · exact h
        · linarith
      · rename_i hc
        simp only [exact_reprD, exact_num, NumCtx.exact_sub, exact_fsub, exact_toF] at hc ⊢
        have hc1 : ¬ (0 < l.size - min l.size amount) := fun h => hc (Or.inl h)
        have hmin : min l.size amount = l.size := by
          have := min_le_left l.size amount
          linarith [not_lt.mp hc1]
        simp only [fillSum, List.map_cons, List.sum_cons]
        have := ih (amount - min l.size amount) hs' (by linarith [min_le_right l.size amount]) (by rw [hmin]; rw [hsum] at hle; linarith)
        unfold fillSum at this
        rw [this]; ring

/-- **limit order**: fills only at levels whose printed price is the matched price, each for the whole amount -/
theorem C15_limit_fills_only_at_level (cx : DCtx) (p a : Rat) (ls : List Level) :
    deductLimit cx p a ls = (ls.filter (fun l => p = cx.reprD l.price)).map (fun _ => ⟨p, a⟩) := by
  induction ls with
  | nil => simp [deductLimit]
  | cons l ls ih =>
    unfold deductLimit
    by_cases h : p = cx.reprD l.price
    · simp only [h, if_true] at ih ⊢; simp [ih]
    · simp only [h, if_false]; rw [ih]; simp [h]

/-- with distinct printed prices a limit order is one fill of the whole amount at the matched level -/
theorem C15_limit_single_fill (cx : DCtx) (a : Rat) (ls : List Level) (l : Level) (hl : l ∈ ls)
    (hd : (ls.map (fun l => cx.reprD l.price)).Nodup) :
    deductLimit cx (cx.reprD l.price) a ls = [⟨cx.reprD l.price, a⟩] := by
  rw [C15_limit_fills_only_at_level]
  induction ls with
  | nil => simp at hl
  | cons x xs ih =>
    simp only [List.map_cons, List.nodup_cons] at hd
    rcases List.mem_cons.mp hl with rfl | hmem
    · have : xs.filter (fun y => decide (cx.reprD l.price = cx.reprD y.price)) = [] := by
        apply List.filter_eq_nil_iff.mpr
        intro y hy hyp
        simp only [decide_eq_true_eq] at hyp
        exact hd.1 (hyp ▸ List.mem_map_of_mem (f := fun l => cx.reprD l.price) hy)
      simp [this]
    · have hne : ¬ (cx.reprD l.price = cx.reprD x.price) := fun h =>
        hd.1 (h ▸ List.mem_map_of_mem (f := fun l => cx.reprD l.price) hmem)
      simp only [List.filter_cons, hne, decide_false]
      exact ih hmem hd.2

/-- **price cap relative to mark (buy)**: with `max_mark_price_multiple = m` every fill comes from a level of the
    normalised asks (best first, one level per price — its price is a price of the raw data) strictly below `m × mark` -/
theorem C15_buy_cap_excludes_worse (cx : DCtx) (c : TokenCfg) (s s' : DState) (r : Req) (m : Rat)
    (fills : List Fill) (fee : Rat) (hm : r.mult = some m)
    (h : buy cx c s r = (.ok (.trade fills fee), s')) :
    ∃ ins, findInstr s.book r.name = some ins ∧
      ∀ f ∈ fills, ∃ l ∈ normSide cx true ins.asks, l.price < cx.num.mul m ins.mark ∧ f.price = cx.reprD l.price ∧
        ∃ l0 ∈ ins.asks, l0.price = l.price := by
  obtain ⟨_, ck, hck, fills', _, _, hfills, _, _, hres, _⟩ := buy_ok h
  simp only [Res.trade.injEq] at hres
  obtain ⟨rfl, _⟩ := hres
  obtain ⟨⟨ins0, hfind, hnorm⟩, _⟩ := checkTx_ok hck
  refine ⟨ins0, hfind, ?_⟩
  intro f hf
  rw [hfills] at hf
  have ha : availSide cx ck.ins r.mult true = .ok (availAsks cx ck.ins r.mult) := by simp [availSide]
  obtain ⟨l, hl, hp⟩ := fills_from_avail hck ha hf
  rw [hnorm] at hl
  simp only [availAsks, hm, normInstr_asks, normInstr_mark] at hl
  obtain ⟨hl1, hl2⟩ := List.mem_filter.mp hl
  exact ⟨l, hl1, of_decide_eq_true hl2, hp, normSide_mem_price hl1⟩

/-- **price floor relative to mark (sell)**: every fill comes from a bid strictly above `mark / m` -/
theorem C15_sell_cap_excludes_worse (cx : DCtx) (c : TokenCfg) (s s' : DState) (r : Req) (m : Rat)
    (fills : List Fill) (fee : Rat) (hm : r.mult = some m)
    (h : sell cx c s r = (.ok (.trade fills fee), s')) :
    ∃ ins, findInstr s.book r.name = some ins ∧ m ≠ 0 ∧
      ∀ f ∈ fills, ∃ l ∈ normSide cx false ins.bids, cx.num.div ins.mark m < l.price ∧ f.price = cx.reprD l.price ∧
        ∃ l0 ∈ ins.bids, l0.price = l.price := by
  obtain ⟨_, ck, p, bids, hck, _, _, hb, fills', _, _, hfills, _, _, hres, _⟩ := sell_ok h
  simp only [Res.trade.injEq] at hres
  obtain ⟨rfl, _⟩ := hres
  have ha : availSide cx ck.ins r.mult false = .ok bids := by simp [availSide, hb]
  simp only [availBids, hm, decDiv] at hb
  by_cases hm0 : m = 0
  · simp only [hm0, if_true] at hb
    split at hb
    · simp at hb
    · rename_i heq; split at heq <;> simp at heq
  · simp only [hm0, if_false, Except.ok.injEq] at hb
    obtain ⟨⟨ins0, hfind, hnorm⟩, _⟩ := checkTx_ok hck
    refine ⟨ins0, hfind, hm0, ?_⟩
    intro f hf
    rw [hfills] at hf
    obtain ⟨l, hl, hp⟩ := fills_from_avail hck ha hf
    rw [← hb, hnorm] at hl
    simp only [normInstr_bids, normInstr_mark] at hl
    obtain ⟨hl1, hl2⟩ := List.mem_filter.mp hl
    exact ⟨l, hl1, of_decide_eq_true hl2, hp, normSide_mem_price hl1⟩

/-- level count and prices of a side never change when fills are written back (every context) -/
theorem C15_book_prices_kept (cx : DCtx) (old : List Level) (fs : List Fill) :
    (newOrderList cx old fs).map (·.price) = old.map (·.price) := by
  unfold newOrderList
  induction fs generalizing old with
  | nil => rfl
  | cons f fs ih => simp only [List.foldl_cons]; rw [ih, applyFill_prices]

/-- **the visible book after a fill is the old book minus the fills** (exact arithmetic): at every
    price the displayed size drops by exactly what the fills took there. -/
theorem C15_book_after_fill (old : List Level) (fs : List Fill) (p : Rat) :
    sizeAt (newOrderList DCtx.exact old fs) p = (sizeAt old p).map (fun s => s - taken fs p) := by
  unfold newOrderList
  induction fs generalizing old with
  | nil => simp [taken]
  | cons f fs ih =>
    simp only [List.foldl_cons]
    rw [ih, sizeAt_applyFill]
    by_cases hp : p = f.price
    · have hp' : f.price = p := hp.symm
      simp only [hp, if_true, taken, List.filter_cons, decide_true, List.map_cons, List.sum_cons]
      cases sizeAt old f.price <;> simp; ring
    · have hp' : ¬ f.price = p := fun h => hp h.symm
      simp [hp, taken, hp']

/-- the value of the portfolio at mark: Σ amount × round(mark) over the positions whose instrument is in the book -/
def Deribit.markValue (c : TokenCfg) (book : List Instr) (ps : List (String × Position)) : Rat :=
  (ps.map (fun kp => match findInstr book kp.2.name with
    | some ins => kp.2.amount * roundDec c.feeExp ins.mark
    | none => 0)).sum

theorem Deribit.valueLoop_fst (c : TokenCfg) (book : List Instr) (ps : List (String × Position)) (a b d : Rat) :
    (valueLoop DCtx.exact c book ps (a, b, d)).1 = a + Deribit.markValue c book ps := by
  induction ps generalizing a b d with
  | nil => simp [valueLoop, Deribit.markValue]
  | cons kp ps ih =>
    obtain ⟨k, p⟩ := kp
    unfold valueLoop
    split
    · rename_i hnone
      rw [ih]; simp [Deribit.markValue, hnone]
    · rename_i ins hsome
      simp only [exact_num, NumCtx.exact_add, NumCtx.exact_mul]
      rw [ih]; simp [Deribit.markValue, hsome]; ring

/-- **equity = cash + positions at mark** (exact arithmetic) whenever `get_market_balance` values the holdings afresh:
    on an open bar (timestamp on the hourly grid), and on any bar when no cached valuation exists (never valued yet, or a
    trade has dropped the cache) -/
theorem C15_equity (c : TokenCfg) (s : DState) (hg : s.onGrid = true ∨ s.cache = none) :
    ∃ b, (getMarketBalance DCtx.exact c s).1 = .ok (.balance (some b)) ∧
      b.netValue = s.cash + Deribit.markValue c s.book s.positions ∧ b.cash = s.cash ∧
      b.premium = Deribit.markValue c s.book s.positions := by
  unfold getMarketBalance
  have hc : (s.onGrid || s.cache.isNone) = true := by
    rcases hg with h | h
    · simp [h]
    · simp [h]
  simp only [hc, if_true]
  refine ⟨_, rfl, ?_, ?_, ?_⟩
  · simp only [freshBalance]
    have := Deribit.valueLoop_fst c s.book s.positions 0 0 0
    rcases hv : valueLoop DCtx.exact c s.book s.positions (0, 0, 0) with ⟨tp, dl, gm⟩
    rw [hv] at this
    simp only [exact_num, NumCtx.exact_add]
    simp only [] at this
    rw [this]; ring
  · simp only [freshBalance]
  · simp only [freshBalance]
    have := Deribit.valueLoop_fst c s.book s.positions 0 0 0
    rcases hv : valueLoop DCtx.exact c s.book s.positions (0, 0, 0) with ⟨tp, dl, gm⟩
    rw [hv] at this
    simp only [] at this
    rw [this]; ring

/-- **cost of a buy** (exact arithmetic): cash drops by Σ price × size plus the fee, the fee is
    `round(min(trade_fee_rate × contracts, 12.5 % × premium))`, cash stays non-negative, and the filled
    amount is the request rounded to the contract step. -/
theorem C15_buy_cost (c : TokenCfg) (s s' : DState) (r : Req) (fills : List Fill) (fee : Rat)
    (h : buy DCtx.exact c s r = (.ok (.trade fills fee), s')) :
    s'.cash = s.cash - (fillCost fills + fee) ∧ 0 ≤ s'.cash ∧
    fee = roundDec c.feeExp (min (c.tradeFee * roundDec c.tradeExp r.amount) (maxFeeRate * fillCost fills)) ∧
    s'.wallet = s.wallet := by
  obtain ⟨_, ck, hck, fills', prem, fee', hfills, hprem, hfee, hres, hcash, hnn, hs'⟩ := buy_ok h
  simp only [Res.trade.injEq] at hres
  obtain ⟨rfl, rfl⟩ := hres
  have hamt := (checkTx_ok hck).2.2.2.1
  rw [premiumOf_exact] at hprem
  refine ⟨?_, hnn, ?_, ?_⟩
  · rw [hcash, hprem]; simp
  · rw [hfee, hprem, hamt]; simp [tradeFee]
  · rw [hs']

/-- **proceeds of a sell** (exact arithmetic) -/
theorem C15_sell_proceeds (c : TokenCfg) (s s' : DState) (r : Req) (fills : List Fill) (fee : Rat)
    (h : sell DCtx.exact c s r = (.ok (.trade fills fee), s')) :
    s'.cash = s.cash + (fillCost fills - fee) ∧
    fee = roundDec c.feeExp (min (c.tradeFee * roundDec c.tradeExp r.amount) (maxFeeRate * fillCost fills)) ∧
    s'.wallet = s.wallet := by
  obtain ⟨_, ck, p, bids, hck, _, _, _, fills', prem, fee', hfills, hprem, hfee, hres, hs'⟩ := sell_ok h
  simp only [Res.trade.injEq] at hres
  obtain ⟨rfl, rfl⟩ := hres
  have hamt := (checkTx_ok hck).2.2.2.1
  rw [premiumOf_exact] at hprem
  refine ⟨?_, ?_, ?_⟩
  · rw [hs', hprem]; simp
  · rw [hfee, hprem, hamt]; simp [tradeFee]
  · rw [hs']

/-- **a market buy fills exactly the requested amount rounded to the contract step** (exact arithmetic,
    non-negative displayed sizes) -/
theorem C15_buy_market_fills_rounded_amount (c : TokenCfg) (s s' : DState) (r : Req) (fills : List Fill) (fee : Rat)
    (hb : BookNonneg s.book) (hp : r.priceTok = none ∧ r.priceUsd = none)
    (h : buy DCtx.exact c s r = (.ok (.trade fills fee), s')) :
    fillSum fills = roundDec c.tradeExp r.amount := by
  obtain ⟨_, ck, hck, fills', prem, fee', hfills, _, _, hres, _⟩ := buy_ok h
  simp only [Res.trade.injEq] at hres
  obtain ⟨rfl, rfl⟩ := hres
  obtain ⟨⟨ins0, hfind, hnorm⟩, _, hmin, hamt, avail, ha, hcase⟩ := checkTx_ok hck
  have hav : avail = availAsks DCtx.exact ck.ins r.mult := by simpa [availSide] using ha.symm
  have hnn : 0 ≤ ck.amount := by
    rw [hamt]; exact roundDec_nonneg _ (le_trans (minAmount_pos c).le hmin)
  have hsz : ∀ l ∈ avail, 0 ≤ l.size := by
    intro l hl
    have hins : ∀ l ∈ ck.ins.asks, 0 ≤ l.size := by
      rw [hnorm]; exact normSide_nonneg (hb ins0 (findInstr_mem hfind)).1
    rw [hav] at hl
    unfold availAsks at hl
    split at hl
    · exact hins l hl
    · exact hins l (List.mem_filter.mp hl).1
  rcases hcase with ⟨_, hpn, hle⟩ | ⟨p, l, rest, hrp, _⟩
  · rw [hfills, hpn, ← hav, ← hamt]
    rw [sumSizes_exact] at hle
    exact C15_market_fill_total avail ck.amount hsz hnn hle
  · simp [reqPrice, hp.1, hp.2] at hrp


/-- **a market sell fills exactly the requested amount rounded to the contract step** -/
theorem C15_sell_market_fills_rounded_amount (c : TokenCfg) (s s' : DState) (r : Req) (fills : List Fill) (fee : Rat)
    (hb : BookNonneg s.book) (hp : r.priceTok = none ∧ r.priceUsd = none)
    (h : sell DCtx.exact c s r = (.ok (.trade fills fee), s')) :
    fillSum fills = roundDec c.tradeExp r.amount := by
  obtain ⟨_, ck, p, bids, hck, _, _, hbids, fills', prem, fee', hfills, _, _, hres, _⟩ := sell_ok h
  simp only [Res.trade.injEq] at hres
  obtain ⟨rfl, rfl⟩ := hres
  obtain ⟨⟨ins0, hfind, hnorm⟩, _, hmin, hamt, avail, ha, hcase⟩ := checkTx_ok hck
  have hav : avail = bids := by
    simp only [availSide, Bool.false_eq_true, if_false, hbids, Except.ok.injEq] at ha; exact ha.symm
  have hnn : 0 ≤ ck.amount := by
    rw [hamt]; exact roundDec_nonneg _ (le_trans (minAmount_pos c).le hmin)
  have hsz : ∀ l ∈ bids, 0 ≤ l.size := by
    intro l hl
    have hins : ∀ l ∈ ck.ins.bids, 0 ≤ l.size := by
      rw [hnorm]; exact normSide_nonneg (hb ins0 (findInstr_mem hfind)).2
    unfold availBids at hbids
    split at hbids
    · simp only [Except.ok.injEq] at hbids; exact hins l (hbids ▸ hl)
    · split at hbids
      · simp at hbids
      · simp only [Except.ok.injEq] at hbids
        rw [← hbids] at hl
        exact hins l (List.mem_filter.mp hl).1
  rcases hcase with ⟨_, hpn, hle⟩ | ⟨p, l, rest, hrp, _⟩
  · rw [hfills, hpn, ← hamt]
    rw [sumSizes_exact, hav] at hle
    exact C15_market_fill_total bids ck.amount hsz hnn hle
  · simp [reqPrice, hp.1, hp.2] at hrp

-- limit-priced orders at operation level (one fill of the rounded amount at one level within ±0.1 % of the requested price, buy and
-- sell, `price_in_token` and `price_in_usd`): Proofs/C15/Limit.lean — `C15_limit_fills_exactly_buy/_sell`, `C15_limit_price_within_tolerance`

/-- **contracts that are not held cannot be sold**: a sell without a position, or for more than the
    holding, is rejected and nothing changes; an accepted sell leaves `held − sold ≥ 0`. -/
theorem C15_no_short_sale (cx : DCtx) (c : TokenCfg) (s : DState) (r : Req) :
    (AList.get? s.positions r.name = none → ∃ e, sell cx c s r = (.error e, s)) ∧
    (∀ p ck, AList.get? s.positions r.name = some p → checkTx cx c s.book r false = .ok ck → p.amount < ck.amount →
        ∃ e, sell cx c s r = (.error e, s)) ∧
    (∀ res s', sell cx c s r = (.ok res, s') → ∃ p, AList.get? s.positions r.name = some p ∧
        ∃ ck, checkTx cx c s.book r false = .ok ck ∧ ck.amount ≤ p.amount) := by
  refine ⟨?_, ?_, ?_⟩
  · intro hnone
    unfold sell
    split
    · exact ⟨_, rfl⟩
    · split
      · exact ⟨_, rfl⟩
      · simp only [hnone]; exact ⟨_, rfl⟩
  · intro p ck hp hck hlt
    unfold sell
    split
    · exact ⟨_, rfl⟩
    · simp only [hck, hp, gt_iff_lt, hlt, if_true]; exact ⟨_, rfl⟩
  · intro res s' h
    obtain ⟨_, ck, p, _, hck, hp, hle, _⟩ := sell_ok h
    exact ⟨p, hp, ck, hck, hle⟩

/-- after an accepted sell (exact arithmetic) the holding is `held − sold`; the position disappears exactly
    when nothing is left -/
theorem C15_sell_position (c : TokenCfg) (s s' : DState) (r : Req) (res : Res)
    (h : sell DCtx.exact c s r = (.ok res, s')) :
    ∃ p, AList.get? s.positions r.name = some p ∧ 0 ≤ p.amount - roundDec c.tradeExp r.amount ∧
      (p.amount - roundDec c.tradeExp r.amount = 0 → s'.positions = AList.erase s.positions r.name) ∧
      (p.amount - roundDec c.tradeExp r.amount ≠ 0 → ∃ p', s'.positions = AList.set s.positions r.name p' ∧
          p'.amount = p.amount - roundDec c.tradeExp r.amount ∧ p'.sellAmt = p.sellAmt + roundDec c.tradeExp r.amount) := by
  obtain ⟨_, ck, p, _, hck, hp, hle, _, fills, prem, fee, _, _, _, _, hs'⟩ := sell_ok h
  have hamt := (checkTx_ok hck).2.2.2.1
  rw [hamt] at hle
  refine ⟨p, hp, by linarith, ?_, ?_⟩
  · intro h0
    rw [hs']
    simp only [soldPosition, exact_num, NumCtx.exact_sub, hamt, h0, le_refl, if_true]
  · intro hne
    have hpos : ¬ (p.amount - roundDec c.tradeExp r.amount ≤ 0) := by
      intro hle0; exact hne (le_antisymm hle0 (by linarith))
    rw [hs']
    simp only [soldPosition, exact_num, NumCtx.exact_sub, NumCtx.exact_add, hamt, hpos, if_false]
    exact ⟨_, rfl, rfl, rfl⟩

theorem Deribit.avgPrice_two (avg a pa pb : Rat) (h : a + pb ≠ 0) :
    avgPrice DCtx.exact [⟨avg, a⟩, ⟨pa, pb⟩] = (a * avg + pb * pa) / (a + pb) := by
  unfold avgPrice
  rw [amountOf_exact, premiumOf_exact]
  simp only [fillSum, fillCost, List.map_cons, List.map_nil, List.sum_cons, List.sum_nil, add_zero]
  rw [if_neg h]; rfl

/-- **size-weighted average buy price** (exact arithmetic): after a buy the position's average buy price is
    `(old avg × old bought + Σ price × size) / (old bought + filled)` and amounts grow by the filled amount -/
theorem C15_buy_position (c : TokenCfg) (s s' : DState) (r : Req) (fills : List Fill) (fee : Rat)
    (h : buy DCtx.exact c s r = (.ok (.trade fills fee), s')) (hfs : fillSum fills = roundDec c.tradeExp r.amount)
    (hpos : fillSum fills ≠ 0) :
    ∃ p', AList.get? s'.positions r.name = some p' ∧
      match AList.get? s.positions r.name with
      | none => p'.amount = fillSum fills ∧ p'.buyAmt = fillSum fills ∧ p'.avgBuy = fillCost fills / fillSum fills ∧
                p'.sellAmt = 0 ∧ p'.name = r.name
      | some p => p'.amount = p.amount + fillSum fills ∧ p'.buyAmt = p.buyAmt + fillSum fills ∧
                (p.buyAmt + fillSum fills ≠ 0 →
                  p'.avgBuy = (p.avgBuy * p.buyAmt + fillCost fills) / (p.buyAmt + fillSum fills)) := by
  obtain ⟨_, ck, hck, fills', prem, fee', hfills, _, _, hres, _, _, hs'⟩ := buy_ok h
  simp only [Res.trade.injEq] at hres
  obtain ⟨rfl, rfl⟩ := hres
  have hamt := (checkTx_ok hck).2.2.2.1
  have hca : ck.amount = fillSum fills := by rw [hamt, hfs]
  have havg : avgPrice DCtx.exact fills = fillCost fills / fillSum fills := by
    unfold avgPrice; rw [amountOf_exact, premiumOf_exact]; simp [hpos]
  refine ⟨boughtPosition DCtx.exact (AList.get? s.positions r.name) r ck (avgPrice DCtx.exact fills), ?_, ?_⟩
  · rw [hs']; exact AList_get_set _ _ _
  · cases hg : AList.get? s.positions r.name with
    | none =>
      simp only [boughtPosition]
      exact ⟨hca, hca, havg, trivial, trivial⟩
    | some p =>
      simp only [boughtPosition, exact_num, NumCtx.exact_add]
      refine ⟨by rw [hca], by rw [hca], ?_⟩
      intro hne
      have hne' : fillSum fills + p.buyAmt ≠ 0 := by rwa [add_comm] at hne
      rw [havg, hca, Deribit.avgPrice_two _ _ _ _ hne']
      field_simp
      ring

/-- **size-weighted average sell price** (exact arithmetic): a position that survives a sell carries
    `(old avg × old sold + Σ price × size) / (old sold + filled)` as its average sell price -/
theorem C15_sell_avg_price (c : TokenCfg) (s s' : DState) (r : Req) (fills : List Fill) (fee : Rat)
    (h : sell DCtx.exact c s r = (.ok (.trade fills fee), s')) (hfs : fillSum fills = roundDec c.tradeExp r.amount)
    (hpos : fillSum fills ≠ 0) :
    ∃ p, AList.get? s.positions r.name = some p ∧
      (p.amount - fillSum fills ≤ 0 → s'.positions = AList.erase s.positions r.name) ∧
      (¬ p.amount - fillSum fills ≤ 0 → ∃ p', AList.get? s'.positions r.name = some p' ∧
        p'.amount = p.amount - fillSum fills ∧ p'.sellAmt = p.sellAmt + fillSum fills ∧
        (p.sellAmt + fillSum fills ≠ 0 →
          p'.avgSell = (p.avgSell * p.sellAmt + fillCost fills) / (p.sellAmt + fillSum fills))) := by
  obtain ⟨_, ck, p, _, hck, hp, _, _, fills', _, _, _, _, _, hres, hs'⟩ := sell_ok h
  simp only [Res.trade.injEq] at hres
  obtain ⟨rfl, _⟩ := hres
  have hamt := (checkTx_ok hck).2.2.2.1
  have hca : ck.amount = fillSum fills := by rw [hamt, hfs]
  have havg : avgPrice DCtx.exact fills = fillCost fills / fillSum fills := by
    unfold avgPrice; rw [amountOf_exact, premiumOf_exact]; simp [hpos]
  refine ⟨p, hp, ?_, ?_⟩
  · intro hle
    rw [hs']
    simp only [soldPosition, exact_num, NumCtx.exact_sub, hca, hle, if_true]
  · intro hgt
    refine ⟨soldPosition DCtx.exact p ck.amount (avgPrice DCtx.exact fills), ?_, ?_, ?_, ?_⟩
    · rw [hs']
      simp only [soldPosition, exact_num, NumCtx.exact_sub, hca, hgt, if_false]
      exact AList_get_set _ _ _
    · simp only [soldPosition, exact_num, NumCtx.exact_sub, hca]
    · simp only [soldPosition, exact_num, NumCtx.exact_add, hca]
    · intro hne
      have hne' : fillSum fills + p.sellAmt ≠ 0 := by rwa [add_comm] at hne
      simp only [soldPosition]
      rw [havg, hca, Deribit.avgPrice_two _ _ _ _ hne']
      field_simp
      ring

/-- **no fill, no change**: an order that raises leaves cash, positions, visible book, wallet and action
    log exactly as they were (every context) -/
theorem C15_rejected_order_changes_nothing (cx : DCtx) (c : TokenCfg) (s s' : DState) (r : Req) (e : Err) :
    (buy cx c s r = (.error e, s') → s' = s) ∧ (sell cx c s r = (.error e, s') → s' = s) :=
  ⟨buy_err, sell_err⟩

/-- trades are accepted only while `market.is_open` -/
theorem C15_trades_need_open_market (cx : DCtx) (c : TokenCfg) (s : DState) (r : Req) (h : s.flagOpen = false) :
    buy cx c s r = (.error (.demeter "market-closed"), s) ∧ sell cx c s r = (.error (.demeter "market-closed"), s) := by
  constructor <;> simp [buy, sell, h]


/-- the book an accepted buy leaves (what the following orders of the bar are checked against —
    `C15_following_order_sees_shrunken_book`, Proofs/C15/Follow.lean) is the old book with the asks of that instrument rewritten: the normalised
    side (best first, one level per price) minus the fills -/
theorem C15_buy_book (cx : DCtx) (c : TokenCfg) (s s' : DState) (r : Req) (fills : List Fill) (fee : Rat)
    (h : buy cx c s r = (.ok (.trade fills fee), s')) :
    ∃ ins, findInstr s.book r.name = some ins ∧
      s'.book = setAsks s.book r.name (newOrderList cx (normSide cx true ins.asks) fills) := by
  obtain ⟨_, ck, hck, fills', _, _, _, _, _, hres, _, _, hs'⟩ := buy_ok h
  simp only [Res.trade.injEq] at hres
  obtain ⟨rfl, _⟩ := hres
  obtain ⟨⟨ins0, hfind, hnorm⟩, _⟩ := checkTx_ok hck
  exact ⟨ins0, hfind, by rw [hs', hnorm]; rfl⟩

/-! ### non-vacuity: a concrete book on which the hypotheses hold and the operations succeed -/

def Deribit.exInstr : Instr :=
  { name := "ETH-22SEP23-1650-C", stateOpen := true, kind := .call, strike := 1650, expiry := 30000,
    mark := 287 / 10000, underlying := 165194 / 100, delta := 52071 / 100000, gamma := 342 / 100000,
    asks := [⟨57 / 2000, 5, false⟩, ⟨29 / 1000, 605, false⟩, ⟨59 / 2000, 197, true⟩],
    bids := [⟨28 / 1000, 51, false⟩, ⟨55 / 2000, 585, false⟩] }

def Deribit.exState : DState :=
  { cash := 100, positions := [], book := [Deribit.exInstr], wallet := [("ETH", 5)], allowNeg := false, actions := [],
    cache := none, flagOpen := true, now := 360, price := 165194 / 100, priceDec := false }

def Deribit.exReq (a : Rat) (p : Option Rat) : Req :=
  { name := "ETH-22SEP23-1650-C", amount := a, priceTok := p, priceUsd := none, mult := none }

-- 9.5 contracts round (half up) to 10: 5 @ 0.0285 then 5 @ 0.029; fee = min(0.0003·10, 0.125·0.2875) = 0.003
example : (buy DCtx.exact ethCfg Deribit.exState (Deribit.exReq (19 / 2) none)).1 =
    .ok (.trade [⟨57 / 2000, 5⟩, ⟨29 / 1000, 5⟩] (3 / 1000)) := by decide +kernel
example : (buy DCtx.exact ethCfg Deribit.exState (Deribit.exReq (19 / 2) none)).2.cash =
    100 - (5 * (57 / 2000) + 5 * (29 / 1000) + 3 / 1000) := by decide +kernel
-- the following order sees 0 / 600 / 197: 601 more contracts take 600 @ 0.029 and 1 @ 0.0295
example : (step DCtx.exact ethCfg (runOps DCtx.exact ethCfg Deribit.exState [.buy (Deribit.exReq (19 / 2) none)])
      (.buy (Deribit.exReq 601 none))).1 = .ok (.trade [⟨29 / 1000, 600⟩, ⟨59 / 2000, 1⟩] (1803 / 10000)) := by decide +kernel
-- a limit order within 0.1 % of a level fills there only; selling what was bought; selling more is refused
example : (buy DCtx.exact ethCfg Deribit.exState (Deribit.exReq 7 (some (29005 / 1000000)))).1 =
    .ok (.trade [⟨29 / 1000, 7⟩] (21 / 10000)) := by decide +kernel
example : (sell DCtx.exact ethCfg (buy DCtx.exact ethCfg Deribit.exState (Deribit.exReq 10 none)).2 (Deribit.exReq 10 none)).1 =
    .ok (.trade [⟨28 / 1000, 10⟩] (3 / 1000)) := by decide +kernel
example : (sell DCtx.exact ethCfg (buy DCtx.exact ethCfg Deribit.exState (Deribit.exReq 10 none)).2 (Deribit.exReq 11 none)).1 =
    .error (.demeter "exceeds-holding") := by decide +kernel
example : BookNonneg Deribit.exState.book := by
  intro i hi; simp [Deribit.exState] at hi; subst hi; simp [Deribit.exInstr]
example : Deribit.exState.onGrid = true := by decide +kernel
-- a closed minute of the hour (00:01) without a cached valuation: the second alternative of `C15_equity`
example : ({ Deribit.exState with now := 361 } : DState).onGrid = false ∧ ({ Deribit.exState with now := 361 } : DState).cache = none := by
  decide +kernel

end Demeter
