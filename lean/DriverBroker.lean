import Demeter.Drv.Json
import Demeter.Drv.Broker
open Demeter Demeter.Drv
def main : IO Unit := serve brokerHandlers brokerJHandlers
