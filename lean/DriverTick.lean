import Demeter.Drv.Json
import Demeter.Drv.Tick
open Demeter Demeter.Drv
def main : IO Unit := serve tickHandlers tickJHandlers
