import Demeter.Drv.Json
import Demeter.Drv.Core
open Demeter Demeter.Drv
def main : IO Unit := serve coreHandlers coreJHandlers
