import Demeter.Drv.Json
import Demeter.Drv.Squeeth
open Demeter Demeter.Drv
def main : IO Unit := serve squeethHandlers squeethJHandlers
