import Demeter.Drv.Json
import Demeter.Drv.Metrics
open Demeter Demeter.Drv
def main : IO Unit := serve metricsHandlers metricsJHandlers
