import Demeter.Drv.Json
import Demeter.Drv.AaveRisk
open Demeter Demeter.Drv
def main : IO Unit := serve aaveRiskHandlers aaveRiskJHandlers
