import Proofs.C06
import Proofs.C06.Full
import Proofs.C07
