import Demeter.Drv.Json
import Demeter.Drv.Gmx
open Demeter Demeter.Drv
def main : IO Unit := serve gmxHandlers gmxJHandlers
