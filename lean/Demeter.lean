import Demeter.Num
import Demeter.TickMath
import Demeter.LiqMath
import Demeter.Wallet
import Demeter.Broker
import Demeter.TickPrice
