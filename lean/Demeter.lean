import Demeter.Num
import Demeter.TickMath
import Demeter.LiqMath
