import Demeter.Drv.Json
import Demeter.Drv.Aave
open Demeter Demeter.Drv
def main : IO Unit := serve aaveHandlers aaveJHandlers
