"""Constants of demeter/result/metrics (calculator.py, core.py) for Demeter/Gen/ConstsMetrics.lean.

Everything is read from the source text with `ast`; if a literal is missing, or the occurrences that must
agree do not, the generator fails with a ShapeError (treated like a broken correspondence)."""
import ast


def register(add, parse, find_func, const_int, rat_of, ShapeError, module_assign):
    calc = parse("demeter/result/metrics/calculator.py")

    def year_literals(fn, var):
        """int literals `c` in `c / var` or `var / c` inside function fn"""
        out = []
        for n in ast.walk(fn):
            if isinstance(n, ast.BinOp) and isinstance(n.op, ast.Div):
                l, r = n.left, n.right
                if isinstance(l, ast.Constant) and getattr(r, "id", None) == var:
                    out.append(const_int(l))
                if isinstance(r, ast.Constant) and getattr(l, "id", None) == var:
                    out.append(const_int(r))
        return out

    ann = year_literals(find_func(calc, "annualized_return"), "duration_in_day")
    if len(ann) != 5 or len(set(ann)) != 1:
        raise ShapeError(f"annualized_return: expected five equal days-per-year literals, got {ann}")
    add("metricsDaysPerYear", "Rat", rat_of(ann[0]), "days per year in every branch of annualized_return (calculator.py)")
    vol = year_literals(find_func(calc, "volatility"), "interval_in_day")
    if len(vol) != 1:
        raise ShapeError(f"volatility: expected one days-per-year literal, got {vol}")
    add("metricsVolDaysPerYear", "Rat", rat_of(vol[0]), "days per year in volatility (calculator.py)")

    # initial values of the max-drawdown scan: g_withdraw, g_high, g_low = <v>, <h>, <l>
    scan = find_func(calc, "_withdraw_with_high_low")
    init = None
    for n in ast.walk(scan):
        if isinstance(n, ast.Assign) and isinstance(n.targets[0], ast.Tuple) and \
                [getattr(e, "id", "") for e in n.targets[0].elts] == ["g_withdraw", "g_high", "g_low"] and init is None:
            init = n.value
    if init is None or not isinstance(init, ast.Tuple):
        raise ShapeError("_withdraw_with_high_low: initial (g_withdraw, g_high, g_low) not found")
    g0 = init.elts[0]
    if isinstance(g0, ast.Constant) and isinstance(g0.value, (int, float)):
        add("metricsMddInit", "Option Rat", f"some {rat_of(g0.value)}", "initial g_withdraw of the max-drawdown scan")
    elif isinstance(g0, ast.UnaryOp) and isinstance(g0.op, ast.USub) and getattr(g0.operand, "attr", "") == "inf":
        add("metricsMddInit", "Option Rat", "none", "initial g_withdraw of the max-drawdown scan: -np.inf")
    else:
        raise ShapeError("_withdraw_with_high_low: unexpected initial g_withdraw: " + ast.dump(g0))
    add("metricsMddInitHigh", "Int", f"({const_int(init.elts[1])})", "initial g_high")
    add("metricsMddInitLow", "Int", f"({const_int(init.elts[2])})", "initial g_low")

    # The body of the scan (the `> 0` guard, the relative `_dp`, the comparisons) is not flagged here: `_withdraw_with_high_low` is translated
    # whole by tools/py2lean.py and tied to the model by Proofs/Tie/Metrics.lean (`Tie_metrics_withdraw_with_high_low`), which stops checking
    # when any of them changes.  `max_draw_down` itself (pandas `.iloc`) is not translated, so its two statements are flagged:
    #   max_value, idx_h, idx_l = _withdraw_with_high_low(net_value.to_list())
    #   return (net_value.iloc[idx_h] - net_value.iloc[idx_l]) / net_value.iloc[idx_h]
    mdd = find_func(calc, "max_draw_down")
    body = [n for n in mdd.body if not (isinstance(n, ast.Expr) and isinstance(n.value, ast.Constant))]   # without the docstring
    want = ast.parse("max_value, idx_h, idx_l = _withdraw_with_high_low(net_value.to_list())\n"
                     "return (net_value.iloc[idx_h] - net_value.iloc[idx_l]) / net_value.iloc[idx_h]").body
    same = len(body) == 2 and [a.arg for a in mdd.args.args] == ["net_value"] and all(ast.dump(a) == ast.dump(b) for a, b in zip(body, want))
    add("metricsMddQuotientOnScanIndices", "Bool", "true" if same else "false",
        "max_draw_down returns (nv[idx_h] - nv[idx_l]) / nv[idx_h] on the indices _withdraw_with_high_low returns (calculator.py)")

    core = parse("demeter/result/metrics/core.py")
    pm = find_func(core, "performance_metrics")
    # interval.value / 1e9 / 86400
    pairs = []
    for n in ast.walk(pm):
        if isinstance(n, ast.BinOp) and isinstance(n.op, ast.Div) and isinstance(n.right, ast.Constant) \
                and isinstance(n.left, ast.BinOp) and isinstance(n.left.op, ast.Div) and isinstance(n.left.right, ast.Constant):
            pairs.append((n.left.right.value, n.right.value))
    if len(pairs) != 2 or len(set(pairs)) != 1:
        raise ShapeError(f"performance_metrics: expected two equal `/ 1e9 / 86400` conversions, got {pairs}")
    ns, sec = pairs[0]
    add("metricsNsPerSec", "Rat", rat_of(ns), "nanoseconds per second (core.py)")
    add("metricsSecPerDay", "Rat", rat_of(sec), "seconds per day (core.py)")
    rf = None
    args = pm.args
    names = [a.arg for a in args.args]
    defaults = dict(zip(names[len(names) - len(args.defaults):], args.defaults))
    if "annualized_risk_free_rate" in defaults and isinstance(defaults["annualized_risk_free_rate"], ast.Constant):
        rf = defaults["annualized_risk_free_rate"].value
    if rf is None:
        raise ShapeError("performance_metrics: default annualized_risk_free_rate not found")
    add("metricsDefaultRiskFree", "Rat", rat_of(rf), f"exact binary value of the default risk-free rate {rf!r}")
    # the source flags of BacktestManager (C19) live in tools/consts_manager.py -> Demeter/Gen/ConstsManager.lean
