"""Constants of demeter/result/metrics (calculator.py, core.py) and of BacktestManager for Demeter/Gen/ConstsMetrics.lean.

Everything is read from the source text with `ast`; if a literal is missing, or the occurrences that must
agree do not, the generator fails with a ShapeError (treated like a broken correspondence)."""
import ast


def register(add, parse, find_func, const_int, rat_of, ShapeError, module_assign):
    calc = parse("demeter/result/metrics/calculator.py")

    def year_literals(fn, var):
        """int literals `c` in `c / var` or `var / c` inside function fn"""
        out = []
        for n in ast.walk(fn):
            if isinstance(n, ast.BinOp) and isinstance(n.op, ast.Div):
                l, r = n.left, n.right
                if isinstance(l, ast.Constant) and getattr(r, "id", None) == var:
                    out.append(const_int(l))
                if isinstance(r, ast.Constant) and getattr(l, "id", None) == var:
                    out.append(const_int(r))
        return out

    ann = year_literals(find_func(calc, "annualized_return"), "duration_in_day")
    if len(ann) != 5 or len(set(ann)) != 1:
        raise ShapeError(f"annualized_return: expected five equal days-per-year literals, got {ann}")
    add("metricsDaysPerYear", "Rat", rat_of(ann[0]), "days per year in every branch of annualized_return (calculator.py)")
    vol = year_literals(find_func(calc, "volatility"), "interval_in_day")
    if len(vol) != 1:
        raise ShapeError(f"volatility: expected one days-per-year literal, got {vol}")
    add("metricsVolDaysPerYear", "Rat", rat_of(vol[0]), "days per year in volatility (calculator.py)")

    # initial values of the max-drawdown scan: g_withdraw, g_high, g_low = <v>, <h>, <l>
    scan = find_func(calc, "_withdraw_with_high_low")
    init = None
    for n in ast.walk(scan):
        if isinstance(n, ast.Assign) and isinstance(n.targets[0], ast.Tuple) and \
                [getattr(e, "id", "") for e in n.targets[0].elts] == ["g_withdraw", "g_high", "g_low"] and init is None:
            init = n.value
    if init is None or not isinstance(init, ast.Tuple):
        raise ShapeError("_withdraw_with_high_low: initial (g_withdraw, g_high, g_low) not found")
    g0 = init.elts[0]
    if isinstance(g0, ast.Constant) and isinstance(g0.value, (int, float)):
        add("metricsMddInit", "Option Rat", f"some {rat_of(g0.value)}", "initial g_withdraw of the max-drawdown scan")
    elif isinstance(g0, ast.UnaryOp) and isinstance(g0.op, ast.USub) and getattr(g0.operand, "attr", "") == "inf":
        add("metricsMddInit", "Option Rat", "none", "initial g_withdraw of the max-drawdown scan: -np.inf")
    else:
        raise ShapeError("_withdraw_with_high_low: unexpected initial g_withdraw: " + ast.dump(g0))
    add("metricsMddInitHigh", "Int", f"({const_int(init.elts[1])})", "initial g_high")
    add("metricsMddInitLow", "Int", f"({const_int(init.elts[2])})", "initial g_low")

    core = parse("demeter/result/metrics/core.py")
    pm = find_func(core, "performance_metrics")
    # interval.value / 1e9 / 86400
    pairs = []
    for n in ast.walk(pm):
        if isinstance(n, ast.BinOp) and isinstance(n.op, ast.Div) and isinstance(n.right, ast.Constant) \
                and isinstance(n.left, ast.BinOp) and isinstance(n.left.op, ast.Div) and isinstance(n.left.right, ast.Constant):
            pairs.append((n.left.right.value, n.right.value))
    if len(pairs) != 2 or len(set(pairs)) != 1:
        raise ShapeError(f"performance_metrics: expected two equal `/ 1e9 / 86400` conversions, got {pairs}")
    ns, sec = pairs[0]
    add("metricsNsPerSec", "Rat", rat_of(ns), "nanoseconds per second (core.py)")
    add("metricsSecPerDay", "Rat", rat_of(sec), "seconds per day (core.py)")
    rf = None
    args = pm.args
    names = [a.arg for a in args.args]
    defaults = dict(zip(names[len(names) - len(args.defaults):], args.defaults))
    if "annualized_risk_free_rate" in defaults and isinstance(defaults["annualized_risk_free_rate"], ast.Constant):
        rf = defaults["annualized_risk_free_rate"].value
    if rf is None:
        raise ShapeError("performance_metrics: default annualized_risk_free_rate not found")
    add("metricsDefaultRiskFree", "Rat", rat_of(rf), f"exact binary value of the default risk-free rate {rf!r}")

    # ---- BacktestManager (C19): does _start attach a copy of each configured market, and when is the run sequential?
    bt = parse("demeter/core/backtest.py")
    start = find_func(bt, "_start")
    copies = False
    for n in ast.walk(start):
        if isinstance(n, ast.For) and getattr(n.iter, "attr", "") == "markets" and getattr(n.target, "id", "") == "market":
            seen_copy = False
            for st in n.body:
                # market = copy.deepcopy(market)   (before broker.add_market(market))
                if isinstance(st, ast.Assign) and getattr(st.targets[0], "id", "") == "market" and isinstance(st.value, ast.Call) \
                        and getattr(st.value.func, "attr", getattr(st.value.func, "id", "")) == "deepcopy" \
                        and len(st.value.args) == 1 and getattr(st.value.args[0], "id", "") == "market":
                    seen_copy = True
                if isinstance(st, ast.Expr) and isinstance(st.value, ast.Call) and getattr(st.value.func, "attr", "") == "add_market":
                    copies = seen_copy
    add("managerCopiesMarkets", "Bool", "true" if copies else "false",
        "_start attaches copy.deepcopy(market) of every configured market (false: the configured objects themselves)")
    run = find_func(bt, "run", cls="BacktestManager")
    seq_shape = False
    for n in ast.walk(run):
        if isinstance(n, ast.If) and isinstance(n.test, ast.BoolOp) and isinstance(n.test.op, ast.Or) and len(n.test.values) == 2:
            a, b = n.test.values
            def is_eq_one(c, what):
                return isinstance(c, ast.Compare) and isinstance(c.ops[0], ast.Eq) and const_int(c.comparators[0]) == 1 and what in ast.dump(c.left)
            if is_eq_one(a, "strategies") and is_eq_one(b, "threads"):
                seq_shape = True
    add("managerSeqIfOneStrategyOrOneThread", "Bool", "true" if seq_shape else "false",
        "BacktestManager.run takes the in-process path iff len(strategies) == 1 or threads == 1")
    # market.data = data.data[market.market_info].copy(deep=False)   (a per-run view of the shared frame)
    view = False
    for n in ast.walk(start):
        if isinstance(n, ast.Assign) and isinstance(n.targets[0], ast.Attribute) and n.targets[0].attr == "data" \
                and getattr(n.targets[0].value, "id", "") == "market" and isinstance(n.value, ast.Call) \
                and getattr(n.value.func, "attr", "") == "copy" and isinstance(n.value.func.value, ast.Subscript):
            view = True
    add("managerDataView", "Bool", "true" if view else "false",
        "_start assigns a copy (DataFrame.copy) of the shared data frame to market.data (false: the shared frame itself)")
