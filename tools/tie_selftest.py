#!/usr/bin/env python3
"""tools/tie_selftest.py <patch.diff | seeded/Cxx-mi> <Proofs.Tie.Module> [...]
Apply a patch to a scratch checkout of /repo, regenerate lean/Demeter/Gen/*.lean from it (gen_consts + py2lean), build the
named tie modules, print one verdict line, and restore the generated files from the unchanged /repo.
Verdicts: TRANSLATOR-FAILED-LOUDLY (a ShapeError names the construct; the tie theorem of that function cannot compile),
          TIE-BROKE (the generated definition changed and the tie theorem no longer proves),
          NOT-NOTICED (everything still builds: the change is outside the translated functions, or semantically neutral)."""
import os, subprocess, sys, shutil

V = os.path.dirname(os.path.dirname(os.path.abspath(__file__)))
SCR = os.path.join(os.environ.get("TIE_SELFTEST_SCRATCH", "/var/tmp"), f"tr-repo.{os.getpid()}")


def sh(cmd, **kw):
    p = subprocess.run(cmd, stdout=subprocess.PIPE, stderr=subprocess.STDOUT, text=True, **kw)
    return p.returncode, "\n".join(l for l in p.stdout.split("\n") if "conda" not in l)


def main():
    patch, mods = sys.argv[1], sys.argv[2:]
    if os.path.isdir(patch):
        patch = os.path.join(patch, "patch.diff")
    patch = os.path.abspath(patch)
    sh(["git", "-C", "/repo", "worktree", "add", "-q", "--detach", SCR, "HEAD"])
    try:
        rc, out = sh(["git", "-C", SCR, "apply", patch])
        if rc != 0:
            print(f"{sys.argv[1]}: patch does not apply: {out.strip()[:200]}")
            return 2
        env = dict(os.environ, DEMETER_REPO=SCR)
        rc, out = sh(["python3", os.path.join(V, "tools", "gen_consts.py")], env=env)
        shape = [l for l in out.split("\n") if "SHAPE-ERROR" in l]
        gen = [l for l in out.split("\n") if l.startswith(("py2lean:", "gen_consts:")) and "SHAPE-ERROR" not in l]
        failed = []
        for m in mods:
            rc_m, out_m = sh(["lake", "build", m], cwd=os.path.join(V, "lean"))
            if rc_m != 0:
                errs = [l for l in out_m.split("\n") if l.startswith("error:")]
                failed.append((m, (errs[0] if errs else out_m.strip().split("\n")[-1])[:220]))
        if shape and failed:
            verdict = "TRANSLATOR-FAILED-LOUDLY"
        elif failed:
            verdict = "TIE-BROKE"
        elif shape:
            verdict = "TRANSLATOR-FAILED-LOUDLY (but no listed tie module depends on it)"
        else:
            verdict = "NOT-NOTICED"
        print(f"{sys.argv[1]}: {verdict}")
        for l in shape:
            print("   " + l[:260])
        for l in gen:
            print("   " + l[:200])
        for m, e in failed:
            print(f"   {m}: {e}")
        return 0
    finally:
        sh(["git", "-C", "/repo", "worktree", "remove", "--force", SCR])
        shutil.rmtree(SCR, ignore_errors=True)
        sh(["python3", os.path.join(V, "tools", "gen_consts.py")])   # restore the generated files


if __name__ == "__main__":
    sys.exit(main())
