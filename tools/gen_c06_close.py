#!/usr/bin/env python3
"""Writes the C06 closeness sweep files (builder `tick`):
     lean/Proofs/Lemmas/ClosePred.lean   constants encC_i = floor(2^192 * (10000/10001)^(2^i / 2)), unrolled enclosure product, predicates
     lean/Proofs/C06/Close00..27.lean    28 shards x 16 blocks of 2^11 |tick| values (`decide +kernel`)
     lean/Proofs/C06/CloseAll.lean
   NOT trusted: the constants are re-certified in the Lean kernel (Proofs/C06/CloseCert.lean).  Run only to re-shard;
   the output is checked in.  Usage: python3 tools/gen_c06_close.py"""
import os
ROOT = os.path.join(os.path.dirname(os.path.abspath(__file__)), "..", "lean")
from math import isqrt
W=192
P,Q=10001,10000
cs=[]
for i in range(20):
    n=2**i
    # floor(2^W * sqrt(Q^n/P^n)) = floor(sqrt(2^(2W) Q^n / P^n))
    num=(1<<(2*W))*Q**n
    den=P**n
    c=isqrt(num//den)
    # adjust: c^2*den <= num < (c+1)^2 den
    while c*c*den>num: c-=1
    while (c+1)*(c+1)*den<=num: c+=1
    cs.append(c)
W=192
def unrolled():
    s="(cond (Nat.beq (Nat.land a 1) 0) %d %d)"%(1<<W, cs[0])
    for i in range(1,20):
        s="(encStepU a %d %d %s)"%(1<<i, cs[i], s)
    return s
out=f'''/-
  Closeness / tick-gap sweep predicate (C06 (c), (e)) on raw `Nat` primitives, evaluated by the kernel in the shard
  files Proofs/C06/CloseNN.lean.

  `encLowU a` is a 192-bit fixed-point *lower* approximation of `2^192·(10000/10001)^(a/2)`: the product
  (each step rounded down) of the constants `encC i = ⌊2^192·(10000/10001)^(2^i/2)⌋` selected by the bits of `a`.
  The constants are NOT trusted: Proofs/C06/CloseCert.lean checks `c² · 10001^(2^i) ≤ 2^384 · 10000^(2^i) < (c+1)² · 10001^(2^i)`
  in the kernel, and Proofs/Lemmas/TickEnc.lean derives `L² · 10001^a ≤ 2^384 · 10000^a ≤ (L+40)² · 10001^a` for `L = encLowU a`.
  (written by a throw-away script; constants = `isqrt(2^384·10000^n // 10001^n)`, n = 2^i)
-/
import Proofs.Lemmas.SweepN
namespace Demeter.TickClose
open Demeter Gen

/-- `⌊2^192 · (10000/10001)^(2^i / 2)⌋`, i = 0 … 19 (certified in Proofs/C06/CloseCert.lean) -/
def encC : List Nat := [
{(","+chr(10)).join("  %d"%c for c in cs)}
]

/-- (mask, constant) pairs for bits 1 … 19, same order as `tickTable` -/
def encTable : List (Nat × Nat) := [
{(","+chr(10)).join("  (%d, %d)"%(1<<i,cs[i]) for i in range(1,20))}
]
def encStartOdd : Nat := {cs[0]}
def encStartEven : Nat := {1<<W}

/-- one step of the enclosure product: `if a & mask != 0: r = (r * c) >> 192` -/
def encStepU (a mask c r : Nat) : Nat :=
  cond (Nat.beq (Nat.land a mask) 0) r (Nat.shiftRight (Nat.mul r c) 192)

/-- unrolled lower enclosure product -/
def encLowU (a : Nat) : Nat :=
  {unrolled()}

/-- width allowed for the enclosure: the ideal value lies in `[L, L + encSlack]` -/
def encSlack : Nat := 40

/-- tick ≤ 0: with `n = sqrtNegU a`, `l = encLowU a`:  `(n−1)·2^96 < l`  and  `l + 40 < (n+1)·2^96` -/
def closeNegB (n l : Nat) : Bool :=
  Nat.blt (Nat.mul n {1<<96}) (Nat.add l {1<<96}) &&
  Nat.blt (Nat.add l 40) (Nat.mul (Nat.add n 1) {1<<96})

/-- tick > 0: with `p = sqrtPosU a`, `l = encLowU a`, `u = l + 40` (so `2^288/u ≤ ideal ≤ 2^288/l`):
    `p < 2^288/u + 1 + 2^355/u²`,  `2^288/l − 1 − 2^355/l² < p`,  `1 + 2^355/l² ≤ p`,  `2^68 ≤ l` -/
def closePosB (p l : Nat) : Bool :=
  Nat.blt (Nat.mul p (Nat.mul (Nat.add l 40) (Nat.add l 40)))
          (Nat.add (Nat.add (Nat.mul {1<<288} (Nat.add l 40)) (Nat.mul (Nat.add l 40) (Nat.add l 40))) {1<<355}) &&
  Nat.blt (Nat.mul {1<<288} l) (Nat.add (Nat.mul (Nat.add p 1) (Nat.mul l l)) {1<<355}) &&
  Nat.ble (Nat.add {1<<355} (Nat.mul l l)) (Nat.mul p (Nat.mul l l)) &&
  Nat.ble {1<<68} l

/-- closeness at |tick| = a, both signs -/
def closePred (a : Nat) : Bool :=
  Nat.blt tickBound a ||
    (closeNegB (sqrtNegU a) (encLowU a) && closePosB (sqrtPosU a) (encLowU a))

/-- relative gap between neighbouring ticks at |tick| = a, both signs: `1.00004 · s(t) ≤ s(t+1)` -/
def gapPred (a : Nat) : Bool :=
  Nat.ble tickBound a ||
    (Nat.ble (Nat.mul 100004 (sqrtNegU (Nat.add a 1))) (Nat.mul 100000 (sqrtNegU a)) &&
     Nat.ble (Nat.mul 100004 (sqrtPosU a)) (Nat.mul 100000 (sqrtPosU (Nat.add a 1))))

def closeSweepPred (a : Nat) : Bool := closePred a && gapPred a

/-- two checked half-blocks make a checked block (the shards are evaluated in blocks of 2^11 per declaration to keep
    the kernel's caches — ≈ 170 KB per tick — small) -/
theorem chkN_join (p : Nat → Bool) (lo d : Nat) (h1 : chkN p lo d = true) (h2 : chkN p (lo + 2 ^ d) d = true) :
    chkN p lo (d + 1) = true := by
  simp only [chkN, h1, h2, Bool.and_self]

end Demeter.TickClose
'''
open(os.path.join(ROOT,'Proofs/Lemmas/ClosePred.lean'),'w').write(out)

def join(lo, d, base=11):
    if d == base:
        return f"close_blk_{lo}"
    return f"(chkN_join _ {lo} {d-1} {join(lo,d-1)} {join(lo+2**(d-1),d-1)})"
for k in range(28):
    lo=k*32768
    blks="\n".join(f"set_option maxRecDepth 100000 in\ntheorem close_blk_{lo+j*2048} : chkN closeSweepPred {lo+j*2048} 11 = true := by decide +kernel" for j in range(16))
    open(os.path.join(ROOT,f'Proofs/C06/Close{k:02d}.lean'),'w').write(f'''-- shard {k} of the closeness / tick-gap sweep (C06 (c), (e)): |tick| in [{lo}, {lo+32768}), 16 blocks of 2^11
import Proofs.Lemmas.ClosePred
namespace Demeter.TickClose
{blks}
theorem close_shard_{k:02d} : chkN closeSweepPred {lo} shardBits = true :=
  {join(lo,15)}
end Demeter.TickClose
''')
imports = "\n".join(f"import Proofs.C06.Close{k:02d}" for k in range(28))
cases = "\n".join(f"    | {k}, _ => exact close_shard_{k:02d}" for k in range(28))
open(os.path.join(ROOT, 'Proofs/C06/CloseAll.lean'), 'w').write(f'''/-
  All closeness shards together: `closeSweepPred a` holds for every a < 28·2^15 = 917504 (> 887272).
-/
{imports}
namespace Demeter.TickClose
open Demeter

theorem close_all (a : Nat) (h : a < 917504) : closeSweepPred a = true := by
  have hk : a / 32768 < 28 := by omega
  have hlo : (a / 32768) * 32768 ≤ a := Nat.div_mul_le_self a 32768
  have hhi : a < (a / 32768) * 32768 + 2 ^ 15 := by
    have := Nat.lt_div_mul_add (a := a) (b := 32768) (by decide)
    omega
  have key : ∀ k, k < 28 → chkN closeSweepPred (k * 32768) 15 = true := by
    intro k hk
    match k, hk with
{cases}
    | k + 28, hk => exact absurd hk (by omega)
  exact chkN_sound closeSweepPred 15 _ (key _ hk) a hlo hhi

end Demeter.TickClose
''')
